(* Case interpreter for C08 and C13: one case is a whole operation sequence
   against one fresh session,
     (seq OP ...)      OP = (attach fid afid TOKS) | (walk fid newfid (NAME ...) TOKS) | ...
                       TOKS = (t t t), t = fail + 8*dir + 16*nq
   and the observation lists, per executed operation, the result class, the
   fid table afterwards (sorted by fid; what p9p.VerifFidTable reports) and
   the file-system calls made, by entry id. *)
From Coq Require Import List NArith ZArith Bool String.
From P9 Require Import Base.Sexp Model.Path Model.Session.
Import ListNotations.
Open Scope N_scope.

Definition tok_of (s : sexp) : tok :=
  let n := get_N s in Tok (n mod 8) (negb ((n / 8) mod 2 =? 0)) (n / 16).
Definition toks_of (s : sexp) : list tok := map tok_of (get_list s).

Definition op_of (c : sexp) : op * list tok :=
  if head_is c "auth" then (OAuth (get_N (arg c 0)), toks_of (arg c 1))
  else if head_is c "attach" then (OAttach (get_N (arg c 0)) (get_N (arg c 1)), toks_of (arg c 2))
  else if head_is c "walk" then
    (OWalk (get_N (arg c 0)) (get_N (arg c 1)) (map get_bytes (get_list (arg c 2))), toks_of (arg c 3))
  else if head_is c "open" then (OOpen (get_N (arg c 0)) (get_N (arg c 1)), toks_of (arg c 2))
  else if head_is c "create" then
    (OCreate (get_N (arg c 0)) (get_bytes (arg c 1)) (get_N (arg c 2)), toks_of (arg c 3))
  (* (read fid buf TOKS), (write fid buf TOKS): buf = 0 nil, 1 empty, 2 sixty-four bytes *)
  else if head_is c "read" then (ORead (get_N (arg c 0)) (if get_N (arg c 1) <? 2 then 0 else 64), toks_of (arg c 2))
  else if head_is c "write" then (OWrite (get_N (arg c 0)), toks_of (arg c 2))
  else if head_is c "stat" then (OStat (get_N (arg c 0)), toks_of (arg c 1))
  else if head_is c "wstat" then (OWStat (get_N (arg c 0)), toks_of (arg c 1))
  else if head_is c "clunk" then (OClunk (get_N (arg c 0)), toks_of (arg c 1))
  else if head_is c "remove" then (ORemove (get_N (arg c 0)), toks_of (arg c 1))
  else (OStop, toks_of (arg c 0)).

Definition err_name (e : errc) : string :=
  match e with
  | EUnknown => "unknownfid" | EDup => "dupfid" | EBadpath => "badpath" | ENotdir => "notdir"
  | ENil => "nilres" | EFs => "fs" | ENofile => "nofile" | ENoread => "noread" | ENowrite => "nowrite"
  | EIsopen => "isopen" | EBadname => "badname" | ECrnondir => "crnondir" | ENoauth => "noauth"
  | EInvalid => "invalid"
  end.

Definition sexp_of_result (r : result) : sexp :=
  match r with
  | ROk n => SList [ssym "ok"; snat n]
  | RErr e => SList [ssym "err"; ssym (err_name e)]
  | RHang => ssym "hang"
  end.

Definition sexp_of_call (c : call) : sexp :=
  match c with
  | CAttach => SList [ssym "attach"]
  | CWalk e n => SList [ssym "walk"; snat e; snat n]
  | COpenDir e => SList [ssym "opendir"; snat e]
  | COpen e m => SList [ssym "open"; snat e; snat m]
  | CCreate e => SList [ssym "create"; snat e]
  | CRead e => SList [ssym "read"; snat e]
  | CWrite e => SList [ssym "write"; snat e]
  | CNext e => SList [ssym "next"; snat e]
  | CStat e => SList [ssym "stat"; snat e]
  | CWStat e => SList [ssym "wstat"; snat e]
  | CClunk e => SList [ssym "clunk"; snat e]
  | CRemove e => SList [ssym "remove"; snat e]
  end.

Definition call_key (c : call) : N :=
  match c with
  | CAttach => 0 | CWalk e _ | COpenDir e | COpen e _ | CCreate e | CRead e | CWrite e | CNext e
  | CStat e | CWStat e | CClunk e | CRemove e => e + 1
  end.

Fixpoint ins {A} (key : A -> N) (x : A) (l : list A) : list A :=
  match l with
  | [] => [x]
  | y :: r => if key x <=? key y then x :: l else y :: ins key x r
  end.
Definition sort_by {A} (key : A -> N) (l : list A) : list A := fold_right (ins key) [] l.

(* what VerifFidTable shows: a held lock hides the fields *)
Definition sexp_of_row (kv : N * sfid) : sexp :=
  let '(f, sf) := kv in
  if s_locked sf then SList [snat f; sbool false; sbool false; snat 0; sbool true]
  else SList [snat f; sbool (match s_ent sf with Some _ => true | None => false end);
              sbool (match s_file sf with Some _ => true | None => false end);
              snat (s_mode sf); sbool false].

Definition sexp_of_table (s : sess) : sexp := SList (map sexp_of_row (sort_by fst (table s))).

Definition is_stop (o : op) : bool := match o with OStop => true | _ => false end.

Definition sexp_of_step (o : op) (x : R3) : sexp :=
  let '(s, r, cs) := x in
  let cs := if is_stop o then sort_by call_key cs else cs in
  SList [sexp_of_result r; sexp_of_table s; SList (map sexp_of_call cs)].

Fixpoint zip_obs (ops : list (op * list tok)) (tr : list R3) : list sexp :=
  match ops, tr with
  | (o, _) :: ops, x :: tr => sexp_of_step o x :: zip_obs ops tr
  | _, _ => []
  end.

Definition run_case (c : sexp) : sexp :=
  if head_is c "seq" then
    let ops := map op_of (tl (get_list c)) in
    SList (zip_obs ops (srun sess0 ops))
  else if head_is c "inflight" then
    (* (inflight (SETUP-OP ...) OP): OP is held inside its file-system call while Stop is called *)
    let ops := map op_of (get_list (arg c 0)) in
    let tr := srun sess0 ops in
    let '(o, ts) := op_of (arg c 1) in
    let '((_, r, cs), (s3, _, cs2)) := inflight_stop (final sess0 tr) o ts in
    SList (zip_obs ops tr ++
           [SList [ssym "stop"; ssym (if stop_waits o then "blocked" else "returned")];
            SList [sexp_of_result r; sexp_of_table s3; SList (map sexp_of_call (sort_by call_key (cs ++ cs2)))]])
  else if head_is c "stopwait" || head_is c "queued" then
    (* (stopwait|queued (SETUP-OP ...) OP1 OP2): two operations at the same time, serialised by the
       fid locks as OP1 then OP2; the k-th file-system call of the pair takes OP1's k-th token.
       stopwait: Stop runs beside them and finishes last. *)
    let ops := map op_of (get_list (arg c 0)) in
    let tr := srun sess0 ops in
    let '(o1, ts) := op_of (arg c 1) in
    let '(o2, _) := op_of (arg c 2) in
    let '(s1, r1, cs1) := sstep (final sess0 tr) o1 ts in
    let '(s2, r2, cs2) := sstep s1 o2 (skipn (List.length cs1) ts) in
    let '(s3, r3, cs3) := do_stop s2 in
    if head_is c "stopwait" then
      SList (zip_obs ops tr ++
             [SList [sexp_of_result r1; sexp_of_result r2; sexp_of_table s3;
                     SList (map sexp_of_call (sort_by call_key (cs1 ++ cs2 ++ cs3)))]])
    else
      SList (zip_obs ops tr ++
             [SList [sexp_of_result r1; sexp_of_result r2; sexp_of_table s2; SList (map sexp_of_call (cs1 ++ cs2))];
              sexp_of_step OStop (s3, r3, cs3)])
  else SList [ssym "unknown-case"].

Definition run_line (line : list N) : list N := print_sexp (run_case (parse_sexp line)).
