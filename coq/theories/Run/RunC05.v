(* Case interpreter for C05 (and shared with C12): case sexp -> observation sexp.

   (alloc ((lo hi) ...) hint)          allocateTag on the pool = union of the ranges
   (sched (ev ...))                    one client session driven by the events
       ev ::= (req c mt wok)           call c issues a request of type mt; WriteFcall succeeds iff wok
            | (resp t ty id)           the peer sends a reply frame with tag t, type ty, payload id
            | (burst n c0 mt)          n times: (req c mt 1) answered at once by (resp itstag mt+1 c), c = c0..c0+n-1
            | (q c mt) | (hand) | (wrote) | (wfail)   the same in single steps (frames waiting in the queue)
            | (cancel c)               the context of call c ends; c returns
            | (readretry)              the reader's ReadFcall failed with a timeout-class net.Error
            | (fatal) | (ctxdone) | (exit)   reader fatal error / session context ends / loop returns
            | (ret c)                  pending call c returns now (after the transport closed)
            | (late c mt)              a send that starts now
   The observation has one item per event. *)
From stdpp Require Import nmap fin_maps.
From Coq Require Import List NArith ZArith Bool String.
From P9 Require Import Base.Sexp Gen.GenReplyTypes Model.Tags.
Import ListNotations.
Open Scope N_scope.

(* ---- alloc cases *)
Fixpoint insert_range (fuel : nat) (lo : N) (m : tagmap) : tagmap :=
  match fuel with
  | O => m
  | S f => insert_range f (lo + 1) (<[lo := 0]> m)
  end.

Definition pool_of_ranges (rs : list sexp) : tagmap :=
  fold_left (fun m r =>
               let lo := get_N (nth 0 (get_list r) (SNum 0)) in
               let hi := get_N (nth 1 (get_list r) (SNum 0)) in
               if lo <=? hi then insert_range (N.to_nat (hi - lo + 1)) lo m else m) rs ∅.

Definition sexp_of_herr (e : herr) : sexp :=
  match e with
  | EDepleted => ssym "depleted"
  | EAllocUnexpected => ssym "allocfail"
  | EWrite => ssym "werr"
  end.

Definition run_alloc (c : sexp) : sexp :=
  match allocate (pool_of_ranges (get_list (arg c 0))) (get_N (arg c 1)) with
  | inl t => SList [ssym "ok"; snat t]
  | inr e => SList [ssym "err"; sexp_of_herr e]
  end.

(* ---- sched cases *)

(* reply kinds whose payload the harness can read back (the others return only an error value) *)
Definition has_payload (mt : N) : bool :=
  negb ((mt =? 120) || (mt =? 122) || (mt =? 126)).   (* Tclunk, Tremove, Twstat *)

Definition sexp_of_cres (mt : N) (r : cres) : sexp :=
  match r with
  | COk rp => SList [ssym "ok"; snat (if has_payload mt then r_id rp else 0)]
  | CRerror rp => SList [ssym "rerror"; snat (r_id rp)]
  | CUnexpected => ssym "unexpected"
  | CClosed => ssym "closed"
  | CCtx => ssym "ctx"
  | CErr e => SList [ssym "err"; sexp_of_herr e]
  end.

Record rstate := {
  rs_h : hstate;
  rs_mt : Nmap N;            (* call -> request type *)
  rs_resp : Nmap reply;      (* call -> content of its response channel *)
  rs_err : Nmap herr;        (* call -> content of its err channel *)
  rs_ret : Nmap unit;        (* calls that have returned *)
  rs_obs : list sexp }.      (* reversed *)

Definition rs_init : rstate :=
  {| rs_h := h_init; rs_mt := ∅; rs_resp := ∅; rs_err := ∅; rs_ret := ∅; rs_obs := [] |}.

Definition mt_of (rs : rstate) (c : call) : N := default 0 (rs_mt rs !! c).

Definition record_outs (rs : rstate) (outs : list hout) : rstate :=
  fold_left (fun rs o =>
    match o with
    | ODeliver c r => {| rs_h := rs_h rs; rs_mt := rs_mt rs; rs_resp := <[c := r]> (rs_resp rs);
                         rs_err := rs_err rs; rs_ret := rs_ret rs; rs_obs := rs_obs rs |}
    | ODeliverErr c e => {| rs_h := rs_h rs; rs_mt := rs_mt rs; rs_resp := rs_resp rs;
                            rs_err := <[c := e]> (rs_err rs); rs_ret := rs_ret rs; rs_obs := rs_obs rs |}
    | _ => rs
    end) outs rs.

Definition push (rs : rstate) (o : sexp) : rstate :=
  {| rs_h := rs_h rs; rs_mt := rs_mt rs; rs_resp := rs_resp rs; rs_err := rs_err rs; rs_ret := rs_ret rs; rs_obs := o :: rs_obs rs |}.

Definition set_h (rs : rstate) (h : hstate) : rstate :=
  {| rs_h := h; rs_mt := rs_mt rs; rs_resp := rs_resp rs; rs_err := rs_err rs; rs_ret := rs_ret rs; rs_obs := rs_obs rs |}.

Definition set_mt (rs : rstate) (c : call) (mt : N) : rstate :=
  {| rs_h := rs_h rs; rs_mt := <[c := mt]> (rs_mt rs); rs_resp := rs_resp rs; rs_err := rs_err rs; rs_ret := rs_ret rs; rs_obs := rs_obs rs |}.

Definition mark_ret (rs : rstate) (c : call) : rstate :=
  {| rs_h := rs_h rs; rs_mt := rs_mt rs; rs_resp := rs_resp rs; rs_err := rs_err rs;
     rs_ret := <[c := tt]> (rs_ret rs); rs_obs := rs_obs rs |}.

(* call c returns now (unless it has returned before: then nothing is observable) *)
Definition push_return (rs : rstate) (c : call) (o : sexp) : rstate :=
  match rs_ret rs !! c with
  | Some _ => push rs (ssym "none")
  | None => mark_ret (push rs o) c
  end.

(* the value call c returns when its second select is evaluated now; [own] = its own context ended *)
Definition call_returns (rs : rstate) (c : call) (own : bool) : sexp :=
  match send_wait (h_closed (rs_h rs)) own (rs_err rs !! c) (rs_resp rs !! c) with
  | s :: _ => SList [ssym "d"; snat c; sexp_of_cres (mt_of rs c) (client_result (mt_of rs c) s)]
  | [] => SList [ssym "blocked"; snat c]
  end.

Definition step_event (rs : rstate) (e : hevent) : rstate * list hout :=
  let '(h', outs) := hstep (rs_h rs) e in
  (record_outs (set_h rs h') outs, outs).

(* (req c mt wok): the request is taken, its frame queued, handed to the writer
   and written (wok) or not (the write fails and the loop learns of it) - the
   harness lets nothing else happen in between *)
Definition req_steps (rs : rstate) (c mt : N) (wok : bool) : rstate * list hout :=
  let rs := set_mt rs c mt in
  let '(rs, o1) := step_event rs (EReq c mt) in
  match o1 with
  | [] =>
      let '(rs, _) := step_event rs EHand in
      step_event rs (if wok then EWrote else EWriteFailed)
  | _ => (rs, o1)
  end.

Definition do_req (rs : rstate) (c mt : N) (wok : bool) : rstate :=
  let '(rs, outs) := req_steps rs c mt wok in
  match outs with
  | OFrame t _ _ :: _ => push rs (SList [ssym "f"; snat t])
  | ODeliverErr _ _ :: _ => push_return rs c (call_returns rs c false)
  | _ => push rs (ssym "none")
  end.

Definition do_resp (rs : rstate) (t ty id : N) : rstate :=
  let '(rs, outs) := step_event rs (EResp t {| r_type := ty; r_id := id |}) in
  match outs with
  | ODeliver c _ :: _ => push_return rs c (call_returns rs c false)
  | OPanic :: _ => push rs (ssym "panic")
  | _ => push rs (ssym "none")
  end.

(* run-length form of a tag sequence (reversed accumulator of (start,len)) *)
Definition rle_add (runs : list (N * N)) (t : N) : list (N * N) :=
  match runs with
  | (s, l) :: r => if s + l =? t then (s, l + 1) :: r else (t, 1) :: runs
  | [] => [(t, 1)]
  end.

Fixpoint do_burst (fuel : nat) (rs : rstate) (c mt : N) (runs : list (N * N)) (good : N) : rstate * list (N * N) * N :=
  match fuel with
  | O => (rs, runs, good)
  | S f =>
      let '(rs, outs) := req_steps rs c mt true in
      match outs with
      | OFrame t _ _ :: _ =>
          let '(rs, outs2) := step_event rs (EResp t {| r_type := mt + 1; r_id := c |}) in
          let okc := match outs2 with
                     | ODeliver c' r :: _ =>
                         (c' =? c) && match client_result mt (conv_reply r) with COk r' => r_id r' =? c | _ => false end
                     | _ => false
                     end in
          do_burst f rs (c + 1) mt (rle_add runs t) (if okc then good + 1 else good)
      | _ => do_burst f rs (c + 1) mt runs good
      end
  end.

Definition sexp_of_runs (runs : list (N * N)) : sexp :=
  SList (map (fun p => SList [snat (fst p); snat (snd p)]) (rev runs)).

(* [pl]: project the result of a `late` call to ok / err (C12: whether it is the
   write error or ErrClosed depends on how far the shutdown has got) *)
Definition run_event (pl : bool) (rs : rstate) (e : sexp) : rstate :=
  if head_is e "req" then do_req rs (get_N (arg e 0)) (get_N (arg e 1)) (get_bool (arg e 2))
  else if head_is e "resp" then do_resp rs (get_N (arg e 0)) (get_N (arg e 1)) (get_N (arg e 2))
  else if head_is e "burst" then
    let '(rs, runs, good) := do_burst (N.to_nat (get_N (arg e 0))) rs (get_N (arg e 1)) (get_N (arg e 2)) [] 0 in
    push rs (SList [ssym "b"; sexp_of_runs runs; snat good])
  (* fine-grained steps, for histories in which frames wait in the queue:
     (q c mt) request taken and queued; (hand) oldest frame to the writer;
     (wrote) its write succeeded; (wfail) its write failed *)
  else if head_is e "q" then
    let c := get_N (arg e 0) in
    let '(rs, outs) := step_event (set_mt rs c (get_N (arg e 1))) (EReq c (get_N (arg e 1))) in
    match outs with
    | ODeliverErr _ _ :: _ => push_return rs c (call_returns rs c false)
    | _ => push rs (ssym "none")
    end
  else if head_is e "hand" then let '(rs, _) := step_event rs EHand in push rs (ssym "none")
  else if head_is e "wrote" then
    let '(rs, outs) := step_event rs EWrote in
    match outs with
    | OFrame t _ _ :: _ => push rs (SList [ssym "f"; snat t])
    | _ => push rs (ssym "none")
    end
  else if head_is e "wfail" then
    let '(rs, outs) := step_event rs EWriteFailed in
    match outs with
    | ODeliverErr c _ :: _ => push_return rs c (call_returns rs c false)
    | _ => push rs (ssym "none")
    end
  else if head_is e "cancel" then
    let c := get_N (arg e 0) in
    let '(rs, _) := step_event rs (ECancel c) in
    push_return rs c (call_returns rs c true)
  else if head_is e "fatal" then let '(rs, _) := step_event rs EReadFatal in push rs (ssym "none")
  else if head_is e "readretry" then let '(rs, _) := step_event rs EReadRetry in push rs (ssym "none")
  else if head_is e "ctxdone" then let '(rs, _) := step_event rs ECtxDone in push rs (ssym "none")
  else if head_is e "exit" then
    let '(rs, outs) := step_event rs EExit in
    push rs (match outs with OClosed :: _ => ssym "closed" | _ => ssym "none" end)
  else if head_is e "ret" then push_return rs (get_N (arg e 0)) (call_returns rs (get_N (arg e 0)) false)
  else if head_is e "late" then
    let c := get_N (arg e 0) in
    let mt := get_N (arg e 1) in
    match send_first (h_closed (rs_h rs)) false (h_running (rs_h rs)) with
    | Some s :: _ =>
        let r := client_result mt s in
        push_return rs c (SList [ssym "d"; snat c;
                                 if pl then match r with COk _ => sexp_of_cres mt r | _ => ssym "err" end
                                 else sexp_of_cres mt r])
    | None :: _ => do_req rs c mt true
    | [] => push rs (SList [ssym "blocked"; snat c])
    end
  else push rs (ssym "unknown-event").

Definition run_sched (pl : bool) (c : sexp) : sexp :=
  let rs := fold_left (run_event pl) (get_list (arg c 0)) rs_init in
  SList (rev (rs_obs rs)).

Definition run_case (c : sexp) : sexp :=
  if head_is c "alloc" then run_alloc c
  else if head_is c "sched" then run_sched false c
  else SList [ssym "unknown-case"].

Definition run_line (line : list N) : list N := print_sexp (run_case (parse_sexp line)).
