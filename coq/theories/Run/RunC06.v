(* Case interpreter for C06 / C07 / C11: the ACCEPTOR for Model/Serve.v.

   A case is a schedule of environment actions, each followed by what the
   harness observed (after waiting for quiescence) on the real ServeConn:
     (serve AUTO (ACTION OBS) (ACTION OBS) ...)
   AUTO = 1: conn.Write succeeds at once (EWriteOk is treated as internal).
   ACTION ::= (send RID TAG (req #BYTES)) | (send RID TAG (flush OLD)) | (connerr)
            | (fin RID (msg #B)) | (fin RID (emsg #E)) | (fin RID (err #E))
            | (wok) | (wfail) | (cancel) | (nop) | (multi ACTION...)
            | (rerr NET TIMEOUT TEMPORARY)   conn.Read returns an error (NET: it is a net.Error, with those
                                          Timeout()/Temporary() answers): retried by conn.read - no event - or
                                          fatal - EConnErr - as [read_error_retried] says
            | (bulk N RID0 TAG0 NTAGS)   N filler requests RID0.. on tags TAG0 + (i mod NTAGS), sent in one
                                          batch to an idle server in AUTO mode, each answered at once by an
                                          auto-completing handler; the harness checks every filler's dispatch
                                          and reply itself and reports an empty observation, the model runs
                                          the seven events of each filler in order (any interleaving of a
                                          batch on distinct tags ends in the same state)
   OBS    ::= (obs (TAKE...) (DISP...) (RID...) STOPS)
              TAKE = (TAG #BYTES) in write order; DISP = (RID #BYTES) sorted by RID;
              cancelled RIDs sorted; STOPS = number of Stop calls in this step.
   The model keeps the SET of states it may be in; after an action it explores
   every order of the enabled internal events down to quiescence and keeps the
   quiescent states whose projected outputs equal OBS.  Answer: ok, or
   (reject I ALTERNATIVES) with I the first step no model run explains. *)
From Coq Require Import List NArith ZArith Bool String.
From stdpp Require Import gmap.
From P9 Require Import Base.Sexp Model.Serve.
Import ListNotations.
Open Scope N_scope.

Global Instance kind_eq_dec : EqDecision kind.   Proof. solve_decision. Defined.
Global Instance hres_eq_dec : EqDecision hres.   Proof. solve_decision. Defined.
Global Instance payload_eq_dec : EqDecision payload. Proof. solve_decision. Defined.
Global Instance frame_eq_dec : EqDecision frame. Proof. solve_decision. Defined.
Global Instance hstate_eq_dec : EqDecision hstate. Proof. solve_decision. Defined.
Global Instance hrec_eq_dec : EqDecision hrec.   Proof. solve_decision. Defined.
Global Instance pcT_eq_dec : EqDecision pcT.     Proof. solve_decision. Defined.
Global Instance wstate_eq_dec : EqDecision wstate. Proof. solve_decision. Defined.
Global Instance rstate_eq_dec : EqDecision rstate. Proof. solve_decision. Defined.
Global Instance st_eq_dec : EqDecision st.       Proof. solve_decision. Defined.
Global Instance output_eq_dec : EqDecision output. Proof. solve_decision. Defined.

(* ---- projection of outputs to what the harness can see ---- *)
Definition le16 (n : N) : list N := [n mod 256; (n / 256) mod 256].
Definition bytes_of_payload (p : payload) : list N :=
  match p with
  | PMsg m => m
  | PErr e => 107 :: le16 (N.of_nat (length e)) ++ e
  | PFlushAck _ => [109]
  end.

Fixpoint insert_sorted (x : N) (l : list N) : list N :=
  match l with
  | [] => [x]
  | y :: r => if x <=? y then x :: l else y :: insert_sorted x r
  end.
Definition sort_N (l : list N) : list N := fold_right insert_sorted [] l.

Fixpoint insert_disp (x : N * bstr) (l : list (N * bstr)) : list (N * bstr) :=
  match l with
  | [] => [x]
  | y :: r => if fst x <=? fst y then x :: l else y :: insert_disp x r
  end.

Definition project (outs : list output) : sexp :=
  let takes := flat_map (fun o => match o with OTake f => [SList [snat (f_tag f); SBytes (bytes_of_payload (f_pl f))]] | _ => [] end) outs in
  let disp := fold_right insert_disp [] (flat_map (fun o => match o with ODispatch r m => [(r, m)] | _ => [] end) outs) in
  let canc := sort_N (flat_map (fun o => match o with OCancel r => [r] | _ => [] end) outs) in
  let stops := length (List.filter (fun o => match o with OStop => true | _ => false end) outs) in
  SList [ssym "obs"; SList takes; SList (map (fun d => SList [snat (fst d); SBytes (snd d)]) disp);
         SList (map snat canc); snat (N.of_nat stops)].

(* ---- exploration of the internal events down to quiescence ---- *)
Definition node := (st * list output)%type.     (* outputs of this step, newest first *)

Definition node_in (n : node) (l : list node) : bool :=
  existsb (fun m => bool_decide (n = m)) l.

Definition moves (v : variant) (auto : bool) (s : st) : list event :=
  enabled_internal v s ++
  (if auto then match wr s with WBusy _ => [EWriteOk] | _ => [] end else []).

(* Once the loop has returned, what is left to happen - handler goroutines leaving, reader and writer
   noticing the closed conn, Stop - are moves of separate components that neither disable one another nor
   differ in what they output, so every order ends in the same quiescent state: one order is explored
   (without this a shutdown with k finished handlers would cost 2^k states). *)
Fixpoint one_giveup (seen : bool) (l : list event) : list event :=
  match l with
  | [] => []
  | EGiveUp r :: rest => if seen then one_giveup true rest else EGiveUp r :: one_giveup true rest
  | e :: rest => e :: one_giveup seen rest
  end.

(* Likewise before the return: "handler goroutine r leaves" stays enabled until it happens, commutes with
   every event except "the loop takes r's completion", and outputs nothing; every maximal run can be
   reordered so that the goroutines that leave do so in a fixed order, each as late as the completions of
   the earlier ones require.  So of the enabled EGiveUp events only the first is explored. *)
Definition ordered_moves (v : variant) (auto : bool) (s : st) : list event :=
  match pc s with
  | PReturned => firstn 1 (moves v auto s)
  | _ => one_giveup false (moves v auto s)
  end.

Definition succs (v : variant) (auto : bool) (n : node) : list node :=
  flat_map (fun e => match step v (fst n) e with
                     | Some (s', o) => [(s', rev o ++ snd n)]
                     | None => [] end) (ordered_moves v auto (fst n)).

(* visited nodes, bucketed by a cheap fingerprint (outputs so far, loop pc, reader, writer, tag-table size)
   so that membership compares whole states only within a bucket *)
Definition out_code (o : output) : N :=
  match o with
  | OReturn => 1 | OStop => 2
  | ORecv r _ _ => 3 + 16 * r | ODispatch r _ => 4 + 16 * r | OCancel r => 5 + 16 * r | OFin r _ => 6 + 16 * r
  | OTake f => 7 + 16 * f_rid f | OFrame f => 8 + 16 * f_rid f | OLost f => 9 + 16 * f_rid f
  | OWriteErr f => 10 + 16 * f_rid f
  end.
Definition fingerprint (n : node) : N :=
  let s := fst n in
  let mix (acc x : N) := N.lxor (N.shiftl acc 5) x in   (* cheap on binary numbers; keys just get long *)
  let a := fold_left (fun acc o => mix acc (out_code o)) (snd n) 7 in
  let a := mix a (match pc s with Main => 1 | SendImm f => 2 + 4 * f_rid f | SendDone h _ => 3 + 4 * h | PReturned => 4 end) in
  let a := mix a (match rd s with RIdle => 1 | RHold r _ _ => 2 + 4 * r | RDead => 3 end) in
  let a := mix a (match wr s with WIdle => 1 | WBusy f => 2 + 4 * f_rid f | WDead => 3 end) in
  let a := mix a (N.of_nat (length (inq s))) in
  let a := mix a (N.of_nat (size (tags s))) in
  mix a ((if closed s then 1 else 0) + 2 * stops s).

Definition seen_t := gmap N (list node).
Definition seen_mem (n : node) (sn : seen_t) : bool :=
  match sn !! fingerprint n with Some l => node_in n l | None => false end.
Definition seen_add (n : node) (sn : seen_t) : seen_t :=
  let k := fingerprint n in <[k := n :: match sn !! k with Some l => l | None => [] end]> sn.

(* returns (quiescent nodes, out_of_fuel) *)
Fixpoint explore (v : variant) (auto : bool) (fuel : nat) (todo : list node) (seen : seen_t) (quiet : list node) : list node * bool :=
  match fuel with
  | O => (quiet, match todo with [] => false | _ => true end)
  | S fuel' =>
      match todo with
      | [] => (quiet, false)
      | n :: rest =>
          match succs v auto n with
          | [] => explore v auto fuel' rest seen (if node_in n quiet then quiet else n :: quiet)
          | ss =>
              let '(fresh, seen') :=
                fold_left (fun (acc : list node * seen_t) m =>
                             if seen_mem m (snd acc) then acc else (m :: fst acc, seen_add m (snd acc))) ss ([], seen) in
              explore v auto fuel' (fresh ++ rest) seen' quiet
          end
      end
  end.

(* ---- parsing actions ---- *)
Definition parse_kind (s : sexp) : kind :=
  if head_is s "flush" then KFlush (get_N (arg s 0)) else KReq (get_bytes (arg s 0)).
Definition parse_res (s : sexp) : hres :=
  if head_is s "msg" then RMsg (get_bytes (arg s 0))
  else if head_is s "emsg" then RErrMsg (get_bytes (arg s 0))
  else RErr (get_bytes (arg s 0)).
Definition parse_action1 (a : sexp) : list event :=
  if head_is a "send" then [ESend (get_N (arg a 0)) (get_N (arg a 1)) (parse_kind (arg a 2))]
  else if head_is a "connerr" then [EConnErr]
  else if head_is a "rerr" then
    (if read_error_retried (get_bool (arg a 0)) (get_bool (arg a 1)) (get_bool (arg a 2)) then [] else [EConnErr])
  else if head_is a "fin" then [EFinish (get_N (arg a 0)) (parse_res (arg a 1))]
  else if head_is a "wok" then [EWriteOk]
  else if head_is a "wfail" then [EWriteFail]
  else if head_is a "cancel" then [ECtxCancel]
  else [].   (* nop *)
(* (multi A1 A2 ...): several handler returns observed in one step (they commute with every
   internal event of the other handlers, so applying them first loses no interleaving) *)
Definition parse_action (a : sexp) : list event :=
  if head_is a "multi" then flat_map parse_action1 (tl (get_list a)) else parse_action1 a.

Fixpoint apply_events (v : variant) (s : st) (acc : list output) (evs : list event) : option (st * list output) :=
  match evs with
  | [] => Some (s, acc)
  | e :: r => match step v s e with
              | Some (s', o) => apply_events v s' (rev o ++ acc) r
              | None => None
              end
  end.

Definition sexp_eqb (a b : sexp) : bool := list_N_eqb (print_sexp a) (print_sexp b).

Definition dedup_states (l : list st) : list st :=
  fold_left (fun acc s => if existsb (fun t => bool_decide (s = t)) acc then acc else s :: acc) l [].

Definition EXPLORE_FUEL : nat := N.to_nat 60000.

(* (bulk ...): the events of one filler request, from arrival to its reply on the wire *)
Definition bulk_events (rid tag : N) : list event :=
  [ESend rid tag (KReq []); EReaderGet; EArrive; EFinish rid (RMsg []); EComplete rid; ETake; EWriteOk].

Definition run_bulk (v : variant) (s : st) (n rid0 tag0 ntags : N) : option st :=
  fst (N.iter n (fun acc : option st * N =>
                   let i := snd acc in
                   (match fst acc with
                    | Some s1 => match run v s1 (bulk_events (rid0 + i) (tag0 + i mod ntags)) with
                                 | Some (s2, _) => Some s2
                                 | None => None
                                 end
                    | None => None
                    end, i + 1)) (Some s, 0)).

(* one schedule step on the state set *)
Definition step_set (v : variant) (auto : bool) (states : list st) (act obs : sexp)
  : list st * list sexp * bool :=
  let starts := flat_map (fun s =>
                  if head_is act "bulk" then
                    match run_bulk v s (get_N (arg act 0)) (get_N (arg act 1)) (get_N (arg act 2)) (N.max 1 (get_N (arg act 3))) with
                    | Some s' => [(s', [])]
                    | None => []
                    end
                  else
                  match apply_events v s [] (parse_action act) with
                  | Some n => [n]
                  | None => []
                  end) states in
  let '(quiet, oof) := explore v auto EXPLORE_FUEL starts (fold_left (fun sn n => seen_add n sn) starts ∅) [] in
  let projs := map (fun n => (fst n, project (rev (snd n)))) quiet in
  let good := List.filter (fun sp => sexp_eqb (snd sp) obs) projs in
  (dedup_states (map fst good), map snd projs, oof).

Fixpoint dedup_sexps (l : list sexp) (acc : list sexp) : list sexp :=
  match l with
  | [] => rev acc
  | x :: r => if existsb (sexp_eqb x) acc then dedup_sexps r acc else dedup_sexps r (x :: acc)
  end.

Fixpoint run_steps (v : variant) (auto : bool) (states : list st) (steps : list sexp) (i : N) : sexp :=
  match steps with
  | [] => ssym "ok"
  | p :: rest =>
      let act := nth 0 (get_list p) (SList []) in
      let obs := nth 1 (get_list p) (SList []) in
      let '(states', alts, oof) := step_set v auto states act obs in
      if oof then SList [ssym "reject"; snat i; ssym "search-budget"]
      else match states' with
           | [] => SList [ssym "reject"; snat i; SList (firstn 4 (dedup_sexps alts []))]
           | _ => run_steps v auto states' rest (i + 1)
           end
  end.

Definition run_case (c : sexp) : sexp :=
  if head_is c "serve" then
    run_steps code_variant (get_bool (arg c 0)) [init] (skipn 2 (get_list c)) 0
  else SList [ssym "unknown-case"].

Definition run_line (line : list N) : list N := print_sexp (run_case (parse_sexp line)).
