(* Case interpreter for the channel properties C02, C03 and C10. *)
From Coq Require Import List NArith ZArith Bool String.
From P9 Require Import Base.Sexp Base.Res Base.Bytes Model.WireTypes Model.Spec9P Model.Wire Model.Channel Model.Version Run.WireSexp.
Import ListNotations.
Open Scope string_scope.
Open Scope N_scope.

Definition chan_err_class (e : list N) : sexp :=
  match e with
  | [1] => ssym "eof" | [2] => ssym "ueof" | [3] => ssym "unknown" | [11] => ssym "badsize" | _ => ssym "other"
  end.

Definition sexp_of_read_out (o : read_out) : sexp :=
  match o with
  | RMsg f => SList [ssym "msg"; sexp_of_fcall f]
  | ROverflow k => SList [ssym "overflow"; snat k]
  | RErr e => SList [ssym "err"; chan_err_class e]
  | RPanic => SList [ssym "panic"]
  end.

Definition sexp_of_write_res (w : write_res) : sexp :=
  match w with
  | WSent => SList [ssym "sent"]
  | WCtx => SList [ssym "ctx"]
  | WOverflow k => SList [ssym "overflow"; snat k]
  end.

Definition run_case (c : sexp) : sexp :=
  if head_is c "write" then
    let '(out, w) := write_fcall (get_N (arg c 0)) (get_bool (arg c 1)) (fcall_of_sexp (arg c 2)) in
    SList [SBytes out; sexp_of_write_res w]
  else if head_is c "writeseq" then
    (* several writes on one channel: each is decided on its own *)
    let m := get_N (arg c 0) in
    SList (map (fun x => let '(out, w) := write_fcall m true (fcall_of_sexp x) in SList [SBytes out; sexp_of_write_res w])
               (get_list (arg c 1)))
  else if head_is c "read2" then
    (* k reads at msize0, then SetMSize(msize), then n more reads on the same channel and stream *)
    let '(os1, b, rest) := read_many_st (N.to_nat (get_N (arg c 1))) (get_N (arg c 0)) [] (get_bytes (arg c 4)) in
    let os2 := read_many (N.to_nat (get_N (arg c 3))) (get_N (arg c 2)) b rest in
    SList (map sexp_of_read_out (os1 ++ os2))
  else if head_is c "read" then
    SList (map sexp_of_read_out (read_many (N.to_nat (get_N (arg c 1))) (get_N (arg c 0)) [] (get_bytes (arg c 2))))
  else if head_is c "shake-server" then
    (* reply bytes, accepted?, and what the handler sees of the request that follows the handshake
       when it is read under the adopted msize *)
    let own := get_N (arg c 0) in
    let s := get_bytes (arg c 1) in
    let '(out, ok, m) := server_handshake own s in
    let seen :=
      if ok then
        let '(_, _, rest) := read_fcall own [] s in
        match read_fcall m [] rest with
        | (RMsg f, _, _) =>
            if fc_type f =? T_Tread then
              match fc_fields f with
              | [_; _; VF (FInt _ cnt)] => SList [ssym "tread"; snat cnt]
              | _ => ssym "other"
              end
            else ssym "other"
        | _ => ssym "none"
        end
      else ssym "none" in
    SList [SBytes out; sbool ok; seen]
  else if head_is c "shake-client" then
    (* request bytes, accepted?, adopted msize, and the frame length of a 100000-byte write sent afterwards
       (-1: nothing is sent) *)
    let '(out, ok, m) := client_handshake (get_N (arg c 0)) (get_bytes (arg c 1)) in
    let big := {| fc_type := T_Twrite; fc_tag := 1;
                  fc_fields := [VF (FInt 4 7); VF (FInt 8 0); VF (FData (repeat 0 (N.to_nat 100000)))] |} in
    let wl := if ok then match write_fcall m true big with
                         | (o, WSent) => SNum (Z.of_N (len o))
                         | _ => SNum (-1)
                         end
              else SNum (-1) in
    SList [SBytes out; sbool ok; snat m; wl]
  else SList [ssym "unknown-case"].

Definition run_line (line : list N) : list N := print_sexp (run_case (parse_sexp line)).
