(* Case interpreter for C16 (and the path pieces C15 reuses):
   case sexp -> observation sexp, both printed canonically. *)
From Coq Require Import List NArith ZArith Bool String.
From P9 Require Import Base.Sexp Base.Res Model.Path.
Import ListNotations.
Open Scope string_scope.

Definition names_of (s : sexp) : list bstr := map get_bytes (get_list s).
Definition sexp_of_names (l : list bstr) : sexp := SList (map SBytes l).

Definition obs_res_path (r : res bstr) : sexp :=
  match r with
  | Ok p => SList [ssym "ok"; SBytes p]
  | Err _ => SList [ssym "err"]
  | Panic => SList [ssym "panic"]
  | Hang => SList [ssym "hang"]
  end.

Definition run_case (c : sexp) : sexp :=
  if head_is c "valid" then SNum (valid_path (names_of (arg c 0)))
  else if head_is c "norm" then
    let '(steps, lo) := normalize_path (names_of (arg c 0)) in
    SList [sexp_of_names steps; SNum lo]
  else if head_is c "walk" then obs_res_path (walk_name (get_bytes (arg c 0)) (names_of (arg c 1)))
  else if head_is c "create" then obs_res_path (create_name (get_bytes (arg c 0)) (get_bytes (arg c 1)))
  else if head_is c "towalk" then
    let '(isabs, r) := to_walk (get_bytes (arg c 0)) in
    match r with
    | Ok steps => SList [ssym "ok"; sbool isabs; sexp_of_names steps]
    | _ => SList [ssym "err"; sbool isabs]
    end
  else if head_is c "clean" then SBytes (path_clean (get_bytes (arg c 0)))
  else if head_is c "join" then SBytes (path_join (names_of (arg c 0)))
  else SList [ssym "unknown-case"].

Definition run_line (line : list N) : list N := print_sexp (run_case (parse_sexp line)).
