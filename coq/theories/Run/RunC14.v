(* Case interpreter for C14.  A case carries the operations (with the scripted
   outcomes of their FileSys calls), the coarse schedule the harness drove
   (start operation t / let operation t's pending FileSys call return) and,
   after each of these events, what the harness observed once the session had
   come to rest: per operation  n (not started) | b (blocked on a mutex) |
   (p kind obj) (inside that FileSys call) | (d class value calls) (returned).
   Between two events the Go scheduler interleaves the running goroutines as it
   likes, so the model explores EVERY interleaving of the atomic steps of
   SessLock.step up to rest and the observation must be one of the resting
   states (the candidates are narrowed after every event).  At the end the fid
   table reported by p9p.VerifFidTable must be that of a surviving model state,
   and the completed history goes through the verified [lin_check]. *)
From stdpp Require Import gmap.
From Coq Require Import List NArith ZArith Bool String.
From P9 Require Import Base.Sexp Model.SessLock.
Local Open Scope string_scope.
Local Open Scope N_scope.

Definition parse_outcome (x : sexp) : outcome :=
  match x with
  | SList (n :: d :: nil) => OOk (get_N n) (get_bool d)
  | _ => OErr
  end.

Definition parse_op (x : sexp) : op * list outcome :=
  let a := get_N (arg x 0) in let b := get_N (arg x 1) in
  let c := get_N (arg x 2) in let d := get_N (arg x 3) in
  let sc := map parse_outcome (get_list (arg x 4)) in
  (if head_is x "auth" then OpAuth a
   else if head_is x "attach" then OpAttach a b
   else if head_is x "walk" then OpWalk a b c (negb (d =? 0))
   else if head_is x "open" then OpOpen a b
   else if head_is x "create" then OpCreate a (negb (b =? 0)) c
   else if head_is x "read" then OpRead a
   else if head_is x "write" then OpWrite a
   else if head_is x "stat" then OpStat a
   else if head_is x "wstat" then OpWStat a
   else if head_is x "clunk" then OpClunk a
   else if head_is x "stop" then OpStop
   else OpRemove a, sc).

Definition KS : Type := list N * state.
Definition add_state (ks : list KS) (s : state) : list KS :=
  let k := key_of s in
  if existsb (fun x => list_N_eqb (fst x) k) ks then ks else (k, s) :: ks.

(* steps the scheduler can take on its own: everything except the return of a FileSys call *)
Definition istep (s : state) (i : nat) : option state :=
  match threads s !! i with
  | Some th => if t_incall th then None else step s i
  | None => None
  end.

(* which key sess.refs.Range calls back for next (or that the pass is over) is the environment's choice and the
   harness cannot see it: where Stop is at a [Pick] the exploration tries every choice by putting it at the
   head of the operation's script, which is where [step] takes it from *)
Definition with_choice (th : thread) (n : N) : thread :=
  {| t_id := t_id th; t_prog := t_prog th; t_incall := t_incall th; t_script := OOk n false :: t_script th;
     t_ncalls := t_ncalls th; t_calls := t_calls th; t_held := t_held th; t_log := t_log th |}.

Definition isteps (s : state) (i : nat) : list state :=
  match threads s !! i with
  | Some th =>
      if t_incall th then nil else
      match t_prog th with
      | Pick visited _ _ =>
          flat_map (fun n =>
              match step (set_thread s i (with_choice th (N.of_nat n))) i with Some s' => s' :: nil | None => nil end)
            (seq 0 (S (List.length (pick_cands (refs s) visited))))
      | _ => match step s i with Some s' => s' :: nil | None => nil end
      end
  | None => nil
  end.

Definition expand (active : list nat) (acc : list KS * list KS) (s : state) : list KS * list KS :=
  match flat_map (isteps s) active with
  | nil => (fst acc, add_state (snd acc) s)
  | ss => (fold_left add_state ss (fst acc), snd acc)
  end.

Fixpoint explore (fuel : nat) (active : list nat) (frontier quiet : list KS) : list KS :=
  match fuel with
  | O => quiet
  | S fuel =>
      match frontier with
      | nil => quiet
      | _ =>
          let fq := fold_left (fun acc ks => expand active acc (snd ks)) frontier (nil, quiet) in
          explore fuel active (fst fq) (snd fq)
      end
  end.

(* ---- projections compared with the harness ---- *)
Definition sexp_calls (l : list (N * N)) : sexp := SList (map (fun ko => SList (snat (fst ko) :: snat (snd ko) :: nil)) l).

Definition obs_thread (active : list nat) (s : state) (i : nat) : sexp :=
  if negb (existsb (Nat.eqb i) active) then ssym "n" else
  match threads s !! i with
  | None => ssym "n"
  | Some th =>
      match t_prog th with
      | Ret r => SList (ssym "d" :: snat (r_cls r) :: snat (r_val r) :: sexp_calls (rev (t_calls th)) :: nil)
      | Fs c _ => if t_incall th then SList (ssym "p" :: snat (fc_kind c) :: snat (fc_obj c) :: nil) else ssym "b"
      | _ => ssym "b"
      end
  end.

Definition obs_of (n : nat) (active : list nat) (s : state) : sexp :=
  SList (map (obs_thread active s) (seq 0 n)).

Definition table_of (s : state) : sexp :=
  SList (map (fun fp =>
    let f := fst fp in let p := snd fp in
    match owner s !! p with
    | Some _ => SList (snat f :: snat 0 :: snat 0 :: snat 0 :: snat 1 :: nil)
    | None =>
        let v := default sfid0 (heap s !! p) in
        SList (snat f :: sbool (match s_ent v with Some _ => true | None => false end)
                      :: sbool (match s_file v with Some _ => true | None => false end)
                      :: snat (s_mode v) :: snat 0 :: nil)
    end) (sort_pairs (map_to_list (refs s)))).

Definition sexp_eqb (a b : sexp) : bool := list_N_eqb (print_sexp a) (print_sexp b).

(* ---- replay of the coarse schedule ---- *)
Record cst := {
  c_states : list state;           (* the model states compatible with everything observed so far *)
  c_active : list nat;             (* operations started *)
  c_inv : list (nat * N);          (* event index of each start *)
  c_ret : list (nat * N)           (* event index after which each operation was first seen returned *)
}.

Definition lookup_idx (l : list (nat * N)) (i : nat) : option N :=
  match filter (fun x => Nat.eqb (fst x) i) l with x :: _ => Some (snd x) | nil => None end.

Definition newly_done (s : state) (active : list nat) (rets : list (nat * N)) (j : N) : list (nat * N) :=
  omap (fun i =>
    match threads s !! i, lookup_idx rets i with
    | Some th, None => if is_done th then Some (i, j) else None
    | _, _ => None
    end) active.

Definition do_event (n : nat) (c : cst) (e : sexp) (j : N) : sexp + cst :=
  let ev := nth 0 (get_list e) (SList nil) in
  let obs := nth 1 (get_list e) (SList nil) in
  let t := N.to_nat (get_N (arg ev 0)) in
  let is_start := head_is ev "s" in
  let active := if is_start then t :: c_active c else c_active c in
  let starts :=
    if is_start then (if existsb (Nat.eqb t) (c_active c) then nil else c_states c)
    else omap (fun s => match threads s !! t with
                        | Some th => if t_incall th then step s t else None
                        | None => None end) (c_states c) in
  let quiet := map snd (explore 400 active (fold_left add_state starts nil) nil) in
  match filter (fun s => sexp_eqb (obs_of n active s) obs) quiet with
  | nil => inl (SList (ssym "reject" :: snat j :: SList (map (obs_of n active) (firstn 4 quiet)) :: nil))
  | (s0 :: _) as ok =>
      inr {| c_states := ok; c_active := active;
             c_inv := if is_start then (t, j) :: c_inv c else c_inv c;
             c_ret := newly_done s0 active (c_ret c) j ++ c_ret c |}
  end.

Fixpoint do_events (n : nat) (c : cst) (evs : list sexp) (j : N) : sexp + cst :=
  match evs with
  | nil => inr c
  | e :: r => match do_event n c e j with inl x => inl x | inr c' => do_events n c' r (j + 1) end
  end.

Definition history_of (ops : list (op * list outcome)) (c : cst) (s : state) : option (list hop) :=
  let hs := imap (fun i os =>
    match threads s !! i, lookup_idx (c_inv c) i, lookup_idx (c_ret c) i with
    | Some th, Some a, Some b =>
        match result_of th with
        | Some r => Some {| h_op := fst os; h_script := snd os; h_id := N.of_nat i; h_inv := a; h_ret := b;
                            h_res := r; h_calls := rev (t_calls th) |}
        | None => None
        end
    | _, _, _ => None
    end) ops in
  if forallb (fun x => match x with Some _ => true | None => false end) hs then Some (omap id hs) else None.

Definition run_case (c : sexp) : sexp :=
  let reqauth := get_bool (arg c 0) in
  let ops := map parse_op (get_list (arg c 1)) in
  let n := List.length ops in
  let c0 := {| c_states := init reqauth ops :: nil; c_active := nil; c_inv := nil; c_ret := nil |} in
  match do_events n c0 (get_list (arg c 2)) 0 with
  | inl rej => rej
  | inr cf =>
      match filter (fun s => sexp_eqb (table_of s) (arg c 3)) (c_states cf) with
      | nil => SList (ssym "reject-table" :: map table_of (firstn 3 (c_states cf)))
      | s :: _ =>
          match history_of ops cf s with
          | None => SList (ssym "pending" :: nil)
          | Some h =>
              (* Stop is the server's, not a client operation: histories containing it are checked against
                 the model state by state, not for linearizability *)
              if existsb (fun os => match fst os with OpStop => true | _ => false end) ops then ssym "ok" else
              match lin_check reqauth h with
              | Some _ => ssym "ok"
              | None => SList (ssym "nonlin" :: nil)
              end
          end
      end
  end.

Definition run_line (line : list N) : list N := print_sexp (run_case (parse_sexp line)).
