(* Case interpreter for C17: the entries of a case are their encodings (the harness
   marshals each Dir with the real codec), so the model runs with E = bytes, enc = id,
   and the raw size-prefix splitter below for DecodeDir. *)
From Coq Require Import List NArith ZArith Bool String.
From P9 Require Import Base.Sexp Base.Res Model.Readdir.
Import ListNotations.
Open Scope string_scope.

Definition ent := list N.
Definition enc_raw (e : ent) : list N := e.

(* DecodeDir over already-valid entry encodings: 2-byte little-endian size, then that
   many bytes (io.ReadFull); Unmarshal of the content is the codec's business (C01/C04) *)
Definition dec_raw (bs : list N) : dres ent :=
  match bs with
  | [] => DEof
  | [_] => DErr
  | lo :: hi :: rest =>
      let ll := N.to_nat (lo + 256 * hi)%N in
      if Nat.ltb (List.length rest) ll then DErr
      else DOk (lo :: hi :: firstn ll rest) (skipn ll rest)
  end.

(* batches: k >= 0 = a batch of the next k entries, negative = the iterator returns an error *)
Fixpoint mk_script (es : list ent) (bs : list sexp) : list (batch ent) :=
  match bs with
  | [] => []
  | b :: r =>
      let z := get_Z b in
      if Z.ltb z 0 then BErr [] :: mk_script es r
      else let k := Z.to_nat z in BOk (firstn k es) :: mk_script (skipn k es) r
  end.

Definition entries_of (s : sexp) : list ent := map get_bytes (get_list s).

Definition obs_rd (r : rdres ent) : sexp :=
  match r with
  | RdData t None => SList [ssym "ok"; SBytes (enc_all enc_raw t)]
  | RdData t (Some _) => SList [ssym "err"; SBytes (enc_all enc_raw t)]
  | RdBadOff => ssym "bad"
  | RdFuel => ssym "fuel"
  end.

(* ops: (r count) reads at the offset the reader keeps; (x count off) at an explicit one *)
Fixpoint run_ops (st : rdst ent) (off : Z) (ops : list sexp) : list sexp :=
  match ops with
  | [] => []
  | o :: r =>
      let count := get_N (arg o 0) in
      let at_off := if head_is o "x" then get_Z (arg o 1) else off in
      let '(res, st') := read enc_raw st count at_off in
      let off' := if head_is o "x" then off
                  else match res with RdData t None => (off + Z.of_N (blen (enc_all enc_raw t)))%Z | _ => off end in
      obs_rd res :: run_ops st' off' r
  end.

Definition obs_list (r : res (list ent)) : sexp :=
  match r with
  | Ok l => SList (ssym "ok" :: map SBytes l)
  | Err _ => SList [ssym "err"]
  | Panic => SList [ssym "panic"]
  | Hang => SList [ssym "hang"]
  end.

Definition run_case (c : sexp) : sexp :=
  if head_is c "rd" then
    let es := entries_of (arg c 1) in
    let st := if is_sym (arg c 0) (str "fixed") then new_fixed_readdir es
              else new_readdir (mk_script es (get_list (arg c 2))) in
    SList (run_ops st 0%Z (get_list (arg c 3)))
  else if head_is c "cl" then
    let es := entries_of (arg c 1) in
    let st := new_readdir (mk_script es (get_list (arg c 2))) in
    obs_list (cl_all enc_raw dec_raw (get_N (arg c 0)) (S (S (List.length es))) new_cdir st)
  else if head_is c "e2e" then
    let es := entries_of (arg c 1) in
    let st := new_readdir (mk_script es (get_list (arg c 2))) in
    (* Ropen carries iounit 0 for a directory, so the client reads msize-11 bytes at a time *)
    obs_list (cl_all enc_raw dec_raw (get_N (arg c 0) - 11)%N (S (S (List.length es))) new_cdir st)
  else SList [ssym "unknown-case"].

Definition run_line (line : list N) : list N := print_sexp (run_case (parse_sexp line)).
