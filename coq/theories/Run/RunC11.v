(* Case interpreter for C11: the serve acceptor of Run/RunC06.v, plus the evaluation of the COMPOSED
   model (Model/ServeSession.v) on the session-level histories of the harness's fs mode (the real
   SSession(SFileSys(mock)) behind ServeConn).

     (composed STEP...)
     STEP ::= (send RID TAG attach FID) | (send RID TAG walk FID NEWFID NNAMES)   request reaches the server
            | (fin RID)                       Handle of RID returned (in the order the harness saw them return)
            | (fault conn) | (fault ctx)      read error / peer close, or context cancellation
   The model runs the canonical composed schedule of that history - each request arrives and is
   dispatched; a return before the fault is delivered and written, one after it is followed by the handler
   goroutine's leave; the fault is followed by the loop's return; Stop at the end - under the mock file
   system's behaviour (Attach and Walk always succeed with a directory entry and one qid per name) and
   prints what the harness reads off VerifFidTable and the mock entries after Stop:
     (final (bound FID...) (rel COUNT...) STOPS)     bound fids sorted; per entry handed over, how often it
                                                     was released, sorted; number of Stop calls
   or (not-a-run) when the schedule is not a run of the composed model. *)
From Coq Require Import List NArith ZArith Bool String.
From stdpp Require Import gmap.
From P9 Require Import Base.Sexp Model.Serve Model.Session Model.FidSpec Model.ServeSession Run.RunC06.
Import ListNotations.
Open Scope N_scope.

(* the request as a message of [demo_codec] *)
Definition mock_msg (a : sexp) : list N :=
  if is_sym (arg a 2) (str "attach") then [104; get_N (arg a 3)]
  else if get_N (arg a 5) =? 0 then [110; get_N (arg a 3); get_N (arg a 4)]
  else [110; get_N (arg a 3); get_N (arg a 4); 97].
(* the mock file system: every call succeeds, every entry is a directory, Walk returns a qid per name (<= 1) *)
Definition mock_toks : list tok := [Tok 0 true 1].

Fixpoint sched (faulted : bool) (steps : list sexp) : list cevent :=
  match steps with
  | [] => [CEv EStop]
  | a :: rest =>
      if head_is a "send" then
        [CEv (ESend (get_N (arg a 0)) (get_N (arg a 1)) (KReq (mock_msg a))); CEv EReaderGet; CEv EArrive] ++ sched faulted rest
      else if head_is a "fin" then
        let rid := get_N (arg a 0) in
        (if faulted then [CFinish rid mock_toks; CEv (EGiveUp rid)]
         else [CFinish rid mock_toks; CEv (EComplete rid); CEv ETake; CEv EWriteOk]) ++ sched faulted rest
      else if head_is a "fault" then
        (if is_sym (arg a 0) (str "ctx") then [CEv ECtxCancel; CEv EReturn]
         else [CEv EConnErr; CEv EReaderFail; CEv EReturn]) ++ sched true rest
      else sched faulted rest
  end.

Definition count_stops (tr : list output) : N :=
  N.of_nat (length (List.filter (fun o => match o with Serve.OStop => true | _ => false end) tr)).

Definition final_obs (c : cst) (tr : list output) : sexp :=
  let ents := map N.of_nat (seq 0 (N.to_nat (next (c_ss c)))) in
  SList [ssym "final";
         SList (ssym "bound" :: map snat (sort_N (map fst (bound_fids c))));
         SList (ssym "rel" :: map snat (sort_N (map (fun e => N.of_nat (release_count c e)) ents)));
         snat (count_stops tr)].

Definition run_composed (c : sexp) : sexp :=
  match crun code_variant demo_codec cinit (sched false (tl (get_list c))) with
  | Some (c', tr) => final_obs c' tr
  | None => SList [ssym "not-a-run"]
  end.

Definition run_case (c : sexp) : sexp :=
  if head_is c "composed" then run_composed c else RunC06.run_case c.

Definition run_line (line : list N) : list N := print_sexp (run_case (parse_sexp line)).
