(* Case interpreter for C15 and C19: a case is one session,
     (seq UMASK OP ...)
   run through the ufs model (Model/Ufs.v, [impl_alg]) on the concrete host
   model (Model/HostFS.v, the sandbox /S/export + /S/outside).  The observation
   printed per operation is: the result, the fid table (fid, internal path,
   open state) and the export tree (names, kinds, modes, sizes) when it changed;
   at the end the content of every file and whether /S/outside is untouched. *)
From Coq Require Import List NArith ZArith Bool String.
From P9 Require Import Base.Sexp Base.Res Model.Path Model.HostFS Model.Ufs.
Import ListNotations.
Open Scope string_scope.

(* a name: #hex, or (cat PART...) with PART = #hex | (rep BYTE COUNT) *)
Definition name_of (s : sexp) : bstr :=
  match s with
  | SList (_ :: parts) =>
      flat_map (fun p => match p with
                         | SList _ => repeat (get_N (arg p 0)) (N.to_nat (get_N (arg p 1)))
                         | _ => get_bytes p
                         end) parts
  | _ => get_bytes s
  end.
Definition names_of (s : sexp) : list bstr := map name_of (get_list s).

Definition parse_op (c : sexp) : option op :=
  if head_is c "attach" then Some (OpAttach (get_N (arg c 0)))
  else if head_is c "walk" then Some (OpWalk (get_N (arg c 0)) (get_N (arg c 1)) (names_of (arg c 2)))
  else if head_is c "open" then Some (OpOpen (get_N (arg c 0)) (get_N (arg c 1)))
  else if head_is c "create" then Some (OpCreate (get_N (arg c 0)) (name_of (arg c 1)) (get_N (arg c 2)) (get_N (arg c 3)))
  else if head_is c "read" then Some (OpRead (get_N (arg c 0)) (get_N (arg c 1)) (get_Z (arg c 2)))
  else if head_is c "write" then Some (OpWrite (get_N (arg c 0)) (get_bytes (arg c 1)) (get_Z (arg c 2)))
  else if head_is c "stat" then Some (OpStat (get_N (arg c 0)))
  else if head_is c "wstat" then
    Some (OpWstat (get_N (arg c 0)) (name_of (arg c 1)) (get_N (arg c 2)) (get_N (arg c 3))
                  (get_bytes (arg c 4)) (get_bytes (arg c 5)))
  else if head_is c "clunk" then Some (OpClunk (get_N (arg c 0)))
  else if head_is c "remove" then Some (OpRemove (get_N (arg c 0)))
  else if head_is c "readdir" then Some (OpReadDir (get_N (arg c 0)))
  else None.

Definition sexp_info (i : hinfo) : sexp :=
  SList [ssym "info"; SBytes (hi_name i); sbool (hi_dir i); snat (hi_mode i); snat (if hi_dir i then 0%N else hi_size i)].

Definition sexp_obs (o : obs) : sexp :=
  match o with
  | ObErr => ssym "err"
  | ObOk => ssym "ok"
  | ObQid d => SList [ssym "qid"; sbool d]
  | ObWalk n d => SList [ssym "walk"; snat (N.of_nat n); sbool d]
  | ObData d => SList [ssym "data"; SBytes d]
  | ObCount n => SList [ssym "count"; snat n]
  | ObInfo i => sexp_info i
  | ObList l => SList (ssym "list" :: map sexp_info l)
  | ObHang => ssym "hang"
  | ObPanic => ssym "panic"
  | ObUnmodelled => ssym "unmodelled"
  end.

(* fid table sorted by fid *)
Fixpoint insert_fid {A} (e : N * A) (l : list (N * A)) : list (N * A) :=
  match l with
  | [] => [e]
  | j :: r => if N.leb (fst e) (fst j) then e :: l else j :: insert_fid e r
  end.
Definition sort_fids {A} (l : list (N * A)) : list (N * A) := fold_right insert_fid [] l.

Definition sexp_fids (t : list (N * sfid bstr)) : sexp :=
  SList (map (fun e =>
    SList [snat (fst e); SBytes (fr_path (sf_ent (snd e)));
           snat (match sf_file (snd e) with SFnone => 0 | SFdir _ => 1 | SFfile _ => 2 end)%N])
    (sort_fids t)).

Definition export_ino : N := 3.
Definition outside_ino : N := 4.

Definition export_dump (h : host) := dump_tree 64 (h_inodes h) [] export_ino.

Definition sexp_tree (h : host) : sexp :=
  let rootmode := match nassoc export_ino (h_inodes h) with Some (IDir m _) => m | _ => 0%N end in
  SList (SList [SBytes []; sbool true; snat rootmode; snat 0]
         :: map (fun e => let '(p, i, _) := e in
                  SList [SBytes (join_slash p); sbool (hi_dir i); snat (hi_mode i);
                         snat (if hi_dir i then 0%N else hi_size i)])
                (export_dump h)).

Definition sexp_content (h : host) : sexp :=
  SList (flat_map (fun e => let '(p, i, d) := e in
                     if hi_dir i then [] else [SList [SBytes (join_slash p); SBytes d]])
                  (export_dump h)).

Definition outside_intact (h : host) (h0 : host) : bool :=
  list_N_eqb (print_sexp (SList (map (fun e => let '(p, i, d) := e in SList [SBytes (join_slash p); sexp_info i; SBytes d])
                                     (dump_tree 64 (h_inodes h) [] outside_ino))))
             (print_sexp (SList (map (fun e => let '(p, i, d) := e in SList [SBytes (join_slash p); sexp_info i; SBytes d])
                                     (dump_tree 64 (h_inodes h0) [] outside_ino)))).

Definition A0 := impl_alg sandbox_base.

Fixpoint run_obs (s : ust host bstr) (prev : list N) (ops : list sexp) : ust host bstr * list sexp :=
  match ops with
  | [] => (s, [])
  | c :: r =>
      match parse_op c with
      | None => let '(s2, l) := run_obs s prev r in (s2, ssym "bad-op" :: l)
      | Some o =>
          let '(s1, ob) := step hcall_posix A0 s o in
          let t := sexp_tree (u_host s1) in
          let tp := print_sexp t in
          let tsx := if list_N_eqb tp prev then ssym "same" else t in
          let '(s2, l) := run_obs s1 tp r in
          (s2, SList [sexp_obs ob; sexp_fids (u_fids s1); tsx] :: l)
      end
  end.

Definition run_case (c : sexp) : sexp :=
  if head_is c "fullpath" then
    (* (fullpath #root #p): fServer.fullPath of NewServer(root) *)
    match fs_fullpath (path_clean (get_bytes (arg c 0))) (get_bytes (arg c 1)) with
    | Some hp => SList [ssym "ok"; SBytes hp]
    | None => SList [ssym "err"]
    end
  else if head_is c "reffull" then
    SBytes (ref_fullpath (path_clean (get_bytes (arg c 0))) (get_bytes (arg c 1)))
  else if head_is c "dir" then SBytes (path_dir (get_bytes (arg c 0)))
  else if head_is c "oflags" then
    (* (oflags MODE): util.go oflags as (access truncate create), access 0 = O_RDONLY, 1 = O_WRONLY, 2 = O_RDWR *)
    let f := ufs_oflags (get_N (arg c 0)) in
    SList [snat (match of_acc f with RDONLY => 0 | WRONLY => 1 | RDWR => 2 end)%N; sbool (of_trunc f); sbool (of_creat f)]
  else if head_is c "relseq" then
    (* (relseq #root UMASK OP...): a server created from a RELATIVE root while the working
       directory does not exist: Base = Clean(root) stays relative and the kernel resolves nothing *)
    let A := impl_alg (path_clean (get_bytes (arg c 0))) in
    let ops := flat_map (fun x => match parse_op x with Some o => [o] | None => [] end) (skipn 3 (get_list c)) in
    SList (ssym "obs" :: map sexp_obs (snd (run hcall_posix A (init (sandbox (get_N (arg c 1)))) ops)))
  else if head_is c "seq" then
    let h0 := sandbox (get_N (arg c 0)) in
    (* (root K) records which spelling of the export path the harness gave NewServer;
       Base is the cleaned path whatever the spelling *)
    (* (hosttime #rel SECS): the HOST changed a file's times (os.Chtimes); times are not modelled *)
    let ops := filter (fun x => negb (head_is x "root" || head_is x "hosttime")) (skipn 2 (get_list c)) in
    let '(s, l) := run_obs (init h0) [] ops in
    SList (ssym "obs" :: l ++ [SList [ssym "final"; sexp_content (u_host s);
                                      SList [ssym "outside"; sbool (outside_intact (u_host s) h0)]]])
  else SList [ssym "unknown-case"].

Definition run_line (line : list N) : list N := print_sexp (run_case (parse_sexp line)).
