(* Case interpreter for C18: (seq nsess op ...) -> (obs ...), printed canonically.
   Listings and the reference table are printed sorted (Go map order is random). *)
From Coq Require Import String.
From Coq Require Import List NArith ZArith Bool.
From P9 Require Import Base.Sexp Base.Res Model.Path Model.Ramfs.
Import ListNotations.
Open Scope string_scope.

Fixpoint bstr_leb (a b : bstr) : bool :=
  match a, b with
  | [], _ => true
  | _ :: _, [] => false
  | x :: a, y :: b => if (x <? y)%N then true else if (x =? y)%N then bstr_leb a b else false
  end.

Section Sort.
  Context {A : Type} (key : A -> bstr).
  Fixpoint insert_sorted (a : A) (l : list A) : list A :=
    match l with
    | [] => [a]
    | b :: r => if bstr_leb (key a) (key b) then a :: l else b :: insert_sorted a r
    end.
  Definition sort_by (l : list A) : list A := fold_right insert_sorted [] l.
End Sort.

Definition names_of (s : sexp) : list bstr := map get_bytes (get_list s).
Definition nat_of (s : sexp) : nat := N.to_nat (get_N s).

Definition parse_op (c : sexp) : option op :=
  if head_is c "attach" then Some (OAttach (nat_of (arg c 0)) (get_N (arg c 1)) (get_bytes (arg c 2)))
  else if head_is c "walk" then Some (OWalk (nat_of (arg c 0)) (get_N (arg c 1)) (get_N (arg c 2)) (names_of (arg c 3)))
  else if head_is c "create" then Some (OCreate (nat_of (arg c 0)) (get_N (arg c 1)) (get_bytes (arg c 2)) (get_N (arg c 3)) (get_N (arg c 4)))
  else if head_is c "open" then Some (OOpen (nat_of (arg c 0)) (get_N (arg c 1)) (get_N (arg c 2)))
  else if head_is c "read" then Some (ORead (nat_of (arg c 0)) (get_N (arg c 1)) (get_N (arg c 2)) (get_N (arg c 3)))
  else if head_is c "write" then Some (OWrite (nat_of (arg c 0)) (get_N (arg c 1)) (get_N (arg c 2)) (get_bytes (arg c 3)))
  else if head_is c "stat" then Some (OStat (nat_of (arg c 0)) (get_N (arg c 1)))
  else if head_is c "wstat" then Some (OWstat (nat_of (arg c 0)) (get_N (arg c 1)) (get_N (arg c 2))
                                           (get_bytes (arg c 3)) (get_bytes (arg c 4)) (get_bytes (arg c 5)) (get_N (arg c 6)))
  else if head_is c "remove" then Some (ORemove (nat_of (arg c 0)) (get_N (arg c 1)))
  else if head_is c "clunk" then Some (OClunk (nat_of (arg c 0)) (get_N (arg c 1)))
  else if head_is c "reftable" then Some ORefTable
  else None.

Fixpoint parse_ops (l : list sexp) : list op :=
  match l with
  | [] => []
  | c :: r => match parse_op c with Some o => o :: parse_ops r | None => parse_ops r end
  end.

Definition sexp_qid (q : qid) : sexp :=
  let '(t, p, v) := q in SList [snat t; snat p; snat v].

Definition sexp_info (i : info) : sexp :=
  SList [SBytes (i_name i); snat (i_qtype i); snat (i_qpath i); snat (i_qvers i); snat (i_mode i); snat (i_len i);
         SBytes (i_uid i); SBytes (i_gid i); SBytes (i_muid i)].

Definition sexp_row (r : bstr * Z * Z * bool * Z) : sexp :=
  let '(p, nref, links, isdir, len) := r in
  SList [SBytes p; SNum nref; SNum links; sbool isdir; SNum len].

Definition sexp_out (o : out) : sexp :=
  match o with
  | RNone => SList [ssym "ok"]
  | RQid q => SList [ssym "ok"; sexp_qid q]
  | RQids l => SList [ssym "ok"; SList (ssym "qids" :: map sexp_qid l)]
  | RData b => SList [ssym "ok"; SBytes b]
  | RDirs l => SList [ssym "ok"; SList (ssym "dirs" :: map sexp_info (sort_by i_name l))]
  | RCount n => SList [ssym "ok"; SNum n]
  | RStat i => SList [ssym "ok"; SList [ssym "stat"; sexp_info i]]
  | RTab l g => SList [ssym "ok"; SList (ssym "tab" :: map sexp_row (sort_by (fun r => fst (fst (fst (fst r)))) l));
                       SList (ssym "gone" :: map (fun r => let '(qp, nref, nk) := r in SList [snat qp; SNum nref; SNum nk]) g)]
  end.

Definition sexp_res (r : res out) : sexp :=
  match r with
  | Ok o => sexp_out o
  | Err e => SList [ssym "err"; SSym e]
  | Panic => ssym "panic"
  | Hang => ssym "hang"
  end.

Definition run_case (c : sexp) : sexp :=
  if head_is c "seq" then
    let nsess := nat_of (arg c 0) in
    SList (map sexp_res (run (init_world nsess) (parse_ops (tl (tl (get_list c))))))
  else SList [ssym "unknown-case"].

Definition run_line (line : list N) : list N := print_sexp (run_case (parse_sexp line)).
