(* Case interpreter for the codec properties C01 and C04. *)
From Coq Require Import List NArith ZArith Bool String.
From P9 Require Import Base.Sexp Base.Res Base.Bytes Model.WireTypes Model.Spec9P Model.Wire Run.WireSexp.
Import ListNotations.
Open Scope string_scope.
Open Scope N_scope.

Definition run_case (c : sexp) : sexp :=
  if head_is c "enc" then
    (* Marshal bytes, Size, and Unmarshal(Marshal(m)) *)
    let f := fcall_of_sexp (arg c 0) in
    let bs := enc_fcall f in
    SList [SBytes bs; snat (size_fcall f); sexp_of_res (fun g => [sexp_of_fcall g]) (dec_fcall bs)]
  else if head_is c "dec" then
    sexp_of_res (fun g => [sexp_of_fcall g]) (dec_fcall (get_bytes (arg c 0)))
  else if head_is c "decdir" then
    sexp_of_res (fun x => [SList (map sexp_of_fval (fst x)); snat (len (snd x))]) (decode_dir (get_bytes (arg c 0)))
  else if head_is c "decdir-stream" then
    sexp_of_res (fun x => [SList (map sexp_of_fval (fst x)); snat (len (snd x))]) (decode_dir_stream (get_bytes (arg c 0)))
  else if head_is c "encdir" then
    SBytes (enc_dir (map fval_of_sexp (get_list (arg c 0))))
  else if head_is c "alloc" then
    (* the measured allocation is part of the case; the model accepts it when it is within
       4096 + 64*len + 4*(what the code requests on this path) *)
    let bs := get_bytes (arg c 0) in
    let a := alloc_fcall bs in
    if get_N (arg c 1) <=? 4096 + 64 * len bs + 4 * a then ssym "ok" else SList [ssym "reject"; snat a]
  else if head_is c "allocdir" then
    let bs := get_bytes (arg c 0) in
    let a := alloc_decode_dir bs in
    if get_N (arg c 1) <=? 4096 + 64 * len bs + 4 * a then ssym "ok" else SList [ssym "reject"; snat a]
  else SList [ssym "unknown-case"].

Definition run_line (line : list N) : list N := print_sexp (run_case (parse_sexp line)).
