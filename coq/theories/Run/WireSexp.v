(* fcall / Dir values <-> S-expressions, shared by the Run files that talk about messages.
     field ::= (i w n) | (s #hex) | (d #hex) | (ss (#hex ...)) | (q t v p) | (qs ((t v p) ...)) | (t secs) | (dir (field ...))
     fcall ::= (fcall type tag (field ...)) *)
From Coq Require Import List NArith ZArith Bool String.
From P9 Require Import Base.Sexp Base.Res Base.Bytes Model.WireTypes.
Import ListNotations.
Open Scope string_scope.

Definition sexp_of_qid (q : qid) : list sexp := [snat (q_type q); snat (q_vers q); snat (q_path q)].
Definition qid_of_sexps (l : list sexp) : qid :=
  {| q_type := get_N (nth 0 l (SNum 0)); q_vers := get_N (nth 1 l (SNum 0)); q_path := get_N (nth 2 l (SNum 0)) |}.

Definition sexp_of_fval (f : fval) : sexp :=
  match f with
  | FInt w n => SList [ssym "i"; snat w; snat n]
  | FStr s => SList [ssym "s"; SBytes s]
  | FData d => SList [ssym "d"; SBytes d]
  | FStrs l => SList [ssym "ss"; SList (map SBytes l)]
  | FQid q => SList (ssym "q" :: sexp_of_qid q)
  | FQids l => SList [ssym "qs"; SList (map (fun q => SList (sexp_of_qid q)) l)]
  | FTime t => SList [ssym "t"; SNum t]
  end.
Definition sexp_of_val (v : val) : sexp :=
  match v with
  | VF f => sexp_of_fval f
  | VDir fs => SList [ssym "dir"; SList (map sexp_of_fval fs)]
  end.
Definition sexp_of_fcall (f : fcall) : sexp :=
  SList [ssym "fcall"; snat (fc_type f); snat (fc_tag f); SList (map sexp_of_val (fc_fields f))].

Definition fval_of_sexp (s : sexp) : fval :=
  if head_is s "i" then FInt (get_N (arg s 0)) (get_N (arg s 1))
  else if head_is s "s" then FStr (get_bytes (arg s 0))
  else if head_is s "d" then FData (get_bytes (arg s 0))
  else if head_is s "ss" then FStrs (map get_bytes (get_list (arg s 0)))
  else if head_is s "q" then FQid (qid_of_sexps (tl (get_list s)))
  else if head_is s "qs" then FQids (map (fun x => qid_of_sexps (get_list x)) (get_list (arg s 0)))
  else FTime (get_Z (arg s 0)).
Definition val_of_sexp (s : sexp) : val :=
  if head_is s "dir" then VDir (map fval_of_sexp (get_list (arg s 0))) else VF (fval_of_sexp s).
Definition fcall_of_sexp (s : sexp) : fcall :=
  {| fc_type := get_N (arg s 0); fc_tag := get_N (arg s 1); fc_fields := map val_of_sexp (get_list (arg s 2)) |}.

Definition err_class (e : list N) : sexp :=
  match e with
  | [1%N] => ssym "eof" | [2%N] => ssym "ueof" | [3%N] => ssym "unknown" | _ => ssym "other"
  end.
Definition sexp_of_res {A} (f : A -> list sexp) (r : res A) : sexp :=
  match r with
  | Ok a => SList (ssym "ok" :: f a)
  | Err e => SList [ssym "err"; err_class e]
  | Panic => SList [ssym "panic"]
  | Hang => SList [ssym "hang"]
  end.
