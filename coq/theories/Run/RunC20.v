(* Case interpreter for C20: a sequence of client-layer operations, each with the
   answer the (spied) session gave to the call it issued; the model says which call
   is issued, what the caller gets back, and which fids the abstract server holds. *)
From Coq Require Import List NArith ZArith Bool String.
From P9 Require Import Base.Sexp Base.Res Model.Path Model.Cfs.
Import ListNotations.
Open Scope string_scope.

Definition get_qid (s : sexp) : qid :=
  let l := get_list s in
  (get_N (nth 0 l (SNum 0)), get_N (nth 1 l (SNum 0)), get_N (nth 2 l (SNum 0))).
Definition sexp_of_qid (q : qid) : sexp :=
  let '(t, v, p) := q in SList [snat t; snat v; snat p].

Definition get_ans (s : sexp) : sres :=
  if head_is s "qid" then AQid (get_qid (SList (tl (get_list s))))
  else if head_is s "walk" then AWalk (map get_qid (tl (get_list s)))
  else if head_is s "open" then AOpen (get_qid (arg s 0)) (get_N (arg s 1))
  else if head_is s "stat" then AStat (get_bytes (arg s 0))
  else if is_sym s (str "unit") then AUnit
  else AErr.

Definition names_of (s : sexp) : list bstr := map get_bytes (get_list s).

Definition slot (slots : list cEnt) (s : sexp) : cEnt := nth (N.to_nat (get_N s)) slots noEnt.

(* (op, answer, slot index the op works on) *)
Definition get_op (slots : list cEnt) (s : sexp) : op * sres * nat :=
  let i := N.to_nat (get_N (arg s 0)) in
  if head_is s "attach" then
    (OAttach (get_bytes (arg s 0)) (get_bytes (arg s 1))
       (match get_N (arg s 2) with 0%N => AfNil | 1%N => AfFile (get_N (arg s 3)) | _ => AfOther end),
     get_ans (arg s 4), 0%nat)
  else if head_is s "walk" then (OWalk (slot slots (arg s 0)) (names_of (arg s 1)), get_ans (arg s 2), i)
  else if head_is s "open" then (OOpen (slot slots (arg s 0)) (get_N (arg s 1)), get_ans (arg s 2), i)
  else if head_is s "opendir" then (OOpenDir (slot slots (arg s 0)), get_ans (arg s 1), i)
  else if head_is s "create" then
    (OCreate (slot slots (arg s 0)) (get_bytes (arg s 1)) (get_N (arg s 2)) (get_N (arg s 3)), get_ans (arg s 4), i)
  else if head_is s "stat" then (OStat (slot slots (arg s 0)), get_ans (arg s 1), i)
  else if head_is s "wstat" then (OWStat (slot slots (arg s 0)) (get_bytes (arg s 1)), get_ans (arg s 2), i)
  else if head_is s "clunk" then (OClunk (slot slots (arg s 0)), get_ans (arg s 1), i)
  else (ORemove (slot slots (arg s 0)), get_ans (arg s 1), i).

Definition sexp_of_call (c : option scall) : sexp :=
  match c with
  | None => ssym "none"
  | Some (SAttach f a u n) => SList [ssym "attach"; snat f; snat a; SBytes u; SBytes n]
  | Some (SWalk f nf names) => SList [ssym "walk"; snat f; snat nf; SList (map SBytes names)]
  | Some (SOpen f m) => SList [ssym "open"; snat f; snat m]
  | Some (SCreate f name p m) => SList [ssym "create"; snat f; SBytes name; snat p; snat m]
  | Some (SStat f) => SList [ssym "stat"; snat f]
  | Some (SWStat f d) => SList [ssym "wstat"; snat f; SBytes d]
  | Some (SClunk f) => SList [ssym "clunk"; snat f]
  | Some (SRemove f) => SList [ssym "remove"; snat f]
  end.

Definition sexp_of_res (r : cres) : sexp :=
  match r with
  | CEnt e => SList [ssym "ent"; snat (c_fid e); sexp_of_qid (c_qid e)]
  | CWalk qids e => SList [ssym "walk"; SList (map sexp_of_qid qids); snat (c_fid e); sexp_of_qid (c_qid e)]
  | CPartial qids => SList [ssym "partial"; SList (map sexp_of_qid qids)]
  | CInvalid => ssym "invalid"
  | CFile _ iou => SList [ssym "file"; SNum iou]
  | CDir => ssym "dir"
  | CCreated e iou => SList [ssym "created"; snat (c_fid e); sexp_of_qid (c_qid e); SNum iou]
  | CStat d => SList [ssym "stat"; SBytes d]
  | CUnit => ssym "unit"
  | CErr => ssym "err"
  | CRefused => ssym "refused"
  | CPanic => ssym "panic"
  end.

(* sorted, duplicate-free list of bound fids *)
Fixpoint insert_sorted (x : N) (l : list N) : list N :=
  match l with
  | [] => [x]
  | y :: r => if (x <? y)%N then x :: l else if (x =? y)%N then l else y :: insert_sorted x r
  end.
Definition sort_fids (l : list N) : list N := fold_right insert_sorted [] l.

Fixpoint set_nth {A} (n : nat) (x : A) (l : list A) : list A :=
  match l, n with
  | [], _ => []
  | _ :: r, O => x :: r
  | y :: r, S k => y :: set_nth k x r
  end.

Fixpoint run_ops (msize : Z) (st : sys) (slots : list cEnt) (ops : list sexp) : list sexp :=
  match ops with
  | [] => []
  | s :: rest =>
      let '(o, a, i) := get_op slots s in
      let '(st', c, r) := step msize st o a in
      let slots' := match r with
                    | CEnt e => (slots ++ [e])%list
                    | CWalk _ e => (slots ++ [e])%list
                    | CCreated e _ => set_nth i e slots
                    | _ => slots
                    end in
      SList [sexp_of_call c; sexp_of_res r; SList (map snat (sort_fids (s_srv st')))]
        :: run_ops msize st' slots' rest
  end.

Definition run_case (c : sexp) : sexp :=
  if head_is c "cfs" then
    SList (run_ops (get_Z (arg c 0)) sys0 [] (tl (tl (get_list c))))
  else SList [ssym "unknown-case"].

Definition run_line (line : list N) : list N := print_sexp (run_case (parse_sexp line)).
