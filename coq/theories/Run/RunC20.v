(* Case interpreter for C20: a sequence of client-layer operations, each with the
   answer the (spied) session gave to the call it issued; the model says which call
   is issued, what the caller gets back, and which fids the abstract server holds. *)
From Coq Require Import List NArith ZArith Bool String.
From P9 Require Import Base.Sexp Base.Res Model.Path Model.Cfs.
Import ListNotations.
Open Scope string_scope.

Definition get_qid (s : sexp) : qid :=
  let l := get_list s in
  (get_N (nth 0 l (SNum 0)), get_N (nth 1 l (SNum 0)), get_N (nth 2 l (SNum 0))).
Definition sexp_of_qid (q : qid) : sexp :=
  let '(t, v, p) := q in SList [snat t; snat v; snat p].

Definition get_ans (s : sexp) : sres :=
  if head_is s "qid" then AQid (get_qid (SList (tl (get_list s))))
  else if head_is s "walk" then AWalk (map get_qid (tl (get_list s)))
  else if head_is s "open" then AOpen (get_qid (arg s 0)) (get_N (arg s 1))
  else if head_is s "stat" then AStat (get_bytes (arg s 0))
  else if head_is s "read" then ARead (get_bytes (arg s 0))
  else if head_is s "written" then AWritten (get_N (arg s 0))
  else if is_sym s (str "unit") then AUnit
  else AErr.

Definition names_of (s : sexp) : list bstr := map get_bytes (get_list s).

Definition slot (slots : list cEnt) (s : sexp) : cEnt := nth (N.to_nat (get_N s)) slots noEnt.

(* (op, answer, slot index the op works on) *)
(* auth files are referred to by the index of the Auth operation that returned them
   (a failed Auth returns noAuth: afid NOFID) *)
Definition aslot (aslots : list N) (s : sexp) : N := nth (N.to_nat (get_N s)) aslots NOFID.

Definition get_op (slots : list cEnt) (aslots : list N) (s : sexp) : op * sres * nat :=
  let i := N.to_nat (get_N (arg s 0)) in
  if head_is s "attach" then
    (OAttach (get_bytes (arg s 0)) (get_bytes (arg s 1))
       (match get_N (arg s 2) with 0%N => AfNil | 1%N => AfFile (aslot aslots (arg s 3)) | _ => AfOther end),
     get_ans (arg s 4), 0%nat)
  else if head_is s "auth" then (OAuth (get_bytes (arg s 0)) (get_bytes (arg s 1)), get_ans (arg s 2), 0%nat)
  else if head_is s "aread" then
    (OARead (aslot aslots (arg s 0)) (get_N (arg s 1)) (get_Z (arg s 2)), get_ans (arg s 3), 0%nat)
  else if head_is s "awrite" then
    (OAWrite (aslot aslots (arg s 0)) (get_bytes (arg s 1)) (get_Z (arg s 2)), get_ans (arg s 3), 0%nat)
  else if head_is s "aclose" then (OAClose (aslot aslots (arg s 0)), get_ans (arg s 1), 0%nat)
  else if head_is s "walk" then (OWalk (slot slots (arg s 0)) (names_of (arg s 1)), get_ans (arg s 2), i)
  else if head_is s "open" then (OOpen (slot slots (arg s 0)) (get_N (arg s 1)), get_ans (arg s 2), i)
  else if head_is s "opendir" then (OOpenDir (slot slots (arg s 0)), get_ans (arg s 1), i)
  else if head_is s "create" then
    (OCreate (slot slots (arg s 0)) (get_bytes (arg s 1)) (get_N (arg s 2)) (get_N (arg s 3)), get_ans (arg s 4), i)
  else if head_is s "stat" then (OStat (slot slots (arg s 0)), get_ans (arg s 1), i)
  else if head_is s "wstat" then (OWStat (slot slots (arg s 0)) (get_bytes (arg s 1)), get_ans (arg s 2), i)
  else if head_is s "clunk" then (OClunk (slot slots (arg s 0)), get_ans (arg s 1), i)
  else (ORemove (slot slots (arg s 0)), get_ans (arg s 1), i).

Definition sexp_of_call (c : option scall) : sexp :=
  match c with
  | None => ssym "none"
  | Some (SAttach f a u n) => SList [ssym "attach"; snat f; snat a; SBytes u; SBytes n]
  | Some (SWalk f nf names) => SList [ssym "walk"; snat f; snat nf; SList (map SBytes names)]
  | Some (SOpen f m) => SList [ssym "open"; snat f; snat m]
  | Some (SCreate f name p m) => SList [ssym "create"; snat f; SBytes name; snat p; snat m]
  | Some (SStat f) => SList [ssym "stat"; snat f]
  | Some (SWStat f d) => SList [ssym "wstat"; snat f; SBytes d]
  | Some (SClunk f) => SList [ssym "clunk"; snat f]
  | Some (SRemove f) => SList [ssym "remove"; snat f]
  | Some (SAuth f u n) => SList [ssym "auth"; snat f; SBytes u; SBytes n]
  | Some (SRead f c o) => SList [ssym "read"; snat f; snat c; SNum o]
  | Some (SWrite f d o) => SList [ssym "write"; snat f; SBytes d; SNum o]
  end.

Definition sexp_of_res (r : cres) : sexp :=
  match r with
  | CEnt e => SList [ssym "ent"; snat (c_fid e); sexp_of_qid (c_qid e)]
  | CWalk qids e => SList [ssym "walk"; SList (map sexp_of_qid qids); snat (c_fid e); sexp_of_qid (c_qid e)]
  | CPartial qids => SList [ssym "partial"; SList (map sexp_of_qid qids)]
  | CInvalid => ssym "invalid"
  | CFile _ iou => SList [ssym "file"; SNum iou]
  | CDir => ssym "dir"
  | CCreated e iou => SList [ssym "created"; snat (c_fid e); sexp_of_qid (c_qid e); SNum iou]
  | CStat d => SList [ssym "stat"; SBytes d]
  | CUnit => ssym "unit"
  | CAuth a iou => SList [ssym "authfile"; snat a; SNum iou]
  | CRead d => SList [ssym "read"; SBytes d]
  | CWritten n => SList [ssym "written"; snat n]
  | CErr => ssym "err"
  | CRefused => ssym "refused"
  | CPanic => ssym "panic"
  end.

(* sorted, duplicate-free list of bound fids *)
Fixpoint insert_sorted (x : N) (l : list N) : list N :=
  match l with
  | [] => [x]
  | y :: r => if (x <? y)%N then x :: l else if (x =? y)%N then l else y :: insert_sorted x r
  end.
Definition sort_fids (l : list N) : list N := fold_right insert_sorted [] l.

Fixpoint set_nth {A} (n : nat) (x : A) (l : list A) : list A :=
  match l, n with
  | [], _ => []
  | _ :: r, O => x :: r
  | y :: r, S k => y :: set_nth k x r
  end.

Fixpoint run_ops (table : bool) (msize : Z) (st : sys) (slots : list cEnt) (aslots : list N) (ops : list sexp) : list sexp :=
  match ops with
  | [] => []
  | s :: rest =>
      let '(o, a, i) := get_op slots aslots s in
      let '(st', c, r) := step msize st o a in
      let slots' := match r with
                    | CEnt e => (slots ++ [e])%list
                    | CWalk _ e => (slots ++ [e])%list
                    | CCreated e _ => set_nth i e slots
                    | _ => slots
                    end in
      SList (sexp_of_call c :: sexp_of_res r ::
             (if table then [SList (map snat (sort_fids (s_srv st')))] else []))
        :: run_ops table msize st' slots'
             (match o, r with
              | OAuth _ _, CAuth af _ => (aslots ++ [af])%list
              | OAuth _ _, _ => (aslots ++ [NOFID])%list
              | _, _ => aslots
              end) rest
  end.

(* ---- long histories: (long msize rounds keep_every) ----
   One attach, then `rounds` rounds, round i walking from the root with a name list chosen by
   i mod 5 (clone / one name / two names answered partially / invalid path / ("dir1" ".")),
   the entry obtained clunked (i even) or removed (i odd) at once, or kept when keep_every
   divides i; at the end everything kept is clunked.  The history and the session's answers are
   a function of the three parameters (the harness scripts its FileSys accordingly and reports
   whether the answers were the scripted ones), so the case stays short while the model has to
   predict the fid of EVERY call: walks whose newfid is not the previous newfid + 1 are listed,
   and all calls go into a rolling checksum. *)
Definition hmix (h v : N) : N := ((h * 1000003 + v + 1) mod 2147483647)%N.
Definition hcall (h : N) (c : option scall) : N :=
  match c with
  | None => h
  | Some (SAttach f a _ _) => hmix (hmix (hmix h 1) f) a
  | Some (SWalk f nf names) => hmix (hmix (hmix (hmix h 2) f) nf) (N.of_nat (List.length names))
  | Some (SClunk f) => hmix (hmix h 3) f
  | Some (SRemove f) => hmix (hmix h 4) f
  | Some _ => hmix h 9
  end.

Record lst := { l_sys : sys; l_i : N; l_walks : N; l_prev : N; l_breaks : list sexp; l_hash : N; l_kept : list cEnt }.

Definition q7 : qid := (128, 0, 7)%N.
Definition long_names (k : N) : list bstr :=
  match k with
  | 0%N => []
  | 1%N => [str "a"]
  | 2%N => [str "a"; str "b"]
  | 3%N => [str "x/y"]
  | _ => [str "dir1"; str "."]
  end.
Definition long_ans (k : N) : sres := match k with 0%N => AWalk [] | _ => AWalk [q7] end.

Definition long_round (msize : Z) (keep_every : N) (root : cEnt) (s : lst) : lst :=
  let i := l_i s in
  let k := (i mod 5)%N in
  let '(st1, c, r) := step msize (l_sys s) (OWalk root (long_names k)) (long_ans k) in
  let h1 := hcall (l_hash s) c in
  let '(walks, prev, breaks) :=
    match c with
    | Some (SWalk _ nf _) =>
        ((l_walks s + 1)%N, nf,
         if (nf =? l_prev s + 1)%N then l_breaks s else SList [snat (l_walks s); snat nf] :: l_breaks s)
    | _ => (l_walks s, l_prev s, l_breaks s)
    end in
  match r with
  | CWalk _ e =>
      if negb (keep_every =? 0)%N && (i mod keep_every =? 0)%N then
        {| l_sys := st1; l_i := (i + 1)%N; l_walks := walks; l_prev := prev; l_breaks := breaks;
           l_hash := h1; l_kept := e :: l_kept s |}
      else
        let o2 := if N.even i then OClunk e else ORemove e in
        let '(st2, c2, _) := step msize st1 o2 AUnit in
        {| l_sys := st2; l_i := (i + 1)%N; l_walks := walks; l_prev := prev; l_breaks := breaks;
           l_hash := hcall h1 c2; l_kept := l_kept s |}
  | _ =>
      {| l_sys := st1; l_i := (i + 1)%N; l_walks := walks; l_prev := prev; l_breaks := breaks;
         l_hash := h1; l_kept := l_kept s |}
  end.

Definition long_run (msize : Z) (rounds keep_every : N) : sexp :=
  let '(st0, c0, r0) := step msize sys0 (OAttach [] [] AfNil) (AQid (128, 0, 1)%N) in
  let root := match r0 with CEnt e => e | _ => noEnt end in
  let s0 := {| l_sys := st0; l_i := 0; l_walks := 0; l_prev := c_fid root; l_breaks := [];
               l_hash := hcall 0 c0; l_kept := [] |} in
  let s := N.iter rounds (long_round msize keep_every root) s0 in
  let live := sort_fids (map c_fid (s_live (l_sys s))) in
  (* let go of everything held: the kept entries oldest first, then the root *)
  let '(stf, hf) :=
    fold_left (fun '(st, h) e => let '(st', c, _) := step msize st (OClunk e) AUnit in (st', hcall h c))
              (rev (l_kept s) ++ [root])%list (l_sys s, l_hash s) in
  SList [ssym "long";
         SList [ssym "walks"; snat (l_walks s)];
         SList [ssym "breaks"; SList (rev (l_breaks s))];
         SList [ssym "hash"; snat hf];
         SList [ssym "live"; SList (map snat live)];
         SList [ssym "bound"; SList (map snat (sort_fids (s_srv stf)))];
         SList [ssym "scripted"; snat 1]].

Definition run_case (c : sexp) : sexp :=
  if head_is c "cfs" then
    SList (run_ops true (get_Z (arg c 0)) sys0 [] [] (tl (tl (get_list c))))
  (* the same over a session with no server behind it: no table to compare *)
  else if head_is c "cfsx" then
    SList (run_ops false (get_Z (arg c 0)) sys0 [] [] (tl (tl (get_list c))))
  else if head_is c "long" then long_run (get_Z (arg c 0)) (get_N (arg c 1)) (get_N (arg c 2))
  else SList [ssym "unknown-case"].

Definition run_line (line : list N) : list N := print_sexp (run_case (parse_sexp line)).
