(* Case interpreter for C09: case sexp -> observation sexp.
     (call MSIZE SMSIZE Method (arg…) SCRIPT)  ->  (RECV GOT)
     (reply Method (arg…) (msg TYPE wireval…)) ->  GOT
     (flow NCALLERS complete|stuck)            ->  ok | (reject why)
     (barrier NCALLERS complete|stuck)         ->  ok | (reject why)
   Values:  integers bare; (s #hex) string; (b #hex…) []byte (atoms concatenated); (buf n) out-buffer of length n;
            (ss #hex…) []string; (q t v p) Qid; (qs (q…)…) []Qid;
            (dir type dev (q…) mode (t sec nsec) (t sec nsec) length #name #uid #gid #muid)
   SCRIPT:  (ok val…) | (read #data…) | (rerror #ename) | (prerror #ename) | (plain #text)
   RECV:    none | (recv Method val…)
   GOT:     (got (val…) #out ERR), ERR = nil | (rerror #e) | eof | shortwrite | (overflow n) | closed *)
From Coq Require Import List NArith ZArith Bool String.
From P9 Require Import Base.Sexp Base.Res Model.WireTypes Gen.GenWire Gen.GenDispatch Model.Pipeline Model.Flow.
Import ListNotations.
Open Scope string_scope.

Definition zN (s : sexp) : N := Z.to_N (get_Z s).

Definition qid_of_sexp (s : sexp) : qid :=
  {| q_type := zN (arg s 0); q_vers := zN (arg s 1); q_path := zN (arg s 2) |}.
Definition sexp_of_qid (q : qid) : sexp :=
  SList [ssym "q"; snat (q_type q); snat (q_vers q); snat (q_path q)].

Definition dval_of_sexp (k : kind) (s : sexp) : dval :=
  match k with
  | KInt w => DF (FInt w (zN s))
  | KStr => DF (FStr (get_bytes s))
  | KQid => DF (FQid (qid_of_sexp s))
  | KTime => DTime (get_Z (arg s 0)) (get_Z (arg s 1))
  | KData => DF (FData (get_bytes s))
  | _ => DF (FStr [])
  end.
Definition sexp_of_dval (d : dval) : sexp :=
  match d with
  | DF (FInt _ n) => snat n
  | DF (FStr s) => SBytes s
  | DF (FData s) => SBytes s
  | DF (FQid q) => sexp_of_qid q
  | DF (FTime t) => SList [ssym "t"; SNum t; SNum 0]
  | DF _ => SList []
  | DTime s n => SList [ssym "t"; SNum s; SNum n]
  end.

Fixpoint dir_of_sexps (ks : list (string * kind)) (l : list sexp) : list dval :=
  match ks, l with
  | (_, k) :: kr, s :: r => dval_of_sexp k s :: dir_of_sexps kr r
  | _, _ => []
  end.

(* long byte strings come as several atoms: (b #c1 #c2 …) *)
Definition chunked (s : sexp) : list N := List.concat (map get_bytes (tl (get_list s))).

Definition gval_of_sexp (s : sexp) : gval :=
  match s with
  | SNum z => GInt z
  | _ =>
      if head_is s "s" then GStr (get_bytes (arg s 0))
      else if head_is s "b" then GBytes (chunked s)
      else if head_is s "buf" then GBuf (get_Z (arg s 0))
      else if head_is s "ss" then GStrs (map get_bytes (tl (get_list s)))
      else if head_is s "q" then GQid (qid_of_sexp s)
      else if head_is s "qs" then GQids (map qid_of_sexp (tl (get_list s)))
      else if head_is s "dir" then GDir (dir_of_sexps gen_dir_fields (tl (get_list s)))
      else GInt 0
  end.

Definition sexp_of_gval (g : gval) : sexp :=
  match g with
  | GInt z => SNum z
  | GStr s => SList [ssym "s"; SBytes s]
  | GBytes d => SList [ssym "b"; SBytes d]
  | GBuf n => SList [ssym "buf"; SNum n]
  | GStrs l => SList (ssym "ss" :: map SBytes l)
  | GQid q => sexp_of_qid q
  | GQids l => SList (ssym "qs" :: map sexp_of_qid l)
  | GDir fs => SList (ssym "dir" :: map sexp_of_dval fs)
  end.

Definition sexp_of_err (e : gerr) : sexp :=
  match e with
  | ENil => ssym "nil"
  | ERerror n => SList [ssym "rerror"; SBytes n]
  | EPlain t => SList [ssym "plain"; SBytes t]
  | EEof => ssym "eof"
  | EShortWrite => ssym "shortwrite"
  | EOverflow n => SList [ssym "overflow"; SNum n]
  | EClosed => ssym "closed"
  end.

Definition sexp_of_got (r : res outcome) : sexp :=
  match r with
  | Ok o => SList [ssym "got"; SList (map sexp_of_gval (o_vals o)); SBytes (o_out o); sexp_of_err (o_err o)]
  | Err _ => SList [ssym "model-error"]
  | Panic => ssym "panic"
  | Hang => ssym "hang"
  end.

(* the scripted session: what S answers, as a function of the call it receives *)
Definition buf_len (args : list gval) : Z :=
  match find (fun g => match g with GBuf _ => true | _ => false end) args with
  | Some (GBuf n) => n
  | _ => 0
  end.

Definition script_session (script : sexp) : session := fun _ sargs =>
  if head_is script "ok" then {| o_vals := map gval_of_sexp (tl (get_list script)); o_out := []; o_err := ENil |}
  else if head_is script "read" then
    let out := firstn (Z.to_nat (buf_len sargs)) (chunked script) in
    {| o_vals := [GInt (zlen out)]; o_out := out; o_err := ENil |}
  else if head_is script "rerror" then {| o_vals := []; o_out := []; o_err := ERerror (get_bytes (arg script 0)) |}
  else if head_is script "prerror" then {| o_vals := []; o_out := []; o_err := ERerror (get_bytes (arg script 0)) |}
  else {| o_vals := []; o_out := []; o_err := EPlain (get_bytes (arg script 0)) |}.

Definition client_by_name (name : list N) : option cmethod :=
  find (fun m => list_N_eqb (str (cm_name m)) name) gen_client.

(* wire values of a reply message as the client's channel decoded it *)
Definition wval_of_sexp (s : sexp) : val :=
  if head_is s "i" then VF (FInt (zN (arg s 0)) (zN (arg s 1)))
  else if head_is s "s" then VF (FStr (get_bytes (arg s 0)))
  else if head_is s "b" then VF (FData (chunked s))
  else if head_is s "ss" then VF (FStrs (map get_bytes (tl (get_list s))))
  else if head_is s "q" then VF (FQid (qid_of_sexp s))
  else if head_is s "qs" then VF (FQids (map qid_of_sexp (tl (get_list s))))
  else if head_is s "dir" then VDir (map wire_of_dval (dir_of_sexps gen_dir_fields (tl (get_list s))))
  else VF (FStr []).

Definition run_case (c : sexp) : sexp :=
  if head_is c "call" then
    match client_by_name (get_bytes (arg c 2)) with
    | None => SList [ssym "unknown-method"]
    | Some m =>
        let ob := roundtrip transfer_id (get_Z (arg c 0)) (get_Z (arg c 1)) m
                    (map gval_of_sexp (get_list (arg c 3))) (script_session (arg c 4)) in
        SList [match ob_recv ob with
               | None => ssym "none"
               | Some (meth, sargs) => SList (ssym "recv" :: SSym (str meth) :: map sexp_of_gval sargs)
               end;
               sexp_of_got (ob_got ob)]
    end
  else if head_is c "reply" then
    match client_by_name (get_bytes (arg c 0)) with
    | None => SList [ssym "unknown-method"]
    | Some m =>
        let r := arg c 2 in
        sexp_of_got (client_result m (map gval_of_sexp (get_list (arg c 1)))
                       (zN (arg r 0), map wval_of_sexp (tl (tl (get_list r)))))
    end
  else if head_is c "flow" then
    (* (flow NCALLERS OBSERVED): NCALLERS concurrent callers over an unbuffered connection were
       observed to complete / to get stuck.  Scheduling is not under the harness's control, so the
       model says whether the observation is one of ITS runs: completing always is; getting stuck
       only if the structure read off transport.handle can reach a stuck state with that many callers. *)
    let n := Z.to_nat (get_Z (arg c 0)) in
    let v := if gen_owner_loop_writes then Current else Fixed in
    if is_sym (arg c 1) (str "complete") then ssym "ok"
    else if is_sym (arg c 1) (str "stuck") then
      (if greedy_stuck v 0 n then ssym "ok" else SList [ssym "reject"; ssym "no-stuck-state-reachable"])
    else SList [ssym "reject"; ssym "unknown-observation"]
  else if head_is c "barrier" then
    (* (barrier NCALLERS OBSERVED): NCALLERS concurrent calls against a session that releases them only
       when all have arrived.  For the structure read off the source (every request gets its handler
       goroutine at once, see gen_flow_facts and FlowProofs.fixed_all_arrive) all of them arrive and
       complete; "stuck" is not a run of the model. *)
    if is_sym (arg c 1) (str "complete") then ssym "ok"
    else if forallb (fun f => snd f) gen_flow_facts && negb gen_owner_loop_writes
         then SList [ssym "reject"; ssym "all-calls-reach-the-session-and-complete"]
         else ssym "ok"
  else SList [ssym "unknown-case"].

Definition run_line (line : list N) : list N := print_sexp (run_case (parse_sexp line)).
