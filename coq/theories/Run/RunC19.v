(* C19 uses the same case interpreter as C15: one session run through the ufs
   model on the concrete host model; see Run/RunC15.v for the format. *)
From Coq Require Import List NArith.
From P9 Require Import Run.RunC15.
Definition run_line (line : list N) : list N := RunC15.run_line line.
