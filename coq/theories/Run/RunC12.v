(* Case interpreter for C12: the event language of Run/RunC05.v; the result of a
   call started after (or while) the transport fails is projected to ok / err. *)
From Coq Require Import List NArith ZArith Bool String.
From P9 Require Import Base.Sexp Model.Tags Run.RunC05.
Import ListNotations.

Definition run_case (c : sexp) : sexp :=
  if head_is c "sched" then run_sched true c
  else SList [ssym "unknown-case"].

Definition run_line (line : list N) : list N := print_sexp (run_case (parse_sexp line)).
