(* Model of /repo/serveconn.go: conn.serve(), conn.read(), conn.write() and the
   per-request handler goroutines as ONE labelled transition system.

   All nondeterminism is an explicit event: what the peer sends, when a
   Handler.Handle call returns and with what, whether a conn.Write succeeds,
   when the reader hits an error, when the serving context is cancelled
   (environment events), and which goroutine moves / which ready select branch
   wins (internal events).  [step s e] is [None] when [e] is not enabled in
   [s].  Executable definitions only; lemmas are in Proofs/ServeProofs*.v.

   The code exists in three historical shapes, selected by [variant]:
     v_idmatch  : a completion is matched against the tag table by request
                  identity (repaired D5) rather than by tag only
     v_inner    : the loop's inner `responses <- resp` select after a
                  completion also listens on closed/ctx.Done (repaired D6)
     v_wait     : serve() waits for the handler goroutines after cancelling
                  them, before ServeConn calls handler.Stop (repaired D13)
   [legacy] is the code as found, [repaired] the code after the three fix:
   commits; [code_variant] is what /repo is NOW (used by the correspondence
   check). *)
From Coq Require Import List NArith Bool.
From stdpp Require Import gmap.
Import ListNotations.
Open Scope N_scope.

Definition bstr := list N.

Record variant := { v_idmatch : bool; v_inner : bool; v_wait : bool }.
Definition legacy   := {| v_idmatch := false; v_inner := false; v_wait := false |}.
Definition repaired := {| v_idmatch := true;  v_inner := true;  v_wait := true |}.

(* ---- messages, results, frames ---- *)
(* A request is opaque (type byte + body as on the wire) except Tflush. *)
Inductive kind := KReq (m : bstr) | KFlush (old : N).
(* What Handler.Handle returned: a message; a MessageRerror value (or pointer)
   used as the error; any other error with its Error() text. *)
Inductive hres := RMsg (m : bstr) | RErrMsg (e : bstr) | RErr (e : bstr).
(* Reply payloads.  PFlushAck carries (ghost) the request the flush removed. *)
Inductive payload := PMsg (m : bstr) | PErr (e : bstr) | PFlushAck (victim : N).
(* f_rid: (ghost) the request this frame answers. *)
Record frame := { f_rid : N; f_tag : N; f_pl : payload }.

(* errors.go: ErrDuptag / ErrUnknownTag texts *)
Definition ascii (l : list N) : bstr := l.
Definition err_duptag : bstr :=      (* "duplicate tag" *)
  [100;117;112;108;105;99;97;116;101;32;116;97;103].
Definition err_unknowntag : bstr :=  (* "unknown tag" *)
  [117;110;107;110;111;119;110;32;116;97;103].

(* fcall.go newErrorFcall / newFcall as used by the handler goroutine *)
Definition reply_of (r : hres) : payload :=
  match r with RMsg m => PMsg m | RErrMsg e => PErr e | RErr e => PErr e end.

(* ---- state ---- *)
Inductive hstate := HRun | HFin (r : hres) | HGone.
(* one handler goroutine: the tag of its request, where it is, whether its
   context has been cancelled *)
Record hrec := { h_tag : N; h_st : hstate; h_canc : bool }.

Inductive pcT :=
| Main                                  (* outer select *)
| SendImm (f : frame)                   (* blocked in `responses <- dup/flush reply` (with ctx/closed) *)
| SendDone (holder : N) (f : frame)     (* blocked in `responses <- resp` after a completion; holder = tags[resp.Tag] *)
| PReturned.                            (* the loop has left serve()'s for *)

Inductive wstate := WIdle | WBusy (f : frame) | WDead.
Inductive rstate := RIdle | RHold (rid tag : N) (k : kind) | RDead.

Record st := {
  tags : gmap N N;        (* outstanding tag -> request id *)
  pc : pcT;
  hs : gmap N hrec;       (* request id -> its handler goroutine *)
  wr : wstate;
  rd : rstate;
  inq : list (N * N * kind);   (* bytes delivered to the conn, not yet decoded by the reader *)
  rerr : bool;            (* the conn's read side will fail once inq is drained *)
  closed : bool;          (* c.closed *)
  ctxd : bool;            (* c.ctx.Done() *)
  stops : N;              (* handler.Stop invocations *)
  nsent : N               (* next request id *)
}.

Definition init : st :=
  {| tags := ∅; pc := Main; hs := ∅; wr := WIdle; rd := RIdle; inq := []; rerr := false;
     closed := false; ctxd := false; stops := 0; nsent := 0 |}.

Definition set_tags (s : st) v := {| tags := v; pc := pc s; hs := hs s; wr := wr s; rd := rd s; inq := inq s; rerr := rerr s; closed := closed s; ctxd := ctxd s; stops := stops s; nsent := nsent s |}.
Definition set_pc (s : st) v := {| tags := tags s; pc := v; hs := hs s; wr := wr s; rd := rd s; inq := inq s; rerr := rerr s; closed := closed s; ctxd := ctxd s; stops := stops s; nsent := nsent s |}.
Definition set_hs (s : st) v := {| tags := tags s; pc := pc s; hs := v; wr := wr s; rd := rd s; inq := inq s; rerr := rerr s; closed := closed s; ctxd := ctxd s; stops := stops s; nsent := nsent s |}.
Definition set_wr (s : st) v := {| tags := tags s; pc := pc s; hs := hs s; wr := v; rd := rd s; inq := inq s; rerr := rerr s; closed := closed s; ctxd := ctxd s; stops := stops s; nsent := nsent s |}.
Definition set_rd (s : st) v := {| tags := tags s; pc := pc s; hs := hs s; wr := wr s; rd := v; inq := inq s; rerr := rerr s; closed := closed s; ctxd := ctxd s; stops := stops s; nsent := nsent s |}.
Definition set_inq (s : st) v := {| tags := tags s; pc := pc s; hs := hs s; wr := wr s; rd := rd s; inq := v; rerr := rerr s; closed := closed s; ctxd := ctxd s; stops := stops s; nsent := nsent s |}.
Definition set_rerr (s : st) v := {| tags := tags s; pc := pc s; hs := hs s; wr := wr s; rd := rd s; inq := inq s; rerr := v; closed := closed s; ctxd := ctxd s; stops := stops s; nsent := nsent s |}.
Definition set_closed (s : st) v := {| tags := tags s; pc := pc s; hs := hs s; wr := wr s; rd := rd s; inq := inq s; rerr := rerr s; closed := v; ctxd := ctxd s; stops := stops s; nsent := nsent s |}.
Definition set_ctxd (s : st) v := {| tags := tags s; pc := pc s; hs := hs s; wr := wr s; rd := rd s; inq := inq s; rerr := rerr s; closed := closed s; ctxd := v; stops := stops s; nsent := nsent s |}.
Definition set_stops (s : st) v := {| tags := tags s; pc := pc s; hs := hs s; wr := wr s; rd := rd s; inq := inq s; rerr := rerr s; closed := closed s; ctxd := ctxd s; stops := v; nsent := nsent s |}.
Definition set_nsent (s : st) v := {| tags := tags s; pc := pc s; hs := hs s; wr := wr s; rd := rd s; inq := inq s; rerr := rerr s; closed := closed s; ctxd := ctxd s; stops := stops s; nsent := v |}.

(* ---- events and outputs ---- *)
Inductive event :=
| ESend (rid tag : N) (k : kind)   (* env: the peer's next frame reaches the conn *)
| EConnErr                         (* env: the conn's read side fails / peer closes (after buffered bytes) *)
| EFinish (rid : N) (r : hres)     (* env: Handler.Handle of request rid returns r *)
| EWriteOk                         (* env: the conn.Write in progress succeeds *)
| EWriteFail                       (* env: the conn.Write in progress fails (any error, time-outs included: D15) *)
| ECtxCancel                       (* env: the context given to ServeConn is cancelled *)
| EReaderGet                       (* reader: ReadFcall returns the next frame *)
| EReaderFail                      (* reader: ReadFcall fails -> CloseWithError *)
| EReaderQuit                      (* reader blocked in `requests <- req` takes ctx.Done / closed *)
| EArrive                          (* loop: `req := <-requests` *)
| EComplete (rid : N)              (* loop: `resp := <-completed` from handler goroutine rid *)
| EGiveUp (rid : N)                (* handler goroutine rid takes ctx.Done / closed instead of delivering *)
| ETake                            (* writer: `resp := <-responses`, WriteFcall starts *)
| EDropDone                        (* loop in the inner select takes active.ctx.Done *)
| EWriterQuit                      (* idle writer takes ctx.Done / closed *)
| EReturn                          (* loop takes ctx.Done / closed: leaves the for, deferred cancel of all tags *)
| EStop.                           (* serve() has returned; ServeConn calls handler.Stop *)

Inductive output :=
| ORecv (rid tag : N) (k : kind)   (* ghost: the loop received request rid *)
| ODispatch (rid : N) (m : bstr)   (* Handler.Handle invoked for request rid with message m *)
| OCancel (rid : N)                (* the context handed to handler rid became Done *)
| OFin (rid : N) (r : hres)        (* ghost: Handle of rid returned r *)
| OTake (f : frame)                (* conn.Write called with the frame *)
| OFrame (f : frame)               (* that Write succeeded: the frame is on the wire *)
| OLost (f : frame)                (* the writer took the frame but WriteFcall refused it (ctx done): nothing written *)
| OWriteErr (f : frame)            (* that Write failed *)
| OReturn                          (* the serve loop returned *)
| OStop.                           (* handler.Stop called *)

(* cancel(): marks the handler's context Done; visible as OCancel the first time *)
Definition cancel_rid (s : st) (rid : N) : st * list output :=
  match hs s !! rid with
  | Some h =>
      if h_canc h then (s, [])
      else (set_hs s (<[rid := {| h_tag := h_tag h; h_st := h_st h; h_canc := true |}]> (hs s)), [OCancel rid])
  | None => (s, [])
  end.

Fixpoint cancel_list (s : st) (rids : list N) : st * list output :=
  match rids with
  | [] => (s, [])
  | r :: rest =>
      let '(s1, o1) := cancel_rid s r in
      let '(s2, o2) := cancel_list s1 rest in
      (s2, o1 ++ o2)
  end.

Definition all_gone (s : st) : bool :=
  forallb (fun kv => match h_st (snd kv) with HGone => true | _ => false end) (map_to_list (hs s)).

Definition fault (s : st) : bool := closed s || ctxd s.

Definition step (v : variant) (s : st) (e : event) : option (st * list output) :=
  match e with
  | ESend rid tag k =>
      if (rid =? nsent s) && negb (rerr s) then
        Some (set_nsent (set_inq s (inq s ++ [(rid, tag, k)])) (nsent s + 1), [])
      else None
  | EConnErr => if rerr s then None else Some (set_rerr s true, [])
  | EReaderGet =>
      match rd s, inq s with
      | RIdle, (rid, tag, k) :: rest => Some (set_rd (set_inq s rest) (RHold rid tag k), [])
      | _, _ => None
      end
  | EReaderFail =>
      match rd s, inq s with
      | RIdle, [] => if rerr s then Some (set_closed (set_rd s RDead) true, []) else None
      | _, _ => None
      end
  | EReaderQuit =>
      match rd s with
      | RHold _ _ _ => if fault s then Some (set_closed (set_rd s RDead) true, []) else None
      | _ => None
      end
  | EArrive =>
      match pc s, rd s with
      | Main, RHold rid tag k =>
          let s0 := set_rd s RIdle in
          match tags s !! tag with
          | Some _ =>
              Some (set_pc s0 (SendImm {| f_rid := rid; f_tag := tag; f_pl := PErr err_duptag |}),
                    [ORecv rid tag k])
          | None =>
              match k with
              | KFlush old =>
                  match tags s !! old with
                  | Some ro =>
                      let '(s1, oc) := cancel_rid (set_tags s0 (delete old (tags s))) ro in
                      Some (set_pc s1 (SendImm {| f_rid := rid; f_tag := tag; f_pl := PFlushAck ro |}),
                            ORecv rid tag k :: oc)
                  | None =>
                      Some (set_pc s0 (SendImm {| f_rid := rid; f_tag := tag; f_pl := PErr err_unknowntag |}),
                            [ORecv rid tag k])
                  end
              | KReq m =>
                  let h := {| h_tag := tag; h_st := HRun; h_canc := ctxd s |} in
                  Some (set_hs (set_tags s0 (<[tag := rid]> (tags s))) (<[rid := h]> (hs s)),
                        ORecv rid tag k :: ODispatch rid m :: (if ctxd s then [OCancel rid] else []))
              end
          end
      | _, _ => None
      end
  | EFinish rid r =>
      match hs s !! rid with
      | Some h =>
          match h_st h with
          | HRun => Some (set_hs s (<[rid := {| h_tag := h_tag h; h_st := HFin r; h_canc := h_canc h |}]> (hs s)),
                          [OFin rid r])
          | _ => None
          end
      | None => None
      end
  | EComplete rid =>
      match pc s, hs s !! rid with
      | Main, Some h =>
          match h_st h with
          | HFin r =>
              let s0 := set_hs s (<[rid := {| h_tag := h_tag h; h_st := HGone; h_canc := h_canc h |}]> (hs s)) in
              let f := {| f_rid := rid; f_tag := h_tag h; f_pl := reply_of r |} in
              match tags s !! h_tag h with
              | Some holder =>
                  if negb (v_idmatch v) || (holder =? rid) then Some (set_pc s0 (SendDone holder f), [])
                  else Some (s0, [])
              | None => Some (s0, [])
              end
          | _ => None
          end
      | _, _ => None
      end
  | EGiveUp rid =>
      match hs s !! rid with
      | Some h =>
          match h_st h with
          | HFin _ =>
              if h_canc h || closed s then
                Some (set_hs s (<[rid := {| h_tag := h_tag h; h_st := HGone; h_canc := h_canc h |}]> (hs s)), [])
              else None
          | _ => None
          end
      | None => None
      end
  | ETake =>
      match wr s with
      | WIdle =>
          let go (s0 : st) (f : frame) :=
            (* WriteFcall checks ctx.Done first: then nothing is written and the writer closes the conn *)
            if ctxd s then Some (set_closed (set_wr s0 WDead) true, [OLost f])
            else Some (set_wr s0 (WBusy f), [OTake f]) in
          match pc s with
          | SendImm f => go (set_pc s Main) f
          | SendDone _ f => go (set_pc (set_tags s (delete (f_tag f) (tags s))) Main) f
          | _ => None
          end
      | _ => None
      end
  | EDropDone =>
      match pc s with
      | SendDone holder f =>
          match hs s !! holder with
          | Some h => if h_canc h then Some (set_pc (set_tags s (delete (f_tag f) (tags s))) Main, []) else None
          | None => None
          end
      | _ => None
      end
  | EWriteOk =>
      match wr s with
      | WBusy f => Some (set_wr s WIdle, [OFrame f])
      | _ => None
      end
  | EWriteFail =>
      match wr s with
      | WBusy f => Some (set_closed (set_wr s WDead) true, [OWriteErr f])
      | _ => None
      end
  | EWriterQuit =>
      match wr s with
      | WIdle => if fault s then Some (set_closed (set_wr s WDead) true, []) else None
      | _ => None
      end
  | ECtxCancel =>
      if ctxd s then None
      else let '(s1, oc) := cancel_list (set_ctxd s true) (map fst (map_to_list (hs s))) in Some (s1, oc)
  | EReturn =>
      let ok := match pc s with
                | Main | SendImm _ => true
                | SendDone _ _ => v_inner v
                | PReturned => false
                end in
      if ok && fault s then
        let '(s1, oc) := cancel_list (set_pc s PReturned) (map snd (map_to_list (tags s))) in
        Some (s1, oc ++ [OReturn])
      else None
  | EStop =>
      match pc s with
      | PReturned =>
          if (stops s =? 0) && (negb (v_wait v) || all_gone s) then Some (set_stops s 1, [OStop]) else None
      | _ => None
      end
  end.

(* conn.read's treatment of a ReadFcall error: a net.Error reporting Timeout() or Temporary() is retried
   (the reader calls ReadFcall again: NO transition of this system); every other error - a net.Error
   reporting neither, or any error that is not a net.Error - closes the conn: that is [EConnErr]. *)
Definition read_error_retried (is_net_error timeout temporary : bool) : bool :=
  is_net_error && (timeout || temporary).

(* run an event list; None as soon as an event is not enabled *)
Fixpoint run (v : variant) (s : st) (evs : list event) : option (st * list output) :=
  match evs with
  | [] => Some (s, [])
  | e :: rest =>
      match step v s e with
      | Some (s1, o1) =>
          match run v s1 rest with
          | Some (s2, o2) => Some (s2, o1 ++ o2)
          | None => None
          end
      | None => None
      end
  end.

(* ---- which events are the environment's ---- *)
Definition is_env (e : event) : bool :=
  match e with
  | ESend _ _ _ | EConnErr | EFinish _ _ | EWriteOk | EWriteFail | ECtxCancel => true
  | _ => false
  end.

(* every internal event that could be enabled in s (finite: one per handler) *)
Definition internal_candidates (s : st) : list event :=
  [EReaderGet; EReaderFail; EReaderQuit; EArrive; ETake; EDropDone; EWriterQuit; EReturn; EStop]
  ++ flat_map (fun kv => match h_st (snd kv) with
                         | HFin _ => [EComplete (fst kv); EGiveUp (fst kv)]   (* enabled only after Handle returned *)
                         | _ => []
                         end) (map_to_list (hs s)).

Definition enabled_internal (v : variant) (s : st) : list event :=
  List.filter (fun e => match step v s e with Some _ => true | None => false end) (internal_candidates s).

(* nothing moves until the environment acts *)
Definition quiescent (v : variant) (s : st) : bool :=
  match enabled_internal v s with [] => true | _ => false end.

(* what /repo is now: flipped by the fix: commits for D5, D6, D13 *)
Definition code_variant : variant := repaired.
