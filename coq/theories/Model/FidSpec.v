(* The reference fid table of property C08, written from the property text
   and independent of the locking, reservation and bookkeeping machinery of
   sfilesys.go:  fid |-> (entry, directory bit, open state).

     - an operation on an unbound fid, or on NOFID, fails;
     - attach or walk onto a bound fid fails with duplicate-fid, nothing changes;
     - a complete walk binds newfid to the walked-to entry (not open) and
       leaves fid alone - or moves fid when both are the same; a partial or
       failed walk binds nothing;
     - clunk and remove always unbind the fid;
     - a fid is opened at most once; create leaves the fid open on the new
       entry; read needs an open mode other than OWRITE, write needs OWRITE
       or ORDWR.

   The file system is the same outcome script as in Model/Session.v
   (one token per file-system call of the operation), so results can be
   compared exactly.  Definitions only. *)
From stdpp Require Import gmap.
From Coq Require Import NArith ZArith.
From P9 Require Import Model.Path Model.Session.
Open Scope N_scope.

Record bind := Bind {
  b_ent : N;                       (* entry id *)
  b_dir : bool;
  b_open : option (N * bool)       (* open: mode, and for a directory whether its listing is exhausted *)
}.
Record spec := Spec { tab : gmap N bind; snext : N }.
Definition spec0 : spec := Spec ∅ 0.

Definition sp_lookup (t : spec) (f : N) : option bind :=
  if decide (f = NOFID) then None else tab t !! f.
Definition sp_bind (f : N) (b : bind) (t : spec) : spec := Spec (<[f := b]> (tab t)) (snext t).
Definition sp_fresh (f : N) (d : bool) (o : option (N * bool)) (t : spec) : spec :=
  Spec (<[f := Bind (snext t) d o]> (tab t)) (snext t + 1).

Definition sp_attach (t : spec) (fid afid : N) (ts : list tok) : spec * result :=
  if decide (afid = NOFID) then
    if decide (fid = NOFID) then (t, RErr EUnknown)
    else match tab t !! fid with
         | Some _ => (t, RErr EDup)
         | None => match nn_err (tokn ts 0) with
                   | Some e => (t, RErr e)
                   | None => (sp_fresh fid (t_dir (tokn ts 0)) None t, ROk 0)
                   end
         end
  else (t, RErr EUnknown).     (* no fid is an auth fid *)

Definition sp_walk (t : spec) (fid newfid : N) (names : list bstr) (ts : list tok) : spec * result :=
  if (valid_path names <? 0)%Z then (t, RErr EBadpath) else
  match sp_lookup t fid with
  | None => (t, RErr EUnknown)
  | Some b =>
      if decide (newfid ≠ fid ∧ newfid = NOFID) then (t, RErr EUnknown)
      else if decide (newfid ≠ fid ∧ is_Some (tab t !! newfid)) then (t, RErr EDup)
      else
        let n := N.of_nat (length names) in
        let k := tokn ts 0 in
        match names with
        | [] => if decide (newfid = fid) then (t, ROk 0)
                else match nn_err k with
                     | Some e => (t, RErr e)
                     | None => (sp_fresh newfid (t_dir k) None t, ROk 0)
                     end
        | _ :: _ =>
            if negb (b_dir b) then (t, RErr ENotdir)
            else match nn_err k with
                 | Some e => (t, RErr e)
                 | None =>
                     let nq := N.min (t_nq k) n in
                     if nq <? n then (t, ROk nq)                       (* partial: nothing is bound *)
                     else (sp_fresh newfid (t_dir k) None t, ROk n)     (* binds newfid / moves fid *)
                 end
        end
  end.

Definition sp_open (t : spec) (fid mode : N) (ts : list tok) : spec * result :=
  match sp_lookup t fid with
  | None => (t, RErr EUnknown)
  | Some b =>
      match b_open b with
      | Some _ => (t, RErr EIsopen)
      | None => match nn_err (tokn ts 0) with
                | Some e => (t, RErr e)
                | None => (sp_bind fid (Bind (b_ent b) (b_dir b) (Some (mode, false))) t, ROk 0)
                end
      end
  end.

Definition sp_create (t : spec) (fid : N) (name : bstr) (mode : N) (ts : list tok) : spec * result :=
  if is_dot name || is_dotdot name then (t, RErr EBadname) else
  match sp_lookup t fid with
  | None => (t, RErr EUnknown)
  | Some b =>
      if negb (b_dir b) then (t, RErr ECrnondir) else
      let k := tokn ts 0 in
      if t_fail k =? 1 then (t, RErr EFs)
      else if (t_fail k =? 2) || (t_fail k =? 4) then (t, RErr ENil)
      else if t_fail k =? 0 then
        if t_dir k then
          match nn_err (tokn ts 1) with
          | Some e => (Spec (delete fid (tab t)) (snext t + 1), RErr e)  (* the old entry is consumed: unbound *)
          | None => (sp_fresh fid true (Some (mode, false)) t, ROk 0)
          end
        else (sp_fresh fid false (Some (mode, false)) t, ROk 0)
      else (Spec (tab t) (snext t + 1), RErr ENil)
  end.

Definition sp_read (t : spec) (fid cnt : N) (ts : list tok) : spec * result :=
  match sp_lookup t fid with
  | None => (t, RErr EUnknown)
  | Some b =>
      match b_open b with
      | None => (t, RErr ENofile)
      | Some (m, done) =>
          if N.land m 3 =? 1 then (t, RErr ENoread)
          else if b_dir b then
            if done || (cnt =? 0) then (t, ROk 0)
            else if fs_err (tokn ts 0) then (t, RErr EFs)
            else (sp_bind fid (Bind (b_ent b) true (Some (m, true))) t, ROk 0)
          else (t, if fs_err (tokn ts 0) then RErr EFs else ROk 0)
      end
  end.

Definition sp_write (t : spec) (fid : N) (ts : list tok) : spec * result :=
  match sp_lookup t fid with
  | None => (t, RErr EUnknown)
  | Some b =>
      match b_open b with
      | None => (t, RErr ENofile)
      | Some (m, _) =>
          if negb ((N.land m 3 =? 1) || (N.land m 3 =? 2)) then (t, RErr ENowrite)
          else if b_dir b then (t, RErr EInvalid)
          else (t, if fs_err (tokn ts 0) then RErr EFs else ROk 0)
      end
  end.

Definition sp_stat (t : spec) (fid : N) (ts : list tok) : spec * result :=
  match sp_lookup t fid with
  | None => (t, RErr EUnknown)
  | Some _ => (t, if fs_err (tokn ts 0) then RErr EFs else ROk 0)
  end.

(* clunk and remove: the fid is unbound whatever the file system answers *)
Definition sp_del (t : spec) (fid : N) (ts : list tok) : spec * result :=
  match sp_lookup t fid with
  | None => (t, RErr EUnknown)
  | Some _ => (Spec (delete fid (tab t)) (snext t), if fs_err (tokn ts 0) then RErr EFs else ROk 0)
  end.

Definition sp_step (t : spec) (o : op) (ts : list tok) : spec * result :=
  match o with
  | OAuth afid => (t, if decide (afid = NOFID) then ROk 0 else RErr ENoauth)
  | OAttach fid afid => sp_attach t fid afid ts
  | OWalk fid newfid names => sp_walk t fid newfid names ts
  | OOpen fid mode => sp_open t fid mode ts
  | OCreate fid name mode => sp_create t fid name mode ts
  | ORead fid cnt => sp_read t fid cnt ts
  | OWrite fid => sp_write t fid ts
  | OStat fid | OWStat fid => sp_stat t fid ts
  | OClunk fid | ORemove fid => sp_del t fid ts
  | OStop => (Spec ∅ (snext t), ROk 0)
  end.

Fixpoint sp_run (t : spec) (l : list (op * list tok)) : spec * list result :=
  match l with
  | [] => (t, [])
  | (o, ts) :: r =>
      let '(t1, res) := sp_step t o ts in
      let '(t2, out) := sp_run t1 r in (t2, res :: out)
  end.

(* ---- abstraction of a session state ---- *)
Definition abs_sfid (sf : sfid) : option bind :=
  match s_ent sf with
  | None => None                          (* a reserved placeholder binds nothing *)
  | Some (e, d) =>
      Some (Bind e d (match s_file sf with Some f => Some (s_mode sf, f_done f) | None => None end))
  end.
Definition abs (s : sess) : spec := Spec (omap abs_sfid (refs s)) (next s).

Definition is_stop (o : op) : bool := match o with OStop => true | _ => false end.
