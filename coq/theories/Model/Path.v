(* Model of /repo/path.go and of the parts of Go's "path" and "strings"
   packages it uses.  Strings are byte lists (list N).  Executable
   definitions only; lemmas are in Proofs/PathProofs.v. *)
From Coq Require Import List NArith ZArith Bool.
From P9 Require Import Base.Res.
Import ListNotations.
Open Scope N_scope.

Definition bstr := list N.
Definition SLASH : N := 47.  Definition BSLASH : N := 92.  Definition DOT : N := 46.

Fixpoint bstr_eqb (a b : bstr) : bool :=
  match a, b with
  | [], [] => true
  | x :: a, y :: b => (x =? y) && bstr_eqb a b
  | _, _ => false
  end.

Definition is_empty (s : bstr) : bool := match s with [] => true | _ => false end.
Definition is_dot (s : bstr) : bool := bstr_eqb s [DOT].
Definition is_dotdot (s : bstr) : bool := bstr_eqb s [DOT; DOT].
(* strings.ContainsAny(s, "\\/") *)
Definition has_sep (s : bstr) : bool := existsb (fun c => (c =? SLASH) || (c =? BSLASH)) s.

(* ---- Go standard library pieces (modelled; tied by the correspondence check) ---- *)

(* strings.Split(s, "/") : never empty; "" -> [""] *)
Fixpoint split_slash_aux (s : bstr) (cur : bstr) : list bstr :=
  match s with
  | [] => [rev_append cur []]
  | c :: r => if c =? SLASH then rev_append cur [] :: split_slash_aux r [] else split_slash_aux r (c :: cur)
  end.
Definition split_slash (s : bstr) : list bstr := split_slash_aux s [].

Fixpoint join_slash (l : list bstr) : bstr :=
  match l with
  | [] => []
  | [x] => x
  | x :: r => x ++ SLASH :: join_slash r
  end.

(* path.Clean, on components *)
Definition clean_step (rooted : bool) (stack : list bstr) (c : bstr) : list bstr :=
  if is_empty c || is_dot c then stack
  else if is_dotdot c then
    match stack with
    | top :: rest => if is_dotdot top then c :: stack else rest
    | [] => if rooted then [] else [c]
    end
  else c :: stack.

Definition path_clean (s : bstr) : bstr :=
  match s with
  | [] => [DOT]
  | c0 :: _ =>
      let rooted := c0 =? SLASH in
      let comps := rev (fold_left (clean_step rooted) (split_slash s) []) in
      if rooted then SLASH :: join_slash comps
      else match comps with [] => [DOT] | _ => join_slash comps end
  end.

(* path.Join *)
Definition path_join (elems : list bstr) : bstr :=
  match filter (fun e => negb (is_empty e)) elems with
  | [] => []
  | l => path_clean (join_slash l)
  end.

Definition path_is_abs (s : bstr) : bool := match s with c :: _ => c =? SLASH | [] => false end.

(* strings.Trim(s, "/") *)
Fixpoint trim_left_slash (s : bstr) : bstr :=
  match s with c :: r => if c =? SLASH then trim_left_slash r else s | [] => [] end.
Definition trim_slash (s : bstr) : bstr := rev (trim_left_slash (rev (trim_left_slash s))).

(* strings.Count(s, "/") *)
Definition count_slash (s : bstr) : Z := Z.of_nat (length (filter (fun c => c =? SLASH) s)).

(* ---- path.go ---- *)

(* ValidPath: i is the loop index, n the number of leading ".." seen *)
Fixpoint valid_path_go (args : list bstr) (i n : Z) : Z :=
  match args with
  | [] => n
  | s :: r =>
      if is_empty s || is_dot s then (-1)%Z
      else if is_dotdot s then (if Z.eqb n i then valid_path_go r (i + 1)%Z (n + 1)%Z else (-1)%Z)
      else if has_sep s then (-1)%Z
      else valid_path_go r (i + 1)%Z n
  end.
Definition valid_path (args : list bstr) : Z := valid_path_go args 0%Z 0%Z.

(* NormalizePath: [stk] is ans[:cursor] reversed, so cursor = length stk *)
Fixpoint normalize_go (args : list bstr) (stk : list bstr) (lo : Z) : option (list bstr * Z) :=
  match args with
  | [] => Some (rev stk, lo)
  | s :: r =>
      if has_sep s then None
      else if is_empty s || is_dot s then normalize_go r stk lo
      else if is_dotdot s then
        if Z.ltb lo (Z.of_nat (length stk)) then normalize_go r (tl stk) lo
        else normalize_go r (s :: stk) (lo + 1)%Z
      else normalize_go r (s :: stk) lo
  end.
Definition normalize_path (args : list bstr) : list bstr * Z :=
  match normalize_go args [] 0%Z with Some r => r | None => ([], (-1)%Z) end.

(* WalkName: dir[:len(dir)-1] panics on the empty string *)
Definition walk_name (dir : bstr) (names : list bstr) : res bstr :=
  match dir with
  | [] => Panic
  | _ =>
      let depth := count_slash (removelast dir) in
      let bsp := valid_path names in
      if Z.ltb bsp 0 || Z.ltb depth bsp then Err []
      else Ok (path_join [dir; path_join names])
  end.

Definition create_name (dir name : bstr) : res bstr :=
  if has_sep name || is_empty name || is_dot name || is_dotdot name then Err []
  else Ok (path_join [dir; name]).

(* ToWalk: (isAbs, steps) or error *)
Definition to_walk (p : bstr) : bool * res (list bstr) :=
  let isabs := path_is_abs p in
  let '(steps, bsp) := normalize_path (split_slash (trim_slash p)) in
  if isabs then (true, if Z.eqb bsp 0 then Ok steps else Err [])
  else (false, if Z.ltb bsp 0 then Err [] else Ok steps).
