(* Shared value universe of the wire-codec model (Model/Wire.v), of the
   generated tables (Gen/GenWire.v) and of the models that talk about 9P
   messages.  A message is its type byte plus the list of its struct fields
   IN STRUCT ORDER (which is wire order: the Go codec walks the struct by
   reflection); a field value is tagged with its wire kind. *)
From Coq Require Import List NArith ZArith.
Import ListNotations.

Inductive kind :=
| KInt (w : N)     (* unsigned little-endian integer of w bytes, w in {1,2,4,8}: uint8/16/32/64, Tag, Fid, Flag, QType, FcallType *)
| KStr             (* string: len[2] bytes *)
| KData            (* []byte: len[4] bytes *)
| KStrs            (* []string: n[2] then n strings *)
| KQid             (* Qid: type[1] vers[4] path[8] *)
| KQids            (* []Qid: n[2] then n qids *)
| KTime            (* time.Time: uint32 seconds *)
| KDir.            (* Dir: size[2] then the Dir's fields *)

Record qid := { q_type : N; q_vers : N; q_path : N }.

(* flat field values (everything a Dir may contain) *)
Inductive fval :=
| FInt (w n : N)     (* unsigned integer of w bytes (w in {1,2,4,8}) with value n *)
| FStr (s : list N)
| FData (d : list N)
| FStrs (l : list (list N))
| FQid (q : qid)
| FQids (l : list qid)
| FTime (t : Z).       (* Unix seconds of the time.Time (sub-second part dropped by the encoder) *)

Inductive val :=
| VF (f : fval)
| VDir (fs : list fval).   (* the Dir's exported fields in struct order *)

Record fcall := { fc_type : N; fc_tag : N; fc_fields : list val }.

Definition kind_of_fval (f : fval) : kind :=
  match f with
  | FInt w _ => KInt w | FStr _ => KStr | FData _ => KData | FStrs _ => KStrs
  | FQid _ => KQid | FQids _ => KQids | FTime _ => KTime
  end.
Definition kind_of (v : val) : kind := match v with VF f => kind_of_fval f | VDir _ => KDir end.

Definition kind_eqb (a b : kind) : bool :=
  match a, b with
  | KInt x, KInt y => N.eqb x y
  | KStr, KStr | KData, KData | KStrs, KStrs | KQid, KQid | KQids, KQids | KTime, KTime | KDir, KDir => true
  | _, _ => false
  end.
