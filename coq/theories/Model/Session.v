(* Sequential model of /repo/sfilesys.go: the server session created by
   SFileSys(fs) - the fid table [session.refs] with its per-fid locks and
   placeholder entries, and every Session method.

   The FileSys / Dirent / File implementation is NOT modelled: it is the
   environment.  Every operation carries a list of tokens; the k-th call the
   session makes into the file system during that operation takes its
   outcome (success / error / nil result, directory bit of a new entry,
   number of qids of a walk) from the k-th token.  Theorems quantify over all
   token lists, i.e. over every file-system behaviour.

   Entries handed over by the file system are numbered 0,1,2,... in the order
   they are handed over ([next]); the harness numbers its handle objects the
   same way, so calls can be compared by entry id.

   Locks are state: an operation that needs a locked SFid yields [RHang]
   (a Go goroutine blocked for ever on ref.Lock()).

   Ghost state (not present in the Go code) for C13: [bound_ever], [released]
   (one element per Clunk/Remove call on an entry or consumption by Create,
   with its cause), [bad_use] (file-system calls made on an entry after its
   release).

   Executable definitions only; lemmas are in Proofs/Session*.v. *)
From stdpp Require Import gmap.
From Coq Require Import NArith ZArith.
From P9 Require Import Model.Path.
Open Scope N_scope.

Definition NOFID : N := 4294967295.

(* ---- environment: outcome of one file-system call ---- *)
Record tok := Tok {
  t_fail : N;     (* 0 = succeeds; 1 = returns an error; 2 = nil entry / nil result with nil error;
                     3 = (Create only) entry but nil File with nil error; 4 = (Create only) nil entry
                     but a File, nil error.  Calls without a nil variant treat every non-zero value
                     as an error. *)
  t_dir : bool;   (* a new entry handed over by this call is a directory *)
  t_nq : N        (* Walk: number of qids returned (clipped to the number of names) *)
}.
Definition tok_default : tok := Tok 0 false 0.
Definition tokn (ts : list tok) (i : nat) : tok := nth i ts tok_default.

(* ---- session state ---- *)
Definition ent := (N * bool)%type.             (* entry id, IsDir(entry) *)
Record fh := Fh { f_own : N; f_dir : bool; f_done : bool }.
  (* an open File: the entry it was opened from; Readdir (true) or the
     file system's File (false); mkNext1's [done] flag of a Readdir *)
Record sfid := SFid { s_ent : option ent; s_file : option fh; s_mode : N; s_locked : bool }.

Inductive cause := RcClunk | RcRemove | RcCreate | RcWalk | RcStop | RcDrop.

Inductive call :=
| CAttach | CWalk (e n : N) | COpenDir (e : N) | COpen (e m : N) | CCreate (e : N)
| CRead (e : N) | CWrite (e : N) | CNext (e : N) | CStat (e : N) | CWStat (e : N)
| CClunk (e : N) | CRemove (e : N).

Record sess := Sess {
  refs : gmap N sfid;
  next : N;                          (* id of the next entry the file system hands over *)
  bound_ever : list N;               (* ghost *)
  released : list (N * cause);       (* ghost, oldest first *)
  bad_use : list N                   (* ghost *)
}.
Definition sess0 : sess := Sess ∅ 0 [] [] [].

Definition set_refs (r : gmap N sfid) (s : sess) : sess :=
  Sess r (next s) (bound_ever s) (released s) (bad_use s).

Inductive errc :=
| EUnknown | EDup | EBadpath | ENotdir | ENil | EFs | ENofile | ENoread | ENowrite
| EIsopen | EBadname | ECrnondir | ENoauth | EInvalid.
Inductive result := ROk (n : N) | RErr (e : errc) | RHang.

Inductive op :=
| OAuth (afid : N)
| OAttach (fid afid : N)
| OWalk (fid newfid : N) (names : list bstr)
| OOpen (fid mode : N)
| OCreate (fid : N) (name : bstr) (mode : N)
| ORead (fid cnt : N)   (* cnt: capacity of the buffer *)
| OWrite (fid : N)     (* the buffer (nil, empty or not) plays no part in the session *)
| OStat (fid : N) | OWStat (fid : N)
| OClunk (fid : N) | ORemove (fid : N)
| OStop.

(* ---- ghost bookkeeping ---- *)
Definition is_released (e : N) (s : sess) : bool := bool_decide (e ∈ (released s).*1).
(* a file-system call on entry e (or on a File/ReadNext obtained from it) *)
Definition g_use (e : N) (s : sess) : sess :=
  if is_released e s then Sess (refs s) (next s) (bound_ever s) (released s) (e :: bad_use s) else s.
Definition g_release (e : N) (c : cause) (s : sess) : sess :=
  Sess (refs s) (next s) (bound_ever s) (released s ++ [(e, c)]) (bad_use s).
Definition g_bind (e : N) (s : sess) : sess :=
  Sess (refs s) (next s) (e :: bound_ever s) (released s) (bad_use s).
(* the file system hands over a new entry *)
Definition fresh (d : bool) (s : sess) : ent * sess :=
  ((next s, d), Sess (refs s) (next s + 1) (bound_ever s) (released s) (bad_use s)).

(* ---- fid table primitives (sfilesys.go L96-197) ---- *)
Inductive getres := GHang | GErr | GOk (sf : sfid) (e : ent).

(* getRef: NOFID and absent fids are unknown; Lock (blocks for ever if held);
   Ent == nil (placeholder) -> Unlock, unknown.  On GOk the caller holds the lock. *)
Definition get_ref (s : sess) (f : N) : getres :=
  if decide (f = NOFID) then GErr else
  match refs s !! f with
  | None => GErr
  | Some sf =>
      if s_locked sf then GHang else
      match s_ent sf with None => GErr | Some e => GOk sf e end
  end.

Definition set_locked (b : bool) (sf : sfid) : sfid := SFid (s_ent sf) (s_file sf) (s_mode sf) b.
Definition lock (f : N) (s : sess) : sess := set_refs (alter (set_locked true) f (refs s)) s.
Definition unlock (f : N) (s : sess) : sess := set_refs (alter (set_locked false) f (refs s)) s.
(* store a new SFid value for f and release its lock (ref.link / field updates + deferred Unlock) *)
Definition put (f : N) (e : option ent) (fl : option fh) (m : N) (s : sess) : sess :=
  set_refs (<[f := SFid e fl m false]> (refs s)) s.

(* newRef: NOFID -> unknown; LoadOrStore of a fresh locked placeholder (Ent == nil);
   present (in whatever state) -> duplicate fid. *)
Definition new_ref (s : sess) (f : N) : sess + errc :=
  if decide (f = NOFID) then inr EUnknown else
  match refs s !! f with
  | Some _ => inr EDup
  | None => inl (set_refs (<[f := SFid None None 0 true]> (refs s)) s)
  end.
(* sess.refs.Delete(f) *)
Definition unreserve (f : N) (s : sess) : sess := set_refs (delete f (refs s)) s.

Definition fs_err (t : tok) : bool := negb (t_fail t =? 0).
(* outcome class of a call whose result goes through EnsureNonNil *)
Definition nn_err (t : tok) : option errc :=
  if t_fail t =? 0 then None else if t_fail t =? 1 then Some EFs else Some ENil.

Definition R3 := (sess * result * list call)%type.

(* ---- Auth (RequireAuth() = false: no auth fid is ever created) ---- *)
Definition do_auth (s : sess) (afid : N) : R3 :=
  if decide (afid = NOFID) then (s, ROk 0, []) else (s, RErr ENoauth, []).

(* ---- Attach ---- *)
Definition do_attach (s : sess) (fid afid : N) (ts : list tok) : R3 :=
  if decide (afid = NOFID) then
    match new_ref s fid with
    | inr e => (s, RErr e, [])
    | inl s1 =>
        let t := tokn ts 0 in
        match nn_err t with                    (* EnsureNonNil(ent, err) *)
        | Some err => (unreserve fid s1, RErr err, [CAttach])
        | None => let '(e, s2) := fresh (t_dir t) s1 in
                  (g_bind (fst e) (put fid (Some e) None 0 s2), ROk 0, [CAttach])
        end
    end
  else
    match get_ref s afid with
    | GHang => (s, RHang, [])
    | GErr => (s, RErr EUnknown, [])
    | GOk sf _ =>
        match s_file sf with
        | None => (s, RErr EUnknown, [])     (* not open; the deferred Unlock runs *)
        | Some _ => (s, RErr EUnknown, [])   (* not an AuthFile; the deferred Unlock runs *)
        end
    end.

(* ---- Clunk / Remove (delRef, delRefAction) ---- *)
Definition do_del (s : sess) (fid : N) (remove : bool) (ts : list tok) : R3 :=
  match refs s !! fid with
  | None => (s, RErr EUnknown, [])
  | Some sf =>                                 (* Load *)
      if s_locked sf then (s, RHang, []) else   (* ref.Lock() *)
      let s1 := unreserve fid s in              (* CompareAndDelete(fid, ref): ours, nobody else runs *)
      match s_ent sf with
      | None => (s1, ROk 0, [])
      | Some (e, _) =>
          let s2 := g_release e (if remove then RcRemove else RcClunk) (g_use e s1) in
          (s2, if fs_err (tokn ts 0) then RErr EFs else ROk 0, [if remove then CRemove e else CClunk e])
      end
  end.

(* ---- Walk ---- *)
Definition do_walk (s : sess) (fid newfid : N) (names : list bstr) (ts : list tok) : R3 :=
  if (valid_path names <? 0)%Z then (s, RErr EBadpath, []) else
  match get_ref s fid with
  | GHang => (s, RHang, [])
  | GErr => (s, RErr EUnknown, [])
  | GOk sf (e, d) =>
      let s1 := lock fid s in
      (* the deferred function: ref.Unlock(); if newref != nil { refs.Delete(newfid); newref.Unlock() } *)
      let cleanup (s : sess) := unlock fid (if decide (newfid = fid) then s else unreserve newfid s) in
      match (if decide (newfid = fid) then inl s1 else new_ref s1 newfid) with
      | inr err => (unlock fid s1, RErr err, [])
      | inl s2 =>
          let n := N.of_nat (length names) in
          let t := tokn ts 0 in
          let fscall := [CWalk e n] in
          match names with
          | [] =>
              if decide (newfid = fid) then (cleanup s2, ROk 0, []) else
              let s3 := g_use e s2 in
              match nn_err t with
              | Some err => (cleanup s3, RErr err, fscall)
              | None =>
                  let '(e', s4) := fresh (t_dir t) s3 in
                  (g_bind (fst e') (put newfid (Some e') None 0 (unlock fid s4)), ROk 0, fscall)
              end
          | _ :: _ =>
              if negb d then (cleanup s2, RErr ENotdir, []) else
              let s3 := g_use e s2 in
              match nn_err t with
              | Some err => (cleanup s3, RErr err, fscall)
              | None =>
                  let nq := N.min (t_nq t) n in
                  if nq <? n then (cleanup s3, ROk nq, fscall)   (* incl. nq = 0: returns (nil, nil) *)
                  else
                    let '(e', s4) := fresh (t_dir t) s3 in
                    if decide (newfid = fid) then
                      (* ref.Ent.Clunk(ctx) (error ignored); File = nil; Mode = 0; ref.link(ent) *)
                      let s5 := g_release e RcWalk (g_use e s4) in
                      (g_bind (fst e') (put fid (Some e') None 0 s5), ROk n, fscall ++ [CClunk e])
                    else
                      (g_bind (fst e') (put newfid (Some e') None 0 (unlock fid s4)), ROk n, fscall)
              end
          end
      end
  end.

(* ---- Open (openLocked) ---- *)
Definition do_open (s : sess) (fid mode : N) (ts : list tok) : R3 :=
  match get_ref s fid with
  | GHang => (s, RHang, [])
  | GErr => (s, RErr EUnknown, [])
  | GOk sf (e, d) =>
      match s_file sf with
      | Some _ => (s, RErr EIsopen, [])
      | None =>
          let s1 := g_use e s in
          let c := if d then COpenDir e else COpen e mode in
          match nn_err (tokn ts 0) with
          | Some err => (s1, RErr err, [c])
          | None => (put fid (Some (e, d)) (Some (Fh e d false)) mode s1, ROk 0, [c])
          end
      end
  end.

(* ---- Create ---- *)
Definition do_create (s : sess) (fid : N) (name : bstr) (mode : N) (ts : list tok) : R3 :=
  if is_dot name || is_dotdot name then (s, RErr EBadname, []) else
  match get_ref s fid with
  | GHang => (s, RHang, [])
  | GErr => (s, RErr EUnknown, [])
  | GOk sf (e, d) =>
      if negb d then (s, RErr ECrnondir, []) else
      let s1 := g_use e s in
      let t := tokn ts 0 in
      if t_fail t =? 1 then (s1, RErr EFs, [CCreate e])
      else if (t_fail t =? 2) || (t_fail t =? 4) then (s1, RErr ENil, [CCreate e])  (* nil entry (with or without a File) *)
      else if t_fail t =? 0 then
        (* the file system created the entry and consumed the parent's handle *)
        let '((e', d'), s2) := fresh (t_dir t) s1 in
        let s3 := g_release e RcCreate s2 in
        if d' then
          let s4 := g_use e' s3 in
          match nn_err (tokn ts 1) with
          | Some err =>
              (* created but not openable: refs.Delete(parent); the fid's SFid is linked to the
                 new entry and delRefAction clunks it (error ignored); Ent = nil *)
              (g_release e' RcDrop (g_use e' (unreserve fid s4)), RErr err, [CCreate e; COpenDir e'; CClunk e'])
          | None =>
              (g_bind e' (put fid (Some (e', d')) (Some (Fh e' true false)) mode s4), ROk 0, [CCreate e; COpenDir e'])
          end
        else
          (g_bind e' (put fid (Some (e', d')) (Some (Fh e' false false)) mode s3), ROk 0, [CCreate e])
      else
        (* entry but nil File: EnsureNonNil(file) fails; the entry is dropped *)
        let '(_, s2) := fresh (t_dir t) s1 in (s2, RErr ENil, [CCreate e])
  end.

(* ---- Read / Write ---- *)
Definition do_read (s : sess) (fid cnt : N) (ts : list tok) : R3 :=
  match get_ref s fid with
  | GHang => (s, RHang, [])
  | GErr => (s, RErr EUnknown, [])
  | GOk sf e =>
      match s_file sf with
      | None => (s, RErr ENofile, [])
      | Some f =>
          if N.land (s_mode sf) 3 =? 1 then (s, RErr ENoread, []) else
          if f_dir f then
            (* Readdir.Read at offset 0: fills the buffer while len(p) < cap(p) - not at all for an
               empty (or nil) buffer; mkNext1: no call once [done] *)
            if f_done f || (cnt =? 0) then (s, ROk 0, []) else
            let s1 := g_use (f_own f) s in
            if fs_err (tokn ts 0) then (s1, RErr EFs, [CNext (f_own f)])
            else (put fid (Some e) (Some (Fh (f_own f) true true)) (s_mode sf) s1, ROk 0, [CNext (f_own f)])
          else
            (g_use (f_own f) s, if fs_err (tokn ts 0) then RErr EFs else ROk 0, [CRead (f_own f)])
      end
  end.

Definition do_write (s : sess) (fid : N) (ts : list tok) : R3 :=
  match get_ref s fid with
  | GHang => (s, RHang, [])
  | GErr => (s, RErr EUnknown, [])
  | GOk sf e =>
      match s_file sf with
      | None => (s, RErr ENofile, [])
      | Some f =>
          let m := N.land (s_mode sf) 3 in
          if negb ((m =? 1) || (m =? 2)) then (s, RErr ENowrite, []) else
          if f_dir f then (s, RErr EInvalid, [])      (* Readdir.Write *)
          else (g_use (f_own f) s, if fs_err (tokn ts 0) then RErr EFs else ROk 0, [CWrite (f_own f)])
      end
  end.

(* ---- Stat / WStat ---- *)
Definition do_stat (s : sess) (fid : N) (w : bool) (ts : list tok) : R3 :=
  match get_ref s fid with
  | GHang => (s, RHang, [])
  | GErr => (s, RErr EUnknown, [])
  | GOk sf (e, _) =>
      (g_use e s, if fs_err (tokn ts 0) then RErr EFs else ROk 0, [if w then CWStat e else CStat e])
  end.

(* ---- Stop: for every SFid in the table: Lock (waits for an operation in flight on it - in
   this sequential model a held lock is a leaked one: Stop never returns), CompareAndDelete,
   Clunk the entry if it is bound, Unlock; repeated until the table is empty ---- *)
Definition stop_one (acc : sess * list call) (kv : N * sfid) : sess * list call :=
  let '(s, cs) := acc in
  let '(f, sf) := kv in
  match s_ent sf with
  | None => (unreserve f s, cs)
  | Some (e, _) =>
      let s1 := g_release e RcStop (g_use e s) in
      (unreserve f s1, cs ++ [CClunk e])
  end.
Definition any_locked (s : sess) : bool := existsb (fun kv => s_locked (snd kv)) (map_to_list (refs s)).
Definition do_stop (s : sess) : R3 :=
  if any_locked s then (s, RHang, []) else
  let '(s', cs) := fold_left stop_one (map_to_list (refs s)) (s, []) in (s', ROk 0, cs).

Definition sstep (s : sess) (o : op) (ts : list tok) : R3 :=
  match o with
  | OAuth afid => do_auth s afid
  | OAttach fid afid => do_attach s fid afid ts
  | OWalk fid newfid names => do_walk s fid newfid names ts
  | OOpen fid mode => do_open s fid mode ts
  | OCreate fid name mode => do_create s fid name mode ts
  | ORead fid cnt => do_read s fid cnt ts
  | OWrite fid => do_write s fid ts
  | OStat fid => do_stat s fid false ts
  | OWStat fid => do_stat s fid true ts
  | OClunk fid => do_del s fid false ts
  | ORemove fid => do_del s fid true ts
  | OStop => do_stop s
  end.

(* Stop arriving while operation o is inside a file-system call, holding its fid's lock (or the
   reservation of the fid it is about to bind): Stop's Lock waits until the operation has
   returned, so the interleaving is "the operation returns, then Stop releases".  Clunk and
   Remove have taken their SFid out of the table before they call the file system: Stop does
   not wait for them (stop_waits = false), and does not see their fid.
   First component: the operation as it returns; second: Stop. *)
Definition stop_waits (o : op) : bool := match o with OClunk _ | ORemove _ => false | _ => true end.
Definition inflight_stop (s : sess) (o : op) (ts : list tok) : R3 * R3 :=
  let '(s1, r, cs) := sstep s o ts in ((s1, r, cs), do_stop s1).

(* A run stops at the first operation that hangs (the harness cannot go on
   either: the goroutine never returns).  One element per executed operation:
   the state after it, its result, the file-system calls it made. *)
Fixpoint srun (s : sess) (l : list (op * list tok)) : list R3 :=
  match l with
  | [] => []
  | (o, ts) :: r =>
      let '(s1, res, cs) := sstep s o ts in
      match res with
      | RHang => [(s1, res, cs)]
      | _ => (s1, res, cs) :: srun s1 r
      end
  end.

Definition final (s : sess) (tr : list R3) : sess := match last tr with Some x => fst (fst x) | None => s end.
Definition results (tr : list R3) : list result := map (fun x => snd (fst x)) tr.

(* the fid table as an association list (order unspecified; printers sort it) *)
Definition table (s : sess) : list (N * sfid) := map_to_list (refs s).
