(* Model of /repo/encoding.go: the 9P2000 codec (encode / decode / size9p,
   DecodeDir) over the value universe of WireTypes.v.  The message table is
   Spec9P.spec_msg_table (hand-transcribed from the manual); Properties/C01.v
   proves it equal to the table regenerated from the source (Gen/GenWire.v).
   Executable definitions only. *)
From Coq Require Import List NArith ZArith Bool.
From P9 Require Import Base.Res Base.Bytes Model.WireTypes Model.Spec9P.
Import ListNotations.
Open Scope N_scope.

(* error classes (payload of Err) *)
Definition E_EOF : list N := [1].        (* io.EOF: nothing left where a value starts *)
Definition E_UEOF : list N := [2].       (* io.ErrUnexpectedEOF: input ends inside a value / a length claims more than is left *)
Definition E_UNKNOWN : list N := [3].    (* unknown message type *)

(* ---------------- sizes: size9p, uint32 arithmetic ---------------- *)
Definition M32 : N := 4294967296.
Definition M16 : N := 65536.
Definition add32 (a b : N) : N := (a + b) mod M32.

Definition size_str (s : bytes) : N := (2 + len s) mod M32.
Definition size_qid : N := 13.

Definition size_fval (v : fval) : N :=
  match v with
  | FInt w _ => w
  | FStr s => size_str s
  | FData d => (4 + len d) mod M32
  | FStrs l => fold_left (fun a s => add32 a (size_str s)) l 2
  | FQid _ => size_qid
  | FQids l => fold_left (fun a _ => add32 a size_qid) l 2
  | FTime _ => 4
  end.
Definition size_fvals (fs : list fval) : N := fold_left (fun a v => add32 a (size_fval v)) fs 0.
Definition size_val (v : val) : N :=
  match v with VF f => size_fval f | VDir fs => add32 (size_fvals fs) 2 end.
Definition size_vals (vs : list val) : N := fold_left (fun a v => add32 a (size_val v)) vs 0.
Definition size_msg (ty : N) (vs : list val) : N :=
  add32 (if (ty =? T_Rstat) || (ty =? T_Twstat) then 2 else 0) (size_vals vs).
(* Codec.Size(fcall) = int(size9p(fcall)) *)
Definition size_fcall (f : fcall) : N := add32 (add32 1 2) (size_msg (fc_type f) (fc_fields f)).

(* ---------------- encode ---------------- *)
Definition enc_str (s : bytes) : bytes := le 2 (len s) ++ s.
Definition enc_qid (q : qid) : bytes := le 1 (q_type q) ++ le 4 (q_vers q) ++ le 8 (q_path q).

Definition enc_fval (v : fval) : bytes :=
  match v with
  | FInt w n => le (N.to_nat w) n
  | FStr s => enc_str s
  | FData d => le 4 (len d) ++ d
  | FStrs l => le 2 (len l) ++ concat (map enc_str l)
  | FQid q => enc_qid q
  | FQids l => le 2 (len l) ++ concat (map enc_qid l)
  | FTime t => le 4 (Z.to_N (t mod 4294967296))
  end.
Definition enc_fvals (fs : list fval) : bytes := concat (map enc_fval fs).
(* case Dir: uint16(size9p(elements...)) then the elements *)
Definition enc_dir (fs : list fval) : bytes := le 2 (size_fvals fs) ++ enc_fvals fs.
Definition enc_val (v : val) : bytes := match v with VF f => enc_fval f | VDir fs => enc_dir fs end.
Definition enc_vals (vs : list val) : bytes := concat (map enc_val vs).

(* case Message: Rstat prepends uint16(size of all elements); Twstat writes
   elements[0], then uint16(size of the rest), then the rest.  Twstat with no
   fields cannot be built from the Go struct; the model writes nothing. *)
Definition enc_msg (ty : N) (vs : list val) : bytes :=
  if ty =? T_Rstat then le 2 (size_vals vs) ++ enc_vals vs
  else if ty =? T_Twstat then
    match vs with
    | v0 :: rest => enc_val v0 ++ le 2 (size_vals rest) ++ enc_vals rest
    | [] => []
    end
  else enc_vals vs.

Definition enc_fcall (f : fcall) : bytes :=
  le 1 (fc_type f) ++ le 2 (fc_tag f) ++ enc_msg (fc_type f) (fc_fields f).

(* ---------------- decode ---------------- *)
(* binary.Read / io.ReadFull of n bytes from a bytes.Reader *)
Definition rd (n : N) (bs : bytes) : res (bytes * bytes) :=
  if n =? 0 then Ok ([], bs)
  else match bs with
       | [] => Err E_EOF
       | _ => if shorter bs n then Err E_UEOF else Ok (take n bs, drop n bs)
       end.

Definition rd_int (w : N) (bs : bytes) : res (N * bytes) :=
  x <- rd w bs ;; Ok (unle (fst x), snd x).

(* the bound check added by the repair of D4: a length/count field may not
   claim more than the input still holds *)
Definition need (n : N) (bs : bytes) : res unit := if shorter bs n then Err E_UEOF else Ok tt.

Definition dec_str (bs : bytes) : res (bytes * bytes) :=
  x <- rd_int 2 bs ;; _ <- need (fst x) (snd x) ;; rd (fst x) (snd x).

Definition dec_qid (bs : bytes) : res (qid * bytes) :=
  t <- rd_int 1 bs ;; v <- rd_int 4 (snd t) ;; p <- rd_int 8 (snd v) ;;
  Ok ({| q_type := fst t; q_vers := fst v; q_path := fst p |}, snd p).

(* n elements, sequentially; fuel = n as nat is fine: n < 2^16 *)
Fixpoint dec_many {A} (dec1 : bytes -> res (A * bytes)) (n : nat) (bs : bytes) : res (list A * bytes) :=
  match n with
  | O => Ok ([], bs)
  | S n' => x <- dec1 bs ;; r <- dec_many dec1 n' (snd x) ;; Ok (fst x :: fst r, snd r)
  end.

Definition dec_fval (k : kind) (bs : bytes) : res (fval * bytes) :=
  match k with
  | KInt w => x <- rd_int w bs ;; Ok (FInt w (fst x), snd x)
  | KStr => x <- dec_str bs ;; Ok (FStr (fst x), snd x)
  | KData => l <- rd_int 4 bs ;; _ <- need (fst l) (snd l) ;; x <- rd (fst l) (snd l) ;; Ok (FData (fst x), snd x)
  | KStrs => l <- rd_int 2 bs ;; _ <- need (2 * fst l) (snd l) ;;
             x <- dec_many dec_str (N.to_nat (fst l)) (snd l) ;; Ok (FStrs (fst x), snd x)
  | KQid => x <- dec_qid bs ;; Ok (FQid (fst x), snd x)
  | KQids => l <- rd_int 2 bs ;; _ <- need (13 * fst l) (snd l) ;;
             x <- dec_many dec_qid (N.to_nat (fst l)) (snd l) ;; Ok (FQids (fst x), snd x)
  | KTime => x <- rd_int 4 bs ;; Ok (FTime (Z.of_N (fst x)), snd x)
  | KDir => Err E_UNKNOWN  (* a Dir never contains a Dir *)
  end.

Fixpoint dec_fvals (ks : list kind) (bs : bytes) : res (list fval * bytes) :=
  match ks with
  | [] => Ok ([], bs)
  | k :: ks' => x <- dec_fval k bs ;; r <- dec_fvals ks' (snd x) ;; Ok (fst x :: fst r, snd r)
  end.

(* case *Dir: size[2], then exactly that many bytes form the record; the
   fields are decoded from the record alone and trailing record bytes are ignored *)
Definition dec_dir (bs : bytes) : res (list fval * bytes) :=
  l <- rd_int 2 bs ;; _ <- need (fst l) (snd l) ;; b <- rd (fst l) (snd l) ;;
  fs <- dec_fvals (map snd spec_dir_fields) (fst b) ;; Ok (fst fs, snd b).

Definition dec_val (k : kind) (bs : bytes) : res (val * bytes) :=
  match k with
  | KDir => x <- dec_dir bs ;; Ok (VDir (fst x), snd x)
  | _ => x <- dec_fval k bs ;; Ok (VF (fst x), snd x)
  end.

Fixpoint dec_vals (ks : list kind) (bs : bytes) : res (list val * bytes) :=
  match ks with
  | [] => Ok ([], bs)
  | k :: ks' => x <- dec_val k bs ;; r <- dec_vals ks' (snd x) ;; Ok (fst x :: fst r, snd r)
  end.

Definition dec_msg (ty : N) (ks : list kind) (bs : bytes) : res (list val * bytes) :=
  if ty =? T_Rstat then l <- rd_int 2 bs ;; dec_vals ks (snd l)
  else if ty =? T_Twstat then
    match ks with
    | k0 :: rest => x <- dec_val k0 bs ;; l <- rd_int 2 (snd x) ;; r <- dec_vals rest (snd l) ;; Ok (fst x :: fst r, snd r)
    | [] => Ok ([], bs)
    end
  else dec_vals ks bs.

(* Codec.Unmarshal(data, *Fcall): trailing bytes after the message are ignored *)
Definition dec_fcall (bs : bytes) : res fcall :=
  t <- rd_int 1 bs ;; g <- rd_int 2 (snd t) ;;
  match kinds_of_type (fst t) with
  | None => Err E_UNKNOWN
  | Some ks => m <- dec_msg (fst t) ks (snd g) ;;
               Ok {| fc_type := fst t; fc_tag := fst g; fc_fields := fst m |}
  end.

(* DecodeDir(codec, rd, *Dir) after the repair of D3/D4: returns the entry and the unread rest *)
Definition decode_dir (bs : bytes) : res (list fval * bytes) :=
  l <- rd_int 2 bs ;; _ <- need (fst l) (snd l) ;; b <- rd (fst l) (snd l) ;;
  (* p = le16 ll ++ record; Unmarshal(p, d) decodes it as case *Dir *)
  x <- dec_dir (le 2 (fst l) ++ fst b) ;; Ok (fst x, snd b).

(* DecodeDir from a reader that cannot report how much is left (no Len()): the bound check is skipped *)
Definition decode_dir_stream (bs : bytes) : res (list fval * bytes) :=
  l <- rd_int 2 bs ;; b <- rd (fst l) (snd l) ;;
  x <- dec_dir (le 2 (fst l) ++ fst b) ;; Ok (fst x, snd b).

(* ---------------- well-formedness (what the Go types can hold and the wire can carry) ---------------- *)
Definition wf_bytes (s : bytes) : bool := forallb (fun b => b <? 256) s.
Definition wf_str (s : bytes) : bool := (len s <? M16) && wf_bytes s.
Definition wf_qid (q : qid) : bool := (q_type q <? 256) && (q_vers q <? M32) && (q_path q <? 18446744073709551616).
Definition wf_fval (v : fval) : bool :=
  match v with
  | FInt w n => ((w =? 1) || (w =? 2) || (w =? 4) || (w =? 8)) && (n <? 2 ^ (8 * w))
  | FStr s => wf_str s
  | FData d => (len d <? M32) && wf_bytes d
  | FStrs l => (len l <? M16) && forallb wf_str l
  | FQid q => wf_qid q
  | FQids l => (len l <? M16) && forallb wf_qid l
  | FTime t => (0 <=? t)%Z && (t <? 4294967296)%Z
  end.
Fixpoint kinds_match_f (ks : list kind) (fs : list fval) : bool :=
  match ks, fs with
  | [], [] => true
  | k :: ks', f :: fs' => kind_eqb k (kind_of_fval f) && kinds_match_f ks' fs'
  | _, _ => false
  end.
Definition wf_dir (fs : list fval) : bool :=
  kinds_match_f (map snd spec_dir_fields) fs && forallb wf_fval fs && (len (enc_fvals fs) <? M16).
Definition wf_val (v : val) : bool := match v with VF f => wf_fval f | VDir fs => wf_dir fs end.
Fixpoint kinds_match (ks : list kind) (vs : list val) : bool :=
  match ks, vs with
  | [], [] => true
  | k :: ks', v :: vs' => kind_eqb k (kind_of v) && kinds_match ks' vs'
  | _, _ => false
  end.
Definition wf_fcall (f : fcall) : bool :=
  match kinds_of_type (fc_type f) with
  | None => false
  | Some ks => kinds_match ks (fc_fields f) && forallb wf_val (fc_fields f) && (fc_tag f <? M16)
               && (len (enc_vals (fc_fields f)) <? M32 - 16)
  end.

(* ---------------- allocation requested by the decoder (C04) ----------------
   The sum of the sizes the repository's code passes to make() on the path the
   decoder takes for this input (16 bytes per string header, interface value
   and Qid element).  Fixed-size scratch used inside encoding/binary is not
   counted here; it is covered by the linear slack of the measured oracle. *)
Definition alloc_str (bs : bytes) : N :=
  match rd_int 2 bs with
  | Ok (l, r) => if shorter r l then 0 else 2 * l    (* b := make([]byte, ll); string(b) *)
  | _ => 0
  end.

Fixpoint alloc_many {A} (dec1 : bytes -> res (A * bytes)) (a1 : bytes -> N) (n : nat) (bs : bytes) : N :=
  match n with
  | O => 0
  | S n' => a1 bs + match dec1 bs with Ok (_, r) => alloc_many dec1 a1 n' r | _ => 0 end
  end.

Definition alloc_fval (k : kind) (bs : bytes) : N :=
  match k with
  | KStr => alloc_str bs
  | KData => match rd_int 4 bs with Ok (l, r) => if shorter r l then 0 else l | _ => 0 end
  | KStrs => match rd_int 2 bs with
             | Ok (l, r) => if shorter r (2 * l) then 0
                            else 32 * l + alloc_many dec_str alloc_str (N.to_nat l) r
             | _ => 0 end
  | KQids => match rd_int 2 bs with
             | Ok (l, r) => if shorter r (13 * l) then 0 else 32 * l
             | _ => 0 end
  | _ => 0
  end.

Fixpoint alloc_fvals (ks : list kind) (bs : bytes) : N :=
  match ks with
  | [] => 0
  | k :: ks' => alloc_fval k bs + match dec_fval k bs with Ok (_, r) => alloc_fvals ks' r | _ => 0 end
  end.

Definition alloc_dir (bs : bytes) : N :=
  match rd_int 2 bs with
  | Ok (l, r) => if shorter r l then 0 else l + alloc_fvals (map snd spec_dir_fields) (take l r)
  | _ => 0
  end.

Definition alloc_val (k : kind) (bs : bytes) : N :=
  match k with KDir => alloc_dir bs | _ => alloc_fval k bs end.

Fixpoint alloc_vals (ks : list kind) (bs : bytes) : N :=
  match ks with
  | [] => 0
  | k :: ks' => alloc_val k bs + match dec_val k bs with Ok (_, r) => alloc_vals ks' r | _ => 0 end
  end.

Definition alloc_msg (ty : N) (ks : list kind) (bs : bytes) : N :=
  if ty =? T_Rstat then match rd_int 2 bs with Ok (_, r) => alloc_vals ks r | _ => 0 end
  else if ty =? T_Twstat then
    match ks with
    | k0 :: rest => alloc_val k0 bs +
        match dec_val k0 bs with
        | Ok (_, r) => match rd_int 2 r with Ok (_, r') => alloc_vals rest r' | _ => 0 end
        | _ => 0 end
    | [] => 0
    end
  else alloc_vals ks bs.

Definition alloc_fcall (bs : bytes) : N :=
  match rd_int 1 bs with
  | Ok (t, r) => match rd_int 2 r with
                 | Ok (_, r') => match kinds_of_type t with Some ks => alloc_msg t ks r' | None => 0 end
                 | _ => 0 end
  | _ => 0
  end.

(* DecodeDir: p := make([]byte, ll+2), then the *Dir case on p *)
Definition alloc_decode_dir (bs : bytes) : N :=
  match rd_int 2 bs with
  | Ok (l, r) => if shorter r l then 0 else (l + 2) + alloc_dir (le 2 l ++ take l r)
  | _ => 0
  end.
