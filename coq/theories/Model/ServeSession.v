(* The serve loop of Model/Serve.v with the session of Model/Session.v behind it: ONE composed
   transition system.  (serveconn.go's ServeConn(ctx, conn, SSession(SFileSys(fs))).)

   Nothing of the Go code is transcribed here.  The composed step is Serve.v's [step] and
   Session.v's [sstep] glued together at the three places where the two meet:

     ODispatch rid m   Handler.Handle is invoked for request rid with message m: the composed
                       state remembers m for rid ([c_req]); which Session method Handle calls for
                       m is [cd_op] (Tattach -> Attach, Twalk -> Walk, ...; [None]: a message
                       that reaches no Session method, e.g. Tversion in the middle of a session)
     CFinish rid ts    Handle of request rid returns: the session operation of its message is
                       applied NOW, in one piece, to the shared session state - [sstep] with the
                       file system's answers [ts] - and Serve.v's [EFinish rid r] is taken with
                       r = the reply built from the session's result ([cd_reply])
     Serve.OStop       ServeConn calls handler.Stop = session.Stop: [sstep _ Session.OStop]

   What is environment here: everything that is environment in Serve.v (peer, connection faults,
   write outcomes, context cancellation, every scheduling choice) plus, per returning handler, the
   token list [ts] = the file system's behaviour during that operation.  A cancelled context is
   visible to the session only through the file system (sfilesys.go hands ctx to every FileSys /
   Dirent / File call and never looks at it itself), i.e. through [ts]; the theorems quantify over
   every [ts], so "the file system gives up when cancelled" and "the file system ignores the
   cancellation" are both covered.

   ATOMICITY.  Operations are applied atomically at completion time, in completion order.  That
   concurrent session operations ARE atomic per fid (and that none of them blocks for ever) is
   property C14's statement (Model/SessLock.v), not this file's.  The one interleaving that C14
   does not cover - Stop running while an operation is inside the file system - is excluded by
   the serve side (C11_stop_after_return: Stop only when every handler goroutine is gone) and is
   what the composed theorem in Proofs/ServeSessionProofs.v rests on.

   The request -> operation mapping and the result -> reply mapping are an explicit argument
   ([codec]) quantified in the theorems: they hold for EVERY dispatch table, in particular for the
   one of ssesssion.go (regenerated as Gen/GenDispatch.v for C09).  [demo_codec] is a small
   concrete one for the non-vacuity examples and the correspondence run.

   Executable definitions only; lemmas are in Proofs/ServeSessionProofs.v. *)
From Coq Require Import List NArith Bool.
From stdpp Require Import gmap.
From P9 Require Import Model.Path Model.Serve Model.Session Model.FidSpec.
Import ListNotations.
Open Scope N_scope.

(* ---- the two mappings of sessionHandler.Handle ---- *)
Record codec := Codec {
  cd_op : list N -> option op;                          (* request message -> Session method + arguments *)
  cd_reply : list N -> option Session.result -> hres    (* message, session result (if any) -> what Handle returns *)
}.

(* a request never reaches Session.Stop: that is ServeConn's call *)
Definition req_op (cd : codec) (m : list N) : option op :=
  match cd_op cd m with
  | Some o => if is_stop o then None else Some o
  | None => None
  end.

(* ---- state ---- *)
Record cst := CSt {
  c_sv : st;                        (* Serve.v: loop, reader, writer, handler goroutines *)
  c_ss : sess;                      (* Session.v: the fid table (and its ghost release log) *)
  c_req : gmap N (list N);          (* request id -> the message Handle was invoked with *)
  c_log : list (op * list tok)      (* ghost: the session operations applied so far, oldest first *)
}.
Definition cinit : cst := CSt init sess0 ∅ [].

Inductive cevent :=
| CEv (e : event)                   (* any event of Serve.v except EFinish *)
| CFinish (rid : N) (ts : list tok).  (* Handle of rid returns; the file system answered ts *)

(* what the outputs of a serve step do to the session side *)
Definition absorb1 (acc : sess * gmap N (list N) * list (op * list tok)) (o : output) :=
  let '(ss, rq, lg) := acc in
  match o with
  | ODispatch rid m => (ss, <[rid := m]> rq, lg)
  | Serve.OStop => ((sstep ss Session.OStop []).1.1, rq, lg ++ [(Session.OStop, [])])
  | _ => acc
  end.
Definition absorb (acc : sess * gmap N (list N) * list (op * list tok)) (outs : list output) :=
  fold_left absorb1 outs acc.

Definition after_serve (sv' : st) (acc : sess * gmap N (list N) * list (op * list tok)) (o : list output)
  : option (cst * list output) :=
  let '(ss, rq, lg) := absorb acc o in Some (CSt sv' ss rq lg, o).

(* the session half of a returning Handle: new session state, the session's result (None: no
   Session method was called), the extended log *)
Definition handle_op (cd : codec) (c : cst) (m : list N) (ts : list tok)
  : sess * option Session.result * list (op * list tok) :=
  match req_op cd m with
  | Some o => let '(s1, r, _) := sstep (c_ss c) o ts in (s1, Some r, c_log c ++ [(o, ts)])
  | None => (c_ss c, None, c_log c)
  end.

Definition cstep (v : variant) (cd : codec) (c : cst) (e : cevent) : option (cst * list output) :=
  match e with
  | CEv (EFinish _ _) => None
  | CEv e0 =>
      match step v (c_sv c) e0 with
      | Some (sv', o) => after_serve sv' (c_ss c, c_req c, c_log c) o
      | None => None
      end
  | CFinish rid ts =>
      match c_req c !! rid with
      | None => None                          (* Handle was never invoked for rid *)
      | Some m =>
          let '(ss1, res, lg1) := handle_op cd c m ts in
          match res with
          | Some RHang => None                (* the Session call never returns, so neither does Handle *)
          | _ =>
              match step v (c_sv c) (EFinish rid (cd_reply cd m res)) with
              | Some (sv', o) => after_serve sv' (ss1, c_req c, lg1) o
              | None => None
              end
          end
      end
  end.

Fixpoint crun (v : variant) (cd : codec) (c : cst) (evs : list cevent) : option (cst * list output) :=
  match evs with
  | [] => Some (c, [])
  | e :: rest =>
      match cstep v cd c e with
      | Some (c1, o1) =>
          match crun v cd c1 rest with
          | Some (c2, o2) => Some (c2, o1 ++ o2)
          | None => None
          end
      | None => None
      end
  end.

(* ---- projected observables (what the harness sees through VerifFidTable and the mock entries) ---- *)
(* fid -> entry id, bound fids only, unsorted *)
Definition bound_fids (c : cst) : list (N * N) :=
  omap (fun kv => match s_ent (snd kv) with Some (e, _) => Some (fst kv, e) | None => None end) (table (c_ss c)).
(* how often entry e was released *)
Definition release_count (c : cst) (e : N) : nat :=
  length (List.filter (fun x => fst x =? e) (released (c_ss c))).

(* ---- a small concrete codec: [type byte; small arguments] ---- *)
Definition demo_op (m : list N) : option op :=
  match m with
  | [104; f] => Some (OAttach f NOFID)          (* Tattach *)
  | [110; f; nf] => Some (OWalk f nf [])        (* Twalk, clone *)
  | [110; f; nf; nm] => Some (OWalk f nf [[nm]])
  | [112; f; md] => Some (OOpen f md)           (* Topen *)
  | [114; f; nm; md] => Some (OCreate f [nm] md)
  | [116; f; cnt] => Some (ORead f cnt)
  | [118; f] => Some (OWrite f)
  | [120; f] => Some (OClunk f)
  | [122; f] => Some (ORemove f)
  | [124; f] => Some (OStat f)
  | [126; f] => Some (OWStat f)
  | _ => None
  end.
Definition demo_reply (m : list N) (r : option Session.result) : hres :=
  match r with
  | Some (ROk n) => RMsg [match m with t :: _ => t + 1 | [] => 0 end; n]
  | Some (Session.RErr _) => Serve.RErr [101]
  | Some RHang => Serve.RErr [104]
  | None => Serve.RErr [117]
  end.
Definition demo_codec : codec := Codec demo_op demo_reply.
