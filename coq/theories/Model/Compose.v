(* The client tag layer (Model/Tags.v: transport.handle and its writer) and the
   serve loop (Model/Serve.v: conn.serve / read / write and the handler
   goroutines) as ONE executable transition system, connected by two FIFO
   wires.  Definitions only; lemmas are in Proofs/ComposeProofs*.v.

   Nothing of the Go code is transcribed here: the two step functions
   [Tags.hstep] and [Serve.step repaired] are used as they are.

     client -> server wire : Serve's own [inq] ("bytes delivered to the conn,
                             not yet decoded by the reader"), fed by [ESend]
                             when the client's writer completes a WriteFcall;
                             a frame written after the conn's read side failed
                             ([rerr]) is lost;
     server -> client wire : [j_s2c], fed by every [Serve.OFrame] output (the
                             server's conn.Write succeeded), drained by [JResp]
                             (the client's reader goroutine decodes the oldest
                             frame: Tags' [EResp]).

   Every scheduling and environment choice of both sides stays an explicit
   event ([JC e] / [JS e]): failed writes, read errors, cancelled contexts,
   shutdown, abandoned calls, handler returns in any order.  What the
   composition FIXES is exactly what the sibling models leave to their
   environment about the peer:
     - the server receives only frames the client wrote (no [JS (ESend ..)]),
     - the client receives only frames the server wrote (no [JC (EResp ..)]),
     - Handler.Handle answers request rid by [handler m], m the message it was
       dispatched with (no [JS (EFinish ..)]; [JFinish rid] instead).
   The client sends no Tflush (csession.go never does): every frame is a
   [KReq]. *)
From stdpp Require Import nmap fin_maps gmap.
From Coq Require Import List NArith Bool.
From P9 Require Import Model.WireTypes Model.Pipeline Proofs.PipelineProofs Model.Tags Model.Serve.
Import ListNotations.
Open Scope N_scope.

(* ---- what a request / reply looks like in the positional history of C09 ---- *)

(* the request message of call c with type byte mt: the call's identity is part of the message,
   so the handler's answer may differ from call to call *)
Definition qmsg (c mt : N) : message := (mt, [VF (FInt 4 c)]).
(* the body the server's handler is called with *)
Definition qbody (q : message) : Serve.bstr :=
  match q with
  | (mt, [VF (FInt _ c)]) => [mt; c]
  | (mt, _) => [mt]
  end.
(* a reply payload as a message: type byte + body; Rerror = 107, Rflush = 109 *)
Definition pmsg (p : Serve.payload) : message :=
  match p with
  | PMsg m => (match m with ty :: _ => ty | [] => 0 end, [VF (FStr m)])
  | PErr e => (107, [VF (FStr e)])
  | PFlushAck _ => (109, [])
  end.
(* the answer to request message q: what newFcall/newErrorFcall make of Handle's result *)
Definition reply_msg (handler : Serve.bstr -> Serve.hres) (q : message) : message :=
  pmsg (Serve.reply_of (handler (qbody q))).
(* the frame as Tags sees it *)
Definition mk_reply (f : Serve.frame) : Tags.reply :=
  {| r_type := fst (pmsg (f_pl f)); r_id := f_rid f |}.

(* ---- joint state ---- *)
Record jstate := {
  j_cl : Tags.hstate;             (* client owner loop + writer *)
  j_sv : Serve.st;                (* server, including the client->server wire [inq] *)
  j_s2c : list Serve.frame;       (* server->client wire, oldest first *)
  j_sent : list Serve.bstr        (* ghost: message of request rid (what the handler is called with), by rid *)
}.

Definition jinit : jstate :=
  {| j_cl := Tags.h_init; j_sv := Serve.init; j_s2c := []; j_sent := [] |}.

Inductive jevent :=
| JC (e : Tags.hevent)     (* any client event except EResp: EReq, EHand, EWrote, EWriteFailed, EReadFatal, ... *)
| JS (e : Serve.event)     (* any server event except ESend and EFinish *)
| JFinish (rid : N)        (* Handler.Handle of request rid returns [handler m] *)
| JResp.                   (* the client's reader takes the oldest frame of the server->client wire *)

(* the client's frames go onto the client->server wire *)
Fixpoint put_frames (sv : Serve.st) (sent : list Serve.bstr) (outs : list Tags.hout)
  : Serve.st * list Serve.bstr * list gev :=
  match outs with
  | [] => (sv, sent, [])
  | Tags.OFrame t c mt :: rest =>
      let m := qbody (qmsg c mt) in
      let '(sv1, sent1) :=
        match Serve.step repaired sv (ESend (nsent sv) t (KReq m)) with
        | Some (sv1, _) => (sv1, sent ++ [m])
        | None => (sv, sent)                      (* the conn's read side has failed: the frame is lost *)
        end in
      let '(sv2, sent2, g) := put_frames sv1 sent1 rest in
      (sv2, sent2, GReq (N.to_nat c) t (qmsg c mt) :: g)
  | _ :: rest => put_frames sv sent rest
  end.

Definition sframes (outs : list Serve.output) : list Serve.frame :=
  flat_map (fun o => match o with Serve.OFrame f => [f] | _ => [] end) outs.

Definition deliveries_of (f : Serve.frame) (outs : list Tags.hout) : list gev :=
  flat_map (fun o => match o with ODeliver c _ => [GDel (N.to_nat c) (pmsg (f_pl f))] | _ => [] end) outs.

Definition jstep (handler : Serve.bstr -> Serve.hres) (J : jstate) (ev : jevent) : option (jstate * list gev) :=
  match ev with
  | JC (EResp _ _) => None
  | JC e =>
      let '(cl', outs) := Tags.hstep (j_cl J) e in
      let '(sv', sent', g) := put_frames (j_sv J) (j_sent J) outs in
      Some ({| j_cl := cl'; j_sv := sv'; j_s2c := j_s2c J; j_sent := sent' |}, g)
  | JS (ESend _ _ _) => None
  | JS (EFinish _ _) => None
  | JS e =>
      match Serve.step repaired (j_sv J) e with
      | Some (sv', outs) =>
          Some ({| j_cl := j_cl J; j_sv := sv'; j_s2c := j_s2c J ++ sframes outs; j_sent := j_sent J |}, [])
      | None => None
      end
  | JFinish rid =>
      match nth_error (j_sent J) (N.to_nat rid) with
      | Some m =>
          match Serve.step repaired (j_sv J) (EFinish rid (handler m)) with
          | Some (sv', _) => Some ({| j_cl := j_cl J; j_sv := sv'; j_s2c := j_s2c J; j_sent := j_sent J |}, [])
          | None => None
          end
      | None => None
      end
  | JResp =>
      match j_s2c J with
      | f :: rest =>
          let '(cl', outs) := Tags.hstep (j_cl J) (EResp (f_tag f) (mk_reply f)) in
          Some ({| j_cl := cl'; j_sv := j_sv J; j_s2c := rest; j_sent := j_sent J |},
                GRep (f_tag f) (pmsg (f_pl f)) :: deliveries_of f outs)
      | [] => None
      end
  end.

(* run an event list; None as soon as an event is not enabled.  The second
   component is the positional history of C09: [GReq c t q] when the client's
   frame for call c with tag t goes onto the wire, [GRep t r] when a reply frame
   reaches the client, [GDel c r] when the transport hands r to call c. *)
Fixpoint jrun (handler : Serve.bstr -> Serve.hres) (J : jstate) (evs : list jevent) : option (jstate * list gev) :=
  match evs with
  | [] => Some (J, [])
  | e :: rest =>
      match jstep handler J e with
      | Some (J1, g1) =>
          match jrun handler J1 rest with
          | Some (J2, g2) => Some (J2, g1 ++ g2)
          | None => None
          end
      | None => None
      end
  end.

(* the answer owed to the request at position i of a history *)
Definition answer_at (handler : Serve.bstr -> Serve.hres) (h : list gev) (i : nat) : message :=
  match nth_error h i with
  | Some (GReq _ _ q) => reply_msg handler q
  | _ => (0, [])
  end.

(* the client's view of a joint run: the event list its owner loop saw *)
Fixpoint client_events (handler : Serve.bstr -> Serve.hres) (J : jstate) (evs : list jevent) : list Tags.hevent :=
  match evs with
  | [] => []
  | e :: rest =>
      match jstep handler J e with
      | Some (J1, _) =>
          (match e with
           | JC ce => [ce]
           | JResp => match j_s2c J with f :: _ => [EResp (f_tag f) (mk_reply f)] | [] => [] end
           | _ => []
           end) ++ client_events handler J1 rest
      | None => []
      end
  end.

(* the server's view of a joint run: the event list Serve.step saw *)
Fixpoint sent_events (sv : Serve.st) (outs : list Tags.hout) : list Serve.event :=
  match outs with
  | [] => []
  | Tags.OFrame t c mt :: rest =>
      let e := ESend (nsent sv) t (KReq (qbody (qmsg c mt))) in
      match Serve.step repaired sv e with
      | Some (sv1, _) => e :: sent_events sv1 rest
      | None => sent_events sv rest
      end
  | _ :: rest => sent_events sv rest
  end.

Fixpoint server_events (handler : Serve.bstr -> Serve.hres) (J : jstate) (evs : list jevent) : list Serve.event :=
  match evs with
  | [] => []
  | e :: rest =>
      match jstep handler J e with
      | Some (J1, _) =>
          (match e with
           | JC ce => sent_events (j_sv J) (snd (Tags.hstep (j_cl J) ce))
           | JS se => [se]
           | JFinish rid => match nth_error (j_sent J) (N.to_nat rid) with
                            | Some m => [EFinish rid (handler m)]
                            | None => []
                            end
           | JResp => []
           end) ++ server_events handler J1 rest
      | None => []
      end
  end.
