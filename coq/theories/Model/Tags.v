(* Model of the client transport (transport.go) and of the reply handling of
   the client session (csession.go).  Definitions only; lemmas are in
   Proofs/TagsProofs*.v.

   - [allocate]    = allocateTag: the `len(m) >= 0xFFFF` pre-check, then the
                     loop `hint++; if hint == NOTAG { hint = 0 }` over at most
                     65535 candidates (uint16 arithmetic written out).
   - [hstep]       = one step of the owner loop transport.handle or of its
                     writer goroutine, driven by an event: which select case
                     fired and what the environment (caller, peer, WriteFcall)
                     did.  The loop queues request frames ([h_pend]); the
                     writer goroutine takes them one at a time ([h_writer]).
   - [send_first], [send_wait] = the two selects of transport.send as the SET
                     of outcomes Go's select may choose (every ready case).
   - [client_result] = the type assertion each csession.go method applies to
                     the reply (table GenReplyTypes.reply_types, regenerated
                     from the source).

   Facts read off the current source by the translator are used here
   (P9.Gen.GenReplyTypes): whether the unknown-tag branch panics, which cases
   the two selects have, the reply type that is converted to an error. *)
From stdpp Require Import nmap fin_maps.
From Coq Require Import List NArith Bool.
From P9 Require Import Gen.GenReplyTypes.
Import ListNotations.
Open Scope N_scope.

Notation tag := N (only parsing).
Notation call := N (only parsing). (* identity of one send() invocation = one fcallRequest *)
Notation tagmap := (Nmap call).

Definition NOTAG : N := 65535.

(* ---------------------------------------------------------------- allocateTag *)

(* hint++ on a uint16, then `if hint == NOTAG { hint = 0 }` *)
Definition next_tag (h : N) : N :=
  let h' := (h + 1) mod 65536 in
  if h' =? NOTAG then 0 else h'.

Fixpoint alloc_loop (fuel : nat) (m : tagmap) (h : N) : option N :=
  match fuel with
  | O => None
  | S f =>
      let h' := next_tag h in
      match m !! h' with
      | None => Some h'
      | Some _ => alloc_loop f m h'
      end
  end.

(* `for i := 0; i < 0xFFFF; i++` *)
Definition pool_fuel : nat := N.to_nat 65535.

Inductive herr :=
| EDepleted          (* "tag pool depleted" *)
| EAllocUnexpected   (* "allocateTag: unexpected error" *)
| EWrite.            (* whatever WriteFcall returned *)

Definition allocate (m : tagmap) (hint : N) : N + herr :=
  if 65535 <=? N.of_nat (size m) then inr EDepleted
  else match alloc_loop pool_fuel m hint with
       | Some t => inl t
       | None => inr EAllocUnexpected
       end.

(* ---------------------------------------------------------------- the owner loop *)

Record reply := { r_type : N;      (* FcallType byte of the frame *)
                  r_id : N }.      (* stands for the frame's payload *)

(* a frame queued for / held by the writer goroutine: &fcallWrite{req, fcall} *)
Record wjob := { w_call : N; w_tag : N; w_mt : N }.

Inductive hevent :=
| EReq (c : call) (mt : N)                (* `req := <-t.requests`: allocate the tag, enter it, queue the frame *)
| EHand                                   (* `out <- next`: the oldest queued frame goes to the (idle) writer goroutine *)
| EWrote                                  (* the writer's WriteFcall succeeded: the frame is on the connection *)
| EWriteFailed                            (* the writer's WriteFcall failed; the loop takes it from `failed`
                                             (or, the loop having returned, the writer leaves through t.closed) *)
| EResp (t : tag) (r : reply)             (* `b := <-responses`: the reader goroutine decoded a frame *)
| EReadFatal                              (* the reader goroutine met a fatal read error: t.close() *)
| EReadRetry                              (* ReadFcall failed with a timeout-class error (net.Error, Timeout/Temporary) *)
| ECtxDone                                (* the session context t.ctx ended *)
| EExit                                   (* the loop takes `<-t.shutdown` or `<-t.ctx.Done()` and returns *)
| ECancel (c : call).                     (* call c's own context ended (not seen by the loop at all) *)

Inductive hout :=
| OFrame (t : tag) (c : call) (mt : N)    (* a request frame written to the connection *)
| ODeliver (c : call) (r : reply)         (* req.response <- b *)
| ODeliverErr (c : call) (e : herr)       (* req.err <- err *)
| OPanic                                  (* the owner goroutine panicked: the process dies *)
| OClosed.                                (* handle returned: close(t.closed) *)

Record hstate := {
  h_out : tagmap;           (* outstanding *)
  h_sel : N;                (* selected *)
  h_pend : list wjob;       (* pending: frames not yet handed to the writer, oldest first *)
  h_writer : option wjob;   (* the frame the writer goroutine is busy with *)
  h_shut : bool;            (* t.shutdown is closed *)
  h_ctx : bool;             (* t.ctx is done *)
  h_closed : bool;          (* t.closed is closed (the loop has returned) *)
  h_panicked : bool }.

Definition h_init : hstate :=
  {| h_out := ∅; h_sel := 0; h_pend := []; h_writer := None;
     h_shut := false; h_ctx := false; h_closed := false; h_panicked := false |}.

Definition h_running (st : hstate) : bool := negb (h_closed st) && negb (h_panicked st).

(* update of the loop-owned data; the flags stay *)
Definition with_data (st : hstate) (m : tagmap) (sel : N) (pend : list wjob) (w : option wjob) : hstate :=
  {| h_out := m; h_sel := sel; h_pend := pend; h_writer := w; h_shut := h_shut st; h_ctx := h_ctx st;
     h_closed := h_closed st; h_panicked := h_panicked st |}.

Definition with_flags (st : hstate) (shut ctx closed panicked : bool) : hstate :=
  {| h_out := h_out st; h_sel := h_sel st; h_pend := h_pend st; h_writer := h_writer st;
     h_shut := shut; h_ctx := ctx; h_closed := closed; h_panicked := panicked |}.

Definition hstep (st : hstate) (ev : hevent) : hstate * list hout :=
  match ev with
  | EReq c mt =>
      if h_running st then
        match allocate (h_out st) (h_sel st) with
        | inr e => (st, [ODeliverErr c e])                       (* selected, err = 0, err; req.err <- err *)
        | inl t => (with_data st (<[t := c]> (h_out st)) t
                              (h_pend st ++ [{| w_call := c; w_tag := t; w_mt := mt |}]) (h_writer st), [])
        end
      else (st, [])
  | EHand =>
      if h_running st then
        match h_pend st, h_writer st with
        | w :: rest, None => (with_data st (h_out st) (h_sel st) rest (Some w), [])
        | _, _ => (st, [])
        end
      else (st, [])
  | EWrote =>
      (* the writer goroutine is on its own: a write under way completes whether or not the loop still runs *)
      match h_writer st with
      | Some w => (with_data st (h_out st) (h_sel st) (h_pend st) None, [OFrame (w_tag w) (w_call w) (w_mt w)])
      | None => (st, [])
      end
  | EWriteFailed =>
      match h_writer st with
      | Some w =>
          if h_running st then
            (* `if outstanding[w.fcall.Tag] == w.req { delete(...) }; w.req.err <- w.err` *)
            let keep := match h_out st !! w_tag w with
                        | Some c => if failed_arm_guarded then negb (c =? w_call w) else false
                        | None => true
                        end in
            (with_data st (if keep then h_out st else delete (w_tag w) (h_out st)) (h_sel st) (h_pend st) None,
             [ODeliverErr (w_call w) EWrite])
          else (with_data st (h_out st) (h_sel st) (h_pend st) None, [])   (* `case <-t.closed: return` *)
      | None => (st, [])
      end
  | EResp t r =>
      if h_running st then
        match h_out st !! t with
        | Some c => (with_data st (delete t (h_out st)) (h_sel st) (h_pend st) (h_writer st), [ODeliver c r])
        | None =>
            if unknown_tag_panics
            then (with_flags st (h_shut st) (h_ctx st) (h_closed st) true, [OPanic])
            else (st, [])
        end
      else (st, [])
  | EReadFatal => (with_flags st true (h_ctx st) (h_closed st) (h_panicked st), [])
  | EReadRetry =>
      (* `continue loop` - unless the session is over: then the reader returns, i.e. t.close().
         (ReadFcall returns t.ctx.Err() at once when t.ctx is done; for a context whose
         deadline passed that error is itself a timeout-class error) *)
      if reader_retry_stops_when_done && (h_ctx st || h_closed st)
      then (with_flags st true (h_ctx st) (h_closed st) (h_panicked st), [])
      else (st, [])
  | ECtxDone => (with_flags st (h_shut st) true (h_closed st) (h_panicked st), [])
  | EExit =>
      if h_running st && (h_shut st || h_ctx st)
      then (with_flags st (h_shut st) (h_ctx st) true (h_panicked st), [OClosed])
      else (st, [])
  | ECancel _ => (st, [])
  end.

(* the loop's exit cases are ready *)
Definition exit_enabled (st : hstate) : bool := h_running st && (h_shut st || h_ctx st).

Fixpoint hrun (st : hstate) (evs : list hevent) : hstate * list hout :=
  match evs with
  | [] => (st, [])
  | e :: r => let '(st1, o1) := hstep st e in
              let '(st2, o2) := hrun st1 r in (st2, o1 ++ o2)
  end.

Definition run (evs : list hevent) : hstate * list hout := hrun h_init evs.
Definition trace (evs : list hevent) : list hout := snd (run evs).

(* ---------------------------------------------------------------- what the peer can see *)

Inductive wire :=
| WFrame (t : tag) (c : call)     (* request frame of call c with tag t arrived at the server *)
| WReply (t : tag) (r : reply).   (* the server sent a reply with tag t *)

(* the wire history of an event list: frames the client wrote and replies the
   peer sent, in order (replies are recorded whether or not anybody still listens) *)
Fixpoint hwire (st : hstate) (evs : list hevent) : list wire :=
  match evs with
  | [] => []
  | e :: r =>
      let '(st1, o1) := hstep st e in
      (match e with EResp t rp => [WReply t rp] | _ => [] end)
      ++ flat_map (fun o => match o with OFrame t c _ => [WFrame t c] | _ => [] end) o1
      ++ hwire st1 r
  end.
Definition wire_of (evs : list hevent) : list wire := hwire h_init evs.

(* tags of requests still awaiting a reply, computed from the wire history
   alone (abandoned calls stay in it: only a reply removes a tag) *)
Fixpoint awaiting_from (acc : list tag) (w : list wire) : list tag :=
  match w with
  | [] => acc
  | WFrame t _ :: r => awaiting_from (t :: acc) r
  | WReply t _ :: r => awaiting_from (filter (fun x => negb (x =? t)) acc) r
  end.
Definition awaiting (w : list wire) : list tag := awaiting_from [] w.

(* reference semantics of "the reply that carries the tag of its own request":
   a reply with tag t belongs to the latest unanswered frame with tag t *)
Fixpoint ref_deliveries (aw : list (tag * call)) (w : list wire) : list (call * reply) :=
  match w with
  | [] => []
  | WFrame t c :: r => ref_deliveries ((t, c) :: aw) r
  | WReply t rp :: r =>
      match find (fun p => fst p =? t) aw with
      | Some (_, c) => (c, rp) :: ref_deliveries (filter (fun p => negb (fst p =? t)) aw) r
      | None => ref_deliveries aw r
      end
  end.

Definition deliveries (tr : list hout) : list (call * reply) :=
  flat_map (fun o => match o with ODeliver c r => [(c, r)] | _ => [] end) tr.
Definition err_deliveries (tr : list hout) : list (call * herr) :=
  flat_map (fun o => match o with ODeliverErr c e => [(c, e)] | _ => [] end) tr.
Definition req_calls (evs : list hevent) : list call :=
  flat_map (fun e => match e with EReq c _ => [c] | _ => [] end) evs.

(* what is in a call's two buffered channels after a trace *)
Definition resp_slot (tr : list hout) (c : call) : option reply :=
  match find (fun p => fst p =? c) (deliveries tr) with Some (_, r) => Some r | None => None end.
Definition err_slot (tr : list hout) (c : call) : option herr :=
  match find (fun p => fst p =? c) (err_deliveries tr) with Some (_, e) => Some e | None => None end.

(* ---------------------------------------------------------------- transport.send *)

Inductive sres :=
| SMsg (r : reply)        (* return resp.Message, nil *)
| SRerror (r : reply)     (* return nil, respmesg   (the Rerror reply as the call's error) *)
| SErrClosed              (* return nil, ErrClosed *)
| SErrCtx                 (* return nil, ctx.Err() *)
| SErr (e : herr).        (* return nil, err        (from req.err) *)

Definition sres_is_error (s : sres) : bool := match s with SMsg _ => false | _ => true end.

Definition conv_reply (r : reply) : sres :=
  if r_type r =? send_error_type then SRerror r else SMsg r.

Definition opt_list {A} (b : bool) (x : A) : list A := if b then [x] else [].

(* first select: outcomes Go may choose.  [None] = the request was handed to
   the owner loop (possible only while the loop is at its select). *)
Definition send_first (closed ctxdone owner_receiving : bool) : list (option sres) :=
  let '(has_closed, has_ctx, has_req) := send_first_cases in
  opt_list (has_closed && closed) (Some SErrClosed)
  ++ opt_list (has_ctx && ctxdone) (Some SErrCtx)
  ++ opt_list (has_req && owner_receiving) None.

(* second select: closed / own ctx / req.err / req.response *)
Definition send_wait (closed ctxdone : bool) (e : option herr) (r : option reply) : list sres :=
  let '(has_closed, has_ctx, has_err, has_resp) := send_second_cases in
  opt_list (has_closed && closed) SErrClosed
  ++ opt_list (has_ctx && ctxdone) SErrCtx
  ++ (match e with Some e => opt_list has_err (SErr e) | None => [] end)
  ++ (match r with Some r => opt_list has_resp (conv_reply r) | None => [] end).

(* ---------------------------------------------------------------- csession.go *)

Inductive cres :=
| COk (r : reply)         (* the method returned the reply's fields, nil error *)
| CRerror (r : reply)     (* the error is the Rerror reply *)
| CUnexpected             (* ErrUnexpectedMsg *)
| CClosed | CCtx | CErr (e : herr).

Definition expected_reply (mt : N) : option N :=
  match find (fun row => snd (fst row) =? mt) reply_types with
  | Some row => Some (snd row)
  | None => None
  end.

(* mt: the request type the method built *)
Definition client_result (mt : N) (s : sres) : cres :=
  match s with
  | SMsg r => match expected_reply mt with
              | Some rt => if r_type r =? rt then COk r else CUnexpected
              | None => CUnexpected
              end
  | SRerror r => CRerror r
  | SErrClosed => CClosed
  | SErrCtx => CCtx
  | SErr e => CErr e
  end.
