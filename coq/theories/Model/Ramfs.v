(* Model of /repo/ramfs (dirent.go, inode.go, filesys.go) driven through the
   parts of /repo/sfilesys.go that the C18 harness uses (fid table, Walk,
   Create, Open, Read, Write, Stat, WStat, Clunk, Remove).

   - the node store is a list of nodes; a node's id is its index (root = 0).
     A *FileEnt pointer is an id; Go's garbage collector never frees a node
     somebody points at, so lookups are total ([getn] with a default).
   - `offset int64` is a Z with the sign kept ([to_int64] of the wire uint64);
     every Go slice expression goes through [go_slice]/[go_index], which yield
     [Panic] when Go would panic.
   - lengths and counts are ideal integers (no 2^63 wrap of len+count): files
     shorter than 2^62 bytes, see props/C18.json "assumptions".
   - decref's recursive release of children runs on fuel [S (length store)];
     running out of fuel stands for a recursion that does not end and is
     reported as [Hang]; Proofs/RamfsProofsRef.v (decref_ok) shows that the
     fuel is enough in every reachable state, so this never happens.
   Executable definitions only; lemmas are in Proofs/RamfsProofs*.v. *)
From Coq Require Import String.
From Coq Require Import List NArith ZArith Bool.
From P9 Require Import Base.Res Base.Sexp Model.Path.
Import ListNotations.
Open Scope Z_scope.

(* ------------------------------------------------------------------ *)
(* Go slices                                                           *)

Definition zlen {A} (l : list A) : Z := Z.of_nat (length l).

(* l[lo:hi]  (every use in ramfs has hi <= len when it is in range, so cap = len) *)
Definition go_slice {A} (l : list A) (lo hi : Z) : res (list A) :=
  if (0 <=? lo) && (lo <=? hi) && (hi <=? zlen l)
  then Ok (firstn (Z.to_nat (hi - lo)) (skipn (Z.to_nat lo) l))
  else Panic.

(* l[i] *)
Definition go_index {A} (l : list A) (i : Z) (d : A) : res A :=
  if (0 <=? i) && (i <? zlen l) then Ok (nth (Z.to_nat i) l d) else Panic.

(* copy(l[off:off+len src], src) when the destination slice is in range *)
Definition splice {A} (l : list A) (off : Z) (src : list A) : list A :=
  firstn (Z.to_nat off) l ++ src ++ skipn (Z.to_nat off + length src) l.

(* int64(uint64 offset) *)
Definition to_int64 (off : N) : Z :=
  let z := Z.of_N off mod 2 ^ 64 in
  if z <? 2 ^ 63 then z else z - 2 ^ 64.

(* ------------------------------------------------------------------ *)
(* nodes                                                               *)

Record info := mkInfo {
  i_name : bstr; i_uid : bstr; i_gid : bstr; i_muid : bstr;
  i_mode : N; i_qtype : N; i_qpath : N; i_qvers : N; i_len : N }.

Record node := mkNode {
  n_ref : Z;                                  (* nref int *)
  n_children : option (list (bstr * nat));    (* children map[string]*FileEnt; None = nil map *)
  n_info : info;                              (* Info p9p.Dir (times not modelled) *)
  n_data : list N }.                          (* Data []byte *)

Definition store := list node.

Definition DMDIR : N := 2147483648%N.   (* 0x80000000 *)
Definition QTDIR : N := 128%N.
Definition NOFID : N := 4294967295%N.
Definition UMASK : N := 18%N.           (* 0022 *)
Definition MAXU32 : N := 4294967295%N.
Definition MAXU64 : N := 18446744073709551615%N.

Definition empty_info : info := mkInfo [] [] [] [] 0 0 0 0 0.
Definition dummy_node : node := mkNode 0 None empty_info [].

Definition getn (s : store) (x : nat) : node := nth x s dummy_node.
Fixpoint setn (s : store) (x : nat) (n : node) : store :=
  match s, x with
  | [], _ => []
  | _ :: r, O => n :: r
  | a :: r, S x => a :: setn r x n
  end.

Definition with_ref (n : node) (r : Z) : node := mkNode r (n_children n) (n_info n) (n_data n).
Definition with_children (n : node) (c : option (list (bstr * nat))) : node := mkNode (n_ref n) c (n_info n) (n_data n).
Definition with_info (n : node) (i : info) : node := mkNode (n_ref n) (n_children n) i (n_data n).
Definition with_data (n : node) (d : list N) : node := mkNode (n_ref n) (n_children n) (n_info n) d.

Definition child_ids (n : node) : list nat :=
  match n_children n with Some cs => map snd cs | None => [] end.

Fixpoint lookup_child (cs : list (bstr * nat)) (name : bstr) : option nat :=
  match cs with
  | [] => None
  | (k, v) :: r => if bstr_eqb k name then Some v else lookup_child r name
  end.

Fixpoint remove_child (cs : list (bstr * nat)) (name : bstr) : list (bstr * nat) :=
  match cs with
  | [] => []
  | (k, v) :: r => if bstr_eqb k name then r else (k, v) :: remove_child r name
  end.

Definition is_dir_mode (i : info) : bool := negb (N.land (i_mode i) DMDIR =? 0)%N.   (* FileEnt.IsDir *)
Definition is_dir_qid (i : info) : bool := negb (N.land (i_qtype i) QTDIR =? 0)%N.   (* p9p.IsDir(Dirent) *)

(* ---- inode.go ---- *)

Definition incref (s : store) (x : nat) : store :=
  let n := getn s x in setn s x (with_ref n (n_ref n + 1)).

(* decref: None = out of fuel.  When the count reaches 0 the children are
   detached under the lock and released afterwards. *)
Fixpoint decref (fuel : nat) (s : store) (x : nat) : option store :=
  match fuel with
  | O => None
  | S fuel =>
      let n := getn s x in
      let r := n_ref n - 1 in
      if r =? 0 then
        let s1 := setn s x (with_children (with_ref n r) None) in
        fold_left (fun acc c => match acc with Some s' => decref fuel s' c | None => None end)
                  (child_ids n) (Some s1)
      else Some (setn s x (with_ref n r))
  end.

Definition decref_top (s : store) (x : nat) : option store := decref (S (length s)) s x.

Fixpoint decref_list (s : store) (xs : list nat) : option store :=
  match xs with
  | [] => Some s
  | x :: r => match decref_top s x with Some s' => decref_list s' r | None => None end
  end.

Definition e_notdir_dot : bstr := str "rmnotdir"%string.       (* errors.New("not a directory.") *)
Definition e_dupname : bstr := str "dupname"%string.           (* errors.New("duplicate file name") *)
Definition e_rmnotfound : bstr := str "rmnotfound"%string.     (* errors.New("not found") *)

Definition link_child (s : store) (p : nat) (name : bstr) (c : nat) : res store :=
  let n := getn s p in
  match n_children n with
  | None => Err e_notdir_dot
  | Some cs =>
      match lookup_child cs name with
      | Some _ => Err e_dupname
      | None => Ok (setn s p (with_children n (Some (cs ++ [(name, c)]))))
      end
  end.

(* unlink_child(name, c): after the repair the link is removed only when it still leads to c *)
Definition unlink_child (s : store) (p : nat) (name : bstr) (c : nat) : res store :=
  let n := getn s p in
  match n_children n with
  | None => Err e_notdir_dot
  | Some cs =>
      match lookup_child cs name with
      | None => Err e_rmnotfound
      | Some c' =>
          if Nat.eqb c' c then Ok (setn s p (with_children n (Some (remove_child cs name))))
          else Err e_rmnotfound
      end
  end.

(* ---- dirent.go: FileEnt ---- *)

Definition e_eof : bstr := str "eof"%string.
Definition e_invalidaddr : bstr := str "invalidaddr"%string.
Definition e_badoffset : bstr := str "badoffset"%string.
Definition e_notimpl : bstr := str "notimpl"%string.
Definition e_toolarge : bstr := str "toolarge"%string.
Definition e_notdir : bstr := str "notdir"%string.
Definition e_wstatdir : bstr := str "wstatdir"%string.

(* FileEnt.Read on a buffer of [count] bytes; returns p[:m] *)
Definition ent_read (data : list N) (count : Z) (offset : Z) : res (list N) :=
  if offset <? 0 then Err e_badoffset else
  let n := zlen data in
  if offset >? n then Err e_eof else
  let m := if offset + count >? n then n - offset else count in
  if (0 <=? m) && (m <=? count) then          (* p[:m] *)
    go_slice data offset (offset + m)         (* ref.Data[offset:offset+m] *)
  else Panic.

(* FileEnt.Write: new data (Info.Length := len, Qid.Version++ done by the caller) *)
Definition ent_write (data : list N) (p : list N) (offset : Z) : res (list N) :=
  if offset <? 0 then Err e_badoffset else
  let n := zlen data in
  if offset >? n then Err e_invalidaddr else
  let m := zlen p in
  if offset + m >? n then
    let n2 := n - offset in
    d1 <- (if n2 >? 0 then
             _ <- go_slice data offset (offset + n2) ;;
             src <- go_slice p 0 n2 ;;
             Ok (splice data offset src)
           else Ok data) ;;
    tl <- go_slice p n2 m ;;
    Ok (d1 ++ tl)
  else
    _ <- go_slice data offset (offset + m) ;;
    Ok (splice data offset p).

Definition bump_vers (i : info) : info :=
  mkInfo (i_name i) (i_uid i) (i_gid i) (i_muid i) (i_mode i) (i_qtype i) (i_qpath i) ((i_qvers i + 1) mod 2 ^ 32)%N (i_len i).
Definition set_len (i : info) (l : N) : info :=
  mkInfo (i_name i) (i_uid i) (i_gid i) (i_muid i) (i_mode i) (i_qtype i) (i_qpath i) (i_qvers i) l.
Definition set_name (i : info) (nm : bstr) : info :=
  mkInfo nm (i_uid i) (i_gid i) (i_muid i) (i_mode i) (i_qtype i) (i_qpath i) (i_qvers i) (i_len i).

Definition node_write (n : node) (p : list N) (offset : Z) : res node :=
  d <- ent_write (n_data n) p offset ;;
  Ok (mkNode (n_ref n) (n_children n) (set_len (bump_vers (n_info n)) (N.of_nat (length d))) d).

(* FileEnt.WStat: the node after the call and the error, if any (fields set
   before the failing test stay set) *)
Definition node_wstat (n : node) (mode : N) (uid gid name : bstr) (len : N) : res (node * option bstr) :=
  let i := n_info n in
  if negb (mode =? MAXU32)%N && negb (N.land (N.lxor mode (i_mode i)) DMDIR =? 0)%N then Err e_wstatdir else
  let i := if (mode =? MAXU32)%N then i else
           mkInfo (i_name i) (i_uid i) (i_gid i) (i_muid i) mode (i_qtype i) (i_qpath i) (i_qvers i) (i_len i) in
  let i := if is_empty uid then i else
           mkInfo (i_name i) uid (i_gid i) (i_muid i) (i_mode i) (i_qtype i) (i_qpath i) (i_qvers i) (i_len i) in
  let i := if is_empty gid then i else
           mkInfo (i_name i) (i_uid i) gid (i_muid i) (i_mode i) (i_qtype i) (i_qpath i) (i_qvers i) (i_len i) in
  let n1 := with_info n i in
  if negb (is_empty name) then Ok (n1, Some e_notimpl)
  else if (len =? MAXU64)%N then Ok (n1, None)
  else if (N.of_nat (length (n_data n)) <? len)%N then Ok (n1, Some e_toolarge)
  else d <- go_slice (n_data n) 0 (Z.of_N len) ;; Ok (with_data n1 d, None).

(* FileEnt.Walk(names...) : the entries found, stopping at the first miss *)
Fixpoint ent_walk (s : store) (x : nat) (names : list bstr) : list nat :=
  match names with
  | [] => []
  | nm :: r =>
      match n_children (getn s x) with
      | None => []
      | Some cs => match lookup_child cs nm with
                   | None => []
                   | Some c => c :: ent_walk s c r
                   end
      end
  end.

(* ------------------------------------------------------------------ *)
(* dirent.go: FileHandle                                               *)

Record handle := mkHandle {
  h_path : bstr; h_ent : nat; h_parents : list nat; h_uname : bstr }.

Definition hids (h : handle) : list nat := h_parents h ++ [h_ent h].

Record fsrv := mkSrv { lastpath : N; st : store }.

Definition qid := (N * N * N)%type.   (* type, path, version *)
Definition qid_of (i : info) : qid := (i_qtype i, i_qpath i, i_qvers i).

Definition e_invalidpath : bstr := str "invalidpath"%string.     (* WalkName / CreateName: "Invalid path" *)
Definition e_invalidpath2 : bstr := str "invalidpath2"%string.   (* FileHandle.Walk: "invalid path" *)
Definition e_notfound : bstr := str "notfound"%string.
Definition e_rmroot : bstr := str "rmroot"%string.

Definition is_nil {A} (l : list A) : bool := match l with [] => true | _ => false end.

Fixpoint count_dotdot (names : list bstr) : nat :=
  match names with
  | nm :: r => if is_dotdot nm then S (count_dotdot r) else O
  | [] => O
  end.

Fixpoint mapM {A B} (f : A -> res B) (l : list A) : res (list B) :=
  match l with
  | [] => Ok []
  | a :: r => b <- f a ;; bs <- mapM f r ;; Ok (b :: bs)
  end.

Definition zseq (n : Z) : list Z := map Z.of_nat (seq 0 (Z.to_nat n)).

(* FileHandle.Walk: qids, the new handle (None = noHandle), the store after the increfs *)
Definition fh_walk (s : store) (h : handle) (names : list bstr) : res (list qid * option handle * store) :=
  match walk_name (h_path h) names with
  | Panic => Panic | Hang => Hang
  | Err _ => Err e_invalidpath
  | Ok newpath =>
      let ndel := Z.of_nat (count_dotdot names) in
      let lp := zlen (h_parents h) in
      if ndel >? lp then Err e_invalidpath2 else
      (* walk backward *)
      ref <- (if ndel >? 0 then go_index (h_parents h) (lp - ndel) O else Ok (h_ent h)) ;;
      back <- mapM (fun i => go_index (h_parents h) (lp - 1 - i) O) (zseq ndel) ;;
      (* walk forward *)
      rest <- go_slice names ndel (zlen names) ;;
      let ans := back ++ ent_walk s ref rest in
      let sz := zlen ans in
      let qids := map (fun a => qid_of (n_info (getn s a))) ans in
      if negb (is_nil names) && (sz =? 0) then Err e_notfound else
      let success := is_nil names || (sz =? zlen names) in
      if success then
        let total := lp - ndel + 1 + sz - ndel in
        let i0 := lp - ndel + 1 in
        ps <- mapM (fun i => if i <? lp - ndel then go_index (h_parents h) i O
                             else if i >=? i0 then go_index ans (ndel + i - i0) O
                             else Ok ref) (zseq total) ;;
        let s' := fold_left incref ps s in
        ent <- go_index ps (zlen ps - 1) O ;;
        par <- go_slice ps 0 (zlen ps - 1) ;;
        Ok (qids, Some (mkHandle newpath ent par (h_uname h)), s')
      else Ok (qids, None, s)
  end.

(* newDir + fServer.Create + link_child + the handle's incref.
   Returns the server (lastpath is consumed even when the link fails) and the result. *)
Definition new_info (qpath : N) (fname uname : bstr) (mode : N) : info :=
  mkInfo fname uname (str "users"%string) uname mode
         (if (N.land mode DMDIR =? 0)%N then 0%N else QTDIR) qpath 0 0.

Definition fh_create (f : fsrv) (h : handle) (fname : bstr) (perm : N) : fsrv * res handle :=
  match create_name (h_path h) fname with
  | Ok path =>
      let mode := N.lxor perm (N.land perm UMASK) in
      let qp := ((lastpath f + 1) mod 2 ^ 64)%N in
      let inf := new_info qp fname (h_uname h) mode in
      let nd := mkNode 1 (if is_dir_qid inf then Some [] else None) inf [] in
      let c := length (st f) in
      match link_child (st f) (h_ent h) fname c with
      | Ok s1 =>
          let s2 := incref (s1 ++ [nd]) c in
          (mkSrv qp s2, Ok (mkHandle path c (h_parents h ++ [h_ent h]) (h_uname h)))
      | Err e => (mkSrv qp (st f), Err e)
      | Panic => (f, Panic) | Hang => (f, Hang)
      end
  | Err _ => (f, Err e_invalidpath)
  | Panic => (f, Panic) | Hang => (f, Hang)
  end.

(* FileHandle.Clunk *)
Definition fh_clunk (s : store) (h : handle) : option store :=
  decref_list s (h_ent h :: rev (h_parents h)).

(* FileHandle.Remove: store after the deferred Clunk, and the error if any *)
Definition fh_remove (s : store) (h : handle) : option store * option bstr :=
  match rev (h_parents h) with
  | [] => (fh_clunk s h, Some e_rmroot)
  | p :: _ =>
      match unlink_child s p (i_name (n_info (getn s (h_ent h)))) (h_ent h) with
      | Ok s1 =>
          match decref_top s1 (h_ent h) with
          | Some s2 => (fh_clunk s2 h, None)
          | None => (None, None)
          end
      | Err e => (fh_clunk s h, Some e)
      | _ => (None, None)
      end
  end.

(* FileHandle.OpenDir: ".." first, then the children (Go map order: compared as a sorted set) *)
Definition fh_opendir (s : store) (h : handle) : res (list info) :=
  let dd := match rev (h_parents h) with
            | [] => n_info (getn s (h_ent h))
            | p :: _ => n_info (getn s p)
            end in
  let n := getn s (h_ent h) in
  if negb (is_dir_mode (n_info n)) then Err e_notdir
  else Ok (set_name dd (str ".."%string) :: map (fun c => n_info (getn s c)) (child_ids n)).

(* ------------------------------------------------------------------ *)
(* sfilesys.go: the fid table of one session, as far as the harness drives it *)

Inductive ofile :=
| OFile (x : nat)                       (* File = the FileHandle itself: reads and writes go to h.ent *)
| ODir (rest : list info) (off : Z).    (* File = Readdir over the snapshot taken by OpenDir *)

Record sfid := mkFid { f_h : handle; f_file : option ofile; f_mode : N }.
Definition ftab := list (N * sfid).
Record world := mkW { w_srv : fsrv; w_sess : list ftab }.

Fixpoint ft_get (t : ftab) (fid : N) : option sfid :=
  match t with
  | [] => None
  | (k, v) :: r => if (k =? fid)%N then Some v else ft_get r fid
  end.
Fixpoint ft_del (t : ftab) (fid : N) : ftab :=
  match t with
  | [] => []
  | (k, v) :: r => if (k =? fid)%N then r else (k, v) :: ft_del r fid
  end.
Fixpoint ft_set (t : ftab) (fid : N) (e : sfid) : ftab :=
  match t with
  | [] => [(fid, e)]
  | (k, v) :: r => if (k =? fid)%N then (k, e) :: r else (k, v) :: ft_set r fid e
  end.

Fixpoint set_nth {A} (l : list A) (i : nat) (a : A) : list A :=
  match l, i with
  | [], _ => []
  | _ :: r, O => a :: r
  | x :: r, S i => x :: set_nth r i a
  end.

Definition sess_of (w : world) (s : nat) : ftab := nth s (w_sess w) [].
Definition set_sess (w : world) (s : nat) (t : ftab) : world := mkW (w_srv w) (set_nth (w_sess w) s t).
Definition set_store (w : world) (s : store) : world := mkW (mkSrv (lastpath (w_srv w)) s) (w_sess w).
Definition wst (w : world) : store := st (w_srv w).

Definition e_unknownfid : bstr := str "unknownfid"%string.
Definition e_dupfid : bstr := str "dupfid"%string.
Definition e_nonnorm : bstr := str "nonnorm"%string.
Definition e_illegal : bstr := str "illegal"%string.
Definition e_c_unknownfid : bstr := str "c_unknownfid"%string.
Definition e_createnondir : bstr := str "createnondir"%string.
Definition e_c_invalidpath : bstr := str "c_invalidpath"%string.
Definition e_c_notdir : bstr := str "c_notdir"%string.
Definition e_alreadyopen : bstr := str "alreadyopen"%string.
Definition e_nofile : bstr := str "nofile"%string.
Definition e_noread : bstr := str "noread"%string.
Definition e_nowrite : bstr := str "nowrite"%string.
Definition e_invalid : bstr := str "invalid"%string.
Definition e_nosess : bstr := str "nosess"%string.

Inductive out :=
| RNone
| RQid (q : qid)
| RQids (l : list qid)
| RData (b : list N)
| RDirs (l : list info)
| RCount (n : Z)
| RStat (i : info)
| RTab (l : list (bstr * Z * Z * bool * Z)) (gone : list (N * Z * Z)).

Definition get_ref (t : ftab) (fid : N) : res sfid :=
  if (fid =? NOFID)%N then Err e_unknownfid
  else match ft_get t fid with Some e => Ok e | None => Err e_unknownfid end.

Definition ent_info (w : world) (h : handle) : info := n_info (getn (wst w) (h_ent h)).

Definition root_handle (uname : bstr) : handle := mkHandle [SLASH] 0 [] uname.

Definition sess_attach (w : world) (s : nat) (fid : N) (uname : bstr) : world * res out :=
  let t := sess_of w s in
  if (fid =? NOFID)%N then (w, Err e_unknownfid)
  else match ft_get t fid with
       | Some _ => (w, Err e_dupfid)
       | None =>
           let w1 := set_store w (incref (wst w) 0) in
           let h := root_handle uname in
           (set_sess w1 s (t ++ [(fid, mkFid h None 0)]), Ok (RQid (qid_of (ent_info w1 h))))
       end.

Definition opt_store (w : world) (o : option store) : world * bool :=
  match o with Some s => (set_store w s, true) | None => (w, false) end.

Definition sess_clunk (w : world) (s : nat) (fid : N) : world * res out :=
  let t := sess_of w s in
  match ft_get t fid with
  | None => (w, Err e_unknownfid)
  | Some e =>
      match fh_clunk (wst w) (f_h e) with
      | Some s' => (set_sess (set_store w s') s (ft_del t fid), Ok RNone)
      | None => (w, Hang)
      end
  end.

Definition sess_remove (w : world) (s : nat) (fid : N) : world * res out :=
  let t := sess_of w s in
  match ft_get t fid with
  | None => (w, Err e_unknownfid)
  | Some e =>
      match fh_remove (wst w) (f_h e) with
      | (Some s', None) => (set_sess (set_store w s') s (ft_del t fid), Ok RNone)
      | (Some s', Some er) => (set_sess (set_store w s') s (ft_del t fid), Err er)
      | (None, _) => (w, Hang)
      end
  end.

Definition sess_walk (w : world) (s : nat) (fid newfid : N) (names : list bstr) : world * res out :=
  let t := sess_of w s in
  if valid_path names <? 0 then (w, Err e_nonnorm) else
  match get_ref t fid with
  | Err e => (w, Err e) | Panic => (w, Panic) | Hang => (w, Hang)
  | Ok ref =>
      if negb (newfid =? fid)%N && ((newfid =? NOFID)%N) then (w, Err e_unknownfid) else
      if negb (newfid =? fid)%N && (match ft_get t newfid with Some _ => true | None => false end) then (w, Err e_dupfid) else
      if is_nil names && (newfid =? fid)%N then (w, Ok (RQids [])) else
      if negb (is_nil names) && negb (is_dir_qid (ent_info w (f_h ref))) then (w, Err e_notdir) else
      match fh_walk (wst w) (f_h ref) names with
      | Err e => (w, Err e) | Panic => (w, Panic) | Hang => (w, Hang)
      | Ok (qids, oh, s1) =>
          match oh with
          | None => (w, Ok (RQids qids))
          | Some h2 =>
              if negb (length qids =? length names)%nat then (w, Ok (RQids qids)) else
              if (newfid =? fid)%N then
                match fh_clunk s1 (f_h ref) with
                | Some s2 => (set_sess (set_store w s2) s (ft_set t fid (mkFid h2 None 0)), Ok (RQids qids))
                | None => (w, Hang)
                end
              else (set_sess (set_store w s1) s (t ++ [(newfid, mkFid h2 None 0)]), Ok (RQids qids))
          end
      end
  end.

Definition open_handle (w : world) (h : handle) : res ofile :=
  if is_dir_qid (ent_info w h) then
    dirs <- fh_opendir (wst w) h ;; Ok (ODir dirs 0)
  else Ok (OFile (h_ent h)).

Definition sess_open (w : world) (s : nat) (fid : N) (mode : N) : world * res out :=
  let t := sess_of w s in
  match get_ref t fid with
  | Err e => (w, Err e) | Panic => (w, Panic) | Hang => (w, Hang)
  | Ok ref =>
      match f_file ref with
      | Some _ => (w, Err e_alreadyopen)
      | None =>
          match open_handle w (f_h ref) with
          | Ok f => (set_sess w s (ft_set t fid (mkFid (f_h ref) (Some f) mode)), Ok (RQid (qid_of (ent_info w (f_h ref)))))
          | Err e => (w, Err e) | Panic => (w, Panic) | Hang => (w, Hang)
          end
      end
  end.

Definition sess_create (w : world) (s : nat) (fid : N) (name : bstr) (perm mode : N) : world * res out :=
  let t := sess_of w s in
  if is_dot name || is_dotdot name then (w, Err e_illegal) else
  match get_ref t fid with
  | Err _ => (w, Err e_c_unknownfid) | Panic => (w, Panic) | Hang => (w, Hang)
  | Ok ref =>
      if negb (is_dir_qid (ent_info w (f_h ref))) then (w, Err e_createnondir) else
      match fh_create (w_srv w) (f_h ref) name perm with
      | (f1, Err e) => (mkW f1 (w_sess w), Err (if bstr_eqb e e_invalidpath then e_c_invalidpath else e))
      | (f1, Panic) => (w, Panic) | (f1, Hang) => (w, Hang)
      | (f1, Ok h2) =>
          let w1 := mkW f1 (w_sess w) in
          match open_handle w1 h2 with
          | Ok f => (set_sess w1 s (ft_set t fid (mkFid h2 (Some f) mode)), Ok (RQid (qid_of (ent_info w1 h2))))
          | _ =>               (* OpenDir of the new directory failed: the fid is unbound, the new entry released *)
              match fh_clunk (wst w1) h2 with
              | Some s2 => (set_sess (set_store w1 s2) s (ft_del t fid), Err e_c_notdir)
              | None => (w1, Hang)
              end
          end
      end
  end.

Definition dir_size (i : info) : Z :=
  49 + zlen (i_name i) + zlen (i_uid i) + zlen (i_gid i) + zlen (i_muid i).

Fixpoint take_dirs (rest : list info) (room : Z) : list info * list info :=
  match rest with
  | [] => ([], [])
  | d :: r =>
      if dir_size d <=? room then
        let '(a, b) := take_dirs r (room - dir_size d) in (d :: a, b)
      else ([], rest)
  end.

Definition sess_read (w : world) (s : nat) (fid : N) (off : N) (count : N) : world * res out :=
  let t := sess_of w s in
  match get_ref t fid with
  | Err e => (w, Err e) | Panic => (w, Panic) | Hang => (w, Hang)
  | Ok ref =>
      match f_file ref with
      | None => (w, Err e_nofile)
      | Some f =>
          if (N.land (f_mode ref) 3 =? 1)%N then (w, Err e_noread) else
          match f with
          | OFile x =>
              match ent_read (n_data (getn (wst w) x)) (Z.of_N count) (to_int64 off) with
              | Ok d => (w, Ok (RData d))
              | Err e => (w, Err e) | Panic => (w, Panic) | Hang => (w, Hang)
              end
          | ODir rest o =>
              if negb (o =? to_int64 off) then (w, Err e_badoffset) else
              let '(a, b) := take_dirs rest (Z.of_N count) in
              let o' := fold_left (fun acc d => acc + dir_size d) a o in
              (set_sess w s (ft_set t fid (mkFid (f_h ref) (Some (ODir b o')) (f_mode ref))), Ok (RDirs a))
          end
      end
  end.

Definition sess_write (w : world) (s : nat) (fid : N) (off : N) (p : list N) : world * res out :=
  let t := sess_of w s in
  match get_ref t fid with
  | Err e => (w, Err e) | Panic => (w, Panic) | Hang => (w, Hang)
  | Ok ref =>
      match f_file ref with
      | None => (w, Err e_nofile)
      | Some f =>
          let m := N.land (f_mode ref) 3 in
          if negb (m =? 1)%N && negb (m =? 2)%N then (w, Err e_nowrite) else
          match f with
          | OFile x =>
              match node_write (getn (wst w) x) p (to_int64 off) with
              | Ok n' => (set_store w (setn (wst w) x n'), Ok (RCount (zlen p)))
              | Err e => (w, Err e) | Panic => (w, Panic) | Hang => (w, Hang)
              end
          | ODir _ _ => (w, Err e_invalid)
          end
      end
  end.

Definition sess_stat (w : world) (s : nat) (fid : N) : world * res out :=
  match get_ref (sess_of w s) fid with
  | Err e => (w, Err e) | Panic => (w, Panic) | Hang => (w, Hang)
  | Ok ref => (w, Ok (RStat (ent_info w (f_h ref))))
  end.

Definition sess_wstat (w : world) (s : nat) (fid : N) (mode : N) (uid gid name : bstr) (len : N) : world * res out :=
  match get_ref (sess_of w s) fid with
  | Err e => (w, Err e) | Panic => (w, Panic) | Hang => (w, Hang)
  | Ok ref =>
      let x := h_ent (f_h ref) in
      match node_wstat (getn (wst w) x) mode uid gid name len with
      | Ok (n', None) => (set_store w (setn (wst w) x n'), Ok RNone)
      | Ok (n', Some e) => (set_store w (setn (wst w) x n'), Err e)
      | Err e => (w, Err e) | Panic => (w, Panic) | Hang => (w, Hang)
      end
  end.

(* ---- the verif hook VerifRefTable: reachable nodes with nref and link count ---- *)

Definition join_path (p nm : bstr) : bstr :=
  match p with
  | [c] => if (c =? SLASH)%N then p ++ nm else p ++ SLASH :: nm
  | _ => p ++ SLASH :: nm
  end.

Fixpoint reach (fuel : nat) (s : store) (x : nat) (path : bstr) : list (nat * bstr) :=
  match fuel with
  | O => []
  | S fuel =>
      (x, path) ::
      match n_children (getn s x) with
      | None => []
      | Some cs => flat_map (fun c => reach fuel s (snd c) (join_path path (fst c))) cs
      end
  end.

Definition ref_table (s : store) : list (bstr * Z * Z * bool * Z) :=
  let r := reach (S (length s)) s 0 [SLASH] in
  let linked := flat_map (fun xp => child_ids (getn s (fst xp))) r in
  map (fun xp =>
         let n := getn s (fst xp) in
         (snd xp, n_ref n,
          (if Nat.eqb (fst xp) 0 then 1 else 0) + Z.of_nat (count_occ Nat.eq_dec linked (fst xp)),
          is_dir_mode (n_info n), zlen (n_data n))) r.

(* nodes no longer reachable from the root (hook VerifEntRef.State): qid path, nref, number of children (-1: no map) *)
Definition gone_table (s : store) : list (N * Z * Z) :=
  let r := map fst (reach (S (length s)) s 0 [SLASH]) in
  flat_map (fun x =>
              if existsb (Nat.eqb x) r then []
              else let n := getn s x in
                   [(i_qpath (n_info n), n_ref n,
                     match n_children n with None => -1 | Some cs => zlen cs end)])
           (seq 0 (length s)).

(* ---- operations ---- *)

Inductive op :=
| OAttach (s : nat) (fid : N) (uname : bstr)
| OWalk (s : nat) (fid newfid : N) (names : list bstr)
| OCreate (s : nat) (fid : N) (name : bstr) (perm mode : N)
| OOpen (s : nat) (fid : N) (mode : N)
| ORead (s : nat) (fid : N) (off count : N)
| OWrite (s : nat) (fid : N) (off : N) (data : list N)
| OStat (s : nat) (fid : N)
| OWstat (s : nat) (fid : N) (mode : N) (uid gid name : bstr) (len : N)
| ORemove (s : nat) (fid : N)
| OClunk (s : nat) (fid : N)
| ORefTable.

Definition op_sess (o : op) : nat :=
  match o with
  | OAttach s _ _ | OWalk s _ _ _ | OCreate s _ _ _ _ | OOpen s _ _ | ORead s _ _ _ | OWrite s _ _ _
  | OStat s _ | OWstat s _ _ _ _ _ _ | ORemove s _ | OClunk s _ => s
  | ORefTable => O
  end.

Definition step (w : world) (o : op) : world * res out :=
  if negb (op_sess o <? length (w_sess w))%nat then (w, Err e_nosess) else
  match o with
  | OAttach s fid u => sess_attach w s fid u
  | OWalk s fid nf names => sess_walk w s fid nf names
  | OCreate s fid nm perm mode => sess_create w s fid nm perm mode
  | OOpen s fid mode => sess_open w s fid mode
  | ORead s fid off cnt => sess_read w s fid off cnt
  | OWrite s fid off d => sess_write w s fid off d
  | OStat s fid => sess_stat w s fid
  | OWstat s fid mode uid gid nm len => sess_wstat w s fid mode uid gid nm len
  | ORemove s fid => sess_remove w s fid
  | OClunk s fid => sess_clunk w s fid
  | ORefTable => (w, Ok (RTab (ref_table (wst w)) (gone_table (wst w))))
  end.

Definition root_node : node :=
  mkNode 1 (Some []) (new_info 1 [SLASH] (str "root"%string) (N.lor DMDIR 509)) [].

Definition init_world (nsess : nat) : world := mkW (mkSrv 1 [root_node]) (repeat [] nsess).

(* run: observations in order; a panic (or hang) ends the run - the server process is gone *)
Fixpoint run (w : world) (ops : list op) : list (res out) :=
  match ops with
  | [] => []
  | o :: r =>
      let '(w', x) := step w o in
      match x with
      | Panic | Hang => [x]
      | _ => x :: run w' r
      end
  end.

Fixpoint run_world (w : world) (ops : list op) : world :=
  match ops with
  | [] => w
  | o :: r => run_world (fst (step w o)) r
  end.
