(* Model of /repo/version.go: servernegotiate and clientnegotiate over the
   channel model.  own/proposed are the channel's msize before the handshake. *)
From Coq Require Import List NArith ZArith Bool.
From P9 Require Import Base.Res Base.Bytes Model.WireTypes Model.Spec9P Model.Wire Model.Channel.
Import ListNotations.
Open Scope N_scope.

Definition NOTAG : N := 65535.
Definition V9P2000 : bytes := [57; 80; 50; 48; 48; 48].

Fixpoint bytes_eqb (a b : bytes) : bool :=
  match a, b with
  | [], [] => true
  | x :: a', y :: b' => (x =? y) && bytes_eqb a' b'
  | _, _ => false
  end.

(* servernegotiate: bytes written, accepted?, msize afterwards *)
Definition server_handshake (own : N) (s : bytes) : bytes * bool * N :=
  match read_fcall own [] s with
  | (RMsg f, _, _) =>
      if fc_type f =? T_Tversion then
        match fc_fields f with
        | [VF (FInt _ c); VF (FStr _)] =>
            let m' := if c <? own then c else own in
            let resp := {| fc_type := T_Rversion; fc_tag := NOTAG;
                           fc_fields := [VF (FInt 4 m'); VF (FStr V9P2000)] |} in
            match write_fcall m' true resp with
            | (out, WSent) => (out, true, m')
            | (out, _) => (out, false, m')
            end
        | _ => ([], false, own)
        end
      else ([], false, own)
  | _ => ([], false, own)
  end.

(* clientnegotiate: bytes written, then given the server's byte stream: accepted?, msize afterwards *)
Definition client_request (proposed : N) : bytes * write_res :=
  write_fcall proposed true {| fc_type := T_Tversion; fc_tag := NOTAG;
                               fc_fields := [VF (FInt 4 (proposed mod M32)); VF (FStr V9P2000)] |}.

Definition client_handshake (proposed : N) (reply : bytes) : bytes * bool * N :=
  match client_request proposed with
  | (out, WSent) =>
      match read_fcall proposed [] reply with
      | (RMsg f, _, _) =>
          if fc_type f =? T_Rversion then
            match fc_fields f with
            | [VF (FInt _ sm); VF (FStr v)] =>
                if bytes_eqb v V9P2000 then (out, true, if sm <? proposed then sm else proposed)
                else (out, false, proposed)
            | _ => (out, false, proposed)
            end
          else (out, false, proposed)
      | _ => (out, false, proposed)
      end
  | (out, _) => (out, false, proposed)
  end.
