(* C09 - a session served over a connection.  Executable model of the two
   dispatch layers (csession.go: method call -> T-message, R-message ->
   results; ssesssion.go sessionHandler.Handle: T-message -> session call,
   results -> R-message) as INTERPRETERS of the tables the translator reads
   off the current source (Gen/GenDispatch.v, Gen/GenWire.v), plus the hand
   models of the pieces that are not tables: channel.maybeTruncate,
   newErrorFcall, the Rerror branch of transport.send.  Definitions only. *)
From Coq Require Import List NArith ZArith Bool String.
From P9 Require Import Base.Res Model.WireTypes Gen.GenWire Gen.GenDispatch.
Import ListNotations.
Open Scope Z_scope.

(* ------------------------------------------------------------------ values *)

(* a Dir field as Go sees it: a time.Time has seconds and nanoseconds *)
Inductive dval := DF (f : fval) | DTime (sec nsec : Z).

(* Go-level values: method parameters and results *)
Inductive gval :=
| GInt (z : Z)                 (* any Go integer; the tables say how it is converted *)
| GStr (s : list N)
| GBytes (d : list N)          (* []byte whose contents matter (Write's p) *)
| GBuf (n : Z)                 (* []byte of length n used as an out-parameter (Read's p) *)
| GStrs (l : list (list N))
| GQid (q : qid)
| GQids (l : list qid)
| GDir (fs : list dval).

(* a 9P message without its tag: type byte, struct fields in struct order *)
Definition message := (N * list val)%type.

Inductive gerr :=
| ENil
| ERerror (ename : list N)     (* a MessageRerror value; compared by Ename *)
| EPlain (text : list N)       (* any other error value of the served session, by Error() *)
| EEof                         (* io.EOF *)
| EShortWrite                  (* io.ErrShortWrite *)
| EOverflow (n : Z)            (* overflowErr{n}: the message did not fit msize, nothing was sent *)
| EClosed.                     (* the connection was torn down *)

(* what a call produces: the results before the error, the bytes stored into
   the []byte out-parameter (Read), the error *)
Record outcome := { o_vals : list gval; o_out : list N; o_err : gerr }.

Definition illtyped {A} : res A := Err [105%N; 108%N; 108%N].   (* "ill": a table that no compiling source can produce *)

(* ------------------------------------------------------------ conversions *)

Definition wrap (c : dconv) (z : Z) : Z :=
  match c with
  | DWrap bits sg =>
      let m := 2 ^ Z.of_N bits in
      let r := z mod m in
      if sg && (m / 2 <=? r) then r - m else r
  end.
Definition wraps (cs : list dconv) (z : Z) : Z := fold_left (fun a c => wrap c a) cs z.

Definition conv_g (cs : list dconv) (g : gval) : res gval :=
  match cs, g with
  | [], _ => Ok g
  | _, GInt z => Ok (GInt (wraps cs z))
  | _, _ => illtyped
  end.

Definition zlen {A} (l : list A) : Z := Z.of_nat (List.length l).

Definition glen (g : gval) : option Z :=
  match g with
  | GBytes d => Some (zlen d) | GBuf n => Some n | GStr s => Some (zlen s)
  | GStrs l => Some (zlen l) | GQids l => Some (zlen l) | _ => None
  end.

(* uint32(t.Unix()) in the encoder; time.Unix(int64(epoch), 0) in the decoder *)
Definition wire_of_dval (d : dval) : fval :=
  match d with DF f => f | DTime s _ => FTime (s mod 2 ^ 32) end.
Definition dval_of_wire (f : fval) : dval :=
  match f with FTime t => DTime t 0 | _ => DF f end.

Definition to_wire (k : kind) (g : gval) : res val :=
  match k, g with
  | KInt w, GInt z => Ok (VF (FInt w (Z.to_N z)))
  | KStr, GStr s => Ok (VF (FStr s))
  | KData, GBytes d => Ok (VF (FData d))
  | KData, GBuf n => Ok (VF (FData (repeat 0%N (Z.to_nat n))))   (* a fresh buffer is all zeros *)
  | KStrs, GStrs l => Ok (VF (FStrs l))
  | KQid, GQid q => Ok (VF (FQid q))
  | KQids, GQids l => Ok (VF (FQids l))
  | KDir, GDir fs => Ok (VDir (map wire_of_dval fs))
  | _, _ => illtyped
  end.

Definition from_wire (v : val) : gval :=
  match v with
  | VF (FInt _ n) => GInt (Z.of_N n)
  | VF (FStr s) => GStr s
  | VF (FData d) => GBytes d
  | VF (FStrs l) => GStrs l
  | VF (FQid q) => GQid q
  | VF (FQids l) => GQids l
  | VF (FTime t) => GInt t
  | VDir fs => GDir (map dval_of_wire fs)
  end.

(* zero values.  time.Time{}.Unix() = -62135596800 *)
Definition zero_unix : Z := -62135596800.
Definition zero_qid : qid := {| q_type := 0; q_vers := 0; q_path := 0 |}.
Definition zero_fval (k : kind) : fval :=
  match k with
  | KInt w => FInt w 0 | KStr => FStr [] | KData => FData [] | KStrs => FStrs []
  | KQid => FQid zero_qid | KQids => FQids [] | KTime => FTime (zero_unix mod 2 ^ 32)
  | KDir => FStr []
  end.
Definition zero_val (k : kind) : val :=
  match k with
  | KDir => VDir (map (fun fk => zero_fval (snd fk)) gen_dir_fields)
  | _ => VF (zero_fval k)
  end.
Definition zero_dval (k : kind) : dval :=
  match k with KTime => DTime zero_unix 0 | _ => DF (zero_fval k) end.
Definition zero_g (k : gkind) : gval :=
  match k with
  | GKInt _ _ => GInt 0 | GKStr => GStr [] | GKBytes => GBytes [] | GKStrs => GStrs []
  | GKQid => GQid zero_qid | GKQids => GQids []
  | GKDir => GDir (map (fun fk => zero_dval (snd fk)) gen_dir_fields)
  end.

(* ----------------------------------------------------------- table access *)

Fixpoint assoc {A} (k : string) (l : list (string * A)) : option A :=
  match l with
  | [] => None
  | (k', a) :: r => if String.eqb k k' then Some a else assoc k r
  end.

Definition struct_of (name : string) : option (N * list (string * kind)) :=
  match find (fun e => String.eqb (fst (snd e)) name) gen_msg_table with
  | Some (t, (_, fs)) => Some (t, fs)
  | None => None
  end.
Definition struct_of_type (t : N) : option (string * list (string * kind)) :=
  match find (fun e => N.eqb (fst e) t) gen_msg_table with
  | Some (_, nf) => Some nf
  | None => None
  end.
Definition type_of (name : string) : N :=
  match struct_of name with Some (t, _) => t | None => 0%N end.

Fixpoint get_field (fs : list (string * kind)) (vs : list val) (f : string) : option val :=
  match fs, vs with
  | (n, _) :: fr, v :: vr => if String.eqb n f then Some v else get_field fr vr f
  | _, _ => None
  end.
Fixpoint set_field (fs : list (string * kind)) (vs : list val) (f : string) (x : val) : list val :=
  match fs, vs with
  | (n, _) :: fr, v :: vr => if String.eqb n f then x :: vr else v :: set_field fr vr f x
  | _, _ => vs
  end.

Definition err_ename (name : string) : list N :=
  match assoc name gen_errors with Some e => e | None => [] end.

Definition find_client (name : string) : option cmethod :=
  find (fun m => String.eqb (cm_name m) name) gen_client.
Definition find_server (msgname : string) : option scase :=
  find (fun c => String.eqb (sc_msg c) msgname) gen_server.

(* ---------------------------------------------------- client: csession.go *)

Definition zero_outcome (m : cmethod) (e : gerr) : outcome :=
  {| o_vals := map zero_g (cm_results m); o_out := []; o_err := e |}.

Inductive sent := NotSent (o : outcome) | Sent (m : message).

Definition eval_csrc (args : list gval) (s : csrc) : res gval :=
  match s with
  | CParam i cs => match nth_error args i with Some g => conv_g cs g | None => illtyped end
  | CLen i cs =>
      match nth_error args i with
      | Some g => match glen g with Some n => Ok (GInt (wraps cs n)) | None => illtyped end
      | None => illtyped
      end
  end.

(* a keyed composite literal: the fields named in it get their expression,
   every other field of the struct its zero value *)
Fixpoint build_fields {S} (fs : list (string * kind)) (lit : list (string * S)) (ev : S -> res gval) : res (list val) :=
  match fs with
  | [] => Ok []
  | (f, k) :: r =>
      v <- match assoc f lit with
           | Some s => g <- ev s ;; to_wire k g
           | None => Ok (zero_val k)
           end ;;
      vs <- build_fields r lit ev ;;
      Ok (v :: vs)
  end.

Fixpoint first_guard (args : list gval) (gs : list cguard) : option string :=
  match gs with
  | [] => None
  | g :: r =>
      match nth_error args (cg_param g) with
      | Some a => match glen a with
                  | Some n => if Z.of_N (cg_maxlen g) <? n then Some (cg_err g) else first_guard args r
                  | None => first_guard args r
                  end
      | None => first_guard args r
      end
  end.

Definition client_req (m : cmethod) (args : list gval) : res sent :=
  match first_guard args (cm_guards m) with
  | Some e => Ok (NotSent (zero_outcome m (ERerror (err_ename e))))
  | None =>
      match struct_of (cm_req m) with
      | Some (t, fs) => vs <- build_fields fs (cm_fields m) (eval_csrc args) ;; Ok (Sent (t, vs))
      | None => illtyped
      end
  end.

Definition rerror_type : N := type_of "MessageRerror".

Definition field_g (fs : list (string * kind)) (vs : list val) (f : string) (cs : list dconv) : res gval :=
  match get_field fs vs f with Some v => conv_g cs (from_wire v) | None => illtyped end.

Definition field_len (fs : list (string * kind)) (vs : list val) (f : string) : Z :=
  match get_field fs vs f with
  | Some v => match glen (from_wire v) with Some n => n | None => 0 end
  | None => 0
  end.
Definition field_bytes (fs : list (string * kind)) (vs : list val) (f : string) : list N :=
  match get_field fs vs f with Some (VF (FData d)) => d | _ => [] end.
Definition arg_len (args : list gval) (i : nat) : Z :=
  match nth_error args i with Some g => match glen g with Some n => n | None => 0 end | None => 0 end.

Definition eval_cres (args : list gval) (fs : list (string * kind)) (vs : list val) (r : cres) : res gval :=
  match r with
  | CRField f cs => field_g fs vs f cs
  | CRCopy p f => Ok (GInt (Z.min (arg_len args p) (field_len fs vs f)))
  end.

Fixpoint eval_all {A B} (f : A -> res B) (l : list A) : res (list B) :=
  match l with
  | [] => Ok []
  | a :: r => b <- f a ;; bs <- eval_all f r ;; Ok (b :: bs)
  end.

Definition copied_out (args : list gval) (fs : list (string * kind)) (vs : list val) (rs : list cres) : list N :=
  match find (fun r => match r with CRCopy _ _ => true | _ => false end) rs with
  | Some (CRCopy p f) => firstn (Z.to_nat (Z.min (arg_len args p) (field_len fs vs f))) (field_bytes fs vs f)
  | _ => []
  end.

Definition eval_cerr (args : list gval) (fs : list (string * kind)) (vs : list val) (e : cerr) : gerr :=
  match e with
  | CENil => ENil
  | CEEofIfEmpty f => if field_len fs vs f =? 0 then EEof else ENil
  | CEShortIfLess f cs p =>
      match field_g fs vs f cs with
      | Ok (GInt n) => if n <? arg_len args p then EShortWrite else ENil
      | _ => ENil
      end
  end.

(* transport.send's Rerror branch, then the method's type assertion and unpacking *)
Definition client_result (m : cmethod) (args : list gval) (reply : message) : res outcome :=
  let '(t, vs) := reply in
  if N.eqb t rerror_type then
    Ok (zero_outcome m (ERerror (match vs with [VF (FStr e)] => e | _ => [] end)))
  else
    match struct_of (cm_rep m) with
    | Some (rt, fs) =>
        if N.eqb t rt then
          vals <- eval_all (eval_cres args fs vs) (cm_res m) ;;
          Ok {| o_vals := vals; o_out := copied_out args fs vs (cm_res m); o_err := eval_cerr args fs vs (cm_err m) |}
        else Ok (zero_outcome m (ERerror (err_ename (cm_unexpected m))))
    | None => illtyped
    end.

(* ------------------------------------- channel.go: maybeTruncate (by hand) *)

Definition sumZ (l : list Z) : Z := fold_right Z.add 0 l.

Definition fval_size (f : fval) : Z :=
  match f with
  | FInt w _ => Z.of_N w
  | FStr s => 2 + zlen s
  | FData d => 4 + zlen d
  | FStrs l => 2 + sumZ (map (fun s => 2 + zlen s) l)
  | FQid _ => 13
  | FQids l => 2 + 13 * zlen l
  | FTime _ => 4
  end.
Definition val_size (v : val) : Z :=
  match v with VF f => fval_size f | VDir fs => 2 + sumZ (map fval_size fs) end.

Definition has_stat_prefix (t : N) : bool :=
  N.eqb t (type_of "MessageRstat") || N.eqb t (type_of "MessageTwstat").

(* msgmsize: 4 (frame size) + type[1] tag[2] + fields (+2 for the doubled stat size) *)
Definition msg_size (m : message) : Z :=
  4 + 3 + (if has_stat_prefix (fst m) then 2 else 0) + sumZ (map val_size (snd m)).

Definition rread_overhead : Z := msg_size (type_of "MessageRread", [VF (FData [])]).

(* overflow := uint32(msgmsize(Rread{})) + msg.Count - uint32(msize); if Count < overflow keep, else Count -= overflow *)
Definition tread_clamp (msize count : Z) : Z :=
  let overflow := (rread_overhead + count - msize mod 2 ^ 32) mod 2 ^ 32 in
  if count <? overflow then count else count - overflow.

(* inl: the (possibly rewritten) message goes on; inr n: overflowErr{n} *)
Definition chan_truncate (msize : Z) (m : message) : message + Z :=
  let '(t, vs) := m in
  match struct_of_type t with
  | None => if msize <? msg_size m then inr (msg_size m - msize) else inl m
  | Some (name, fs) =>
      if String.eqb name "MessageTread" then
        match get_field fs vs "Count" with
        | Some (VF (FInt w n)) => inl (t, set_field fs vs "Count" (VF (FInt w (Z.to_N (tread_clamp msize (Z.of_N n))))))
        | _ => inl m
        end
      else if String.eqb name "MessageTwrite" then
        if msg_size m <=? msize then inl m
        else
          let ov := msg_size m - msize in
          match get_field fs vs "Data" with
          | Some (VF (FData d)) =>
              if zlen d <? ov then inr ov
              else inl (t, set_field fs vs "Data" (VF (FData (firstn (Z.to_nat (zlen d - ov)) d))))
          | _ => inr ov
          end
      else if msize <? msg_size m then inr (msg_size m - msize) else inl m
  end.

(* --------------------------------- server: ssesssion.go sessionHandler.Handle *)

Inductive scall :=
| SCall (c : scase) (args : list gval)     (* session.<sc_method c>(ctx, args…) *)
| SNoCall (e : gerr).                       (* default arm: error without a session call *)

Definition eval_ssrc (smsize : Z) (fs : list (string * kind)) (vs : list val) (s : ssrc) : res gval :=
  match s with
  | SField f cs => field_g fs vs f cs
  | SSpread f => field_g fs vs f []
  | SBuf f sub =>
      match get_field fs vs f with
      | Some (VF (FInt _ n)) =>
          let c := Z.of_N n in
          Ok (GBuf (if smsize - sub <? c then Z.max 0 (smsize - sub) else c))
      | _ => illtyped
      end
  end.

Definition server_call (smsize : Z) (m : message) : res scall :=
  let '(t, vs) := m in
  match struct_of_type t with
  | None => Ok (SNoCall (ERerror (err_ename gen_server_default_err)))
  | Some (name, fs) =>
      match find_server name with
      | None => Ok (SNoCall (ERerror (err_ename gen_server_default_err)))
      | Some c => args <- eval_all (eval_ssrc smsize fs vs) (sc_args c) ;; Ok (SCall c args)
      end
  end.

(* p[:n] after the session stored [out] at the start of p *)
Definition slice_out (out : list N) (n plen : Z) : res (list N) :=
  if (0 <=? n) && (n <=? plen) then
    Ok (firstn (Z.to_nat n) out ++ repeat 0%N (Z.to_nat n - List.length out))%list
  else Panic.

Definition eval_srep (args : list gval) (o : outcome) (s : srep) : res gval :=
  match s with
  | SRRes i cs => match nth_error (o_vals o) i with Some g => conv_g cs g | None => illtyped end
  | SRSlice a i =>
      match nth_error args a, nth_error (o_vals o) i with
      | Some (GBuf plen), Some (GInt n) => d <- slice_out (o_out o) n plen ;; Ok (GBytes d)
      | _, _ => illtyped
      end
  end.

Definition str_eof : list N := [69; 79; 70]%N.                                   (* "EOF" *)
Definition str_short : list N := [115; 104; 111; 114; 116; 32; 119; 114; 105; 116; 101]%N.  (* "short write" *)

(* newErrorFcall: a MessageRerror goes as it is, any other error by its Error() text *)
Definition wire_ename (e : gerr) : list N :=
  match e with
  | ERerror n => n | EPlain t => t | EEof => str_eof | EShortWrite => str_short
  | _ => []
  end.

Definition server_reply (c : scase) (args : list gval) (o : outcome) : res message :=
  match o_err o with
  | ENil =>
      match struct_of (sc_rep c) with
      | Some (t, fs) => vs <- build_fields fs (sc_rfields c) (eval_srep args o) ;; Ok (t, vs)
      | None => illtyped
      end
  | e => Ok (rerror_type, [VF (FStr (wire_ename e))])
  end.

(* ------------------------------------------------ the whole path of a call *)

(* the served session: what it answers to a call it receives *)
Definition session := string -> list gval -> outcome.

Record observed := { ob_recv : option (string * list gval); ob_got : res outcome }.

Section Path.
  (* what the connection does to a frame (codec + framing); the identity in
     the executable model, a hypothesis of the theorems *)
  Variable transfer : message -> res message.

  Definition deliver_reply (msize : Z) (m : cmethod) (args : list gval) (reply : message) : res outcome :=
    match chan_truncate msize reply with
    | inr _ => Ok (zero_outcome m EClosed)       (* the server cannot send it: it closes the connection *)
    | inl r1 =>
        r2 <- transfer r1 ;;
        match chan_truncate msize r2 with
        | inr _ => Ok (zero_outcome m EClosed)
        | inl r3 => client_result m args r3
        end
    end.

  (* what reaches the session: the request as the server hands it to Handle *)
  Definition request_path (msize smsize : Z) (m : cmethod) (args : list gval) : res (sent + scall) :=
    s <- client_req m args ;;
    match s with
    | NotSent o => Ok (inl (NotSent o))
    | Sent q =>
        match chan_truncate msize q with
        | inr n => Ok (inl (NotSent (zero_outcome m (EOverflow n))))
        | inl q1 =>
            q2 <- transfer q1 ;;
            match chan_truncate msize q2 with
            | inr n => Ok (inl (NotSent (zero_outcome m EClosed)))
            | inl q3 => c <- server_call smsize q3 ;; Ok (inr c)
            end
        end
    end.

  Definition roundtrip (msize smsize : Z) (m : cmethod) (args : list gval) (S : session) : observed :=
    match request_path msize smsize m args with
    | Ok (inl (NotSent o)) => {| ob_recv := None; ob_got := Ok o |}
    | Ok (inl (Sent _)) => {| ob_recv := None; ob_got := illtyped |}
    | Ok (inr (SNoCall e)) =>
        {| ob_recv := None; ob_got := deliver_reply msize m args (rerror_type, [VF (FStr (wire_ename e))]) |}
    | Ok (inr (SCall c sargs)) =>
        let o := S (sc_method c) sargs in
        {| ob_recv := Some (sc_method c, sargs);
           ob_got := reply <- server_reply c sargs o ;; deliver_reply msize m args reply |}
    | Err e => {| ob_recv := None; ob_got := Err e |}
    | Panic => {| ob_recv := None; ob_got := Panic |}
    | Hang => {| ob_recv := None; ob_got := Hang |}
    end.
End Path.

Definition transfer_id (m : message) : res message := Ok m.
