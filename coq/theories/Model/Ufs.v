(* Model of /repo/ufs (filesys.go, dirent.go, util.go) as driven through
   /repo/sfilesys.go (the session's fid table, Walk's ValidPath filter, Create's
   name filter, openLocked, delRef).

   Part 1: the path part - the Go string functions by which ufs builds every
           path it hands to the host (fServer.fullPath, FileRef.fullPath,
           path.Dir, WStat's rename target, Remove's root test) and oflags.
   Part 2: the operations, written ONCE over
             - an arbitrary host  [hc : H -> hcall -> H * hresult]  (HostFS.v), and
             - a "translation layer" [ualg P]: how internal paths of type P are
               built, validated and mapped to host paths, and how 9P open modes /
               permissions map to host flags.
           [impl_alg base] is the layer as the Go code has it (P = Go string, the
           functions of Part 1 and of Model/Path.v); [spec_alg bcomps] is the
           layer the properties mean (P = list of path components, stepwise
           resolution, the flag table of open(5)).  C15 is an invariant of the
           operations under [impl_alg]; C19 says both layers give the same run
           on every host.

   Executable definitions only; lemmas are in Proofs/UfsProofs*.v. *)
From Coq Require Import List NArith ZArith Bool.
From P9 Require Import Base.Res Model.Path Model.HostFS Gen.GenConsts.
Import ListNotations.
Open Scope N_scope.

(* ================= Part 1: paths and flags as the Go code computes them ================= *)

Definition has_bslash (p : bstr) : bool := existsb (fun c => c =? BSLASH) p.

(* filepath.Join(base, filepath.FromSlash(p)) on Linux: FromSlash is the identity,
   filepath.Join drops empty elements, joins with "/" and Cleans - as path.Join *)
Definition fp_join (base p : bstr) : bstr := path_join [base; p].

(* fServer.fullPath *)
Definition fs_fullpath (base p : bstr) : option bstr :=
  if negb (path_is_abs p) || has_bslash p then None
  else if negb (bstr_eqb (path_clean p) p) then None
  else Some (fp_join base p).

(* FileRef.fullPath: no validation *)
Definition ref_fullpath (base p : bstr) : bstr := fp_join base p.

(* path.Dir: Clean of everything up to and including the last slash *)
Fixpoint drop_to_slash (r : bstr) : bstr :=
  match r with [] => [] | c :: t => if c =? SLASH then r else drop_to_slash t end.
Definition path_dir (p : bstr) : bstr := path_clean (rev (drop_to_slash (rev p))).

(* WStat: the new internal path, exactly as written:
     var rel string
     if path.IsAbs(dir.Name) { rel = path.Clean(rel) }          -- Clean("") = "."
     else { rel = path.Join(path.Dir(ref.Path), dir.Name) }                        *)
Definition ufs_rename_rel (p name : bstr) : bstr :=
  if path_is_abs name then path_clean [] else path_join [path_dir p; name].

(* Remove: ref.Path == "/" || ref.Path == "\\" *)
Definition ufs_is_root (p : bstr) : bool := bstr_eqb p [SLASH] || bstr_eqb p [BSLASH].

(* util.go oflags: switch on mode&3, then the OTRUNC bit; O_CREATE is or-ed in by Create *)
Definition ufs_oflags (mode : N) : oflag :=
  let m3 := N.land mode 3 in
  let acc :=
    if m3 =? c_OREAD then RDONLY
    else if m3 =? c_ORDWR then RDWR
    else if m3 =? c_OWRITE then WRONLY
    else if m3 =? c_OEXEC then RDONLY
    else RDONLY (* flags stays 0 = O_RDONLY *) in
  {| of_acc := acc; of_trunc := negb (N.land mode c_OTRUNC =? 0); of_creat := false |}.

Definition with_creat (f : oflag) : oflag := {| of_acc := of_acc f; of_trunc := of_trunc f; of_creat := true |}.

(* res -> option, keeping Panic apart *)
Definition walk_name_go (dir : bstr) (names : list bstr) : res bstr := walk_name dir names.

(* ================= Part 2: the operations ================= *)

Record ualg (P : Type) := {
  ua_root : P;                               (* Attach: newRef("/") *)
  ua_names_ok : list bstr -> bool;           (* session Walk: ValidPath(names) >= 0 *)
  ua_create_ok : bstr -> bool;               (* session Create: name is neither "." nor ".." *)
  ua_fullpath : P -> option bstr;            (* fServer.fullPath: validate + host path *)
  ua_hostpath : P -> bstr;                   (* FileRef.fullPath: host path, unvalidated *)
  ua_walk : P -> list bstr -> res P;         (* p9p.WalkName *)
  ua_create : P -> bstr -> res P;            (* p9p.CreateName *)
  ua_rename : P -> bstr -> option P;         (* WStat's rel, before fullPath sees it *)
  ua_is_root : P -> bool;                    (* Remove's root test *)
  ua_oflags : N -> oflag;                    (* oflags *)
  ua_perm : N -> N                           (* perm & 0777 *)
}.
Arguments ua_root {P}. Arguments ua_names_ok {P}. Arguments ua_create_ok {P}.
Arguments ua_fullpath {P}. Arguments ua_hostpath {P}. Arguments ua_walk {P}.
Arguments ua_create {P}. Arguments ua_rename {P}. Arguments ua_is_root {P}.
Arguments ua_oflags {P}. Arguments ua_perm {P}.

Definition impl_alg (base : bstr) : ualg bstr := {|
  ua_root := [SLASH];
  ua_names_ok := fun ns => negb (Z.ltb (valid_path ns) 0);
  ua_create_ok := fun s => negb (is_dot s || is_dotdot s);
  ua_fullpath := fs_fullpath base;
  ua_hostpath := ref_fullpath base;
  ua_walk := walk_name;
  ua_create := create_name;
  ua_rename := fun p name => Some (ufs_rename_rel p name);
  ua_is_root := ufs_is_root;
  ua_oflags := ufs_oflags;
  ua_perm := fun perm => N.land perm 511
|}.

(* ---- the layer the properties mean: internal paths are component lists ---- *)

Definition render (comps : list bstr) : bstr := SLASH :: join_slash comps.

(* a component of a canonical internal path *)
Definition goodb (c : bstr) : bool :=
  negb (is_empty c) && negb (is_dot c) && negb (is_dotdot c) && negb (has_sep c).

(* the names the session lets through to Walk: safe names, ".." only as a leading run *)
Fixpoint names_okb (lead : bool) (ns : list bstr) : bool :=
  match ns with
  | [] => true
  | s :: r =>
      if is_dotdot s then lead && names_okb true r
      else goodb s && names_okb false r
  end.

(* stepwise resolution of validated names from a directory; Err when it would climb above the root *)
Fixpoint resolve_names (dir : list bstr) (ns : list bstr) : res (list bstr) :=
  match ns with
  | [] => Ok dir
  | s :: r =>
      if is_dotdot s then match dir with [] => Err [] | _ => resolve_names (removelast dir) r end
      else resolve_names (dir ++ [s]) r
  end.

(* lenient resolution of a relative slash-separated name (rename): "" and "." are
   skipped, ".." goes up and stays at the root *)
Fixpoint resolve_rel (dir : list bstr) (cs : list bstr) : list bstr :=
  match cs with
  | [] => dir
  | s :: r =>
      if is_empty s || is_dot s then resolve_rel dir r
      else if is_dotdot s then resolve_rel (removelast dir) r
      else resolve_rel (dir ++ [s]) r
  end.

(* open(5): the low two bits select the access, 0x10 truncates *)
Definition spec_oflags (mode : N) : oflag :=
  {| of_acc := match N.to_nat (mode mod 4) with
               | 0%nat => RDONLY | 1%nat => WRONLY | 2%nat => RDWR | _ => RDONLY end;
     of_trunc := N.testbit mode 4;
     of_creat := false |}.

Definition spec_alg (bcomps : list bstr) : ualg (list bstr) := {|
  ua_root := [];
  ua_names_ok := names_okb true;
  ua_create_ok := fun s => negb (is_dot s || is_dotdot s);
  ua_fullpath := fun cs => if forallb goodb cs then Some (render (bcomps ++ cs)) else None;
  ua_hostpath := fun cs => render (bcomps ++ cs);
  ua_walk := resolve_names;
  ua_create := fun cs s => if goodb s then Ok (cs ++ [s]) else Err [];
  ua_rename := fun cs name =>
    if path_is_abs name then None else Some (resolve_rel (removelast cs) (split_slash name));
  ua_is_root := fun cs => match cs with [] => true | _ => false end;
  ua_oflags := spec_oflags;
  ua_perm := fun perm => perm mod 512
|}.

(* ---- session + ufs state ---- *)

Section Ops.
  Context {H P : Type}.
  Variable hc : H -> hcall -> H * hresult.
  Variable A : ualg P.

  (* ufs.FileRef: Path, the Info cached by newRef, the os.File stored by Open/Create *)
  Record fref := { fr_path : P; fr_info : hinfo; fr_fd : option N }.
  (* SFid.File: nil | the Readdir over OpenDir's listing (what is left of it) | a FileRef
     (its os.File, nil when Create fell out of an empty switch arm) *)
  Inductive sfile := SFnone | SFdir (rest : list hinfo) | SFfile (fd : option N).
  Record sfid := { sf_ent : fref; sf_file : sfile; sf_mode : N }.

  Record ust := {
    u_host : H;
    u_fids : list (N * sfid);
    u_log : list hcall;      (* every host call made so far, latest first *)
    u_stuck : bool           (* a session call never returned (self-deadlock) or panicked *)
  }.

  Inductive obs :=
  | ObErr | ObOk
  | ObQid (isdir : bool)                  (* Attach, Open, Create *)
  | ObWalk (nq : nat) (isdir : bool)      (* Walk: number of qids, type of the last *)
  | ObData (d : list N) | ObCount (n : N)
  | ObInfo (i : hinfo) | ObList (l : list hinfo)
  | ObHang | ObPanic | ObUnmodelled.

  Inductive op :=
  | OpAttach (fid : N)
  | OpWalk (fid newfid : N) (names : list bstr)
  | OpOpen (fid : N) (mode : N)
  | OpCreate (fid : N) (name : bstr) (perm : N) (mode : N)
  | OpRead (fid : N) (count : N) (off : Z)
  | OpWrite (fid : N) (data : list N) (off : Z)
  | OpStat (fid : N)
  | OpWstat (fid : N) (name : bstr) (mode : N) (len : N) (uid gid : bstr)
  | OpClunk (fid : N)
  | OpRemove (fid : N)
  | OpReadDir (fid : N).     (* read the whole remaining stream of a fid opened on a directory *)

  Definition call (s : ust) (c : hcall) : ust * hresult :=
    let '(h, r) := hc (u_host s) c in
    ({| u_host := h; u_fids := u_fids s; u_log := c :: u_log s; u_stuck := u_stuck s |}, r).

  Definition set_fids (s : ust) (t : list (N * sfid)) : ust :=
    {| u_host := u_host s; u_fids := t; u_log := u_log s; u_stuck := u_stuck s |}.
  Definition set_stuck (s : ust) : ust :=
    {| u_host := u_host s; u_fids := u_fids s; u_log := u_log s; u_stuck := true |}.

  Fixpoint fid_del (fid : N) (t : list (N * sfid)) : list (N * sfid) :=
    match t with [] => [] | (k, v) :: r => if fid =? k then fid_del fid r else (k, v) :: fid_del fid r end.
  Definition fid_set (fid : N) (v : sfid) (t : list (N * sfid)) : list (N * sfid) := (fid, v) :: fid_del fid t.
  Definition fid_get (fid : N) (t : list (N * sfid)) : option sfid := nassoc fid t.

  (* session.getRef *)
  Definition get_ref (s : ust) (fid : N) : option sfid :=
    if fid =? c_NOFID then None else fid_get fid (u_fids s).
  (* session.newRef: may this fid be bound? *)
  Definition fid_free (s : ust) (fid : N) : bool :=
    negb (fid =? c_NOFID) && match fid_get fid (u_fids s) with None => true | Some _ => false end.

  (* fServer.newRef *)
  Definition new_ref (s : ust) (p : P) : ust * option fref :=
    match ua_fullpath A p with
    | None => (s, None)
    | Some hp =>
        let '(s1, r) := call s (HStat hp) in
        match r with
        | RInfo i => (s1, Some {| fr_path := p; fr_info := i; fr_fd := None |})
        | _ => (s1, None)
        end
    end.

  (* FileRef.Clunk *)
  Definition ent_clunk (s : ust) (e : fref) : ust * bool :=
    match fr_fd e with
    | Some fd => let '(s1, r) := call s (HClose fd) in (s1, match r with RDone => true | _ => false end)
    | None => (s, true)
    end.

  (* FileRef.OpenDir *)
  Definition ent_opendir (s : ust) (e : fref) : ust * option (list hinfo) :=
    if negb (hi_dir (fr_info e)) then (s, None)
    else let '(s1, r) := call s (HReadDir (ua_hostpath A (fr_path e))) in
         match r with RList l => (s1, Some l) | _ => (s1, None) end.

  Definition is_dir (e : fref) : bool := hi_dir (fr_info e).

  Definition do_attach (s : ust) (fid : N) : ust * obs :=
    if negb (fid_free s fid) then (s, ObErr)
    else match new_ref s (ua_root A) with
         | (s1, Some e) =>
             (set_fids s1 (fid_set fid {| sf_ent := e; sf_file := SFnone; sf_mode := 0 |} (u_fids s1)), ObQid (is_dir e))
         | (s1, None) => (s1, ObErr)
         end.

  Definition do_walk (s : ust) (fid newfid : N) (names : list bstr) : ust * obs :=
    if negb (ua_names_ok A names) then (s, ObErr)
    else match get_ref s fid with
    | None => (s, ObErr)
    | Some r =>
        if negb (newfid =? fid) && negb (fid_free s newfid) then (s, ObErr)
        else match names with
        | [] =>
            if newfid =? fid then (s, ObWalk 0 false)
            else match new_ref s (fr_path (sf_ent r)) with
                 | (s1, Some e) =>
                     (set_fids s1 (fid_set newfid {| sf_ent := e; sf_file := SFnone; sf_mode := 0 |} (u_fids s1)),
                      ObWalk 0 false)
                 | (s1, None) => (s1, ObErr)
                 end
        | _ =>
            if negb (is_dir (sf_ent r)) then (s, ObErr)
            else match ua_walk A (fr_path (sf_ent r)) names with
            | Ok q =>
                match new_ref s q with
                | (s1, Some e) =>
                    if newfid =? fid then
                      (* ref.Ent.Clunk(ctx), error ignored; then File = nil, Mode = 0 *)
                      let '(s2, _) := ent_clunk s1 (sf_ent r) in
                      (set_fids s2 (fid_set fid {| sf_ent := e; sf_file := SFnone; sf_mode := 0 |} (u_fids s2)),
                       ObWalk (length names) (is_dir e))
                    else
                      (set_fids s1 (fid_set newfid {| sf_ent := e; sf_file := SFnone; sf_mode := 0 |} (u_fids s1)),
                       ObWalk (length names) (is_dir e))
                | (s1, None) => (s1, ObErr)
                end
            | Err _ => (s, ObErr)
            | Panic => (set_stuck s, ObPanic)
            | Hang => (set_stuck s, ObHang)
            end
        end
    end.

  Definition do_open (s : ust) (fid : N) (mode : N) : ust * obs :=
    match get_ref s fid with
    | None => (s, ObErr)
    | Some r =>
        match sf_file r with
        | SFnone =>
            if is_dir (sf_ent r) then
              match ent_opendir s (sf_ent r) with
              | (s1, Some l) =>
                  (set_fids s1 (fid_set fid {| sf_ent := sf_ent r; sf_file := SFdir l; sf_mode := mode |} (u_fids s1)), ObQid true)
              | (s1, None) => (s1, ObErr)
              end
            else
              let '(s1, res) := call s (HOpen (ua_hostpath A (fr_path (sf_ent r))) (ua_oflags A mode) 0) in
              match res with
              | RFd fd =>
                  let e := {| fr_path := fr_path (sf_ent r); fr_info := fr_info (sf_ent r); fr_fd := Some fd |} in
                  (set_fids s1 (fid_set fid {| sf_ent := e; sf_file := SFfile (Some fd); sf_mode := mode |} (u_fids s1)), ObQid false)
              | _ => (s1, ObErr)
              end
        | _ => (s, ObErr)    (* already open *)
        end
    end.

  (* what FileRef.Create does on the host before newRef: the switch over perm *)
  Inductive created := CrFail | CrNothing | CrFd (fd : N).
  Definition create_switch (s : ust) (hp : bstr) (perm mode : N) : ust * created :=
    if negb (N.land perm c_DMDIR =? 0) then
      let '(s1, r) := call s (HMkdir hp (ua_perm A perm)) in
      (s1, match r with RDone => CrNothing | _ => CrFail end)
    else if negb (N.land perm c_DMSYMLINK =? 0) then (s, CrNothing)     (* empty case arm: err == nil *)
    else if negb (N.land perm c_DMNAMEDPIPE =? 0) then (s, CrNothing)   (* empty case arm *)
    else if negb (N.land perm c_DMDEVICE =? 0) then (s, CrFail)         (* "not implemented" *)
    else
      let '(s1, r) := call s (HOpen hp (with_creat (ua_oflags A mode)) (ua_perm A perm)) in
      (s1, match r with RFd fd => CrFd fd | _ => CrFail end).

  Definition do_create (s : ust) (fid : N) (name : bstr) (perm mode : N) : ust * obs :=
    if negb (ua_create_ok A name) then (s, ObErr)
    else match get_ref s fid with
    | None => (s, ObErr)
    | Some r =>
        if negb (is_dir (sf_ent r)) then (s, ObErr)
        else match ua_create A (fr_path (sf_ent r)) name with
        | Ok q =>
            match ua_fullpath A q with
            | None => (s, ObErr)
            | Some hp =>
                match create_switch s hp perm mode with
                | (s1, CrFail) => (s1, ObErr)
                | (s1, cr) =>
                    let fdo := match cr with CrFd fd => Some fd | _ => None end in
                    match new_ref s1 q with
                    | (s2, None) =>
                        match fdo with
                        | Some fd => let '(s3, _) := call s2 (HClose fd) in (s3, ObErr)
                        | None => (s2, ObErr)
                        end
                    | (s2, Some e0) =>
                        let e := {| fr_path := fr_path e0; fr_info := fr_info e0; fr_fd := fdo |} in
                        if is_dir e then
                          (* session: openLocked on a fresh SFid -> OpenDir *)
                          match ent_opendir s2 e with
                          | (s3, Some l) =>
                              (set_fids s3 (fid_set fid {| sf_ent := e; sf_file := SFdir l; sf_mode := mode |} (u_fids s3)), ObQid true)
                          | (s3, None) =>
                              (* the fid is unbound and the new entry clunked (delRefAction) *)
                              let '(s4, _) := ent_clunk s3 e in
                              (set_fids s4 (fid_del fid (u_fids s4)), ObErr)
                          end
                        else
                          (set_fids s2 (fid_set fid {| sf_ent := e; sf_file := SFfile fdo; sf_mode := mode |} (u_fids s2)), ObQid false)
                    end
                end
            end
        | Err _ => (s, ObErr)
        | Panic => (set_stuck s, ObPanic)
        | Hang => (set_stuck s, ObHang)
        end
    end.

  Definition do_read (s : ust) (fid : N) (count : N) (off : Z) : ust * obs :=
    match get_ref s fid with
    | None => (s, ObErr)
    | Some r =>
        match sf_file r with
        | SFnone => (s, ObErr)
        | SFdir _ => (s, ObUnmodelled)            (* Readdir.Read by byte offsets: C17; see OpReadDir *)
        | SFfile fdo =>
            if N.land (sf_mode r) c_OEXEC =? c_OWRITE then (s, ObErr)
            else match fdo with
            | Some fd =>
                let '(s1, res) := call s (HPread fd count off) in
                (s1, match res with RData d => ObData d | _ => ObErr end)
            | None => (s, ObErr)                  (* nil os.File: ErrInvalid *)
            end
        end
    end.

  Definition do_readdir (s : ust) (fid : N) : ust * obs :=
    match get_ref s fid with
    | None => (s, ObErr)
    | Some r =>
        match sf_file r with
        | SFdir rest =>
            if N.land (sf_mode r) c_OEXEC =? c_OWRITE then (s, ObErr)
            else (set_fids s (fid_set fid {| sf_ent := sf_ent r; sf_file := SFdir []; sf_mode := sf_mode r |} (u_fids s)),
                  ObList rest)
        | _ => (s, ObUnmodelled)
        end
    end.

  Definition do_write (s : ust) (fid : N) (data : list N) (off : Z) : ust * obs :=
    match get_ref s fid with
    | None => (s, ObErr)
    | Some r =>
        match sf_file r with
        | SFnone => (s, ObErr)
        | f =>
            let m := N.land (sf_mode r) c_OEXEC in
            if negb (m =? c_OWRITE) && negb (m =? c_ORDWR) then (s, ObErr)
            else match f with
            | SFfile (Some fd) =>
                let '(s1, res) := call s (HPwrite fd data off) in
                (s1, match res with RCount n => ObCount n | _ => ObErr end)
            | _ => (s, ObErr)                     (* nil *os.File; Readdir.Write: "invalid" *)
            end
        end
    end.

  Definition do_stat (s : ust) (fid : N) : ust * obs :=
    match get_ref s fid with
    | None => (s, ObErr)
    | Some r => (s, ObInfo (fr_info (sf_ent r)))
    end.

  Definition NOCHANGE32 : N := 4294967295.
  Definition NOCHANGE64 : N := 18446744073709551615.
  (* int64(dir.Length) *)
  Definition int64_of (n : N) : Z := if n <? 9223372036854775808 then Z.of_N n else (Z.of_N n - 18446744073709551616)%Z.

  (* WStat's rename: rel as the code computes it, then fs.fullPath(rel) *)
  Definition rename_target (p : P) (name : bstr) : option (P * bstr) :=
    match ua_rename A p name with
    | None => None
    | Some rel => match ua_fullpath A rel with None => None | Some hp => Some (rel, hp) end
    end.

  (* FileRef.WStat: chmod -> chown (after the two lookups) -> rename -> truncate,
     stopping at the first failure; the new path takes effect only after a successful rename *)
  Definition ent_wstat (s : ust) (e : fref) (name : bstr) (mode len : N) (uid gid : bstr) : ust * fref * bool :=
    let hp := ua_hostpath A (fr_path e) in
    let '(s1, ok1) :=
      if mode =? NOCHANGE32 then (s, true)
      else let '(s', r) := call s (HChmod hp (ua_perm A mode)) in (s', match r with RDone => true | _ => false end) in
    if negb ok1 then (s1, e, false) else
    let '(s2, ok2) :=
      if is_empty uid && is_empty gid then (s1, true)
      else let '(sa, ru) := call s1 (HLookupUser uid) in
           match ru with
           | RCount u =>
               let '(sb, rg) := call sa (HLookupGroup gid) in
               match rg with
               | RCount g => let '(sc, r) := call sb (HChown hp u g) in (sc, match r with RDone => true | _ => false end)
               | _ => (sb, false)
               end
           | _ => (sa, false)
           end in
    if negb ok2 then (s2, e, false) else
    let '(s3, e3, ok3) :=
      if is_empty name then (s2, e, true)
      else match rename_target (fr_path e) name with
           | None => (s2, e, false)
           | Some (rel, newhp) =>
               let '(s', r) := call s2 (HRename hp newhp) in
               match r with
               | RDone => (s', {| fr_path := rel; fr_info := fr_info e; fr_fd := fr_fd e |}, true)
               | _ => (s', e, false)
               end
           end in
    if negb ok3 then (s3, e3, false) else
    if len =? NOCHANGE64 then (s3, e3, true)
    else let '(s4, r) := call s3 (HTruncate (ua_hostpath A (fr_path e3)) (int64_of len)) in
         (s4, e3, match r with RDone => true | _ => false end).

  Definition do_wstat (s : ust) (fid : N) (name : bstr) (mode len : N) (uid gid : bstr) : ust * obs :=
    match get_ref s fid with
    | None => (s, ObErr)
    | Some r =>
        let '(s1, e, ok) := ent_wstat s (sf_ent r) name mode len uid gid in
        (set_fids s1 (fid_set fid {| sf_ent := e; sf_file := sf_file r; sf_mode := sf_mode r |} (u_fids s1)),
         if ok then ObOk else ObErr)
    end.

  (* session.delRef: the fid leaves the table whatever Clunk/Remove answer *)
  Definition do_clunk (s : ust) (fid : N) : ust * obs :=
    match fid_get fid (u_fids s) with
    | None => (s, ObErr)
    | Some r =>
        let '(s1, ok) := ent_clunk s (sf_ent r) in
        (set_fids s1 (fid_del fid (u_fids s1)), if ok then ObOk else ObErr)
    end.

  Definition do_remove (s : ust) (fid : N) : ust * obs :=
    match fid_get fid (u_fids s) with
    | None => (s, ObErr)
    | Some r =>
        let '(s1, _) := ent_clunk s (sf_ent r) in
        let s2 := set_fids s1 (fid_del fid (u_fids s1)) in
        if ua_is_root A (fr_path (sf_ent r)) then (s2, ObErr)      (* "cannot remove root" *)
        else let '(s3, res) := call s2 (HRemove (ua_hostpath A (fr_path (sf_ent r)))) in
             (s3, match res with RDone => ObOk | _ => ObErr end)
    end.

  Definition step (s : ust) (o : op) : ust * obs :=
    if u_stuck s then (s, ObHang)
    else match o with
    | OpAttach fid => do_attach s fid
    | OpWalk fid newfid names => do_walk s fid newfid names
    | OpOpen fid mode => do_open s fid mode
    | OpCreate fid name perm mode => do_create s fid name perm mode
    | OpRead fid count off => do_read s fid count off
    | OpWrite fid data off => do_write s fid data off
    | OpStat fid => do_stat s fid
    | OpWstat fid name mode len uid gid => do_wstat s fid name mode len uid gid
    | OpClunk fid => do_clunk s fid
    | OpRemove fid => do_remove s fid
    | OpReadDir fid => do_readdir s fid
    end.

  Fixpoint run (s : ust) (ops : list op) : ust * list obs :=
    match ops with
    | [] => (s, [])
    | o :: r => let '(s1, ob) := step s o in let '(s2, obs) := run s1 r in (s2, ob :: obs)
    end.

  Definition init (h : H) : ust := {| u_host := h; u_fids := []; u_log := []; u_stuck := false |}.
End Ops.

Arguments fref : clear implicits.
Arguments sfid : clear implicits.
Arguments ust : clear implicits.
