(* Model of /repo/cfilesys.go: the client file-system layer (CFileSys) over a Session.

   The session is the environment: every operation issues at most one session call, and
   the answer to that call is an explicit argument (a script), never an axiom.  A small
   abstract server (the set of bound fids, changed by (call, answer) pairs as 9P
   prescribes: attach binds fid on success, walk binds newfid iff it is complete, clunk
   and remove unbind; the table is read as a set, so binding a bound fid changes nothing) is composed with the client for the claims about server fids.
   Executable definitions only; lemmas are in Proofs/CfsProofs.v.

   Walk is modelled AFTER the repair of defect D12 (completion test against the
   normalised steps, not the caller's names). *)
From Coq Require Import List NArith ZArith Bool.
From P9 Require Import Base.Res Model.Path.
Import ListNotations.
Open Scope N_scope.

Definition NOFID : N := 4294967295.
Definition QTDIR : N := 128.
Definition OREAD : N := 0.

(* Qid{Type, Version, Path} *)
Definition qid := (N * N * N)%type.
Definition qid0 : qid := (0, 0, 0).
Definition qid_type (q : qid) : N := fst (fst q).

Record cEnt := { c_fid : N; c_qid : qid }.
Definition noEnt : cEnt := {| c_fid := NOFID; c_qid := qid0 |}.
(* IsDir(ent): Qid().Type & QTDIR != 0 *)
Definition is_dir (e : cEnt) : bool := negb (N.land (qid_type (c_qid e)) QTDIR =? 0).

(* newFid: increments (uint32), then returns *)
Definition new_fid (next : N) : N := (next + 1) mod 2 ^ 32.

(* ---- session calls and their scripted answers ---- *)
Inductive scall :=
| SAttach (fid afid : N) (uname aname : bstr)
| SWalk (fid newfid : N) (names : list bstr)
| SOpen (fid mode : N)
| SCreate (fid : N) (name : bstr) (perm mode : N)
| SStat (fid : N)
| SWStat (fid : N) (dir : list N)
| SClunk (fid : N)
| SRemove (fid : N)
| SAuth (afid : N) (uname aname : bstr)
| SRead (fid count : N) (off : Z)
| SWrite (fid : N) (data : list N) (off : Z).

Inductive sres :=
| AQid (q : qid)                 (* Attach *)
| AWalk (qids : list qid)        (* Walk *)
| AOpen (q : qid) (iounit : N)   (* Open, Create; iounit is a uint32 *)
| AStat (d : list N)             (* Stat *)
| AUnit                          (* WStat, Clunk, Remove *)
| ARead (d : list N)             (* Read: the bytes put into p *)
| AWritten (n : N)               (* Write *)
| AErr.                          (* the call returned an error *)

(* ---- what the caller gets back ---- *)
Inductive cres :=
| CEnt (e : cEnt)                        (* Attach: the root entry *)
| CWalk (qids : list qid) (e : cEnt)     (* Walk: success *)
| CPartial (qids : list qid)             (* Walk: Warning "Incomplete walk result", noEnt *)
| CInvalid                               (* Walk: invalid path; error, the entry itself is handed back, no call *)
| CFile (e : cEnt) (iounit : Z)          (* Open / Create's file: fileRef{ent, iounit} *)
| CDir                                   (* OpenDir: an iterator *)
| CCreated (e : cEnt) (iounit : Z)       (* Create: the entry (same fid, new qid) and its file *)
| CStat (d : list N)
| CUnit
| CAuth (afid : N) (iounit : Z)          (* Auth: aFile{session, afid}; IOUnit() = msize - 11 *)
| CRead (d : list N)
| CWritten (n : N)
| CErr                                   (* the session's error, passed on *)
| CRefused                               (* refused locally, without a session call *)
| CPanic.

(* the AuthFile argument of Attach *)
Inductive afile := AfNil | AfFile (afid : N) | AfOther.

Inductive op :=
| OAttach (uname aname : bstr) (af : afile)
| OWalk (e : cEnt) (names : list bstr)
| OOpen (e : cEnt) (mode : N)
| OOpenDir (e : cEnt)
| OCreate (e : cEnt) (name : bstr) (perm mode : N)
| OStat (e : cEnt)
| OWStat (e : cEnt) (dir : list N)
| OClunk (e : cEnt)
| ORemove (e : cEnt)
(* the auth file: obtained from Auth, identified by its afid (noAuth: NOFID, no session) *)
| OAuth (uname aname : bstr)
| OARead (afid count : N) (off : Z)
| OAWrite (afid : N) (data : list N) (off : Z)
| OAClose (afid : N).

(* iou := int(iounit); if iounit < 1 { iou = msize - 11 } *)
Definition io_unit (msize : Z) (iounit : N) : Z :=
  if iounit <? 1 then (msize - 11)%Z else Z.of_N iounit.

(* strings.Contains(name, "/\\"): the two-character substring slash-backslash *)
Fixpoint contains_slash_bslash (s : bstr) : bool :=
  match s with
  | a :: ((b :: _) as r) => ((a =? SLASH) && (b =? BSLASH)) || contains_slash_bslash r
  | _ => false
  end.
Definition create_name_refused (name : bstr) : bool :=
  is_empty name || is_dot name || is_dotdot name || contains_slash_bslash name.

Definition last_qid (qids : list qid) (dflt : qid) : qid := last qids dflt.

(* One operation of the layer.  next = fs.nextfid, msize = session.Version()'s msize,
   ans = the answer of the session to the call this operation issues (ignored if none).
   Returns (call issued, result, fs.nextfid afterwards). *)
Definition do_op (msize : Z) (next : N) (o : op) (ans : sres) : option scall * cres * N :=
  match o with
  | OAttach uname aname af =>
      let root := new_fid next in                 (* consumed before anything can fail *)
      match af with
      | AfOther => (None, CErr, root)             (* not an aFile: ErrUnknownfid *)
      | _ =>
          let afid := match af with AfFile a => a | _ => NOFID end in
          (Some (SAttach root afid uname aname),
           match ans with AQid q => CEnt {| c_fid := root; c_qid := q |} | _ => CErr end,
           root)
      end
  | OWalk e names =>
      let '(steps, bsp) := normalize_path names in
      if Z.ltb bsp 0 then (None, CInvalid, next)
      else
        let nf := new_fid next in                 (* newEnt(): a fid is consumed even if the walk fails *)
        (Some (SWalk (c_fid e) nf steps),
         match ans with
         | AWalk qids =>
             if Nat.eqb (length qids) (length steps)
             then CWalk qids {| c_fid := nf; c_qid := last_qid qids (c_qid e) |}
             else CPartial qids
         | _ => CErr
         end,
         nf)
  | OOpen e mode =>
      (Some (SOpen (c_fid e) mode),
       match ans with AOpen _ iou => CFile e (io_unit msize iou) | _ => CErr end, next)
  | OOpenDir e =>
      (Some (SOpen (c_fid e) OREAD),
       match ans with
       | AOpen _ iou => if Z.ltb (io_unit msize iou) 0 then CPanic (* make([]byte, negative) *) else CDir
       | _ => CErr
       end, next)
  | OCreate e name perm mode =>
      if create_name_refused name then (None, CRefused, next)
      else if negb (is_dir e) then (None, CRefused, next)
      else
        (Some (SCreate (c_fid e) name perm mode),
         match ans with
         | AOpen q iou => CCreated {| c_fid := c_fid e; c_qid := q |} (io_unit msize iou)
         | _ => CErr
         end, next)
  | OStat e => (Some (SStat (c_fid e)), match ans with AStat d => CStat d | _ => CErr end, next)
  | OWStat e d => (Some (SWStat (c_fid e) d), match ans with AUnit => CUnit | _ => CErr end, next)
  | OClunk e => (Some (SClunk (c_fid e)), match ans with AUnit => CUnit | _ => CErr end, next)
  | ORemove e => (Some (SRemove (c_fid e)), match ans with AUnit => CUnit | _ => CErr end, next)
  | OAuth uname aname =>
      let a := new_fid next in                    (* taken whether or not the server accepts *)
      (Some (SAuth a uname aname),
       match ans with AQid _ => CAuth a (msize - 11)%Z | _ => CErr end, a)
  | OARead afid count off =>
      (Some (SRead afid count off), match ans with ARead d => CRead d | _ => CErr end, next)
  | OAWrite afid data off =>
      (Some (SWrite afid data off), match ans with AWritten n => CWritten n | _ => CErr end, next)
  | OAClose afid =>
      (* after the repair: Close clunks the afid; noAuth (no session) has nothing to let go of *)
      if afid =? NOFID then (None, CUnit, next)
      else (Some (SClunk afid), match ans with AUnit => CUnit | _ => CErr end, next)
  end.

(* ---- the abstract server: which fids are bound ---- *)
Definition unbind (f : N) (srv : list N) : list N := filter (fun x => negb (x =? f)) srv.

Definition srv_step (srv : list N) (c : option scall) (ans : sres) : list N :=
  match c with
  | Some (SAttach fid _ _ _) => match ans with AQid _ => fid :: srv | _ => srv end
  | Some (SWalk fid newfid names) =>
      match ans with
      | AWalk qids => if Nat.eqb (length qids) (length names) then newfid :: srv else srv
      | _ => srv
      end
  | Some (SAuth afid _ _) => match ans with AQid _ => afid :: srv | _ => srv end   (* held as an auth fid *)
  | Some (SClunk fid) => unbind fid srv      (* the fid is gone whatever the answer *)
  | Some (SRemove fid) => unbind fid srv
  | _ => srv
  end.

(* ---- the caller's bookkeeping: the objects obtained that hold a fid - entries not yet clunked
        or removed, auth files not yet closed (recorded as an entry-shaped pair of afid and the
        zero qid) ---- *)
Definition live_step (live : list cEnt) (o : op) (r : cres) : list cEnt :=
  match o, r with
  | OAttach _ _ _, CEnt e => e :: live
  | OWalk _ _, CWalk _ e => e :: live
  | OCreate e0 _ _ _, CCreated e _ =>   (* the fid now stands for the created file: the entry supersedes e0 *)
      map (fun x => if c_fid x =? c_fid e0 then e else x) live
  | OClunk e, _ => filter (fun x => negb (c_fid x =? c_fid e)) live
  | ORemove e, _ => filter (fun x => negb (c_fid x =? c_fid e)) live
  | OAuth _ _, CAuth a _ => {| c_fid := a; c_qid := qid0 |} :: live   (* an auth file holds a fid too *)
  | OAClose a, _ => if a =? NOFID then live else filter (fun x => negb (c_fid x =? a)) live
  | _, _ => live
  end.

Record sys := { s_next : N; s_live : list cEnt; s_srv : list N }.
Definition sys0 : sys := {| s_next := 0; s_live := []; s_srv := [] |}.

Definition step (msize : Z) (st : sys) (o : op) (ans : sres) : sys * option scall * cres :=
  let '(c, r, next') := do_op msize (s_next st) o ans in
  ({| s_next := next'; s_live := live_step (s_live st) o r; s_srv := srv_step (s_srv st) c ans |}, c, r).

Fixpoint run (msize : Z) (st : sys) (ops : list (op * sres)) : sys :=
  match ops with
  | [] => st
  | (o, a) :: r => run msize (fst (fst (step msize st o a))) r
  end.
