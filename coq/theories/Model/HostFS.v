(* Abstract POSIX host file system for C15/C19 (the kernel side of /repo/ufs).

   Two parts:
   1. the INTERFACE through which the ufs model talks to a host: one call type
      [hcall] (the os/syscall functions ufs uses, with their arguments as the
      Go code passes them) and one result type [hresult].  The ufs model and
      the theorems about it are parametrised by an arbitrary
      [H -> hcall -> H * hresult]; nothing about the kernel is assumed there.
   2. a concrete executable instance [hcall_posix] over an inode table
      (files: 9 permission bits + bytes; directories; open descriptors refer to
      inodes, so they survive rename/unlink as on POSIX).  It stands in for
      Linux in the correspondence check (the process runs as root: permission
      bits are data, never denials) and is what "the kernel is replaced by
      HostFS.v" means in design/C19.md.  Only success/failure of a call is
      modelled, not the errno.

   Executable definitions only. *)
From Coq Require Import List NArith ZArith Bool.
From P9 Require Import Model.Path.
Import ListNotations.
Open Scope N_scope.

(* ---------- interface ---------- *)

Inductive accmode := RDONLY | WRONLY | RDWR.
(* the flag argument of os.OpenFile, as far as ufs can set it *)
Record oflag := { of_acc : accmode; of_trunc : bool; of_creat : bool }.

(* what ufs keeps of an os.FileInfo (dirFromInfo): name, directory bit, mode&0777, size *)
Record hinfo := { hi_name : bstr; hi_dir : bool; hi_mode : N; hi_size : N }.

Inductive hcall :=
| HStat (p : bstr)                               (* os.Stat *)
| HOpen (p : bstr) (fl : oflag) (perm : N)       (* os.OpenFile *)
| HMkdir (p : bstr) (perm : N)                   (* os.Mkdir *)
| HReadDir (p : bstr)                            (* os.ReadDir + entry.Info() *)
| HClose (fd : N)                                (* os.File Close *)
| HPread (fd : N) (n : N) (off : Z)              (* os.File ReadAt, EOF not an error *)
| HPwrite (fd : N) (data : list N) (off : Z)     (* os.File WriteAt *)
| HRemove (p : bstr)                             (* os.Remove *)
| HChmod (p : bstr) (mode : N)                   (* os.Chmod *)
| HLookupUser (name : bstr)                      (* user.Lookup + Atoi *)
| HLookupGroup (name : bstr)                     (* user.LookupGroup + Atoi *)
| HChown (p : bstr) (uid gid : N)                (* os.Chown *)
| HRename (a b : bstr)                           (* syscall.Rename *)
| HTruncate (p : bstr) (len : Z).                (* os.Truncate *)

Inductive hresult :=
| RErr | RDone
| RInfo (i : hinfo) | RFd (fd : N) | RList (l : list hinfo)
| RData (d : list N) | RCount (n : N).

(* the path arguments of a call: everything the call can make the kernel look at *)
Definition hcall_paths (c : hcall) : list bstr :=
  match c with
  | HStat p | HOpen p _ _ | HMkdir p _ | HReadDir p | HRemove p | HChmod p _
  | HChown p _ _ | HTruncate p _ => [p]
  | HRename a b => [a; b]
  | HClose _ | HPread _ _ _ | HPwrite _ _ _ | HLookupUser _ | HLookupGroup _ => []
  end.

(* ---------- concrete instance ---------- *)

Inductive inode :=
| IFile (mode : N) (data : list N)
| IDir (mode : N) (ents : list (bstr * N)).

Record fdesc := { fd_ino : N; fd_acc : accmode; fd_open : bool }.

Record host := {
  h_inodes : list (N * inode);
  h_next : N;                      (* next free inode number *)
  h_fds : list (N * fdesc);
  h_nextfd : N;
  h_umask : N
}.

Definition ROOT_INO : N := 1.

Fixpoint nassoc {A} (k : N) (l : list (N * A)) : option A :=
  match l with [] => None | (k', v) :: r => if k =? k' then Some v else nassoc k r end.
Fixpoint nupdate {A} (k : N) (v : A) (l : list (N * A)) : list (N * A) :=
  match l with
  | [] => [(k, v)]
  | (k', v') :: r => if k =? k' then (k, v) :: r else (k', v') :: nupdate k v r
  end.
Fixpoint sassoc {A} (k : bstr) (l : list (bstr * A)) : option A :=
  match l with [] => None | (k', v) :: r => if bstr_eqb k k' then Some v else sassoc k r end.
Fixpoint sremove {A} (k : bstr) (l : list (bstr * A)) : list (bstr * A) :=
  match l with [] => [] | (k', v) :: r => if bstr_eqb k k' then sremove k r else (k', v) :: sremove k r end.

Definition with_inodes (h : host) (t : list (N * inode)) : host :=
  {| h_inodes := t; h_next := h_next h; h_fds := h_fds h; h_nextfd := h_nextfd h; h_umask := h_umask h |}.
Definition set_inode (h : host) (i : N) (n : inode) : host := with_inodes h (nupdate i n (h_inodes h)).

(* path strings as the kernel (and Go's syscall layer) sees them *)
Definition has_nul (p : bstr) : bool := existsb (fun c => c =? 0) p.
Definition NAME_MAX : nat := 255.
Definition PATH_MAX : nat := 4096.
Definition kcomps (p : bstr) : list bstr := filter (fun c => negb (is_empty c)) (split_slash p).
Definition comp_ok (c : bstr) : bool := Nat.leb (length c) NAME_MAX && negb (is_dot c) && negb (is_dotdot c).
(* absolute, no NUL (Go refuses it before the system call), below PATH_MAX, every component
   within NAME_MAX.  "." and ".." never reach the kernel from ufs (filepath.Join cleans);
   a path containing them is refused here rather than resolved. *)
Definition kpath (p : bstr) : option (list bstr) :=
  if path_is_abs p && negb (has_nul p) && Nat.ltb (length p) PATH_MAX && forallb comp_ok (kcomps p)
  then Some (kcomps p) else None.

Fixpoint walk_ino (t : list (N * inode)) (ino : N) (comps : list bstr) : option N :=
  match comps with
  | [] => Some ino
  | c :: r =>
      match nassoc ino t with
      | Some (IDir _ ents) => match sassoc c ents with Some i => walk_ino t i r | None => None end
      | _ => None
      end
  end.

Definition resolve (h : host) (p : bstr) : option N :=
  match kpath p with Some cs => walk_ino (h_inodes h) ROOT_INO cs | None => None end.

(* inode of the parent directory, its entries, and the last name; None for "/" *)
Definition resolve_parent (h : host) (p : bstr) : option (N * N * list (bstr * N) * bstr) :=
  match kpath p with
  | Some cs =>
      match rev cs with
      | [] => None
      | name :: _ =>
          match walk_ino (h_inodes h) ROOT_INO (removelast cs) with
          | Some d => match nassoc d (h_inodes h) with
                      | Some (IDir m ents) => Some (d, m, ents, name)
                      | _ => None
                      end
          | None => None
          end
      end
  | None => None
  end.

Definition base_name (p : bstr) : bstr :=
  match rev (kcomps p) with c :: _ => c | [] => [SLASH] end.

Definition info_of (name : bstr) (n : inode) : hinfo :=
  match n with
  | IFile m d => {| hi_name := name; hi_dir := false; hi_mode := m; hi_size := N.of_nat (length d) |}
  | IDir m _ => {| hi_name := name; hi_dir := true; hi_mode := m; hi_size := 0 |}
  end.

(* byte-wise string order, as sort.Slice in os.ReadDir *)
Fixpoint bstr_leb (a b : bstr) : bool :=
  match a, b with
  | [], _ => true
  | _ :: _, [] => false
  | x :: a', y :: b' => if x <? y then true else if y <? x then false else bstr_leb a' b'
  end.
Fixpoint insert_info (i : hinfo) (l : list hinfo) : list hinfo :=
  match l with
  | [] => [i]
  | j :: r => if bstr_leb (hi_name i) (hi_name j) then i :: l else j :: insert_info i r
  end.
Definition sort_infos (l : list hinfo) : list hinfo := fold_right insert_info [] l.
Fixpoint insert_ent (e : bstr * N) (l : list (bstr * N)) : list (bstr * N) :=
  match l with
  | [] => [e]
  | j :: r => if bstr_leb (fst e) (fst j) then e :: l else j :: insert_ent e r
  end.
Definition sort_ents (l : list (bstr * N)) : list (bstr * N) := fold_right insert_ent [] l.

Definition zeros (n : nat) : list N := repeat 0 n.
(* data with [d] written at offset [off] (holes are zero-filled) *)
Definition write_at (old d : list N) (off : nat) : list N :=
  let padded := old ++ zeros (off - length old) in
  firstn off padded ++ d ++ skipn (off + length d) padded.
Definition resize (old : list N) (n : nat) : list N := firstn n old ++ zeros (n - length old).

Definition apply_umask (h : host) (perm : N) : N := N.ldiff (N.land perm 511) (h_umask h).

Definition new_fd (h : host) (ino : N) (acc : accmode) : host * hresult :=
  ({| h_inodes := h_inodes h; h_next := h_next h;
      h_fds := (h_nextfd h, {| fd_ino := ino; fd_acc := acc; fd_open := true |}) :: h_fds h;
      h_nextfd := h_nextfd h + 1; h_umask := h_umask h |}, RFd (h_nextfd h)).

Definition new_inode (h : host) (d dm : N) (ents : list (bstr * N)) (name : bstr) (n : inode) : host * N :=
  let i := h_next h in
  ({| h_inodes := nupdate d (IDir dm (ents ++ [(name, i)])) (nupdate i n (h_inodes h));
      h_next := i + 1; h_fds := h_fds h; h_nextfd := h_nextfd h; h_umask := h_umask h |}, i).

Definition is_prefix (a b : list bstr) : bool :=
  (Nat.leb (length a) (length b)) && forallb (fun xy => bstr_eqb (fst xy) (snd xy)) (combine a b).

Definition h_open (h : host) (p : bstr) (fl : oflag) (perm : N) : host * hresult :=
  match resolve_parent h p with
  | None =>
      (* "/" itself: a directory *)
      match resolve h p with
      | Some i => if of_creat fl || of_trunc fl || negb match of_acc fl with RDONLY => true | _ => false end
                  then (h, RErr) else new_fd h i RDONLY
      | None => (h, RErr)
      end
  | Some (d, dm, ents, name) =>
      match sassoc name ents with
      | Some i =>
          match nassoc i (h_inodes h) with
          | Some (IDir _ _) =>
              if of_creat fl || of_trunc fl || negb match of_acc fl with RDONLY => true | _ => false end
              then (h, RErr) else new_fd h i RDONLY
          | Some (IFile m data) =>
              let h1 := if of_trunc fl then set_inode h i (IFile m []) else h in
              new_fd h1 i (of_acc fl)
          | None => (h, RErr)
          end
      | None =>
          if of_creat fl then
            let '(h1, i) := new_inode h d dm ents name (IFile (apply_umask h perm) []) in
            new_fd h1 i (of_acc fl)
          else (h, RErr)
      end
  end.

Definition h_rename (h : host) (a b : bstr) : host * hresult :=
  match resolve_parent h a, resolve_parent h b, kpath a, kpath b with
  | Some (da, dma, entsa, na), Some (db, dmb, entsb, nb), Some ca, Some cb =>
      match sassoc na entsa with
      | None => (h, RErr)
      | Some ia =>
          let tb := sassoc nb entsb in
          let same := match tb with Some t => t =? ia | None => false end in
          if same then (h, RDone)
          else
            let src_dir := match nassoc ia (h_inodes h) with Some (IDir _ _) => true | _ => false end in
            let tgt_ok :=
              match tb with
              | None => true
              | Some t =>
                  match nassoc t (h_inodes h) with
                  | Some (IDir _ []) => src_dir
                  | Some (IDir _ _) => false
                  | Some (IFile _ _) => negb src_dir
                  | None => false
                  end
              end in
            (* a directory cannot be moved into its own subtree (the tree has no links,
               so ancestry is a prefix test on the resolved component lists) *)
            if (src_dir && is_prefix ca cb) || negb tgt_ok then (h, RErr)
            else
              let h1 := set_inode h da (IDir dma (sremove na entsa)) in
              match nassoc db (h_inodes h1) with
              | Some (IDir m ents) => (set_inode h1 db (IDir m (sremove nb ents ++ [(nb, ia)])), RDone)
              | _ => (h, RErr)
              end
      end
  | _, _, _, _ => (h, RErr)
  end.

Definition known_user (name : bstr) : bool := bstr_eqb name [114; 111; 111; 116]. (* "root" *)

Definition hcall_posix (h : host) (c : hcall) : host * hresult :=
  match c with
  | HStat p =>
      match resolve h p with
      | Some i => match nassoc i (h_inodes h) with Some n => (h, RInfo (info_of (base_name p) n)) | None => (h, RErr) end
      | None => (h, RErr)
      end
  | HOpen p fl perm => h_open h p fl perm
  | HMkdir p perm =>
      match resolve_parent h p with
      | Some (d, dm, ents, name) =>
          match sassoc name ents with
          | Some _ => (h, RErr)
          | None => (fst (new_inode h d dm ents name (IDir (apply_umask h perm) [])), RDone)
          end
      | None => (h, RErr)
      end
  | HReadDir p =>
      match resolve h p with
      | Some i =>
          match nassoc i (h_inodes h) with
          | Some (IDir _ ents) =>
              (h, RList (sort_infos (flat_map (fun e => match nassoc (snd e) (h_inodes h) with
                                                      | Some n => [info_of (fst e) n] | None => [] end) ents)))
          | _ => (h, RErr)
          end
      | None => (h, RErr)
      end
  | HClose fd =>
      match nassoc fd (h_fds h) with
      | Some d => if fd_open d
                  then ({| h_inodes := h_inodes h; h_next := h_next h;
                           h_fds := nupdate fd {| fd_ino := fd_ino d; fd_acc := fd_acc d; fd_open := false |} (h_fds h);
                           h_nextfd := h_nextfd h; h_umask := h_umask h |}, RDone)
                  else (h, RErr)
      | None => (h, RErr)
      end
  | HPread fd n off =>
      if (off <? 0)%Z then (h, RErr)
      else if n =? 0 then (h, RData [])          (* ReadAt's loop does not run *)
      else match nassoc fd (h_fds h) with
           | Some d =>
               if negb (fd_open d) then (h, RErr)
               else match fd_acc d with
                    | WRONLY => (h, RErr)
                    | _ => match nassoc (fd_ino d) (h_inodes h) with
                           | Some (IFile _ data) => (h, RData (firstn (N.to_nat n) (skipn (Z.to_nat off) data)))
                           | _ => (h, RErr)
                           end
                    end
           | None => (h, RErr)
           end
  | HPwrite fd data off =>
      if (off <? 0)%Z then (h, RErr)
      else match data with
           | [] => (h, RCount 0)                 (* WriteAt's loop does not run *)
           | _ =>
               match nassoc fd (h_fds h) with
               | Some d =>
                   if negb (fd_open d) then (h, RErr)
                   else match fd_acc d with
                        | RDONLY => (h, RErr)
                        | _ => match nassoc (fd_ino d) (h_inodes h) with
                               | Some (IFile m old) =>
                                   (set_inode h (fd_ino d) (IFile m (write_at old data (Z.to_nat off))),
                                    RCount (N.of_nat (length data)))
                               | _ => (h, RErr)
                               end
                        end
               | None => (h, RErr)
               end
           end
  | HRemove p =>
      match resolve_parent h p with
      | Some (d, dm, ents, name) =>
          match sassoc name ents with
          | Some i =>
              match nassoc i (h_inodes h) with
              | Some (IDir _ (_ :: _)) => (h, RErr)
              | Some _ => (set_inode h d (IDir dm (sremove name ents)), RDone)
              | None => (h, RErr)
              end
          | None => (h, RErr)
          end
      | None => (h, RErr)
      end
  | HChmod p mode =>
      match resolve h p with
      | Some i =>
          match nassoc i (h_inodes h) with
          | Some (IFile _ d) => (set_inode h i (IFile (N.land mode 511) d), RDone)
          | Some (IDir _ e) => (set_inode h i (IDir (N.land mode 511) e), RDone)
          | None => (h, RErr)
          end
      | None => (h, RErr)
      end
  | HLookupUser name => if known_user name then (h, RCount 0) else (h, RErr)
  | HLookupGroup name => if known_user name then (h, RCount 0) else (h, RErr)
  | HChown p _ _ => match resolve h p with Some _ => (h, RDone) | None => (h, RErr) end
  | HRename a b => h_rename h a b
  | HTruncate p len =>
      if (len <? 0)%Z then (h, RErr)
      else match resolve h p with
           | Some i =>
               match nassoc i (h_inodes h) with
               | Some (IFile m d) => (set_inode h i (IFile m (resize d (Z.to_nat len))), RDone)
               | _ => (h, RErr)
               end
           | None => (h, RErr)
           end
  end.

(* The sandbox of the harnesses: /S (mode 0700) containing the export root
   /S/export (0755, empty) and /S/outside (0755) with one sentinel file. *)
Definition bS : bstr := [83].
Definition b_export : bstr := [101; 120; 112; 111; 114; 116].
Definition b_outside : bstr := [111; 117; 116; 115; 105; 100; 101].
Definition b_sentinel : bstr := [115; 101; 110; 116; 105; 110; 101; 108].
Definition sentinel_data : list N := [83; 69; 78; 84; 73; 78; 69; 76].

Definition sandbox (umask : N) : host :=
  {| h_inodes := [ (1, IDir 493 [(bS, 2)]);
                   (2, IDir 448 [(b_export, 3); (b_outside, 4)]);
                   (3, IDir 493 []);
                   (4, IDir 493 [(b_sentinel, 5)]);
                   (5, IFile 420 sentinel_data) ];
     h_next := 6; h_fds := []; h_nextfd := 3; h_umask := N.land umask 511 |}.
Definition sandbox_base : bstr := SLASH :: bS ++ SLASH :: b_export.

(* a printable dump of the subtree below an inode: (path-components, info, content) in
   depth-first order, children sorted by name; fuel bounds the depth *)
Fixpoint dump_tree (fuel : nat) (t : list (N * inode)) (pre : list bstr) (ino : N)
  : list (list bstr * hinfo * list N) :=
  match fuel with
  | O => []
  | S f =>
      match nassoc ino t with
      | Some (IDir _ ents) =>
          flat_map (fun e =>
            match nassoc (snd e) t with
            | Some (IFile m d) => [(pre ++ [fst e], info_of (fst e) (IFile m d), d)]
            | Some (IDir m es) => (pre ++ [fst e], info_of (fst e) (IDir m es), []) :: dump_tree f t (pre ++ [fst e]) (snd e)
            | None => []
            end) (sort_ents ents)
      | _ => []
      end
  end.
