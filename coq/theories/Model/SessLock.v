(* C14 - the per-fid lock protocol of sfilesys.go as an interleaved transition
   system.  DEFINITIONS ONLY (the proofs are in Proofs/SessLockProofs*.v).

   Every session method is transcribed as a small program [prog] over atomic
   actions on the shared state of a p9p.session:

     Load f | Reserve f | LoadAndDelete f | Delete f
     | CompareAndDelete f p                              sess.refs (a sync.Map, linearizable)
     Snapshot | Pick visited must                        sess.refs.Range: the table when the iteration starts; the
                                                         next key the iteration calls back for (or its end)
     Lock p | Unlock p                                   the sync.Mutex embedded in SFid p
     ReadSF p | WriteSF p g                              fields Ent/File/Mode of SFid p
     Fs c                                                a call into the FileSys/Dirent/File (two steps:
                                                         call, then return with a scripted outcome)
     Ret r                                               the method returns r

   [Reserve f] is newRef's  `ref = &SFid{}; ref.Lock(); refs.LoadOrStore(fid, ref)`
   taken as one action: the fresh SFid is private to the caller until
   LoadOrStore publishes it, so locking it cannot block and cannot be seen; if
   the fid is taken the fresh, locked SFid is dropped unpublished (garbage).

   A program's continuation takes the action's answer, so the thread-local
   variables of the Go method are the variables bound by the continuations.
   `defer ref.Unlock()` is written out before each return it covers; a return
   that the Go code makes before registering the defer has no Unlock here
   either (that is what C14_balance is about). *)
From stdpp Require Import gmap.
From Coq Require Import NArith List.
Local Open Scope N_scope.

Definition NOFID : N := 4294967295.

(* ---- values handed out by the file system (identities are ghost ids) ---- *)
Record ent := { e_id : N; e_dir : bool }.
(* f_kind: 0 regular file (Read/Write reach the FileSys), 1 *Readdir made by the session
   (the harness reads with an empty buffer: no FileSys call), 2 AuthFile with Success()=true, 3 AuthFile, Success()=false *)
Record file := { f_id : N; f_kind : N }.
Record sfid := { s_ent : option ent; s_file : option file; s_mode : N }.
Definition sfid0 : sfid := {| s_ent := None; s_file := None; s_mode := 0 |}.

Inductive outcome := OErr | OOk (n : N) (dir : bool).
Record fsret := { fr_out : outcome; fr_id : N }.   (* fr_id: identity of the object the call creates, if any *)

(* FileSys call kinds *)
Definition K_AUTH : N := 1.    Definition K_ATTACH : N := 2.  Definition K_WALK : N := 3.
Definition K_OPEN : N := 4.    Definition K_OPENDIR : N := 5. Definition K_CREATE : N := 6.
Definition K_REMOVE : N := 7.  Definition K_CLUNK : N := 8.   Definition K_STAT : N := 9.
Definition K_WSTAT : N := 10.  Definition K_READ : N := 11.   Definition K_WRITE : N := 12.
(* fc_on: the SFid whose Ent/File the call is made on (None: a call on the FileSys itself or on an
   entry not yet bound to any fid); fc_obj: ghost id of that entry/file (0 for the FileSys) *)
Record fscall := { fc_kind : N; fc_on : option N; fc_obj : N }.

(* result classes (by error text on the Go side) *)
Definition R_OK : N := 0.        Definition R_UNKNOWNFID : N := 1. Definition R_DUPFID : N := 2.
Definition R_PERM : N := 3.      Definition R_NOAUTH : N := 4.     Definition R_NONNORM : N := 5.
Definition R_NOTDIR : N := 6.    Definition R_NOFILE : N := 7.     Definition R_NOREAD : N := 8.
Definition R_NOWRITE : N := 9.   Definition R_ALREADYOPEN : N := 10. Definition R_ILLEGALNAME : N := 11.
Definition R_CREATENONDIR : N := 12. Definition R_FSERR : N := 13. Definition R_INVALID : N := 14.
Definition R_PANIC : N := 15.   Definition R_FUEL : N := 16.
Record result := { r_cls : N; r_val : N }.

Inductive prog :=
| Ret (r : result)
| Load (f : N) (k : option N -> prog)
| Reserve (f : N) (k : option N -> prog)
| LoadAndDelete (f : N) (k : option N -> prog)
| Delete (f : N) (k : prog)
| CompareAndDelete (f p : N) (k : bool -> prog)
| Snapshot (k : list (N * N) -> prog)
| Pick (visited : list N) (must : list (N * N)) (k : option (N * N) -> prog)
| Lock (p : N) (k : prog)
| Unlock (p : N) (k : prog)
| ReadSF (p : N) (k : sfid -> prog)
| WriteSF (p : N) (g : sfid -> sfid) (k : prog)
| Fs (c : fscall) (k : fsret -> prog).

Definition ret (c v : N) : prog := Ret {| r_cls := c; r_val := v |}.
Definition call (kind : N) (on : option N) (obj : N) : fscall := {| fc_kind := kind; fc_on := on; fc_obj := obj |}.
Definition is_ok (o : outcome) : bool := match o with OErr => false | OOk _ _ => true end.
Definition cls_of (o : outcome) : N := if is_ok o then R_OK else R_FSERR.

(* ---- sfilesys.go getRef (L96-115): the continuation gets the locked SFid and its fields ---- *)
Definition get_ref (f : N) (k : option (N * sfid) -> prog) : prog :=
  if f =? NOFID then k None else
  Load f (fun o =>
    match o with
    | None => k None
    | Some p =>
        Lock p (ReadSF p (fun s =>
          match s_ent s with
          | None => Unlock p (k None)            (* deleted just after our lookup *)
          | Some _ => k (Some (p, s))
          end))
    end).

(* ---- newRef (L140-154): inl class on failure, inr p with p locked and published ---- *)
Definition new_ref (f : N) (k : N + N -> prog) : prog :=
  if f =? NOFID then k (inl R_UNKNOWNFID) else
  Reserve f (fun o => match o with None => k (inl R_DUPFID) | Some p => k (inr p) end).

(* ---- delRef + delRefAction.  Since the fix "Clunk/Remove made the fid reusable ..." delRef looks the
   SFid up, LOCKS it, and only then unbinds the fid (CompareAndDelete: the fid may no longer name this SFid
   when another Clunk/Remove got there first or the reservation waited for was rolled back) ---- *)
Definition del_ref (f : N) (remove : bool) (k : N -> prog) : prog :=
  Load f (fun o =>
    match o with
    | None => k R_UNKNOWNFID
    | Some q =>
        Lock q (CompareAndDelete f q (fun removed =>
          if negb removed then Unlock q (k R_UNKNOWNFID) else
          ReadSF q (fun s =>
            match s_ent s with
            | None => Unlock q (k R_OK)               (* an auth fid: no entry to release *)
            | Some e =>
                Fs (call (if remove then K_REMOVE else K_CLUNK) (Some q) (e_id e)) (fun fr =>
                  WriteSF q (fun s => {| s_ent := None; s_file := s_file s; s_mode := s_mode s |})
                    (Unlock q (k (cls_of (fr_out fr)))))
            end)))
    end).

Definition prog_clunk (f : N) : prog := del_ref f false (fun c => ret c 0).
Definition prog_remove (f : N) : prog := del_ref f true (fun c => ret c 0).

(* ---- Auth (L201-229) ---- *)
Definition prog_auth (reqauth : bool) (afid : N) : prog :=
  if afid =? NOFID then ret R_OK 0
  else if negb reqauth then ret R_NOAUTH 0
  else new_ref afid (fun r =>
    match r with
    | inl e => ret e 0
    | inr p =>
        Fs (call K_AUTH None 0) (fun fr =>
          match fr_out fr with
          | OErr => Delete afid (Unlock p (ret R_FSERR 0))
          | OOk _ d =>
              WriteSF p (fun s => {| s_ent := s_ent s;
                                     s_file := Some {| f_id := fr_id fr; f_kind := if d then 2 else 3 |};
                                     s_mode := s_mode s |})
                (Unlock p (ret R_OK 0))
          end)
    end).

(* ---- Attach (L231-275) ---- *)
Definition unlock_opt (a : option N) (k : prog) : prog :=
  match a with Some p => Unlock p k | None => k end.

Definition attach_rest (f : N) (a : option N) : prog :=
  new_ref f (fun r =>
    match r with
    | inl e => unlock_opt a (ret e 0)
    | inr p =>
        Fs (call K_ATTACH None 0) (fun fr =>
          match fr_out fr with
          | OErr => Delete f (Unlock p (unlock_opt a (ret R_FSERR 0)))
          | OOk _ d =>
              WriteSF p (fun s => {| s_ent := Some {| e_id := fr_id fr; e_dir := d |};
                                     s_file := s_file s; s_mode := s_mode s |})
                (Unlock p (unlock_opt a (ret R_OK 0)))
          end)
    end).

Definition is_authfile (fl : file) : bool := (f_kind fl =? 2) || (f_kind fl =? 3).

Definition prog_attach (f afid : N) : prog :=
  if afid =? NOFID then attach_rest f None else
  get_ref afid (fun r =>
    match r with
    | None => ret R_UNKNOWNFID 0
    | Some (ap, s) =>
        match s_file s with
        | None => Unlock ap (ret R_UNKNOWNFID 0)     (* since fix 6e19728 the defer is registered before this return (D8) *)
        | Some fl =>
            if negb (is_authfile fl) then Unlock ap (ret R_UNKNOWNFID 0)
            else if negb (f_kind fl =? 2) then Unlock ap (ret R_PERM 0)
            else attach_rest f (Some ap)
        end
    end).

(* ---- Walk (L285-368); n = len(names), valid = (ValidPath(names) >= 0) ---- *)
Definition link (e : ent) (s : sfid) : sfid := {| s_ent := Some e; s_file := s_file s; s_mode := s_mode s |}.

Definition prog_walk (f nf n : N) (valid : bool) : prog :=
  if negb valid then ret R_NONNORM 0 else
  get_ref f (fun r =>
    match r with
    | None => ret R_UNKNOWNFID 0
    | Some (p, s) =>
        let body (np : option N) : prog :=
          (* the deferred clean-up (L303-312) on a return with newref still set *)
          let fail (c v : N) : prog :=
            Unlock p (match np with Some q => Delete nf (Unlock q (ret c v)) | None => ret c v end) in
          let finish (q : N) (ne : ent) (old : N) : prog :=
            match np with
            | None =>       (* newfid == fid: re-use fid; clunk the old entry (error ignored) *)
                (* since fix 0f8e8f0: ref.File = nil; ref.Mode = 0 as well *)
                Fs (call K_CLUNK (Some p) old) (fun _ =>
                  WriteSF p (fun _ => {| s_ent := Some ne; s_file := None; s_mode := 0 |}) (Unlock p (ret R_OK q)))
            | Some q' =>    (* ref.Unlock(); ref = newref; newref = nil; ref.link(ent); deferred ref.Unlock() *)
                Unlock p (WriteSF q' (link ne) (Unlock q' (ret R_OK q)))
            end in
          match s_ent s with
          | None => fail R_PANIC 0                      (* not reachable: getRef saw Ent != nil under the lock *)
          | Some e =>
              if n =? 0 then
                if nf =? f then fail R_OK 0
                else Fs (call K_WALK (Some p) (e_id e)) (fun fr =>
                       match fr_out fr with
                       | OErr => fail R_FSERR 0
                       | OOk _ d => finish 0 {| e_id := fr_id fr; e_dir := d |} (e_id e)
                       end)
              else if negb (e_dir e) then fail R_NOTDIR 0
              else Fs (call K_WALK (Some p) (e_id e)) (fun fr =>
                     match fr_out fr with
                     | OErr => fail R_FSERR 0
                     | OOk m d =>
                         let q := N.min m n in
                         if q =? 0 then fail R_OK 0
                         else if q <? n then fail R_OK q
                         else finish q {| e_id := fr_id fr; e_dir := d |} (e_id e)
                     end)
          end in
        if nf =? f then body None
        else new_ref nf (fun r =>
               match r with
               | inl e => Unlock p (ret e 0)
               | inr q => body (Some q)
               end)
    end).

(* ---- Read (L370-384) / Write (L386-401) ---- *)
Definition prog_read (f : N) : prog :=
  get_ref f (fun r =>
    match r with
    | None => ret R_UNKNOWNFID 0
    | Some (p, s) =>
        match s_file s with
        | None => Unlock p (ret R_NOFILE 0)
        | Some fl =>
            if N.land (s_mode s) 3 =? 1 then Unlock p (ret R_NOREAD 0)
            else if f_kind fl =? 1 then Unlock p (ret R_OK 0)
            else Fs (call K_READ (Some p) (f_id fl)) (fun fr =>
                   match fr_out fr with
                   | OErr => Unlock p (ret R_FSERR 0)
                   | OOk m _ => Unlock p (ret R_OK m)
                   end)
        end
    end).

Definition prog_write (f : N) : prog :=
  get_ref f (fun r =>
    match r with
    | None => ret R_UNKNOWNFID 0
    | Some (p, s) =>
        match s_file s with
        | None => Unlock p (ret R_NOFILE 0)
        | Some fl =>
            if negb ((N.land (s_mode s) 3 =? 1) || (N.land (s_mode s) 3 =? 2)) then Unlock p (ret R_NOWRITE 0)
            else if f_kind fl =? 1 then Unlock p (ret R_INVALID 0)
            else Fs (call K_WRITE (Some p) (f_id fl)) (fun fr =>
                   match fr_out fr with
                   | OErr => Unlock p (ret R_FSERR 0)
                   | OOk m _ => Unlock p (ret R_OK m)
                   end)
        end
    end).

(* ---- Open (L403-417) + openLocked (L430-457) ---- *)
Definition prog_open (f mode : N) : prog :=
  get_ref f (fun r =>
    match r with
    | None => ret R_UNKNOWNFID 0
    | Some (p, s) =>
        match s_file s, s_ent s with
        | Some _, _ => Unlock p (ret R_ALREADYOPEN 0)
        | None, None => Unlock p (ret R_PANIC 0)       (* not reachable *)
        | None, Some e =>
            Fs (call (if e_dir e then K_OPENDIR else K_OPEN) (Some p) (e_id e)) (fun fr =>
              match fr_out fr with
              | OErr => Unlock p (ret R_FSERR 0)
              | OOk _ _ =>
                  WriteSF p (fun s => {| s_ent := s_ent s;
                                         s_file := Some {| f_id := fr_id fr; f_kind := if e_dir e then 1 else 0 |};
                                         s_mode := mode |})
                    (Unlock p (ret R_OK 0))
              end)
        end
    end).

(* ---- Create (L459-510) ---- *)
Definition prog_create (f : N) (badname : bool) (mode : N) : prog :=
  if badname then ret R_ILLEGALNAME 0 else
  get_ref f (fun r =>
    match r with
    | None => ret R_UNKNOWNFID 0
    | Some (p, s) =>
        match s_ent s with
        | None => Unlock p (ret R_PANIC 0)              (* not reachable *)
        | Some e =>
            if negb (e_dir e) then Unlock p (ret R_CREATENONDIR 0) else
            Fs (call K_CREATE (Some p) (e_id e)) (fun fr =>
              match fr_out fr with
              | OErr => Unlock p (ret R_FSERR 0)
              | OOk _ d =>
                  let ne := {| e_id := fr_id fr; e_dir := d |} in
                  if d then
                    (* next := SFid{Ent: ent}; openLocked(ctx, &next, mode): OpenDir on the new, still private entry *)
                    Fs (call K_OPENDIR None (fr_id fr)) (fun fr2 =>
                      match fr_out fr2 with
                      | OErr =>
                          (* since fix e096cda (D9): delRef's steps on the already locked ref:
                             sess.refs.Delete(parent); ref.File = nil; ref.Mode = 0; ref.link(ent);
                             delRefAction(ctx, ref, false) *)
                          Delete f
                            (WriteSF p (fun _ => {| s_ent := Some ne; s_file := None; s_mode := 0 |})
                              (Fs (call K_CLUNK (Some p) (fr_id fr)) (fun _ =>
                                 WriteSF p (fun s => {| s_ent := None; s_file := s_file s; s_mode := s_mode s |})
                                   (Unlock p (ret R_FSERR 0)))))
                      | OOk _ _ =>
                          WriteSF p (fun _ => {| s_ent := Some ne;
                                                 s_file := Some {| f_id := fr_id fr2; f_kind := 1 |};
                                                 s_mode := mode |})
                            (Unlock p (ret R_OK 0))
                      end)
                  else
                    WriteSF p (fun _ => {| s_ent := Some ne;
                                           s_file := Some {| f_id := fr_id fr; f_kind := 0 |};
                                           s_mode := mode |})
                      (Unlock p (ret R_OK 0))
              end)
        end
    end).

(* ---- Stat (L512-520) / WStat (L522-530) ---- *)
Definition prog_statlike (kind f : N) : prog :=
  get_ref f (fun r =>
    match r with
    | None => ret R_UNKNOWNFID 0
    | Some (p, s) =>
        match s_ent s with
        | None => Unlock p (ret R_PANIC 0)              (* not reachable *)
        | Some e => Fs (call kind (Some p) (e_id e)) (fun fr => Unlock p (ret (cls_of (fr_out fr)) 0))
        end
    end).

(* ---- Stop (since fix e9fb232 it takes part in the lock protocol):
     for again := true; again; { again = false
       sess.refs.Range(func(fid, ref) bool { again = true
         ref.Lock(); sess.refs.CompareAndDelete(fid, ref); if ref.Ent != nil { delRefAction(ctx, ref, false) }; ref.Unlock() }) }
   sync.Map.Range is not a snapshot.  It walks the entries of the map's read-only part - which still holds
   the entries of deleted keys - in an order of its own and calls back with each entry's CURRENT value: a key
   deleted meanwhile is skipped, a key stored meanwhile is seen if its old entry was still there (observed on
   the implementation: fid removed before Stop, re-bound while Stop waits, released in the same pass) and
   not seen if it is new.  Model: [Snapshot] records the table when the pass starts; [Pick visited must]
   lets the ENVIRONMENT choose the next callback - any key now in the table that this pass has not visited,
   with its current value - or the end of the pass, which is allowed only when every key of the Snapshot that
   still has its value has been visited.  The choice is taken from the operation's script like the outcome
   of a FileSys call; the structural theorems hold for every answer.
   Programs are finite trees, so the loop carries fuel: [n] bounds the callbacks over all passes; running out
   returns the class R_FUEL, which the harness never sees (STOP_FUEL = 64) and which statements about
   Stop's result must exclude. ---- *)
Definition stop_visit (f q : N) (k : prog) : prog :=
  Lock q (CompareAndDelete f q (fun _ =>
    ReadSF q (fun s =>
      match s_ent s with
      | None => Unlock q k
      | Some e =>
          Fs (call K_CLUNK (Some q) (e_id e)) (fun _ =>
            WriteSF q (fun s => {| s_ent := None; s_file := s_file s; s_mode := s_mode s |}) (Unlock q k))
      end))).

(* the rest of one pass; [again]: some callback ran; [next n again]: what follows the pass *)
Fixpoint stop_pass (n : nat) (visited : list N) (must : list (N * N)) (again : bool)
    (next : nat -> bool -> prog) : prog :=
  Pick visited must (fun o =>
    match o with
    | None => next n again
    | Some (f, q) =>
        match n with
        | O => ret R_FUEL 0
        | S n' => stop_visit f q (stop_pass n' (f :: visited) must true next)
        end
    end).

Fixpoint stop_loop (passes : nat) (n : nat) : prog :=
  match passes with
  | O => ret R_FUEL 0
  | S passes' =>
      Snapshot (fun l =>
        stop_pass n nil l false (fun n' again => if again then stop_loop passes' n' else ret R_OK 0))
  end.

Definition STOP_FUEL : nat := 64.
Definition prog_stop : prog := stop_loop (S STOP_FUEL) STOP_FUEL.

(* ---- the operations of a client (and the server's Stop) ---- *)
Inductive op :=
| OpAuth (afid : N)
| OpAttach (f afid : N)
| OpWalk (f nf n : N) (valid : bool)
| OpOpen (f mode : N)
| OpCreate (f : N) (badname : bool) (mode : N)
| OpRead (f : N) | OpWrite (f : N) | OpStat (f : N) | OpWStat (f : N)
| OpClunk (f : N) | OpRemove (f : N)
| OpStop.

Definition prog_of (reqauth : bool) (o : op) : prog :=
  match o with
  | OpAuth a => prog_auth reqauth a
  | OpAttach f a => prog_attach f a
  | OpWalk f nf n v => prog_walk f nf n v
  | OpOpen f m => prog_open f m
  | OpCreate f b m => prog_create f b m
  | OpRead f => prog_read f
  | OpWrite f => prog_write f
  | OpStat f => prog_statlike K_STAT f
  | OpWStat f => prog_statlike K_WSTAT f
  | OpClunk f => prog_clunk f
  | OpRemove f => prog_remove f
  | OpStop => prog_stop
  end.

(* ================= the concurrent state and its step function ================= *)

Record thread := {
  t_id : N;                  (* ghost: names the objects the FileSys hands to this operation *)
  t_prog : prog;             (* what is left to do; head [Fs] with t_incall: inside that call *)
  t_incall : bool;
  t_script : list outcome;   (* outcomes of this operation's FileSys calls, in order *)
  t_ncalls : N;              (* FileSys calls made so far *)
  t_calls : list (N * N);    (* ghost: (kind, object) of the calls made, latest first *)
  t_held : list N;           (* ghost: the SFids this thread has locked *)
  t_log : list N             (* ghost: the answers received, encoded (identifies the continuation) *)
}.

Record state := {
  refs : gmap N N;           (* sess.refs : fid -> *SFid *)
  heap : gmap N sfid;        (* the SFids' fields *)
  owner : gmap N nat;        (* which thread holds SFid p's mutex *)
  nextp : N;                 (* allocation counter *)
  threads : list thread
}.

Definition mk_thread (reqauth : bool) (id : N) (os : op * list outcome) : thread :=
  {| t_id := id; t_prog := prog_of reqauth (fst os); t_incall := false; t_script := snd os; t_ncalls := 0;
     t_calls := nil; t_held := nil; t_log := nil |}.

Definition init (reqauth : bool) (ops : list (op * list outcome)) : state :=
  {| refs := ∅; heap := ∅; owner := ∅; nextp := 1; threads := imap (fun i => mk_thread reqauth (N.of_nat i)) ops |}.

Fixpoint remove_one (p : N) (l : list N) : list N :=
  match l with
  | nil => nil
  | q :: r => if q =? p then r else q :: remove_one p r
  end.

Definition enc_opt (o : option N) : N := match o with None => 0 | Some p => p + 1 end.
Definition enc_sfid (s : sfid) : list N :=
  (match s_ent s with None => 0 :: 0 :: nil | Some e => (e_id e + 1) :: (if e_dir e then 1 else 0) :: nil end) ++
  (match s_file s with None => 0 :: 0 :: nil | Some fl => (f_id fl + 1) :: f_kind fl :: nil end) ++ s_mode s :: nil.
Definition enc_out (o : outcome) : list N :=
  match o with OErr => 0 :: nil | OOk n d => 1 :: n :: (if d then 1 else 0) :: nil end.

(* the fid table as a list sorted by fid, and its n-th permutation (factorial number system) *)
Fixpoint insert_sorted (x : N * N) (l : list (N * N)) : list (N * N) :=
  match l with
  | nil => x :: nil
  | y :: r => if fst x <=? fst y then x :: l else y :: insert_sorted x r
  end.
Definition sort_pairs (l : list (N * N)) : list (N * N) := fold_right insert_sorted nil l.

Definition pick_cands (r : gmap N N) (visited : list N) : list (N * N) :=
  filter (fun fp => negb (existsb (N.eqb (fst fp)) visited)) (sort_pairs (map_to_list r)).
Definition pick_may_end (r : gmap N N) (visited : list N) (must : list (N * N)) : bool :=
  forallb (fun fp => existsb (N.eqb (fst fp)) visited ||
                     negb (match r !! fst fp with Some q => q =? snd fp | None => false end)) must.

Definition enc_pairs (l : list (N * N)) : list N := N.of_nat (length l) :: flat_map (fun fp => fst fp :: snd fp :: nil) l.

Definition upd (th : thread) (k : prog) (lg : list N) : thread :=
  {| t_id := t_id th; t_prog := k; t_incall := false; t_script := t_script th; t_ncalls := t_ncalls th;
     t_calls := t_calls th; t_held := t_held th; t_log := lg ++ t_log th |}.
Definition upd_held (th : thread) (k : prog) (h : list N) : thread :=
  {| t_id := t_id th; t_prog := k; t_incall := false; t_script := t_script th; t_ncalls := t_ncalls th;
     t_calls := t_calls th; t_held := h; t_log := 1 :: t_log th |}.

Definition set_thread (s : state) (i : nat) (th : thread) : state :=
  {| refs := refs s; heap := heap s; owner := owner s; nextp := nextp s; threads := <[i := th]> (threads s) |}.

Definition new_obj_id (id : N) (ncalls : N) : N := 8 * id + ncalls.

(* one atomic step of thread i; None: i cannot move (no such thread, returned, or waiting for a held mutex) *)
Definition step (s : state) (i : nat) : option state :=
  match threads s !! i with
  | None => None
  | Some th =>
      match t_prog th with
      | Ret _ => None
      | Load f k => Some (set_thread s i (upd th (k (refs s !! f)) (enc_opt (refs s !! f) :: nil)))
      | Reserve f k =>
          match refs s !! f with
          | Some _ => Some (set_thread s i (upd th (k None) (0 :: nil)))
          | None =>
              let p := nextp s in
              Some {| refs := <[f := p]> (refs s); heap := <[p := sfid0]> (heap s); owner := <[p := i]> (owner s);
                      nextp := p + 1;
                      threads := <[i := upd_held th (k (Some p)) (p :: t_held th)]> (threads s) |}
          end
      | LoadAndDelete f k =>
          Some {| refs := delete f (refs s); heap := heap s; owner := owner s; nextp := nextp s;
                  threads := <[i := upd th (k (refs s !! f)) (enc_opt (refs s !! f) :: nil)]> (threads s) |}
      | Delete f k =>
          Some {| refs := delete f (refs s); heap := heap s; owner := owner s; nextp := nextp s;
                  threads := <[i := upd th k (1 :: nil)]> (threads s) |}
      | CompareAndDelete f p k =>
          let hit := match refs s !! f with Some q => q =? p | None => false end in
          Some {| refs := if hit then delete f (refs s) else refs s; heap := heap s; owner := owner s; nextp := nextp s;
                  threads := <[i := upd th (k hit) ((if hit then 1 else 0) :: nil)]> (threads s) |}
      | Snapshot k =>
          let tab := sort_pairs (map_to_list (refs s)) in
          Some (set_thread s i (upd th (k tab) (enc_pairs tab)))
      | Pick visited must k =>
          (* the next callback of Range, or its end, is the environment's choice: script head OOk c _ = the
             c-th candidate (c >= 1) or the end (c = 0, when permitted) *)
          let cands := pick_cands (refs s) visited in
          let c := match hd OErr (t_script th) with OOk c _ => c | OErr => 0 end in
          let o := match cands with
                   | nil => None
                   | x :: _ => if (c =? 0) && pick_may_end (refs s) visited must then None
                               else Some (nth (N.to_nat (c - 1)) cands x)
                   end in
          Some (set_thread s i
            {| t_id := t_id th; t_prog := k o; t_incall := false; t_script := tl (t_script th);
               t_ncalls := t_ncalls th; t_calls := t_calls th; t_held := t_held th;
               t_log := match o with None => 0 :: nil | Some fq => 1 :: fst fq :: snd fq :: nil end ++ t_log th |})
      | Lock p k =>
          match owner s !! p with
          | Some _ => None
          | None =>
              (* nextp: pointers come from sess.refs, so p < nextp s and the counter does not move; keeping it
                 above every locked pointer makes "a new SFid is nobody's" independent of that fact *)
              Some {| refs := refs s; heap := heap s; owner := <[p := i]> (owner s); nextp := N.max (nextp s) (p + 1);
                      threads := <[i := upd_held th k (p :: t_held th)]> (threads s) |}
          end
      | Unlock p k =>
          match owner s !! p with
          | None => Some (set_thread s i (upd th (ret R_PANIC 0) (2 :: nil)))   (* sync: unlock of unlocked mutex *)
          | Some _ =>
              Some {| refs := refs s; heap := heap s; owner := delete p (owner s); nextp := nextp s;
                      threads := <[i := upd_held th k (remove_one p (t_held th))]> (threads s) |}
          end
      | ReadSF p k =>
          let v := default sfid0 (heap s !! p) in
          Some (set_thread s i (upd th (k v) (enc_sfid v)))
      | WriteSF p g k =>
          Some {| refs := refs s; heap := <[p := g (default sfid0 (heap s !! p))]> (heap s); owner := owner s;
                  nextp := nextp s; threads := <[i := upd th k (1 :: nil)]> (threads s) |}
      | Fs c k =>
          if t_incall th then
            let o := hd OErr (t_script th) in
            Some (set_thread s i
              {| t_id := t_id th; t_prog := k {| fr_out := o; fr_id := new_obj_id (t_id th) (t_ncalls th) |}; t_incall := false;
                 t_script := tl (t_script th); t_ncalls := t_ncalls th; t_calls := t_calls th;
                 t_held := t_held th; t_log := enc_out o ++ t_log th |})
          else
            Some (set_thread s i
              {| t_id := t_id th; t_prog := t_prog th; t_incall := true; t_script := t_script th; t_ncalls := t_ncalls th + 1;
                 t_calls := (fc_kind c, fc_obj c) :: t_calls th; t_held := t_held th; t_log := 3 :: t_log th |})
      end
  end.

(* run a schedule (a list of thread ids); a thread that cannot move is skipped *)
Definition step_or_stay (s : state) (i : nat) : state := match step s i with Some s' => s' | None => s end.
Definition run (sched : list nat) (s : state) : state := fold_left step_or_stay sched s.

Definition is_done (th : thread) : bool := match t_prog th with Ret _ => true | _ => false end.
Definition in_call_on (th : thread) : option (option N) :=
  match t_prog th with Fs c _ => if t_incall th then Some (fc_on c) else None | _ => None end.
Definition result_of (th : thread) : option result := match t_prog th with Ret r => Some r | _ => None end.

(* run thread i alone until it returns (fuel: no program is deeper than 40 actions) *)
Fixpoint run_alone (fuel : nat) (s : state) (i : nat) : state :=
  match fuel with
  | O => s
  | S fuel => match step s i with Some s' => run_alone fuel s' i | None => s end
  end.

(* ================= sequential semantics and the linearizability checker ================= *)

(* one completed operation of an observed history *)
Record hop := {
  h_op : op; h_script : list outcome; h_id : N;
  h_inv : N; h_ret : N;                  (* when it was invoked / when it had returned (event indices) *)
  h_res : result; h_calls : list (N * N) (* what it returned; the FileSys calls it made, in order *)
}.

(* the session between operations: fid table, SFid fields, mutexes (a leaked lock stays) *)
Definition seq_fuel : nat := 1500.
Definition seq_op (reqauth : bool) (s : state) (h : hop) : state * option (result * list (N * N)) :=
  let s1 := {| refs := refs s; heap := heap s; owner := owner s; nextp := nextp s;
               threads := mk_thread reqauth (h_id h) (h_op h, h_script h) :: nil |} in
  let s2 := run_alone seq_fuel s1 O in
  (s2, match threads s2 !! O with
       | Some th => match result_of th with Some r => Some (r, rev (t_calls th)) | None => None end
       | None => None
       end).

Definition result_eqb (a b : result) : bool := (r_cls a =? r_cls b) && (r_val a =? r_val b).
Fixpoint calls_eqb (a b : list (N * N)) : bool :=
  match a, b with
  | nil, nil => true
  | (x1, y1) :: a, (x2, y2) :: b => (x1 =? x2) && (y1 =? y2) && calls_eqb a b
  | _, _ => false
  end.
Definition matches (h : hop) (r : option (result * list (N * N))) : bool :=
  match r with
  | Some (res, cs) => result_eqb res (h_res h) && calls_eqb cs (h_calls h)
  | None => false                        (* run alone it would never return; [h] did *)
  end.

(* run the operations one after the other, in the order given; true iff each reproduces its observed result *)
Fixpoint seq_matches (reqauth : bool) (s : state) (hs : list hop) : bool :=
  match hs with
  | nil => true
  | h :: r => let '(s', res) := seq_op reqauth s h in matches h res && seq_matches reqauth s' r
  end.

(* real time: an operation that had returned before another was invoked comes first *)
Fixpoint rt_ok (hs : list hop) : bool :=
  match hs with
  | nil => true
  | a :: r => forallb (fun b => negb (h_ret b <? h_inv a)) r && rt_ok r
  end.

Fixpoint nodupb (l : list nat) : bool :=
  match l with nil => true | x :: r => negb (existsb (Nat.eqb x) r) && nodupb r end.
Definition is_perm (o : list nat) (n : nat) : bool :=
  Nat.eqb (length o) n && nodupb o && forallb (fun x => Nat.ltb x n) o.

Definition pick (h : list hop) (o : list nat) : list hop := omap (fun i => h !! i) o.

Definition valid_order (reqauth : bool) (h : list hop) (o : list nat) : bool :=
  is_perm o (length h) && rt_ok (pick h o) && seq_matches reqauth (init reqauth nil) (pick h o).

(* search: extend the order by any operation none of whose real-time predecessors is still waiting and whose
   sequential result is the observed one.  Not verified; its answer is checked by [valid_order]. *)
Definition may_go_next (h : list hop) (rest : list nat) (i : nat) : bool :=
  match h !! i with
  | None => false
  | Some a => forallb (fun j => match h !! j with Some b => negb (h_ret b <? h_inv a) | None => true end) rest
  end.

Fixpoint search (fuel : nat) (reqauth : bool) (h : list hop) (s : state) (placed rest : list nat) : option (list nat) :=
  match fuel with
  | O => None
  | S fuel =>
      match rest with
      | nil => Some (rev placed)
      | _ =>
          (fix try (cands : list nat) : option (list nat) :=
             match cands with
             | nil => None
             | i :: cands' =>
                 match (if may_go_next h rest i then h !! i else None) with
                 | None => try cands'
                 | Some a =>
                     let '(s', res) := seq_op reqauth s a in
                     if matches a res then
                       match search fuel reqauth h s' (i :: placed) (filter (fun j => negb (Nat.eqb j i)) rest) with
                       | Some o => Some o
                       | None => try cands'
                       end
                     else try cands'
                 end
             end) rest
      end
  end.

Definition lin_check (reqauth : bool) (h : list hop) : option (list nat) :=
  match search (S (length h)) reqauth h (init reqauth nil) nil (seq 0 (length h)) with
  | Some o => if valid_order reqauth h o then Some o else None
  | None => None
  end.

(* ================= exhaustive exploration of small configurations ================= *)

(* ---- identity of a state, for de-duplication during the exploration ---- *)
Definition SEP : N := 4294967296.
Definition key_of (s : state) : list N :=
  nextp s :: flat_map (fun fp => fst fp :: snd fp :: nil) (map_to_list (refs s)) ++
  SEP :: flat_map (fun pv => fst pv :: enc_sfid (snd pv)) (map_to_list (heap s)) ++
  SEP :: flat_map (fun pi => fst pi :: N.of_nat (snd pi) :: nil) (map_to_list (owner s)) ++
  flat_map (fun th => SEP :: (if t_incall th then 1 else 0) :: t_log th) (threads s).


(* a state of the exploration: the model state plus what real time has fixed so far - the order in which
   operations returned (latest first) and, for each operation that has taken its first step, how many had
   returned by then.  Operation a precedes b in real time iff a is among the first [n_b] returned. *)
Record xst := { x_state : state; x_rets : list nat; x_invs : list (nat * N) }.

Fixpoint ins_inv (x : nat * N) (l : list (nat * N)) : list (nat * N) :=
  match l with
  | nil => x :: nil
  | y :: r => if Nat.leb (fst x) (fst y) then x :: l else y :: ins_inv x r
  end.

Definition xkey (x : xst) : list N :=
  key_of (x_state x) ++ SEP :: map N.of_nat (x_rets x) ++
  SEP :: flat_map (fun p => N.of_nat (fst p) :: snd p :: nil) (x_invs x).

Definition xstep (x : xst) (i : nat) : option xst :=
  match step (x_state x) i with
  | None => None
  | Some s' =>
      let invs := if existsb (fun p => Nat.eqb (fst p) i) (x_invs x) then x_invs x
                  else ins_inv (i, N.of_nat (length (x_rets x))) (x_invs x) in
      let rets := match threads s' !! i with
                  | Some th => if is_done th then i :: x_rets x else x_rets x
                  | None => x_rets x
                  end in
      Some {| x_state := s'; x_rets := rets; x_invs := invs |}
  end.

Fixpoint index_of (i : nat) (l : list nat) : N :=
  match l with nil => 0 | j :: r => if Nat.eqb i j then 0 else 1 + index_of i r end.

(* the history of a terminal exploration state; times: returns at 2*rank+1, invocations at 2*(number returned) *)
Definition xhistory (ops : list (op * list outcome)) (x : xst) : option (list hop) :=
  let order := rev (x_rets x) in
  let hs := imap (fun i os =>
    match threads (x_state x) !! i with
    | Some th =>
        match result_of th, filter (fun p => Nat.eqb (fst p) i) (x_invs x) with
        | Some r, p :: _ =>
            Some {| h_op := fst os; h_script := snd os; h_id := t_id th; h_inv := 2 * snd p;
                    h_ret := 2 * index_of i order + 1; h_res := r; h_calls := rev (t_calls th) |}
        | _, _ => None
        end
    | None => None
    end) ops in
  if forallb (fun o => match o with Some _ => true | None => false end) hs then Some (omap id hs) else None.

(* terminal state: every operation returned and the history is linearizable *)
Definition xterminal_ok (reqauth : bool) (ops : list (op * list outcome)) (x : xst) : bool :=
  match xhistory ops x with
  | Some h => match lin_check reqauth h with Some _ => true | None => false end
  | None => false                       (* somebody never returned: deadlock *)
  end.

Definition xlevel (reqauth : bool) (ops : list (op * list outcome)) (n : nat)
    (acc : gmap (list N) xst * bool * N) (x : xst) : gmap (list N) xst * bool * N :=
  let '(m, ok, cnt) := acc in
  match omap (xstep x) (seq 0 n) with
  | nil => (m, ok && xterminal_ok reqauth ops x, cnt + 1)
  | ss => (fold_right (fun y m => <[xkey y := y]> m) m ss, ok, cnt)
  end.

(* all interleavings of the operations, every FileSys call returning at every possible moment;
   answer: (every terminal state is a linearizable completed history, number of terminal states) *)
Fixpoint xexplore (fuel : nat) (reqauth : bool) (ops : list (op * list outcome))
    (frontier : list xst) (ok : bool) (cnt : N) : bool * N :=
  match fuel with
  | O => (false, cnt)
  | S fuel =>
      match frontier with
      | nil => (ok, cnt)
      | _ =>
          let '(m, ok', cnt') := fold_left (xlevel reqauth ops (length ops)) frontier (∅, ok, cnt) in
          xexplore fuel reqauth ops (map snd (map_to_list m)) ok' cnt'
      end
  end.

(* run operation i alone to its return, keeping the real-time book *)
Fixpoint xrun_alone (fuel : nat) (x : xst) (i : nat) : xst :=
  match fuel with
  | O => x
  | S fuel => match xstep x i with Some x' => xrun_alone fuel x' i | None => x end
  end.

(* the first [k] operations run one after the other (they populate the session); then ALL interleavings
   of the remaining ones *)
Definition all_interleavings_linearizable (reqauth : bool) (ops : list (op * list outcome)) (k : nat) : bool * N :=
  let x0 := {| x_state := init reqauth ops; x_rets := nil; x_invs := nil |} in
  let x1 := fold_left (xrun_alone seq_fuel) (seq 0 k) x0 in
  xexplore 400 reqauth ops (x1 :: nil) true 0.
