(* C09, completion clause - control-only abstraction of the goroutines that
   carry concurrent calls over ONE connection.  Messages have no identity
   here (that is C05/C06); only where each in-flight call currently sits and
   which goroutine is blocked on which hand-off.

   client  callers            block on `t.requests <- req`, then wait for their reply
           owner loop         transport.handle: select over t.requests / responses
             [Current]          ... and performs ch.WriteFcall ITSELF inside the t.requests arm
             [Fixed]            ... only queues the frame; a writer goroutine performs WriteFcall
           reader             ReadFcall, then `responses <- fcall` (unbuffered)
   conn    each direction buffers [cap] frames; cap = 0 is net.Pipe: a write
           completes only against a concurrent read (rendezvous)
   server  reader             ReadFcall, then `requests <- req` (unbuffered)
           serve loop         select over requests (spawn handler) / completed (then `responses <- resp`)
           handlers           run, then `completed <- resp`
           writer             `<-responses`, then WriteFcall

   Definitions only. *)
From Coq Require Import List Arith Bool.
Import ListNotations.

Inductive variant := Current | Fixed.

Record st := {
  c_new : nat;          (* callers still blocked on `t.requests <- req` *)
  c_wait : nat;         (* callers waiting for their reply *)
  c_done : nat;         (* callers that returned *)
  q : nat;              (* Fixed: frames queued inside the owner loop *)
  h_writing : bool;     (* Current: the owner loop is inside WriteFcall *)
  cw_writing : bool;    (* Fixed: the writer goroutine is inside WriteFcall *)
  cs_buf : nat;         (* frames buffered by the connection, client -> server *)
  sr_hold : bool;       (* server reader holds a request, blocked on `requests <- req` *)
  h_run : nat;          (* handlers running *)
  h_done : nat;         (* handlers blocked on `completed <- resp` *)
  sl_send : bool;       (* serve loop blocked on `responses <- resp` *)
  sw_writing : bool;    (* server writer inside WriteFcall *)
  sc_buf : nat;         (* frames buffered by the connection, server -> client *)
  cr_hold : bool        (* client reader holds a reply, blocked on `responses <- fcall` *)
}.

Definition init (n : nat) : st :=
  {| c_new := n; c_wait := 0; c_done := 0; q := 0; h_writing := false; cw_writing := false;
     cs_buf := 0; sr_hold := false; h_run := 0; h_done := 0; sl_send := false;
     sw_writing := false; sc_buf := 0; cr_hold := false |}.

Inductive ev :=
| ESubmit          (* a caller hands its request to the owner loop *)
| EQueueToWriter   (* Fixed: owner loop hands the head of its queue to the idle writer goroutine *)
| ECWrite          (* client write completes against the server reader's read (rendezvous) *)
| ECWriteBuf       (* client write completes into the connection's buffer *)
| ESRead           (* server reader takes a buffered frame *)
| ESpawn           (* serve loop takes the request from the reader and starts the handler *)
| EFinish          (* a handler's session call returns *)
| ECompleted       (* serve loop takes a finished handler's reply *)
| EToWriter        (* serve loop hands the reply to the idle server writer *)
| ESWrite          (* server write completes against the client reader's read *)
| ESWriteBuf       (* server write completes into the connection's buffer *)
| ECRead           (* client reader takes a buffered frame *)
| EDeliver.        (* owner loop takes the reply from the reader and wakes the caller *)

Definition all_events : list ev :=
  [ESWrite; ESWriteBuf; ECRead; EToWriter; ECompleted; EFinish; ESpawn; ESRead; ECWrite; ECWriteBuf;
   EQueueToWriter; ESubmit; EDeliver].

Definition client_writing (v : variant) (s : st) : bool :=
  match v with Current => h_writing s | Fixed => cw_writing s end.

Definition set_client_writing (v : variant) (s : st) (b : bool) : st :=
  match v with
  | Current => {| c_new := c_new s; c_wait := c_wait s; c_done := c_done s; q := q s; h_writing := b;
                  cw_writing := cw_writing s; cs_buf := cs_buf s; sr_hold := sr_hold s; h_run := h_run s;
                  h_done := h_done s; sl_send := sl_send s; sw_writing := sw_writing s; sc_buf := sc_buf s;
                  cr_hold := cr_hold s |}
  | Fixed => {| c_new := c_new s; c_wait := c_wait s; c_done := c_done s; q := q s; h_writing := h_writing s;
                cw_writing := b; cs_buf := cs_buf s; sr_hold := sr_hold s; h_run := h_run s;
                h_done := h_done s; sl_send := sl_send s; sw_writing := sw_writing s; sc_buf := sc_buf s;
                cr_hold := cr_hold s |}
  end.

(* one atomic hand-off; None = not enabled in this state *)
Definition step (v : variant) (cap : nat) (s : st) (e : ev) : option st :=
  match e with
  | ESubmit =>
      match c_new s with
      | 0 => None
      | S n =>
          match v with
          | Current =>
              (* the owner loop must be at its select; taking the request it goes straight into WriteFcall *)
              if h_writing s then None
              else Some {| c_new := n; c_wait := S (c_wait s); c_done := c_done s; q := q s; h_writing := true;
                           cw_writing := cw_writing s; cs_buf := cs_buf s; sr_hold := sr_hold s; h_run := h_run s;
                           h_done := h_done s; sl_send := sl_send s; sw_writing := sw_writing s;
                           sc_buf := sc_buf s; cr_hold := cr_hold s |}
          | Fixed =>
              (* the owner loop is always at its select; it only appends to its queue *)
              Some {| c_new := n; c_wait := S (c_wait s); c_done := c_done s; q := S (q s); h_writing := h_writing s;
                      cw_writing := cw_writing s; cs_buf := cs_buf s; sr_hold := sr_hold s; h_run := h_run s;
                      h_done := h_done s; sl_send := sl_send s; sw_writing := sw_writing s;
                      sc_buf := sc_buf s; cr_hold := cr_hold s |}
          end
      end
  | EQueueToWriter =>
      match v, q s with
      | Fixed, S n =>
          if cw_writing s then None
          else Some {| c_new := c_new s; c_wait := c_wait s; c_done := c_done s; q := n; h_writing := h_writing s;
                       cw_writing := true; cs_buf := cs_buf s; sr_hold := sr_hold s; h_run := h_run s;
                       h_done := h_done s; sl_send := sl_send s; sw_writing := sw_writing s;
                       sc_buf := sc_buf s; cr_hold := cr_hold s |}
      | _, _ => None
      end
  | ECWrite =>
      if client_writing v s && (cs_buf s =? 0) && negb (sr_hold s) then
        let s' := set_client_writing v s false in
        Some {| c_new := c_new s'; c_wait := c_wait s'; c_done := c_done s'; q := q s'; h_writing := h_writing s';
                cw_writing := cw_writing s'; cs_buf := cs_buf s'; sr_hold := true; h_run := h_run s';
                h_done := h_done s'; sl_send := sl_send s'; sw_writing := sw_writing s';
                sc_buf := sc_buf s'; cr_hold := cr_hold s' |}
      else None
  | ECWriteBuf =>
      if client_writing v s && (cs_buf s <? cap) then
        let s' := set_client_writing v s false in
        Some {| c_new := c_new s'; c_wait := c_wait s'; c_done := c_done s'; q := q s'; h_writing := h_writing s';
                cw_writing := cw_writing s'; cs_buf := S (cs_buf s'); sr_hold := sr_hold s'; h_run := h_run s';
                h_done := h_done s'; sl_send := sl_send s'; sw_writing := sw_writing s';
                sc_buf := sc_buf s'; cr_hold := cr_hold s' |}
      else None
  | ESRead =>
      match cs_buf s with
      | S n =>
          if sr_hold s then None
          else Some {| c_new := c_new s; c_wait := c_wait s; c_done := c_done s; q := q s; h_writing := h_writing s;
                       cw_writing := cw_writing s; cs_buf := n; sr_hold := true; h_run := h_run s;
                       h_done := h_done s; sl_send := sl_send s; sw_writing := sw_writing s;
                       sc_buf := sc_buf s; cr_hold := cr_hold s |}
      | 0 => None
      end
  | ESpawn =>
      if sr_hold s && negb (sl_send s) then
        Some {| c_new := c_new s; c_wait := c_wait s; c_done := c_done s; q := q s; h_writing := h_writing s;
                cw_writing := cw_writing s; cs_buf := cs_buf s; sr_hold := false; h_run := S (h_run s);
                h_done := h_done s; sl_send := sl_send s; sw_writing := sw_writing s;
                sc_buf := sc_buf s; cr_hold := cr_hold s |}
      else None
  | EFinish =>
      match h_run s with
      | S n => Some {| c_new := c_new s; c_wait := c_wait s; c_done := c_done s; q := q s; h_writing := h_writing s;
                       cw_writing := cw_writing s; cs_buf := cs_buf s; sr_hold := sr_hold s; h_run := n;
                       h_done := S (h_done s); sl_send := sl_send s; sw_writing := sw_writing s;
                       sc_buf := sc_buf s; cr_hold := cr_hold s |}
      | 0 => None
      end
  | ECompleted =>
      match h_done s with
      | S n =>
          if sl_send s then None
          else Some {| c_new := c_new s; c_wait := c_wait s; c_done := c_done s; q := q s; h_writing := h_writing s;
                       cw_writing := cw_writing s; cs_buf := cs_buf s; sr_hold := sr_hold s; h_run := h_run s;
                       h_done := n; sl_send := true; sw_writing := sw_writing s;
                       sc_buf := sc_buf s; cr_hold := cr_hold s |}
      | 0 => None
      end
  | EToWriter =>
      if sl_send s && negb (sw_writing s) then
        Some {| c_new := c_new s; c_wait := c_wait s; c_done := c_done s; q := q s; h_writing := h_writing s;
                cw_writing := cw_writing s; cs_buf := cs_buf s; sr_hold := sr_hold s; h_run := h_run s;
                h_done := h_done s; sl_send := false; sw_writing := true;
                sc_buf := sc_buf s; cr_hold := cr_hold s |}
      else None
  | ESWrite =>
      if sw_writing s && (sc_buf s =? 0) && negb (cr_hold s) then
        Some {| c_new := c_new s; c_wait := c_wait s; c_done := c_done s; q := q s; h_writing := h_writing s;
                cw_writing := cw_writing s; cs_buf := cs_buf s; sr_hold := sr_hold s; h_run := h_run s;
                h_done := h_done s; sl_send := sl_send s; sw_writing := false;
                sc_buf := sc_buf s; cr_hold := true |}
      else None
  | ESWriteBuf =>
      if sw_writing s && (sc_buf s <? cap) then
        Some {| c_new := c_new s; c_wait := c_wait s; c_done := c_done s; q := q s; h_writing := h_writing s;
                cw_writing := cw_writing s; cs_buf := cs_buf s; sr_hold := sr_hold s; h_run := h_run s;
                h_done := h_done s; sl_send := sl_send s; sw_writing := false;
                sc_buf := S (sc_buf s); cr_hold := cr_hold s |}
      else None
  | ECRead =>
      match sc_buf s with
      | S n =>
          if cr_hold s then None
          else Some {| c_new := c_new s; c_wait := c_wait s; c_done := c_done s; q := q s; h_writing := h_writing s;
                       cw_writing := cw_writing s; cs_buf := cs_buf s; sr_hold := sr_hold s; h_run := h_run s;
                       h_done := h_done s; sl_send := sl_send s; sw_writing := sw_writing s;
                       sc_buf := n; cr_hold := true |}
      | 0 => None
      end
  | EDeliver =>
      (* the owner loop must be at its select to take the reply from its reader *)
      match c_wait s with
      | S n =>
          if cr_hold s && negb (match v with Current => h_writing s | Fixed => false end) then
            Some {| c_new := c_new s; c_wait := n; c_done := S (c_done s); q := q s; h_writing := h_writing s;
                    cw_writing := cw_writing s; cs_buf := cs_buf s; sr_hold := sr_hold s; h_run := h_run s;
                    h_done := h_done s; sl_send := sl_send s; sw_writing := sw_writing s;
                    sc_buf := sc_buf s; cr_hold := false |}
          else None
      | 0 => None
      end
  end.

Definition enabled (v : variant) (cap : nat) (s : st) (e : ev) : bool :=
  match step v cap s e with Some _ => true | None => false end.

Definition pending (s : st) : bool := negb ((c_new s + c_wait s) =? 0).

(* every goroutine is blocked although a call is pending *)
Definition stuck (v : variant) (cap : nat) (s : st) : bool :=
  pending s && forallb (fun e => negb (enabled v cap s e)) all_events.

Fixpoint run (v : variant) (cap : nat) (s : st) (sched : list ev) : option st :=
  match sched with
  | [] => Some s
  | e :: r => match step v cap s e with Some s' => run v cap s' r | None => None end
  end.

(* an adversarial scheduler: always the first enabled event in the order of
   [all_events] (everything downstream first, EDeliver last) *)
Fixpoint greedy (v : variant) (cap : nat) (fuel : nat) (s : st) : st :=
  match fuel with
  | 0 => s
  | S f =>
      match find (enabled v cap s) all_events with
      | Some e => match step v cap s e with Some s' => greedy v cap f s' | None => s end
      | None => s
      end
  end.

Definition greedy_stuck (v : variant) (cap n : nat) : bool :=
  stuck v cap (greedy v cap (13 * n + 13) (init n)).

(* the hand-written deadlock schedule for the current structure over an
   unbuffered connection: five calls, each parked one stage behind the other *)
Definition deadlock_schedule : list ev :=
  [ESubmit; ECWrite; ESpawn; EFinish; ECompleted; EToWriter; ESWrite;   (* A: reply sits in the client reader *)
   ESubmit; ECWrite; ESpawn; EFinish; ECompleted; EToWriter;            (* B: server writer blocked writing *)
   ESubmit; ECWrite; ESpawn; EFinish; ECompleted;                       (* C: serve loop blocked on responses<- *)
   ESubmit; ECWrite;                                                    (* D: server reader blocked on requests<- *)
   ESubmit].                                                            (* E: owner loop blocked in WriteFcall *)
