(* Model of /repo/readdir.go (mkNext1, NewReaddir, NewFixedReaddir,
   Readdir.Read) and of the client-side directory iterator of cfilesys.go
   (openDir.Next with the DecodeDir loop).

   Generic in the entry type [E] and its encoding [enc : E -> list N]
   (codec.Marshal of a Dir, which cannot fail: bytes.Buffer writes do not
   fail) and, for the client, in the decoder [dec] (DecodeDir).  The
   environment -- the batches the underlying ReadNext returns -- is an explicit
   script.  Executable definitions only; lemmas are in Proofs/ReaddirProofs.v. *)
From Coq Require Import List NArith ZArith Bool.
From P9 Require Import Base.Res.
Import ListNotations.
Open Scope N_scope.

Definition blen (p : list N) : N := N.of_nat (length p).

(* ---- the underlying iterator: one scripted result per call of ReadNext.
        An exhausted script answers like the harness's scripted iterator:
        (nil, nil), i.e. the empty batch that means "end". ---- *)
Inductive batch (E : Type) :=
| BOk (l : list E)
| BErr (e : list N).
Arguments BOk {E} l. Arguments BErr {E} e.

(* result of the single-entry iterator ReadNext1 *)
Inductive r1 (E : Type) :=
| Got (d : E)
| Eof               (* io.EOF *)
| Fail (e : list N).
Arguments Got {E} d. Arguments Eof {E}. Arguments Fail {E} e.

(* closure state of mkNext1: dirs, done, and what the wrapped ReadNext will still answer *)
Record nx1 (E : Type) := { n_dirs : list E; n_done : bool; n_script : list (batch E) }.
Arguments n_dirs {E} _. Arguments n_done {E} _. Arguments n_script {E} _.

Definition next1 {E} (s : nx1 E) : r1 E * nx1 E :=
  if n_done s then (Eof, s)
  else match n_dirs s with
       | d :: r => (Got d, {| n_dirs := r; n_done := false; n_script := n_script s |})
       | [] =>
           match n_script s with
           | [] => (Eof, {| n_dirs := []; n_done := true; n_script := [] |})
           | BErr e :: sc => (Fail e, {| n_dirs := []; n_done := false; n_script := sc |})
           | BOk [] :: sc => (Eof, {| n_dirs := []; n_done := true; n_script := sc |})
           | BOk (d :: r) :: sc => (Got d, {| n_dirs := r; n_done := false; n_script := sc |})
           end
       end.

(* ---- Readdir ---- *)
Record rdst (E : Type) := { r_nx : nx1 E; r_buf : option E; r_off : Z }.
Arguments r_nx {E} _. Arguments r_buf {E} _. Arguments r_off {E} _.

(* NewReaddir(codec, next) *)
Definition new_readdir {E} (script : list (batch E)) : rdst E :=
  {| r_nx := {| n_dirs := []; n_done := false; n_script := script |}; r_buf := None; r_off := 0%Z |}.
(* NewFixedReaddir(codec, ds): its own ReadNext1 hands out ds and then io.EOF for ever,
   which is what mkNext1 does over the one-batch script [ds] *)
Definition new_fixed_readdir {E} (ds : list E) : rdst E := new_readdir [BOk ds].

(* what Read returns: the entries whose encodings were appended to p (n = their
   total length), and the error if any.  ErrBadoffset and the (excluded) out-of-fuel
   outcome are separate. *)
Inductive rdres (E : Type) :=
| RdData (taken : list E) (err : option (list N))
| RdBadOff
| RdFuel.
Arguments RdData {E} taken err. Arguments RdBadOff {E}. Arguments RdFuel {E}.

Definition enc_all {E} (enc : E -> list N) (l : list E) : list N := concat (map enc l).

Definition batch_weight {E} (b : batch E) : nat :=
  match b with BOk l => S (length l) | BErr _ => 1 end.
Fixpoint script_weight {E} (s : list (batch E)) : nat :=
  match s with [] => 0 | b :: r => batch_weight b + script_weight r end.
(* an upper bound on the number of iterations of the loop in Read *)
Definition read_fuel {E} (nx : nx1 E) (buf : option E) : nat :=
  S (S (match buf with Some _ => 1 | None => 0 end + length (n_dirs nx) + script_weight (n_script nx))).

(* the loop  for len(p) < cap(p) { ... }  ; plen = len(p), cap = cap(p) = the read count.
   Returns (entries appended, err, iterator state, look-ahead buffer). *)
Fixpoint read_loop {E} (enc : E -> list N) (fuel : nat) (cap plen : N) (nx : nx1 E) (buf : option E)
  : option (list E * option (list N) * nx1 E * option E) :=
  match fuel with
  | O => None
  | S f =>
      if plen <? cap then
        let '(r, nx') := match buf with Some d => (Got d, nx) | None => next1 nx end in
        match r with
        | Eof => Some ([], None, nx', None)            (* io.EOF is swallowed *)
        | Fail e => Some ([], Some e, nx', None)
        | Got d =>
            let dp := enc d in
            if cap <? plen + blen dp then Some ([], None, nx', Some d)   (* will over fill: save item *)
            else match read_loop enc f cap (plen + blen dp) nx' None with
                 | Some (t, err, nx'', buf'') => Some (d :: t, err, nx'', buf'')
                 | None => None
                 end
        end
      else Some ([], None, nx, buf)
  end.

Definition read {E} (enc : E -> list N) (st : rdst E) (count : N) (offset : Z) : rdres E * rdst E :=
  if Z.eqb (r_off st) offset then
    match read_loop enc (read_fuel (r_nx st) (r_buf st)) count 0 (r_nx st) (r_buf st) with
    | None => (RdFuel, st)
    | Some (t, err, nx, buf) =>
        (* rd.offset += len(p) happens on the error path too *)
        (RdData t err, {| r_nx := nx; r_buf := buf; r_off := (r_off st + Z.of_N (blen (enc_all enc t)))%Z |})
    end
  else (RdBadOff, st).

(* a reader that issues reads with the given counts at the offset it keeps
   itself: the sum of the lengths of the successful replies so far *)
Fixpoint run_reads {E} (enc : E -> list N) (st : rdst E) (off : Z) (counts : list N) : list (rdres E) * rdst E :=
  match counts with
  | [] => ([], st)
  | c :: cs =>
      let '(r, st') := read enc st c off in
      let off' := match r with RdData t None => (off + Z.of_N (blen (enc_all enc t)))%Z | _ => off end in
      let '(rs, st'') := run_reads enc st' off' cs in
      (r :: rs, st'')
  end.

(* ---- client side: openDir.Next (cfilesys.go) ---- *)

(* DecodeDir on the unread rest of the chunk *)
Inductive dres (E : Type) :=
| DOk (d : E) (rest : list N)
| DEof                 (* io.EOF: nothing left *)
| DErr.                (* any other error (short read, malformed entry) *)
Arguments DOk {E} d rest. Arguments DEof {E}. Arguments DErr {E}.

(* for { DecodeDir ... } : entries decoded, and whether the loop ended with a non-EOF error *)
Fixpoint decode_all {E} (dec : list N -> dres E) (fuel : nat) (bs : list N) : list E * bool :=
  match fuel with
  | O => ([], true)
  | S f =>
      match dec bs with
      | DEof => ([], false)
      | DErr => ([], true)
      | DOk d rest => let '(l, e) := decode_all dec f rest in (d :: l, e)
      end
  end.

Record cdir := { c_done : bool; c_nread : Z }.
Definition new_cdir : cdir := {| c_done := false; c_nread := 0%Z |}.

(* what Next returns: (ret, err) -- both are returned when DecodeDir fails midway *)
Inductive nxres (E : Type) :=
| NxRet (ret : list E) (decode_err : bool)
| NxErr (e : list N)          (* error from the session's Read *)
| NxBadOff
| NxFuel.
Arguments NxRet {E} ret decode_err. Arguments NxErr {E} e. Arguments NxBadOff {E}. Arguments NxFuel {E}.

(* iounit = len(dir.buf).  Whether the session reports an empty reply as io.EOF
   (CSession.Read does) or as (0, nil) (a session used directly, like SFileSys)
   makes no difference: the first takes the `err == io.EOF` exit, the second runs the
   DecodeDir loop on an empty reader, which ends at once with io.EOF and no entries;
   both set done and return (nil/empty, nil). *)
Definition cl_next {E} (enc : E -> list N) (dec : list N -> dres E) (iounit : N)
    (c : cdir) (st : rdst E) : nxres E * cdir * rdst E :=
  if c_done c then (NxRet [] false, c, st)
  else
    let '(r, st') := read enc st iounit (c_nread c) in
    match r with
    | RdFuel => (NxFuel, c, st')
    | RdBadOff => (NxBadOff, c, st')
    | RdData _ (Some e) => (NxErr e, c, st')
    | RdData t None =>
        let bs := enc_all enc t in
        match bs with
        | [] => (NxRet [] false, {| c_done := true; c_nread := c_nread c |}, st')
        | _ =>
            let '(ret, e) := decode_all dec (S (length bs)) bs in
            (NxRet ret e,
             {| c_done := match ret with [] => true | _ => false end;
                c_nread := (c_nread c + Z.of_N (blen bs))%Z |}, st')
        end
    end.

(* the consumer of the iterator (mkNext1 on the client, cmd/9pr's ls, the harness):
   call Next until it returns no entries or an error *)
Fixpoint cl_all {E} (enc : E -> list N) (dec : list N -> dres E) (iounit : N)
    (fuel : nat) (c : cdir) (st : rdst E) : res (list E) :=
  match fuel with
  | O => Hang
  | S f =>
      let '(r, c', st') := cl_next enc dec iounit c st in
      match r with
      | NxRet [] false => Ok []
      | NxRet ret false =>
          match cl_all enc dec iounit f c' st' with Ok l => Ok (ret ++ l) | o => o end
      | NxRet _ true => Err []
      | NxErr e => Err e
      | NxBadOff => Err []
      | NxFuel => Hang
      end
  end.
