(* Model of /repo/channel.go (framing) and overflow.go: maybeTruncate,
   msgmsize, sendmsg/WriteFcall, readmsg/ReadFcall (after the repairs of D1
   and D2).  The connection is a byte list; bufio is byte-transparent. *)
From Coq Require Import List NArith ZArith Bool.
From P9 Require Import Base.Res Base.Bytes Model.WireTypes Model.Spec9P Model.Wire.
Import ListNotations.
Open Scope N_scope.

Definition E_CTX : list N := [10].       (* the context was already done / channel closed *)
Definition E_BADSIZE : list N := [11].   (* frame size below 4 *)

(* msgmsize: channelMessageHeaderSize + codec.Size(fcall), a Go int (no wrap at 64 bits) *)
Definition msgmsize (f : fcall) : N := 4 + size_fcall f.

Inductive trunc_res :=
| TOk (f : fcall)
| TOverflow (k : N).

Definition get_int (v : val) : N := match v with VF (FInt _ n) => n | _ => 0 end.
Definition get_data (v : val) : bytes := match v with VF (FData d) => d | _ => [] end.

Definition maybe_truncate (msize : N) (f : fcall) : trunc_res :=
  if fc_type f =? T_Tread then
    match fc_fields f with
    | [fid; off; VF (FInt w count)] =>
        (* overflow := uint32(msgmsize(Rread{})) + Count - uint32(msize), all uint32; msgmsize(Rread{}) = 11 *)
        let overflow := (11 + count + (M32 - msize mod M32)) mod M32 in
        if count <? overflow then TOk f
        else TOk {| fc_type := fc_type f; fc_tag := fc_tag f; fc_fields := [fid; off; VF (FInt w (count - overflow))] |}
    | _ => TOk f
    end
  else if fc_type f =? T_Twrite then
    match fc_fields f with
    | [fid; off; VF (FData d)] =>
        let size := msgmsize f in
        if size <=? msize then TOk f
        else
          let overflow := size - msize in
          if len d <? overflow then TOverflow overflow
          else TOk {| fc_type := fc_type f; fc_tag := fc_tag f; fc_fields := [fid; off; VF (FData (take (len d - overflow) d))] |}
    | _ => TOk f
    end
  else
    let size := msgmsize f in
    if msize <? size then TOverflow (size - msize) else TOk f.

(* sendmsg: size[4] = uint32(len(p)+4), then p *)
Definition frame (p : bytes) : bytes := le 4 ((len p + 4) mod M32) ++ p.

Inductive write_res :=
| WSent                 (* nil error *)
| WCtx                  (* context done or channel closed: nothing written *)
| WOverflow (k : N).    (* overflow error: nothing written *)

(* WriteFcall: the bytes put on the connection, the result, and the (possibly rewritten) fcall *)
Definition write_fcall (msize : N) (live : bool) (f : fcall) : bytes * write_res :=
  if negb live then ([], WCtx)
  else match maybe_truncate msize f with
       | TOverflow k => ([], WOverflow k)
       | TOk f' => (frame (enc_fcall f'), WSent)
       end.

(* ---- reading ---- *)
Inductive read_out :=
| RMsg (f : fcall)
| ROverflow (k : N)
| RErr (e : list N)     (* E_EOF / E_UEOF (stream ended), E_BADSIZE, or a decode error class *)
| RPanic.               (* the Go code would panic (unreachable: Properties/C03.v) *)

(* overwrite the front of the reused read buffer with the bytes just read *)
Definition fill (buf : bytes) (body : bytes) : bytes := body ++ drop (len body) buf.

(* ReadFcall msize rdbuf stream = (outcome, rdbuf', rest of stream); len rdbuf = msize.
   A stream that ends inside a frame is consumed entirely. *)
Definition read_fcall (msize : N) (rdbuf : bytes) (s : bytes) : read_out * bytes * bytes :=
  match rd 4 s with
  | Err e => (RErr e, rdbuf, [])
  | Panic | Hang => (RPanic, rdbuf, [])
  | Ok (hdr, s1) =>
      let L := unle hdr in
      if L <? 4 then (RErr E_BADSIZE, rdbuf, s1)
      else
        let mbody := L - 4 in
        let want := N.min mbody msize in          (* p = p[:mbody] when mbody < len(p) *)
        match rd want s1 with
        | Err e => (RErr e, fill rdbuf s1, [])    (* io.ReadFull failed: partial bytes landed in the buffer *)
        | Panic | Hang => (RPanic, rdbuf, [])
        | Ok (body, s2) =>
            let buf' := fill rdbuf body in
            if msize <? mbody then
              (* discard the rest of the oversize frame *)
              match rd (mbody - msize) s2 with
              | Ok (_, s3) => (ROverflow (L - msize), buf', s3)
              | _ => (RErr E_EOF, buf', [])       (* io.CopyN reports io.EOF when the source ends early *)
              end
            else if msize <? L then (ROverflow (L - msize), buf', s2)   (* n > len(rdbuf) although the body fitted *)
            else
              match dec_fcall (take (L - 4) buf') with
              | Ok f => match maybe_truncate msize f with
                        | TOk f' => (RMsg f', buf', s2)
                        | TOverflow k => (ROverflow k, buf', s2)
                        end
              | Err e => (RErr e, buf', s2)
              | Panic | Hang => (RPanic, buf', s2)
              end
        end
  end.

(* read up to n frames in a row (the harness calls ReadFcall repeatedly) *)
Fixpoint read_many (n : nat) (msize : N) (rdbuf : bytes) (s : bytes) : list read_out :=
  match n with
  | O => []
  | S n' => let '(o, b, r) := read_fcall msize rdbuf s in o :: read_many n' msize b r
  end.

(* the same, also returning the buffer and the unread stream (for a SetMSize between two reads) *)
Fixpoint read_many_st (n : nat) (msize : N) (rdbuf : bytes) (s : bytes) : list read_out * bytes * bytes :=
  match n with
  | O => ([], rdbuf, s)
  | S n' => let '(o, b, r) := read_fcall msize rdbuf s in
            let '(os, b', r') := read_many_st n' msize b r in (o :: os, b', r')
  end.
