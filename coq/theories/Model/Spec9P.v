(* The 9P2000 message formats, transcribed by hand from intro(5) and stat(5)
   of the Plan 9 manual -- independent of /repo's code.

     size[4] Tversion tag[2] msize[4] version[s]      size[4] Rversion tag[2] msize[4] version[s]
     size[4] Tauth tag[2] afid[4] uname[s] aname[s]   size[4] Rauth tag[2] aqid[13]
     size[4] Rerror tag[2] ename[s]
     size[4] Tflush tag[2] oldtag[2]                  size[4] Rflush tag[2]
     size[4] Tattach tag[2] fid[4] afid[4] uname[s] aname[s]   size[4] Rattach tag[2] qid[13]
     size[4] Twalk tag[2] fid[4] newfid[4] nwname[2] nwname*(wname[s])
     size[4] Rwalk tag[2] nwqid[2] nwqid*(wqid[13])
     size[4] Topen tag[2] fid[4] mode[1]              size[4] Ropen tag[2] qid[13] iounit[4]
     size[4] Tcreate tag[2] fid[4] name[s] perm[4] mode[1]     size[4] Rcreate tag[2] qid[13] iounit[4]
     size[4] Tread tag[2] fid[4] offset[8] count[4]   size[4] Rread tag[2] count[4] data[count]
     size[4] Twrite tag[2] fid[4] offset[8] count[4] data[count]   size[4] Rwrite tag[2] count[4]
     size[4] Tclunk tag[2] fid[4]                     size[4] Rclunk tag[2]
     size[4] Tremove tag[2] fid[4]                    size[4] Rremove tag[2]
     size[4] Tstat tag[2] fid[4]                      size[4] Rstat tag[2] stat[n]
     size[4] Twstat tag[2] fid[4] stat[n]             size[4] Rwstat tag[2]

   Integers are little-endian; s = 2-byte count followed by that many bytes;
   a qid is type[1] vers[4] path[8]; stat[n] in Rstat/Twstat is a 2-byte count n
   followed by n bytes which are a stat record; a stat record is
     size[2] type[2] dev[4] qid.type[1] qid.vers[4] qid.path[8] mode[4] atime[4] mtime[4]
     length[8] name[s] uid[s] gid[s] muid[s]
   where size counts the bytes that follow it.  The leading size[4] of every
   message is written by the channel (Model/Channel.v), not by the codec. *)
From Coq Require Import List NArith ZArith Bool.
From P9 Require Import Base.Bytes Model.WireTypes.
Import ListNotations.
Open Scope N_scope.

Definition T_Tversion := 100. Definition T_Rversion := 101. Definition T_Tauth := 102. Definition T_Rauth := 103.
Definition T_Tattach := 104.  Definition T_Rattach := 105.  Definition T_Rerror := 107.
Definition T_Tflush := 108.   Definition T_Rflush := 109.   Definition T_Twalk := 110. Definition T_Rwalk := 111.
Definition T_Topen := 112.    Definition T_Ropen := 113.    Definition T_Tcreate := 114. Definition T_Rcreate := 115.
Definition T_Tread := 116.    Definition T_Rread := 117.    Definition T_Twrite := 118. Definition T_Rwrite := 119.
Definition T_Tclunk := 120.   Definition T_Rclunk := 121.   Definition T_Tremove := 122. Definition T_Rremove := 123.
Definition T_Tstat := 124.    Definition T_Rstat := 125.    Definition T_Twstat := 126. Definition T_Rwstat := 127.

(* the kinds of the fields after tag[2], per type byte *)
Definition spec_kinds_table : list (N * list kind) :=
  [(100, [KInt 4; KStr]); (101, [KInt 4; KStr]);
   (102, [KInt 4; KStr; KStr]); (103, [KQid]);
   (104, [KInt 4; KInt 4; KStr; KStr]); (105, [KQid]);
   (107, [KStr]);
   (108, [KInt 2]); (109, []);
   (110, [KInt 4; KInt 4; KStrs]); (111, [KQids]);
   (112, [KInt 4; KInt 1]); (113, [KQid; KInt 4]);
   (114, [KInt 4; KStr; KInt 4; KInt 1]); (115, [KQid; KInt 4]);
   (116, [KInt 4; KInt 8; KInt 4]); (117, [KData]);
   (118, [KInt 4; KInt 8; KData]); (119, [KInt 4]);
   (120, [KInt 4]); (121, []);
   (122, [KInt 4]); (123, []);
   (124, [KInt 4]); (125, [KDir]);
   (126, [KInt 4; KDir]); (127, [])].

Definition spec_types : list N := map fst spec_kinds_table.

Fixpoint assoc_N {A} (k : N) (l : list (N * A)) : option A :=
  match l with
  | [] => None
  | (k', v) :: r => if k =? k' then Some v else assoc_N k r
  end.
Definition kinds_of_type (ty : N) : option (list kind) := assoc_N ty spec_kinds_table.

(* stat record fields after size[2] (names are the manual's) *)
Definition spec_dir_fields : list (list N * kind) :=
  [([116;121;112;101], KInt 2); ([100;101;118], KInt 4); ([113;105;100], KQid); ([109;111;100;101], KInt 4);
   ([97;116;105;109;101], KTime); ([109;116;105;109;101], KTime); ([108;101;110;103;116;104], KInt 8);
   ([110;97;109;101], KStr); ([117;105;100], KStr); ([103;105;100], KStr); ([109;117;105;100], KStr)].
Definition spec_dir_kinds : list kind := map snd spec_dir_fields.
Definition spec_qid_kinds : list kind := [KInt 1; KInt 4; KInt 8].

(* ---- the layouts, written in the manual's notation ---- *)
Definition u8 (n : N) := le 1 n.   Definition u16 (n : N) := le 2 n.
Definition u32 (n : N) := le 4 n.  Definition u64 (n : N) := le 8 n.
Definition s_ (s : bytes) := u16 (len s) ++ s.
Definition qid13 (q : qid) := u8 (q_type q) ++ u32 (q_vers q) ++ u64 (q_path q).

(* a stat record: size[2] followed by the fields *)
Definition stat_record (fs : list fval) : option bytes :=
  match fs with
  | [FInt 2 ty; FInt 4 dev; FQid q; FInt 4 mode; FTime atime; FTime mtime; FInt 8 length; FStr name; FStr uid; FStr gid; FStr muid] =>
      let body := u16 ty ++ u32 dev ++ qid13 q ++ u32 mode ++ u32 (Z.to_N atime) ++ u32 (Z.to_N mtime) ++ u64 length
                  ++ s_ name ++ s_ uid ++ s_ gid ++ s_ muid in
      Some (u16 (len body) ++ body)
  | _ => None
  end.

(* stat[n]: n[2] followed by n bytes holding a stat record *)
Definition stat_n (fs : list fval) : option bytes :=
  match stat_record fs with Some r => Some (u16 (len r) ++ r) | None => None end.

Definition spec_body (ty : N) (vs : list val) : option bytes :=
  match ty, vs with
  | 100, [VF (FInt 4 msize); VF (FStr version)] => Some (u32 msize ++ s_ version)
  | 101, [VF (FInt 4 msize); VF (FStr version)] => Some (u32 msize ++ s_ version)
  | 102, [VF (FInt 4 afid); VF (FStr uname); VF (FStr aname)] => Some (u32 afid ++ s_ uname ++ s_ aname)
  | 103, [VF (FQid aqid)] => Some (qid13 aqid)
  | 104, [VF (FInt 4 fid); VF (FInt 4 afid); VF (FStr uname); VF (FStr aname)] => Some (u32 fid ++ u32 afid ++ s_ uname ++ s_ aname)
  | 105, [VF (FQid q)] => Some (qid13 q)
  | 107, [VF (FStr ename)] => Some (s_ ename)
  | 108, [VF (FInt 2 oldtag)] => Some (u16 oldtag)
  | 109, [] => Some []
  | 110, [VF (FInt 4 fid); VF (FInt 4 newfid); VF (FStrs wnames)] => Some (u32 fid ++ u32 newfid ++ u16 (len wnames) ++ concat (map s_ wnames))
  | 111, [VF (FQids wqids)] => Some (u16 (len wqids) ++ concat (map qid13 wqids))
  | 112, [VF (FInt 4 fid); VF (FInt 1 mode)] => Some (u32 fid ++ u8 mode)
  | 113, [VF (FQid q); VF (FInt 4 iounit)] => Some (qid13 q ++ u32 iounit)
  | 114, [VF (FInt 4 fid); VF (FStr name); VF (FInt 4 perm); VF (FInt 1 mode)] => Some (u32 fid ++ s_ name ++ u32 perm ++ u8 mode)
  | 115, [VF (FQid q); VF (FInt 4 iounit)] => Some (qid13 q ++ u32 iounit)
  | 116, [VF (FInt 4 fid); VF (FInt 8 offset); VF (FInt 4 count)] => Some (u32 fid ++ u64 offset ++ u32 count)
  | 117, [VF (FData data)] => Some (u32 (len data) ++ data)
  | 118, [VF (FInt 4 fid); VF (FInt 8 offset); VF (FData data)] => Some (u32 fid ++ u64 offset ++ u32 (len data) ++ data)
  | 119, [VF (FInt 4 count)] => Some (u32 count)
  | 120, [VF (FInt 4 fid)] => Some (u32 fid)
  | 121, [] => Some []
  | 122, [VF (FInt 4 fid)] => Some (u32 fid)
  | 123, [] => Some []
  | 124, [VF (FInt 4 fid)] => Some (u32 fid)
  | 125, [VDir st] => stat_n st
  | 126, [VF (FInt 4 fid); VDir st] => match stat_n st with Some b => Some (u32 fid ++ b) | None => None end
  | 127, [] => Some []
  | _, _ => None
  end.

(* type[1] tag[2] body -- everything after the channel's size[4] *)
Definition spec_layout (f : fcall) : option bytes :=
  match spec_body (fc_type f) (fc_fields f) with
  | Some b => Some (u8 (fc_type f) ++ u16 (fc_tag f) ++ b)
  | None => None
  end.
