(* C16: WalkName / CreateName on canonical directories, NormalizePath.  Builds on the
   path.Clean/Join lemmas of Proofs/PathExtra.v and UfsProofsMirror.v. *)
From Coq Require Import List NArith ZArith Bool Lia.
From P9 Require Import Base.Res Model.Path Model.Ufs Proofs.PathProofs Proofs.PathExtra Proofs.UfsProofsPath Proofs.UfsProofsMirror.
Import ListNotations.
Open Scope N_scope.

(* ---------- WalkName ---------- *)
Definition map_res {A B} (f : A -> B) (r : res A) : res B :=
  match r with Ok a => Ok (f a) | Err e => Err e | Panic => Panic | Hang => Hang end.

(* accepted names: WalkName is stepwise resolution (also for the empty list), and the result is canonical *)
Theorem walk_name_is_resolution q ns : Forall good q -> names_okb true ns = true ->
  walk_name (render q) ns = map_res render (resolve_names q ns) /\
  (forall q', resolve_names q ns = Ok q' -> Forall good q').
Proof.
  intros Hq Hn. destruct ns as [|s r].
  - split; [|intros q' E; injection E as <-; exact Hq].
    cbn [resolve_names map_res]. unfold walk_name, render. cbv iota.
    change (SLASH :: join_slash q) with (render q).
    rewrite depth_render by (apply good_okcomp; exact Hq).
    change (valid_path []) with 0%Z.
    destruct (Z.ltb_spec (Z.of_nat (length q)) 0); [lia|]. cbn [orb Z.ltb Z.compare].
    f_equal. change (path_join []) with (@nil N).
    change (path_join [render q; []]) with (path_clean (render q)).
    rewrite render_rendered. apply clean_rendered. apply good_okcomp; exact Hq.
  - destruct (walk_name_resolve q (s :: r) Hq Hn ltac:(discriminate)) as [E Hg].
    split; [|exact Hg]. rewrite E. destruct (resolve_names q (s :: r)); reflexivity.
Qed.

(* rejected names: an error *)
Theorem walk_name_rejects q ns : names_okb true ns = false -> walk_name (render q) ns = Err [].
Proof.
  intros Hn. unfold walk_name, render. cbv iota.
  rewrite <- names_ok_eq in Hn. apply negb_false_iff in Hn. rewrite Hn. reflexivity.
Qed.

Lemma rev_skipn_rev {X} k (q : list X) : rev (skipn k (rev q)) = firstn (length q - k) q.
Proof.
  assert (Hq : q = rev (skipn k (rev q)) ++ rev (firstn k (rev q))).
  { rewrite <- rev_app_distr, firstn_skipn, rev_involutive. reflexivity. }
  assert (Hl : length (rev (skipn k (rev q))) = (length q - k)%nat).
  { rewrite rev_length, skipn_length, rev_length. reflexivity. }
  rewrite Hq at 3. rewrite <- Hl. rewrite firstn_app, Nat.sub_diag, firstn_all. cbn [firstn]. rewrite app_nil_r. reflexivity.
Qed.

(* resolution fails exactly when the leading run of ".." is longer than the directory is deep *)
Theorem resolve_climbs q k rest : forallb goodb rest = true ->
  resolve_names q (repeat DOTDOT k ++ rest) =
    if Nat.leb k (length q) then Ok (firstn (length q - k) q ++ rest) else Err [].
Proof.
  intros Hr. rewrite resolve_dotdots by exact Hr.
  destruct (Nat.leb_spec k (length q)) as [Hle|Hgt]; [|reflexivity].
  f_equal. rewrite rev_app_distr, rev_involutive. f_equal. apply rev_skipn_rev.
Qed.

(* the accepted names are those of the property text *)
Lemma ordinary_goodb s : ordinary s -> goodb s = true.
Proof.
  intros H. destruct (ordinary_flags s H) as (E1 & E2 & E3 & E4). unfold goodb. rewrite E1, E2, E3, E4. reflexivity.
Qed.

Lemma names_okb_iff ns : names_okb true ns = true <->
  exists k rest, ns = repeat DOTDOT k ++ rest /\ Forall ordinary rest.
Proof.
  split.
  - intros H. destruct (names_decompose ns H) as (k & rest & -> & Hr). exists k, rest. split; [reflexivity|apply goodb_ordinary; exact Hr].
  - intros (k & rest & -> & Hr). rewrite <- names_ok_eq. rewrite valid_path_accepts by exact Hr.
    destruct (Z.ltb_spec (Z.of_nat k) 0); [lia|reflexivity].
Qed.

(* ---------- NormalizePath ---------- *)
(* lenient stepwise resolution: "" and "." are no-ops *)
Fixpoint resolve_len (dir : list bstr) (ns : list bstr) : res (list bstr) :=
  match ns with
  | [] => Ok dir
  | s :: r =>
      if is_empty s || is_dot s then resolve_len dir r
      else if is_dotdot s then match dir with [] => Err [] | _ => resolve_len (removelast dir) r end
      else resolve_len (dir ++ [s]) r
  end.

Lemma resolve_names_app l1 : forall q l2,
  resolve_names q (l1 ++ l2) = bind (resolve_names q l1) (fun d => resolve_names d l2).
Proof.
  induction l1 as [|s r IH]; intros q l2; cbn [app resolve_names bind]; [reflexivity|].
  destruct (is_dotdot s); [destruct q; [reflexivity|apply IH]|apply IH].
Qed.

(* the loop invariant of NormalizePath: the stack is lo leading ".." followed by ordinary names *)
Definition norm_inv (stk : list bstr) (lo : Z) (ord : list bstr) : Prop :=
  (0 <= lo)%Z /\ stk = rev (repeat DOTDOT (Z.to_nat lo) ++ ord) /\ Forall ordinary ord.

Lemma norm_inv_length stk lo ord : norm_inv stk lo ord -> Z.of_nat (length stk) = (lo + Z.of_nat (length ord))%Z.
Proof. intros (H0 & -> & _). rewrite rev_length, app_length, repeat_length. lia. Qed.

Lemma normalize_go_spec args : forall stk lo ord, norm_inv stk lo ord ->
  match normalize_go args stk lo with
  | None => existsb has_sep args = true
  | Some (ms, k) =>
      existsb has_sep args = false /\
      (exists ord', ms = repeat DOTDOT (Z.to_nat k) ++ ord' /\ Forall ordinary ord' /\ (lo <= k)%Z) /\
      (forall q, resolve_names q ms = bind (resolve_names q (rev stk)) (fun d => resolve_len d args))
  end.
Proof.
  induction args as [|s r IH]; intros stk lo ord Hinv; cbn [normalize_go existsb].
  - destruct Hinv as (H0 & Hs & Ho). split; [reflexivity|]. split.
    + exists ord. rewrite Hs, rev_involutive. repeat split; auto. lia.
    + intros q. destruct (resolve_names q (rev stk)); reflexivity.
  - destruct (has_sep s) eqn:E4; [reflexivity|]. cbn [orb].
    destruct (is_empty s || is_dot s) eqn:E12.
    + specialize (IH stk lo ord Hinv). destruct (normalize_go r stk lo) as [[ms k]|]; [|exact IH].
      destruct IH as (Hs & Ho & Hr). repeat split; auto.
      intros q. rewrite Hr. destruct (resolve_names q (rev stk)); cbn [bind resolve_len]; try reflexivity. rewrite E12. reflexivity.
    + apply orb_false_iff in E12 as [E1 E2].
      destruct (is_dotdot s) eqn:E3.
      * apply is_dotdot_spec in E3. subst s.
        pose proof (norm_inv_length stk lo ord Hinv) as Hlen.
        destruct Hinv as (H0 & Hs & Ho).
        destruct (Z.ltb_spec lo (Z.of_nat (length stk))) as [Hpop|Hnopop].
        -- (* pop the last ordinary name *)
           assert (Hne : ord <> []) by (intros ->; cbn [length] in Hlen; lia).
           destruct (exists_last Hne) as (ord0 & t & ->).
           apply Forall_app in Ho as [Ho0 Ht]. pose proof (Forall_inv Ht) as Ht1.
           assert (Hstk : stk = t :: rev (repeat DOTDOT (Z.to_nat lo) ++ ord0)).
           { rewrite Hs, app_assoc, rev_unit. reflexivity. }
           rewrite Hstk. cbn [tl].
           specialize (IH (rev (repeat DOTDOT (Z.to_nat lo) ++ ord0)) lo ord0 ltac:(repeat split; auto)).
           destruct (normalize_go r _ lo) as [[ms k]|]; [|exact IH].
           destruct IH as (Hsep & Hord & Hr). repeat split; auto.
           intros q. rewrite Hr. cbn [rev]. rewrite !rev_involutive.
           rewrite (resolve_names_app (repeat DOTDOT (Z.to_nat lo) ++ ord0) q [t]).
           destruct (resolve_names q (repeat DOTDOT (Z.to_nat lo) ++ ord0)) as [d| | |]; cbn [bind resolve_names]; try reflexivity.
           destruct (ordinary_flags t Ht1) as (_ & _ & F3 & _). rewrite F3. cbn [resolve_names bind resolve_len].
           change (is_empty DOTDOT || is_dot DOTDOT) with false. change (is_dotdot DOTDOT) with true. cbv iota.
           destruct (d ++ [t]) as [|y l] eqn:Ed; [destruct d; discriminate|]. rewrite <- Ed, removelast_last. reflexivity.
        -- (* cannot pop: one more leading ".." *)
           assert (Hord : ord = []) by (destruct ord; [reflexivity|cbn [length] in Hlen; lia]). subst ord.
           rewrite app_nil_r in Hs.
           specialize (IH (DOTDOT :: stk) (lo + 1)%Z []).
           assert (Hinv' : norm_inv (DOTDOT :: stk) (lo + 1) []).
           { repeat split; [lia| |constructor]. rewrite app_nil_r, Hs.
             replace (Z.to_nat (lo + 1)) with (S (Z.to_nat lo)) by lia.
             rewrite <- (repeat_rev DOTDOT (S _)), rev_involutive, <- (repeat_rev DOTDOT (Z.to_nat lo)), rev_involutive. reflexivity. }
           specialize (IH Hinv').
           destruct (normalize_go r (DOTDOT :: stk) (lo + 1)) as [[ms k]|]; [|exact IH].
           destruct IH as (Hsep & (ord' & Hms & Ho' & Hk) & Hr). split; [exact Hsep|]. split.
           ++ exists ord'. repeat split; auto. lia.
           ++ intros q. rewrite Hr. cbn [rev]. rewrite resolve_names_app.
              destruct (resolve_names q (rev stk)) as [d| | |]; cbn [bind resolve_names resolve_len]; try reflexivity.
              change (is_empty DOTDOT || is_dot DOTDOT) with false. change (is_dotdot DOTDOT) with true. cbv iota.
              destruct d; reflexivity.
      * (* an ordinary name *)
        assert (Hs_ord : ordinary s).
        { repeat split; auto; intros ->; discriminate. }
        destruct Hinv as (H0 & Hs & Ho).
        specialize (IH (s :: stk) lo (ord ++ [s])).
        assert (Hinv' : norm_inv (s :: stk) lo (ord ++ [s])).
        { repeat split; auto; [|apply Forall_app; split; [exact Ho|constructor; [exact Hs_ord|constructor]]].
          rewrite app_assoc, rev_unit, <- Hs. reflexivity. }
        specialize (IH Hinv').
        destruct (normalize_go r (s :: stk) lo) as [[ms k]|]; [|exact IH].
        destruct IH as (Hsep & (ord' & Hms & Ho' & Hk) & Hr). split; [exact Hsep|]. split.
        -- exists ord'. repeat split; auto.
        -- intros q. rewrite Hr. cbn [rev]. rewrite resolve_names_app.
           destruct (resolve_names q (rev stk)) as [d| | |]; cbn [bind resolve_names resolve_len]; try reflexivity.
           rewrite E3, E1, E2. reflexivity.
Qed.

Theorem normalize_spec ns :
  match normalize_go ns [] 0 with
  | None => existsb has_sep ns = true /\ normalize_path ns = ([], (-1)%Z)
  | Some (ms, k) =>
      normalize_path ns = (ms, k) /\ existsb has_sep ns = false /\ (0 <= k)%Z /\
      (exists ord, ms = repeat DOTDOT (Z.to_nat k) ++ ord /\ Forall ordinary ord) /\
      (forall q, resolve_names q ms = resolve_len q ns)
  end.
Proof.
  pose proof (normalize_go_spec ns [] 0%Z [] ltac:(unfold norm_inv; split; [lia|split; [reflexivity|constructor]])) as H.
  unfold normalize_path. destruct (normalize_go ns [] 0) as [[ms k]|].
  - destruct H as (Hs & (ord & Hms & Ho & Hk) & Hr). repeat split; auto. exists ord; auto.
  - split; [exact H|reflexivity].
Qed.

(* the normalised list is valid with exactly k leading "..", and normalising it again changes nothing *)
Theorem normalize_idempotent ns ms k : normalize_path ns = (ms, k) -> (0 <= k)%Z ->
  normalize_path ms = (ms, k) /\ valid_path ms = k.
Proof.
  intros E Hk. pose proof (normalize_spec ns) as H. unfold normalize_path in E.
  destruct (normalize_go ns [] 0) as [[ms' k']|]; [|injection E as <- <-; lia].
  injection E as <- <-. destruct H as (_ & _ & _ & (ord & Hms & Ho) & _).
  assert (Hv : valid_path ms' = k') by (rewrite Hms, valid_path_accepts by exact Ho; lia).
  split; [|exact Hv].
  (* run the loop on repeat ".." k ++ ord *)
  assert (G : forall j stk lo, norm_inv stk lo [] -> (j + Z.to_nat lo = Z.to_nat k')%nat ->
              normalize_go (repeat DOTDOT j ++ ord) stk lo = Some (rev stk ++ repeat DOTDOT j ++ ord, k')).
  { induction j as [|j IHj]; intros stk lo Hinv Hj.
    - cbn [repeat app].
      assert (Hord : forall o stk0, Forall ordinary o -> normalize_go o stk0 lo = Some (rev stk0 ++ o, lo)).
      { induction o as [|s o IHo]; intros stk0 Hfo; cbn [normalize_go]; [rewrite app_nil_r; reflexivity|].
        inversion Hfo as [|? ? Hs Hro]; subst. destruct (ordinary_flags s Hs) as (E1 & E2 & E3 & E4).
        rewrite E4, E1, E2, E3. cbn [orb]. rewrite IHo by exact Hro. cbn [rev]. rewrite <- app_assoc. reflexivity. }
      rewrite Hord by exact Ho. f_equal. f_equal. destruct Hinv as (H0 & _ & _). lia.
    - cbn [repeat app normalize_go]. change (has_sep DOTDOT) with false. change (is_empty DOTDOT || is_dot DOTDOT) with false.
      change (is_dotdot DOTDOT) with true. cbv iota.
      pose proof (norm_inv_length stk lo [] Hinv) as Hlen. cbn [length] in Hlen.
      destruct (Z.ltb_spec lo (Z.of_nat (length stk))); [lia|].
      destruct Hinv as (H0 & Hs & _). rewrite app_nil_r in Hs.
      rewrite IHj.
      + cbn [rev]. rewrite <- app_assoc. reflexivity.
      + repeat split; [lia| |constructor]. rewrite app_nil_r, Hs.
        replace (Z.to_nat (lo + 1)) with (S (Z.to_nat lo)) by lia.
        rewrite <- (repeat_rev DOTDOT (S _)), rev_involutive, <- (repeat_rev DOTDOT (Z.to_nat lo)), rev_involutive. reflexivity.
      + lia. }
  unfold normalize_path. rewrite Hms.
  rewrite (G (Z.to_nat k') [] 0%Z); [reflexivity| |lia].
  unfold norm_inv; split; [lia|split; [reflexivity|constructor]].
Qed.

(* ToWalk: the steps it returns are valid names; none climbs when the path is absolute *)
Theorem to_walk_valid p isabs steps : to_walk p = (isabs, Ok steps) ->
  (0 <= valid_path steps)%Z /\ (isabs = true -> valid_path steps = 0%Z) /\
  (forall q, resolve_names q steps = resolve_len q (split_slash (trim_slash p))).
Proof.
  unfold to_walk. intros E.
  pose proof (normalize_spec (split_slash (trim_slash p))) as H.
  destruct (normalize_path (split_slash (trim_slash p))) as [ms k] eqn:En.
  destruct (normalize_go (split_slash (trim_slash p)) [] 0) as [[ms' k']|].
  - destruct H as (Hn & _ & Hk & _ & Hr). injection Hn as <- <-.
    destruct (normalize_idempotent _ _ _ En Hk) as (_ & Hv).
    destruct (path_is_abs p).
    + injection E as <- E. destruct (Z.eqb_spec k 0); [|discriminate]. injection E as <-.
      repeat split; auto; lia.
    + injection E as <- E. destruct (Z.ltb_spec k 0); [discriminate|]. injection E as <-.
      repeat split; auto; try lia; intros Habs; discriminate Habs.
  - destruct H as (_ & Hn). injection Hn as -> ->.
    destruct (path_is_abs p); injection E as _ E; cbn in E; discriminate E.
Qed.
