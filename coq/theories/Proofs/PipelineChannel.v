(* Bridge between the two transcriptions of channel.maybeTruncate: Pipeline.chan_truncate (C09, over
   the regenerated struct table, in Z) and Channel.maybe_truncate (C02/C03/C10, in N with explicit
   mod 2^32).  On every wire-representable message they agree, so C09's clamps are the ones whose
   framing theorems are proved in C02/C03. *)
From Coq Require Import List NArith ZArith Lia Bool String.
From Coq Require Import ZifyBool ZifyNat ZifyN.
From P9 Require Import Base.Res Base.Bytes Model.WireTypes Model.Spec9P Model.Wire Model.Channel Model.Pipeline
  Gen.GenWire Proofs.BytesProofs Proofs.WireProofs Proofs.WireLayout Proofs.ChannelProofs.
Import ListNotations.
Ltac Zify.zify_post_hook ::= Z.div_mod_to_equations.

Arguments N.mul : simpl never.
Arguments N.add : simpl never.
Arguments N.sub : simpl never.
Arguments N.pow : simpl never.
Arguments N.modulo : simpl never.
Arguments N.ltb : simpl never.
Arguments N.leb : simpl never.
Arguments N.eqb : simpl never.
Arguments Z.mul : simpl never.
Arguments Z.add : simpl never.
Arguments Z.sub : simpl never.
Arguments Z.pow : simpl never.
Arguments Z.modulo : simpl never.
Arguments Z.ltb : simpl never.
Arguments Z.leb : simpl never.
Arguments le : simpl never.

Lemma zlen_len {A} (l : list A) : zlen l = Z.of_N (len l).
Proof. unfold zlen, len. lia. Qed.

Lemma sumZ_sumN {A} (f : A -> Z) (g : A -> N) l : (forall x, f x = Z.of_N (g x)) ->
  sumZ (map f l) = Z.of_N (sumN (map g l)).
Proof.
  intros H. induction l as [|x l IH]; cbn [map sumZ sumN fold_right]; [reflexivity|].
  fold (sumZ (map f l)) (sumN (map g l)). rewrite H, IH. lia.
Qed.

Lemma fval_size_len f : fval_size f = Z.of_N (len (enc_fval f)).
Proof.
  destruct f as [w n|s|d|l|q|l|t]; cbn [fval_size enc_fval].
  - rewrite len_le. lia.
  - rewrite len_enc_str, zlen_len. lia.
  - rewrite len_app, len_le, zlen_len. lia.
  - rewrite len_app, len_le, len_concat_map.
    rewrite (sumZ_sumN (fun s => (2 + zlen s)%Z) (fun s => len (enc_str s))).
    + unfold bytes. lia.
    + intros s. rewrite len_enc_str, zlen_len. lia.
  - rewrite len_enc_qid. reflexivity.
  - rewrite len_app, len_le, len_concat_qids, zlen_len. lia.
  - rewrite len_le. reflexivity.
Qed.

Lemma val_size_len v : val_size v = Z.of_N (len (enc_val v)).
Proof.
  destruct v as [f|fs]; cbn [val_size enc_val]; [apply fval_size_len|].
  rewrite len_enc_dir. unfold enc_fvals. rewrite len_concat_map.
  rewrite (sumZ_sumN fval_size (fun f => len (enc_fval f))) by apply fval_size_len. lia.
Qed.

Lemma sum_val_size vs : sumZ (map val_size vs) = Z.of_N (len (enc_vals vs)).
Proof.
  unfold enc_vals. rewrite len_concat_map. apply sumZ_sumN. apply val_size_len.
Qed.

Lemma has_stat_prefix_eq t : has_stat_prefix t = (N.eqb t T_Rstat || N.eqb t T_Twstat)%bool.
Proof. reflexivity. Qed.

Lemma msg_size_len t tag vs : (t = T_Twstat -> vs <> []) ->
  msg_size (t, vs) = Z.of_N (4 + len (enc_fcall {| fc_type := t; fc_tag := tag; fc_fields := vs |})).
Proof.
  intros Hne. unfold msg_size. cbn [fst snd]. rewrite has_stat_prefix_eq, sum_val_size.
  unfold enc_fcall. cbn [fc_type fc_tag fc_fields]. rewrite !len_app, !len_le, len_enc_msg.
  destruct (N.eqb_spec t T_Rstat) as [->|H1]; cbn [orb].
  - lia.
  - destruct (N.eqb_spec t T_Twstat) as [->|H2].
    + destruct vs; [exfalso; apply Hne; reflexivity|]. lia.
    + lia.
Qed.

Lemma rread_overhead_11 : rread_overhead = 11%Z.
Proof. reflexivity. Qed.

(* the Tread clamp: Z transcription = N transcription *)
Lemma tread_clamp_eq msize c : (c < M32)%N ->
  let overflow := ((11 + c + (M32 - msize mod M32)) mod M32)%N in
  Z.to_N (tread_clamp (Z.of_N msize) (Z.of_N c)) = (if (c <? overflow)%N then c else c - overflow)%N.
Proof.
  intros Hc. cbv zeta. unfold tread_clamp. rewrite rread_overhead_11. rewrite M32_val in *.
  change (2 ^ 32)%Z with 4294967296%Z.
  assert (E : ((11 + Z.of_N c - Z.of_N msize mod 4294967296) mod 4294967296)%Z =
              Z.of_N ((11 + c + (4294967296 - msize mod 4294967296)) mod 4294967296)%N).
  { rewrite N2Z.inj_mod, N2Z.inj_add, N2Z.inj_add, N2Z.inj_sub by (apply N.lt_le_incl, N.mod_lt; lia).
    rewrite N2Z.inj_mod. change (Z.of_N 4294967296) with 4294967296%Z. change (Z.of_N 11) with 11%Z.
    set (m := (Z.of_N msize mod 4294967296)%Z).
    replace (11 + Z.of_N c + (4294967296 - m))%Z with ((11 + Z.of_N c - m) + 1 * 4294967296)%Z by lia.
    rewrite Z.mod_add by lia. reflexivity. }
  rewrite E.
  set (ov := ((11 + c + (4294967296 - msize mod 4294967296)) mod 4294967296)%N).
  destruct (N.ltb_spec c ov) as [Hlt|Hge]; destruct (Z.ltb_spec (Z.of_N c) (Z.of_N ov)); try lia.
Qed.

Definition proj (r : trunc_res) : message + Z :=
  match r with
  | TOk f' => inl (fc_type f', fc_fields f')
  | TOverflow k => inr (Z.of_N k)
  end.

Theorem chan_truncate_is_maybe_truncate msize f : wf_fcall f = true ->
  chan_truncate (Z.of_N msize) (fc_type f, fc_fields f) = proj (maybe_truncate msize f).
Proof.
  intros Hw. pose proof Hw as Hw0.
  unfold wf_fcall in Hw. destruct (kinds_of_type (fc_type f)) as [ks|] eqn:K; [|discriminate].
  rewrite !andb_true_iff in Hw. destruct Hw as [[[Hk Hwf] Ht] Hl].
  destruct f as [ty tag vs]. cbn [fc_type fc_tag fc_fields] in *.
  assert (Hsz : msg_size (ty, vs) = Z.of_N (4 + len (enc_fcall {| fc_type := ty; fc_tag := tag; fc_fields := vs |}))).
  { apply msg_size_len. intros ->. vm_compute in K. injection K as <-. destruct vs; [discriminate Hk|discriminate]. }
  pose proof (msgmsize_len _ Hw0) as Hmm.
  apply assoc_N_In in K. unfold spec_kinds_table in K.
  (* the two special cases first *)
  destruct (N.eq_dec ty T_Tread) as [->|Hnr].
  { destruct (tread_shape _ Hw0 eq_refl) as (fid & off & c & Hf & Hc). cbn [fc_fields] in Hf. subst vs.
    unfold maybe_truncate. cbn [fc_type fc_fields fc_tag]. change (T_Tread =? T_Tread)%N with true. cbv iota.
    unfold chan_truncate. change (struct_of_type T_Tread) with
      (Some ("MessageTread"%string, [("Fid"%string, KInt 4); ("Offset"%string, KInt 8); ("Count"%string, KInt 4)])).
    cbv iota beta. change (String.eqb "MessageTread" "MessageTread") with true. cbv iota.
    cbn [get_field set_field String.eqb Ascii.eqb Bool.eqb].
    rewrite (tread_clamp_eq msize c Hc).
    destruct (c <? _)%N; reflexivity. }
  destruct (N.eq_dec ty T_Twrite) as [->|Hnw].
  { destruct (twrite_shape _ Hw0 eq_refl) as (fid & off & d & Hf). cbn [fc_fields] in Hf. subst vs.
    unfold maybe_truncate. cbn [fc_type fc_fields fc_tag].
    change (T_Twrite =? T_Tread)%N with false. change (T_Twrite =? T_Twrite)%N with true. cbv iota.
    unfold chan_truncate. change (struct_of_type T_Twrite) with
      (Some ("MessageTwrite"%string, [("Fid"%string, KInt 4); ("Offset"%string, KInt 8); ("Data"%string, KData)])).
    cbv iota beta. change (String.eqb "MessageTwrite" "MessageTread") with false.
    change (String.eqb "MessageTwrite" "MessageTwrite") with true. cbv iota.
    cbn [get_field set_field String.eqb Ascii.eqb Bool.eqb].
    rewrite Hsz, <- Hmm. set (sz := msgmsize _).
    destruct (N.leb_spec sz msize) as [Hle|Hgt]; destruct (Z.leb_spec (Z.of_N sz) (Z.of_N msize)); try lia; [reflexivity|].
    rewrite zlen_len.
    destruct (N.ltb_spec (len d) (sz - msize)) as [Hlt|Hge];
      destruct (Z.ltb_spec (Z.of_N (len d)) (Z.of_N sz - Z.of_N msize)); try lia.
    - cbn [proj]. f_equal. lia.
    - cbn [proj fc_type fc_fields]. unfold take.
      replace (Z.to_nat (Z.of_N (len d) - (Z.of_N sz - Z.of_N msize))) with (N.to_nat (len d - (sz - msize))) by lia.
      reflexivity. }
  (* every other type: the default arm *)
  unfold maybe_truncate. cbn [fc_type fc_fields fc_tag].
  destruct (N.eqb_spec ty T_Tread); [contradiction|]. destruct (N.eqb_spec ty T_Twrite); [contradiction|].
  rewrite Hmm.
  assert (Hdef : chan_truncate (Z.of_N msize) (ty, vs) =
                 if (Z.of_N msize <? msg_size (ty, vs))%Z then inr (msg_size (ty, vs) - Z.of_N msize)%Z else inl (ty, vs)).
  { unfold chan_truncate.
    repeat (destruct K as [K|K]; [injection K as <- _; try contradiction; reflexivity|]). contradiction. }
  rewrite Hdef, Hsz.
  set (L := (4 + len (enc_fcall _))%N).
  destruct (N.ltb_spec msize L); destruct (Z.ltb_spec (Z.of_N msize) (Z.of_N L)); try lia; cbn [proj]; [f_equal; lia|reflexivity].
Qed.
