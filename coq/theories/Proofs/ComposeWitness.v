(* A concrete run of the joint system (Model/Compose.v), evaluated by vm_compute: three calls in
   flight with tags 1, 2, 3; the server answers the third first, then the first; the tag counter is
   then driven once round the 16-bit tag space (65532 requests whose write fails: each takes the
   next tag and releases it, nothing reaches the wire), so that a fourth call is given tag 1 AGAIN
   while the second call (tag 2) is still unanswered; the fourth is answered, then the second. *)
From Coq Require Import List NArith Bool.
From P9 Require Import Model.WireTypes Model.Pipeline Proofs.PipelineProofs Model.Tags Model.Serve Model.Compose.
Import ListNotations.
Open Scope N_scope.

(* the handler's answer depends on the whole request message, i.e. on the call *)
Definition ex_handler (m : bstr) : hres :=
  match m with
  | [_; 2] => RErr [98; 111; 111; 109]       (* call 2 fails with "boom" *)
  | _ => RMsg (121 :: m)
  end.

(* n requests whose WriteFcall fails: tag taken, frame handed to the writer, write fails, tag released *)
Definition burn_from (c0 n : N) : list jevent :=
  N.peano_rect (fun _ => list jevent) []
    (fun k acc => JC (EReq (c0 + k) 120) :: JC EHand :: JC EWriteFailed :: acc) n.

Definition srv_in : list jevent := [JS EReaderGet; JS EArrive].
Definition srv_out (rid : N) : list jevent := [JFinish rid; JS (EComplete rid); JS ETake; JS EWriteOk].

Definition ex_joint_run : list jevent :=
  [JC (EReq 1 120); JC (EReq 2 116); JC (EReq 3 110);
   JC EHand; JC EWrote; JC EHand; JC EWrote; JC EHand; JC EWrote]
  ++ srv_in ++ srv_in ++ srv_in
  ++ srv_out 2 ++ [JResp] ++ srv_out 0 ++ [JResp]
  ++ burn_from 100 65532
  ++ [JC (EReq 4 120); JC EHand; JC EWrote] ++ srv_in ++ srv_out 3 ++ [JResp]
  ++ srv_out 1 ++ [JResp].

Definition ex_joint_history : list gev :=
  [GReq 1 1 (qmsg 1 120); GReq 2 2 (qmsg 2 116); GReq 3 3 (qmsg 3 110);
   GRep 3 (121, [VF (FStr [121; 110; 3])]); GDel 3 (121, [VF (FStr [121; 110; 3])]);
   GRep 1 (121, [VF (FStr [121; 120; 1])]); GDel 1 (121, [VF (FStr [121; 120; 1])]);
   GReq 4 1 (qmsg 4 120);
   GRep 1 (121, [VF (FStr [121; 120; 4])]); GDel 4 (121, [VF (FStr [121; 120; 4])]);
   GRep 2 (107, [VF (FStr [98; 111; 111; 109])]); GDel 2 (107, [VF (FStr [98; 111; 111; 109])])].

Lemma ex_joint_run_history :
  option_map snd (jrun ex_handler jinit ex_joint_run) = Some ex_joint_history.
Proof. vm_compute. reflexivity. Qed.
