(* Lemmas about Model/Session.v, part 1: projections of the helpers, the
   well-formedness invariant "between operations no SFid is locked, none is a
   placeholder, NOFID is not a key, an open File belongs to the fid's own
   entry", and the refinement of the reference fid table (Model/FidSpec.v). *)
From stdpp Require Import gmap.
From Coq Require Import NArith ZArith Lia.
From P9 Require Import Model.Path Model.Session Model.FidSpec.
Open Scope N_scope.

(* ---- projections ---- *)
Lemma refs_g_use e s : refs (g_use e s) = refs s.
Proof. unfold g_use. destruct (is_released e s); reflexivity. Qed.
Lemma next_g_use e s : next (g_use e s) = next s.
Proof. unfold g_use. destruct (is_released e s); reflexivity. Qed.
Lemma released_g_use e s : released (g_use e s) = released s.
Proof. unfold g_use. destruct (is_released e s); reflexivity. Qed.
Lemma bound_ever_g_use e s : bound_ever (g_use e s) = bound_ever s.
Proof. unfold g_use. destruct (is_released e s); reflexivity. Qed.

Ltac sproj :=
  repeat (progress (cbn [refs next bound_ever released bad_use fst snd
                         set_refs put unreserve lock unlock g_bind g_release] in *)
          || rewrite ?refs_g_use, ?next_g_use, ?released_g_use, ?bound_ever_g_use in * ).

(* ---- the invariant ---- *)
Definition wf_sfid (f : N) (sf : sfid) : Prop :=
  s_locked sf = false ∧ f ≠ NOFID ∧
  ∃ e d, s_ent sf = Some (e, d) ∧ ∀ h, s_file sf = Some h → f_own h = e ∧ f_dir h = d.
Definition WF (s : sess) : Prop := ∀ f sf, refs s !! f = Some sf → wf_sfid f sf.

Lemma WF_sess0 : WF sess0.
Proof. intros f sf H. cbn in H. rewrite lookup_empty in H. discriminate. Qed.

Lemma WF_refs s s' : refs s' = refs s → WF s → WF s'.
Proof. unfold WF. intros -> H. exact H. Qed.

Lemma WF_insert s s' f sf :
  refs s' = <[f := sf]> (refs s) → wf_sfid f sf → WF s → WF s'.
Proof.
  unfold WF. intros -> Hsf H k x Hk.
  destruct (decide (k = f)) as [->|Hne].
  - rewrite lookup_insert in Hk. by inversion Hk; subst.
  - rewrite lookup_insert_ne in Hk by done. eauto.
Qed.

Lemma WF_delete s s' f : refs s' = delete f (refs s) → WF s → WF s'.
Proof.
  unfold WF. intros -> H k x Hk.
  apply lookup_delete_Some in Hk as [_ Hk]. eauto.
Qed.

Lemma abs_eq s t n : omap abs_sfid (refs s) = t → next s = n → abs s = Spec t n.
Proof. unfold abs. by intros -> ->. Qed.

(* what getRef finds in a well-formed state *)
Lemma get_ref_wf s f : WF s →
  match get_ref s f with
  | GHang => False
  | GErr => sp_lookup (abs s) f = None
  | GOk sf (e, d) =>
      refs s !! f = Some sf ∧ wf_sfid f sf ∧ s_ent sf = Some (e, d) ∧
      sp_lookup (abs s) f = abs_sfid sf ∧ f ≠ NOFID
  end.
Proof.
  intros Hwf. unfold get_ref, sp_lookup. destruct (decide (f = NOFID)) as [|Hne]; [done|].
  cbn [abs tab]. rewrite lookup_omap.
  destruct (refs s !! f) as [sf|] eqn:Hl; [|done].
  destruct (Hwf _ _ Hl) as (Hlk & Hnf & e & d & He & Hf).
  rewrite Hlk, He. cbn. split_and!; try done.
  repeat split; eauto.
Qed.

Lemma abs_sfid_unfold sf e d :
  s_ent sf = Some (e, d) →
  abs_sfid sf = Some (Bind e d (match s_file sf with Some f => Some (s_mode sf, f_done f) | None => None end)).
Proof. unfold abs_sfid. by intros ->. Qed.

(* ---- refinement, operation by operation ---- *)
Definition refines (s : sess) (x : R3) (y : spec * result) : Prop :=
  let '(s', r, _) := x in WF s' ∧ r ≠ RHang ∧ y = (abs s', r).

Lemma refines_same s s' r cs :
  WF s → refs s' = refs s → next s' = next s → r ≠ RHang →
  refines s (s', r, cs) (abs s, r).
Proof.
  intros Hwf Hr Hn Hh. cbn. split_and!; [by eapply WF_refs|done|].
  unfold abs. by rewrite Hr, Hn.
Qed.

Lemma auth_refines s afid : WF s → refines s (do_auth s afid) (sp_step (abs s) (OAuth afid) []).
Proof.
  intros Hwf. unfold do_auth. cbn [sp_step].
  destruct (decide (afid = NOFID)); by apply refines_same.
Qed.

Lemma attach_refines s fid afid ts :
  WF s → refines s (do_attach s fid afid ts) (sp_attach (abs s) fid afid ts).
Proof.
  intros Hwf. unfold do_attach, sp_attach.
  destruct (decide (afid = NOFID)) as [_|Hna].
  - unfold new_ref. destruct (decide (fid = NOFID)) as [|Hnf]; [by apply refines_same|].
    cbn [abs tab]. rewrite lookup_omap.
    destruct (refs s !! fid) as [sf|] eqn:Hl.
    + destruct (Hwf _ _ Hl) as (_ & _ & e & d & He & _).
      cbn [mbind option_bind]. rewrite (abs_sfid_unfold _ _ _ He). by apply refines_same.
    + cbn [mbind option_bind]. destruct (nn_err (tokn ts 0)).
      * cbn. split_and!; [|done|].
        -- eapply WF_refs; [|exact Hwf]. sproj. by rewrite delete_insert.
        -- f_equal. symmetry. apply abs_eq; sproj; [|done]. by rewrite delete_insert.
      * unfold fresh. cbn. split_and!; [|done|].
        -- eapply WF_insert; [..|exact Hwf].
           ++ sproj. by rewrite insert_insert.
           ++ repeat split; eauto. eexists _, _. split; [done|]. done.
        -- f_equal. unfold sp_fresh. cbn. symmetry. apply abs_eq; sproj; [|done].
           rewrite insert_insert. by rewrite (omap_insert_Some _ _ _ _ (Bind (next s) (t_dir (tokn ts 0)) None)).
  - pose proof (get_ref_wf s afid Hwf) as Hg.
    destruct (get_ref s afid) as [| |sf [e d]]; [done|by apply refines_same|].
    destruct (s_file sf); by apply refines_same.
Qed.

Ltac rsame := apply refines_same; sproj; try done; try (destruct (fs_err _); done).

Lemma del_refines s fid rm ts :
  WF s → refines s (do_del s fid rm ts) (sp_del (abs s) fid ts).
Proof.
  intros Hwf. unfold do_del, sp_del, sp_lookup. cbn [abs tab]. rewrite lookup_omap.
  destruct (refs s !! fid) as [sf|] eqn:Hl.
  - destruct (Hwf _ _ Hl) as (Hlk & Hnf & e & d & He & Hf).
    destruct (decide (fid = NOFID)); [done|].
    cbn [mbind option_bind]. rewrite (abs_sfid_unfold _ _ _ He), Hlk, He.
    cbn. split_and!.
    + eapply WF_delete; [|exact Hwf]. by sproj.
    + by destruct (fs_err _).
    + f_equal. symmetry. apply abs_eq; sproj; [|done]. by rewrite omap_delete.
  - destruct (decide (fid = NOFID)); by rsame.
Qed.

Lemma stat_refines s fid w ts :
  WF s → refines s (do_stat s fid w ts) (sp_stat (abs s) fid ts).
Proof.
  intros Hwf. unfold do_stat, sp_stat.
  pose proof (get_ref_wf s fid Hwf) as Hg.
  destruct (get_ref s fid) as [| |sf [e d]]; [done|rewrite Hg; by rsame|].
  destruct Hg as (Hl & Hw & He & Hsp & Hnf).
  rewrite Hsp, (abs_sfid_unfold _ _ _ He). by rsame.
Qed.

Lemma open_refines s fid mode ts :
  WF s → refines s (do_open s fid mode ts) (sp_open (abs s) fid mode ts).
Proof.
  intros Hwf. unfold do_open, sp_open.
  pose proof (get_ref_wf s fid Hwf) as Hg.
  destruct (get_ref s fid) as [| |sf [e d]]; [done|rewrite Hg; by rsame|].
  destruct Hg as (Hl & Hw & He & Hsp & Hnf).
  rewrite Hsp, (abs_sfid_unfold _ _ _ He). cbn [b_open b_ent b_dir].
  destruct (s_file sf) as [h|] eqn:Hfile; [by rsame|].
  destruct (nn_err (tokn ts 0)); [by rsame|].
  cbn. split_and!; [|done|].
  - eapply WF_insert; [..|exact Hwf]; [by sproj|].
    repeat split; eauto. eexists _, _. split; [done|]. by intros h [= <-].
  - f_equal. unfold sp_bind. cbn. symmetry. apply abs_eq; sproj; [|done].
    by rewrite (omap_insert_Some _ _ _ _ (Bind e d (Some (mode, false)))).
Qed.

Lemma read_refines s fid cnt ts :
  WF s → refines s (do_read s fid cnt ts) (sp_read (abs s) fid cnt ts).
Proof.
  intros Hwf. unfold do_read, sp_read.
  pose proof (get_ref_wf s fid Hwf) as Hg.
  destruct (get_ref s fid) as [| |sf [e d]]; [done|rewrite Hg; by rsame|].
  destruct Hg as (Hl & Hw & He & Hsp & Hnf).
  rewrite Hsp, (abs_sfid_unfold _ _ _ He). cbn [b_open b_ent b_dir].
  destruct Hw as (Hlk & _ & e' & d' & He' & Hf). rewrite He in He'. injection He' as <- <-.
  destruct (s_file sf) as [h|] eqn:Hfile; [|by rsame].
  destruct (Hf h eq_refl) as [Hown Hdir].
  destruct (N.land (s_mode sf) 3 =? 1); [by rsame|].
  rewrite Hdir. destruct d; [|by rsame].
  destruct (f_done h || (cnt =? 0)) eqn:Hdone; [by rsame|].
  destruct (fs_err (tokn ts 0)); [by rsame|].
  cbn. split_and!; [|done|].
  - eapply WF_insert; [..|exact Hwf]; [by sproj|].
    repeat split; eauto. eexists _, _. split; [done|]. by intros h' [= <-].
  - f_equal. unfold sp_bind. cbn. symmetry. apply abs_eq; sproj; [|done].
    by rewrite (omap_insert_Some _ _ _ _ (Bind e true (Some (s_mode sf, true)))).
Qed.

Lemma write_refines s fid ts :
  WF s → refines s (do_write s fid ts) (sp_write (abs s) fid ts).
Proof.
  intros Hwf. unfold do_write, sp_write.
  pose proof (get_ref_wf s fid Hwf) as Hg.
  destruct (get_ref s fid) as [| |sf [e d]]; [done|rewrite Hg; by rsame|].
  destruct Hg as (Hl & Hw & He & Hsp & Hnf).
  rewrite Hsp, (abs_sfid_unfold _ _ _ He). cbn [b_open b_ent b_dir].
  destruct Hw as (Hlk & _ & e' & d' & He' & Hf). rewrite He in He'. injection He' as <- <-.
  destruct (s_file sf) as [h|] eqn:Hfile; [|by rsame].
  destruct (Hf h eq_refl) as [Hown Hdir].
  destruct (negb _); [by rsame|].
  rewrite Hdir. destruct d; by rsame.
Qed.

(* ---- table algebra of Walk's lock / reserve / deferred clean-up ---- *)
Lemma set_locked_id sf : s_locked sf = false → set_locked false (set_locked true sf) = sf.
Proof. destruct sf; cbn. by intros ->. Qed.

Lemma unlock_lock_refs (m : gmap N sfid) f sf :
  m !! f = Some sf → s_locked sf = false →
  alter (set_locked false) f (alter (set_locked true) f m) = m.
Proof.
  intros Hl Hk. rewrite <- alter_compose. apply alter_id.
  intros x Hx. rewrite Hl in Hx. injection Hx as <-. by apply set_locked_id.
Qed.

Lemma inplace_bind_refs (m : gmap N sfid) f x :
  <[f := x]> (alter (set_locked true) f m) = <[f := x]> m.
Proof.
  apply map_eq. intros k. destruct (decide (k = f)) as [->|Hne].
  - by rewrite !lookup_insert.
  - by rewrite !lookup_insert_ne, lookup_alter_ne.
Qed.

Lemma walk_cleanup_refs (m : gmap N sfid) f g sf ph :
  f ≠ g → m !! f = Some sf → s_locked sf = false → m !! g = None →
  alter (set_locked false) f (delete g (<[g := ph]> (alter (set_locked true) f m))) = m.
Proof.
  intros Hne Hl Hk Hg. rewrite delete_insert by (by rewrite lookup_alter_ne).
  by eapply unlock_lock_refs.
Qed.

Lemma walk_bind_refs (m : gmap N sfid) f g sf ph x :
  f ≠ g → m !! f = Some sf → s_locked sf = false →
  <[g := x]> (alter (set_locked false) f (<[g := ph]> (alter (set_locked true) f m))) = <[g := x]> m.
Proof.
  intros Hne Hl Hk. apply map_eq. intros k. destruct (decide (k = g)) as [->|Hkg].
  - by rewrite !lookup_insert.
  - rewrite !lookup_insert_ne by done. destruct (decide (k = f)) as [->|Hkf].
    + rewrite lookup_alter, lookup_insert_ne, lookup_alter, Hl by done. cbn. f_equal. by apply set_locked_id.
    + by rewrite lookup_alter_ne, lookup_insert_ne, lookup_alter_ne.
Qed.

Lemma wf_new f e d : f ≠ NOFID → wf_sfid f (SFid (Some (e, d)) None 0 false).
Proof. intros Hf. repeat split; eauto. eexists _, _. split; [done|]. done. Qed.

Lemma walk_refines s fid newfid names ts :
  WF s → refines s (do_walk s fid newfid names ts) (sp_walk (abs s) fid newfid names ts).
Proof.
  intros Hwf. unfold do_walk, sp_walk.
  destruct (valid_path names <? 0)%Z; [by rsame|].
  pose proof (get_ref_wf s fid Hwf) as Hg.
  destruct (get_ref s fid) as [| |sf [e d]]; [done|rewrite Hg; by rsame|].
  destruct Hg as (Hl & Hw & He & Hsp & Hnf).
  rewrite Hsp, (abs_sfid_unfold _ _ _ He). cbn [b_open b_ent b_dir].
  destruct Hw as (Hlk & _ & _).
  destruct (decide (newfid = fid)) as [->|Hne].
  - (* in place *)
    rewrite decide_False by (by intros [? _]). rewrite decide_False by (by intros [? _]).
    assert (Hsame : ∀ X, refs X = alter (set_locked true) fid (refs s) → refs (unlock fid X) = refs s).
    { intros X HX. sproj. rewrite HX. by eapply unlock_lock_refs. }
    destruct names as [|nm names].
    + apply refines_same; sproj; try done. by eapply unlock_lock_refs.
    + destruct (negb d); [apply refines_same; sproj; try done; by eapply unlock_lock_refs|].
      destruct (nn_err (tokn ts 0)); [apply refines_same; sproj; try done; by eapply unlock_lock_refs|].
      destruct (N.min _ _ <? _); [apply refines_same; sproj; try done; by eapply unlock_lock_refs|].
      unfold fresh. cbn. split_and!; [|done|].
      * eapply WF_insert; [..|exact Hwf]; [|by apply wf_new].
        sproj. by rewrite inplace_bind_refs.
      * f_equal. unfold sp_fresh. cbn. symmetry. apply abs_eq; sproj; [|done].
        rewrite inplace_bind_refs.
        by rewrite (omap_insert_Some _ _ _ _ (Bind (next s) (t_dir (tokn ts 0)) None)).
  - (* onto another fid *)
    unfold new_ref. destruct (decide (newfid = NOFID)) as [Hnn|Hnn].
    { rewrite decide_True by done. apply refines_same; sproj; try done. by eapply unlock_lock_refs. }
    rewrite decide_False by (by intros [_ ?]).
    sproj. rewrite lookup_alter_ne by done.
    cbn [abs tab]. rewrite lookup_omap.
    destruct (refs s !! newfid) as [sf'|] eqn:Hl'.
    { destruct (Hwf _ _ Hl') as (_ & _ & e' & d' & He' & _).
      rewrite decide_True.
      - apply refines_same; sproj; try done. by eapply unlock_lock_refs.
      - split; [done|]. cbn. rewrite (abs_sfid_unfold _ _ _ He'). by eexists. }
    rewrite decide_False by (cbn; intros [_ [? ?]]; done).
    destruct names as [|nm names].
    + destruct (nn_err (tokn ts 0)).
      { apply refines_same; sproj; try done. by eapply walk_cleanup_refs. }
      unfold fresh. cbn. split_and!; [|done|].
      * eapply WF_insert; [..|exact Hwf]; [|by apply wf_new].
        sproj. by erewrite walk_bind_refs.
      * f_equal. unfold sp_fresh. cbn. symmetry. apply abs_eq; sproj; [|done].
        erewrite walk_bind_refs by done.
        by rewrite (omap_insert_Some _ _ _ _ (Bind (next s) (t_dir (tokn ts 0)) None)).
    + destruct (negb d); [apply refines_same; sproj; try done; by eapply walk_cleanup_refs|].
      destruct (nn_err (tokn ts 0)); [apply refines_same; sproj; try done; by eapply walk_cleanup_refs|].
      destruct (N.min _ _ <? _); [apply refines_same; sproj; try done; by eapply walk_cleanup_refs|].
      unfold fresh. cbn. split_and!; [|done|].
      * eapply WF_insert; [..|exact Hwf]; [|by apply wf_new].
        sproj. by erewrite walk_bind_refs.
      * f_equal. unfold sp_fresh. cbn. symmetry. apply abs_eq; sproj; [|done].
        erewrite walk_bind_refs by done.
        by rewrite (omap_insert_Some _ _ _ _ (Bind (next s) (t_dir (tokn ts 0)) None)).
Qed.

Lemma create_refines s fid name mode ts :
  WF s → refines s (do_create s fid name mode ts) (sp_create (abs s) fid name mode ts).
Proof.
  intros Hwf. unfold do_create, sp_create.
  destruct (is_dot name || is_dotdot name); [by rsame|].
  pose proof (get_ref_wf s fid Hwf) as Hg.
  destruct (get_ref s fid) as [| |sf [e d]]; [done|rewrite Hg; by rsame|].
  destruct Hg as (Hl & Hw & He & Hsp & Hnf).
  rewrite Hsp, (abs_sfid_unfold _ _ _ He). cbn [b_open b_ent b_dir].
  destruct (negb d); [by rsame|].
  destruct (t_fail (tokn ts 0) =? 1); [by rsame|].
  destruct ((t_fail (tokn ts 0) =? 2) || (t_fail (tokn ts 0) =? 4)); [by rsame|].
  destruct (t_fail (tokn ts 0) =? 0).
  - unfold fresh. cbn [fst snd]. destruct (t_dir (tokn ts 0)).
    + destruct (nn_err (tokn ts 1)).
      * cbn. split_and!; [|done|].
        -- eapply WF_delete; [|exact Hwf]. by sproj.
        -- f_equal. symmetry. apply abs_eq; sproj; [|done]. by rewrite omap_delete.
      * cbn. split_and!; [|done|].
        -- eapply WF_insert; [..|exact Hwf]; [by sproj|].
           repeat split; eauto. eexists _, _. split; [done|]. by intros h [= <-].
        -- f_equal. unfold sp_fresh. cbn. symmetry. apply abs_eq; sproj; [|done].
           by rewrite (omap_insert_Some _ _ _ _ (Bind (next s) true (Some (mode, false)))).
    + cbn. split_and!; [|done|].
      * eapply WF_insert; [..|exact Hwf]; [by sproj|].
        repeat split; eauto. eexists _, _. split; [done|]. by intros h [= <-].
      * f_equal. unfold sp_fresh. cbn. symmetry. apply abs_eq; sproj; [|done].
        by rewrite (omap_insert_Some _ _ _ _ (Bind (next s) false (Some (mode, false)))).
  - unfold fresh. cbn. split_and!; [by eapply WF_refs; [|exact Hwf]; sproj|done|].
    f_equal. symmetry. apply abs_eq; by sproj.
Qed.

(* one step of the session = one step of the reference table, and it returns *)
Lemma step_refines s o ts :
  WF s → is_stop o = false → refines s (sstep s o ts) (sp_step (abs s) o ts).
Proof.
  intros Hwf Hns. destruct o; cbn [sstep sp_step]; try discriminate.
  - pose proof (auth_refines s afid Hwf) as H. exact H.
  - by apply attach_refines.
  - by apply walk_refines.
  - by apply open_refines.
  - by apply create_refines.
  - by apply read_refines.
  - by apply write_refines.
  - by apply stat_refines.
  - by apply stat_refines.
  - by apply del_refines.
  - by apply del_refines.
Qed.

(* ---- whole runs ---- *)
Definition no_stop (l : list (op * list tok)) : Prop := Forall (λ x, is_stop (fst x) = false) l.

Lemma run_refines l : ∀ s, WF s → no_stop l →
  let tr := srun s l in
  results tr = snd (sp_run (abs s) l) ∧
  abs (final s tr) = fst (sp_run (abs s) l) ∧
  WF (final s tr) ∧
  Forall (λ r, r ≠ RHang) (results tr) ∧
  length tr = length l.
Proof.
  induction l as [|[o ts] l IH]; intros s Hwf Hns.
  - cbn. split_and!; try done.
  - inversion Hns as [|? ? Ho Hl]; subst. cbn [fst] in Ho.
    pose proof (step_refines s o ts Hwf Ho) as Hst.
    cbn [srun sp_run]. destruct (sstep s o ts) as [[s1 r] cs]. cbn in Hst.
    destruct Hst as (Hwf1 & Hnh & Hsp). rewrite Hsp.
    specialize (IH s1 Hwf1 Hl). cbn zeta in IH. destruct IH as (IH1 & IH2 & IH3 & IH4 & IH5).
    destruct (sp_run (abs s1) l) as [t2 out] eqn:Hrun. cbn [fst snd] in *.
    assert (Hfin : final s ((s1, r, cs) :: srun s1 l) = final s1 (srun s1 l)).
    { unfold final. destruct (srun s1 l) as [|x tr] eqn:Htr; [done|].
      change (last ((s1, r, cs) :: x :: tr)) with (last (x :: tr)).
      destruct (last (x :: tr)) eqn:E; [done|]. by apply last_None in E. }
    destruct r; try done.
    + cbn zeta. rewrite Hfin. split_and!; try done.
      * cbn. by f_equal.
      * cbn. constructor; done.
      * cbn. by f_equal.
    + cbn zeta. rewrite Hfin. split_and!; try done.
      * cbn. by f_equal.
      * cbn. constructor; done.
      * cbn. by f_equal.
Qed.
