(* Lemmas about Model/Serve.v, part 5: the shutdown variant.  [shutdown_measure] counts what is left
   to do before Stop has run: the return of the loop, the handler goroutines that have not left, Stop.
   Each of the loop's / the handler goroutines' own shutdown steps decreases it strictly, and after the
   return nothing increases it. *)
From Coq Require Import List NArith Bool Lia.
From stdpp Require Import gmap.
From P9 Require Import Model.Serve Proofs.ServeProofs.
Import ListNotations.
Open Scope N_scope.

Definition live (kv : N * hrec) : Prop := h_st (snd kv) <> HGone.
Global Instance live_dec kv : Decision (live kv).
Proof. unfold live. destruct (h_st (snd kv)); [left; discriminate|left; discriminate|right; intros H; now apply H]. Defined.

Definition nlive (m : gmap N hrec) : nat := size (filter live m).

Definition shutdown_measure (s : st) : nat :=
  ((match pc s with PReturned => 0 | _ => 1 end) + nlive (hs s) + (if N.eqb (stops s) 0%N then 1 else 0))%nat.

(* replacing a handler record by one that is live iff the old one was *)
Lemma nlive_update m r h h' : m !! r = Some h -> (h_st h' = HGone <-> h_st h = HGone) -> nlive (<[r := h']> m) = nlive m.
Proof.
  intros Hr Hst. unfold nlive. rewrite map_filter_insert. destruct (decide (live (r, h'))) as [Hl|Hl].
  - apply map_size_insert_Some. exists h. apply map_filter_lookup_Some. split; [exact Hr|].
    unfold live in *. cbn in *. tauto.
  - rewrite map_filter_delete. f_equal. apply delete_notin. apply map_filter_lookup_None. right.
    intros x Hx. rewrite Hr in Hx. injection Hx as <-. unfold live in *. cbn in *. tauto.
Qed.

(* a live handler leaves *)
Lemma nlive_gone m r h h' : m !! r = Some h -> h_st h <> HGone -> h_st h' = HGone ->
  (nlive (<[r := h']> m) < nlive m)%nat.
Proof.
  intros Hr Hst Hg. unfold nlive.
  assert (Hnl : ~ live (r, h')) by (unfold live; cbn; tauto).
  rewrite (map_filter_insert_False _ _ _ _ Hnl), map_filter_delete.
  assert (Hin : is_Some (filter live m !! r)).
  { exists h. apply map_filter_lookup_Some. split; [exact Hr|exact Hst]. }
  rewrite (map_size_delete_Some _ _ Hin).
  assert (Hnz : size (filter live m) <> 0%nat).
  { intros E. apply map_size_empty_inv in E. destruct Hin as [x Hx]. rewrite E, lookup_empty in Hx. discriminate. }
  lia.
Qed.

Lemma nlive_cancel_rid s r s' o : cancel_rid s r = (s', o) -> nlive (hs s') = nlive (hs s).
Proof.
  unfold cancel_rid. destruct (hs s !! r) as [h|] eqn:Hr; [destruct (h_canc h)|]; intros H; injection H as <- <-; try reflexivity.
  proj_simpl. eapply nlive_update; [exact Hr|]. cbn. tauto.
Qed.

Lemma nlive_cancel_list rids : forall s s' o, cancel_list s rids = (s', o) -> nlive (hs s') = nlive (hs s).
Proof.
  induction rids as [|r rids IH]; intros s s' o H; cbn in H.
  - injection H as <- <-. reflexivity.
  - destruct (cancel_rid s r) as [s1 o1] eqn:H1. destruct (cancel_list s1 rids) as [s2 o2] eqn:H2.
    injection H as <- <-. rewrite (IH _ _ _ H2). eapply nlive_cancel_rid; eauto.
Qed.

(* the own shutdown steps: the loop returns, a handler goroutine leaves, Stop runs *)
Definition shutdown_step (e : event) : Prop :=
  match e with EReturn | EGiveUp _ | EStop => True | _ => False end.

Lemma variant_decreases s e s' o : step R s e = Some (s', o) -> shutdown_step e ->
  (shutdown_measure s' < shutdown_measure s)%nat.
Proof.
  intros H He. destruct e; try contradiction; step_inv H; unfold shutdown_measure; proj_simpl.
  - (* EGiveUp *)
    assert (Hl : (nlive (<[rid:={| h_tag := h_tag h; h_st := HGone; h_canc := h_canc h |}]> (hs s)) < nlive (hs s))%nat)
      by (eapply nlive_gone; eauto; congruence).
    lia.
  - (* EReturn *)
    apply andb_prop in Heqb as [Hpc _].
    rewrite (cancel_list_frame _ _ _ _ Heqp). proj_simpl. rewrite (nlive_cancel_list _ _ _ _ Heqp). proj_simpl.
    destruct (pc s); try discriminate; lia.
  - (* EStop *)
    apply andb_prop in Heqb as [Hs0 _]. rewrite Hs0, Heqp. cbn. lia.
Qed.

(* after the return no event increases the measure: what is left to do only shrinks *)
Lemma variant_monotone s e s' o : step R s e = Some (s', o) -> pc s = PReturned ->
  (shutdown_measure s' <= shutdown_measure s)%nat.
Proof.
  intros H Hp. destruct e; step_inv H; unfold shutdown_measure; proj_simpl; try congruence; try lia.
  - (* EFinish *)
    rewrite (nlive_update _ _ h) by (eauto; cbn; split; congruence). lia.
  - (* ECtxCancel *)
    rewrite (cancel_list_frame _ _ _ _ Heqp). proj_simpl. rewrite (nlive_cancel_list _ _ _ _ Heqp). proj_simpl. lia.
  - (* EGiveUp *)
    assert (Hl : (nlive (<[rid:={| h_tag := h_tag h; h_st := HGone; h_canc := h_canc h |}]> (hs s)) < nlive (hs s))%nat)
      by (eapply nlive_gone; eauto; congruence).
    lia.
  - (* EReturn *) apply andb_prop in Heqb as [Hpc _]. rewrite Hp in Hpc. discriminate.
  - (* EStop *) apply andb_prop in Heqb as [Hs0 _]. rewrite Hs0. cbn. lia.
Qed.

(* the measure is 0 exactly when the shutdown is complete *)
Lemma measure_zero s : shutdown_measure s = 0%nat -> pc s = PReturned /\ stops s <> 0 /\ nlive (hs s) = 0%nat.
Proof.
  unfold shutdown_measure. intros H. destruct (pc s); try lia. destruct (N.eqb (stops s) 0%N) eqn:E; try lia.
  apply N.eqb_neq in E. repeat split; [exact E|lia].
Qed.
