(* Who gets which reply: history invariant of the owner loop (C05_own_reply,
   C05_once), and the pure facts about send / the session methods
   (C05_rerror, C12_wrong_type, C12_after_close, C12_own_ctx). *)
From stdpp Require Import nmap fin_maps.
From Coq Require Import List NArith Bool Lia ZifyBool ZifyNat ZifyN.
From P9 Require Import Gen.GenReplyTypes Model.Tags Proofs.TagsProofsAlloc Proofs.TagsProofs.
Import ListNotations.
Open Scope N_scope.

Tactic Notation "simp_st" := cbn [h_out with_out h_sel h_shut h_ctx h_closed h_panicked h_running fst snd].
Tactic Notation "simp_st" "in" hyp(H) := cbn [h_out with_out h_sel h_shut h_ctx h_closed h_panicked h_running fst snd] in H.

(* ---------------------------------------------------------------- running is never regained *)

Lemma running_step : forall st e, h_running (fst (hstep st e)) = true -> h_running st = true.
Proof.
  intros st e. step_cases st e; try (simp_st; tauto).
  unfold h_running in *. intros Hr.
  destruct (h_closed st) eqn:Ec; [rewrite (H2 eq_refl) in Hr; discriminate|].
  rewrite <- H1. destruct (h_panicked st'); [rewrite andb_false_r in Hr; discriminate | reflexivity].
Qed.

(* ---------------------------------------------------------------- the history behind every outstanding tag *)

Definition no_resp (t : N) (evs : list hevent) : Prop := forall r, ~ In (EResp t r) evs.

(* call c's request was taken after [evs1], written with tag t, and no reply
   with tag t has been taken since *)
Definition issued_at (evs : list hevent) (t c : N) : Prop :=
  exists evs1 evs2 mt,
    evs = evs1 ++ EReq c mt true :: evs2 /\
    snd (hstep (fst (run evs1)) (EReq c mt true)) = [OFrame t c mt] /\
    no_resp t evs2.

Definition hist_inv (evs : list hevent) : Prop :=
  h_running (fst (run evs)) = true ->
  forall t c, h_out (fst (run evs)) !! t = Some c -> issued_at evs t c.

Lemma issued_at_snoc : forall evs t c e,
  issued_at evs t c -> (forall r, e <> EResp t r) -> issued_at (evs ++ [e]) t c.
Proof.
  intros evs t c e (evs1 & evs2 & mt & -> & Hf & Hn) Hne.
  exists evs1, (evs2 ++ [e]), mt. split; [|split; [assumption|]].
  - rewrite <- app_assoc. reflexivity.
  - intros r Hin. apply in_app_or in Hin as [Hin|[Hin|[]]]; [exact (Hn r Hin)|].
    exact (Hne r Hin).
Qed.

Lemma hist_inv_all : forall evs, hist_inv evs.
Proof.
  induction evs as [|e evs IH] using rev_ind.
  - intros _ t c Hl. cbn in Hl. rewrite lookup_empty in Hl. discriminate.
  - unfold hist_inv in *. rewrite state_snoc. intros Hrun t c Hl.
    pose proof (running_step _ _ Hrun) as Hrun0. specialize (IH Hrun0).
    revert Hrun Hl. step_cases (fst (run evs)) e; intros Hrun Hl.
    + (* idle *)
      apply issued_at_snoc; [apply IH; assumption|].
      intros r ->. (* an EResp that was idle: unknown tag, so t is not its tag *)
      cbn [hstep] in Ho. rewrite Hrun0, Hl in Ho. discriminate.
    + apply issued_at_snoc; [apply IH; assumption | discriminate].
    + (* a frame was written with tag t0 for call c0 *)
      simp_st in Hl. destruct (N.eq_dec t0 t) as [->|Hne].
      * rewrite lookup_insert in Hl. inversion Hl; subst c0.
        exists evs, [], mt. split; [reflexivity|]. split; [|intros r []].
        cbn [hstep]. rewrite Hrun0, H0. reflexivity.
      * rewrite lookup_insert_ne in Hl by assumption.
        apply issued_at_snoc; [apply IH; assumption | discriminate].
    + simp_st in Hl. destruct (N.eq_dec t0 t) as [->|Hne].
      * rewrite lookup_delete in Hl. discriminate.
      * rewrite lookup_delete_ne, lookup_insert_ne in Hl by assumption.
        apply issued_at_snoc; [apply IH; assumption | discriminate].
    + (* a reply with tag t0 was delivered *)
      simp_st in Hl. destruct (N.eq_dec t0 t) as [->|Hne].
      * rewrite lookup_delete in Hl. discriminate.
      * rewrite lookup_delete_ne in Hl by assumption.
        apply issued_at_snoc; [apply IH; assumption|]. intros r' Heq. inversion Heq. congruence.
    + rewrite H in Hl.
      apply issued_at_snoc; [apply IH; assumption|]. intros r Heq. exact (H5 _ _ Heq).
Qed.

(* C05_own_reply *)
Theorem own_reply : forall evs c r,
  In (ODeliver c r) (trace evs) ->
  exists evs1 evs2 evs3 t mt,
    evs = evs1 ++ EReq c mt true :: evs2 ++ EResp t r :: evs3 /\
    snd (hstep (fst (run evs1)) (EReq c mt true)) = [OFrame t c mt] /\
    no_resp t evs2.
Proof.
  induction evs as [|e evs IH] using rev_ind; intros c r Hin.
  - destruct Hin.
  - rewrite trace_snoc in Hin. apply in_app_or in Hin as [Hin|Hin].
    + destruct (IH c r Hin) as (evs1 & evs2 & evs3 & t & mt & -> & Hf & Hn).
      exists evs1, evs2, (evs3 ++ [e]), t, mt. split; [|tauto].
      rewrite <- !app_assoc. cbn [app]. rewrite <- app_assoc. reflexivity.
    + pose proof (hist_inv_all evs) as Hinv. unfold hist_inv in Hinv.
      revert Hin. step_cases (fst (run evs)) e; intros Hin;
        try (destruct Hin as [Hin|[]]; discriminate); try (destruct Hin; fail).
      * destruct Hin as [Hin|[]]. inversion Hin; subst c0 r0.
        destruct (Hinv H t c H0) as (evs1 & evs2 & mt & -> & Hf & Hn).
        exists evs1, evs2, [], t, mt. split; [|tauto].
        rewrite <- app_assoc. reflexivity.
      * destruct e; try (destruct Hin; fail).
        destruct (exit_enabled (fst (run evs))); [destruct Hin as [Hin|[]]; discriminate | destruct Hin].
Qed.

(* completeness of delivery while the loop runs: a reply whose tag is outstanding is handed over at once *)
Lemma resp_delivered : forall st t r c,
  h_running st = true -> h_out st !! t = Some c ->
  snd (hstep st (EResp t r)) = [ODeliver c r] /\ h_out (fst (hstep st (EResp t r))) !! t = None.
Proof.
  intros st t r c Hr Hl. cbn [hstep]. rewrite Hr, Hl. simp_st. split; [reflexivity | apply lookup_delete].
Qed.

(* ---------------------------------------------------------------- at most one delivery per call *)

Definition dcalls (tr : list hout) : list N :=
  flat_map (fun o => match o with ODeliver c _ => [c] | ODeliverErr c _ => [c] | _ => [] end) tr.

Lemma dcalls_app : forall a b, dcalls (a ++ b) = dcalls a ++ dcalls b.
Proof. intros. unfold dcalls. apply flat_map_app. Qed.

Lemma req_calls_app : forall a b, req_calls (a ++ b) = req_calls a ++ req_calls b.
Proof. intros. unfold req_calls. apply flat_map_app. Qed.

Record once_inv (evs : list hevent) : Prop := {
  oi_range : forall t c, h_out (fst (run evs)) !! t = Some c -> In c (req_calls evs);
  oi_deliv : forall c, In c (dcalls (trace evs)) -> In c (req_calls evs);
  oi_sep   : forall t c, h_out (fst (run evs)) !! t = Some c -> ~ In c (dcalls (trace evs));
  oi_nodup : NoDup (dcalls (trace evs));
  oi_inj   : forall t1 t2 c, h_out (fst (run evs)) !! t1 = Some c -> h_out (fst (run evs)) !! t2 = Some c -> t1 = t2 }.

Lemma NoDup_snoc : forall (l : list N) x, NoDup l -> ~ In x l -> NoDup (l ++ [x]).
Proof.
  intros l x Hl Hx. apply NoDup_rev in Hl. rewrite <- (rev_involutive (l ++ [x])).
  apply NoDup_rev. rewrite rev_app_distr. cbn. constructor; [|assumption].
  intros Hin. apply in_rev in Hin. contradiction.
Qed.

Lemma NoDup_app_l : forall (a b : list N), NoDup (a ++ b) -> NoDup a.
Proof.
  induction a as [|x a IH]; cbn; intros b H; [constructor|].
  inversion H as [|? ? Hx Hr]; subst. constructor; [|eauto].
  intros Hin. apply Hx. apply in_or_app. auto.
Qed.

Lemma NoDup_snoc_fresh : forall (a : list N) c, NoDup (a ++ [c]) -> ~ In c a.
Proof.
  induction a as [|x a IH]; cbn; intros c H; [tauto|].
  inversion H as [|? ? Hx Hr]; subst. intros [Heq|Hin].
  - subst x. apply Hx. apply in_or_app. right. left. reflexivity.
  - exact (IH c Hr Hin).
Qed.

Ltac go_left := first [ apply in_or_app; left | idtac ].

Lemma once_inv_all : forall evs, NoDup (req_calls evs) -> once_inv evs.
Proof.
  induction evs as [|e evs IH] using rev_ind; intros Hnd.
  - constructor; cbn; try tauto; try (intros; rewrite lookup_empty in *; discriminate); try constructor.
  - rewrite req_calls_app in Hnd.
    assert (Hnd0 : NoDup (req_calls evs)) by (apply NoDup_app_l in Hnd; assumption).
    specialize (IH Hnd0). destruct IH as [Hrange Hdeliv Hsep Hnodup Hinj].
    assert (Hfresh : forall c mt w, e = EReq c mt w -> ~ In c (req_calls evs)).
    { intros c mt w Heq. subst e. cbn in Hnd. apply NoDup_snoc_fresh. assumption. }
    constructor; rewrite ?state_snoc, ?trace_snoc, ?dcalls_app, ?req_calls_app;
      revert Hfresh; step_cases (fst (run evs)) e; intros Hfresh; simp_st;
      cbn [dcalls flat_map app req_calls]; rewrite ?app_nil_r.
    (* oi_range *)
    + intros t c Hl. go_left. eauto.
    + intros t c' Hl. go_left. eauto.
    + intros t' c' Hl. apply in_or_app. destruct (N.eq_dec t t') as [->|Hne].
      * rewrite lookup_insert in Hl. inversion Hl. right. left. reflexivity.
      * rewrite lookup_insert_ne in Hl by assumption. left. eauto.
    + intros t' c' Hl. go_left. destruct (N.eq_dec t t') as [->|Hne].
      * rewrite lookup_delete in Hl. discriminate.
      * rewrite lookup_delete_ne, lookup_insert_ne in Hl by assumption. eauto.
    + intros t' c' Hl. go_left. destruct (N.eq_dec t t') as [->|Hne].
      * rewrite lookup_delete in Hl. discriminate.
      * rewrite lookup_delete_ne in Hl by assumption. eauto.
    + intros t c Hl. rewrite H in Hl. go_left. eauto.
    (* oi_deliv *)
    + intros c Hin. go_left. auto.
    + intros c' Hin. apply in_or_app. apply in_app_or in Hin as [Hin|[<-|[]]]; [left; auto | right; left; reflexivity].
    + intros c' Hin. go_left. auto.
    + intros c' Hin. apply in_or_app. apply in_app_or in Hin as [Hin|[<-|[]]]; [left; auto | right; left; reflexivity].
    + intros c' Hin. go_left. apply in_app_or in Hin as [Hin|[<-|[]]]; [auto | eauto].
    + intros c Hin. go_left. apply Hdeliv.
      destruct e; rewrite ?app_nil_r in Hin; try assumption.
      destruct (exit_enabled (fst (run evs))); cbn in Hin; rewrite ?app_nil_r in Hin; assumption.
    (* oi_sep *)
    + intros t c Hl. eauto.
    + intros t c' Hl Hin. apply in_app_or in Hin as [Hin|[<-|[]]]; [eapply Hsep; eauto|].
      eapply (Hfresh c mt wok eq_refl). eauto.
    + intros t' c' Hl Hin. destruct (N.eq_dec t t') as [->|Hne].
      * rewrite lookup_insert in Hl. inversion Hl; subst c'.
        eapply (Hfresh c mt true eq_refl). auto.
      * rewrite lookup_insert_ne in Hl by assumption. eapply Hsep; eauto.
    + intros t' c' Hl Hin. destruct (N.eq_dec t t') as [->|Hne]; [rewrite lookup_delete in Hl; discriminate|].
      rewrite lookup_delete_ne, lookup_insert_ne in Hl by assumption.
      apply in_app_or in Hin as [Hin|[<-|[]]]; [eapply Hsep; eauto|].
      eapply (Hfresh c mt false eq_refl). eauto.
    + intros t' c' Hl Hin. destruct (N.eq_dec t t') as [->|Hne]; [rewrite lookup_delete in Hl; discriminate|].
      rewrite lookup_delete_ne in Hl by assumption.
      apply in_app_or in Hin as [Hin|[<-|[]]]; [eapply Hsep; eauto|].
      apply Hne. eapply Hinj; eauto.
    + intros t c Hl Hin. rewrite H in Hl. eapply Hsep; [eassumption|].
      destruct e; rewrite ?app_nil_r in Hin; try assumption.
      destruct (exit_enabled (fst (run evs))); cbn in Hin; rewrite ?app_nil_r in Hin; assumption.
    (* oi_nodup *)
    + assumption.
    + apply NoDup_snoc; [assumption|]. intros Hin. eapply (Hfresh c mt wok eq_refl). auto.
    + assumption.
    + apply NoDup_snoc; [assumption|]. intros Hin. eapply (Hfresh c mt false eq_refl). auto.
    + apply NoDup_snoc; [assumption|]. eapply Hsep; eauto.
    + destruct e; rewrite ?app_nil_r; try assumption.
      destruct (exit_enabled (fst (run evs))); cbn; rewrite ?app_nil_r; assumption.
    (* oi_inj *)
    + eauto.
    + eauto.
    + intros t1 t2 c' H1 H2.
      destruct (N.eq_dec t t1) as [E1|Hn1]; destruct (N.eq_dec t t2) as [E2|Hn2]; try congruence.
      * subst t1. rewrite lookup_insert in H1. rewrite lookup_insert_ne in H2 by assumption. inversion H1; subst c'.
        exfalso. eapply (Hfresh c mt true eq_refl). eauto.
      * subst t2. rewrite lookup_insert in H2. rewrite lookup_insert_ne in H1 by assumption. inversion H2; subst c'.
        exfalso. eapply (Hfresh c mt true eq_refl). eauto.
      * rewrite lookup_insert_ne in H1, H2 by assumption. eauto.
    + intros t1 t2 c' H1 H2.
      destruct (N.eq_dec t t1) as [->|Hn1]; [rewrite lookup_delete in H1; discriminate|].
      destruct (N.eq_dec t t2) as [->|Hn2]; [rewrite lookup_delete in H2; discriminate|].
      rewrite lookup_delete_ne, lookup_insert_ne in H1, H2 by assumption. eauto.
    + intros t1 t2 c' H1 H2.
      destruct (N.eq_dec t t1) as [->|Hn1]; [rewrite lookup_delete in H1; discriminate|].
      destruct (N.eq_dec t t2) as [->|Hn2]; [rewrite lookup_delete in H2; discriminate|].
      rewrite lookup_delete_ne in H1, H2 by assumption. eauto.
    + intros t1 t2 c H1' H2'. rewrite H in H1', H2'. eauto.
Qed.

(* C05_once: over both channels together each call is handed at most one item *)
Theorem delivered_once : forall evs, NoDup (req_calls evs) -> NoDup (dcalls (trace evs)).
Proof. intros evs H. exact (oi_nodup evs (once_inv_all evs H)). Qed.

(* ---------------------------------------------------------------- send and the session methods *)

Lemma send_wait_reply : forall r, send_wait false false None (Some r) = [conv_reply r].
Proof. intros r. unfold send_wait. rewrite src_send_second_cases. reflexivity. Qed.

Lemma rerror_is_the_calls_error : forall mt r,
  r_type r = send_error_type ->
  send_wait false false None (Some r) = [SRerror r] /\ client_result mt (SRerror r) = CRerror r.
Proof.
  intros mt r Ht. rewrite send_wait_reply. unfold conv_reply. rewrite Ht, N.eqb_refl. split; reflexivity.
Qed.

Lemma right_type_is_ok : forall mt rt r,
  expected_reply mt = Some rt -> r_type r = rt ->
  client_result mt (conv_reply r) = COk r.
Proof.
  intros mt rt r He Ht. unfold conv_reply.
  assert (Hne : (r_type r =? send_error_type) = false).
  { unfold expected_reply in He.
    destruct (find (fun row => snd (fst row) =? mt) reply_types) as [row|] eqn:Ef; [|discriminate].
    inversion He as [Hrt]. apply find_some in Ef as [Hin _].
    pose proof src_error_type_not_expected as Hall. rewrite forallb_forall in Hall.
    specialize (Hall row Hin). rewrite Ht, <- Hrt. destruct (snd row =? send_error_type); [discriminate | reflexivity]. }
  rewrite Hne. cbn [client_result]. rewrite He, Ht, N.eqb_refl. reflexivity.
Qed.

Lemma wrong_type_is_unexpected : forall mt r,
  r_type r <> send_error_type ->
  (forall rt, expected_reply mt = Some rt -> r_type r <> rt) ->
  client_result mt (conv_reply r) = CUnexpected.
Proof.
  intros mt r Hne Hexp. unfold conv_reply.
  destruct (r_type r =? send_error_type) eqn:E; [lia|].
  cbn [client_result]. destruct (expected_reply mt) as [rt|] eqn:He; [|reflexivity].
  specialize (Hexp rt eq_refl). destruct (r_type r =? rt) eqn:E2; [lia | reflexivity].
Qed.

(* after close: a ready case, and it is an error *)
Lemma send_wait_closed : forall own e r,
  In SErrClosed (send_wait true own e r) /\
  (forall s, In s (send_wait true own e None) -> sres_is_error s = true).
Proof.
  intros own e r. unfold send_wait. rewrite src_send_second_cases. cbn [andb opt_list app]. split.
  - left. reflexivity.
  - intros s [<-|Hin]; [reflexivity|].
    destruct own, e; cbn in Hin; repeat (destruct Hin as [<-|Hin]; [reflexivity|]); destruct Hin.
Qed.

Lemma send_first_closed : forall own owner,
  In (Some SErrClosed) (send_first true own owner) /\
  (owner = false -> forall o, In o (send_first true own owner) -> exists s, o = Some s /\ sres_is_error s = true).
Proof.
  intros own owner. unfold send_first. rewrite src_send_first_cases. cbn [andb opt_list app]. split.
  - left. reflexivity.
  - intros -> o [<-|Hin]; [eauto|].
    destruct own; cbn in Hin; repeat (destruct Hin as [<-|Hin]; [eauto|]); destruct Hin.
Qed.

(* once shutdown or the session context has fired, the loop's exit case is ready and taking it closes *)
Lemma exit_ready : forall st,
  h_panicked st = false -> h_closed st = false -> (h_shut st || h_ctx st) = true ->
  exit_enabled st = true /\ h_closed (fst (hstep st EExit)) = true /\ snd (hstep st EExit) = [OClosed].
Proof.
  intros st Hp Hc Hs. unfold exit_enabled, h_running. rewrite Hp, Hc, Hs. split; [reflexivity|].
  cbn [hstep]. unfold h_running. rewrite Hp, Hc, Hs. cbn. split; reflexivity.
Qed.

Lemma flags_monotone : forall st e,
  (h_shut st = true -> h_shut (fst (hstep st e)) = true) /\
  (h_ctx st = true -> h_ctx (fst (hstep st e)) = true) /\
  (h_closed st = true -> h_closed (fst (hstep st e)) = true).
Proof. intros st e. step_cases st e; simp_st; auto. Qed.

Lemma fatal_sets_shut : forall st, h_shut (fst (hstep st EReadFatal)) = true.
Proof. reflexivity. Qed.
Lemma ctxdone_sets_ctx : forall st, h_ctx (fst (hstep st ECtxDone)) = true.
Proof. reflexivity. Qed.

(* a read that fails with a timeout-class error once the session context has
   ended (or the transport has closed) ends the reader goroutine: it does not retry *)
Lemma reader_stops : forall st,
  (h_ctx st || h_closed st) = true -> h_shut (fst (hstep st EReadRetry)) = true.
Proof. intros st H. cbn [hstep]. rewrite src_reader_retry_stops, H. reflexivity. Qed.

Lemma reader_retry_harmless : forall st,
  (h_ctx st || h_closed st) = false -> hstep st EReadRetry = (st, []).
Proof. intros st H. cbn [hstep]. rewrite H, andb_false_r. reflexivity. Qed.

(* own context *)
Lemma send_wait_own_ctx : forall closed e r,
  In SErrCtx (send_wait closed true e r) /\ send_wait false true None None = [SErrCtx].
Proof.
  intros closed e r. unfold send_wait. rewrite src_send_second_cases. cbn [andb opt_list app]. split; [|reflexivity].
  destruct closed; cbn; auto.
Qed.

Lemma cancel_is_invisible : forall st c, hstep st (ECancel c) = (st, []).
Proof. reflexivity. Qed.
