(* Who gets which reply: history invariant of the owner loop (C05_own_reply,
   C05_once), and the pure facts about send / the session methods
   (C05_rerror, C12_wrong_type, C12_after_close, C12_own_ctx). *)
From stdpp Require Import nmap fin_maps.
From Coq Require Import List NArith Bool Lia ZifyBool ZifyNat ZifyN.
From P9 Require Import Gen.GenReplyTypes Model.Tags Proofs.TagsProofsAlloc Proofs.TagsProofs.
Import ListNotations.
Open Scope N_scope.

(* ---------------------------------------------------------------- running is never regained *)

Lemma running_step : forall st e, h_running (fst (hstep st e)) = true -> h_running st = true.
Proof.
  intros st e. step_cases st e; try (unfold h_running; simp_st; tauto).
  unfold h_running in *. intros Hr.
  destruct (h_closed st) eqn:Ec; [rewrite (H4 eq_refl) in Hr; discriminate|].
  rewrite <- H3. destruct (h_panicked st'); [rewrite andb_false_r in Hr; discriminate | reflexivity].
Qed.

(* ---------------------------------------------------------------- the history behind every outstanding tag *)

Definition no_resp (t : N) (evs : list hevent) : Prop := forall r, ~ In (EResp t r) evs.

(* in state st the loop is running and allocateTag would return t *)
Definition req_allocates (st : hstate) (t : N) : Prop :=
  h_running st = true /\ allocate (h_out st) (h_sel st) = inl t.

(* call c's request was taken after [evs1] and given tag t, and no reply with
   tag t has been taken since *)
Definition issued_at (evs : list hevent) (t c : N) : Prop :=
  exists evs1 evs2 mt,
    evs = evs1 ++ EReq c mt :: evs2 /\ req_allocates (fst (run evs1)) t /\ no_resp t evs2.

Definition hist_inv (evs : list hevent) : Prop :=
  h_running (fst (run evs)) = true ->
  forall t c, h_out (fst (run evs)) !! t = Some c -> issued_at evs t c.

Lemma issued_at_snoc : forall evs t c e,
  issued_at evs t c -> (forall r, e <> EResp t r) -> issued_at (evs ++ [e]) t c.
Proof.
  intros evs t c e (evs1 & evs2 & mt & Heq & Hf & Hn) Hne. subst evs.
  exists evs1, (evs2 ++ [e]), mt. split; [|split; [assumption|]].
  - rewrite <- app_assoc. reflexivity.
  - intros r Hin. apply in_app_or in Hin as [Hin|[Hin|[]]]; [exact (Hn r Hin)|].
    exact (Hne r Hin).
Qed.

Lemma flag_event_not_resp : forall e t r, is_flag_event e = true -> e <> EResp t r.
Proof. intros e t r He Heq. subst e. discriminate. Qed.

Lemma hist_inv_all : forall evs, hist_inv evs.
Proof.
  induction evs as [|e evs IH] using rev_ind.
  - intros _ t c Hl. cbn in Hl. rewrite lookup_empty in Hl. discriminate.
  - unfold hist_inv in *. rewrite state_snoc. intros Hrun t c Hl.
    pose proof (running_step _ _ Hrun) as Hrun0. specialize (IH Hrun0).
    revert Hrun Hl. step_cases (fst (run evs)) e; intros Hrun Hl; simp_st in Hl.
    + (* idle *)
      apply issued_at_snoc; [apply IH; assumption|].
      intros r Heq. subst e. (* an EResp that was idle has an unknown tag, so t is not its tag *)
      cbn [hstep] in Ho. rewrite Hrun0, Hl in Ho. discriminate.
    + apply issued_at_snoc; [apply IH; assumption | discriminate].
    + (* a request was taken and given tag t0 *)
      destruct (N.eq_dec t0 t) as [Heq|Hne].
      * subst t0. rewrite lookup_insert in Hl. inversion Hl; subst c0.
        exists evs, [], mt. split; [reflexivity|]. split; [split; assumption | intros r []].
      * rewrite lookup_insert_ne in Hl by assumption.
        apply issued_at_snoc; [apply IH; assumption | discriminate].
    + apply issued_at_snoc; [apply IH; assumption | discriminate].
    + apply issued_at_snoc; [apply IH; assumption | discriminate].
    + destruct (N.eq_dec (w_tag w) t) as [Heq|Hne].
      * rewrite Heq, lookup_delete in Hl. discriminate.
      * rewrite lookup_delete_ne in Hl by assumption.
        apply issued_at_snoc; [apply IH; assumption | discriminate].
    + apply issued_at_snoc; [apply IH; assumption | discriminate].
    + apply issued_at_snoc; [apply IH; assumption | discriminate].
    + (* a reply with tag t0 was delivered *)
      destruct (N.eq_dec t0 t) as [Heq|Hne].
      * subst t0. rewrite lookup_delete in Hl. discriminate.
      * rewrite lookup_delete_ne in Hl by assumption.
        apply issued_at_snoc; [apply IH; assumption|]. intros r' Heq. inversion Heq. congruence.
    + rewrite H in Hl.
      apply issued_at_snoc; [apply IH; assumption|]. intros r. apply flag_event_not_resp. assumption.
Qed.

(* C05_own_reply *)
Theorem own_reply : forall evs c r,
  In (ODeliver c r) (trace evs) ->
  exists evs1 evs2 evs3 t mt,
    evs = evs1 ++ EReq c mt :: evs2 ++ EResp t r :: evs3 /\
    req_allocates (fst (run evs1)) t /\ no_resp t evs2.
Proof.
  induction evs as [|e evs IH] using rev_ind; intros c r Hin.
  - destruct Hin.
  - rewrite trace_snoc in Hin. apply in_app_or in Hin as [Hin|Hin].
    + destruct (IH c r Hin) as (evs1 & evs2 & evs3 & t & mt & Heq & Hf & Hn). subst evs.
      exists evs1, evs2, (evs3 ++ [e]), t, mt. split; [|tauto].
      rewrite <- !app_assoc. cbn [app]. rewrite <- app_assoc. reflexivity.
    + pose proof (hist_inv_all evs) as Hinv. unfold hist_inv in Hinv.
      revert Hin. step_cases (fst (run evs)) e; intros Hin;
        try (destruct Hin as [Hin|[]]; discriminate); try (destruct Hin; fail).
      * destruct Hin as [Hin|[]]. inversion Hin; subst c0 r0.
        destruct (Hinv H t c H0) as (evs1 & evs2 & mt & Heq & Hf & Hn). subst evs.
        exists evs1, evs2, [], t, mt. split; [|tauto].
        rewrite <- app_assoc. reflexivity.
      * apply (flag_event_outputs _ _ H7) in Hin. discriminate.
Qed.

(* every queued frame, hence every frame written, carries the tag allocated when its call's request was taken *)
Definition job_origin (evs : list hevent) (w : wjob) : Prop :=
  exists evs1 evs2, evs = evs1 ++ EReq (w_call w) (w_mt w) :: evs2 /\ req_allocates (fst (run evs1)) (w_tag w).

Lemma job_origin_snoc : forall evs w e, job_origin evs w -> job_origin (evs ++ [e]) w.
Proof.
  intros evs w e (evs1 & evs2 & Heq & Hal). subst evs. exists evs1, (evs2 ++ [e]). split; [|assumption].
  rewrite <- app_assoc. reflexivity.
Qed.

Lemma jobs_origin_all : forall evs w, In w (jobs (fst (run evs))) -> job_origin evs w.
Proof.
  induction evs as [|e evs IH] using rev_ind; intros w0 Hin.
  - destruct Hin.
  - rewrite state_snoc in Hin. revert Hin.
    step_cases (fst (run evs)) e; unfold jobs; simp_st; intros Hin;
      try (apply job_origin_snoc, IH; exact Hin).
    + rewrite app_assoc in Hin. apply in_app_or in Hin as [Hin|[<-|[]]].
      * apply job_origin_snoc, IH. exact Hin.
      * exists evs, []. split; [reflexivity | split; assumption].
    + apply job_origin_snoc, IH. unfold jobs. rewrite H0, H1. exact Hin.
    + apply job_origin_snoc, IH. unfold jobs. rewrite H. right. exact Hin.
    + apply job_origin_snoc, IH. unfold jobs. rewrite H0. right. exact Hin.
    + apply job_origin_snoc, IH. unfold jobs. rewrite H0. right. exact Hin.
    + apply job_origin_snoc, IH. unfold jobs. rewrite H0. right. exact Hin.
    + apply job_origin_snoc, IH. unfold jobs. rewrite <- H1, <- H2. exact Hin.
Qed.

Theorem frame_origin : forall evs t c mt,
  In (OFrame t c mt) (trace evs) ->
  exists evs1 evs2, evs = evs1 ++ EReq c mt :: evs2 /\ req_allocates (fst (run evs1)) t.
Proof.
  induction evs as [|e evs IH] using rev_ind; intros t c mt Hin.
  - destruct Hin.
  - rewrite trace_snoc in Hin. apply in_app_or in Hin as [Hin|Hin].
    + destruct (IH t c mt Hin) as (evs1 & evs2 & Heq & Hal). subst evs.
      exists evs1, (evs2 ++ [e]). split; [|assumption]. rewrite <- app_assoc. reflexivity.
    + revert Hin. step_cases (fst (run evs)) e; intros Hin;
        try (destruct Hin as [Hin|[]]; discriminate); try (destruct Hin; fail).
      * destruct Hin as [Hin|[]]. inversion Hin; subst.
        change (job_origin (evs ++ [EWrote]) w).
        apply job_origin_snoc. apply jobs_origin_all. unfold jobs. rewrite H. left. reflexivity.
      * apply (flag_event_outputs _ _ H7) in Hin. discriminate.
Qed.

(* completeness of delivery while the loop runs: a reply whose tag is outstanding is handed over at once *)
Lemma resp_delivered : forall st t r c,
  h_running st = true -> h_out st !! t = Some c ->
  snd (hstep st (EResp t r)) = [ODeliver c r] /\ h_out (fst (hstep st (EResp t r))) !! t = None.
Proof.
  intros st t r c Hr Hl. cbn [hstep]. rewrite Hr, Hl. simp_st. split; [reflexivity | apply lookup_delete].
Qed.

(* ---------------------------------------------------------------- at most one reply and one error per call *)

Definition rcalls (tr : list hout) : list N :=
  flat_map (fun o => match o with ODeliver c _ => [c] | _ => [] end) tr.
Definition ecalls (tr : list hout) : list N :=
  flat_map (fun o => match o with ODeliverErr c _ => [c] | _ => [] end) tr.

Lemma rcalls_app : forall a b, rcalls (a ++ b) = rcalls a ++ rcalls b.
Proof. intros. unfold rcalls. apply flat_map_app. Qed.
Lemma ecalls_app : forall a b, ecalls (a ++ b) = ecalls a ++ ecalls b.
Proof. intros. unfold ecalls. apply flat_map_app. Qed.
Lemma req_calls_app : forall a b, req_calls (a ++ b) = req_calls a ++ req_calls b.
Proof. intros. unfold req_calls. apply flat_map_app. Qed.

Lemma NoDup_snoc_fresh : forall (a : list N) c, NoDup (a ++ [c]) -> ~ In c a.
Proof.
  induction a as [|x a IH]; cbn; intros c H; [tauto|].
  inversion H as [|? ? Hx Hr]; subst. intros [Heq|Hin].
  - subst x. apply Hx. apply in_or_app. right. left. reflexivity.
  - exact (IH c Hr Hin).
Qed.

Lemma flag_event_rcalls : forall st e, is_flag_event e = true ->
  rcalls (match e with EExit => if exit_enabled st then [OClosed] else [] | _ => [] end) = [] /\
  ecalls (match e with EExit => if exit_enabled st then [OClosed] else [] | _ => [] end) = [] /\
  req_calls [e] = [].
Proof. intros st e He. destruct e; try discriminate; try (repeat split; reflexivity). destruct (exit_enabled st); repeat split; reflexivity. Qed.

(* replies *)
Record once_r (st : hstate) (reqs dr : list N) : Prop := {
  or_range : forall t c, h_out st !! t = Some c -> In c reqs;
  or_deliv : forall c, In c dr -> In c reqs;
  or_sep   : forall t c, h_out st !! t = Some c -> ~ In c dr;
  or_nodup : NoDup dr;
  or_inj   : forall t1 t2 c, h_out st !! t1 = Some c -> h_out st !! t2 = Some c -> t1 = t2 }.

Lemma once_r_same_out : forall st st' reqs dr,
  h_out st' = h_out st -> once_r st reqs dr -> once_r st' reqs dr.
Proof. intros st st' reqs dr Ho [A B C D E]. constructor; try rewrite Ho; assumption. Qed.

Lemma once_r_step : forall st e reqs dr,
  once_r st reqs dr -> (forall c mt, e = EReq c mt -> ~ In c reqs) ->
  once_r (fst (hstep st e)) (reqs ++ req_calls [e]) (dr ++ rcalls (snd (hstep st e))).
Proof.
  intros st e reqs dr Hinv Hfresh. pose proof Hinv as [Hrange Hdeliv Hsep Hnodup Hinj].
  step_cases st e; cbn [rcalls flat_map app]; rewrite ?app_nil_r.
  - (* idle *) destruct e; cbn [req_calls flat_map app]; rewrite ?app_nil_r; try assumption.
    constructor; eauto using in_or_app.
  - cbn [req_calls flat_map app]. constructor; eauto using in_or_app.
  - (* request taken *)
    cbn [req_calls flat_map app]. specialize (Hfresh c mt eq_refl). constructor; simp_st.
    + intros t' c' Hl. apply in_or_app. destruct (N.eq_dec t t') as [Heq|Hne].
      * subst t'. rewrite lookup_insert in Hl. inversion Hl. right. left. reflexivity.
      * rewrite lookup_insert_ne in Hl by assumption. left. eauto.
    + intros c' Hin. apply in_or_app. left. auto.
    + intros t' c' Hl Hin. destruct (N.eq_dec t t') as [Heq|Hne].
      * subst t'. rewrite lookup_insert in Hl. inversion Hl; subst c'. auto.
      * rewrite lookup_insert_ne in Hl by assumption. eapply Hsep; eauto.
    + assumption.
    + intros t1 t2 c' H1 H2.
      destruct (N.eq_dec t t1) as [E1|Hn1]; destruct (N.eq_dec t t2) as [E2|Hn2]; try congruence.
      * subst t1. rewrite lookup_insert in H1. rewrite lookup_insert_ne in H2 by assumption. inversion H1; subst c'.
        exfalso. eauto.
      * subst t2. rewrite lookup_insert in H2. rewrite lookup_insert_ne in H1 by assumption. inversion H2; subst c'.
        exfalso. eauto.
      * rewrite lookup_insert_ne in H1, H2 by assumption. eauto.
  - cbn [req_calls flat_map app]. rewrite ?app_nil_r. eapply once_r_same_out; [|eassumption]. reflexivity.
  - cbn [req_calls flat_map app]. rewrite ?app_nil_r. eapply once_r_same_out; [|eassumption]. reflexivity.
  - (* write failed, tag released *)
    cbn [req_calls flat_map app]. rewrite ?app_nil_r. constructor; simp_st.
    + intros t' c' Hl. destruct (N.eq_dec (w_tag w) t') as [Heq|Hne]; [rewrite Heq, lookup_delete in Hl; discriminate|].
      rewrite lookup_delete_ne in Hl by assumption. eauto.
    + assumption.
    + intros t' c' Hl. destruct (N.eq_dec (w_tag w) t') as [Heq|Hne]; [rewrite Heq, lookup_delete in Hl; discriminate|].
      rewrite lookup_delete_ne in Hl by assumption. eauto.
    + assumption.
    + intros t1 t2 c' H1' H2'.
      destruct (N.eq_dec (w_tag w) t1) as [Heq|Hn1]; [rewrite Heq, lookup_delete in H1'; discriminate|].
      destruct (N.eq_dec (w_tag w) t2) as [Heq|Hn2]; [rewrite Heq, lookup_delete in H2'; discriminate|].
      rewrite lookup_delete_ne in H1', H2' by assumption. eauto.
  - cbn [req_calls flat_map app]. rewrite ?app_nil_r. eapply once_r_same_out; [|eassumption]. reflexivity.
  - cbn [req_calls flat_map app]. rewrite ?app_nil_r. eapply once_r_same_out; [|eassumption]. reflexivity.
  - (* reply delivered *)
    cbn [req_calls flat_map app]. rewrite ?app_nil_r. constructor; simp_st.
    + intros t' c' Hl. destruct (N.eq_dec t t') as [Heq|Hne]; [subst t'; rewrite lookup_delete in Hl; discriminate|].
      rewrite lookup_delete_ne in Hl by assumption. eauto.
    + intros c' Hin. apply in_app_or in Hin as [Hin|[<-|[]]]; eauto.
    + intros t' c' Hl Hin. destruct (N.eq_dec t t') as [Heq|Hne]; [subst t'; rewrite lookup_delete in Hl; discriminate|].
      rewrite lookup_delete_ne in Hl by assumption.
      apply in_app_or in Hin as [Hin|[<-|[]]]; [eapply Hsep; eauto|].
      apply Hne. eapply Hinj; eauto.
    + apply NoDup_snoc_N; [assumption|]. eapply Hsep; eauto.
    + intros t1 t2 c' H1' H2'.
      destruct (N.eq_dec t t1) as [Heq|Hn1]; [subst t1; rewrite lookup_delete in H1'; discriminate|].
      destruct (N.eq_dec t t2) as [Heq|Hn2]; [subst t2; rewrite lookup_delete in H2'; discriminate|].
      rewrite lookup_delete_ne in H1', H2' by assumption. eauto.
  - destruct (flag_event_rcalls st e H7) as (Hr & _ & Hq). rewrite Hr, Hq, !app_nil_r.
    eapply once_r_same_out; eassumption.
Qed.

Lemma once_r_all : forall evs, NoDup (req_calls evs) ->
  once_r (fst (run evs)) (req_calls evs) (rcalls (trace evs)).
Proof.
  induction evs as [|e evs IH] using rev_ind; intros Hnd.
  - constructor; cbn; try tauto; try (intros; rewrite lookup_empty in *; discriminate); try constructor.
  - rewrite req_calls_app in Hnd.
    assert (Hnd0 : NoDup (req_calls evs)) by (apply NoDup_app_l_N in Hnd; assumption).
    rewrite state_snoc, trace_snoc, rcalls_app, req_calls_app.
    apply once_r_step; [apply IH; assumption|].
    intros c mt Heq. subst e. cbn in Hnd. apply NoDup_snoc_fresh. assumption.
Qed.

(* errors *)
Record once_e (st : hstate) (reqs de : list N) : Prop := {
  oe_jobs_nodup : NoDup (map w_call (jobs st));
  oe_jobs_reqs  : forall w, In w (jobs st) -> In (w_call w) reqs;
  oe_deliv      : forall c, In c de -> In c reqs;
  oe_sep        : forall w, In w (jobs st) -> ~ In (w_call w) de;
  oe_nodup      : NoDup de }.

Lemma once_e_tail : forall st st' reqs de w,
  jobs st = w :: jobs st' -> once_e st reqs de -> once_e st' reqs de.
Proof.
  intros st st' reqs de w Hj [A B C D E]. rewrite Hj in *. cbn [map] in A.
  inversion A; subst. constructor; auto using in_cons.
Qed.

Lemma once_e_tail_err : forall st st' reqs de w,
  jobs st = w :: jobs st' -> once_e st reqs de -> once_e st' reqs (de ++ [w_call w]).
Proof.
  intros st st' reqs de w Hj [A B C D E]. rewrite Hj in *. cbn [map] in A.
  inversion A as [|? ? Hx Hr]; subst. constructor; auto using in_cons.
  - intros c Hin. apply in_app_or in Hin as [Hin|[<-|[]]]; [auto | apply B; left; reflexivity].
  - intros w' Hw' Hin. apply in_app_or in Hin as [Hin|[Heq|[]]].
    + exact (D w' (in_cons _ _ _ Hw') Hin).
    + apply Hx. rewrite Heq. apply in_map. assumption.
  - apply NoDup_snoc_N; [assumption|]. apply D. left. reflexivity.
Qed.

Lemma once_e_same_jobs : forall st st' reqs de,
  jobs st' = jobs st -> once_e st reqs de -> once_e st' reqs de.
Proof. intros st st' reqs de Hj [A B C D E]. constructor; try rewrite Hj; assumption. Qed.

Lemma once_e_step : forall st e reqs de,
  once_e st reqs de -> (forall c mt, e = EReq c mt -> ~ In c reqs) ->
  once_e (fst (hstep st e)) (reqs ++ req_calls [e]) (de ++ ecalls (snd (hstep st e))).
Proof.
  intros st e reqs de Hinv Hfresh. pose proof Hinv as [Hjn Hjr Hdeliv Hsep Hnodup].
  step_cases st e; cbn [ecalls flat_map app]; rewrite ?app_nil_r.
  - destruct e; cbn [req_calls flat_map app]; rewrite ?app_nil_r; try assumption.
    constructor; eauto using in_or_app.
  - (* allocation failed: the error goes to the fresh call *)
    cbn [req_calls flat_map app]. specialize (Hfresh c mt eq_refl). constructor.
    + assumption.
    + intros w Hw. apply in_or_app. left. auto.
    + intros c' Hin. apply in_or_app. apply in_app_or in Hin as [Hin|[<-|[]]]; [left; auto | right; left; reflexivity].
    + intros w Hw Hin. apply in_app_or in Hin as [Hin|[Heq|[]]]; [exact (Hsep w Hw Hin)|].
      apply Hfresh. rewrite Heq. auto.
    + apply NoDup_snoc_N; [assumption|]. intros Hin. apply Hfresh. auto.
  - (* request queued *)
    cbn [req_calls flat_map app]. specialize (Hfresh c mt eq_refl).
    assert (Hj : jobs (with_data st (<[t:=c]> (h_out st)) t (h_pend st ++ [{| w_call := c; w_tag := t; w_mt := mt |}]) (h_writer st))
                 = jobs st ++ [{| w_call := c; w_tag := t; w_mt := mt |}]).
    { unfold jobs. simp_st. rewrite app_assoc. reflexivity. }
    constructor; rewrite ?Hj.
    + rewrite map_app. cbn [map w_call]. apply NoDup_snoc_N; [assumption|].
      intros Hin. apply in_map_iff in Hin as (w & Heq & Hw). apply Hfresh. rewrite <- Heq. auto.
    + intros w Hw. apply in_or_app. apply in_app_or in Hw as [Hw|[<-|[]]]; [left; auto | right; left; reflexivity].
    + intros c' Hin. apply in_or_app. left. auto.
    + intros w Hw Hin. apply in_app_or in Hw as [Hw|[<-|[]]]; [exact (Hsep w Hw Hin)|].
      cbn in Hin. apply Hfresh. auto.
    + assumption.
  - cbn [req_calls flat_map app]. rewrite ?app_nil_r. eapply once_e_same_jobs; [|eassumption].
    unfold jobs. simp_st. rewrite H0, H1. reflexivity.
  - cbn [req_calls flat_map app]. rewrite ?app_nil_r. eapply (once_e_tail st _ reqs de w); [|eassumption].
    unfold jobs. simp_st. rewrite H. reflexivity.
  - cbn [req_calls flat_map app]. rewrite ?app_nil_r. eapply (once_e_tail_err st _ reqs de w); [|eassumption].
    unfold jobs. simp_st. rewrite H0. reflexivity.
  - cbn [req_calls flat_map app]. rewrite ?app_nil_r. eapply (once_e_tail_err st _ reqs de w); [|eassumption].
    unfold jobs. simp_st. rewrite H0. reflexivity.
  - cbn [req_calls flat_map app]. rewrite ?app_nil_r. eapply (once_e_tail st _ reqs de w); [|eassumption].
    unfold jobs. simp_st. rewrite H0. reflexivity.
  - cbn [req_calls flat_map app]. rewrite ?app_nil_r. eapply once_e_same_jobs; [|eassumption]. reflexivity.
  - destruct (flag_event_rcalls st e H7) as (_ & Hr & Hq). rewrite Hr, Hq, !app_nil_r.
    eapply once_e_same_jobs; [|eassumption]. unfold jobs. rewrite H1, H2. reflexivity.
Qed.

Lemma once_e_all : forall evs, NoDup (req_calls evs) ->
  once_e (fst (run evs)) (req_calls evs) (ecalls (trace evs)).
Proof.
  induction evs as [|e evs IH] using rev_ind; intros Hnd.
  - constructor; cbn; try tauto; constructor.
  - rewrite req_calls_app in Hnd.
    assert (Hnd0 : NoDup (req_calls evs)) by (apply NoDup_app_l_N in Hnd; assumption).
    rewrite state_snoc, trace_snoc, ecalls_app, req_calls_app.
    apply once_e_step; [apply IH; assumption|].
    intros c mt Heq. subst e. cbn in Hnd. apply NoDup_snoc_fresh. assumption.
Qed.

(* C05_once: each call is handed at most one reply and at most one error *)
Theorem delivered_once : forall evs, NoDup (req_calls evs) ->
  NoDup (rcalls (trace evs)) /\ NoDup (ecalls (trace evs)).
Proof.
  intros evs H. split; [exact (or_nodup _ _ _ (once_r_all evs H)) | exact (oe_nodup _ _ _ (once_e_all evs H))].
Qed.

(* ---------------------------------------------------------------- send and the session methods *)

Lemma send_wait_reply : forall r, send_wait false false None (Some r) = [conv_reply r].
Proof. intros r. unfold send_wait. rewrite src_send_second_cases. reflexivity. Qed.

Lemma rerror_is_the_calls_error : forall mt r,
  r_type r = send_error_type ->
  send_wait false false None (Some r) = [SRerror r] /\ client_result mt (SRerror r) = CRerror r.
Proof.
  intros mt r Ht. rewrite send_wait_reply. unfold conv_reply. rewrite Ht, N.eqb_refl. split; reflexivity.
Qed.

Lemma right_type_is_ok : forall mt rt r,
  expected_reply mt = Some rt -> r_type r = rt ->
  client_result mt (conv_reply r) = COk r.
Proof.
  intros mt rt r He Ht. unfold conv_reply.
  assert (Hne : (r_type r =? send_error_type) = false).
  { unfold expected_reply in He.
    destruct (find (fun row => snd (fst row) =? mt) reply_types) as [row|] eqn:Ef; [|discriminate].
    inversion He as [Hrt]. apply find_some in Ef as [Hin _].
    pose proof src_error_type_not_expected as Hall. rewrite forallb_forall in Hall.
    specialize (Hall row Hin). rewrite Ht, <- Hrt. destruct (snd row =? send_error_type); [discriminate | reflexivity]. }
  rewrite Hne. cbn [client_result]. rewrite He, Ht, N.eqb_refl. reflexivity.
Qed.

Lemma wrong_type_is_unexpected : forall mt r,
  r_type r <> send_error_type ->
  (forall rt, expected_reply mt = Some rt -> r_type r <> rt) ->
  client_result mt (conv_reply r) = CUnexpected.
Proof.
  intros mt r Hne Hexp. unfold conv_reply.
  destruct (r_type r =? send_error_type) eqn:E; [lia|].
  cbn [client_result]. destruct (expected_reply mt) as [rt|] eqn:He; [|reflexivity].
  specialize (Hexp rt eq_refl). destruct (r_type r =? rt) eqn:E2; [lia | reflexivity].
Qed.

(* after close: a ready case, and it is an error *)
Lemma send_wait_closed : forall own e r,
  In SErrClosed (send_wait true own e r) /\
  (forall s, In s (send_wait true own e None) -> sres_is_error s = true).
Proof.
  intros own e r. unfold send_wait. rewrite src_send_second_cases. cbn [andb opt_list app]. split.
  - left. reflexivity.
  - intros s [<-|Hin]; [reflexivity|].
    destruct own, e; cbn in Hin; repeat (destruct Hin as [<-|Hin]; [reflexivity|]); destruct Hin.
Qed.

Lemma send_first_closed : forall own owner,
  In (Some SErrClosed) (send_first true own owner) /\
  (owner = false -> forall o, In o (send_first true own owner) -> exists s, o = Some s /\ sres_is_error s = true).
Proof.
  intros own owner. unfold send_first. rewrite src_send_first_cases. cbn [andb opt_list app]. split.
  - left. reflexivity.
  - intros -> o [<-|Hin]; [eauto|].
    destruct own; cbn in Hin; repeat (destruct Hin as [<-|Hin]; [eauto|]); destruct Hin.
Qed.

(* once shutdown or the session context has fired, the loop's exit case is ready and taking it closes *)
Lemma exit_ready : forall st,
  h_panicked st = false -> h_closed st = false -> (h_shut st || h_ctx st) = true ->
  exit_enabled st = true /\ h_closed (fst (hstep st EExit)) = true /\ snd (hstep st EExit) = [OClosed].
Proof.
  intros st Hp Hc Hs. unfold exit_enabled, h_running. rewrite Hp, Hc, Hs. split; [reflexivity|].
  cbn [hstep]. unfold h_running. rewrite Hp, Hc, Hs. cbn. split; reflexivity.
Qed.

Lemma flags_monotone : forall st e,
  (h_shut st = true -> h_shut (fst (hstep st e)) = true) /\
  (h_ctx st = true -> h_ctx (fst (hstep st e)) = true) /\
  (h_closed st = true -> h_closed (fst (hstep st e)) = true).
Proof. intros st e. step_cases st e; simp_st; auto. Qed.

Lemma fatal_sets_shut : forall st, h_shut (fst (hstep st EReadFatal)) = true.
Proof. reflexivity. Qed.
Lemma ctxdone_sets_ctx : forall st, h_ctx (fst (hstep st ECtxDone)) = true.
Proof. reflexivity. Qed.

(* a read that fails with a timeout-class error once the session context has
   ended (or the transport has closed) ends the reader goroutine: it does not retry *)
Lemma reader_stops : forall st,
  (h_ctx st || h_closed st) = true -> h_shut (fst (hstep st EReadRetry)) = true.
Proof. intros st H. cbn [hstep]. rewrite src_reader_retry_stops, H. reflexivity. Qed.

Lemma reader_retry_harmless : forall st,
  (h_ctx st || h_closed st) = false -> hstep st EReadRetry = (st, []).
Proof. intros st H. cbn [hstep]. rewrite H, andb_false_r. reflexivity. Qed.

(* own context *)
Lemma send_wait_own_ctx : forall closed e r,
  In SErrCtx (send_wait closed true e r) /\ send_wait false true None None = [SErrCtx].
Proof.
  intros closed e r. unfold send_wait. rewrite src_send_second_cases. cbn [andb opt_list app]. split; [|reflexivity].
  destruct closed; cbn; auto.
Qed.

Lemma cancel_is_invisible : forall st c, hstep st (ECancel c) = (st, []).
Proof. reflexivity. Qed.

(* stray replies and other calls *)
Lemma stray_reply_noop : forall st t r, h_out st !! t = None -> hstep st (EResp t r) = (st, []).
Proof.
  intros st t r H. cbn [hstep]. rewrite H, src_unknown_tag_dropped. destruct (h_running st); reflexivity.
Qed.

Lemma reply_touches_only_its_tag : forall st t r t',
  t' <> t -> h_out (fst (hstep st (EResp t r))) !! t' = h_out st !! t'.
Proof.
  intros st t r t' Hne. cbn [hstep]. destruct (h_running st); [|reflexivity].
  destruct (h_out st !! t) eqn:Hl; cbn [fst h_out with_data].
  - apply lookup_delete_ne. congruence.
  - rewrite src_unknown_tag_dropped. reflexivity.
Qed.

(* once the reader failed or the session context ended, the loop has returned or its exit arm is ready *)
Lemma never_stuck_after_failure : forall evs,
  let st := fst (run evs) in
  (h_shut st || h_ctx st) = true -> h_closed st = true \/ exit_enabled st = true.
Proof.
  intros evs st Hf. destruct (run_no_panic evs) as [Hp _]. fold st in Hp.
  unfold exit_enabled, h_running. rewrite Hp, Hf. destruct (h_closed st); [left | right]; reflexivity.
Qed.
