(* Lemmas about Model/Ramfs.v, part 4: every session operation keeps the
   invariant and neither panics nor hangs; induction over operation lists. *)
From Coq Require Import List NArith ZArith Bool Lia ZifyBool ZifyNat ZifyN.
From P9 Require Import Base.Res Model.Path Model.Ramfs Proofs.RamfsProofs Proofs.RamfsProofsRef Proofs.RamfsProofsInv.
Import ListNotations.
Open Scope Z_scope.

Definition good {A} (r : res A) : Prop := r <> Panic /\ r <> Hang.

Lemma good_ok {A} (a : A) : good (Ok a). Proof. split; discriminate. Qed.
Lemma good_err {A} e : good (@Err A e). Proof. split; discriminate. Qed.
#[export] Hint Resolve good_ok good_err : core.

(* building the invariant of a changed world *)
Lemma Inv_intro lp s' ss' :
  (0 < length s')%nat -> refs_ok s' (hc_sess ss') [] -> ordered s' ->
  (forall h, In h (all_handles ss') -> rooted (h_path h)) ->
  Inv (mkW (mkSrv lp s') ss').
Proof. intros. constructor; cbn; auto. Qed.

Lemma root_live w : Inv w -> 0 < n_ref (getn (wst w) 0).
Proof.
  intros I. rewrite (inv_refs w I 0%nat). cbn [root_bit Nat.eqb].
  pose proof (cnt_nonneg (links (wst w)) 0%nat). pose proof (hc_sess_nonneg (w_sess w) 0%nat).
  unfold hcount. rewrite cnt_nil. lia.
Qed.

(* table updates of session s, as equations on the hold counts *)
Lemma hc_after_snoc w s fid e x : (s < length (w_sess w))%nat ->
  hc_sess (set_nth (w_sess w) s (sess_of w s ++ [(fid, e)])) x = hcount w x + cnt (hids (f_h e)) x.
Proof.
  intros Hs. rewrite hc_sess_set by auto. rewrite hc_tab_snoc. unfold hcount, sess_of. lia.
Qed.

Lemma hc_after_del w s fid e x : ft_get (sess_of w s) fid = Some e ->
  hc_sess (set_nth (w_sess w) s (ft_del (sess_of w s) fid)) x = hcount w x - cnt (hids (f_h e)) x.
Proof.
  intros G. assert (Hs := ft_get_some_inrange _ _ _ _ G).
  rewrite hc_sess_set by auto. rewrite (hc_tab_del _ _ _ _ G). unfold hcount, sess_of. lia.
Qed.

Lemma hc_after_set w s fid e e' x : ft_get (sess_of w s) fid = Some e ->
  hc_sess (set_nth (w_sess w) s (ft_set (sess_of w s) fid e')) x =
  hcount w x - cnt (hids (f_h e)) x + cnt (hids (f_h e')) x.
Proof.
  intros G. assert (Hs := ft_get_some_inrange _ _ _ _ G).
  rewrite hc_sess_set by auto. rewrite (hc_tab_set _ _ _ _ _ G). unfold hcount, sess_of. lia.
Qed.

Lemma paths_after_snoc w s fid e : Inv w -> rooted (h_path (f_h e)) ->
  forall h, In h (all_handles (set_nth (w_sess w) s (sess_of w s ++ [(fid, e)]))) -> rooted (h_path h).
Proof.
  intros I R h Hh. apply in_all_set in Hh. destruct Hh as [Hh|Hh].
  - apply in_handles_snoc in Hh. destruct Hh as [->|Hh]; auto.
    apply (inv_paths w I). eapply in_all_nth. exact Hh.
  - apply (inv_paths w I). auto.
Qed.

Lemma paths_after_del w s fid : Inv w ->
  forall h, In h (all_handles (set_nth (w_sess w) s (ft_del (sess_of w s) fid))) -> rooted (h_path h).
Proof.
  intros I h Hh. apply in_all_set in Hh. destruct Hh as [Hh|Hh].
  - apply in_handles_del in Hh. apply (inv_paths w I). eapply in_all_nth. exact Hh.
  - apply (inv_paths w I). auto.
Qed.

Lemma paths_after_set w s fid e' : Inv w -> rooted (h_path (f_h e')) ->
  forall h, In h (all_handles (set_nth (w_sess w) s (ft_set (sess_of w s) fid e'))) -> rooted (h_path h).
Proof.
  intros I R h Hh. apply in_all_set in Hh. destruct Hh as [Hh|Hh].
  - apply in_handles_set in Hh. destruct Hh as [->|Hh]; auto.
    apply (inv_paths w I). eapply in_all_nth. exact Hh.
  - apply (inv_paths w I). auto.
Qed.

Lemma get_ref_some t fid e : get_ref t fid = Ok e -> ft_get t fid = Some e.
Proof.
  unfold get_ref. destruct (fid =? NOFID)%N; try discriminate.
  destruct (ft_get t fid); try discriminate. intros E. inversion E. reflexivity.
Qed.

Lemma get_ref_res t fid : good (get_ref t fid).
Proof.
  unfold get_ref. destruct (fid =? NOFID)%N; auto. destruct (ft_get t fid); auto.
Qed.

(* ---------------------------------------------------------------- attach *)

Lemma attach_inv w s fid u : Inv w -> (s < length (w_sess w))%nat ->
  Inv (fst (sess_attach w s fid u)) /\ good (snd (sess_attach w s fid u)).
Proof.
  intros I Hs. unfold sess_attach.
  destruct (fid =? NOFID)%N; [cbn; auto|].
  destruct (ft_get (sess_of w s) fid); [cbn; auto|].
  cbn [fst snd]. split; auto.
  unfold set_sess, set_store. cbn [w_srv w_sess lastpath st].
  apply Inv_intro.
  - rewrite incref_length. apply (inv_len w I).
  - eapply refs_ok_ext; [|apply (incref_ok (wst w) (hcount w) [] 0%nat)].
    + intros x. rewrite hc_after_snoc by auto.
      change (hids (f_h (mkFid (root_handle u) None 0%N))) with [0%nat]. rewrite cnt_nil. lia.
    + apply root_live. auto.
    + apply (inv_len w I).
    + apply (inv_refs w I).
  - apply incref_ordered. apply (inv_ord w I).
  - apply paths_after_snoc; auto. cbn. eexists. reflexivity.
Qed.

(* ---------------------------------------------------------------- clunk *)

(* dropping a table entry and releasing its handle *)
Lemma release_entry w s fid e s0 :
  Inv w -> ft_get (sess_of w s) fid = Some e ->
  (0 < length s0)%nat -> ordered s0 -> refs_ok s0 (hcount w) [] ->
  exists s', fh_clunk s0 (f_h e) = Some s' /\
    Inv (set_sess (set_store w s') s (ft_del (sess_of w s) fid)).
Proof.
  intros I G Hl Ho H.
  destruct (fh_clunk_ok s0 (hc_sess (set_nth (w_sess w) s (ft_del (sess_of w s) fid))) (f_h e)) as (s' & E & H' & Ho' & Hl'); auto.
  - apply hc_sess_nonneg.
  - eapply refs_ok_ext; [|exact H]. intros x. rewrite (hc_after_del _ _ _ _ _ G). rewrite cnt_nil. lia.
  - exists s'. split; auto. unfold set_sess, set_store. cbn [w_srv w_sess lastpath st].
    apply Inv_intro; auto; try lia. apply paths_after_del. auto.
Qed.

Lemma clunk_inv w s fid : Inv w ->
  Inv (fst (sess_clunk w s fid)) /\ good (snd (sess_clunk w s fid)).
Proof.
  intros I. unfold sess_clunk.
  destruct (ft_get (sess_of w s) fid) as [e|] eqn:G; [|cbn; auto].
  destruct (release_entry w s fid e (wst w) I G (inv_len w I) (inv_ord w I) (inv_refs w I)) as (s' & -> & I').
  cbn. auto.
Qed.

(* ---------------------------------------------------------------- remove *)

Lemma last_in {A} (l : list A) p r : rev l = p :: r -> In p l.
Proof. intros E. apply in_rev. rewrite E. left. reflexivity. Qed.

Lemma remove_inv w s fid : Inv w ->
  Inv (fst (sess_remove w s fid)) /\ good (snd (sess_remove w s fid)).
Proof.
  intros I. unfold sess_remove.
  destruct (ft_get (sess_of w s) fid) as [e|] eqn:G; [|cbn; auto].
  unfold fh_remove.
  destruct (rev (h_parents (f_h e))) as [|p r] eqn:Er.
  - destruct (release_entry w s fid e (wst w) I G (inv_len w I) (inv_ord w I) (inv_refs w I)) as (s' & -> & I').
    cbn. auto.
  - assert (Hp : In p (hids (f_h e))).
    { unfold hids. apply in_or_app. left. eapply last_in. eauto. }
    destruct (held_by_table w s fid e p I G Hp) as [Lp Rp].
    destruct (unlink_child_res (wst w) p (i_name (n_info (getn (wst w) (h_ent (f_h e))))) (h_ent (f_h e))) as [NP NH].
    destruct (unlink_child (wst w) p _ (h_ent (f_h e))) as [s1|er| |] eqn:Eu; try congruence.
    + destruct (unlink_child_ok _ (hcount w) [] _ _ _ _ Lp Rp (inv_ord w I) (inv_refs w I) Eu) as (H1 & Ho1 & Hl1).
      destruct (decref_top_ok s1 (hcount w) [] (h_ent (f_h e))) as (s2 & -> & H2 & Ho2 & Hl2); auto.
      * pose proof (inv_len w I). lia.
      * apply hc_sess_nonneg.
      * destruct (release_entry w s fid e s2 I G) as (s' & -> & I'); auto.
        -- pose proof (inv_len w I). lia.
        -- cbn. auto.
    + destruct (release_entry w s fid e (wst w) I G (inv_len w I) (inv_ord w I) (inv_refs w I)) as (s' & -> & I').
      cbn. auto.
Qed.

(* ---------------------------------------------------------------- walk *)

Lemma walk_inv w s fid nf names : Inv w ->
  Inv (fst (sess_walk w s fid nf names)) /\ good (snd (sess_walk w s fid nf names)).
Proof.
  intros I. unfold sess_walk.
  destruct (valid_path names <? 0); [cbn; auto|].
  pose proof (get_ref_res (sess_of w s) fid) as [GP GH].
  destruct (get_ref (sess_of w s) fid) as [ref|er| |] eqn:Eg; try congruence; [|cbn; auto].
  apply get_ref_some in Eg.
  assert (Hs := ft_get_some_inrange _ _ _ _ Eg).
  destruct (negb (nf =? fid)%N && (nf =? NOFID)%N); [cbn; auto|].
  destruct (negb (nf =? fid)%N && _); [cbn; auto|].
  destruct (is_nil names && (nf =? fid)%N); [cbn; auto|].
  destruct (negb (is_nil names) && _); [cbn; auto|].
  pose proof (fh_walk_ok (wst w) (hcount w) (f_h ref) names (inv_len w I) (hc_sess_nonneg _) (inv_ord w I) (inv_refs w I)) as W.
  specialize (W (fun x Hx => proj1 (held_by_table w s fid ref x I Eg Hx)) (handle_rooted w s fid ref I Eg)).
  destruct (fh_walk (wst w) (f_h ref) names) as [[[qids oh] s1]|er| |]; cbn [walk_post] in W; try contradiction; [|cbn; auto].
  destruct oh as [h2|]; [|cbn; auto].
  destruct W as (H1 & Ho1 & Hl1 & R2).
  destruct (negb (length qids =? length names)%nat); [cbn; auto|].
  destruct (nf =? fid)%N.
  - (* in place: the old handle is released, the fid is rebound *)
    destruct (fh_clunk_ok s1 (fun x => hcount w x - cnt (hids (f_h ref)) x + cnt (hids h2) x) (f_h ref)) as (s2 & -> & H2 & Ho2 & Hl2).
    + pose proof (inv_len w I). lia.
    + intros x. pose proof (hc_after_set w s fid ref (mkFid h2 None 0) x Eg) as E. cbn [f_h] in E.
      rewrite <- E. apply hc_sess_nonneg.
    + auto.
    + eapply refs_ok_ext; [|exact H1]. intros x. lia.
    + cbn [fst snd]. split; auto.
      unfold set_sess, set_store. cbn [w_srv w_sess lastpath st].
      apply Inv_intro; auto.
      * pose proof (inv_len w I). lia.
      * eapply refs_ok_ext; [|exact H2]. intros x. rewrite (hc_after_set w s fid ref _ x Eg). cbn [f_h]. lia.
      * apply paths_after_set; auto.
  - cbn [fst snd]. split; auto.
    unfold set_sess, set_store. cbn [w_srv w_sess lastpath st].
    apply Inv_intro; auto.
    + pose proof (inv_len w I). lia.
    + eapply refs_ok_ext; [|exact H1]. intros x. rewrite hc_after_snoc by auto. cbn [f_h]. rewrite cnt_nil. lia.
    + apply paths_after_snoc; auto.
Qed.

(* ---------------------------------------------------------------- open / read / stat: the store is not touched *)

Lemma same_handle_inv w s fid e e' : Inv w -> ft_get (sess_of w s) fid = Some e -> f_h e' = f_h e ->
  Inv (set_sess w s (ft_set (sess_of w s) fid e')).
Proof.
  intros I G Eh. unfold set_sess. constructor; cbn [wst w_srv w_sess].
  - apply (inv_len _ I).
  - eapply refs_ok_ext; [|apply (inv_refs _ I)]. intros x. unfold hcount at 2. cbn [w_sess].
    rewrite (hc_after_set w s fid e e' x G). rewrite Eh. lia.
  - apply (inv_ord _ I).
  - apply paths_after_set; auto. rewrite Eh. eapply handle_rooted; eauto.
Qed.

Lemma fh_opendir_res s h : good (fh_opendir s h).
Proof. unfold fh_opendir. destruct (negb _); auto. Qed.

Lemma open_handle_res w h : good (open_handle w h).
Proof.
  unfold open_handle. destruct (is_dir_qid _); auto.
  pose proof (fh_opendir_res (wst w) h) as [A B]. destruct (fh_opendir (wst w) h); cbn; auto; congruence.
Qed.

Lemma open_inv w s fid mode : Inv w ->
  Inv (fst (sess_open w s fid mode)) /\ good (snd (sess_open w s fid mode)).
Proof.
  intros I. unfold sess_open.
  pose proof (get_ref_res (sess_of w s) fid) as [GP GH].
  destruct (get_ref (sess_of w s) fid) as [ref|er| |] eqn:Eg; try congruence; [|cbn; auto].
  apply get_ref_some in Eg.
  destruct (f_file ref); [cbn; auto|].
  pose proof (open_handle_res w (f_h ref)) as [OP OH].
  destruct (open_handle w (f_h ref)) as [f|er| |]; try congruence; [|cbn; auto].
  cbn [fst snd]. split; auto. eapply same_handle_inv; eauto.
Qed.

Lemma read_inv w s fid off cnt0 : Inv w ->
  Inv (fst (sess_read w s fid off cnt0)) /\ good (snd (sess_read w s fid off cnt0)).
Proof.
  intros I. unfold sess_read.
  pose proof (get_ref_res (sess_of w s) fid) as [GP GH].
  destruct (get_ref (sess_of w s) fid) as [ref|er| |] eqn:Eg; try congruence; [|cbn; auto].
  apply get_ref_some in Eg.
  destruct (f_file ref) as [f|]; [|cbn; auto].
  destruct (N.land (f_mode ref) 3 =? 1)%N; [cbn; auto|].
  destruct f as [x|rest o].
  - pose proof (ent_read_no_panic (n_data (getn (wst w) x)) (Z.of_N cnt0) (to_int64 off) ltac:(lia)).
    pose proof (ent_read_no_hang (n_data (getn (wst w) x)) (Z.of_N cnt0) (to_int64 off)).
    destruct (ent_read _ _ _); try congruence; cbn; auto.
  - destruct (negb (o =? to_int64 off)); [cbn; auto|].
    destruct (take_dirs rest (Z.of_N cnt0)) as [a b].
    cbn [fst snd]. split; auto. eapply same_handle_inv; eauto.
Qed.

Lemma stat_inv w s fid : Inv w ->
  Inv (fst (sess_stat w s fid)) /\ good (snd (sess_stat w s fid)).
Proof.
  intros I. unfold sess_stat.
  pose proof (get_ref_res (sess_of w s) fid) as [GP GH].
  destruct (get_ref (sess_of w s) fid); try congruence; cbn; auto.
Qed.

(* ---------------------------------------------------------------- write / wstat: data and info only *)

Lemma set_node_inv w x n' : Inv w ->
  n_ref n' = n_ref (getn (wst w) x) -> n_children n' = n_children (getn (wst w) x) ->
  Inv (set_store w (setn (wst w) x n')).
Proof.
  intros I E1 E2. unfold set_store. apply Inv_intro.
  - rewrite length_setn. apply (inv_len w I).
  - apply refs_ok_frame; auto. apply (inv_refs w I).
  - apply ordered_frame; auto. apply (inv_ord w I).
  - apply (inv_paths w I).
Qed.

Lemma write_inv w s fid off p : Inv w ->
  Inv (fst (sess_write w s fid off p)) /\ good (snd (sess_write w s fid off p)).
Proof.
  intros I. unfold sess_write.
  pose proof (get_ref_res (sess_of w s) fid) as [GP GH].
  destruct (get_ref (sess_of w s) fid) as [ref|er| |] eqn:Eg; try congruence; [|cbn; auto].
  destruct (f_file ref) as [f|]; [|cbn; auto].
  destruct (negb _ && negb _); [cbn; auto|].
  destruct f as [x|rest o]; [|cbn; auto].
  pose proof (node_write_no_panic (getn (wst w) x) p (to_int64 off)).
  destruct (node_write (getn (wst w) x) p (to_int64 off)) as [n'|er| |] eqn:Ew; try congruence; [| cbn; auto |].
  - cbn [fst snd]. split; auto.
    destruct (node_write_frame _ _ _ _ Ew) as (E1 & E2 & _).
    apply set_node_inv; auto.
  - exfalso. unfold node_write in Ew. pose proof (ent_write_no_hang (n_data (getn (wst w) x)) p (to_int64 off)).
    destruct (ent_write _ _ _); cbn in Ew; congruence.
Qed.

Lemma node_wstat_no_hang n mode uid gid name len : node_wstat n mode uid gid name len <> Hang.
Proof.
  unfold node_wstat.
  destruct (negb (mode =? MAXU32)%N && _); try discriminate.
  destruct (negb (is_empty name)); try discriminate.
  destruct (len =? MAXU64)%N; try discriminate.
  destruct (N.of_nat (length (n_data n)) <? len)%N eqn:Hl; try discriminate.
  rewrite go_slice_ok by (unfold zlen; lia). cbn. discriminate.
Qed.

Lemma wstat_inv w s fid mode uid gid name len : Inv w ->
  Inv (fst (sess_wstat w s fid mode uid gid name len)) /\ good (snd (sess_wstat w s fid mode uid gid name len)).
Proof.
  intros I. unfold sess_wstat.
  pose proof (get_ref_res (sess_of w s) fid) as [GP GH].
  destruct (get_ref (sess_of w s) fid) as [ref|er| |] eqn:Eg; try congruence; [|cbn; auto].
  pose proof (node_wstat_no_panic (getn (wst w) (h_ent (f_h ref))) mode uid gid name len).
  pose proof (node_wstat_no_hang (getn (wst w) (h_ent (f_h ref))) mode uid gid name len).
  destruct (node_wstat _ mode uid gid name len) as [[n' oe]|er| |] eqn:Ew; try congruence; [|cbn; auto].
  destruct (node_wstat_data _ _ _ _ _ _ _ _ Ew) as (E1 & E2 & _).
  destruct oe; cbn [fst snd]; split; auto; apply set_node_inv; auto.
Qed.

(* ---------------------------------------------------------------- create *)

Lemma create_inv w s fid name perm mode : Inv w ->
  Inv (fst (sess_create w s fid name perm mode)) /\ good (snd (sess_create w s fid name perm mode)).
Proof.
  intros I. unfold sess_create.
  destruct (is_dot name || is_dotdot name); [cbn; auto|].
  pose proof (get_ref_res (sess_of w s) fid) as [GP GH].
  destruct (get_ref (sess_of w s) fid) as [ref|er| |] eqn:Eg; try congruence; [|cbn; auto].
  apply get_ref_some in Eg.
  assert (Hs := ft_get_some_inrange _ _ _ _ Eg).
  destruct (negb (is_dir_qid _)); [cbn; auto|].
  unfold fh_create.
  pose proof (create_name_res (h_path (f_h ref)) name) as [CP CH].
  destruct (create_name (h_path (f_h ref)) name) as [path|er| |] eqn:Ec; try congruence; [|cbn; auto].
  assert (Rp : rooted path) by (eapply create_name_rooted; [eapply handle_rooted; eauto|eauto]).
  set (qp := ((lastpath (w_srv w) + 1) mod 2 ^ 64)%N).
  set (inf := new_info qp name (h_uname (f_h ref)) (N.lxor perm (N.land perm UMASK))).
  set (nd := mkNode 1 (if is_dir_qid inf then Some [] else None) inf []).
  set (c := length (st (w_srv w))).
  pose proof (link_child_res (st (w_srv w)) (h_ent (f_h ref)) name c) as [LP LH].
  destruct (link_child (st (w_srv w)) (h_ent (f_h ref)) name c) as [s1|er| |] eqn:El; try congruence.
  2:{ (* duplicate name: only the qid-path counter moved *)
      cbn [fst snd]. split.
      - destruct (bstr_eqb er e_invalidpath); cbn; apply Inv_intro; try apply I.
      - destruct (bstr_eqb er e_invalidpath); auto. }
  assert (Hent : In (h_ent (f_h ref)) (hids (f_h ref))) by (unfold hids; apply in_or_app; right; left; reflexivity).
  destruct (held_by_table w s fid ref _ I Eg Hent) as [Le Re].
  assert (Hkids : child_ids nd = []) by (unfold child_ids, nd; cbn; destruct (is_dir_qid inf); reflexivity).
  destruct (create_ok (wst w) (hcount w) (h_ent (f_h ref)) name nd s1 (inv_len w I) (hc_sess_nonneg _) (inv_ord w I) (inv_refs w I) Le Re El eq_refl Hkids)
    as (H2 & Ho2 & Hl2).
  set (s2 := incref (s1 ++ [nd]) c).
  change (refs_ok s2 (fun x => hcount w x + (if Nat.eqb c x then 1 else 0)) []) in H2.
  change (ordered s2) in Ho2. change (length s2 = S c) in Hl2.
  set (h2 := mkHandle path c (h_parents (f_h ref) ++ [h_ent (f_h ref)]) (h_uname (f_h ref))).
  assert (Hh2 : forall x, cnt (hids h2) x = cnt (hids (f_h ref)) x + (if Nat.eqb c x then 1 else 0)).
  { intros x. unfold hids, h2. cbn [h_parents h_ent]. rewrite !cnt_app, !cnt_cons, !cnt_nil. lia. }
  set (w1 := mkW (mkSrv qp s2) (w_sess w)).
  pose proof (open_handle_res w1 h2) as [OP OH].
  destruct (open_handle w1 h2) as [f|er| |] eqn:Eo; try congruence.
  - cbn [fst snd]. split; auto.
    unfold set_sess, w1. cbn [w_srv w_sess].
    apply Inv_intro.
    + lia.
    + eapply refs_ok_ext; [|exact H2]. intros x.
      change (sess_of (mkW (mkSrv qp s2) (w_sess w)) s) with (sess_of w s).
      rewrite (hc_after_set w s fid ref _ x Eg). cbn [f_h]. rewrite Hh2. lia.
    + exact Ho2.
    + change (sess_of (mkW (mkSrv qp s2) (w_sess w)) s) with (sess_of w s).
      apply paths_after_set; auto.
  - (* OpenDir of the new directory failed: the fid is unbound and the new entry released *)
    destruct (fh_clunk_ok s2 (hc_sess (set_nth (w_sess w) s (ft_del (sess_of w s) fid))) h2) as (s3 & E3 & H3 & Ho3 & Hl3).
    + lia.
    + apply hc_sess_nonneg.
    + exact Ho2.
    + eapply refs_ok_ext; [|exact H2]. intros x. rewrite (hc_after_del w s fid ref x Eg). rewrite Hh2, cnt_nil. lia.
    + change (wst w1) with s2. rewrite E3. cbn [fst snd]. split; auto.
      unfold set_sess, set_store, w1. cbn [w_srv w_sess lastpath st].
      change (sess_of (mkW (mkSrv qp s2) (w_sess w)) s) with (sess_of w s).
      apply Inv_intro; auto; try lia. apply paths_after_del. auto.
  - split; [destruct w as [f0 ss0]; cbn; exact I | auto].
Qed.

(* ---------------------------------------------------------------- all operations, all sequences *)

Lemma step_inv w o : Inv w -> Inv (fst (step w o)) /\ good (snd (step w o)).
Proof.
  intros I. unfold step.
  destruct (negb (op_sess o <? length (w_sess w))%nat) eqn:Hs; [cbn; auto|].
  destruct o; cbn [op_sess] in Hs.
  - apply attach_inv; auto. lia.
  - apply walk_inv; auto.
  - apply create_inv; auto.
  - apply open_inv; auto.
  - apply read_inv; auto.
  - apply write_inv; auto.
  - apply stat_inv; auto.
  - apply wstat_inv; auto.
  - apply remove_inv; auto.
  - apply clunk_inv; auto.
  - cbn. auto.
Qed.

Lemma init_inv k : Inv (init_world k).
Proof.
  unfold init_world. apply Inv_intro.
  - cbn. lia.
  - intros x. unfold hc_sess, all_handles.
    assert (E : flat_map handles_of (repeat [] k) = []) by (induction k; cbn; auto).
    rewrite E. cbn [flat_map]. rewrite !cnt_nil.
    destruct x as [|[|x]]; reflexivity.
  - intros p c Hc. destruct p as [|[|p]]; cbn in Hc; destruct Hc.
  - intros h Hh. unfold all_handles in Hh.
    assert (E : flat_map handles_of (repeat [] k) = []) by (induction k; cbn; auto).
    rewrite E in Hh. destruct Hh.
Qed.

Lemma run_world_inv ops : forall w, Inv w -> Inv (run_world w ops).
Proof.
  induction ops as [|o ops IH]; intros w I; cbn; auto.
  apply IH. apply step_inv. auto.
Qed.

Lemma run_good ops : forall w, Inv w -> Forall good (run w ops).
Proof.
  induction ops as [|o ops IH]; intros w I; cbn; auto.
  destruct (step_inv w o I) as [I' [G1 G2]].
  destruct (step w o) as [w' x]. cbn [fst snd] in *.
  destruct x; try congruence; constructor; auto; split; discriminate.
Qed.

(* run never stops early: one observation per operation *)
Lemma run_length ops : forall w, Inv w -> length (run w ops) = length ops.
Proof.
  induction ops as [|o ops IH]; intros w I; cbn; auto.
  destruct (step_inv w o I) as [I' [G1 G2]].
  destruct (step w o) as [w' x]. cbn [fst snd] in *.
  destruct x; try congruence; cbn; f_equal; apply IH; auto.
Qed.
