(* Lemmas about Model/Session.v, part 3 (C13, "never used after its release",
   stated on the call lists that the correspondence check compares with the
   calls arriving at the real file system):
     - every file-system call of an operation goes to an entry that is bound
       when the operation starts, or that the file system hands over during
       this operation - hence to an entry not released before the operation;
     - within one operation no call follows a releasing call (Clunk, Remove,
       Create on the parent) on the same entry. *)
From stdpp Require Import gmap.
From Coq Require Import NArith ZArith Lia.
From P9 Require Import Model.Path Model.Session Model.FidSpec Proofs.SessionProofs Proofs.SessionGhost
  Proofs.SessionClauses.
Open Scope N_scope.

Definition call_ent (c : call) : option N :=
  match c with
  | CAttach => None
  | CWalk e _ | COpenDir e | COpen e _ | CCreate e | CRead e | CWrite e | CNext e
  | CStat e | CWStat e | CClunk e | CRemove e => Some e
  end.
(* calls after which the handle must not be used any more *)
Definition releases (c : call) : option N :=
  match c with CClunk e | CRemove e | CCreate e => Some e | _ => None end.

Fixpoint no_use_after (cs : list call) : Prop :=
  match cs with
  | [] => True
  | c :: r => (∀ e, releases c = Some e → ∀ c', c' ∈ r → call_ent c' ≠ Some e) ∧ no_use_after r
  end.

Definition calls_ok (s : sess) (cs : list call) : Prop :=
  (∀ c e, c ∈ cs → call_ent c = Some e → (∃ f, B s f e) ∨ e = next s) ∧ no_use_after cs.

Lemma calls_ok_nil s : calls_ok s [].
Proof. split; [|done]. by intros c e ?%elem_of_nil. Qed.

Lemma calls_ok_one s f e c :
  B s f e → call_ent c = Some e → calls_ok s [c].
Proof.
  intros Hb Hc. split.
  - intros c0 e0 ->%elem_of_list_singleton He0. left. exists f. congruence.
  - cbn. split; [|done]. by intros e0 _ c' ?%elem_of_nil.
Qed.

Ltac in_list H :=
  repeat (apply elem_of_cons in H as [->|H]); try (by apply elem_of_nil in H).

Lemma attach_calls s fid afid ts : WF s → G s → calls_ok s (do_attach s fid afid ts).2.
Proof.
  intros Hwf HG. unfold do_attach. destruct (decide (afid = NOFID)).
  - destruct (new_ref s fid); [|apply calls_ok_nil].
    destruct (nn_err _) as [er|]; [|unfold fresh; cbn]; (split; [|cbn; split; [|done]; by intros ? [=]]);
      intros c x0 Hc Hx; in_list Hc; by cbn in Hx.
  - destruct (get_ref s afid) as [| |sf [e d]]; try apply calls_ok_nil.
    destruct (s_file sf); apply calls_ok_nil.
Qed.

Lemma del_calls s fid rm ts : WF s → G s → calls_ok s (do_del s fid rm ts).2.
Proof.
  intros Hwf HG. unfold do_del. destruct (refs s !! fid) as [sf|] eqn:Hl; [|apply calls_ok_nil].
  destruct (Hwf _ _ Hl) as (Hlk & Hnf & e & d & He & Hf). rewrite Hlk, He. cbn.
  eapply (calls_ok_one _ fid e); [by exists sf, d|]. by destruct rm.
Qed.

Lemma stat_calls s fid w ts : WF s → G s → calls_ok s (do_stat s fid w ts).2.
Proof.
  intros Hwf HG. unfold do_stat.
  destruct (get_ref s fid) as [| |sf [e d]] eqn:Hg; try apply calls_ok_nil.
  destruct (get_ref_B _ _ _ _ _ Hwf Hg) as (Hl & He & Hb & _).
  cbn. eapply calls_ok_one; [exact Hb|]. by destruct w.
Qed.

Lemma open_calls s fid mode ts : WF s → G s → calls_ok s (do_open s fid mode ts).2.
Proof.
  intros Hwf HG. unfold do_open.
  destruct (get_ref s fid) as [| |sf [e d]] eqn:Hg; try apply calls_ok_nil.
  destruct (get_ref_B _ _ _ _ _ Hwf Hg) as (Hl & He & Hb & _).
  destruct (s_file sf); [apply calls_ok_nil|].
  destruct (nn_err _); cbn; (eapply calls_ok_one; [exact Hb|]); by destruct d.
Qed.

Lemma read_calls s fid cnt ts : WF s → G s → calls_ok s (do_read s fid cnt ts).2.
Proof.
  intros Hwf HG. unfold do_read.
  destruct (get_ref s fid) as [| |sf [e d]] eqn:Hg; try apply calls_ok_nil.
  destruct (get_ref_B _ _ _ _ _ Hwf Hg) as (Hl & He & Hb & _ & _ & Hf).
  destruct (s_file sf) as [h|] eqn:Hfile; [|apply calls_ok_nil].
  destruct (Hf h eq_refl) as [Hown _]. rewrite Hown.
  destruct (_ =? 1); [apply calls_ok_nil|]. destruct (f_dir h).
  - destruct (f_done h || (cnt =? 0)); [apply calls_ok_nil|].
    destruct (fs_err _); cbn; by eapply calls_ok_one.
  - cbn. by eapply calls_ok_one.
Qed.

Lemma write_calls s fid ts : WF s → G s → calls_ok s (do_write s fid ts).2.
Proof.
  intros Hwf HG. unfold do_write.
  destruct (get_ref s fid) as [| |sf [e d]] eqn:Hg; try apply calls_ok_nil.
  destruct (get_ref_B _ _ _ _ _ Hwf Hg) as (Hl & He & Hb & _ & _ & Hf).
  destruct (s_file sf) as [h|] eqn:Hfile; [|apply calls_ok_nil].
  destruct (Hf h eq_refl) as [Hown _]. rewrite Hown.
  destruct (negb _); [apply calls_ok_nil|]. destruct (f_dir h); [apply calls_ok_nil|].
  cbn. by eapply calls_ok_one.
Qed.

Lemma walk_calls s fid newfid names ts : WF s → G s → calls_ok s (do_walk s fid newfid names ts).2.
Proof.
  intros Hwf HG. unfold do_walk.
  destruct (valid_path names <? 0)%Z; [apply calls_ok_nil|].
  destruct (get_ref s fid) as [| |sf [e d]] eqn:Hg; try apply calls_ok_nil.
  destruct (get_ref_B _ _ _ _ _ Hwf Hg) as (Hl & He & Hb & Hlk & Hnf & _).
  assert (Hone : ∀ n, calls_ok s [CWalk e n]) by (intros n; by eapply calls_ok_one).
  assert (Htwo : ∀ n, calls_ok s ([CWalk e n] ++ [CClunk e])).
  { intros n. split.
    - intros c e0 Hc He0. cbn in Hc. in_list Hc; cbn in He0; injection He0 as <-; left; by exists fid.
    - cbn. split; [by intros e1 [=]|]. split; [|done]. intros e1 _ c' Hc. by apply elem_of_nil in Hc. }
  destruct (if decide (newfid = fid) then _ else _) as [s2|err]; [|apply calls_ok_nil].
  destruct names as [|nm names].
  - destruct (decide (newfid = fid)); [apply calls_ok_nil|].
    destruct (nn_err _); [apply Hone|]. unfold fresh. cbn. apply Hone.
  - destruct (negb d); [apply calls_ok_nil|].
    destruct (nn_err _); [apply Hone|].
    destruct (N.min _ _ <? _); [apply Hone|].
    unfold fresh. cbn [fst snd]. destruct (decide (newfid = fid)); cbn; [apply Htwo|apply Hone].
Qed.

Lemma create_calls s fid name mode ts : WF s → G s → calls_ok s (do_create s fid name mode ts).2.
Proof.
  intros Hwf HG. unfold do_create.
  destruct (is_dot name || is_dotdot name); [apply calls_ok_nil|].
  destruct (get_ref s fid) as [| |sf [e d]] eqn:Hg; try apply calls_ok_nil.
  destruct (get_ref_B _ _ _ _ _ Hwf Hg) as (Hl & He & Hb & Hlk & Hnf & _).
  pose proof (G_lt _ _ _ HG Hb) as Hlt.
  assert (Hone : calls_ok s [CCreate e]) by (by eapply calls_ok_one).
  destruct (negb d); [apply calls_ok_nil|].
  destruct (_ =? 1); [apply Hone|]. destruct (_ || _); [apply Hone|].
  destruct (_ =? 0).
  - unfold fresh. cbn [fst snd]. destruct (t_dir (tokn ts 0)); [|apply Hone].
    destruct (nn_err _) as [er|]; cbn; rewrite ?next_g_use.
    + split.
      * intros c x1 Hc Hx1. in_list Hc; cbn in Hx1; injection Hx1 as <-; eauto.
      * cbn. split_and!; try done.
        -- intros x1 [= <-] c' Hc. in_list Hc; cbn; intros [=]; lia.
        -- intros x1 [= <-] c' Hc. by apply elem_of_nil in Hc.
    + split.
      * intros c x1 Hc Hx1. in_list Hc; cbn in Hx1; injection Hx1 as <-; eauto.
      * cbn. split_and!; try done.
        intros x1 [= <-] c' Hc. in_list Hc; cbn; intros [=]; lia.
  - unfold fresh. cbn. apply Hone.
Qed.

Lemma step_calls s o ts : WF s → G s → is_stop o = false → calls_ok s (sstep s o ts).2.
Proof.
  intros Hwf HG Hns. destruct o; cbn [sstep]; try discriminate.
  - unfold do_auth. destruct (decide _); apply calls_ok_nil.
  - by apply attach_calls.
  - by apply walk_calls.
  - by apply open_calls.
  - by apply create_calls.
  - by apply read_calls.
  - by apply write_calls.
  - by apply stat_calls.
  - by apply stat_calls.
  - by apply del_calls.
  - by apply del_calls.
Qed.

(* hence: no call of an operation goes to an entry released before the operation *)
Lemma step_calls_live s o ts c e :
  WF s → G s → is_stop o = false → c ∈ (sstep s o ts).2 → call_ent c = Some e → e ∉ rel s.
Proof.
  intros Hwf HG Ho Hc He. destruct (step_calls s o ts Hwf HG Ho) as [H _].
  destruct (H c e Hc He) as [[f Hb]| ->].
  - by apply (G_live _ HG) in Hb as [? _].
  - intros Hr. apply (G_rel_lt _ HG) in Hr. lia.
Qed.

Lemma calls_ok_reach s o ts : reach s → is_stop o = false → calls_ok s (sstep s o ts).2.
Proof. intros Hr. apply step_calls; [by apply reach_WF|by apply reach_G]. Qed.

Lemma calls_live_reach s o ts c e :
  reach s → is_stop o = false → c ∈ (sstep s o ts).2 → call_ent c = Some e → e ∉ rel s.
Proof. intros Hr. apply step_calls_live; [by apply reach_WF|by apply reach_G]. Qed.
