(* Lemmas about Model/Serve.v, part 4: the statements the property files C06, C07, C11 cite. *)
From Coq Require Import List NArith Bool Lia.
From stdpp Require Import gmap.
From P9 Require Import Model.Serve Proofs.ServeProofs Proofs.ServeProofs2 Proofs.ServeProofs3.
Import ListNotations.
Open Scope N_scope.

(* ------------------------------------------------------------------ C06 *)

(* every request is received at most once, dispatched at most once, and a dispatch carries the
   message of the request with that id *)
Lemma dispatch_once s tr : reach s tr ->
  NoDup (recv_ids tr) /\ NoDup (disp_ids tr) /\
  forall rid m, In (ODispatch rid m) tr -> exists tag, In (ORecv rid tag (KReq m)) tr.
Proof.
  intros Hr. pose proof (reach_Hist _ _ Hr) as Ih. repeat split.
  - exact (hi_recv_nodup _ _ Ih).
  - exact (hi_disp_nodup _ _ Ih).
  - intros rid m Hin. destruct (hi_disp _ _ Ih _ _ Hin) as (h & _ & H). eauto.
Qed.

(* a request on a tag that is not outstanding is dispatched, with its message, when the loop receives it *)
Lemma dispatch_on_arrival s rid tag m : pc s = Main -> rd s = RHold rid tag (KReq m) -> tags s !! tag = None ->
  exists s' o, step R s EArrive = Some (s', o) /\ In (ODispatch rid m) o /\ tags s' !! tag = Some rid /\
               exists h, hs s' !! rid = Some h /\ h_tag h = tag /\ h_st h = HRun.
Proof.
  intros Hp Hr Ht. unfold step. rewrite Hp, Hr, Ht. eexists _, _. split; [reflexivity|]. proj_simpl.
  split; [right; now left|]. split; [apply lookup_insert|]. eexists. rewrite lookup_insert. repeat split.
Qed.

(* a request reusing an outstanding tag: duplicate-tag error, no dispatch, nothing else disturbed *)
Lemma duptag s rid tag k r0 : pc s = Main -> rd s = RHold rid tag k -> tags s !! tag = Some r0 ->
  exists s', step R s EArrive = Some (s', [ORecv rid tag k]) /\
             pc s' = SendImm {| f_rid := rid; f_tag := tag; f_pl := PErr err_duptag |} /\
             tags s' = tags s /\ hs s' = hs s /\ wr s' = wr s.
Proof.
  intros Hp Hr Ht. unfold step. rewrite Hp, Hr, Ht. eexists. split; [reflexivity|]. proj_simpl. repeat split.
Qed.

(* where a frame handed to the conn comes from *)
Lemma step_nohand s e s' o : step R s e = Some (s', o) -> e <> ETake -> nohand o.
Proof.
  intros H Hne. destruct e; try congruence; step_inv H; proj_simpl; try solve [nh].
  - exact (nohand_inert_cancels _ _ _ _ Heqp).
  - apply nohand_cons; [exact (nohand_inert_cancel _ _ _ _ Heqp0)|intros; split; discriminate].
  - apply nohand_app; [exact (nohand_inert_cancels _ _ _ _ Heqp)|nh].
Qed.

Lemma step_take s s' o : step R s ETake = Some (s', o) ->
  exists f, (o = [OTake f] \/ o = [OLost f]) /\ (pc s = SendImm f \/ exists hd, pc s = SendDone hd f).
Proof. intros H. step_inv H; eauto 6. Qed.

Lemma take_source s e s' o f : step R s e = Some (s', o) -> In (OTake f) o \/ In (OLost f) o ->
  pc s = SendImm f \/ exists hd, pc s = SendDone hd f.
Proof.
  intros H Hin. assert (D : e = ETake \/ e <> ETake) by (destruct e; (now left) || (right; discriminate)).
  destruct D as [->|Hne].
  - destruct (step_take _ _ _ H) as (g & Ho & Hp).
    assert (g = f); [|subst; exact Hp].
    destruct Ho as [-> | ->], Hin as [[Hin|[]]|[Hin|[]]]; congruence.
  - exfalso. pose proof (step_nohand _ _ _ _ H Hne f) as [A B]. tauto.
Qed.

(* a frame handed to the conn is the reply the property prescribes for the request it answers
   (in particular it carries that request's own tag), and no request is answered twice *)
Lemma reply_own s tr f : reach s tr -> In (OTake f) tr -> own tr f.
Proof. intros Hr Hin. apply (fr_own _ _ (reach_Frames _ _ Hr)). now left. Qed.

Lemma reply_at_most_once s tr : reach s tr -> NoDup (hand_ids tr).
Proof. intros Hr. exact (fr_nodup _ _ (reach_Frames _ _ Hr)). Qed.

(* the handler's result is unique, so "the result of its handler" is well defined *)
Lemma result_unique s tr rid r1 r2 : reach s tr -> In (OFin rid r1) tr -> In (OFin rid r2) tr -> r1 = r2.
Proof.
  intros Hr. pose proof (hi_fin_nodup _ _ (reach_Hist _ _ Hr)) as Nd. clear Hr.
  induction tr as [|x tr IH]; intros H1 H2; [destruct H1|].
  unfold fin_ids in *. cbn [flat_map] in Nd.
  assert (Hnot : forall r, x = OFin rid r -> forall r', ~ In (OFin rid r') tr).
  { intros r -> r' Hin. cbn in Nd. apply NoDup_cons in Nd as [Nd _]. apply Nd, elem_of_list_In.
    apply in_flat_map. exists (OFin rid r'). split; [exact Hin|now left]. }
  destruct H1 as [H1|H1], H2 as [H2|H2].
  - congruence.
  - exfalso. exact (Hnot _ H1 _ H2).
  - exfalso. exact (Hnot _ H2 _ H1).
  - apply IH; auto. apply NoDup_app in Nd. tauto.
Qed.

(* every frame on the wire was handed to the conn before *)
Lemma busy_step s tr e s' o : (forall f, wr s = WBusy f -> In (OTake f) tr) -> step R s e = Some (s', o) ->
  forall f, wr s' = WBusy f -> In (OTake f) (tr ++ o).
Proof.
  intros IH Hs. destruct e; step_inv Hs; proj_simpl;
    repeat match goal with
    | Hc : cancel_rid _ _ = _ |- _ => rewrite (cancel_rid_frame _ _ _ _ Hc); clear Hc
    | Hc : cancel_list _ _ = _ |- _ => rewrite (cancel_list_frame _ _ _ _ Hc); clear Hc
    end; proj_simpl.
  all: first [ (intros g Hg; discriminate Hg)
             | (intros g Hg; injection Hg as <-; apply in_or_app; right; now left)
             | (intros g Hg; apply in_or_app; left; auto) ].
Qed.

Lemma frame_step s e s' o f : step R s e = Some (s', o) -> In (OFrame f) o -> wr s = WBusy f.
Proof.
  intros Hs Hin. destruct e; step_inv Hs; proj_simpl.
  all: try (repeat (destruct Hin as [Hin|Hin]; [try discriminate Hin|]); try contradiction; fail).
  - destruct Hin as [Hin|[]]. congruence.
  - destruct (proj1 (cancel_list_out _ _ _ _ Heqp) _ Hin) as (? & ? & _). discriminate.
  - destruct Hin as [Hin|Hin]; [discriminate|].
    destruct (proj1 (cancel_rid_out _ _ _ _ Heqp0) _ Hin) as (? & _). discriminate.
  - apply in_app_or in Hin as [Hin|[Hin|[]]]; [|discriminate].
    destruct (proj1 (cancel_list_out _ _ _ _ Heqp) _ Hin) as (? & ? & _). discriminate.
Qed.

Lemma frame_was_taken s tr : reach s tr ->
  (forall f, wr s = WBusy f -> In (OTake f) tr) /\ (forall f, In (OFrame f) tr -> In (OTake f) tr).
Proof.
  induction 1 as [|s tr e s' o Hr [IH1 IH2] Hs].
  - split; [discriminate|intros f []].
  - split; [eapply busy_step; eauto|].
    intros f Hin. apply in_app_or in Hin as [Hin|Hin]; apply in_or_app; left; [auto|].
    apply IH1. eapply frame_step; eauto.
Qed.

(* a fault-free quiescent state in which every handler has returned and been processed *)
Definition settled (s : st) : Prop :=
  pc s = Main /\ wr s = WIdle /\ rd s = RIdle /\ inq s = [] /\ closed s = false /\ ctxd s = false /\ all_gone s = true.

(* request rid was flushed: an Rflush naming it as the removed request has been handed to the conn *)
Definition flush_acked (tr : list output) (rid : N) : Prop :=
  exists f, handed tr f /\ f_pl f = PFlushAck rid.

Lemma reply_exists s tr : reach s tr -> settled s ->
  forall rid, rid < nsent s ->
    (exists f, In (OFrame f) tr /\ f_rid f = rid /\ own tr f) \/ flush_acked tr rid.
Proof.
  intros Hr (Hp & Hw & Hrd & Hq & Hcl & Hcx & Hg) rid Hlt.
  pose proof (reach_Hist _ _ Hr) as Ih. pose proof (reach_Frames _ _ Hr) as If. pose proof (reach_Acct _ _ Hr) as Ia.
  assert (Hf : fault s = false) by (unfold fault; now rewrite Hcl, Hcx).
  assert (Hlo : lo s = nsent s) by (unfold lo, pending_ids; rewrite Hrd, Hq; cbn; lia).
  assert (Handed : In rid (hand_ids tr) -> exists f, In (OFrame f) tr /\ f_rid f = rid /\ own tr f).
  { intros Hin. apply in_hand_ids in Hin as (f & Hf0 & Hfr). exists f.
    assert (Ho : own tr f) by (apply (fr_own _ _ If), Hf0).
    destruct Hf0 as [Ht|Hl].
    - destruct (a_take _ _ Ia f Ht) as [H|[H|H]]; [congruence|auto|congruence].
    - pose proof (a_lost _ _ Ia f Hl). congruence. }
  destruct (a_recv _ _ Ia rid) as [(t & k & Hrv)|H]; [lia| |congruence].
  destruct (a_where _ _ Ia _ _ _ Hrv) as [[h Hh]|[(f & H1 & _)|[H|H]]]; [|congruence|left; auto|congruence].
  pose proof (all_gone_spec _ Hg _ _ Hh) as Hgone.
  destruct (a_gone _ _ Ia _ _ Hh Hgone) as [Hc|[H|[H|(f & H)]]]; [|congruence|left; auto|congruence].
  right. pose proof (hi_canc _ _ Ih _ _ Hh Hc) as Hcan.
  destruct (a_canc _ _ Ia _ Hcan) as [H|[H|(f & [H1|H1] & H2)]]; try congruence.
  exists f. auto.
Qed.

Lemma error_text : (forall e, reply_of (RErr e) = PErr e) /\ (forall e, reply_of (RErrMsg e) = PErr e) /\
                   (forall m, reply_of (RMsg m) = PMsg m).
Proof. repeat split. Qed.

(* ------------------------------------------------------------------ C07 *)

(* the flushed request's context is cancelled strictly before the step that hands the Rflush to the conn *)
Lemma cancel_then_ack s tr e s' o f v : reach s tr -> step R s e = Some (s', o) ->
  In (OTake f) o -> f_pl f = PFlushAck v -> In (OCancel v) tr.
Proof.
  intros Hr Hs Hin Hpl. pose proof (reach_Frames _ _ Hr) as If.
  destruct (take_source _ _ _ _ _ Hs (or_introl Hin)) as [Hp|(hd & Hp)].
  - destruct (fr_ack _ _ If f v (or_introl Hp) Hpl) as (_ & _ & H). exact H.
  - destruct (fr_done _ _ If _ _ Hp) as (_ & _ & r & Hrr). rewrite Hpl in Hrr. destruct r; discriminate.
Qed.

(* after the acknowledgement: for EVERY later event list no frame answers the flushed request *)
Lemma silence evs : forall s tr f v s' tr', reach s tr -> handed tr f -> f_pl f = PFlushAck v ->
  run R s evs = Some (s', tr') -> forall f', In (OTake f') tr' \/ In (OLost f') tr' -> f_rid f' <> v.
Proof.
  induction evs as [|e evs IH]; intros s tr f v s' tr' Hr Hh Hpl Hrun f' Hin; cbn in Hrun.
  - injection Hrun as <- <-. destruct Hin as [[]|[]].
  - destruct (step R s e) as [[s1 o1]|] eqn:Hs; [|discriminate].
    destruct (run R s1 evs) as [[s2 o2]|] eqn:Hr2; [|discriminate]. injection Hrun as <- <-.
    assert (Hin' : (In (OTake f') o1 \/ In (OLost f') o1) \/ (In (OTake f') o2 \/ In (OLost f') o2)).
    { destruct Hin as [Hin|Hin]; apply in_app_or in Hin as [Hin|Hin]; auto. }
    destruct Hin' as [Hin1|Hin2].
    + pose proof (reach_Frames _ _ Hr) as If. pose proof (reach_SInv _ _ Hr) as [_ Ic _].
      destruct (fr_ack _ _ If f v (or_intror Hh) Hpl) as ((hv & Hv) & Hnt & _).
      destruct (take_source _ _ _ _ _ Hs Hin1) as [Hp|(hd & Hp)].
      * pose proof (c_imm _ Ic _ Hp). congruence.
      * destruct (c_done _ Ic _ _ Hp) as (E1 & E2 & _). intros E. apply (Hnt (f_tag f')). congruence.
    + eapply (IH s1 (tr ++ o1) f v); eauto; [econstructor; eauto|apply handed_app_l, Hh].
Qed.

(* the freed tag: right after the flush has been processed nobody (or a newer request) holds the
   flushed request's tag, and every later frame carries the result of the request it answers *)
Lemma reuse_free s tr f v : reach s tr -> (pc s = SendImm f \/ handed tr f) -> f_pl f = PFlushAck v ->
  forall t, tags s !! t <> Some v.
Proof. intros Hr Hf Hpl. destruct (fr_ack _ _ (reach_Frames _ _ Hr) f v Hf Hpl) as (_ & H & _). exact H. Qed.

Lemma reuse evs s tr f v s' tr' : reach s tr -> handed tr f -> f_pl f = PFlushAck v ->
  run R s evs = Some (s', tr') -> forall f', In (OTake f') tr' -> f_rid f' <> v /\ own (tr ++ tr') f'.
Proof.
  intros Hr Hh Hpl Hrun f' Hin. split.
  - eapply silence; eauto.
  - eapply reply_own; [eapply run_reach_from; eauto|]. apply in_or_app. now right.
Qed.

(* a flush naming a tag that is not outstanding *)
Lemma flush_unknown s rid tag old : pc s = Main -> rd s = RHold rid tag (KFlush old) ->
  tags s !! tag = None -> tags s !! old = None ->
  exists s', step R s EArrive = Some (s', [ORecv rid tag (KFlush old)]) /\
             pc s' = SendImm {| f_rid := rid; f_tag := tag; f_pl := PErr err_unknowntag |} /\
             tags s' = tags s /\ hs s' = hs s.
Proof.
  intros Hp Hr Ht Ho. unfold step. rewrite Hp, Hr, Ht, Ho. eexists. split; [reflexivity|]. proj_simpl. repeat split.
Qed.

(* a flush naming an outstanding tag: the holder is cancelled and removed, the Rflush is queued *)
Lemma flush_known s rid tag old ro : pc s = Main -> rd s = RHold rid tag (KFlush old) ->
  tags s !! tag = None -> tags s !! old = Some ro ->
  exists s' o, step R s EArrive = Some (s', o) /\
             pc s' = SendImm {| f_rid := rid; f_tag := tag; f_pl := PFlushAck ro |} /\
             tags s' = delete old (tags s) /\
             (forall h, hs s !! ro = Some h -> exists h', hs s' !! ro = Some h' /\ h_canc h' = true).
Proof.
  intros Hp Hr Ht Ho. unfold step. rewrite Hp, Hr, Ht, Ho.
  destruct (cancel_rid (set_tags (set_rd s RIdle) (delete old (tags s))) ro) as [s1 oc] eqn:Hc.
  eexists _, _. split; [reflexivity|]. pose proof (cancel_rid_rel _ _ _ _ Hc) as Rl.
  rewrite (cancel_rid_frame _ _ _ _ Hc). proj_simpl. repeat split.
  intros h Hh. destruct (canc_rel_fwd _ _ _ _ _ Rl Hh) as (h' & Hh' & _ & _ & Cc). exists h'. split; [exact Hh'|].
  rewrite Cc. cbn. rewrite N.eqb_refl. apply orb_true_r.
Qed.

(* ------------------------------------------------------------------ C11 *)

(* no stuck state: in EVERY state in which the conn is closed or the context is done and the loop has
   not returned, the loop's own transition "return" is enabled - whatever it is blocked in *)
Lemma no_stuck_return s : fault s = true -> pc s <> PReturned ->
  exists s' o, step R s EReturn = Some (s', o) /\ pc s' = PReturned /\ In OReturn o.
Proof.
  intros Hf Hp. unfold step. cbn [v_inner repaired].
  assert (E : (match pc s with Main | SendImm _ => true | SendDone _ _ => true | PReturned => false end) = true)
    by (destruct (pc s); congruence).
  rewrite E, Hf. cbn [andb].
  destruct (cancel_list (set_pc s PReturned) (map snd (map_to_list (tags s)))) as [s1 oc] eqn:Hc.
  eexists _, _. split; [reflexivity|]. rewrite (cancel_list_frame _ _ _ _ Hc). proj_simpl.
  split; [reflexivity|]. apply in_or_app. right. now left.
Qed.

(* after the return every handler goroutine whose Handle has returned can leave on its own *)
Lemma no_stuck_handler s tr rid h r : reach s tr -> pc s = PReturned -> hs s !! rid = Some h -> h_st h = HFin r ->
  exists s', step R s (EGiveUp rid) = Some (s', []).
Proof.
  intros Hr Hp Hh Hst. pose proof (reach_SInv _ _ Hr) as [_ _ Il].
  assert (Hc : h_canc h = true) by (apply (l_ret _ Il Hp rid h Hh); congruence).
  unfold step. rewrite Hh, Hst, Hc. cbn. eauto.
Qed.

(* and once they have all left, Stop runs *)
Lemma no_stuck_stop s : pc s = PReturned -> stops s = 0 -> all_gone s = true ->
  exists s', step R s EStop = Some (s', [OStop]) /\ stops s' = 1.
Proof.
  intros Hp Hs Hg. unfold step. rewrite Hp, Hs, Hg. cbn. eexists. split; reflexivity.
Qed.

(* these steps are irreversible: returned stays returned, gone stays gone, stopped stays stopped *)
Lemma returned_stable s e s' o : step R s e = Some (s', o) -> pc s = PReturned -> pc s' = PReturned.
Proof.
  intros H Hp. destruct e; step_inv H; proj_simpl;
    repeat match goal with
    | Hc : cancel_rid _ _ = _ |- _ => rewrite (cancel_rid_frame _ _ _ _ Hc); clear Hc
    | Hc : cancel_list _ _ = _ |- _ => rewrite (cancel_list_frame _ _ _ _ Hc); clear Hc
    end; proj_simpl; congruence.
Qed.

Lemma key_stable s tr e s' o x h : reach s tr -> step R s e = Some (s', o) -> hs s !! x = Some h ->
  exists h', hs s' !! x = Some h' /\ h_tag h' = h_tag h /\ (h_st h = HGone -> h_st h' = HGone) /\ (h_canc h = true -> h_canc h' = true).
Proof.
  intros Hr H Hh. pose proof (reach_SInv _ _ Hr) as Is.
  assert (Upd : forall k hk v, hs s !! k = Some hk -> h_tag v = h_tag hk -> (h_st hk = HGone -> h_st v = HGone) ->
                 (h_canc hk = true -> h_canc v = true) ->
                 exists h', <[k := v]> (hs s) !! x = Some h' /\ h_tag h' = h_tag h /\ (h_st h = HGone -> h_st h' = HGone) /\ (h_canc h = true -> h_canc h' = true)).
  { intros k hk v Hk A B C. destruct (N.eq_dec x k) as [E|Hne].
    - subst k. rewrite Hh in Hk. injection Hk as <-. rewrite lookup_insert. eauto.
    - rewrite lookup_insert_ne by congruence. eauto. }
  assert (Rel : forall rids m', canc_rel rids (hs s) m' ->
                 exists h', m' !! x = Some h' /\ h_tag h' = h_tag h /\ (h_st h = HGone -> h_st h' = HGone) /\ (h_canc h = true -> h_canc h' = true)).
  { intros rids m' Rl. destruct (canc_rel_fwd _ _ _ _ _ Rl Hh) as (h' & Hh' & T & S & Cc). exists h'.
    repeat split; [exact Hh'|exact T|congruence|]. intros Hc. rewrite Cc, Hc. reflexivity. }
  destruct e; step_inv H; proj_simpl;
    repeat match goal with
    | Hc : cancel_rid _ _ = _ |- _ => pose proof (cancel_rid_rel _ _ _ _ Hc); rewrite (cancel_rid_frame _ _ _ _ Hc); clear Hc
    | Hc : cancel_list _ _ = _ |- _ => pose proof (cancel_list_rel _ _ _ _ Hc); rewrite (cancel_list_frame _ _ _ _ Hc); clear Hc
    end; proj_simpl.
  all: try (exists h; repeat split; solve [assumption | auto]).
  all: try (eapply Rel; eassumption).
  all: try (eapply Upd; [eassumption|cbn; congruence..]).
  all: pose proof (fresh_rid _ _ _ _ Is Heqr) as Hfresh; rewrite lookup_insert_ne by congruence;
       exists h; repeat split; auto.
Qed.

Lemma gone_stable s tr e s' o rid h : reach s tr -> step R s e = Some (s', o) -> hs s !! rid = Some h -> h_st h = HGone ->
  exists h', hs s' !! rid = Some h' /\ h_st h' = HGone.
Proof. intros Hr H Hh Hg. destruct (key_stable _ _ _ _ _ _ _ Hr H Hh) as (h' & A & _ & B & _). eauto. Qed.

(* cancel-all: when the loop has returned, every handler still in flight has a cancelled context *)
Lemma cancel_all s tr : reach s tr -> In OReturn tr ->
  forall rid h, hs s !! rid = Some h -> h_st h <> HGone -> In (OCancel rid) tr.
Proof.
  intros Hr Hin rid h Hh Hst. pose proof (reach_Hist _ _ Hr) as Ih. pose proof (reach_SInv _ _ Hr) as [_ _ Il].
  apply (hi_canc _ _ Ih rid h Hh). apply (l_ret _ Il (proj2 (hi_ret _ _ Ih) Hin) rid h Hh Hst).
Qed.

(* Stop: at most once, only after the loop returned, only when no handler is in flight *)
Lemma stop_once s tr : reach s tr ->
  (stop_count tr <= 1)%nat /\ (In OStop tr -> In OReturn tr /\ forall rid h, hs s !! rid = Some h -> h_st h = HGone).
Proof.
  intros Hr. pose proof (reach_Hist _ _ Hr) as Ih. pose proof (reach_SInv _ _ Hr) as [_ _ Il].
  pose proof (hi_stops _ _ Ih) as Hc. destruct (l_stop _ Il) as [H0|(H1 & Hp & Hg)].
  - split; [lia|]. intros Hin. exfalso. unfold stop_count in Hc.
    assert (In OStop (List.filter (fun o => match o with OStop => true | _ => false end) tr)) by (apply filter_In; auto).
    destruct (List.filter _ tr); [contradiction|]. cbn in Hc. lia.
  - split; [lia|]. intros _. split; [apply (hi_ret _ _ Ih), Hp|exact Hg].
Qed.

Lemma stop_after_return s tr e s' o : reach s tr -> step R s e = Some (s', o) -> In OStop o ->
  In OReturn tr /\ ~ In OStop tr /\ all_gone s = true.
Proof.
  intros Hr H Hin. pose proof (reach_Hist _ _ Hr) as Ih. pose proof (reach_SInv _ _ Hr) as [_ _ Il].
  assert (E : e = EStop).
  { destruct e; try reflexivity; exfalso; step_inv H; proj_simpl;
      repeat match goal with
      | Hc : cancel_rid _ _ = _ |- _ => pose proof (proj1 (cancel_rid_out _ _ _ _ Hc)); clear Hc
      | Hc : cancel_list _ _ = _ |- _ => pose proof (proj1 (cancel_list_out _ _ _ _ Hc)); clear Hc
      end;
      repeat (first [apply in_app_or in Hin as [Hin|Hin] | destruct Hin as [Hin|Hin]]; try discriminate Hin); try contradiction;
      match goal with Hq : forall x, In x ?l -> _, Hi : In _ ?l |- _ => destruct (Hq _ Hi) as [? ?]; try discriminate; destruct_and?; try discriminate end;
      match goal with Hx : exists _, _ |- _ => destruct Hx as (? & ? & _); discriminate | Hx : _ = _ /\ _ |- _ => destruct Hx as [? _]; discriminate end. }
  subst e. step_inv H. apply andb_prop in Heqb as [Hs0 Hg]. apply N.eqb_eq in Hs0.
  split; [apply (hi_ret _ _ Ih), Heqp|]. split; [|exact Hg].
  intros Hin'. destruct (stop_once _ _ Hr) as [_ _]. pose proof (hi_stops _ _ Ih) as Hc. rewrite Hs0 in Hc.
  unfold stop_count in Hc.
  assert (In OStop (List.filter (fun o => match o with OStop => true | _ => false end) tr)) by (apply filter_In; auto).
  destruct (List.filter _ tr); [contradiction|]. cbn in Hc. lia.
Qed.

(* after Stop nothing touches the session any more: no handler is dispatched, none returns *)
Lemma quiet_after_stop evs : forall s tr s' tr', reach s tr -> stops s = 1 -> run R s evs = Some (s', tr') ->
  forall x, In x tr' -> (forall rid m, x <> ODispatch rid m) /\ (forall rid r, x <> OFin rid r) /\ x <> OStop.
Proof.
  induction evs as [|e evs IH]; intros s tr s' tr' Hr Hs1 Hrun x Hin; cbn in Hrun.
  - injection Hrun as <- <-. destruct Hin.
  - destruct (step R s e) as [[s1 o1]|] eqn:Hs; [|discriminate].
    destruct (run R s1 evs) as [[s2 o2]|] eqn:Hr2; [|discriminate]. injection Hrun as <- <-.
    pose proof (reach_SInv _ _ Hr) as [_ _ Il]. destruct (l_stop _ Il) as [H0|(_ & Hp & Hg)]; [lia|].
    assert (Hs1' : stops s1 = 1 /\ forall y, In y o1 -> (forall rid m, y <> ODispatch rid m) /\ (forall rid r, y <> OFin rid r) /\ y <> OStop).
    { clear IH Hr2 Hin. destruct e; step_inv Hs; proj_simpl; try congruence;
        repeat match goal with
        | Hc : cancel_rid _ _ = _ |- _ => pose proof (proj1 (cancel_rid_out _ _ _ _ Hc)); rewrite (cancel_rid_frame _ _ _ _ Hc); clear Hc
        | Hc : cancel_list _ _ = _ |- _ => pose proof (proj1 (cancel_list_out _ _ _ _ Hc)); rewrite (cancel_list_frame _ _ _ _ Hc); clear Hc
        end; proj_simpl.
      all: try (split; [assumption|]).
      all: try (intros y Hy; repeat (destruct Hy as [Hy|Hy]; [subst y; repeat split; discriminate|]); contradiction).
      - pose proof (Hg _ _ Heqo). congruence.
      - intros y Hy. destruct (H _ Hy) as (? & -> & _). repeat split; discriminate.
      - apply andb_prop in Heqb as [Hq _]. rewrite Hp in Hq. discriminate.
      - apply andb_prop in Heqb as [Hq _]. apply N.eqb_eq in Hq. congruence. }
    destruct Hs1' as [Hs1' Ho1]. apply in_app_or in Hin as [Hin|Hin]; [auto|].
    eapply (IH s1 (tr ++ o1)); eauto. econstructor; eauto.
Qed.

(* ------------------------------------------------------------------ the same, stated over event lists *)
Section OverEventLists.
Variables (evs : list event) (s : st) (tr : list output).
Hypothesis Hrun : run R init evs = Some (s, tr).
Let Hr : reach s tr := run_reach _ _ _ Hrun.

Lemma ev_dispatch_once : NoDup (recv_ids tr) /\ NoDup (disp_ids tr) /\
  forall rid m, In (ODispatch rid m) tr -> exists tag, In (ORecv rid tag (KReq m)) tr.
Proof. exact (dispatch_once _ _ Hr). Qed.
Lemma ev_reply_own f : In (OTake f) tr -> own tr f.
Proof. exact (reply_own _ _ f Hr). Qed.
Lemma ev_reply_at_most_once : NoDup (hand_ids tr).
Proof. exact (reply_at_most_once _ _ Hr). Qed.
Lemma ev_result_unique rid r1 r2 : In (OFin rid r1) tr -> In (OFin rid r2) tr -> r1 = r2.
Proof. exact (result_unique _ _ rid r1 r2 Hr). Qed.
Lemma ev_frame_was_taken f : In (OFrame f) tr -> In (OTake f) tr.
Proof. exact (proj2 (frame_was_taken _ _ Hr) f). Qed.
Lemma ev_reply_exists : settled s -> forall rid, rid < nsent s ->
  (exists f, In (OFrame f) tr /\ f_rid f = rid /\ own tr f) \/ flush_acked tr rid.
Proof. exact (reply_exists _ _ Hr). Qed.
Lemma ev_cancel_then_ack e s' o f v : step R s e = Some (s', o) -> In (OTake f) o -> f_pl f = PFlushAck v -> In (OCancel v) tr.
Proof. exact (cancel_then_ack _ _ e s' o f v Hr). Qed.
Lemma ev_silence f v : handed tr f -> f_pl f = PFlushAck v ->
  forall later s' tr', run R s later = Some (s', tr') -> forall f', In (OTake f') tr' \/ In (OLost f') tr' -> f_rid f' <> v.
Proof. intros Hh Hp later s' tr' H2. exact (silence later _ _ f v s' tr' Hr Hh Hp H2). Qed.
Lemma ev_reuse f v : handed tr f -> f_pl f = PFlushAck v ->
  (forall t, tags s !! t <> Some v) /\
  forall later s' tr', run R s later = Some (s', tr') -> forall f', In (OTake f') tr' -> f_rid f' <> v /\ own (tr ++ tr') f'.
Proof.
  intros Hh Hp. split; [exact (reuse_free _ _ f v Hr (or_intror Hh) Hp)|].
  intros later s' tr' H2. exact (reuse later _ _ f v s' tr' Hr Hh Hp H2).
Qed.
Lemma ev_no_stuck_handler rid h r : pc s = PReturned -> hs s !! rid = Some h -> h_st h = HFin r ->
  exists s', step R s (EGiveUp rid) = Some (s', []).
Proof. exact (no_stuck_handler _ _ rid h r Hr). Qed.
Lemma ev_cancel_all : In OReturn tr -> forall rid h, hs s !! rid = Some h -> h_st h <> HGone -> In (OCancel rid) tr.
Proof. exact (cancel_all _ _ Hr). Qed.
Lemma ev_stop_once : (stop_count tr <= 1)%nat /\
  (In OStop tr -> In OReturn tr /\ forall rid h, hs s !! rid = Some h -> h_st h = HGone).
Proof. exact (stop_once _ _ Hr). Qed.
Lemma ev_stop_after_return e s' o : step R s e = Some (s', o) -> In OStop o -> In OReturn tr /\ ~ In OStop tr /\ all_gone s = true.
Proof. exact (stop_after_return _ _ e s' o Hr). Qed.
Lemma ev_quiet_after_stop : stops s = 1 -> forall later s' tr', run R s later = Some (s', tr') ->
  forall x, In x tr' -> (forall rid m, x <> ODispatch rid m) /\ (forall rid r, x <> OFin rid r) /\ x <> OStop.
Proof. intros H1 later s' tr' H2. exact (quiet_after_stop later _ _ s' tr' Hr H1 H2). Qed.
Lemma ev_gone_stable e s' o rid h : step R s e = Some (s', o) -> hs s !! rid = Some h -> h_st h = HGone ->
  exists h', hs s' !! rid = Some h' /\ h_st h' = HGone.
Proof. exact (gone_stable _ _ e s' o rid h Hr). Qed.
End OverEventLists.
