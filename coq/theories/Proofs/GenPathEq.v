(* The hand-written model of path.go (Model/Path.v), about which the C16 (and
   C15, C08, C20) theorems are stated, EQUALS the translation of the current
   source of path.go (Gen/GenPath.v, regenerated on every run) - for all inputs.
   A change of path.go that alters what one of the five helpers computes makes
   one of these proofs fail; the correspondence run then looks for the input.

   The proofs are written against the SEMANTICS of the generated terms, not
   their layout: library forms are normalised to the model's, every test that
   remains is case-split, and loop invariants are stated about go_range. *)
From Coq Require Import List NArith ZArith Bool Lia ZifyBool.
From P9 Require Import Base.Res Base.GoRt Model.Path Proofs.PathProofs Proofs.GoRtProofs Gen.GenPath.
Import ListNotations.

Ltac lib_norm :=
  change go_str_eqb with bstr_eqb in *;
  unfold is_dot, is_dotdot, DOT in *;
  repeat first
    [ rewrite go_len_zero_is_empty | rewrite bstr_eqb_nil | rewrite bstr_eqb_nil_l | rewrite go_contains_sep
    | rewrite go_contains_sep' | rewrite go_count_slash ].

Ltac fold_tests := idtac.

Ltac destruct_atom c :=
  lazymatch c with
  | orb ?a _ => destruct_atom a
  | andb ?a _ => destruct_atom a
  | negb ?a => destruct_atom a
  | _ => destruct c eqn:?
  end.

(* case-split every test that remains, atom by atom (so that the same atom in two differently
   shaped conditions is split once) *)
Ltac split_ifs :=
  repeat (match goal with |- context [if ?c then _ else _] => destruct_atom c end; cbn [orb andb negb]).

(* a combination of test outcomes that no string satisfies (s = ".." and s = ".", s = ".." and s has a
   separator, ...): turn the successful string comparisons into equations and compute *)
Ltac contra :=
  exfalso;
  repeat match goal with
  | H : bstr_eqb ?a ?b = true |- _ =>
      destruct (bstr_eqb_spec a b) as [?E|?E]; [clear H; try discriminate | discriminate H]
  | H : is_empty ?s = true |- _ => destruct s; [clear H | discriminate H]
  end;
  subst;
  try match goal with H : ?a = ?b |- _ => discriminate H end;
  repeat match goal with
  | H : _ = true |- _ => vm_compute in H; discriminate H
  | H : _ = false |- _ => vm_compute in H; discriminate H
  end.

(* ---- ValidPath ---- *)

Lemma gen_valid_loop : forall args i n,
  go_range_from i args gen_ValidPath_loop1 n = Ret (valid_path_go args i n) \/
  go_range_from i args gen_ValidPath_loop1 n = Nxt (valid_path_go args i n).
Proof.
  induction args as [|s r IH]; intros i n; [right; reflexivity|].
  cbn [go_range_from valid_path_go]. unfold gen_ValidPath_loop1 at 1 3. cbv zeta. lib_norm.
  split_ifs; first [left; reflexivity | apply IH | contra].
Qed.

Theorem gen_ValidPath_eq : forall args, gen_ValidPath args = Ret (valid_path args).
Proof.
  intros args. unfold gen_ValidPath, go_range, valid_path. cbv zeta.
  destruct (gen_valid_loop args 0%Z 0%Z) as [H|H]; rewrite H; reflexivity.
Qed.

(* ---- NormalizePath: the array [ans] is used as a stack, ans = rev stk ++ junk with
        at least as much junk as there are arguments left ---- *)

Lemma gen_norm_body : forall i s stk j junk lo,
  gen_NormalizePath_loop1 i s (rev stk ++ j :: junk, go_len stk, lo) =
    if has_sep s then Ret ([], (-1)%Z)
    else if (is_empty s || bstr_eqb s [46%N])%bool then Nxt (rev stk ++ j :: junk, go_len stk, lo)
    else if bstr_eqb s [46%N; 46%N] then
      if Z.ltb lo (go_len stk) then Nxt (rev stk ++ j :: junk, (go_len stk - 1)%Z, lo)
      else Nxt (rev (s :: stk) ++ junk, (go_len stk + 1)%Z, (lo + 1)%Z)
    else Nxt (rev (s :: stk) ++ junk, (go_len stk + 1)%Z, lo).
Proof.
  intros. unfold gen_NormalizePath_loop1. cbv zeta. lib_norm.
  assert (Hs : go_store (rev stk ++ j :: junk) (go_len stk) s = Some (rev (s :: stk) ++ junk)).
  { replace (go_len stk) with (go_len (rev stk)) by (unfold go_len; rewrite rev_length; reflexivity).
    rewrite go_store_app. cbn [rev]. rewrite <- app_assoc. reflexivity. }
  rewrite ?Hs. split_ifs; first [reflexivity | contra].
Qed.

Lemma gen_norm_loop : forall args i stk junk lo,
  (length args <= length junk)%nat -> (0 <= lo)%Z ->
  match normalize_go args stk lo with
  | None => go_range_from i args gen_NormalizePath_loop1 (rev stk ++ junk, go_len stk, lo) = Ret ([], (-1)%Z)
  | Some (out, lo') => exists junk',
      go_range_from i args gen_NormalizePath_loop1 (rev stk ++ junk, go_len stk, lo) = Nxt (out ++ junk', go_len out, lo')
  end.
Proof.
  induction args as [|s r IH]; intros i stk junk lo Hlen Hlo.
  - cbn [normalize_go go_range_from]. exists junk. unfold go_len. rewrite rev_length. reflexivity.
  - destruct junk as [|j junk]; [cbn in Hlen; lia|]. cbn [length] in Hlen.
    cbn [go_range_from normalize_go]. rewrite gen_norm_body. unfold is_dot, is_dotdot, DOT. unfold bstr in *.
    destruct (has_sep s); [reflexivity|].
    destruct (is_empty s || bstr_eqb s [46%N])%bool.
    { apply (IH (i + 1)%Z stk (j :: junk) lo); [cbn [length]; lia | exact Hlo]. }
    assert (Hpush : forall lo2, (0 <= lo2)%Z -> match normalize_go r (s :: stk) lo2 with
              | None => go_range_from (i + 1) r gen_NormalizePath_loop1 (rev (s :: stk) ++ junk, (go_len stk + 1)%Z, lo2) = Ret ([], (-1)%Z)
              | Some (out, lo') => exists junk',
                  go_range_from (i + 1) r gen_NormalizePath_loop1 (rev (s :: stk) ++ junk, (go_len stk + 1)%Z, lo2) = Nxt (out ++ junk', go_len out, lo')
              end).
    { intros lo2 Hlo2. replace (go_len stk + 1)%Z with (go_len (s :: stk)) by (unfold go_len; cbn [length]; lia).
      apply IH; [lia | exact Hlo2]. }
    destruct (bstr_eqb s [46%N; 46%N]); [|apply Hpush; exact Hlo].
    change (Z.of_nat (length stk)) with (go_len stk).
    destruct (Z.ltb lo (go_len stk)) eqn:Hlt; [|apply Hpush; lia].
    destruct stk as [|top stk]; [apply Z.ltb_lt in Hlt; unfold go_len in Hlt; cbn in Hlt; lia|].
    cbn [tl]. replace (go_len (top :: stk) - 1)%Z with (go_len stk) by (unfold go_len; cbn [length]; lia).
    cbn [rev]. rewrite <- app_assoc. cbn [app].
    apply (IH (i + 1)%Z stk (top :: j :: junk) lo); [cbn [length]; lia | exact Hlo].
Qed.

Theorem gen_NormalizePath_eq : forall args, gen_NormalizePath args = Ret (normalize_path args).
Proof.
  intros args. unfold gen_NormalizePath, go_range, normalize_path. rewrite go_make_len.
  pose proof (gen_norm_loop args 0%Z [] (repeat (@nil N) (length args)) 0%Z) as H.
  rewrite repeat_length in H. specialize (H (le_n _) (Z.le_refl 0)).
  change (rev [] ++ repeat (@nil N) (length args)) with (repeat (@nil N) (length args)) in H.
  change (go_len (@nil bstr)) with 0%Z in H. unfold bstr in *. cbv zeta.
  match goal with |- context [normalize_go ?a ?b ?c] => destruct (normalize_go a b c) as [[out lo']|] end.
  - cbv beta iota in H. destruct H as [junk' H]. rewrite H. rewrite go_slice_prefix. reflexivity.
  - cbv beta iota in H. rewrite H. reflexivity.
Qed.

(* ---- CreateName, WalkName, ToWalk: results projected to what the model keeps
        (the model's Err carries no text; the translation shows the text too) ---- *)

Definition invalid_path_text : list N := [73; 110; 118; 97; 108; 105; 100; 32; 112; 97; 116; 104]%N.

Theorem gen_CreateName_eq : forall dir name,
  gen_CreateName dir name =
    match create_name dir name with
    | Ok p => Ret (p, None)
    | _ => Ret ([], Some invalid_path_text)
    end.
Proof.
  intros. unfold gen_CreateName, create_name. cbv zeta. lib_norm. fold_tests.
  split_ifs; first [reflexivity | exfalso; lia | contra].
Qed.

Theorem gen_WalkName_eq : forall dir names,
  gen_WalkName dir names =
    match walk_name dir names with
    | Ok p => Ret (p, None)
    | Err _ => Ret (dir, Some invalid_path_text)
    | _ => Pan
    end.
Proof.
  intros. unfold gen_WalkName, walk_name. rewrite go_slice_removelast.
  destruct dir as [|c dir]; [reflexivity|].
  rewrite gen_ValidPath_eq. cbv zeta. lib_norm.
  split_ifs; first [reflexivity | exfalso; lia | contra].
Qed.

Definition invalid_path_prefix : list N := [105; 110; 118; 97; 108; 105; 100; 32; 112; 97; 116; 104; 58; 32]%N.

Theorem gen_ToWalk_eq : forall p,
  gen_ToWalk p =
    match to_walk p with
    | (isabs, Ok steps) => Ret (isabs, steps, None)
    | (isabs, _) => Ret (isabs, [], Some (invalid_path_prefix ++ p))
    end.
Proof.
  intros. unfold gen_ToWalk, to_walk. rewrite gen_NormalizePath_eq. cbv zeta.
  destruct (normalize_path (split_slash (trim_slash p))) as [steps bsp].
  split_ifs; first [reflexivity | exfalso; lia | contra].
Qed.
