(* Lemmas about Model/Ramfs.v, part 5: what the sessions observe.
   - with no fid bound anywhere the hold counts vanish (refcount corollary);
   - a read / write through an open fid is the byte-array read / write on the
     content of the node the fid names, and touches no other node;
   - the listing produced by OpenDir. *)
From Coq Require Import List NArith ZArith Bool Lia ZifyBool ZifyNat ZifyN.
From P9 Require Import Base.Res Model.Path Model.Ramfs Proofs.RamfsProofs Proofs.RamfsProofsRef Proofs.RamfsProofsInv Proofs.RamfsProofsStep.
Import ListNotations.
Open Scope Z_scope.

(* ---------------------------------------------------------------- reference counts *)

Definition no_fids (w : world) : Prop := Forall (fun t => t = []) (w_sess w).

Lemma hcount_no_fids w x : no_fids w -> hcount w x = 0.
Proof.
  unfold no_fids, hcount, hc_sess, all_handles. induction (w_sess w) as [|t ss IH]; intros H.
  - reflexivity.
  - inversion H; subst. cbn. apply IH. auto.
Qed.

Lemma reachable_refcount nsess ops x :
  let w := run_world (init_world nsess) ops in
  n_ref (getn (wst w) x) = root_bit x + cnt (links (wst w)) x + hcount w x.
Proof.
  cbn zeta. pose proof (run_world_inv ops _ (init_inv nsess)) as I.
  rewrite (inv_refs _ I x). rewrite cnt_nil. lia.
Qed.

Lemma clunked_refcount nsess ops x :
  let w := run_world (init_world nsess) ops in
  no_fids w -> n_ref (getn (wst w) x) = root_bit x + cnt (links (wst w)) x.
Proof.
  cbn zeta. intros H. rewrite reachable_refcount. rewrite hcount_no_fids by auto. lia.
Qed.

(* the hold count is what it says: occurrences of x in the chains of all bound fids *)
Lemma hcount_def w x :
  hcount w x = cnt (flat_map hids (flat_map (fun t => map (fun e => f_h (snd e)) t) (w_sess w))) x.
Proof. reflexivity. Qed.

(* links counts the (parent, name) pairs leading to x from parents that are alive *)
Lemma links_def s x :
  cnt (links s) x = cnt (flat_map (fun n => if 0 <? n_ref n then child_ids n else []) s) x.
Proof. reflexivity. Qed.

(* between operations nothing alive is below 1, nothing is negative *)
Lemma reachable_nref_nonneg nsess ops x :
  0 <= n_ref (getn (wst (run_world (init_world nsess) ops)) x).
Proof.
  pose proof (reachable_refcount nsess ops x) as E. cbn zeta in E. rewrite E.
  pose proof (cnt_nonneg (links (wst (run_world (init_world nsess) ops))) x).
  pose proof (hc_sess_nonneg (w_sess (run_world (init_world nsess) ops)) x).
  unfold hcount, root_bit. destruct (Nat.eqb x 0); lia.
Qed.

(* ---------------------------------------------------------------- reads and writes through a fid *)

Definition open_file_at (w : world) (s : nat) (fid : N) (x : nat) (mode : N) : Prop :=
  exists e, get_ref (sess_of w s) fid = Ok e /\ f_file e = Some (OFile x) /\ f_mode e = mode.

Lemma sess_read_file w s fid x mode off count :
  open_file_at w s fid x mode -> (N.land mode 3 =? 1)%N = false ->
  let data := n_data (getn (wst w) x) in
  fst (sess_read w s fid off count) = w /\
  snd (sess_read w s fid off count) =
    if (0 <=? to_int64 off) && (to_int64 off <=? zlen data)
    then Ok (RData (spec_read data (Z.to_nat (to_int64 off)) (N.to_nat count)))
    else Err (if to_int64 off <? 0 then e_badoffset else e_eof).
Proof.
  intros (e & G & F & M) Hm. cbn zeta. unfold sess_read. rewrite G, F, M, Hm.
  destruct ((0 <=? to_int64 off) && (to_int64 off <=? zlen (n_data (getn (wst w) x)))) eqn:Hr.
  - rewrite ent_read_spec by lia. cbn. split; auto. repeat f_equal. lia.
  - destruct (to_int64 off <? 0) eqn:Hn.
    + rewrite (proj1 (ent_read_rejects _ _ _)) by lia. auto.
    + rewrite (proj2 (ent_read_rejects _ _ _)) by lia. auto.
Qed.

Lemma sess_write_file w s fid x mode off p :
  open_file_at w s fid x mode -> (N.land mode 3 =? 1)%N || (N.land mode 3 =? 2)%N = true ->
  let data := n_data (getn (wst w) x) in
  let w' := fst (sess_write w s fid off p) in
  if (0 <=? to_int64 off) && (to_int64 off <=? zlen data)
  then snd (sess_write w s fid off p) = Ok (RCount (zlen p)) /\
       ((x < length (wst w))%nat -> n_data (getn (wst w') x) = spec_write data (Z.to_nat (to_int64 off)) p) /\
       (forall y, y <> x -> getn (wst w') y = getn (wst w) y) /\
       w_sess w' = w_sess w
  else w' = w /\ snd (sess_write w s fid off p) = Err (if to_int64 off <? 0 then e_badoffset else e_invalidaddr).
Proof.
  intros (e & G & F & M) Hm. cbn zeta. unfold sess_write. rewrite G, F, M.
  assert (Hm' : negb (N.land mode 3 =? 1)%N && negb (N.land mode 3 =? 2)%N = false).
  { destruct (N.land mode 3 =? 1)%N; destruct (N.land mode 3 =? 2)%N; cbn in *; auto. }
  rewrite Hm'.
  destruct ((0 <=? to_int64 off) && (to_int64 off <=? zlen (n_data (getn (wst w) x)))) eqn:Hr.
  - destruct (node_write_spec (getn (wst w) x) p (to_int64 off) ltac:(lia)) as (n' & -> & Hd & _).
    cbn [fst snd]. split; [reflexivity|]. split; [|split].
    + intros Hx. unfold set_store, wst. cbn [w_srv st]. rewrite getn_setn_same by exact Hx. exact Hd.
    + intros y Hy. unfold set_store, wst. cbn [w_srv st]. apply getn_setn_other. auto.
    + reflexivity.
  - unfold node_write. destruct (to_int64 off <? 0) eqn:Hn.
    + rewrite (proj1 (ent_write_rejects _ _ _)) by lia. cbn. auto.
    + rewrite (proj2 (ent_write_rejects _ _ _)) by lia. cbn. auto.
Qed.

(* ---------------------------------------------------------------- directory listings *)

(* OpenDir lists '..' (the entry the handle came through, or the root itself) and exactly the children *)
Lemma fh_opendir_listing s h l : fh_opendir s h = Ok l ->
  exists dd, l = set_name dd [DOT; DOT] :: map (fun c => n_info (getn s c)) (child_ids (getn s (h_ent h))) /\
    dd = n_info (getn s (last (h_parents h) (h_ent h))).
Proof.
  unfold fh_opendir. destruct (negb _); try discriminate. intros E. inversion E. clear E.
  eexists. split; [reflexivity|].
  assert (forall (l : list nat) d, match rev l with [] => d | p :: _ => p end = last l d) as Hl.
  { intros l0 d. induction l0 as [|a l0 IH] using rev_ind; [reflexivity|].
    rewrite rev_app_distr. cbn. rewrite last_last. reflexivity. }
  rewrite <- (Hl (h_parents h) (h_ent h)). destruct (rev (h_parents h)); reflexivity.
Qed.

Lemma fh_opendir_ok_iff s h : (exists l, fh_opendir s h = Ok l) <-> is_dir_mode (n_info (getn s (h_ent h))) = true.
Proof.
  unfold fh_opendir. destruct (is_dir_mode _); cbn; split; intros; eauto; try discriminate.
  destruct H. discriminate.
Qed.

(* ---------------------------------------------------------------- children change only by create and remove *)

Lemma children_some_inrange s p cs : n_children (getn s p) = Some cs -> (p < length s)%nat.
Proof.
  intros H. destruct (Nat.lt_ge_cases p (length s)); auto. rewrite getn_oob in H by auto. discriminate.
Qed.

(* create: exactly one new name is linked in the parent, nothing else changes *)
Lemma link_child_exact s p nm c s' : link_child s p nm c = Ok s' ->
  exists cs, n_children (getn s p) = Some cs /\ lookup_child cs nm = None /\
    n_children (getn s' p) = Some (cs ++ [(nm, c)]) /\ (forall y, y <> p -> getn s' y = getn s y).
Proof.
  unfold link_child. destruct (n_children (getn s p)) as [cs|] eqn:Ec; try discriminate.
  destruct (lookup_child cs nm) eqn:El; try discriminate. intros E. inversion E; subst s'.
  exists cs. repeat split; auto.
  - rewrite getn_setn_same by (eapply children_some_inrange; eauto). reflexivity.
  - intros y Hy. apply getn_setn_other. auto.
Qed.

(* remove: exactly the link name -> c is taken out of the parent, and only if it still leads to c *)
Lemma unlink_child_exact s p nm c s' : unlink_child s p nm c = Ok s' ->
  exists cs, n_children (getn s p) = Some cs /\ lookup_child cs nm = Some c /\
    n_children (getn s' p) = Some (remove_child cs nm) /\ (forall y, y <> p -> getn s' y = getn s y).
Proof.
  unfold unlink_child. destruct (n_children (getn s p)) as [cs|] eqn:Ec; try discriminate.
  destruct (lookup_child cs nm) as [c'|] eqn:El; try discriminate.
  destruct (Nat.eqb c' c) eqn:Ecc; try discriminate. apply Nat.eqb_eq in Ecc. subst c'.
  intros E. inversion E; subst s'. exists cs. repeat split; auto.
  - rewrite getn_setn_same by (eapply children_some_inrange; eauto). reflexivity.
  - intros y Hy. apply getn_setn_other. auto.
Qed.

Lemma unlink_child_stale s p nm c : 
  (forall cs c', n_children (getn s p) = Some cs -> lookup_child cs nm = Some c' -> c' <> c) ->
  forall s', unlink_child s p nm c <> Ok s'.
Proof.
  intros H s'. unfold unlink_child. destruct (n_children (getn s p)) as [cs|] eqn:Ec; try discriminate.
  destruct (lookup_child cs nm) as [c'|] eqn:El; try discriminate.
  destruct (Nat.eqb c' c) eqn:Ecc; try discriminate. apply Nat.eqb_eq in Ecc. exfalso. eapply H; eauto.
Qed.

(* release: decref clears the children of a node only when it takes its count to 0, and changes
   nothing but counts and (cleared) children *)
Lemma decref_effect : forall fuel s x s', decref fuel s x = Some s' ->
  forall y, n_info (getn s' y) = n_info (getn s y) /\ n_data (getn s' y) = n_data (getn s y) /\
            n_ref (getn s' y) <= n_ref (getn s y) /\
            (n_children (getn s' y) = n_children (getn s y) \/
             (n_children (getn s' y) = None /\ n_ref (getn s' y) <= 0 /\ 0 < n_ref (getn s y))).
Proof.
  induction fuel as [|fuel IH]; intros s x s' E; [discriminate|].
  cbn [decref] in E. set (n := getn s x) in *.
  assert (Hset : forall n1, n_info n1 = n_info n -> n_data n1 = n_data n -> n_ref n1 = n_ref n - 1 ->
            (n_children n1 = n_children n \/ (n_children n1 = None /\ n_ref n - 1 = 0)) ->
            forall y, n_info (getn (setn s x n1) y) = n_info (getn s y) /\ n_data (getn (setn s x n1) y) = n_data (getn s y) /\
              n_ref (getn (setn s x n1) y) <= n_ref (getn s y) /\
              (n_children (getn (setn s x n1) y) = n_children (getn s y) \/
               (n_children (getn (setn s x n1) y) = None /\ n_ref (getn (setn s x n1) y) <= 0 /\ 0 < n_ref (getn s y)))).
  { intros n1 A B C D y. destruct (Nat.lt_ge_cases x (length s)) as [Hx|Hx].
    - destruct (Nat.eq_dec x y) as [->|Hn].
      + rewrite getn_setn_same by auto. fold n. repeat split; auto; try lia.
        destruct D as [D|[D1 D2]]; [left; auto|right; repeat split; auto; lia].
      + rewrite getn_setn_other by auto. repeat split; auto; lia.
    - rewrite setn_oob by auto. repeat split; auto; lia. }
  destruct (n_ref n - 1 =? 0) eqn:Hz.
  - set (s1 := setn s x (with_children (with_ref n (n_ref n - 1)) None)) in *.
    assert (H1 : forall y, n_info (getn s1 y) = n_info (getn s y) /\ n_data (getn s1 y) = n_data (getn s y) /\
              n_ref (getn s1 y) <= n_ref (getn s y) /\
              (n_children (getn s1 y) = n_children (getn s y) \/
               (n_children (getn s1 y) = None /\ n_ref (getn s1 y) <= 0 /\ 0 < n_ref (getn s y)))).
    { apply Hset; cbn; auto. right. split; auto. lia. }
    clearbody s1. revert s1 H1 E. generalize (child_ids n) as cs.
    induction cs as [|c cs IHcs]; intros s1 H1 E; cbn [fold_left] in E.
    + inversion E; subst. exact H1.
    + destruct (decref fuel s1 c) as [s2|] eqn:E2.
      * apply (IHcs s2); auto. intros y. destruct (IH _ _ _ E2 y) as (A & B & C & D).
        destruct (H1 y) as (A1 & B1 & C1 & D1).
        repeat split; try congruence; try lia.
        destruct D as [D|(D & D' & D'')].
        -- destruct D1 as [D1|(D1 & D1' & D1'')]; [left; congruence|right; repeat split; try congruence; lia].
        -- right. repeat split; auto. destruct D1 as [D1|(D1 & D1' & D1'')]; lia.
      * exfalso. clear - E. induction cs; cbn in E; [discriminate|auto].
  - inversion E; subst s'. apply Hset; cbn; auto.
Qed.
