(* Lemmas about Model/Ramfs.v, part 5: what the sessions observe.
   - with no fid bound anywhere the hold counts vanish (refcount corollary);
   - a read / write through an open fid is the byte-array read / write on the
     content of the node the fid names, and touches no other node;
   - the listing produced by OpenDir. *)
From Coq Require Import List NArith ZArith Bool Lia ZifyBool ZifyNat ZifyN.
From P9 Require Import Base.Res Model.Path Model.Ramfs Proofs.RamfsProofs Proofs.RamfsProofsRef Proofs.RamfsProofsInv Proofs.RamfsProofsStep.
Import ListNotations.
Open Scope Z_scope.

(* ---------------------------------------------------------------- reference counts *)

Definition no_fids (w : world) : Prop := Forall (fun t => t = []) (w_sess w).

Lemma hcount_no_fids w x : no_fids w -> hcount w x = 0.
Proof.
  unfold no_fids, hcount, hc_sess, all_handles. induction (w_sess w) as [|t ss IH]; intros H.
  - reflexivity.
  - inversion H; subst. cbn. apply IH. auto.
Qed.

Lemma reachable_refcount nsess ops x :
  let w := run_world (init_world nsess) ops in
  n_ref (getn (wst w) x) = root_bit x + cnt (links (wst w)) x + hcount w x.
Proof.
  cbn zeta. pose proof (run_world_inv ops _ (init_inv nsess)) as I.
  rewrite (inv_refs _ I x). rewrite cnt_nil. lia.
Qed.

Lemma clunked_refcount nsess ops x :
  let w := run_world (init_world nsess) ops in
  no_fids w -> n_ref (getn (wst w) x) = root_bit x + cnt (links (wst w)) x.
Proof.
  cbn zeta. intros H. rewrite reachable_refcount. rewrite hcount_no_fids by auto. lia.
Qed.

(* the hold count is what it says: occurrences of x in the chains of all bound fids *)
Lemma hcount_def w x :
  hcount w x = cnt (flat_map hids (flat_map (fun t => map (fun e => f_h (snd e)) t) (w_sess w))) x.
Proof. reflexivity. Qed.

(* links counts the (parent, name) pairs leading to x from parents that are alive *)
Lemma links_def s x :
  cnt (links s) x = cnt (flat_map (fun n => if 0 <? n_ref n then child_ids n else []) s) x.
Proof. reflexivity. Qed.

(* between operations nothing alive is below 1, nothing is negative *)
Lemma reachable_nref_nonneg nsess ops x :
  0 <= n_ref (getn (wst (run_world (init_world nsess) ops)) x).
Proof.
  pose proof (reachable_refcount nsess ops x) as E. cbn zeta in E. rewrite E.
  pose proof (cnt_nonneg (links (wst (run_world (init_world nsess) ops))) x).
  pose proof (hc_sess_nonneg (w_sess (run_world (init_world nsess) ops)) x).
  unfold hcount, root_bit. destruct (Nat.eqb x 0); lia.
Qed.

(* ---------------------------------------------------------------- reads and writes through a fid *)

Definition open_file_at (w : world) (s : nat) (fid : N) (x : nat) (mode : N) : Prop :=
  exists e, get_ref (sess_of w s) fid = Ok e /\ f_file e = Some (OFile x) /\ f_mode e = mode.

Lemma sess_read_file w s fid x mode off count :
  open_file_at w s fid x mode -> (N.land mode 3 =? 1)%N = false ->
  let data := n_data (getn (wst w) x) in
  fst (sess_read w s fid off count) = w /\
  snd (sess_read w s fid off count) =
    if (0 <=? to_int64 off) && (to_int64 off <=? zlen data)
    then Ok (RData (spec_read data (Z.to_nat (to_int64 off)) (N.to_nat count)))
    else Err (if to_int64 off <? 0 then e_badoffset else e_eof).
Proof.
  intros (e & G & F & M) Hm. cbn zeta. unfold sess_read. rewrite G, F, M, Hm.
  destruct ((0 <=? to_int64 off) && (to_int64 off <=? zlen (n_data (getn (wst w) x)))) eqn:Hr.
  - rewrite ent_read_spec by lia. cbn. split; auto. repeat f_equal. lia.
  - destruct (to_int64 off <? 0) eqn:Hn.
    + rewrite (proj1 (ent_read_rejects _ _ _)) by lia. auto.
    + rewrite (proj2 (ent_read_rejects _ _ _)) by lia. auto.
Qed.

Lemma sess_write_file w s fid x mode off p :
  open_file_at w s fid x mode -> (N.land mode 3 =? 1)%N || (N.land mode 3 =? 2)%N = true ->
  let data := n_data (getn (wst w) x) in
  let w' := fst (sess_write w s fid off p) in
  if (0 <=? to_int64 off) && (to_int64 off <=? zlen data)
  then snd (sess_write w s fid off p) = Ok (RCount (zlen p)) /\
       ((x < length (wst w))%nat -> n_data (getn (wst w') x) = spec_write data (Z.to_nat (to_int64 off)) p) /\
       (forall y, y <> x -> getn (wst w') y = getn (wst w) y) /\
       w_sess w' = w_sess w
  else w' = w /\ snd (sess_write w s fid off p) = Err (if to_int64 off <? 0 then e_badoffset else e_invalidaddr).
Proof.
  intros (e & G & F & M) Hm. cbn zeta. unfold sess_write. rewrite G, F, M.
  assert (Hm' : negb (N.land mode 3 =? 1)%N && negb (N.land mode 3 =? 2)%N = false).
  { destruct (N.land mode 3 =? 1)%N; destruct (N.land mode 3 =? 2)%N; cbn in *; auto. }
  rewrite Hm'.
  destruct ((0 <=? to_int64 off) && (to_int64 off <=? zlen (n_data (getn (wst w) x)))) eqn:Hr.
  - destruct (node_write_spec (getn (wst w) x) p (to_int64 off) ltac:(lia)) as (n' & -> & Hd & _).
    cbn [fst snd]. split; [reflexivity|]. split; [|split].
    + intros Hx. unfold set_store, wst. cbn [w_srv st]. rewrite getn_setn_same by exact Hx. exact Hd.
    + intros y Hy. unfold set_store, wst. cbn [w_srv st]. apply getn_setn_other. auto.
    + reflexivity.
  - unfold node_write. destruct (to_int64 off <? 0) eqn:Hn.
    + rewrite (proj1 (ent_write_rejects _ _ _)) by lia. cbn. auto.
    + rewrite (proj2 (ent_write_rejects _ _ _)) by lia. cbn. auto.
Qed.

(* ---------------------------------------------------------------- directory listings *)

(* OpenDir lists '..' (the entry the handle came through, or the root itself) and exactly the children *)
Lemma fh_opendir_listing s h l : fh_opendir s h = Ok l ->
  exists dd, l = set_name dd [DOT; DOT] :: map (fun c => n_info (getn s c)) (child_ids (getn s (h_ent h))) /\
    dd = n_info (getn s (last (h_parents h) (h_ent h))).
Proof.
  unfold fh_opendir. destruct (negb _); try discriminate. intros E. inversion E. clear E.
  eexists. split; [reflexivity|].
  assert (forall (l : list nat) d, match rev l with [] => d | p :: _ => p end = last l d) as Hl.
  { intros l0 d. induction l0 as [|a l0 IH] using rev_ind; [reflexivity|].
    rewrite rev_app_distr. cbn. rewrite last_last. reflexivity. }
  rewrite <- (Hl (h_parents h) (h_ent h)). destruct (rev (h_parents h)); reflexivity.
Qed.

Lemma fh_opendir_ok_iff s h : (exists l, fh_opendir s h = Ok l) <-> is_dir_mode (n_info (getn s (h_ent h))) = true.
Proof.
  unfold fh_opendir. destruct (is_dir_mode _); cbn; split; intros; eauto; try discriminate.
  destruct H. discriminate.
Qed.
