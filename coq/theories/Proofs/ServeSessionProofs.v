(* Lemmas about Model/ServeSession.v: the serve loop (Model/Serve.v) composed with the session
   (Model/Session.v).  For EVERY event list of the composed system, every codec and every
   file-system behaviour:

     crun_serve            the serve component of a composed run is a run of Serve.v with the same
                           outputs (so every C06/C07/C11 theorem about Serve.v holds of the composed system)
     crun_CInv             the session component is [after log] for the log of operations applied so far;
                           before Stop the log is stop-free (a state of Proofs/SessionClauses.v's [reach]),
                           after Stop it is [ops ++ [Stop]] with [ops] stop-free
     released_after_stop   once OStop is in the trace: fid table empty, every entry ever bound released
                           exactly once, never used afterwards, Stop exactly once, after the return, no
                           handler goroutine left
     frozen_after_stop     after Stop no event changes the session (no operation is applied, no second Stop)
     handler_can_return    while a handler is running its Handle CAN return whatever the file system
                           answers: the session call never hangs (no lock is leaked between operations)

   The serve-side facts used: C11_stop_once / C11_stop_after_return (stop_once, l_stop: Stop at most once,
   and when it has run every handler goroutine is gone - so no EFinish, i.e. no session operation, is
   enabled any more) and the trace bookkeeping of ServeProofs2 (hi_stops, hi_disp_inv).  The session-side
   facts: run_refines / step_refines (no operation hangs from a well-formed state), after_stop, stop_G
   (C13_stop, C08_stop_empties). *)
From Coq Require Import List NArith Bool Lia.
From stdpp Require Import gmap.
From P9 Require Import Model.Path Model.Serve Model.Session Model.FidSpec Model.ServeSession.
From P9 Require Import Proofs.ServeProofs Proofs.ServeProofs2 Proofs.ServeProofs4.
From P9 Require Import Proofs.SessionProofs Proofs.SessionGhost Proofs.SessionClauses.
Import ListNotations.
Open Scope N_scope.

Notation sv_reach := ServeProofs.reach.
Notation ss_reach := SessionClauses.reach.
Notation SStop := Session.OStop.
Notation VStop := Serve.OStop.

(* ---- counting Stop in a trace ---- *)
Lemma stop_count_app a b : stop_count (a ++ b) = (stop_count a + stop_count b)%nat.
Proof. unfold stop_count. by rewrite List.filter_app, app_length. Qed.

Lemma stop_count_pos l : (0 < stop_count l)%nat -> In VStop l.
Proof.
  unfold stop_count. induction l as [|x l IH]; cbn; [lia|].
  destruct x; cbn; intros H; auto.
Qed.

Lemma in_stop_count l : In VStop l -> (0 < stop_count l)%nat.
Proof.
  unfold stop_count. induction l as [|x l IH]; cbn; [tauto|].
  intros [->|H]; cbn; [lia|]. specialize (IH H). destruct x; cbn; lia.
Qed.

Lemma stop_count_zero l : stop_count l = 0%nat -> ~ In VStop l.
Proof. intros H Hin. apply in_stop_count in Hin. lia. Qed.

(* ---- what the outputs of one serve step do to the session side ---- *)
Lemma absorb_nostop o : forall ss rq lg, ~ In VStop o ->
  (absorb (ss, rq, lg) o).1.1 = ss /\ (absorb (ss, rq, lg) o).2 = lg.
Proof.
  unfold absorb. induction o as [|x o IH]; intros ss rq lg Hn; [done|].
  cbn [fold_left]. assert (Hn' : ~ In VStop o) by (intros ?; apply Hn; by right).
  destruct x; cbn [absorb1]; try (by apply IH).
  exfalso. apply Hn. by left.
Qed.

Lemma absorb_one o : forall ss rq lg, stop_count o = 1%nat ->
  (absorb (ss, rq, lg) o).1.1 = (sstep ss SStop []).1.1 /\ (absorb (ss, rq, lg) o).2 = lg ++ [(SStop, [])].
Proof.
  unfold absorb. induction o as [|x o IH]; intros ss rq lg Hc; [done|].
  cbn [fold_left].
  destruct x; cbn [absorb1]; try (apply IH; exact Hc).
  change (stop_count (VStop :: o)) with (S (stop_count o)) in Hc.
  apply (absorb_nostop o). apply stop_count_zero. lia.
Qed.

Lemma absorb_req o : forall ss rq lg rid,
  (exists m, In (ODispatch rid m) o) \/ is_Some (rq !! rid) -> is_Some ((absorb (ss, rq, lg) o).1.2 !! rid).
Proof.
  unfold absorb. induction o as [|x o IH]; intros ss rq lg rid H.
  - destruct H as [[m []]|H]. exact H.
  - cbn [fold_left].
    assert (Hgen : forall ss' rq' lg', absorb1 (ss, rq, lg) x = (ss', rq', lg') ->
              (exists m, In (ODispatch rid m) o) \/ is_Some (rq' !! rid)).
    { intros ss' rq' lg' Hx. destruct H as [[m [->|Hin]]|H].
      - cbn in Hx. injection Hx as <- <- <-. right. rewrite lookup_insert. eauto.
      - left. eauto.
      - right. destruct x; cbn in Hx; injection Hx as <- <- <-; try exact H.
        destruct (decide (rid0 = rid)) as [->|Hne]; [rewrite lookup_insert; eauto|by rewrite lookup_insert_ne]. }
    destruct (absorb1 (ss, rq, lg) x) as [[ss' rq'] lg'] eqn:Hx.
    apply IH. by eapply Hgen.
Qed.

(* ---- inversion of the composed step ---- *)
Lemma cstep_cev v cd c e0 c' o : cstep v cd c (CEv e0) = Some (c', o) ->
  (forall rid r, e0 <> EFinish rid r) /\
  exists sv', step v (c_sv c) e0 = Some (sv', o) /\
    c' = CSt sv' (absorb (c_ss c, c_req c, c_log c) o).1.1 (absorb (c_ss c, c_req c, c_log c) o).1.2
             (absorb (c_ss c, c_req c, c_log c) o).2.
Proof.
  intros H.
  destruct e0; cbn [cstep] in H; try discriminate; (split; [intros ? ? ?; discriminate|]);
    (destruct (step v (c_sv c) _) as [[sv' o']|] eqn:E; [|discriminate]);
    unfold after_serve in H; destruct (absorb _ o') as [[ss rq] lg] eqn:Ea;
    injection H as <- <-; exists sv'; rewrite Ea; auto.
Qed.

Lemma cstep_cfin v cd c rid ts c' o : cstep v cd c (CFinish rid ts) = Some (c', o) ->
  exists m sv', c_req c !! rid = Some m /\
    (handle_op cd c m ts).1.2 <> Some RHang /\
    step v (c_sv c) (EFinish rid (cd_reply cd m (handle_op cd c m ts).1.2)) = Some (sv', o) /\
    let acc := absorb ((handle_op cd c m ts).1.1, c_req c, (handle_op cd c m ts).2) o in
    c' = CSt sv' acc.1.1 acc.1.2 acc.2.
Proof.
  intros H. cbn [cstep] in H. destruct (c_req c !! rid) as [m|]; [|discriminate].
  exists m. destruct (handle_op cd c m ts) as [[ss1 res] lg1]. cbn [fst snd].
  destruct res as [[n|e|]|]; try discriminate;
    (destruct (step v (c_sv c) _) as [[sv' o']|] eqn:E; [|discriminate]);
    unfold after_serve in H; destruct (absorb _ o') as [[ss rq] lg] eqn:Ea;
    injection H as <- <-; exists sv'; cbn zeta; rewrite Ea; split_and!; auto; discriminate.
Qed.

Lemma finish_inv s rid r s' o : step R s (EFinish rid r) = Some (s', o) ->
  exists h, hs s !! rid = Some h /\ h_st h = HRun /\ o = [OFin rid r].
Proof. intros H. step_inv H. eauto. Qed.

(* ---- the serve component of a composed run is a run of Serve.v ---- *)
Lemma crun_serve v cd evs : forall c c' tr, crun v cd c evs = Some (c', tr) ->
  exists sevs, run v (c_sv c) sevs = Some (c_sv c', tr) /\ length sevs = length evs.
Proof.
  induction evs as [|e evs IH]; intros c c' tr H; cbn [crun] in H.
  - injection H as <- <-. by exists [].
  - destruct (cstep v cd c e) as [[c1 o1]|] eqn:Hs; [|discriminate].
    destruct (crun v cd c1 evs) as [[c2 o2]|] eqn:Hr; [|discriminate]. injection H as <- <-.
    destruct (IH _ _ _ Hr) as (sevs & Hrun & Hlen).
    assert (Hone : exists e0, step v (c_sv c) e0 = Some (c_sv c1, o1)).
    { destruct e as [e0|rid ts].
      - apply cstep_cev in Hs as (_ & sv' & Hst & ->). by exists e0.
      - apply cstep_cfin in Hs as (m & sv' & _ & _ & Hst & ->). eauto. }
    destruct Hone as (e0 & Hst). exists (e0 :: sevs). split; [|cbn; by rewrite Hlen].
    cbn [run]. by rewrite Hst, Hrun.
Qed.

(* ---- the session after a stop-free log extended by one operation ---- *)
Lemma after_nil : after [] = sess0.
Proof. reflexivity. Qed.

Lemma after_snoc ops o ts : no_stop ops -> is_stop o = false ->
  after (ops ++ [(o, ts)]) = (sstep (after ops) o ts).1.1 /\ (sstep (after ops) o ts).1.2 <> RHang.
Proof.
  intros Hns Ho.
  pose proof (run_refines ops sess0 WF_sess0 Hns) as (_ & _ & Hwf & Hnh & Hlen).
  pose proof (step_refines _ o ts Hwf Ho) as Hst.
  unfold after. rewrite (srun_app ops sess0 [(o, ts)] Hnh Hlen). cbn [srun].
  destruct (sstep (final sess0 (srun sess0 ops)) o ts) as [[s1 r] cs]. cbn in Hst.
  destruct Hst as (_ & Hr & _). split; [|exact Hr]. unfold final at 1.
  destruct r; try done; by rewrite last_snoc.
Qed.

(* ---- the invariant tying the two components ---- *)
Record CInv (c : cst) (tr : list output) : Prop := {
  ci_sv : sv_reach (c_sv c) tr;
  ci_ss : c_ss c = after (c_log c);
  ci_run : stops (c_sv c) = 0 -> no_stop (c_log c);
  ci_stopped : stops (c_sv c) <> 0 -> exists ops, no_stop ops /\ c_log c = ops ++ [(SStop, [])];
  ci_req : forall rid m, In (ODispatch rid m) tr -> is_Some (c_req c !! rid)
}.

Lemma CInv_init : CInv cinit [].
Proof.
  constructor; cbn.
  - constructor.
  - reflexivity.
  - intros _. constructor.
  - intros H. by destruct H.
  - intros ? ? [].
Qed.

(* a running handler means Stop has not run *)
Lemma running_not_stopped s tr rid h : sv_reach s tr -> hs s !! rid = Some h -> h_st h = HRun -> stops s = 0.
Proof.
  intros Hr Hh Hst. pose proof (reach_SInv _ _ Hr) as [_ _ Il].
  destruct (l_stop _ Il) as [H0|(_ & _ & Hg)]; [exact H0|]. rewrite (Hg _ _ Hh) in Hst. discriminate.
Qed.

Lemma stops_count s tr : sv_reach s tr -> stops s = N.of_nat (stop_count tr).
Proof. intros Hr. symmetry. apply (hi_stops _ _ (reach_Hist _ _ Hr)). Qed.

Lemma cstep_CInv cd c tr e c' o : CInv c tr -> cstep R cd c e = Some (c', o) -> CInv c' (tr ++ o).
Proof.
  intros [Hsv Hss Hrun Hstopped Hreq] H.
  destruct e as [e0|rid ts].
  - apply cstep_cev in H as (_ & sv' & Hst & ->).
    assert (Hsv' : sv_reach sv' (tr ++ o)) by (eapply ServeProofs.reach_step; eauto).
    pose proof (stops_count _ _ Hsv) as Hc. pose proof (stops_count _ _ Hsv') as Hc'.
    destruct (stop_once _ _ Hsv') as [Hle _]. rewrite stop_count_app in Hc', Hle.
    assert (Hreq' : forall rid m, In (ODispatch rid m) (tr ++ o) ->
              is_Some ((absorb (c_ss c, c_req c, c_log c) o).1.2 !! rid)).
    { intros rid m Hin. apply absorb_req. apply in_app_or in Hin as [Hin|Hin]; [right; eauto|left; eauto]. }
    destruct (stop_count o) as [|[|n]] eqn:Ho; [| |lia].
    + (* no Stop in this step: the session is untouched *)
      destruct (absorb_nostop o (c_ss c) (c_req c) (c_log c) (stop_count_zero _ Ho)) as [E1 E2].
      constructor; cbn [c_sv c_ss c_req c_log]; rewrite ?E1, ?E2; try done.
      * intros H0. apply Hrun. lia.
      * intros H0. apply Hstopped. lia.
    + (* Stop: it had not run before, the log was stop-free *)
      destruct (absorb_one o (c_ss c) (c_req c) (c_log c) Ho) as [E1 E2].
      assert (Hs0 : stops (c_sv c) = 0) by lia.
      pose proof (Hrun Hs0) as Hns.
      constructor; cbn [c_sv c_ss c_req c_log]; rewrite ?E1, ?E2; try done.
      * rewrite (after_stop _ _ Hns). cbn [sstep]. by rewrite Hss.
      * intros H0. lia.
      * intros _. eauto.
  - apply cstep_cfin in H as (m & sv' & Hm & Hnh & Hst & ->).
    destruct (finish_inv _ _ _ _ _ Hst) as (h & Hh & Hrun' & ->).
    assert (Hsv' : sv_reach sv' (tr ++ [OFin rid (cd_reply cd m (handle_op cd c m ts).1.2)]))
      by (eapply ServeProofs.reach_step; eauto).
    pose proof (running_not_stopped _ _ _ _ Hsv Hh Hrun') as Hs0.
    pose proof (stops_count _ _ Hsv) as Hc. pose proof (stops_count _ _ Hsv') as Hc'.
    rewrite stop_count_app in Hc'. cbn in Hc'.
    pose proof (Hrun Hs0) as Hns.
    cbn zeta. unfold absorb. cbn [fold_left absorb1 fst snd].
    constructor; cbn [c_sv c_ss c_req c_log]; try done.
    + unfold handle_op. destruct (req_op cd m) as [op0|] eqn:Hop; [|done].
      assert (Hop' : is_stop op0 = false).
      { unfold req_op in Hop. destruct (cd_op cd m) as [o1|]; [|discriminate].
        destruct (is_stop o1) eqn:E; [discriminate|]. by injection Hop as <-. }
      destruct (after_snoc _ op0 ts Hns Hop') as [E _]. rewrite <- Hss in E.
      destruct (sstep (c_ss c) op0 ts) as [[s1 r] cs]. cbn [fst snd] in *. by rewrite E.
    + intros _. unfold handle_op. destruct (req_op cd m) as [op0|] eqn:Hop; [|done].
      assert (Hop' : is_stop op0 = false).
      { unfold req_op in Hop. destruct (cd_op cd m) as [o1|]; [|discriminate].
        destruct (is_stop o1) eqn:E; [discriminate|]. by injection Hop as <-. }
      destruct (sstep (c_ss c) op0 ts) as [[s1 r] cs]. cbn [snd].
      apply Forall_app. split; [done|]. by constructor.
    + intros H0. lia.
    + intros rid0 m0 Hin. apply in_app_or in Hin as [Hin|[Hin|[]]]; [eauto|discriminate].
Qed.

Lemma crun_CInv_from cd evs : forall c tr0 c' tr, CInv c tr0 -> crun R cd c evs = Some (c', tr) -> CInv c' (tr0 ++ tr).
Proof.
  induction evs as [|e evs IH]; intros c tr0 c' tr Hi H; cbn [crun] in H.
  - injection H as <- <-. by rewrite app_nil_r.
  - destruct (cstep R cd c e) as [[c1 o1]|] eqn:Hs; [|discriminate].
    destruct (crun R cd c1 evs) as [[c2 o2]|] eqn:Hr; [|discriminate]. injection H as <- <-.
    rewrite app_assoc. eapply IH; [|exact Hr]. by eapply cstep_CInv.
Qed.

Lemma crun_CInv cd evs c tr : crun R cd cinit evs = Some (c, tr) -> CInv c tr.
Proof. intros H. change tr with ([] ++ tr). eapply crun_CInv_from; [apply CInv_init|exact H]. Qed.

(* ---- the session in the composed system is always a session of SessionClauses ---- *)
Lemma session_reach cd evs c tr : crun R cd cinit evs = Some (c, tr) -> ~ In VStop tr ->
  ss_reach (c_ss c) /\ no_stop (c_log c) /\ c_ss c = after (c_log c).
Proof.
  intros H Hn. destruct (crun_CInv _ _ _ _ H) as [Hsv Hss Hrun _ _].
  assert (Hs0 : stops (c_sv c) = 0).
  { rewrite (stops_count _ _ Hsv). destruct (stop_count tr) eqn:E; [done|].
    exfalso. apply Hn, stop_count_pos. lia. }
  split_and!; [|by apply Hrun|done]. exists (c_log c). split; [by apply Hrun|done].
Qed.

(* ---- MAIN: once Stop is in the trace ---- *)
Theorem released_after_stop cd evs c tr : crun R cd cinit evs = Some (c, tr) -> In VStop tr ->
  (* the session saw a sequential, stop-free history followed by exactly one Stop, which is its last operation *)
  (exists ops, no_stop ops /\ c_log c = ops ++ [(SStop, [])] /\ c_ss c = after (ops ++ [(SStop, [])]) /\
               bound_ever (c_ss c) = bound_ever (after ops)) /\
  (* (a) no fid remains bound: the table is empty *)
  refs (c_ss c) = ∅ /\ (forall f e, ~ B (c_ss c) f e) /\
  (* (b) every entry the session ever bound has been released, exactly once, and not used afterwards *)
  NoDup (rel (c_ss c)) /\ (forall e, e ∈ bound_ever (c_ss c) -> e ∈ rel (c_ss c)) /\ bad_use (c_ss c) = [] /\
  (* (d) Stop ran exactly once, after the loop returned, with no handler goroutine left *)
  stop_count tr = 1%nat /\ In OReturn tr /\ (forall rid h, hs (c_sv c) !! rid = Some h -> h_st h = HGone).
Proof.
  intros H Hin. destruct (crun_CInv _ _ _ _ H) as [Hsv Hss _ Hstopped _].
  pose proof (in_stop_count _ Hin) as Hpos.
  destruct (stop_once _ _ Hsv) as [Hle Hafter]. destruct (Hafter Hin) as [Hret Hgone].
  assert (Hs1 : stops (c_sv c) <> 0) by (rewrite (stops_count _ _ Hsv); lia).
  destruct (Hstopped Hs1) as (ops & Hns & Hlog).
  assert (Hr : ss_reach (after ops)) by (by exists ops).
  destruct (stop_G _ (reach_G _ Hr) (any_locked_WF _ (reach_WF _ Hr))) as (HG' & Hnb & Hbe & Hall & _ & Hemp & _ & _).
  rewrite Hlog in Hss. rewrite Hss, (after_stop _ _ Hns).
  split_and!; try done.
  - exists ops. split_and!; try done. by rewrite <- (after_stop _ [] Hns).
  - by apply G_nodup.
  - by apply G_bad.
  - lia.
Qed.

(* ---- (c) after Stop nothing touches the session any more ---- *)
Lemma cstep_frozen cd c tr e c' o : CInv c tr -> stops (c_sv c) <> 0 -> cstep R cd c e = Some (c', o) ->
  c_ss c' = c_ss c /\ c_log c' = c_log c /\ ~ In VStop o /\ (forall rid r, ~ In (OFin rid r) o) /\ stops (c_sv c') <> 0.
Proof.
  intros Hi Hs1 H. pose proof (cstep_CInv _ _ _ _ _ _ Hi H) as [Hsv' _ _ _ _].
  destruct Hi as [Hsv _ _ _ _].
  pose proof (stops_count _ _ Hsv) as Hc. pose proof (stops_count _ _ Hsv') as Hc'.
  destruct (stop_once _ _ Hsv') as [Hle _]. rewrite stop_count_app in Hc', Hle.
  destruct e as [e0|rid ts].
  - apply cstep_cev in H as (Hne & sv' & Hst & ->).
    assert (Ho : stop_count o = 0%nat) by lia.
    destruct (absorb_nostop o (c_ss c) (c_req c) (c_log c) (stop_count_zero _ Ho)) as [E1 E2].
    cbn [c_sv c_ss c_log] in *. split_and!; try done; [by apply stop_count_zero| |lia].
    intros rid r Hin.
    assert (Hq : stops (c_sv c) = 1).
    { pose proof (reach_SInv _ _ Hsv) as [_ _ Il]. destruct (l_stop _ Il) as [?|(? & _)]; [done|done]. }
    assert (Hrun1 : run R (c_sv c) [e0] = Some (sv', o)) by (cbn [run]; rewrite Hst; by rewrite app_nil_r).
    destruct (quiet_after_stop [e0] _ _ _ _ Hsv Hq Hrun1 _ Hin) as (_ & Hf & _). by apply (Hf rid r).
  - exfalso. apply cstep_cfin in H as (m & sv' & _ & _ & Hst & _).
    destruct (finish_inv _ _ _ _ _ Hst) as (h & Hh & Hrun' & _).
    by pose proof (running_not_stopped _ _ _ _ Hsv Hh Hrun').
Qed.

Theorem frozen_after_stop cd evs c tr : crun R cd cinit evs = Some (c, tr) -> In VStop tr ->
  forall later c' tr', crun R cd c later = Some (c', tr') ->
    c_ss c' = c_ss c /\ c_log c' = c_log c /\ ~ In VStop tr' /\ (forall rid r, ~ In (OFin rid r) tr').
Proof.
  intros H Hin. pose proof (crun_CInv _ _ _ _ H) as Hi.
  assert (Hs1 : stops (c_sv c) <> 0).
  { rewrite (stops_count _ _ (ci_sv _ _ Hi)). pose proof (in_stop_count _ Hin). lia. }
  clear H Hin. intros later. revert c tr Hi Hs1.
  induction later as [|e later IH]; intros c tr Hi Hs1 c' tr' H; cbn [crun] in H.
  - injection H as <- <-. cbn. split_and!; auto.
  - destruct (cstep R cd c e) as [[c1 o1]|] eqn:Hs; [|discriminate].
    destruct (crun R cd c1 later) as [[c2 o2]|] eqn:Hr; [|discriminate]. injection H as <- <-.
    destruct (cstep_frozen _ _ _ _ _ _ Hi Hs1 Hs) as (E1 & E2 & Hn1 & Hf1 & Hs1').
    destruct (IH _ _ (cstep_CInv _ _ _ _ _ _ Hi Hs) Hs1' _ _ Hr) as (E3 & E4 & Hn2 & Hf2).
    split_and!; [congruence|congruence| |].
    + intros Hin. apply in_app_or in Hin as [?|?]; tauto.
    + intros rid r Hin. apply in_app_or in Hin as [Hin|Hin]; [by apply (Hf1 rid r)|by apply (Hf2 rid r)].
Qed.

(* ---- the property's premise is not broken by the session: a running handler's Handle can return,
        whatever the file system answers (the Session call does not hang) ---- *)
Theorem handler_can_return cd evs c tr : crun R cd cinit evs = Some (c, tr) ->
  forall rid h, hs (c_sv c) !! rid = Some h -> h_st h = HRun ->
  forall ts, exists c' o, cstep R cd c (CFinish rid ts) = Some (c', o).
Proof.
  intros H rid h Hh Hst ts. destruct (crun_CInv _ _ _ _ H) as [Hsv Hss Hrun _ Hreq].
  destruct (hi_disp_inv _ _ (reach_Hist _ _ Hsv) _ _ Hh) as (m0 & Hd).
  destruct (Hreq _ _ Hd) as (m & Hm).
  pose proof (Hrun (running_not_stopped _ _ _ _ Hsv Hh Hst)) as Hns.
  cbn [cstep]. rewrite Hm.
  assert (Hnh : (handle_op cd c m ts).1.2 <> Some RHang).
  { unfold handle_op. destruct (req_op cd m) as [op0|] eqn:Hop; [|done].
    assert (Hop' : is_stop op0 = false).
    { unfold req_op in Hop. destruct (cd_op cd m) as [o1|]; [|discriminate].
      destruct (is_stop o1) eqn:E; [discriminate|]. by injection Hop as <-. }
    destruct (after_snoc _ op0 ts Hns Hop') as [_ E]. rewrite <- Hss in E.
    destruct (sstep (c_ss c) op0 ts) as [[s1 r] cs]. cbn in *. congruence. }
  destruct (handle_op cd c m ts) as [[ss1 res] lg1]. cbn [fst snd] in Hnh.
  assert (Hen : forall r, exists sv' o, step R (c_sv c) (EFinish rid r) = Some (sv', o)).
  { intros r. unfold step. rewrite Hh, Hst. eauto. }
  destruct (Hen (cd_reply cd m res)) as (sv' & o & Hstep).
  destruct res as [[n|e|]|]; try done; rewrite Hstep; unfold after_serve;
    destruct (absorb _ o) as [[ss rq] lg]; eauto.
Qed.
