(* Lemmas about Model/Session.v, part 2 (C13): the release bookkeeping.
   [G s] - every entry released at most once, a bound entry is not released,
   an entry is bound to at most one fid, every entry that was ever bound is
   either still bound or released, no file-system call was made on a released
   entry - is preserved by every operation, for every file-system script. *)
From stdpp Require Import gmap.
From Coq Require Import NArith ZArith Lia.
From P9 Require Import Model.Path Model.Session Model.FidSpec Proofs.SessionProofs.
Open Scope N_scope.

Definition B (s : sess) (f e : N) : Prop := ∃ sf d, refs s !! f = Some sf ∧ s_ent sf = Some (e, d).
Definition rel (s : sess) : list N := (released s).*1.

Record G (s : sess) : Prop := {
  G_nodup : NoDup (rel s);
  G_live : ∀ f e, B s f e → e ∉ rel s ∧ e ∈ bound_ever s;
  G_inj : ∀ f g e, B s f e → B s g e → f = g;
  G_rel_lt : ∀ e, e ∈ rel s → e < next s;
  G_ever : ∀ e, e ∈ bound_ever s → e < next s ∧ ((∃ f, B s f e) ∨ e ∈ rel s);
  G_bad : bad_use s = [];
  G_drop : ∀ e, (e, RcDrop) ∈ released s → e ∉ bound_ever s
}.

Lemma G_sess0 : G sess0.
Proof.
  constructor; unfold B, rel, sess0; cbn [refs released bound_ever bad_use next]; try done.
  - constructor.
  - intros f e (sf & d & H & _). by apply lookup_empty_Some in H.
  - intros f g e (sf & d & H & _). by apply lookup_empty_Some in H.
  - intros e H. by apply elem_of_nil in H.
  - intros e H. by apply elem_of_nil in H.
  - intros e H. by apply elem_of_nil in H.
Qed.

Lemma B_fun s f e1 e2 : B s f e1 → B s f e2 → e1 = e2.
Proof. intros (sf & d & H1 & H2) (sf' & d' & H1' & H2'). congruence. Qed.

Lemma G_lt s f e : G s → B s f e → e < next s.
Proof. intros HG HB. apply (G_live _ HG) in HB as [_ HB]. by apply (G_ever _ HG) in HB as [? _]. Qed.

(* ---- how the binding relation changes with the table ---- *)
Lemma B_refs_eq s s' : refs s' = refs s → ∀ f e, B s' f e ↔ B s f e.
Proof. unfold B. by intros ->. Qed.

Lemma B_insert s s' f sf e d :
  refs s' = <[f := sf]> (refs s) → s_ent sf = Some (e, d) →
  ∀ f' e', B s' f' e' ↔ (f' = f ∧ e' = e) ∨ (f' ≠ f ∧ B s f' e').
Proof.
  unfold B. intros -> He f' e'. destruct (decide (f' = f)) as [->|Hne].
  - rewrite lookup_insert. split.
    + intros (sf' & d' & [= <-] & H2). rewrite He in H2. injection H2 as <- <-. by left.
    + intros [[_ ->]|[? _]]; [|done]. eauto.
  - rewrite lookup_insert_ne by done. split; [by right|]. by intros [[? _]|[_ ?]].
Qed.

Lemma B_insert_none s s' f sf :
  refs s' = <[f := sf]> (refs s) → s_ent sf = None →
  ∀ f' e', B s' f' e' ↔ f' ≠ f ∧ B s f' e'.
Proof.
  unfold B. intros -> He f' e'. destruct (decide (f' = f)) as [->|Hne].
  - rewrite lookup_insert. split; [|by intros [? _]].
    intros (sf' & d' & [= <-] & H2). congruence.
  - rewrite lookup_insert_ne by done. split; [done|]. by intros [_ ?].
Qed.

Lemma B_delete s s' f :
  refs s' = delete f (refs s) → ∀ f' e', B s' f' e' ↔ f' ≠ f ∧ B s f' e'.
Proof.
  unfold B. intros -> f' e'. split.
  - intros (sf & d & H1 & H2). apply lookup_delete_Some in H1 as [? ?]. eauto 6.
  - intros [Hne (sf & d & H1 & H2)]. exists sf, d. by rewrite lookup_delete_ne.
Qed.

Lemma B_update s s' f sf sf' :
  refs s' = <[f := sf']> (refs s) → refs s !! f = Some sf → s_ent sf' = s_ent sf →
  ∀ f' e', B s' f' e' ↔ B s f' e'.
Proof.
  unfold B. intros -> Hl He f' e'. destruct (decide (f' = f)) as [->|Hne].
  - rewrite lookup_insert, Hl. split.
    + intros (x & d & [= <-] & H2). rewrite He in H2. eauto.
    + intros (x & d & [= <-] & H2). rewrite <- He in H2. eauto.
  - by rewrite lookup_insert_ne.
Qed.

(* ---- G is preserved by the three kinds of transition ---- *)
Lemma G_same s s' :
  (∀ f e, B s' f e ↔ B s f e) → next s ≤ next s' → bound_ever s' = bound_ever s →
  released s' = released s → bad_use s' = bad_use s → G s → G s'.
Proof.
  intros HB Hn Hbe Hr Hbad HG. destruct HG as [g1 g2 g3 g4 g5 g6 g7].
  constructor; unfold rel in *; rewrite ?Hr, ?Hbe, ?Hbad; try done.
  - intros f e H. apply HB in H. eauto.
  - intros f g e H1 H2. apply HB in H1, H2. eauto.
  - intros e H. apply g4 in H. lia.
  - intros e H. apply g5 in H as [? [[f H]|H]]; (split; [lia|]); [left|by right].
    exists f. by apply HB.
Qed.

Lemma G_bind s s' f old :
  (∀ f' e', B s' f' e' ↔ (f' = f ∧ e' = next s) ∨ (f' ≠ f ∧ B s f' e')) →
  next s' = next s + 1 → bound_ever s' = next s :: bound_ever s →
  released s' = released s ++ match old with Some ec => [ec] | None => [] end →
  match old with Some ec => B s f ec.1 ∧ ec.2 ≠ RcDrop | None => ∀ e, ¬ B s f e end →
  bad_use s' = bad_use s → G s → G s'.
Proof.
  intros HB Hn Hbe Hr Hold' Hbad HG. pose proof HG as [g1 g2 g3 g4 g5 g6 g7].
  assert (Hold : match old with Some ec => B s f ec.1 | None => ∀ e, ¬ B s f e end).
  { destruct old; [by destruct Hold'|done]. }
  assert (Hrel : rel s' = rel s ++ match old with Some ec => [ec.1] | None => [] end).
  { unfold rel. rewrite Hr, fmap_app. by destruct old. }
  assert (Hfresh : ∀ g, ¬ B s g (next s)).
  { intros g H. apply (G_lt _ _ _ HG) in H. lia. }
  constructor; rewrite ?Hrel, ?Hbe, ?Hbad, ?Hn; try done.
  - apply NoDup_app. split; [done|]. split.
    + intros e He. destruct old as [[e0 c]|]; [|by intros ?%elem_of_nil].
      intros ->%elem_of_list_singleton. by apply g2 in Hold as [? _].
    + destruct old; [apply NoDup_singleton|constructor].
  - intros f' e' [[-> ->]|[Hne H]]%HB.
    + split; [|by left]. intros [H|H]%elem_of_app.
      * apply g4 in H. lia.
      * destruct old as [[e0 c]|]; [|by apply elem_of_nil in H].
        apply elem_of_list_singleton in H. cbn in *. subst e0. by apply Hfresh in Hold.
    + pose proof (g2 _ _ H) as [Hnr Hbe']. split; [|by right].
      intros [?|H']%elem_of_app; [done|].
      destruct old as [[e0 c]|]; [|by apply elem_of_nil in H'].
      apply elem_of_list_singleton in H'. cbn in *. subst e0.
      by pose proof (g3 _ _ _ H Hold).
  - intros f1 f2 e H1 H2. apply HB in H1, H2.
    destruct H1 as [[-> ->]|[Hne1 H1]], H2 as [[-> He2]|[Hne2 H2]]; try done.
    + by apply Hfresh in H2.
    + subst e. by apply Hfresh in H1.
    + eauto.
  - intros e [H|H]%elem_of_app.
    + apply g4 in H. lia.
    + destruct old as [[e0 c]|]; [|by apply elem_of_nil in H].
      apply elem_of_list_singleton in H. cbn in *. subst e0.
      apply (G_lt _ _ _ HG) in Hold. lia.
  - intros e [->|H]%elem_of_cons.
    + split; [lia|]. left. exists f. apply HB. by left.
    + apply g5 in H as [Hlt [[f0 H]|H]]; (split; [lia|]).
      * destruct (decide (f0 = f)) as [->|Hne].
        -- destruct old as [[e0 c]|]; [|by apply Hold in H].
           cbn in Hold. rewrite (B_fun _ _ _ _ H Hold). right.
           apply elem_of_app. right. by apply elem_of_list_singleton.
        -- left. exists f0. apply HB. by right.
      * right. apply elem_of_app. by left.
  - rewrite Hr. intros y [H|H]%elem_of_app.
    + intros [->|H']%elem_of_cons; [|by apply g7 in H].
      assert (next s ∈ rel s) as ?%g4; [|lia].
      unfold rel. apply elem_of_list_fmap. by exists (next s, RcDrop).
    + destruct old as [[e0 c]|]; [|by apply elem_of_nil in H].
      apply elem_of_list_singleton in H. injection H as -> <-. by destruct Hold'.
Qed.

Lemma G_unbind s s' f e c (extra : bool) :
  c ≠ RcDrop →
  B s f e → (∀ f' e', B s' f' e' ↔ f' ≠ f ∧ B s f' e') →
  (if extra then released s' = released s ++ [(e, c); (next s, RcDrop)] ∧ next s' = next s + 1
   else released s' = released s ++ [(e, c)] ∧ next s' = next s) →
  bound_ever s' = bound_ever s → bad_use s' = bad_use s → G s → G s'.
Proof.
  intros Hc Hb HB Hr Hbe Hbad HG. pose proof HG as [g1 g2 g3 g4 g5 g6 g7].
  pose proof (G_lt _ _ _ HG Hb) as Hlt.
  pose proof (g2 _ _ Hb) as [Hnr _].
  assert (Hrel : ∃ x, rel s' = rel s ++ e :: x ∧ next s ≤ next s' ∧
                      (x = [] ∨ x = [next s] ∧ next s < next s')).
  { unfold rel. destruct extra; destruct Hr as [-> ->]; rewrite fmap_app; cbn.
    - exists [next s]. split_and!; [done|lia|right; split; [done|lia]].
    - exists []. split_and!; [done|lia|by left]. }
  destruct Hrel as (x & Hrel & Hnn & Hx).
  constructor; rewrite ?Hrel, ?Hbe, ?Hbad; try done.
  - apply NoDup_app. split; [done|]. split.
    + intros y Hy [->|Hy']%elem_of_cons; [done|].
      destruct Hx as [->|[-> _]]; [by apply elem_of_nil in Hy'|].
      apply elem_of_list_singleton in Hy'. subst y. apply g4 in Hy. lia.
    + destruct Hx as [->|[-> _]]; [apply NoDup_singleton|].
      apply NoDup_cons. split; [|apply NoDup_singleton].
      intros ->%elem_of_list_singleton. lia.
  - intros f' e' [Hne H]%HB. pose proof (g2 _ _ H) as [Hn' Hbe']. split; [|done].
    intros [?|[->|H']%elem_of_cons]%elem_of_app; [done|by pose proof (g3 _ _ _ H Hb)|].
    destruct Hx as [->|[-> _]]; [by apply elem_of_nil in H'|].
    apply elem_of_list_singleton in H'. subst e'. apply (G_lt _ _ _ HG) in H. lia.
  - intros f1 f2 e' [_ H1]%HB [_ H2]%HB. eauto.
  - intros y [H|[->|H]%elem_of_cons]%elem_of_app.
    + apply g4 in H. lia.
    + lia.
    + destruct Hx as [->|[-> ?]]; [by apply elem_of_nil in H|].
      apply elem_of_list_singleton in H. by subst y.
  - intros y H. apply g5 in H as [Hy [[f0 H]|H]]; (split; [lia|]).
    + destruct (decide (f0 = f)) as [->|Hne].
      * rewrite (B_fun _ _ _ _ H Hb). right. apply elem_of_app. right. by left.
      * left. exists f0. by apply HB.
    + right. apply elem_of_app. by left.
  - intros y Hy Hbe'. assert (Hylt : y < next s) by (by apply g5 in Hbe' as [? _]).
    destruct extra; destruct Hr as [Hr _]; rewrite Hr in Hy; apply elem_of_app in Hy as [Hy|Hy].
    + by apply g7 in Hy.
    + apply elem_of_cons in Hy as [[= -> <-]|Hy]; [done|].
      apply elem_of_list_singleton in Hy. injection Hy as ->. lia.
    + by apply g7 in Hy.
    + apply elem_of_list_singleton in Hy. by injection Hy as -> <-.
Qed.

(* a call on a live entry is not a use after release *)
Lemma g_use_noop e s : e ∉ rel s → g_use e s = s.
Proof. intros H. unfold g_use, is_released. by rewrite bool_decide_false. Qed.

Ltac gsame HG := eapply G_same; [..|exact HG]; sproj; try done; try lia; try (apply B_refs_eq; sproj).

Lemma get_ref_B s f sf e d :
  WF s → get_ref s f = GOk sf (e, d) →
  refs s !! f = Some sf ∧ s_ent sf = Some (e, d) ∧ B s f e ∧ s_locked sf = false ∧ f ≠ NOFID ∧
  ∀ h, s_file sf = Some h → f_own h = e ∧ f_dir h = d.
Proof.
  intros Hwf Hg. pose proof (get_ref_wf s f Hwf) as H. rewrite Hg in H.
  destruct H as (Hl & (Hlk & _ & e' & d' & He' & Hf) & He & _ & Hnf).
  rewrite He in He'. injection He' as <- <-.
  split_and!; try done. by exists sf, d.
Qed.

Lemma attach_G s fid afid ts : WF s → G s → G (do_attach s fid afid ts).1.1.
Proof.
  intros Hwf HG. unfold do_attach. destruct (decide (afid = NOFID)).
  - unfold new_ref. destruct (decide (fid = NOFID)); [by cbn|].
    destruct (refs s !! fid) eqn:Hl; [by cbn|].
    destruct (nn_err _).
    + cbn. gsame HG. by rewrite delete_insert.
    + unfold fresh. cbn. eapply (G_bind s _ fid None); [..|exact HG]; sproj; try done; try (by rewrite app_nil_r).
      * eapply B_insert; [sproj; by rewrite insert_insert|done].
      * intros e0 (sf & d & H & _). congruence.
  - destruct (get_ref s afid) as [| |sf [e d]]; [by cbn..|]. by destruct (s_file sf).
Qed.

Lemma del_G s fid rm ts : WF s → G s → G (do_del s fid rm ts).1.1.
Proof.
  intros Hwf HG. unfold do_del. destruct (refs s !! fid) as [sf|] eqn:Hl; [|by cbn].
  destruct (Hwf _ _ Hl) as (Hlk & Hnf & e & d & He & Hf). rewrite Hlk, He. cbn.
  assert (Hb : B s fid e) by (by exists sf, d).
  rewrite g_use_noop by (unfold rel; sproj; apply (G_live _ HG _ _ Hb)).
  eapply (G_unbind s _ fid e (if rm then RcRemove else RcClunk) false); [by destruct rm|exact Hb|..|exact HG]; sproj; try done.
  apply B_delete. by sproj.
Qed.

Lemma stat_G s fid w ts : WF s → G s → G (do_stat s fid w ts).1.1.
Proof.
  intros Hwf HG. unfold do_stat.
  destruct (get_ref s fid) as [| |sf [e d]] eqn:Hg; [by cbn..|].
  destruct (get_ref_B _ _ _ _ _ Hwf Hg) as (Hl & He & Hb & _).
  cbn. by rewrite g_use_noop by apply (G_live _ HG _ _ Hb).
Qed.

Lemma open_G s fid mode ts : WF s → G s → G (do_open s fid mode ts).1.1.
Proof.
  intros Hwf HG. unfold do_open.
  destruct (get_ref s fid) as [| |sf [e d]] eqn:Hg; [by cbn..|].
  destruct (get_ref_B _ _ _ _ _ Hwf Hg) as (Hl & He & Hb & _).
  destruct (s_file sf); [by cbn|].
  rewrite g_use_noop by apply (G_live _ HG _ _ Hb).
  destruct (nn_err _); [by cbn|]. cbn.
  eapply G_same; [..|exact HG]; sproj; try done; try (by rewrite app_nil_r).
  eapply B_update; [by sproj|exact Hl|]. by rewrite He.
Qed.

Lemma read_G s fid cnt ts : WF s → G s → G (do_read s fid cnt ts).1.1.
Proof.
  intros Hwf HG. unfold do_read.
  destruct (get_ref s fid) as [| |sf [e d]] eqn:Hg; [by cbn..|].
  destruct (get_ref_B _ _ _ _ _ Hwf Hg) as (Hl & He & Hb & _ & _ & Hf).
  destruct (s_file sf) as [h|] eqn:Hfile; [|by cbn].
  destruct (Hf h eq_refl) as [Hown _]. rewrite Hown.
  rewrite g_use_noop by apply (G_live _ HG _ _ Hb).
  destruct (_ =? 1); [by cbn|]. destruct (f_dir h); [|by cbn].
  destruct (f_done h || (cnt =? 0)); [by cbn|]. destruct (fs_err _); [by cbn|]. cbn.
  eapply G_same; [..|exact HG]; sproj; try done; try (by rewrite app_nil_r).
  eapply B_update; [by sproj|exact Hl|]. by rewrite He.
Qed.

Lemma write_G s fid ts : WF s → G s → G (do_write s fid ts).1.1.
Proof.
  intros Hwf HG. unfold do_write.
  destruct (get_ref s fid) as [| |sf [e d]] eqn:Hg; [by cbn..|].
  destruct (get_ref_B _ _ _ _ _ Hwf Hg) as (Hl & He & Hb & _ & _ & Hf).
  destruct (s_file sf) as [h|] eqn:Hfile; [|by cbn].
  destruct (Hf h eq_refl) as [Hown _]. rewrite Hown.
  rewrite g_use_noop by apply (G_live _ HG _ _ Hb).
  destruct (negb _); [by cbn|]. by destruct (f_dir h).
Qed.

Lemma walk_G s fid newfid names ts : WF s → G s → G (do_walk s fid newfid names ts).1.1.
Proof.
  intros Hwf HG. unfold do_walk.
  destruct (valid_path names <? 0)%Z; [by cbn|].
  destruct (get_ref s fid) as [| |sf [e d]] eqn:Hg; [by cbn..|].
  destruct (get_ref_B _ _ _ _ _ Hwf Hg) as (Hl & He & Hb & Hlk & Hnf & _).
  pose proof (G_live _ HG _ _ Hb) as [Hnr _].
  destruct (decide (newfid = fid)) as [->|Hne].
  - destruct names as [|nm names].
    + cbn. gsame HG. by eapply unlock_lock_refs.
    + destruct (negb d); [cbn; gsame HG; by eapply unlock_lock_refs|].
      rewrite g_use_noop by (unfold rel; by sproj).
      destruct (nn_err _); [cbn; gsame HG; by eapply unlock_lock_refs|].
      destruct (N.min _ _ <? _); [cbn; gsame HG; by eapply unlock_lock_refs|].
      unfold fresh. cbn [fst snd].
      rewrite g_use_noop by (unfold rel; by sproj).
      cbn. eapply (G_bind s _ fid (Some (e, RcWalk))); [..|exact HG]; sproj; try done; try (by rewrite app_nil_r).
      eapply B_insert; [sproj; by rewrite inplace_bind_refs|done].
  - unfold new_ref. destruct (decide (newfid = NOFID)).
    { cbn. gsame HG. by eapply unlock_lock_refs. }
    sproj. rewrite lookup_alter_ne by done.
    destruct (refs s !! newfid) as [sf'|] eqn:Hl'.
    { cbn. gsame HG. by eapply unlock_lock_refs. }
    assert (Hnb : ∀ e0, ¬ B s newfid e0) by (intros e0 (x & y & H & _); congruence).
    destruct names as [|nm names].
    + rewrite g_use_noop by (unfold rel; by sproj).
      destruct (nn_err _); [cbn; gsame HG; by eapply walk_cleanup_refs|].
      unfold fresh. cbn. eapply (G_bind s _ newfid None); [..|exact HG]; sproj; try done; try (by rewrite app_nil_r).
      eapply B_insert; [sproj; by erewrite walk_bind_refs|done].
    + destruct (negb d); [cbn; gsame HG; by eapply walk_cleanup_refs|].
      rewrite g_use_noop by (unfold rel; by sproj).
      destruct (nn_err _); [cbn; gsame HG; by eapply walk_cleanup_refs|].
      destruct (N.min _ _ <? _); [cbn; gsame HG; by eapply walk_cleanup_refs|].
      unfold fresh. cbn. eapply (G_bind s _ newfid None); [..|exact HG]; sproj; try done; try (by rewrite app_nil_r).
      eapply B_insert; [sproj; by erewrite walk_bind_refs|done].
Qed.

Lemma create_G s fid name mode ts : WF s → G s → G (do_create s fid name mode ts).1.1.
Proof.
  intros Hwf HG. unfold do_create.
  destruct (is_dot name || is_dotdot name); [by cbn|].
  destruct (get_ref s fid) as [| |sf [e d]] eqn:Hg; [by cbn..|].
  destruct (get_ref_B _ _ _ _ _ Hwf Hg) as (Hl & He & Hb & Hlk & Hnf & _).
  pose proof (G_live _ HG _ _ Hb) as [Hnr _].
  pose proof (G_lt _ _ _ HG Hb) as Hlt.
  destruct (negb d); [by cbn|].
  rewrite g_use_noop by done.
  destruct (_ =? 1); [by cbn|]. destruct (_ || _); [by cbn|].
  destruct (_ =? 0).
  - unfold fresh. cbn [fst snd].
    assert (Hfr : ∀ X, released X = released s ++ [(e, RcCreate)] → next s ∉ rel X).
    { intros X HX. unfold rel. rewrite HX, fmap_app. cbn. intros [H|H]%elem_of_app.
      - apply (G_rel_lt _ HG) in H. lia.
      - apply elem_of_list_singleton in H. lia. }
    destruct (t_dir (tokn ts 0)).
    + destruct (nn_err _).
      * cbn. rewrite !g_use_noop by (apply Hfr; by sproj).
        eapply (G_unbind s _ fid e RcCreate true); [done|exact Hb|..|exact HG]; sproj; try done.
        -- apply B_delete. by sproj.
        -- by rewrite <- app_assoc.
      * cbn. rewrite !g_use_noop by (apply Hfr; by sproj).
        eapply (G_bind s _ fid (Some (e, RcCreate))); [..|exact HG]; sproj; try done.
        eapply B_insert; [by sproj|done].
    + cbn. eapply (G_bind s _ fid (Some (e, RcCreate))); [..|exact HG]; sproj; try done.
      eapply B_insert; [by sproj|done].
  - unfold fresh. cbn. gsame HG.
Qed.

Lemma step_G s o ts : WF s → G s → is_stop o = false → G (sstep s o ts).1.1.
Proof.
  intros Hwf HG Hns. destruct o; cbn [sstep]; try discriminate.
  - unfold do_auth. by destruct (decide _).
  - by apply attach_G.
  - by apply walk_G.
  - by apply open_G.
  - by apply create_G.
  - by apply read_G.
  - by apply write_G.
  - by apply stat_G.
  - by apply stat_G.
  - by apply del_G.
  - by apply del_G.
Qed.

(* ---- Stop ---- *)
Lemma B_unreserve_unbound s f :
  (∀ e, ¬ B s f e) → ∀ f' e', B (unreserve f s) f' e' ↔ B s f' e'.
Proof.
  intros Hn f' e'. rewrite (B_delete s (unreserve f s) f eq_refl). split; [by intros [_ ?]|].
  intros H. split; [|done]. intros ->. by apply Hn in H.
Qed.

Lemma stop_fold l : ∀ s cs,
  G s → NoDup l.*1 → (∀ f sf, (f, sf) ∈ l → refs s !! f = Some sf) →
  let s' := (fold_left stop_one l (s, cs)).1 in
  G s' ∧ (∀ f e, B s' f e → f ∉ l.*1 ∧ B s f e) ∧
  bound_ever s' = bound_ever s ∧ next s' = next s ∧
  (∀ x, x ∈ released s' → x ∈ released s ∨ x.2 = RcStop) ∧
  (∀ k, refs s' !! k = if decide (k ∈ l.*1) then None else refs s !! k).
Proof.
  induction l as [|[f sf] l IH]; intros s cs HG Hnd Hin.
  - cbn. split_and!; try done.
    + intros f e H. split; [|done]. by intros ?%elem_of_nil.
    + intros x H. by left.
  - cbn [fmap list_fmap fst] in Hnd. apply NoDup_cons in Hnd as [Hf Hnd].
    assert (Hl : refs s !! f = Some sf) by (apply Hin; by left).
    cbn [fold_left].
    assert (Hkeys : ∀ (s1 : sess), refs s1 = delete f (refs s) →
              ∀ f' sf', (f', sf') ∈ l → refs s1 !! f' = Some sf').
    { intros s1 Hr f' sf' H. rewrite Hr, lookup_delete_ne.
      - apply Hin. by right.
      - intros <-. apply Hf. apply elem_of_list_fmap. by exists (f, sf'). }
    assert (Hlook : ∀ (s1 s' : sess), refs s1 = delete f (refs s) →
              (∀ k, refs s' !! k = if decide (k ∈ l.*1) then None else refs s1 !! k) →
              ∀ k, refs s' !! k = if decide (k ∈ ((f, sf) :: l).*1) then None else refs s !! k).
    { intros s1 s' Hr H k. rewrite H, Hr. cbn [fmap list_fmap fst].
      destruct (decide (k = f)) as [->|Hne].
      - rewrite lookup_delete. rewrite (decide_True (P := f ∈ f :: l.*1)) by (by left).
        by destruct (decide _).
      - rewrite lookup_delete_ne by done.
        destruct (decide (k ∈ l.*1)) as [Hk|Hk].
        + rewrite decide_True; [done|by right].
        + rewrite decide_False; [done|]. by intros [?|?]%elem_of_cons. }
    destruct (s_ent sf) as [[e d]|] eqn:He.
    + assert (Hb : B s f e) by (by exists sf, d).
      set (s1 := unreserve f (g_release e RcStop s)).
      assert (Hs : stop_one (s, cs) (f, sf) = (s1, cs ++ [CClunk e])).
      { unfold stop_one. rewrite He. by rewrite g_use_noop by apply (G_live _ HG _ _ Hb). }
      rewrite Hs.
      assert (HB1 : ∀ f' e', B s1 f' e' ↔ f' ≠ f ∧ B s f' e') by (by eapply B_delete).
      assert (HG1 : G s1).
      { eapply (G_unbind s s1 f e RcStop false); [done|exact Hb|exact HB1|..|exact HG]; subst s1; by sproj. }
      specialize (IH s1 (cs ++ [CClunk e]) HG1 Hnd (Hkeys s1 eq_refl)).
      destruct IH as (IH1 & IH2 & IH3 & IH4 & IH5 & IH6).
      split_and!; try done.
      * intros f' e' H. apply IH2 in H as [H1 H2]. apply HB1 in H2 as [H2 H3].
        split; [|done]. cbn. by intros [?|?]%elem_of_cons.
      * intros x H. apply IH5 in H as [H|H]; [|by right].
        subst s1. sproj. apply elem_of_app in H as [H|H]; [by left|].
        apply elem_of_list_singleton in H. subst x. by right.
      * apply (Hlook s1); [reflexivity|exact IH6].
    + assert (Hnb : ∀ e, ¬ B s f e) by (intros e (x & y & H1 & H2); congruence).
      assert (Hs : stop_one (s, cs) (f, sf) = (unreserve f s, cs)) by (unfold stop_one; by rewrite He).
      rewrite Hs.
      assert (HG1 : G (unreserve f s)).
      { eapply G_same; [..|exact HG]; sproj; try done. by apply B_unreserve_unbound. }
      specialize (IH (unreserve f s) cs HG1 Hnd (Hkeys (unreserve f s) eq_refl)).
      destruct IH as (IH1 & IH2 & IH3 & IH4 & IH5 & IH6).
      split_and!; try done.
      * intros f' e' H. apply IH2 in H as [H1 H2]. apply B_unreserve_unbound in H2; [|done].
        split; [|done]. cbn. intros [->|?]%elem_of_cons; [|done]. by apply Hnb in H2.
      * apply (Hlook (unreserve f s)); [reflexivity|exact IH6].
Qed.

Lemma any_locked_WF s : WF s → any_locked s = false.
Proof.
  intros Hwf. unfold any_locked. apply not_true_is_false. intros H.
  apply existsb_exists in H as ([f sf] & Hin & Hl). apply elem_of_list_In, elem_of_map_to_list in Hin.
  destruct (Hwf _ _ Hin) as (Hlk & _). cbn in Hl. congruence.
Qed.

(* Stop: every entry still bound is released, the table is emptied, Stop returns *)
Lemma stop_G s :
  G s → any_locked s = false →
  let s' := (do_stop s).1.1 in
  G s' ∧ (∀ f e, ¬ B s' f e) ∧ bound_ever s' = bound_ever s ∧
  (∀ e, e ∈ bound_ever s' → e ∈ rel s') ∧
  (∀ x, x ∈ released s' → x ∈ released s ∨ x.2 = RcStop) ∧
  refs s' = ∅ ∧ next s' = next s ∧ (do_stop s).1.2 = ROk 0.
Proof.
  intros HG Hnl. unfold do_stop. rewrite Hnl.
  pose proof (stop_fold (map_to_list (refs s)) s [] HG (NoDup_fst_map_to_list _)) as H.
  destruct H as (H1 & H2 & H3 & H4 & H5 & H6).
  { intros f sf H. by apply elem_of_map_to_list in H. }
  destruct (fold_left stop_one (map_to_list (refs s)) (s, [])) as [s' cs]. cbn in *.
  assert (Hemp : refs s' = ∅).
  { apply map_eq. intros k. rewrite H6, lookup_empty. destruct (decide _) as [|Hk]; [done|].
    destruct (refs s !! k) as [sf|] eqn:Hl; [|done]. exfalso. apply Hk.
    apply elem_of_list_fmap. exists (k, sf). split; [done|]. by apply elem_of_map_to_list. }
  assert (Hnb : ∀ f e, ¬ B s' f e).
  { intros f e (sf & d & Hl & _). rewrite Hemp in Hl. by apply lookup_empty_Some in Hl. }
  split_and!; try done.
  intros e H. apply (G_ever _ H1) in H as [_ [[f H]|H]]; [|done]. by apply Hnb in H.
Qed.

(* ---- whole runs ---- *)
Lemma run_G l : ∀ s, WF s → G s → no_stop l → G (final s (srun s l)) ∧ WF (final s (srun s l)).
Proof.
  induction l as [|[o ts] l IH]; intros s Hwf HG Hns; [done|].
  inversion Hns as [|? ? Ho Hl]; subst. cbn [fst] in Ho.
  pose proof (step_refines s o ts Hwf Ho) as Hst.
  pose proof (step_G s o ts Hwf HG Ho) as HG1.
  cbn [srun]. destruct (sstep s o ts) as [[s1 r] cs]. cbn in Hst, HG1.
  destruct Hst as (Hwf1 & Hnh & _).
  specialize (IH s1 Hwf1 HG1 Hl).
  assert (Hfin : final s ((s1, r, cs) :: srun s1 l) = final s1 (srun s1 l)).
  { unfold final. destruct (srun s1 l) as [|x tr] eqn:Htr; [done|].
    change (last ((s1, r, cs) :: x :: tr)) with (last (x :: tr)).
    destruct (last (x :: tr)) eqn:E; [done|]. by apply last_None in E. }
  destruct r; try done; by rewrite Hfin.
Qed.

(* a run that does not hang splits at any point *)
Lemma srun_app l1 : ∀ s l2,
  Forall (λ r, r ≠ RHang) (results (srun s l1)) → length (srun s l1) = length l1 →
  srun s (l1 ++ l2) = srun s l1 ++ srun (final s (srun s l1)) l2.
Proof.
  induction l1 as [|[o ts] l1 IH]; intros s l2 Hnh Hlen; [done|].
  cbn [srun app] in *. destruct (sstep s o ts) as [[s1 r] cs].
  destruct r.
  - cbn in Hnh, Hlen. apply Forall_cons in Hnh as [_ Hnh]. injection Hlen as Hlen.
    rewrite (IH s1 l2 Hnh Hlen). cbn. f_equal. f_equal.
    unfold final. destruct (srun s1 l1) as [|x tr] eqn:Htr; [done|].
    change (last ((s1, ROk n, cs) :: x :: tr)) with (last (x :: tr)).
    destruct (last (x :: tr)) eqn:E; [done|]. by apply last_None in E.
  - cbn in Hnh, Hlen. apply Forall_cons in Hnh as [_ Hnh]. injection Hlen as Hlen.
    rewrite (IH s1 l2 Hnh Hlen). cbn. f_equal. f_equal.
    unfold final. destruct (srun s1 l1) as [|x tr] eqn:Htr; [done|].
    change (last ((s1, RErr e, cs) :: x :: tr)) with (last (x :: tr)).
    destruct (last (x :: tr)) eqn:E; [done|]. by apply last_None in E.
  - cbn in Hnh. by apply Forall_cons in Hnh as [? _].
Qed.

(* ---- Stop while an operation is in flight: Stop waits, so it sees the operation's final state ---- *)
Lemma inflight_stop_G s o ts :
  WF s → G s → is_stop o = false →
  let s3 := (inflight_stop s o ts).2.1.1 in
  G s3 ∧ (∀ f' e, ¬ B s3 f' e) ∧ refs s3 = ∅ ∧
  bound_ever s3 = bound_ever (sstep s o ts).1.1 ∧
  (∀ e, e ∈ bound_ever s3 → e ∈ rel s3) ∧
  (inflight_stop s o ts).2.1.2 = ROk 0 ∧ (inflight_stop s o ts).1.1.2 ≠ RHang.
Proof.
  intros Hwf HG Ho.
  pose proof (step_G s o ts Hwf HG Ho) as HG1.
  pose proof (step_refines s o ts Hwf Ho) as Hst.
  unfold inflight_stop. destruct (sstep s o ts) as [[s1 r] cs]. cbn in HG1, Hst.
  destruct Hst as (Hwf1 & Hnh & _).
  pose proof (stop_G s1 HG1 (any_locked_WF _ Hwf1)) as (HG2 & Hnb & Hbe & Hall & _ & Hemp & _ & Hok).
  cbn. split_and!; done.
Qed.
