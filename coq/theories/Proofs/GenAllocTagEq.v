(* The model of the client's tag allocator (Model/Tags.v: [allocate], about which
   C05_alloc_sound / _complete / _first and, through [hstep], every C05 and C12
   theorem is stated) EQUALS the translation of the current source of
   transport.go's allocator (Gen/GenAllocTag.v, regenerated on every run) - for
   every map, every hint.  The Go map is seen through the list of its keys. *)
From stdpp Require Import nmap fin_maps.
From Coq Require Import List NArith ZArith Bool Lia ZifyBool ZifyN.
From P9 Require Import Base.GoRt Model.Tags Gen.GenAllocTag.
Import ListNotations.
Local Open Scope N_scope.

Definition keys (m : tagmap) : list Z := List.map (fun p => Z.of_N (fst p)) (map_to_list m).

Definition depleted_text : list N :=
  [116; 97; 103; 32; 112; 111; 111; 108; 32; 100; 101; 112; 108; 101; 116; 101; 100].
Definition unexpected_text : list N :=
  [97; 108; 108; 111; 99; 97; 116; 101; 84; 97; 103; 58; 32; 117; 110; 101; 120; 112; 101; 99; 116; 101; 100; 32;
   101; 114; 114; 111; 114].

Lemma keys_length : forall m : tagmap, go_len (keys m) = Z.of_nat (size m).
Proof. intros m. unfold go_len, keys. rewrite List.map_length. reflexivity. Qed.

Lemma keys_has : forall (m : tagmap) k,
  go_map_has (keys m) (Z.of_N k) = match m !! k with Some _ => true | None => false end.
Proof.
  intros m k. unfold go_map_has, keys. destruct (m !! k) as [c|] eqn:E.
  - apply existsb_exists. exists (Z.of_N k). split; [|apply Z.eqb_refl].
    apply in_map_iff. exists (k, c). split; [reflexivity|].
    apply elem_of_list_In, elem_of_map_to_list. exact E.
  - apply not_true_is_false. intros H. apply existsb_exists in H. destruct H as [x [Hin Heq]].
    apply in_map_iff in Hin. destruct Hin as [[k' c] [Hx Hin]].
    apply elem_of_list_In, elem_of_map_to_list in Hin. apply Z.eqb_eq in Heq. cbn [fst] in Hx.
    assert (k' = k) by lia. subst k'. rewrite E in Hin. discriminate Hin.
Qed.

Lemma keys_has_z : forall (m : tagmap) z, (0 <= z)%Z ->
  go_map_has (keys m) z = match m !! Z.to_N z with Some _ => true | None => false end.
Proof. intros m z Hz. rewrite <- (Z2N.id z Hz) at 1. apply keys_has. Qed.

Lemma wrap_next : forall h, h < 65536 ->
  go_wrap 16 (Z.of_N h + 1) = Z.of_N ((h + 1) mod 65536).
Proof. intros h Hh. unfold go_wrap. change (Z.pow 2 16) with 65536%Z. lia. Qed.

Lemma wrap_next' : forall h, h < 65536 ->
  go_wrap 16 (1 + Z.of_N h) = Z.of_N ((h + 1) mod 65536).
Proof. intros h Hh. rewrite Z.add_comm. apply wrap_next. exact Hh. Qed.

Lemma next_tag_lt : forall h, next_tag h < 65536.
Proof. intros h. unfold next_tag, NOTAG. destruct (N.eqb_spec ((h + 1) mod 65536) 65535); lia. Qed.

(* one pass of the loop body = next_tag, then the probe.  Written against the meaning of the generated
   body, not its layout: the increment is rewritten to the model's form, the reserved-tag test is decided
   in both orientations and polarities, the probe is read through [keys_has_z] whatever the variable
   holding the candidate is called or however the two tests are nested. *)
Lemma alloc_body : forall (m : tagmap) i h, h < 65536 ->
  gen_allocateTag_loop1 (keys m) i (Z.of_N h) =
    match m !! next_tag h with
    | None => Ret (Z.of_N (next_tag h), None)
    | Some _ => Nxt (Z.of_N (next_tag h))
    end.
Proof.
  intros m i h Hh. unfold gen_allocateTag_loop1. cbv zeta.
  rewrite ?(wrap_next h Hh), ?(wrap_next' h Hh).
  unfold next_tag, NOTAG. set (x := (h + 1) mod 65536) in *.
  assert (Hx : x < 65536) by (subst x; lia).
  destruct (N.eqb_spec x 65535) as [He|He].
  - assert (Hz : Z.eqb (Z.of_N x) 65535 = true) by lia.
    assert (Hz' : Z.eqb 65535 (Z.of_N x) = true) by lia.
    rewrite ?Hz, ?Hz'. cbn [negb]. cbv iota.
    rewrite ?keys_has_z by lia. change (Z.to_N 0) with 0. rewrite ?N2Z.id.
    change (Z.of_N 0) with 0%Z.
    destruct (m !! 0); cbn [negb]; reflexivity.
  - assert (Hz : Z.eqb (Z.of_N x) 65535 = false) by lia.
    assert (Hz' : Z.eqb 65535 (Z.of_N x) = false) by lia.
    rewrite ?Hz, ?Hz'. cbn [negb]. cbv iota.
    rewrite ?keys_has_z by lia. rewrite ?N2Z.id.
    destruct (m !! x); cbn [negb]; reflexivity.
Qed.

Lemma alloc_loop_eq : forall (m : tagmap) fuel i h, h < 65536 ->
  match alloc_loop fuel m h with
  | Some t => go_count_from fuel i (gen_allocateTag_loop1 (keys m)) (Z.of_N h) = Ret (Z.of_N t, None)
  | None => exists h', go_count_from fuel i (gen_allocateTag_loop1 (keys m)) (Z.of_N h) = Nxt h'
  end.
Proof.
  intros m fuel. induction fuel as [|f IH]; intros i h Hh.
  - cbn [alloc_loop go_count_from]. eexists. reflexivity.
  - cbn [alloc_loop go_count_from]. rewrite (alloc_body m i h Hh). cbv zeta.
    destruct (m !! next_tag h); [|reflexivity].
    apply IH. apply next_tag_lt.
Qed.

Theorem gen_allocateTag_eq : forall (m : tagmap) hint, hint < 65536 ->
  gen_allocateTag (keys m) (Z.of_N hint) =
    match allocate m hint with
    | inl t => Ret (Z.of_N t, None)
    | inr EDepleted => Ret (0%Z, Some depleted_text)
    | inr _ => Ret (0%Z, Some unexpected_text)
    end.
Proof.
  intros m hint Hh. unfold gen_allocateTag, allocate. cbv zeta. rewrite keys_length.
  destruct (N.leb_spec 65535 (N.of_nat (size m))) as [Hs|Hs].
  - destruct (Z.leb_spec 65535 (Z.of_nat (size m))); [reflexivity | lia].
  - destruct (Z.leb_spec 65535 (Z.of_nat (size m))); [lia|].
    pose proof (alloc_loop_eq m pool_fuel 0%Z hint Hh) as Hloop.
    change (Z.to_nat 65535) with pool_fuel.
    destruct (alloc_loop pool_fuel m hint) as [t|].
    + rewrite Hloop. reflexivity.
    + destruct Hloop as [h' Hloop]. rewrite Hloop. reflexivity.
Qed.
