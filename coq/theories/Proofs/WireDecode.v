(* Decoding arbitrary bytes (C04): never the Panic/Hang outcome; decoded values
   are well-formed, so they re-encode and decode to themselves; the allocation
   the decoder requests is linear in the input. *)
From Coq Require Import List NArith ZArith Lia Bool.
From Coq Require Import ZifyBool ZifyNat ZifyN.
From P9 Require Import Base.Res Base.Bytes Model.WireTypes Model.Spec9P Model.Wire Proofs.BytesProofs Proofs.WireProofs.
Import ListNotations.
Open Scope N_scope.

Arguments N.mul : simpl never.
Arguments N.add : simpl never.
Arguments N.pow : simpl never.
Arguments N.modulo : simpl never.
Arguments N.div : simpl never.
Arguments N.ltb : simpl never.
Arguments N.eqb : simpl never.

(* ---------- no panic ---------- *)
Definition calm {A} (r : res A) : Prop := match r with Panic | Hang => False | _ => True end.

Lemma calm_bind {A B} (r : res A) (f : A -> res B) : calm r -> (forall a, calm (f a)) -> calm (bind r f).
Proof. destruct r; cbn [bind calm]; auto. Qed.

Lemma calm_rd n bs : calm (rd n bs).
Proof. unfold rd. destruct (n =? 0); [exact I|]. destruct bs; [exact I|]. destruct (shorter _ _); exact I. Qed.

Lemma calm_rd_int w bs : calm (rd_int w bs).
Proof. unfold rd_int. apply calm_bind; [apply calm_rd|]. intros; exact I. Qed.

Lemma calm_need n bs : calm (need n bs).
Proof. unfold need. destruct (shorter _ _); exact I. Qed.

Ltac calm_tac0 :=
  repeat first
    [ exact I
    | apply calm_rd | apply calm_rd_int | apply calm_need
    | apply calm_bind; [|intros] ].

Lemma calm_dec_str_ bs : calm (dec_str bs).
Proof. unfold dec_str. calm_tac0. Qed.

Lemma calm_dec_qid_ bs : calm (dec_qid bs).
Proof. unfold dec_qid. calm_tac0. Qed.

Lemma calm_dec_many {A} (dec1 : bytes -> res (A * bytes)) : (forall bs, calm (dec1 bs)) -> forall n bs, calm (dec_many dec1 n bs).
Proof.
  intros H n; induction n as [|n IH]; intros bs; cbn [dec_many]; [exact I|].
  apply calm_bind; [apply H|]. intros a. apply calm_bind; [apply IH|]. intros; exact I.
Qed.

Ltac calm_tac :=
  repeat first
    [ exact I
    | apply calm_rd | apply calm_rd_int | apply calm_need
    | apply calm_dec_str_ | apply calm_dec_qid_
    | apply calm_bind; [|intros] ].

Lemma calm_dec_fval k bs : calm (dec_fval k bs).
Proof.
  destruct k; cbn [dec_fval]; calm_tac;
    try (apply calm_dec_many; intros; first [apply calm_dec_str_ | apply calm_dec_qid_]).
Qed.

Lemma calm_dec_fvals ks : forall bs, calm (dec_fvals ks bs).
Proof.
  induction ks as [|k ks IH]; intros bs; cbn [dec_fvals]; [exact I|].
  apply calm_bind; [apply calm_dec_fval|]. intros a. apply calm_bind; [apply IH|]. intros; exact I.
Qed.

Lemma calm_dec_dir bs : calm (dec_dir bs).
Proof. unfold dec_dir. calm_tac; try apply calm_dec_fvals. Qed.

Lemma calm_dec_val k bs : calm (dec_val k bs).
Proof.
  destruct k; cbn [dec_val]; (apply calm_bind; [first [apply calm_dec_fval | apply calm_dec_dir]|intros; exact I]).
Qed.

Lemma calm_dec_vals ks : forall bs, calm (dec_vals ks bs).
Proof.
  induction ks as [|k ks IH]; intros bs; cbn [dec_vals]; [exact I|].
  apply calm_bind; [apply calm_dec_val|]. intros a. apply calm_bind; [apply IH|]. intros; exact I.
Qed.

Lemma calm_dec_msg ty ks bs : calm (dec_msg ty ks bs).
Proof.
  unfold dec_msg. destruct (ty =? T_Rstat).
  - apply calm_bind; [apply calm_rd_int|]. intros. apply calm_dec_vals.
  - destruct (ty =? T_Twstat); [|apply calm_dec_vals].
    destruct ks as [|k0 ks]; [exact I|].
    apply calm_bind; [apply calm_dec_val|]. intros. apply calm_bind; [apply calm_rd_int|]. intros.
    apply calm_bind; [apply calm_dec_vals|]. intros; exact I.
Qed.

Theorem calm_dec_fcall bs : calm (dec_fcall bs).
Proof.
  unfold dec_fcall. apply calm_bind; [apply calm_rd_int|]. intros t.
  apply calm_bind; [apply calm_rd_int|]. intros g.
  destruct (kinds_of_type (fst t)); [|exact I].
  apply calm_bind; [apply calm_dec_msg|]. intros; exact I.
Qed.

Theorem calm_decode_dir bs : calm (decode_dir bs).
Proof. unfold decode_dir. calm_tac; try apply calm_dec_dir. Qed.

(* ---------- inversion: what a successful decode tells about the input ---------- *)
Definition allb (bs : bytes) : Prop := Forall (fun b => b < 256) bs.

Lemma allb_app a b : allb (a ++ b) <-> allb a /\ allb b.
Proof. unfold allb. apply Forall_app. Qed.

Lemma wf_bytes_allb s : wf_bytes s = true <-> allb s.
Proof.
  unfold wf_bytes, allb. rewrite forallb_Forall. split; intros H; eapply Forall_impl; try exact H; intros a Ha; cbn beta in *.
  - apply N.ltb_lt; exact Ha.
  - apply N.ltb_lt; exact Ha.
Qed.

Lemma le_unle a : allb a -> le (length a) (unle a) = a.
Proof.
  induction a as [|b r IH]; intros H; [reflexivity|].
  inversion H as [|? ? Hb Hr]; subst. cbn [length le unle].
  assert (E1 : (b + 256 * unle r) mod 256 = b).
  { rewrite (N.mul_comm 256), N.mod_add by lia. apply N.mod_small; exact Hb. }
  assert (E2 : (b + 256 * unle r) / 256 = unle r).
  { rewrite (N.mul_comm 256), N.div_add by lia. rewrite (N.div_small b 256) by exact Hb. lia. }
  rewrite E1, E2, IH by exact Hr. reflexivity.
Qed.

Lemma unle_lt a : allb a -> unle a < 256 ^ len a.
Proof.
  induction a as [|b r IH]; intros H.
  - cbn. reflexivity.
  - inversion H as [|? ? Hb Hr]; subst. specialize (IH Hr). cbn [unle]. rewrite len_cons.
    rewrite N.add_1_l, N.pow_succ_r'. lia.
Qed.

Lemma bind_ok {A B} (r : res A) (f : A -> res B) y : bind r f = Ok y -> exists a, r = Ok a /\ f a = Ok y.
Proof. destruct r; cbn [bind]; try discriminate. eauto. Qed.

Lemma rd_inv n bs a r : rd n bs = Ok (a, r) -> bs = a ++ r /\ len a = n.
Proof.
  unfold rd. destruct (N.eqb_spec n 0) as [->|Hn].
  - intros H; injection H as <- <-. split; reflexivity.
  - destruct bs as [|b bs']; [discriminate|]. rewrite shorter_spec.
    destruct (N.ltb_spec (len (b :: bs')) n) as [Hlt|Hge]; [discriminate|].
    intros H; injection H as <- <-. split; [symmetry; apply take_drop|apply len_take; exact Hge].
Qed.

Lemma rd_int_inv w bs x r : allb bs -> rd_int w bs = Ok (x, r) ->
  bs = le (N.to_nat w) x ++ r /\ x < 2 ^ (8 * w) /\ allb r.
Proof.
  intros Hb H. unfold rd_int in H. apply bind_ok in H as ([a r'] & H1 & H2). cbn [fst snd] in H2.
  injection H2 as <- <-. apply rd_inv in H1 as [-> Hl]. apply allb_app in Hb as [Ha Hr].
  split; [|split; [|exact Hr]].
  - f_equal. rewrite <- Hl. unfold len. rewrite Nat2N.id. symmetry. apply le_unle; exact Ha.
  - rewrite <- pow256, <- Hl. apply unle_lt; exact Ha.
Qed.

Lemma need_inv n bs : need n bs = Ok tt -> n <= len bs.
Proof. unfold need. rewrite shorter_spec. destruct (N.ltb_spec (len bs) n); [discriminate|auto]. Qed.

Lemma need_ok_inv n bs u : need n bs = Ok u -> n <= len bs.
Proof. destruct u. apply need_inv. Qed.

Lemma dec_str_inv bs s r : allb bs -> dec_str bs = Ok (s, r) ->
  bs = enc_str s ++ r /\ wf_str s = true /\ allb r.
Proof.
  intros Hb H. unfold dec_str in H.
  apply bind_ok in H as ([l r1] & H1 & H). cbn [fst snd] in H.
  apply bind_ok in H as (u & _ & H).
  apply rd_int_inv in H1 as (-> & Hl & Hr1); [|exact Hb].
  apply rd_inv in H as [-> Hlen]. apply allb_app in Hr1 as [Hs Hr].
  split; [|split; [|exact Hr]].
  - unfold enc_str. rewrite <- app_assoc, Hlen. reflexivity.
  - unfold wf_str. apply andb_true_iff. split; [apply N.ltb_lt; rewrite Hlen; exact Hl|apply wf_bytes_allb; exact Hs].
Qed.

Lemma dec_qid_inv bs q r : allb bs -> dec_qid bs = Ok (q, r) ->
  bs = enc_qid q ++ r /\ wf_qid q = true /\ allb r.
Proof.
  intros Hb H. unfold dec_qid in H.
  apply bind_ok in H as ([t r1] & H1 & H). cbn [fst snd] in H.
  apply bind_ok in H as ([v r2] & H2 & H). cbn [fst snd] in H.
  apply bind_ok in H as ([p r3] & H3 & H). cbn [fst snd] in H.
  injection H as <- <-.
  apply rd_int_inv in H1 as (-> & Ht & Hr1); [|exact Hb].
  apply rd_int_inv in H2 as (-> & Hv & Hr2); [|exact Hr1].
  apply rd_int_inv in H3 as (-> & Hp & Hr3); [|exact Hr2].
  split; [|split; [|exact Hr3]].
  - unfold enc_qid. cbn [q_type q_vers q_path]. rewrite <- !app_assoc. reflexivity.
  - apply wf_qid_spec. unfold wfq. cbn [q_type q_vers q_path]. repeat split; assumption.
Qed.

Lemma dec_many_inv {A} (dec1 : bytes -> res (A * bytes)) (enc1 : A -> bytes) (P : A -> Prop) :
  (forall bs x r, allb bs -> dec1 bs = Ok (x, r) -> bs = enc1 x ++ r /\ P x /\ allb r) ->
  forall n bs l r, allb bs -> dec_many dec1 n bs = Ok (l, r) ->
  bs = concat (map enc1 l) ++ r /\ Forall P l /\ length l = n /\ allb r.
Proof.
  intros Hd n; induction n as [|n IH]; intros bs l r Hb H; cbn [dec_many] in H.
  - injection H as <- <-. repeat split; auto.
  - apply bind_ok in H as ([x r1] & H1 & H). cbn [fst snd] in H.
    apply bind_ok in H as ([l' r2] & H2 & H). cbn [fst snd] in H. injection H as <- <-.
    apply Hd in H1 as (-> & Hx & Hr1); [|exact Hb].
    apply IH in H2 as (-> & Hl & Hn & Hr2); [|exact Hr1].
    cbn [map concat length]. rewrite <- app_assoc. repeat split; auto.
Qed.

Definition kind_ok (k : kind) : Prop :=
  match k with
  | KInt w => w = 1 \/ w = 2 \/ w = 4 \/ w = 8
  | KDir => False
  | _ => True
  end.

Lemma dec_fval_inv k bs v r : kind_ok k -> allb bs -> dec_fval k bs = Ok (v, r) ->
  bs = enc_fval v ++ r /\ wf_fval v = true /\ kind_of_fval v = k /\ allb r.
Proof.
  intros Hk Hb H. destruct k; cbn [dec_fval] in H; cbn [kind_ok] in Hk.
  - apply bind_ok in H as ([x r1] & H1 & H). cbn [fst snd] in H. injection H as <- <-.
    apply rd_int_inv in H1 as (-> & Hx & Hr); [|exact Hb].
    repeat split; auto. cbn [wf_fval]. apply andb_true_iff. split; [|apply N.ltb_lt; exact Hx].
    destruct Hk as [-> | [-> | [-> | ->]]]; reflexivity.
  - apply bind_ok in H as ([s r1] & H1 & H). cbn [fst snd] in H. injection H as <- <-.
    apply dec_str_inv in H1 as (-> & Hs & Hr); [|exact Hb]. repeat split; auto.
  - apply bind_ok in H as ([l r1] & H1 & H). cbn [fst snd] in H.
    apply bind_ok in H as (u & _ & H).
    apply bind_ok in H as ([d r2] & H2 & H). cbn [fst snd] in H. injection H as <- <-.
    apply rd_int_inv in H1 as (-> & Hl & Hr1); [|exact Hb].
    apply rd_inv in H2 as [-> Hlen]. apply allb_app in Hr1 as [Hd Hr].
    repeat split; auto.
    + cbn [enc_fval]. rewrite <- app_assoc, Hlen. reflexivity.
    + cbn [wf_fval]. apply andb_true_iff. split; [apply N.ltb_lt; rewrite Hlen; exact Hl|apply wf_bytes_allb; exact Hd].
  - apply bind_ok in H as ([c r1] & H1 & H). cbn [fst snd] in H.
    apply bind_ok in H as (u & _ & H).
    apply bind_ok in H as ([l r2] & H2 & H). cbn [fst snd] in H. injection H as <- <-.
    apply rd_int_inv in H1 as (-> & Hc & Hr1); [|exact Hb].
    apply (dec_many_inv dec_str enc_str (fun s => wf_str s = true)) in H2 as (-> & Hl & Hn & Hr2); [| |exact Hr1].
    2:{ intros bs0 x r0 Hb0 H0. apply dec_str_inv in H0 as (? & ? & ?); auto. }
    assert (Hlen : len l = c) by (unfold len; rewrite Hn; apply N2Nat.id).
    repeat split; auto.
    + cbn [enc_fval]. rewrite <- (app_assoc (le 2 _)). do 2 f_equal. symmetry; exact Hlen.
    + cbn [wf_fval]. apply andb_true_iff. split; [apply N.ltb_lt; change (len l) with (N.of_nat (length l)); rewrite Hn, N2Nat.id; exact Hc|apply forallb_Forall; exact Hl].
  - apply bind_ok in H as ([q r1] & H1 & H). cbn [fst snd] in H. injection H as <- <-.
    apply dec_qid_inv in H1 as (-> & Hq & Hr); [|exact Hb]. repeat split; auto.
  - apply bind_ok in H as ([c r1] & H1 & H). cbn [fst snd] in H.
    apply bind_ok in H as (u & _ & H).
    apply bind_ok in H as ([l r2] & H2 & H). cbn [fst snd] in H. injection H as <- <-.
    apply rd_int_inv in H1 as (-> & Hc & Hr1); [|exact Hb].
    apply (dec_many_inv dec_qid enc_qid (fun q => wf_qid q = true)) in H2 as (-> & Hl & Hn & Hr2); [| |exact Hr1].
    2:{ intros bs0 x r0 Hb0 H0. apply dec_qid_inv in H0 as (? & ? & ?); auto. }
    assert (Hlen : len l = c) by (unfold len; rewrite Hn; apply N2Nat.id).
    repeat split; auto.
    + cbn [enc_fval]. rewrite <- (app_assoc (le 2 _)). do 2 f_equal. symmetry; exact Hlen.
    + cbn [wf_fval]. apply andb_true_iff. split; [apply N.ltb_lt; change (len l) with (N.of_nat (length l)); rewrite Hn, N2Nat.id; exact Hc|apply forallb_Forall; exact Hl].
  - apply bind_ok in H as ([x r1] & H1 & H). cbn [fst snd] in H. injection H as <- <-.
    apply rd_int_inv in H1 as (-> & Hx & Hr); [|exact Hb].
    change (2 ^ (8 * 4)) with 4294967296 in Hx.
    repeat split; auto.
    + cbn [enc_fval]. rewrite Z.mod_small by lia. rewrite N2Z.id. reflexivity.
    + cbn [wf_fval]. apply andb_true_iff. split; [apply Z.leb_le; lia|apply Z.ltb_lt; lia].
  - contradiction.
Qed.

Lemma kind_eqb_refl k : kind_eqb k k = true.
Proof. destruct k; cbn; auto. apply N.eqb_refl. Qed.

Lemma dec_fvals_inv ks : forall bs fs r, Forall kind_ok ks -> allb bs -> dec_fvals ks bs = Ok (fs, r) ->
  bs = enc_fvals fs ++ r /\ kinds_match_f ks fs = true /\ forallb wf_fval fs = true /\ allb r.
Proof.
  induction ks as [|k ks IH]; intros bs fs r Hk Hb H; cbn [dec_fvals] in H.
  - injection H as <- <-. repeat split; auto.
  - inversion Hk as [|? ? Hk1 Hk2]; subst.
    apply bind_ok in H as ([v r1] & H1 & H). cbn [fst snd] in H.
    apply bind_ok in H as ([fs' r2] & H2 & H). cbn [fst snd] in H. injection H as <- <-.
    apply dec_fval_inv in H1 as (-> & Hw & Hkv & Hr1); [|exact Hk1|exact Hb].
    apply IH in H2 as (-> & Hm & Hws & Hr2); [|exact Hk2|exact Hr1].
    repeat split; auto.
    + unfold enc_fvals. cbn [map concat]. rewrite <- app_assoc. reflexivity.
    + cbn [kinds_match_f]. rewrite <- Hkv, kind_eqb_refl, Hm. reflexivity.
    + cbn [forallb]. rewrite Hw, Hws. reflexivity.
Qed.

Lemma dir_kinds_ok : Forall kind_ok (map snd spec_dir_fields).
Proof. cbn [map snd spec_dir_fields]. repeat (constructor; [cbn [kind_ok]; auto 6|]). constructor. Qed.

Lemma dec_dir_inv bs fs r : allb bs -> dec_dir bs = Ok (fs, r) ->
  wf_dir fs = true /\ allb r /\ len (enc_dir fs) + len r <= len bs.
Proof.
  intros Hb H. unfold dec_dir in H.
  apply bind_ok in H as ([l r1] & H1 & H). cbn [fst snd] in H.
  apply bind_ok in H as (u & _ & H).
  apply bind_ok in H as ([b r2] & H2 & H). cbn [fst snd] in H.
  apply bind_ok in H as ([fs' left] & H3 & H). cbn [fst snd] in H. injection H as <- <-.
  apply rd_int_inv in H1 as (-> & Hl & Hr1); [|exact Hb].
  apply rd_inv in H2 as [-> Hlen]. apply allb_app in Hr1 as [Hbb Hr].
  apply dec_fvals_inv in H3 as (-> & Hm & Hw & _); [|exact dir_kinds_ok|exact Hbb].
  rewrite len_app in Hlen. change (2 ^ (8 * 2)) with M16 in Hl.
  split; [|split; [exact Hr|]].
  - unfold wf_dir. rewrite Hm, Hw. cbn [andb]. apply N.ltb_lt. lia.
  - rewrite len_enc_dir, !len_app, len_le. lia.
Qed.

Definition kind_okv (k : kind) : Prop := match k with KDir => True | _ => kind_ok k end.

Lemma dec_val_inv k bs v r : kind_okv k -> allb bs -> dec_val k bs = Ok (v, r) ->
  wf_val v = true /\ kind_of v = k /\ allb r /\ len (enc_val v) + len r <= len bs.
Proof.
  intros Hk Hb H.
  assert (Hflat : forall k', k' = k -> k <> KDir ->
            (x <- dec_fval k bs ;; Ok (VF (fst x), snd x)) = Ok (v, r) ->
            wf_val v = true /\ kind_of v = k /\ allb r /\ len (enc_val v) + len r <= len bs).
  { intros k' _ Hnd H'. apply bind_ok in H' as ([f r1] & H1 & H'). cbn [fst snd] in H'. injection H' as <- <-.
    apply dec_fval_inv in H1 as (-> & Hw & Hkv & Hr); [| |exact Hb].
    - repeat split; auto. cbn [enc_val]. rewrite len_app. lia.
    - destruct k; cbn [kind_okv] in Hk; auto. contradiction Hnd; reflexivity. }
  destruct k; cbn [dec_val] in H; try (apply (Hflat _ eq_refl); [discriminate|exact H]).
  apply bind_ok in H as ([fs r1] & H1 & H). cbn [fst snd] in H. injection H as <- <-.
  apply dec_dir_inv in H1 as (Hw & Hr & Hlen); [|exact Hb].
  repeat split; auto.
Qed.

Lemma dec_vals_inv ks : forall bs vs r, Forall kind_okv ks -> allb bs -> dec_vals ks bs = Ok (vs, r) ->
  kinds_match ks vs = true /\ forallb wf_val vs = true /\ allb r /\ len (enc_vals vs) + len r <= len bs.
Proof.
  induction ks as [|k ks IH]; intros bs vs r Hk Hb H; cbn [dec_vals] in H.
  - injection H as <- <-. repeat split; auto. unfold enc_vals. cbn [map concat]. unfold len at 1. cbn [length]. lia.
  - inversion Hk as [|? ? Hk1 Hk2]; subst.
    apply bind_ok in H as ([v r1] & H1 & H). cbn [fst snd] in H.
    apply bind_ok in H as ([vs' r2] & H2 & H). cbn [fst snd] in H. injection H as <- <-.
    apply dec_val_inv in H1 as (Hw & Hkv & Hr1 & Hl1); [|exact Hk1|exact Hb].
    apply IH in H2 as (Hm & Hws & Hr2 & Hl2); [|exact Hk2|exact Hr1].
    repeat split; auto.
    + cbn [kinds_match]. rewrite <- Hkv, kind_eqb_refl, Hm. reflexivity.
    + cbn [forallb]. rewrite Hw, Hws. reflexivity.
    + unfold enc_vals in *. cbn [map concat]. rewrite len_app. lia.
Qed.

Lemma table_kinds_ok t ks : kinds_of_type t = Some ks -> Forall kind_okv ks.
Proof.
  intros H. apply assoc_N_In in H. unfold spec_kinds_table in H.
  repeat (destruct H as [H|H]; [injection H as _ <-; repeat (constructor; [cbn [kind_okv kind_ok]; auto 6|]); constructor|]). contradiction.
Qed.

Lemma dec_msg_inv ty ks bs vs r : Forall kind_okv ks -> allb bs -> dec_msg ty ks bs = Ok (vs, r) ->
  kinds_match ks vs = true /\ forallb wf_val vs = true /\ allb r /\ len (enc_vals vs) + len r <= len bs.
Proof.
  intros Hk Hb H. unfold dec_msg in H. destruct (ty =? T_Rstat).
  - apply bind_ok in H as ([l r1] & H1 & H). cbn [fst snd] in H.
    apply rd_int_inv in H1 as (-> & _ & Hr1); [|exact Hb].
    apply dec_vals_inv in H as (? & ? & ? & Hl); [|exact Hk|exact Hr1].
    repeat split; auto. rewrite len_app. lia.
  - destruct (ty =? T_Twstat); [|apply dec_vals_inv; assumption].
    destruct ks as [|k0 ks].
    + injection H as <- <-. repeat split; auto. unfold enc_vals. cbn [map concat]. unfold len at 1. cbn [length]. lia.
    + inversion Hk as [|? ? Hk1 Hk2]; subst.
      apply bind_ok in H as ([v r1] & H1 & H). cbn [fst snd] in H.
      apply bind_ok in H as ([l r2] & H2 & H). cbn [fst snd] in H.
      apply bind_ok in H as ([vs' r3] & H3 & H). cbn [fst snd] in H. injection H as <- <-.
      apply dec_val_inv in H1 as (Hw & Hkv & Hr1 & Hl1); [|exact Hk1|exact Hb].
      apply rd_int_inv in H2 as (-> & _ & Hr2); [|exact Hr1].
      apply dec_vals_inv in H3 as (Hm & Hws & Hr3 & Hl3); [|exact Hk2|exact Hr2].
      rewrite len_app in Hl1.
      repeat split; auto.
      * cbn [kinds_match]. rewrite <- Hkv, kind_eqb_refl, Hm. reflexivity.
      * cbn [forallb]. rewrite Hw, Hws. reflexivity.
      * unfold enc_vals in *. cbn [map concat]. rewrite len_app. lia.
Qed.

(* re-encoding what was decoded is no longer than what was consumed *)
Lemma dec_msg_len ty ks bs vs r : Forall kind_okv ks -> allb bs -> dec_msg ty ks bs = Ok (vs, r) ->
  len (enc_msg ty vs) + len r <= len bs.
Proof.
  intros Hk Hb H. rewrite len_enc_msg. unfold dec_msg in H. destruct (ty =? T_Rstat).
  - apply bind_ok in H as ([l r1] & H1 & H). cbn [fst snd] in H.
    apply rd_int_inv in H1 as (-> & _ & Hr1); [|exact Hb].
    apply dec_vals_inv in H as (_ & _ & _ & Hl); [|exact Hk|exact Hr1].
    rewrite len_app, len_le. lia.
  - destruct (ty =? T_Twstat).
    2:{ apply dec_vals_inv in H as (_ & _ & _ & Hl); [lia|exact Hk|exact Hb]. }
    destruct ks as [|k0 ks].
    + injection H as <- <-. unfold enc_vals. cbn [map concat]. unfold len at 1. cbn [length]. lia.
    + inversion Hk as [|? ? Hk1 Hk2]; subst.
      apply bind_ok in H as ([v r1] & H1 & H). cbn [fst snd] in H.
      apply bind_ok in H as ([l r2] & H2 & H). cbn [fst snd] in H.
      apply bind_ok in H as ([vs' r3] & H3 & H). cbn [fst snd] in H. injection H as <- <-.
      apply dec_val_inv in H1 as (_ & _ & Hr1 & Hl1); [|exact Hk1|exact Hb].
      apply rd_int_inv in H2 as (-> & _ & Hr2); [|exact Hr1].
      apply dec_vals_inv in H3 as (_ & _ & _ & Hl3); [|exact Hk2|exact Hr2].
      rewrite len_app, len_le in Hl1.
      unfold enc_vals in *. cbn [map concat]. rewrite len_app. lia.
Qed.

Theorem dec_fcall_len bs f : allb bs -> dec_fcall bs = Ok f -> len (enc_fcall f) <= len bs.
Proof.
  intros Hb H. unfold dec_fcall in H.
  apply bind_ok in H as ([t r1] & H1 & H). cbn [fst snd] in H.
  apply bind_ok in H as ([g r2] & H2 & H). cbn [fst snd] in H.
  destruct (kinds_of_type t) as [ks|] eqn:K; [|discriminate].
  apply bind_ok in H as ([vs r3] & H3 & H). cbn [fst snd] in H. injection H as <-.
  apply rd_int_inv in H1 as (-> & _ & Hr1); [|exact Hb].
  apply rd_int_inv in H2 as (-> & _ & Hr2); [|exact Hr1].
  apply dec_msg_len in H3; [|eapply table_kinds_ok; exact K|exact Hr2].
  unfold enc_fcall. cbn [fc_type fc_tag fc_fields]. rewrite !len_app, !len_le. lia.
Qed.

(* a decoded message is wire-representable *)
Theorem dec_fcall_wf bs f : allb bs -> len bs < M32 - 16 -> dec_fcall bs = Ok f -> wf_fcall f = true.
Proof.
  intros Hb Hlen H. unfold dec_fcall in H.
  apply bind_ok in H as ([t r1] & H1 & H). cbn [fst snd] in H.
  apply bind_ok in H as ([g r2] & H2 & H). cbn [fst snd] in H.
  destruct (kinds_of_type t) as [ks|] eqn:K; [|discriminate].
  apply bind_ok in H as ([vs r3] & H3 & H). cbn [fst snd] in H. injection H as <-.
  apply rd_int_inv in H1 as (-> & _ & Hr1); [|exact Hb].
  apply rd_int_inv in H2 as (-> & Hg & Hr2); [|exact Hr1].
  apply dec_msg_inv in H3 as (Hm & Hw & _ & Hl); [|eapply table_kinds_ok; exact K|exact Hr2].
  rewrite !len_app in Hlen.
  unfold wf_fcall. cbn [fc_type fc_tag fc_fields]. rewrite K, Hm, Hw. cbn [andb].
  apply andb_true_iff. split; apply N.ltb_lt; [exact Hg|lia].
Qed.

(* stability: a decoded value re-encodes and decodes to itself *)
Theorem dec_fcall_stable bs f : allb bs -> len bs < M32 - 16 -> dec_fcall bs = Ok f ->
  wf_fcall f = true /\ dec_fcall (enc_fcall f) = Ok f.
Proof.
  intros Hb Hlen H. pose proof (dec_fcall_wf bs f Hb Hlen H) as Hw. split; [exact Hw|].
  rewrite <- (app_nil_r (enc_fcall f)). apply dec_fcall_enc; exact Hw.
Qed.

(* DecodeDir *)
Lemma decode_dir_enc fs rest : wf_dir fs = true -> decode_dir (enc_dir fs ++ rest) = Ok (fs, rest).
Proof.
  intros Hw. pose proof Hw as Hw'. unfold wf_dir in Hw'. rewrite !andb_true_iff in Hw'. destruct Hw' as [_ Hl]. apply N.ltb_lt in Hl.
  assert (Hs : size_fvals fs = len (enc_fvals fs)) by (apply size_fvals_len; unfold M16, M32 in *; lia).
  unfold decode_dir. unfold enc_dir at 1. rewrite Hs, <- app_assoc.
  rewrite (rd_int_le_nat 2) by (change (2 ^ (8 * N.of_nat 2)) with M16; exact Hl). cbn [bind fst snd].
  rewrite need_ok by (rewrite len_app; lia). cbn [bind].
  rewrite rd_app. cbn [bind fst snd].
  pose proof (dec_dir_enc fs [] Hw) as E. unfold enc_dir in E. rewrite Hs, app_nil_r in E. rewrite E.
  reflexivity.
Qed.

Theorem decode_dir_stable bs fs r : allb bs -> decode_dir bs = Ok (fs, r) ->
  wf_dir fs = true /\ decode_dir (enc_dir fs) = Ok (fs, []).
Proof.
  intros Hb H. unfold decode_dir in H.
  apply bind_ok in H as ([l r1] & H1 & H). cbn [fst snd] in H.
  apply bind_ok in H as (u & _ & H).
  apply bind_ok in H as ([b r2] & H2 & H). cbn [fst snd] in H.
  apply bind_ok in H as ([fs' left] & H3 & H). cbn [fst snd] in H. injection H as <- <-.
  apply rd_int_inv in H1 as (-> & Hl & Hr1); [|exact Hb].
  apply rd_inv in H2 as [-> Hlen]. apply allb_app in Hr1 as [Hbb Hr].
  apply dec_dir_inv in H3 as (Hw & _ & _).
  - split; [exact Hw|]. rewrite <- (app_nil_r (enc_dir fs')). apply decode_dir_enc; exact Hw.
  - apply allb_app. split; [apply le_all_bytes|exact Hbb].
Qed.

(* ---------- allocation is linear in the input ---------- *)
(* [charged dec alloc c bs]: what [alloc] requests on input bs is at most c bytes per input byte,
   and when decoding succeeds it is charged to the bytes consumed. *)
Definition charged {A} (dec : bytes -> res (A * bytes)) (alloc : bytes -> N) (c : N) (bs : bytes) : Prop :=
  match dec bs with
  | Ok (_, r) => alloc bs + c * len r <= c * len bs
  | _ => alloc bs <= c * len bs
  end.

Lemma rd_int_len w bs x r : rd_int w bs = Ok (x, r) -> len bs = w + len r.
Proof.
  unfold rd_int. intros H. apply bind_ok in H as ([a r'] & H1 & H2). cbn [fst snd] in H2. injection H2 as _ <-.
  apply rd_inv in H1 as [-> Hl]. rewrite len_app. lia.
Qed.

Lemma rd_len n bs a r : rd n bs = Ok (a, r) -> len bs = n + len r.
Proof. intros H. apply rd_inv in H as [-> Hl]. rewrite len_app. lia. Qed.

Lemma charged_str bs : charged dec_str alloc_str 2 bs.
Proof.
  unfold charged, dec_str, alloc_str.
  destruct (rd_int 2 bs) as [[l r1]| | |] eqn:E1; cbn [bind fst snd]; try lia.
  apply rd_int_len in E1. unfold need. destruct (shorter r1 l) eqn:Es; cbn [bind]; [lia|].
  rewrite shorter_spec in Es. apply N.ltb_ge in Es.
  destruct (rd l r1) as [[s r]| | |] eqn:E2; try lia.
  apply rd_len in E2. lia.
Qed.

Lemma charged_many {A} (dec1 : bytes -> res (A * bytes)) (a1 : bytes -> N) c :
  (forall bs, charged dec1 a1 c bs) -> forall n bs, charged (dec_many dec1 n) (alloc_many dec1 a1 n) c bs.
Proof.
  intros H n; induction n as [|n IH]; intros bs; unfold charged; cbn [dec_many alloc_many].
  - lia.
  - pose proof (H bs) as H1. unfold charged in H1.
    destruct (dec1 bs) as [[x r1]| | |] eqn:E1; cbn [bind fst snd]; try lia.
    pose proof (IH r1) as H2. unfold charged in H2.
    destruct (dec_many dec1 n r1) as [[l r2]| | |] eqn:E2; cbn [bind fst snd]; lia.
Qed.

Lemma dec_many_len_strs n : forall bs l r, dec_many dec_str n bs = Ok (l, r) -> 2 * N.of_nat n + len r <= len bs.
Proof.
  induction n as [|n IH]; intros bs l r H; cbn [dec_many] in H.
  - injection H as _ <-. lia.
  - apply bind_ok in H as ([x r1] & H1 & H). cbn [fst snd] in H.
    apply bind_ok in H as ([l' r2] & H2 & H). cbn [fst snd] in H. injection H as _ <-.
    apply IH in H2. unfold dec_str in H1.
    apply bind_ok in H1 as ([ll q1] & Ha & H1). cbn [fst snd] in H1.
    apply bind_ok in H1 as (u & _ & H1). apply rd_int_len in Ha. apply rd_len in H1. lia.
Qed.

Lemma charged_fval k bs : charged (dec_fval k) (alloc_fval k) 18 bs.
Proof.
  unfold charged. destruct k; cbn [dec_fval alloc_fval].
  - destruct (rd_int w bs) as [[x r]| | |] eqn:E; cbn [bind fst snd]; try lia. apply rd_int_len in E. lia.
  - pose proof (charged_str bs) as H. unfold charged in H.
    destruct (dec_str bs) as [[s r]| | |]; cbn [bind fst snd]; lia.
  - destruct (rd_int 4 bs) as [[l r1]| | |] eqn:E1; cbn [bind fst snd]; try lia.
    apply rd_int_len in E1. unfold need. destruct (shorter r1 l) eqn:Es; cbn [bind]; [lia|].
    rewrite shorter_spec in Es. apply N.ltb_ge in Es.
    destruct (rd l r1) as [[d r]| | |] eqn:E2; cbn [bind fst snd]; try lia. apply rd_len in E2. lia.
  - destruct (rd_int 2 bs) as [[c r1]| | |] eqn:E1; cbn [bind fst snd]; try lia.
    apply rd_int_len in E1. unfold need. destruct (shorter r1 (2 * c)) eqn:Es; cbn [bind]; [lia|].
    rewrite shorter_spec in Es. apply N.ltb_ge in Es.
    pose proof (charged_many dec_str alloc_str 2 charged_str (N.to_nat c) r1) as H. unfold charged in H.
    destruct (dec_many dec_str (N.to_nat c) r1) as [[l r]| | |] eqn:E2; cbn [bind fst snd]; try lia.
    apply dec_many_len_strs in E2. rewrite N2Nat.id in E2. lia.
  - unfold dec_qid.
    destruct (rd_int 1 bs) as [[t r1]| | |] eqn:E1; cbn [bind fst snd]; try lia.
    destruct (rd_int 4 r1) as [[v r2]| | |] eqn:E2; cbn [bind fst snd]; try lia.
    destruct (rd_int 8 r2) as [[p r3]| | |] eqn:E3; cbn [bind fst snd]; try lia.
    apply rd_int_len in E1, E2, E3. lia.
  - destruct (rd_int 2 bs) as [[c r1]| | |] eqn:E1; cbn [bind fst snd]; try lia.
    apply rd_int_len in E1. unfold need. destruct (shorter r1 (13 * c)) eqn:Es; cbn [bind]; [lia|].
    rewrite shorter_spec in Es. apply N.ltb_ge in Es.
    destruct (dec_many dec_qid (N.to_nat c) r1) as [[l r]| | |] eqn:E2; cbn [bind fst snd]; try lia.
    assert (Hq : forall n bs0 l0 r0, dec_many dec_qid n bs0 = Ok (l0, r0) -> 13 * N.of_nat n + len r0 <= len bs0).
    { clear. induction n as [|n IH]; intros bs0 l0 r0 H; cbn [dec_many] in H.
      - injection H as _ <-. lia.
      - apply bind_ok in H as ([x q1] & H1 & H). cbn [fst snd] in H.
        apply bind_ok in H as ([l' q2] & H2 & H). cbn [fst snd] in H. injection H as _ <-.
        apply IH in H2. unfold dec_qid in H1.
        apply bind_ok in H1 as ([a s1] & Ha & H1). cbn [fst snd] in H1.
        apply bind_ok in H1 as ([b s2] & Hb & H1). cbn [fst snd] in H1.
        apply bind_ok in H1 as ([d s3] & Hd & H1). cbn [fst snd] in H1. injection H1 as _ <-.
        apply rd_int_len in Ha, Hb, Hd. lia. }
    apply Hq in E2. rewrite N2Nat.id in E2. lia.
  - destruct (rd_int 4 bs) as [[x r]| | |] eqn:E; cbn [bind fst snd]; try lia. apply rd_int_len in E. lia.
  - lia.
Qed.

Lemma charged_fvals ks : forall bs, charged (dec_fvals ks) (alloc_fvals ks) 18 bs.
Proof.
  induction ks as [|k ks IH]; intros bs; unfold charged; cbn [dec_fvals alloc_fvals].
  - lia.
  - pose proof (charged_fval k bs) as H1. unfold charged in H1.
    destruct (dec_fval k bs) as [[x r1]| | |] eqn:E1; cbn [bind fst snd]; try lia.
    pose proof (IH r1) as H2. unfold charged in H2.
    destruct (dec_fvals ks r1) as [[l r2]| | |] eqn:E2; cbn [bind fst snd]; lia.
Qed.

Lemma charged_dir bs : charged dec_dir alloc_dir 19 bs.
Proof.
  unfold charged, dec_dir, alloc_dir.
  destruct (rd_int 2 bs) as [[l r1]| | |] eqn:E1; cbn [bind fst snd]; try lia.
  apply rd_int_len in E1. unfold need. destruct (shorter r1 l) eqn:Es; cbn [bind]; [lia|].
  rewrite shorter_spec in Es. apply N.ltb_ge in Es.
  pose proof (charged_fvals (map snd spec_dir_fields) (take l r1)) as H. unfold charged in H.
  assert (Ht : len (take l r1) = l) by (apply len_take; exact Es).
  destruct (rd l r1) as [[b r]| | |] eqn:E2; cbn [bind fst snd].
  - pose proof E2 as E2'. apply rd_len in E2'. apply rd_inv in E2 as [E2 Hlb].
    assert (Hb : b = take l r1).
    { subst r1. rewrite <- Hlb. symmetry. apply take_app_len. }
    rewrite <- Hb in H, Ht |- *.
    destruct (dec_fvals (map snd spec_dir_fields) b) as [[fs lft]| | |]; cbn [bind fst snd]; lia.
  - destruct (dec_fvals (map snd spec_dir_fields) (take l r1)) as [[fs lft]| | |]; lia.
  - destruct (dec_fvals (map snd spec_dir_fields) (take l r1)) as [[fs lft]| | |]; lia.
  - destruct (dec_fvals (map snd spec_dir_fields) (take l r1)) as [[fs lft]| | |]; lia.
Qed.

Lemma charged_val k bs : charged (dec_val k) (alloc_val k) 19 bs.
Proof.
  assert (Hf : forall k', match (x <- dec_fval k' bs ;; Ok (VF (fst x), snd x)) with
                          | Ok (_, r) => alloc_fval k' bs + 19 * len r <= 19 * len bs
                          | _ => alloc_fval k' bs <= 19 * len bs end).
  { intros k'. pose proof (charged_fval k' bs) as H. unfold charged in H.
    destruct (dec_fval k' bs) as [[x r]| | |] eqn:E; cbn [bind fst snd]; lia. }
  unfold charged. destruct k; cbn [dec_val alloc_val]; try apply Hf.
  pose proof (charged_dir bs) as H. unfold charged in H.
  destruct (dec_dir bs) as [[fs r]| | |]; cbn [bind fst snd]; lia.
Qed.

Lemma charged_vals ks : forall bs, charged (dec_vals ks) (alloc_vals ks) 19 bs.
Proof.
  induction ks as [|k ks IH]; intros bs; unfold charged; cbn [dec_vals alloc_vals].
  - lia.
  - pose proof (charged_val k bs) as H1. unfold charged in H1.
    destruct (dec_val k bs) as [[x r1]| | |] eqn:E1; cbn [bind fst snd]; try lia.
    pose proof (IH r1) as H2. unfold charged in H2.
    destruct (dec_vals ks r1) as [[l r2]| | |] eqn:E2; cbn [bind fst snd]; lia.
Qed.

Lemma alloc_vals_le ks bs : alloc_vals ks bs <= 19 * len bs.
Proof. pose proof (charged_vals ks bs) as H. unfold charged in H. destruct (dec_vals ks bs) as [[? ?]| | |]; lia. Qed.

Lemma alloc_val_charged k bs : match dec_val k bs with Ok (_, r) => alloc_val k bs + 19 * len r <= 19 * len bs | _ => alloc_val k bs <= 19 * len bs end.
Proof. exact (charged_val k bs). Qed.

Lemma alloc_msg_le ty ks bs : alloc_msg ty ks bs <= 19 * len bs.
Proof.
  unfold alloc_msg. destruct (ty =? T_Rstat).
  - destruct (rd_int 2 bs) as [[l r]| | |] eqn:E; try lia. apply rd_int_len in E.
    pose proof (alloc_vals_le ks r). lia.
  - destruct (ty =? T_Twstat); [|apply alloc_vals_le].
    destruct ks as [|k0 ks]; [lia|].
    pose proof (alloc_val_charged k0 bs) as H.
    destruct (dec_val k0 bs) as [[v r]| | |]; try lia.
    destruct (rd_int 2 r) as [[l r']| | |] eqn:E; try lia. apply rd_int_len in E.
    pose proof (alloc_vals_le ks r'). lia.
Qed.

(* C04, allocation clause: whatever length fields the input claims, the sizes the decoder passes to
   make() sum to at most 19 bytes per input byte (20 for DecodeDir, which also copies the record) *)
Theorem alloc_fcall_linear bs : alloc_fcall bs <= 19 * len bs.
Proof.
  unfold alloc_fcall.
  destruct (rd_int 1 bs) as [[t r]| | |] eqn:E1; try lia. apply rd_int_len in E1.
  destruct (rd_int 2 r) as [[g r']| | |] eqn:E2; try lia. apply rd_int_len in E2.
  destruct (kinds_of_type t) as [ks|]; [|lia].
  pose proof (alloc_msg_le t ks r'). lia.
Qed.

Theorem alloc_decode_dir_linear bs : alloc_decode_dir bs <= 20 * len bs.
Proof.
  unfold alloc_decode_dir.
  destruct (rd_int 2 bs) as [[l r]| | |] eqn:E1; try lia. apply rd_int_len in E1.
  destruct (shorter r l) eqn:Es; [lia|]. rewrite shorter_spec in Es. apply N.ltb_ge in Es.
  pose proof (charged_dir (le 2 l ++ take l r)) as H. unfold charged in H.
  assert (Hl : len (le 2 l ++ take l r) = 2 + l) by (rewrite len_app, len_le, len_take by exact Es; reflexivity).
  rewrite Hl in H.
  destruct (dec_dir (le 2 l ++ take l r)) as [[fs rr]| | |]; lia.
Qed.
