(* Concrete runs of Model/Serve.v: witnesses that the hypotheses of the C06/C07/C11 theorems are
   satisfiable (non-vacuity), and witnesses that the code AS FOUND (variant [legacy], and the
   intermediate variants) violated the properties - the schedules the harness exhibited on /repo
   before the fix: commits (D5, D6, D13). *)
From Coq Require Import List NArith Bool.
From stdpp Require Import gmap.
From P9 Require Import Model.Serve Proofs.ServeProofs Proofs.ServeProofs2 Proofs.ServeProofs3 Proofs.ServeProofs4.
Import ListNotations.
Open Scope N_scope.

Definition m1 : bstr := [120; 1; 0; 0; 0].    (* some request bodies / results *)
Definition m2 : bstr := [120; 2; 0; 0; 0].
Definition resA : hres := RMsg [121; 65].
Definition resB : hres := RErr [98; 111; 111; 109].

(* one request, answered; then the system is settled *)
Definition run_one : list event :=
  [ESend 0 5 (KReq m1); EReaderGet; EArrive; EFinish 0 resA; EComplete 0; ETake; EWriteOk].

Example ex_run_one : exists s tr, run R init run_one = Some (s, tr) /\ settled s /\ nsent s = 1 /\
  In (OFrame {| f_rid := 0; f_tag := 5; f_pl := PMsg [121; 65] |}) tr /\ In (ODispatch 0 m1) tr.
Proof. eexists _, _. split; [vm_compute; reflexivity|]. vm_compute. repeat split; auto 10. Qed.

(* a duplicate tag while the first request is running *)
Definition run_dup : list event :=
  [ESend 0 5 (KReq m1); EReaderGet; EArrive; ESend 1 5 (KReq m2); EReaderGet].
Example ex_run_dup : exists s tr, run R init run_dup = Some (s, tr) /\ pc s = Main /\
  rd s = RHold 1 5 (KReq m2) /\ tags s !! 5 = Some 0.
Proof. eexists _, _. split; [vm_compute; reflexivity|]. vm_compute. repeat split. Qed.

(* flush of a running request, acknowledged; the tag is then reused and the flushed handler returns late *)
Definition run_flush : list event :=
  [ESend 0 5 (KReq m1); EReaderGet; EArrive;
   ESend 1 6 (KFlush 5); EReaderGet; EArrive; ETake; EWriteOk].
Definition ack : frame := {| f_rid := 1; f_tag := 6; f_pl := PFlushAck 0 |}.
Example ex_run_flush : exists s tr, run R init run_flush = Some (s, tr) /\ handed tr ack /\ In (OCancel 0) tr /\
  tags s !! 5 = None.
Proof. eexists _, _. split; [vm_compute; reflexivity|]. vm_compute. repeat split; auto 10. Qed.

Definition run_reuse_late : list event :=
  [ESend 2 5 (KReq m2); EReaderGet; EArrive;         (* tag 5 reused by request 2 *)
   EFinish 0 resA; EComplete 0;                       (* the flushed handler returns late, the loop takes its completion *)
   EFinish 2 resB; EComplete 2; ETake; EWriteOk].
Example ex_reuse_repaired : exists s tr, run R init (run_flush ++ run_reuse_late) = Some (s, tr) /\ settled s /\
  In (OFrame {| f_rid := 2; f_tag := 5; f_pl := PErr [98; 111; 111; 109] |}) tr /\
  forall f, In (OTake f) tr -> f_rid f <> 0.
Proof.
  eexists _, _. split; [vm_compute; reflexivity|]. split; [vm_compute; repeat split|]. split; [vm_compute; auto 20|].
  vm_compute. intros f Hin. repeat (destruct Hin as [Hin|Hin]; [try discriminate Hin; try (injection Hin as <-; cbn; discriminate)|]). destruct Hin.
Qed.

(* D5, as found: the same schedule on the legacy loop hands the FLUSHED request's result to the conn
   after the acknowledgement (tag 5, payload resA), and request 2 never gets its own reply *)
Definition run_reuse_late_legacy : list event :=
  [ESend 2 5 (KReq m2); EReaderGet; EArrive; EFinish 0 resA; EComplete 0; ETake; EWriteOk;
   EFinish 2 resB; EComplete 2].
Example legacy_silence_refuted : exists s tr, run legacy init (run_flush ++ run_reuse_late_legacy) = Some (s, tr) /\
  handed tr ack /\ In (OFrame {| f_rid := 0; f_tag := 5; f_pl := PMsg [121; 65] |}) tr /\
  quiescent legacy s = true /\ pc s = Main /\ closed s = false /\ ctxd s = false /\ all_gone s = true /\
  forall f, In (OTake f) tr -> f_rid f <> 2.
Proof.
  eexists _, _. split; [vm_compute; reflexivity|]. split; [vm_compute; auto 20|]. split; [vm_compute; auto 20|].
  do 5 (split; [vm_compute; reflexivity|]).
  vm_compute. intros f Hin. repeat (destruct Hin as [Hin|Hin]; [try discriminate Hin; try (injection Hin as <-; cbn; discriminate)|]). destruct Hin.
Qed.

(* D6, as found: writer inside conn.Write, second completion taken by the loop, the write fails:
   the loop is blocked for ever (no internal event enabled, conn closed, loop not returned) *)
Definition run_wfail : list event :=
  [ESend 0 1 (KReq m1); EReaderGet; EArrive; ESend 1 2 (KReq m2); EReaderGet; EArrive;
   EFinish 0 resA; EComplete 0; ETake; EFinish 1 resB; EComplete 1; EWriteFail].
Example legacy_stuck : exists s tr, run legacy init run_wfail = Some (s, tr) /\
  closed s = true /\ pc s <> PReturned /\ quiescent legacy s = true /\ all_gone s = true /\ step legacy s EReturn = None.
Proof. eexists _, _. split; [vm_compute; reflexivity|]. vm_compute. repeat split; discriminate. Qed.
Example repaired_not_stuck : exists s tr, run R init run_wfail = Some (s, tr) /\
  closed s = true /\ pc s <> PReturned /\ exists s' o, step R s EReturn = Some (s', o).
Proof. eexists _, _. split; [vm_compute; reflexivity|]. vm_compute. repeat split; try discriminate. eauto. Qed.

(* D13, as found: Stop while a handler is still inside Handle; it returns (and touches the session) after Stop *)
Definition run_stop_early : list event :=
  [ESend 0 1 (KReq m1); EReaderGet; EArrive; ECtxCancel; EReturn; EStop; EFinish 0 resA].
Example legacy_stop_early : exists s tr, run legacy init run_stop_early = Some (s, tr) /\
  exists a b, tr = a ++ OStop :: b /\ In (OFin 0 resA) b.
Proof.
  eexists _, _. split; [vm_compute; reflexivity|].
  exists [ORecv 0 1 (KReq m1); ODispatch 0 m1; OCancel 0; OReturn], [OFin 0 resA]. split; [reflexivity|now left].
Qed.
Example repaired_stop_waits : run R init run_stop_early = None /\
  exists s tr, run R init [ESend 0 1 (KReq m1); EReaderGet; EArrive; ECtxCancel; EReturn; EFinish 0 resA; EGiveUp 0; EStop] = Some (s, tr)
    /\ stops s = 1 /\ In OReturn tr /\ In (OCancel 0) tr.
Proof. split; [vm_compute; reflexivity|]. eexists _, _. split; [vm_compute; reflexivity|]. vm_compute. repeat split; auto 10. Qed.

(* a fault state with a handler in flight (for the shutdown theorems) *)
Definition run_fault : list event :=
  [ESend 0 1 (KReq m1); EReaderGet; EArrive; EConnErr; EReaderFail].
Example ex_run_fault : exists s tr, run R init run_fault = Some (s, tr) /\ fault s = true /\ pc s <> PReturned /\
  exists h, hs s !! 0 = Some h /\ h_st h = HRun.
Proof. eexists _, _. split; [vm_compute; reflexivity|]. vm_compute. repeat split; try discriminate. eexists. split; reflexivity. Qed.
