(* Composition of C01, C02 and C03: what one end's WriteFcall puts on the connection, the other
   end's ReadFcall (same msize) takes off it as exactly the message that was sent -- the original,
   or its clamped form for Tread/Twrite -- whatever follows on the stream and whatever the read
   buffer held. *)
From Coq Require Import List NArith ZArith Lia Bool.
From Coq Require Import ZifyBool ZifyNat ZifyN.
From P9 Require Import Base.Res Base.Bytes Model.WireTypes Model.Spec9P Model.Wire Model.Channel
  Proofs.BytesProofs Proofs.WireProofs Proofs.WireDecode Proofs.ChannelProofs Proofs.ChannelRead.
Import ListNotations.
Open Scope N_scope.

Arguments N.mul : simpl never.
Arguments N.add : simpl never.
Arguments N.sub : simpl never.
Arguments N.pow : simpl never.
Arguments N.modulo : simpl never.
Arguments N.ltb : simpl never.
Arguments N.leb : simpl never.
Arguments N.eqb : simpl never.
Arguments le : simpl never.

(* the message WriteFcall actually sends *)
Definition sent_form (msize : N) (f : fcall) : option fcall :=
  match maybe_truncate msize f with TOk f' => Some f' | TOverflow _ => None end.

Lemma In_firstn {A} (x : A) n l : In x (firstn n l) -> In x l.
Proof.
  revert l; induction n as [|n IH]; intros [|y l] H; cbn [firstn] in H; try contradiction.
  destruct H as [->|H]; [left; reflexivity|right; apply IH; exact H].
Qed.

Lemma wf_bytes_take n d : wf_bytes d = true -> wf_bytes (take n d) = true.
Proof.
  unfold wf_bytes, take. intros H. apply forallb_forall. intros x Hx.
  rewrite forallb_forall in H. apply H. eapply In_firstn; exact Hx.
Qed.

(* the clamped forms are still wire-representable *)
Lemma wf_tread_with tag fid off c c' :
  wf_fcall {| fc_type := T_Tread; fc_tag := tag; fc_fields := [VF (FInt 4 fid); VF (FInt 8 off); VF (FInt 4 c)] |} = true ->
  c' <= c ->
  wf_fcall {| fc_type := T_Tread; fc_tag := tag; fc_fields := [VF (FInt 4 fid); VF (FInt 8 off); VF (FInt 4 c')] |} = true.
Proof.
  unfold wf_fcall. cbn [fc_type fc_tag fc_fields].
  change (kinds_of_type T_Tread) with (Some [KInt 4; KInt 8; KInt 4]).
  intros H Hc. rewrite !andb_true_iff in H. destruct H as [[[Hk Hw] Ht] Hl].
  apply andb_true_iff; split; [apply andb_true_iff; split; [apply andb_true_iff; split|]|].
  - reflexivity.
  - cbn [forallb] in *. apply andb_true_iff in Hw as [Hwa Hw]. apply andb_true_iff in Hw as [Hwb Hw].
    apply andb_true_iff in Hw as [Hwc _]. rewrite Hwa, Hwb. cbn [andb].
    cbn [wf_val wf_fval] in *. apply andb_true_iff in Hwc as [Hcw Hcv]. apply N.ltb_lt in Hcv.
    assert (E : (c' <? 2 ^ (8 * 4)) = true) by (apply N.ltb_lt; lia).
    rewrite Hcw, E. reflexivity.
  - exact Ht.
  - unfold enc_vals in *. cbn [map concat enc_val enc_fval] in *. rewrite ?app_nil_r, !len_app, !len_le in *. exact Hl.
Qed.

Lemma wf_twrite_with tag fid off d n :
  wf_fcall {| fc_type := T_Twrite; fc_tag := tag; fc_fields := [VF (FInt 4 fid); VF (FInt 8 off); VF (FData d)] |} = true ->
  wf_fcall {| fc_type := T_Twrite; fc_tag := tag; fc_fields := [VF (FInt 4 fid); VF (FInt 8 off); VF (FData (take n d))] |} = true.
Proof.
  unfold wf_fcall. cbn [fc_type fc_tag fc_fields].
  change (kinds_of_type T_Twrite) with (Some [KInt 4; KInt 8; KData]).
  intros H. rewrite !andb_true_iff in H. destruct H as [[[Hk Hw] Ht] Hl].
  assert (Hlen : len (take n d) <= len d).
  { unfold take, len. rewrite firstn_length. lia. }
  apply andb_true_iff; split; [apply andb_true_iff; split; [apply andb_true_iff; split|]|].
  - reflexivity.
  - cbn [forallb] in *. apply andb_true_iff in Hw as [Hwa Hw]. apply andb_true_iff in Hw as [Hwb Hw].
    apply andb_true_iff in Hw as [Hwc _]. rewrite Hwa, Hwb. cbn [andb].
    cbn [wf_val wf_fval] in *. apply andb_true_iff in Hwc as [Hdl Hdb]. apply N.ltb_lt in Hdl.
    assert (E : (len (take n d) <? M32) = true) by (apply N.ltb_lt; lia).
    rewrite E, (wf_bytes_take n d Hdb). reflexivity.
  - exact Ht.
  - apply N.ltb_lt in Hl. apply N.ltb_lt.
    unfold enc_vals in *. cbn [map concat enc_val enc_fval] in *. rewrite ?app_nil_r, !len_app, !len_le in *. lia.
Qed.

(* what was sent is wire-representable, fits msize, and is left alone by a second clamp at the same msize *)
Lemma sent_form_props msize f f' : wf_fcall f = true -> 24 <= msize -> msize < M32 ->
  sent_form msize f = Some f' ->
  wf_fcall f' = true /\ 4 + len (enc_fcall f') <= msize /\ maybe_truncate msize f' = TOk f'.
Proof.
  intros Hw H24 HM Hs. unfold sent_form in Hs.
  destruct (N.eq_dec (fc_type f) T_Tread) as [Ht|Hnt].
  - destruct (mt_tread msize f Hw Ht H24 HM) as (fid & off & c & c' & Hf & Hmt & Hle & Hfit & Hsame & _).
    rewrite Hmt in Hs. injection Hs as <-.
    assert (Hw' : wf_fcall {| fc_type := T_Tread; fc_tag := fc_tag f; fc_fields := [VF (FInt 4 fid); VF (FInt 8 off); VF (FInt 4 c')] |} = true).
    { apply (wf_tread_with _ fid off c c'); [|exact Hle]. destruct f as [ty tag vs]. cbn [fc_type fc_tag fc_fields] in *. subst. exact Hw. }
    split; [exact Hw'|]. split; [rewrite len_enc_tread; lia|].
    destruct (mt_tread msize _ Hw' eq_refl H24 HM) as (fid2 & off2 & c2 & c2' & Hf2 & Hmt2 & _ & _ & Hsame2 & _).
    cbn [fc_fields fc_tag] in *. injection Hf2 as <- <- <-. rewrite Hmt2. rewrite (Hsame2 Hfit). reflexivity.
  - destruct (N.eq_dec (fc_type f) T_Twrite) as [Htw|Hntw].
    + destruct (mt_twrite msize f Hw Htw H24) as (fid & off & d & Hf & Hmt). rewrite Hmt in Hs. injection Hs as <-.
      assert (Hfeq : f = {| fc_type := T_Twrite; fc_tag := fc_tag f; fc_fields := [VF (FInt 4 fid); VF (FInt 8 off); VF (FData d)] |}).
      { destruct f as [ty tag vs]. cbn [fc_type fc_tag fc_fields] in *. subst. reflexivity. }
      destruct (N.leb_spec (23 + len d) msize) as [Hle|Hgt].
      * split; [exact Hw|]. split.
        { rewrite Hfeq, len_enc_twrite. lia. }
        { exact Hmt. }
      * set (d' := take (msize - 23) d).
        assert (Hw' : wf_fcall {| fc_type := T_Twrite; fc_tag := fc_tag f; fc_fields := [VF (FInt 4 fid); VF (FInt 8 off); VF (FData d')] |} = true).
        { apply wf_twrite_with. rewrite <- Hfeq. exact Hw. }
        assert (Hl' : len d' = msize - 23) by (apply len_take; lia).
        split; [exact Hw'|]. split; [rewrite len_enc_twrite; lia|].
        destruct (mt_twrite msize _ Hw' eq_refl H24) as (fid2 & off2 & d2 & Hf2 & Hmt2).
        cbn [fc_fields fc_tag] in *. injection Hf2 as <- <- <-. rewrite Hmt2.
        destruct (N.leb_spec (23 + len d') msize); [reflexivity|lia].
    + rewrite (mt_other msize f Hw Hnt Hntw) in Hs.
      destruct (N.ltb_spec msize (4 + len (enc_fcall f))) as [Hlt|Hge]; [discriminate|].
      injection Hs as <-. split; [exact Hw|]. split; [exact Hge|].
      rewrite (mt_other msize f Hw Hnt Hntw). destruct (N.ltb_spec msize (4 + len (enc_fcall f))); [lia|reflexivity].
Qed.

(* WriteFcall at one end, ReadFcall at the other (same msize): the message sent is the message received *)
Theorem write_then_read msize f out buf rest :
  wf_fcall f = true -> 24 <= msize -> msize < M32 ->
  write_fcall msize true f = (out, WSent) ->
  exists f' buf', sent_form msize f = Some f' /\ read_fcall msize buf (out ++ rest) = (RMsg f', buf', rest).
Proof.
  intros Hw H24 HM Hwr. unfold write_fcall in Hwr. cbn [negb] in Hwr.
  destruct (maybe_truncate msize f) as [f'|k] eqn:Emt; [|discriminate].
  injection Hwr as <-.
  assert (Hs : sent_form msize f = Some f') by (unfold sent_form; rewrite Emt; reflexivity).
  destruct (sent_form_props msize f f' Hw H24 HM Hs) as (Hw' & Hfit & Hidem).
  pose proof (wf_len_bound f' Hw') as Hb.
  unfold frame. rewrite N.mod_small by exact Hb.
  destruct (read_one_frame msize buf (len (enc_fcall f') + 4) (enc_fcall f') rest ltac:(lia) Hb ltac:(lia)) as (buf' & E).
  exists f', buf'. split; [exact Hs|]. unfold frame_bytes in E. rewrite E. f_equal. f_equal.
  unfold classify. destruct (N.ltb_spec msize (len (enc_fcall f') + 4)); [lia|].
  rewrite <- (app_nil_r (enc_fcall f')) at 1. rewrite dec_fcall_enc by exact Hw'. rewrite Hidem. reflexivity.
Qed.
