(* C14 - unbounded linearizability, part 1: a step-by-step simulation between two states of
   the lock-protocol model (Model/SessLock.v) that agree, up to a renaming of SFid pointers, on
   the part of the session one operation can see.

   [prel F p1 p2 R]: the programs p1 and p2 are the same program up to the pointer renaming R
   (a Kripke logical relation: a continuation must be related in every LATER renaming R' that
   extends R, for all R'-related answers), and every fid they name satisfies F.
   [prel_prog_of]: every client operation's program is related to itself, for every R -
   the programs never inspect a pointer, they only pass it on (parametricity).
   [srel F R s s']: s and s' agree on the fids in F and on the R-related pointers.
   [step_sim]: related threads in related states take related steps; the step leaves everything
   outside F / outside the renaming's domain untouched ([frame]). *)
From stdpp Require Import gmap.
From Coq Require Import NArith List Lia ZifyBool ZifyNat ZifyN.
From P9 Require Import Model.SessLock Proofs.SessLockProofs.
Local Open Scope N_scope.

Definition prn := N -> N -> Prop.
Definition sub (R R' : prn) : Prop := forall a b, R a b -> R' a b.
Definition pbij (R : prn) : Prop := forall a b a' b', R a b -> R a' b' -> (a = a' <-> b = b').
Definition orel (R : prn) (o1 o2 : option N) : Prop :=
  match o1, o2 with None, None => True | Some a, Some b => R a b | _, _ => False end.

Lemma sub_refl : forall R, sub R R.
Proof. intros R a b H. exact H. Qed.
Lemma sub_trans : forall R1 R2 R3, sub R1 R2 -> sub R2 R3 -> sub R1 R3.
Proof. intros R1 R2 R3 H1 H2 a b H. apply H2, H1, H. Qed.

Fixpoint prel (F : N -> Prop) (p1 p2 : prog) (R : prn) {struct p1} : Prop :=
  match p1, p2 with
  | Ret r1, Ret r2 => r1 = r2
  | Load f1 k1, Load f2 k2 =>
      f1 = f2 /\ F f1 /\ forall R', sub R R' -> forall o1 o2, orel R' o1 o2 -> prel F (k1 o1) (k2 o2) R'
  | Reserve f1 k1, Reserve f2 k2 =>
      f1 = f2 /\ F f1 /\ forall R', sub R R' -> forall o1 o2, orel R' o1 o2 -> prel F (k1 o1) (k2 o2) R'
  | Delete f1 k1, Delete f2 k2 => f1 = f2 /\ F f1 /\ forall R', sub R R' -> prel F k1 k2 R'
  | CompareAndDelete f1 q1 k1, CompareAndDelete f2 q2 k2 =>
      f1 = f2 /\ F f1 /\ R q1 q2 /\ forall R', sub R R' -> forall b, prel F (k1 b) (k2 b) R'
  | Lock q1 k1, Lock q2 k2 => R q1 q2 /\ forall R', sub R R' -> prel F k1 k2 R'
  | Unlock q1 k1, Unlock q2 k2 => R q1 q2 /\ forall R', sub R R' -> prel F k1 k2 R'
  | ReadSF q1 k1, ReadSF q2 k2 => R q1 q2 /\ forall R', sub R R' -> forall v, prel F (k1 v) (k2 v) R'
  | WriteSF q1 g1 k1, WriteSF q2 g2 k2 =>
      R q1 q2 /\ (forall v, g1 v = g2 v) /\ forall R', sub R R' -> prel F k1 k2 R'
  | Fs c1 k1, Fs c2 k2 =>
      fc_kind c1 = fc_kind c2 /\ fc_obj c1 = fc_obj c2 /\ forall R', sub R R' -> forall r, prel F (k1 r) (k2 r) R'
  | _, _ => False      (* LoadAndDelete, Snapshot, Pick: not used by any client operation *)
  end.

Lemma prel_mono : forall (F : N -> Prop) p1 p2 (R R' : prn), prel F p1 p2 R -> sub R R' -> prel F p1 p2 R'.
Proof.
  intros F p1 p2 R R' H Hs.
  destruct p1, p2; cbn [prel] in *; try exact H; try contradiction.
  - destruct H as (H1 & H2 & H3). repeat split; auto. intros R2 Hs2. apply H3. eapply sub_trans; eauto.
  - destruct H as (H1 & H2 & H3). repeat split; auto. intros R2 Hs2. apply H3. eapply sub_trans; eauto.
  - destruct H as (H1 & H2 & H3). repeat split; auto. intros R2 Hs2. apply H3. eapply sub_trans; eauto.
  - destruct H as (H1 & H2 & H3 & H4). repeat split; auto. intros R2 Hs2. apply H4. eapply sub_trans; eauto.
  - destruct H as (H1 & H3). repeat split; auto. intros R2 Hs2. apply H3. eapply sub_trans; eauto.
  - destruct H as (H1 & H3). repeat split; auto. intros R2 Hs2. apply H3. eapply sub_trans; eauto.
  - destruct H as (H1 & H3). repeat split; auto. intros R2 Hs2. apply H3. eapply sub_trans; eauto.
  - destruct H as (H1 & H2 & H3). repeat split; auto. intros R2 Hs2. apply H3. eapply sub_trans; eauto.
  - destruct H as (H1 & H2 & H3). repeat split; auto. intros R2 Hs2. apply H3. eapply sub_trans; eauto.
Qed.

(* ------------------------------------------------------------------ parametricity of the programs *)

(* enter a later world: lift every pointer fact to it *)
Ltac enter_world :=
  let R' := fresh "R" in let Hs := fresh "Hs" in
  intros R' Hs;
  repeat match goal with
  | H : ?R0 ?a ?b |- _ =>
      match type of Hs with
      | sub R0 R' => lazymatch goal with _ : R' a b |- _ => fail | _ => pose proof (Hs _ _ H) end
      end
  end.

Ltac lift_all :=
  repeat match goal with
  | Hs : sub ?R0 ?R', H : ?R0 ?a ?b |- _ =>
      lazymatch goal with _ : R' a b |- _ => fail | _ => pose proof (Hs _ _ H) end
  end.

Ltac prel_step :=
  match goal with
  | |- _ /\ _ => split
  | |- forall R', sub _ R' -> _ => enter_world
  | |- forall _ : sfid, _ => intro
  | |- forall _ : fsret, _ => intro
  | |- forall _ : bool, _ => intro
  | |- forall _, _ = _ => intro
  | |- @eq _ _ _ => reflexivity
  | |- ?R ?a ?b => is_var R; assumption
  | |- prel _ (if ?b then _ else _) _ _ => destruct b eqn:?
  | |- prel _ (match ?x with _ => _ end) _ _ => destruct x eqn:?
  | |- prel _ (let _ := _ in _) _ _ => cbv zeta
  | |- prel _ _ _ _ => progress cbn [prel ret unlock_opt]
  end.
Ltac prel_auto := repeat prel_step.

Lemma prel_get_ref : forall (F : N -> Prop) f k1 k2 (R : prn),
  (f =? NOFID = false -> F f) ->
  (forall R', sub R R' -> prel F (k1 None) (k2 None) R') ->
  (forall R' p1 p2 v, sub R R' -> R' p1 p2 -> F f -> prel F (k1 (Some (p1, v))) (k2 (Some (p2, v))) R') ->
  prel F (get_ref f k1) (get_ref f k2) R.
Proof.
  intros F f k1 k2 R HF H0 H1. unfold get_ref. destruct (f =? NOFID) eqn:E.
  - apply H0, sub_refl.
  - cbn [prel]. split; [reflexivity|]. split; [apply HF; reflexivity|].
    intros R1 Hs1 o1 o2 Ho. destruct o1 as [p1|], o2 as [p2|]; cbn [orel] in Ho; try contradiction.
    + cbn [prel]. split; [exact Ho|]. intros R2 Hs2. split; [apply Hs2, Ho|].
      intros R3 Hs3 v.
      assert (Hs13 : sub R R3) by (eapply sub_trans; [exact Hs1 | eapply sub_trans; eauto]).
      assert (Hp3 : R3 p1 p2) by (apply Hs3, Hs2, Ho).
      destruct (s_ent v) eqn:Ee.
      * apply H1; try assumption. apply HF; reflexivity.
      * cbn [prel]. split; [exact Hp3|]. intros R4 Hs4. apply H0. eapply sub_trans; eauto.
    + apply H0. exact Hs1.
Qed.

Lemma prel_new_ref : forall (F : N -> Prop) f k1 k2 (R : prn),
  (f =? NOFID = false -> F f) ->
  (forall R' e, sub R R' -> prel F (k1 (inl e)) (k2 (inl e)) R') ->
  (forall R' p1 p2, sub R R' -> R' p1 p2 -> F f -> prel F (k1 (inr p1)) (k2 (inr p2)) R') ->
  prel F (new_ref f k1) (new_ref f k2) R.
Proof.
  intros F f k1 k2 R HF H0 H1. unfold new_ref. destruct (f =? NOFID) eqn:E.
  - apply H0, sub_refl.
  - cbn [prel]. split; [reflexivity|]. split; [apply HF; reflexivity|].
    intros R1 Hs1 o1 o2 Ho. destruct o1 as [p1|], o2 as [p2|]; cbn [orel] in Ho; try contradiction.
    + apply H1; try assumption. apply HF; reflexivity.
    + apply H0; assumption.
Qed.

Lemma prel_del_ref : forall (F : N -> Prop) f rm k1 k2 (R : prn),
  F f -> (forall R' c, sub R R' -> prel F (k1 c) (k2 c) R') ->
  prel F (del_ref f rm k1) (del_ref f rm k2) R.
Proof.
  intros F f rm k1 k2 R HF H. unfold del_ref. cbn [prel]. split; [reflexivity|]. split; [exact HF|].
  intros R1 Hs1 o1 o2 Ho. destruct o1 as [p1|], o2 as [p2|]; cbn [orel] in Ho; try contradiction.
  - prel_auto; try exact HF; apply H; repeat (eapply sub_trans; [eassumption|]); apply sub_refl.
  - apply H. exact Hs1.
Qed.

(* the fids an operation names (NOFID is "no fid": never looked up, never bound) *)
Definition nn (l : list N) : list N := filter (fun f => negb (f =? NOFID)) l.
Definition op_fids (o : op) : list N :=
  match o with
  | OpAuth a => nn [a]
  | OpAttach f a => nn [f; a]
  | OpWalk f nf _ _ => nn [f; nf]
  | OpOpen f _ | OpCreate f _ _ | OpRead f | OpWrite f | OpStat f | OpWStat f => nn [f]
  | OpClunk f | OpRemove f => [f]      (* delRef looks NOFID up like any other fid *)
  | OpStop => []
  end.
Definition opF (o : op) : N -> Prop := fun f => In f (op_fids o).

Lemma opF_intro : forall o f l, op_fids o = nn l -> In f l -> f =? NOFID = false -> opF o f.
Proof. intros o f l E Hin Hn. unfold opF. rewrite E. apply filter_In. split; [exact Hin|]. rewrite Hn. reflexivity. Qed.

Ltac solveF := intros; eapply opF_intro; [reflexivity | cbn; tauto | assumption].

Lemma prel_attach_rest : forall (F : N -> Prop) f a1 a2 (R : prn),
  (f =? NOFID = false -> F f) -> orel R a1 a2 -> prel F (attach_rest f a1) (attach_rest f a2) R.
Proof.
  intros F f a1 a2 R HF Ha. unfold attach_rest.
  destruct a1 as [a1|], a2 as [a2|]; cbn [orel] in Ha; try contradiction.
  - apply prel_new_ref; [exact HF| |].
    + intros R1 e Hs1. pose proof (Hs1 _ _ Ha). prel_auto.
    + intros R1 p1 p2 Hs1 Hp HFf. pose proof (Hs1 _ _ Ha). prel_auto; exact HFf.
  - apply prel_new_ref; [exact HF| |].
    + intros R1 e Hs1. prel_auto.
    + intros R1 p1 p2 Hs1 Hp HFf. prel_auto; exact HFf.
Qed.

Lemma prel_prog_of : forall reqauth o (R : prn), o <> OpStop -> prel (opF o) (prog_of reqauth o) (prog_of reqauth o) R.
Proof.
  intros reqauth o R Hns. destruct o; cbn [prog_of].
  - (* Auth *) unfold prog_auth. prel_auto.
    apply prel_new_ref; [solveF | intros; lift_all; prel_auto | intros; lift_all; prel_auto; assumption].
  - (* Attach *) unfold prog_attach. destruct (afid =? NOFID) eqn:Ea.
    + apply prel_attach_rest; [solveF | exact I].
    + apply prel_get_ref; [solveF | intros; lift_all; prel_auto |].
      intros R1 p1 p2 v Hs1 Hp HF. prel_auto. apply prel_attach_rest; [solveF | assumption].
  - (* Walk *) unfold prog_walk. destruct valid; cbn [negb]; [|prel_auto].
    apply prel_get_ref; [solveF | intros; lift_all; prel_auto |].
    intros R1 p1 p2 v Hs1 Hp HF. cbv zeta. destruct (nf =? f) eqn:En.
    + prel_auto; assumption.
    + apply prel_new_ref; [solveF | intros; lift_all; prel_auto | intros; lift_all; prel_auto; assumption].
  - (* Open *) unfold prog_open. apply prel_get_ref; [solveF | intros; lift_all; prel_auto | intros; lift_all; prel_auto; assumption].
  - (* Create *) unfold prog_create. destruct badname; [prel_auto|].
    apply prel_get_ref; [solveF | intros; lift_all; prel_auto | intros; lift_all; prel_auto; assumption].
  - (* Read *) unfold prog_read. apply prel_get_ref; [solveF | intros; lift_all; prel_auto | intros; lift_all; prel_auto; assumption].
  - (* Write *) unfold prog_write. apply prel_get_ref; [solveF | intros; lift_all; prel_auto | intros; lift_all; prel_auto; assumption].
  - (* Stat *) unfold prog_statlike. apply prel_get_ref; [solveF | intros; lift_all; prel_auto | intros; lift_all; prel_auto; assumption].
  - (* WStat *) unfold prog_statlike. apply prel_get_ref; [solveF | intros; lift_all; prel_auto | intros; lift_all; prel_auto; assumption].
  - (* Clunk *) unfold prog_clunk. apply prel_del_ref; [left; reflexivity | intros; lift_all; prel_auto].
  - (* Remove *) unfold prog_remove. apply prel_del_ref; [left; reflexivity | intros; lift_all; prel_auto].
  - congruence.
Qed.

(* ------------------------------------------------------------------ related states, related threads *)

Record srel (F : N -> Prop) (R : prn) (s s' : state) : Prop := {
  sr_refs : forall f, F f -> orel R (refs s !! f) (refs s' !! f);
  sr_heap : forall p p', R p p' -> heap s !! p = heap s' !! p';
  sr_own : forall p p', R p p' -> (owner s !! p = None <-> owner s' !! p' = None);
  sr_lt : forall p p', R p p' -> p < nextp s /\ p' < nextp s';
  sr_bij : pbij R }.

Record trel (F : N -> Prop) (R : prn) (th th' : thread) : Prop := {
  tr_id : t_id th = t_id th';
  tr_incall : t_incall th = t_incall th';
  tr_script : t_script th = t_script th';
  tr_ncalls : t_ncalls th = t_ncalls th';
  tr_calls : t_calls th = t_calls th';
  tr_prog : prel F (t_prog th) (t_prog th') R }.

(* what a step of the left state leaves alone *)
Record frame (F : N -> Prop) (R R' : prn) (s s1 : state) : Prop := {
  fr_refs : forall f, ~ F f -> refs s1 !! f = refs s !! f;
  fr_heap : forall p, (forall p', ~ R' p p') -> heap s1 !! p = heap s !! p /\ owner s1 !! p = owner s !! p;
  fr_np : nextp s <= nextp s1;
  fr_dom : forall p p', R' p p' -> R p p' \/ nextp s <= p }.

Lemma trel_mono : forall (F : N -> Prop) (R R' : prn) th th', trel F R th th' -> sub R R' -> trel F R' th th'.
Proof. intros F R R' th th' [] Hs. constructor; auto. eapply prel_mono; eauto. Qed.

Lemma trel_upd : forall (F : N -> Prop) (R R' : prn) th th' k k' lg lg',
  trel F R th th' -> prel F k k' R' -> trel F R' (upd th k lg) (upd th' k' lg').
Proof. intros F R R' th th' k k' lg lg' [] H. constructor; cbn; auto. Qed.

Lemma trel_upd_held : forall (F : N -> Prop) (R R' : prn) th th' k k' h h',
  trel F R th th' -> prel F k k' R' -> trel F R' (upd_held th k h) (upd_held th' k' h').
Proof. intros F R R' th th' k k' h h' [] H. constructor; cbn; auto. Qed.

Lemma frame_refl : forall (F : N -> Prop) (R : prn) s s1,
  refs s1 = refs s -> heap s1 = heap s -> owner s1 = owner s -> nextp s1 = nextp s -> frame F R R s s1.
Proof.
  intros F R s s1 E1 E2 E3 E4. constructor.
  - intros. rewrite E1. reflexivity.
  - intros. rewrite E2, E3. split; reflexivity.
  - rewrite E4. lia.
  - intros. left. assumption.
Qed.

Lemma srel_same : forall (F : N -> Prop) (R : prn) s s' s1 s1',
  srel F R s s' ->
  refs s1 = refs s -> heap s1 = heap s -> owner s1 = owner s -> nextp s1 = nextp s ->
  refs s1' = refs s' -> heap s1' = heap s' -> owner s1' = owner s' -> nextp s1' = nextp s' ->
  srel F R s1 s1'.
Proof.
  intros F R s s' s1 s1' [] E1 E2 E3 E4 E1' E2' E3' E4'. constructor.
  - intros. rewrite E1, E1'. auto.
  - intros. rewrite E2, E2'. auto.
  - intros. rewrite E3, E3'. auto.
  - intros. rewrite E4, E4'. auto.
  - assumption.
Qed.

(* only the fid table changes, at one fid of F, to related values *)
Lemma srel_refs : forall (F : N -> Prop) (R : prn) s s' s1 s1' f (v v' : option N),
  srel F R s s' -> orel R v v' ->
  refs s1 = partial_alter (fun _ => v) f (refs s) -> refs s1' = partial_alter (fun _ => v') f (refs s') ->
  heap s1 = heap s -> owner s1 = owner s -> nextp s1 = nextp s ->
  heap s1' = heap s' -> owner s1' = owner s' -> nextp s1' = nextp s' ->
  srel F R s1 s1'.
Proof.
  intros F R s s' s1 s1' f v v' [] Hv E1 E1' E2 E3 E4 E2' E3' E4'. constructor.
  - intros g Hg. rewrite E1, E1'. destruct (decide (g = f)) as [->|Hne].
    + rewrite !lookup_partial_alter. exact Hv.
    + rewrite !lookup_partial_alter_ne by congruence. auto.
  - intros. rewrite E2, E2'. auto.
  - intros. rewrite E3, E3'. auto.
  - intros. rewrite E4, E4'. auto.
  - assumption.
Qed.

Lemma frame_refs : forall (F : N -> Prop) (R : prn) s s1 f (v : option N),
  F f -> refs s1 = partial_alter (fun _ => v) f (refs s) ->
  heap s1 = heap s -> owner s1 = owner s -> nextp s1 = nextp s -> frame F R R s s1.
Proof.
  intros F R s s1 f v HF E1 E2 E3 E4. constructor.
  - intros g Hg. rewrite E1. rewrite lookup_partial_alter_ne; [reflexivity|]. intros ->. exact (Hg HF).
  - intros. rewrite E2, E3. split; reflexivity.
  - rewrite E4. lia.
  - intros. left. assumption.
Qed.

(* ------------------------------------------------------------------ the step simulation *)

Lemma step_sim : forall (F : N -> Prop) (R : prn) s s' i i' th th' s1,
  srel F R s s' -> threads s !! i = Some th -> threads s' !! i' = Some th' -> trel F R th th' ->
  step s i = Some s1 ->
  exists s1' (R' : prn) th1 th1',
    step s' i' = Some s1' /\ sub R R' /\ srel F R' s1 s1' /\
    threads s1 = <[i := th1]> (threads s) /\ threads s1' = <[i' := th1']> (threads s') /\
    trel F R' th1 th1' /\ frame F R R' s s1.
Proof.
  intros F R s s' i i' th th' s1 HS Hi Hi' HT H.
  pose proof (tr_prog _ _ _ _ HT) as HP.
  unfold step in H. rewrite Hi in H. unfold step. rewrite Hi'.
  destruct (t_prog th) as [r|f k|f k|f k|f k|f q k|k|vs ms k|q k|q k|q k|q g k|c k] eqn:Hp;
  destruct (t_prog th') as [r'|f' k'|f' k'|f' k'|f' k'|f' q' k'|k'|vs' ms' k'|q' k'|q' k'|q' k'|q' g' k'|c' k'] eqn:Hp';
    cbn [prel] in HP; try contradiction; try discriminate.
  - (* Load *) destruct HP as (<- & HF & Hk). injection H as <-.
    eexists _, R, _, _. split; [reflexivity|]. split; [apply sub_refl|].
    split; [eapply srel_same; eauto|]. split; [reflexivity|]. split; [reflexivity|].
    split; [|apply frame_refl; reflexivity].
    eapply trel_upd; [exact HT|]. apply Hk; [apply sub_refl|]. apply (sr_refs _ _ _ _ HS). exact HF.
  - (* Reserve *) destruct HP as (<- & HF & Hk).
    pose proof (sr_refs _ _ _ _ HS f HF) as Hr.
    destruct (refs s !! f) as [p0|] eqn:E1, (refs s' !! f) as [p0'|] eqn:E1'; cbn [orel] in Hr; try contradiction.
    + injection H as <-.
      eexists _, R, _, _. split; [reflexivity|]. split; [apply sub_refl|].
      split; [eapply srel_same; eauto|]. split; [reflexivity|]. split; [reflexivity|].
      split; [|apply frame_refl; reflexivity].
      eapply trel_upd; [exact HT|]. apply Hk; [apply sub_refl|]. exact I.
    + injection H as <-.
      set (R' := fun a b => R a b \/ (a = nextp s /\ b = nextp s')).
      assert (Hsub : sub R R') by (intros a b Hab; left; exact Hab).
      eexists _, R', _, _. split; [reflexivity|]. split; [exact Hsub|].
      split; [|split; [reflexivity|]; split; [reflexivity|]; split].
      * destruct HS as [S1 S2 S3 S4 S5]. constructor; cbn.
        -- intros g Hg. destruct (decide (g = f)) as [->|Hne].
           ++ rewrite !lookup_insert. right. split; reflexivity.
           ++ rewrite !lookup_insert_ne by congruence. specialize (S1 g Hg).
              destruct (refs s !! g), (refs s' !! g); cbn [orel] in *; try contradiction; [left; exact S1 | exact I].
        -- intros p p' [Hpp|[-> ->]].
           ++ destruct (S4 _ _ Hpp). rewrite !lookup_insert_ne by lia. auto.
           ++ rewrite !lookup_insert. reflexivity.
        -- intros p p' [Hpp|[-> ->]].
           ++ destruct (S4 _ _ Hpp). rewrite !lookup_insert_ne by lia. auto.
           ++ rewrite !lookup_insert. split; discriminate.
        -- intros p p' [Hpp|[-> ->]]; [destruct (S4 _ _ Hpp)|]; lia.
        -- intros a b a' b' [Hab|[-> ->]] [Hab'|[-> ->]].
           ++ apply (S5 _ _ _ _ Hab Hab').
           ++ destruct (S4 _ _ Hab). split; intro; lia.
           ++ destruct (S4 _ _ Hab'). split; intro; lia.
           ++ split; reflexivity.
      * eapply trel_upd_held; [exact HT|]. apply Hk; [exact Hsub|]. right. split; reflexivity.
      * constructor; cbn.
        -- intros g Hg. rewrite lookup_insert_ne; [reflexivity|]. intros ->. exact (Hg HF).
        -- intros p Hnp. assert (p <> nextp s) by (intros ->; apply (Hnp (nextp s')); right; split; reflexivity).
           rewrite !lookup_insert_ne by congruence. split; reflexivity.
        -- lia.
        -- intros p p' [Hpp|[-> ->]]; [left; exact Hpp | right; lia].
  - (* Delete *) destruct HP as (<- & HF & Hk). injection H as <-.
    eexists _, R, _, _. split; [reflexivity|]. split; [apply sub_refl|].
    split; [eapply srel_refs with (f := f) (v := None) (v' := None); eauto; reflexivity|].
    split; [reflexivity|]. split; [reflexivity|].
    split; [|eapply frame_refs with (f := f) (v := None); eauto; reflexivity].
    eapply trel_upd; [exact HT|]. apply Hk, sub_refl.
  - (* CompareAndDelete *) destruct HP as (<- & HF & Hq & Hk). injection H as <-.
    pose proof (sr_refs _ _ _ _ HS f HF) as Hr.
    assert (Hhit : match refs s !! f with Some q0 => q0 =? q | None => false end =
                   match refs s' !! f with Some q0 => q0 =? q' | None => false end).
    { destruct (refs s !! f) as [p0|], (refs s' !! f) as [p0'|]; cbn [orel] in Hr; try contradiction; [|reflexivity].
      pose proof (sr_bij _ _ _ _ HS _ _ _ _ Hr Hq) as Hb.
      destruct (p0 =? q) eqn:Ea, (p0' =? q') eqn:Eb; try reflexivity; exfalso; lia. }
    rewrite <- Hhit.
    destruct (match refs s !! f with Some q0 => q0 =? q | None => false end) eqn:Eh.
    + eexists _, R, _, _. split; [reflexivity|]. split; [apply sub_refl|].
      split; [eapply srel_refs with (f := f) (v := None) (v' := None); eauto; reflexivity|].
      split; [reflexivity|]. split; [reflexivity|].
      split; [|eapply frame_refs with (f := f) (v := None); eauto; reflexivity].
      eapply trel_upd; [exact HT|]. apply Hk, sub_refl.
    + eexists _, R, _, _. split; [reflexivity|]. split; [apply sub_refl|].
      split; [eapply srel_same; eauto|]. split; [reflexivity|]. split; [reflexivity|].
      split; [|apply frame_refl; reflexivity].
      eapply trel_upd; [exact HT|]. apply Hk, sub_refl.
  - (* Lock *) destruct HP as (Hq & Hk).
    destruct (owner s !! q) eqn:Eo; [discriminate|]. injection H as <-.
    rewrite (proj1 (sr_own _ _ _ _ HS _ _ Hq) Eo).
    eexists _, R, _, _. split; [reflexivity|]. split; [apply sub_refl|].
    split; [|split; [reflexivity|]; split; [reflexivity|]; split].
    + destruct HS as [S1 S2 S3 S4 S5]. constructor; cbn; auto.
      * intros p p' Hpp. pose proof (S5 _ _ _ _ Hpp Hq) as Hb.
        destruct (decide (p = q)) as [->|Hne].
        -- assert (p' = q') by (apply Hb; reflexivity). subst p'. rewrite !lookup_insert. split; discriminate.
        -- assert (p' <> q') by (intro E; apply Hne, Hb, E). rewrite !lookup_insert_ne by congruence. auto.
      * intros p p' Hpp. destruct (S4 _ _ Hpp). lia.
    + eapply trel_upd_held; [exact HT|]. apply Hk, sub_refl.
    + constructor; cbn.
      * reflexivity.
      * intros p Hnp. assert (p <> q) by (intros ->; exact (Hnp _ Hq)).
        rewrite lookup_insert_ne by congruence. split; reflexivity.
      * lia.
      * intros. left. assumption.
  - (* Unlock *) destruct HP as (Hq & Hk).
    pose proof (sr_own _ _ _ _ HS _ _ Hq) as Ho.
    destruct (owner s !! q) eqn:Eo, (owner s' !! q') eqn:Eo'; try (exfalso; destruct Ho as [Ho1 Ho2]; (discriminate (Ho1 eq_refl) || discriminate (Ho2 eq_refl))).
    + injection H as <-.
      eexists _, R, _, _. split; [reflexivity|]. split; [apply sub_refl|].
      split; [|split; [reflexivity|]; split; [reflexivity|]; split].
      * destruct HS as [S1 S2 S3 S4 S5]. constructor; cbn; auto.
        intros p p' Hpp. pose proof (S5 _ _ _ _ Hpp Hq) as Hb.
        destruct (decide (p = q)) as [->|Hne].
        -- assert (p' = q') by (apply Hb; reflexivity). subst p'. rewrite !lookup_delete. split; reflexivity.
        -- assert (p' <> q') by (intro E; apply Hne, Hb, E). rewrite !lookup_delete_ne by congruence. auto.
      * eapply trel_upd_held; [exact HT|]. apply Hk, sub_refl.
      * constructor; cbn.
        -- reflexivity.
        -- intros p Hnp. assert (p <> q) by (intros ->; exact (Hnp _ Hq)).
           rewrite lookup_delete_ne by congruence. split; reflexivity.
        -- lia.
        -- intros. left. assumption.
    + injection H as <-.
      eexists _, R, _, _. split; [reflexivity|]. split; [apply sub_refl|].
      split; [eapply srel_same; eauto|]. split; [reflexivity|]. split; [reflexivity|].
      split; [|apply frame_refl; reflexivity].
      eapply trel_upd; [exact HT|]. cbn. reflexivity.
  - (* ReadSF *) destruct HP as (Hq & Hk). injection H as <-.
    rewrite <- (sr_heap _ _ _ _ HS _ _ Hq).
    eexists _, R, _, _. split; [reflexivity|]. split; [apply sub_refl|].
    split; [eapply srel_same; eauto|]. split; [reflexivity|]. split; [reflexivity|].
    split; [|apply frame_refl; reflexivity].
    eapply trel_upd; [exact HT|]. apply Hk, sub_refl.
  - (* WriteSF *) destruct HP as (Hq & Hg & Hk). injection H as <-.
    rewrite <- (sr_heap _ _ _ _ HS _ _ Hq).
    eexists _, R, _, _. split; [reflexivity|]. split; [apply sub_refl|].
    split; [|split; [reflexivity|]; split; [reflexivity|]; split].
    + destruct HS as [S1 S2 S3 S4 S5]. constructor; cbn; auto.
      intros p p' Hpp. pose proof (S5 _ _ _ _ Hpp Hq) as Hb.
      destruct (decide (p = q)) as [->|Hne].
      * assert (p' = q') by (apply Hb; reflexivity). subst p'. rewrite !lookup_insert. rewrite Hg. reflexivity.
      * assert (p' <> q') by (intro E; apply Hne, Hb, E). rewrite !lookup_insert_ne by congruence. auto.
    + eapply trel_upd; [exact HT|]. apply Hk, sub_refl.
    + constructor; cbn.
      * reflexivity.
      * intros p Hnp. assert (p <> q) by (intros ->; exact (Hnp _ Hq)).
        rewrite lookup_insert_ne by congruence. split; reflexivity.
      * lia.
      * intros. left. assumption.
  - (* Fs *) destruct HP as (Hck & Hco & Hk). destruct HT as [T1 T2 T3 T4 T5 T6].
    rewrite <- T2. destruct (t_incall th) eqn:Ec; injection H as <-.
    + eexists _, R, _, _. split; [reflexivity|]. split; [apply sub_refl|].
      split; [eapply srel_same; eauto|]. split; [reflexivity|]. split; [reflexivity|].
      split; [|apply frame_refl; reflexivity].
      constructor; cbn; try congruence. rewrite <- T1, <- T3, <- T4. apply Hk, sub_refl.
    + eexists _, R, _, _. split; [reflexivity|]. split; [apply sub_refl|].
      split; [eapply srel_same; eauto|]. split; [reflexivity|]. split; [reflexivity|].
      split; [|apply frame_refl; reflexivity].
      constructor; cbn; try congruence. try rewrite Hp; try rewrite Hp'; cbn [prel]; auto.
Qed.

(* a thread that cannot move in one state cannot move in the related one *)
Lemma step_sim_none : forall (F : N -> Prop) (R : prn) s s' i i' th th',
  srel F R s s' -> threads s !! i = Some th -> threads s' !! i' = Some th' -> trel F R th th' ->
  step s i = None -> step s' i' = None.
Proof.
  intros F R s s' i i' th th' HS Hi Hi' HT H.
  pose proof (tr_prog _ _ _ _ HT) as HP.
  unfold step in H. rewrite Hi in H. unfold step. rewrite Hi'.
  destruct (t_prog th) as [r|f k|f k|f k|f k|f q k|k|vs ms k|q k|q k|q k|q g k|c k] eqn:Hp;
  destruct (t_prog th') as [r'|f' k'|f' k'|f' k'|f' k'|f' q' k'|k'|vs' ms' k'|q' k'|q' k'|q' k'|q' g' k'|c' k'] eqn:Hp';
    cbn [prel] in HP; try contradiction; try discriminate; try reflexivity.
  - destruct (refs s !! f); discriminate.
  - destruct HP as (Hq & _). destruct (owner s !! q) eqn:Eo; [|discriminate].
    destruct (owner s' !! q') eqn:Eo'; [reflexivity|].
    rewrite (proj2 (sr_own _ _ _ _ HS _ _ Hq) Eo') in Eo. discriminate.
  - destruct (owner s !! q); discriminate.
  - destruct (t_incall th); discriminate.
Qed.
