(* Positional facts about the C09 history [list gev] used by the composition proof
   (Proofs/ComposeProofs*.v): which request is "open" for a tag, when a tag is "closed". *)
From Coq Require Import List Arith PeanoNat NArith Bool Lia.
From P9 Require Import Model.WireTypes Model.Pipeline Proofs.PipelineProofs.
Import ListNotations.
Open Scope N_scope.

(* the event is a frame (request or reply) carrying tag t *)
Definition about (t : N) (g : gev) : bool :=
  match g with GReq _ t' _ => t' =? t | GRep t' _ => t' =? t | GDel _ _ => false end.

(* the request frame at position i (call c, tag t, message q) is the last frame with tag t so far *)
Definition open_at (h : list gev) (t : N) (i c : nat) (q : message) : Prop :=
  nth_error h i = Some (GReq c t q) /\
  forall k g, (i < k)%nat -> nth_error h k = Some g -> about t g = false.

(* every request frame with tag t has been followed by a reply frame with tag t *)
Definition closed (h : list gev) (t : N) : Prop :=
  forall i c q, nth_error h i = Some (GReq c t q) ->
    exists k r, (i < k)%nat /\ nth_error h k = Some (GRep t r).

Definition quiet (t : N) (o : list gev) : Prop := forall g, In g o -> about t g = false.

Lemma nth_app_l {A} (h o : list A) i x : nth_error h i = Some x -> nth_error (h ++ o) i = Some x.
Proof. intros H. rewrite nth_error_app1; [exact H|]. apply nth_error_Some. congruence. Qed.

Lemma nth_lt {A} (h : list A) i x : nth_error h i = Some x -> (i < length h)%nat.
Proof. intros H. apply nth_error_Some. congruence. Qed.

Lemma nth_app_split {A} (h o : list A) i x : nth_error (h ++ o) i = Some x ->
  ((i < length h)%nat /\ nth_error h i = Some x) \/ ((length h <= i)%nat /\ nth_error o (i - length h) = Some x).
Proof.
  intros H. destruct (Nat.lt_ge_cases i (length h)) as [Hl|Hl].
  - left. split; [exact Hl|]. rewrite nth_error_app1 in H by exact Hl. exact H.
  - right. split; [exact Hl|]. rewrite nth_error_app2 in H by exact Hl. exact H.
Qed.

Lemma about_rep t r : about t (GRep t r) = true.
Proof. cbn. apply N.eqb_refl. Qed.
Lemma about_req t c q : about t (GReq c t q) = true.
Proof. cbn. apply N.eqb_refl. Qed.

Lemma closed_nil t : closed [] t.
Proof. intros i c q H. destruct i; discriminate H. Qed.

Lemma open_closed h t i c q : open_at h t i c q -> closed h t -> False.
Proof.
  intros [Hi Hq] Hc. destruct (Hc i c q Hi) as (k & r & Hk & Hr).
  specialize (Hq k _ Hk Hr). rewrite about_rep in Hq. discriminate.
Qed.

Lemma open_unique h t i c q i' c' q' : open_at h t i c q -> open_at h t i' c' q' -> i = i' /\ c = c' /\ q = q'.
Proof.
  intros [Hi Hq] [Hi' Hq'].
  destruct (Nat.lt_trichotomy i i') as [Hl|[->|Hl]].
  - specialize (Hq i' _ Hl Hi'). rewrite about_req in Hq. discriminate.
  - rewrite Hi in Hi'. injection Hi' as <- <-. auto.
  - specialize (Hq' i _ Hl Hi). rewrite about_req in Hq'. discriminate.
Qed.

Lemma open_app h o t i c q : open_at h t i c q -> quiet t o -> open_at (h ++ o) t i c q.
Proof.
  intros [Hi Hq] Ho. split; [apply nth_app_l; exact Hi|].
  intros k g Hk Hg. apply nth_app_split in Hg as [[_ Hg]|[_ Hg]]; [eauto|].
  apply Ho. eapply nth_error_In; eauto.
Qed.

Lemma open_new h t c q : open_at (h ++ [GReq c t q]) t (length h) c q.
Proof.
  split.
  - rewrite nth_error_app2 by lia. rewrite Nat.sub_diag. reflexivity.
  - intros k g Hk Hg. apply nth_lt in Hg. rewrite app_length in Hg. cbn in Hg. lia.
Qed.

(* an open request of the extended history lies in the old part when the new part has no request with its tag *)
Lemma open_app_inv h o t i c q : open_at (h ++ o) t i c q ->
  (forall c' q', ~ In (GReq c' t q') o) -> open_at h t i c q /\ quiet t o.
Proof.
  intros [Hi Hq] Ho. apply nth_app_split in Hi as [[Hl Hi]|[_ Hi]].
  - split.
    + split; [exact Hi|]. intros k g Hk Hg. apply (Hq k g Hk). apply nth_app_l. exact Hg.
    + intros g Hg. apply In_nth_error in Hg as [n Hn].
      apply (Hq (length h + n)%nat g); [lia|]. rewrite nth_error_app2 by lia.
      replace (length h + n - length h)%nat with n by lia. exact Hn.
  - exfalso. apply (Ho c q). eapply nth_error_In; eauto.
Qed.

Lemma open_snoc_req h t c q t0 i c0 q0 : open_at (h ++ [GReq c0 t0 q0]) t i c q ->
  (t = t0 /\ i = length h /\ c = c0 /\ q = q0) \/ (t <> t0 /\ open_at h t i c q).
Proof.
  intros Ho. destruct (N.eq_dec t t0) as [->|Hne].
  - left. destruct (open_unique _ _ _ _ _ _ _ _ Ho (open_new h t0 c0 q0)) as (-> & -> & ->). auto.
  - right. split; [exact Hne|]. apply (open_app_inv h [GReq c0 t0 q0]); [exact Ho|].
    intros c' q' [Hin|[]]. congruence.
Qed.

Lemma closed_app h o t : closed h t -> (forall c q, ~ In (GReq c t q) o) -> closed (h ++ o) t.
Proof.
  intros Hc Ho i c q Hi. apply nth_app_split in Hi as [[_ Hi]|[_ Hi]].
  - destruct (Hc i c q Hi) as (k & r & Hk & Hr). exists k, r. split; [exact Hk|apply nth_app_l; exact Hr].
  - exfalso. apply (Ho c q). eapply nth_error_In; eauto.
Qed.

(* a reply frame with tag t closes the tag *)
Lemma closed_rep h t r o : (forall c q, ~ In (GReq c t q) o) -> closed (h ++ GRep t r :: o) t.
Proof.
  intros Ho i c q Hi. apply nth_app_split in Hi as [[Hl Hi]|[Hl Hi]].
  - exists (length h), r. split; [exact Hl|]. rewrite nth_error_app2 by lia. rewrite Nat.sub_diag. reflexivity.
  - exfalso. destruct (i - length h)%nat as [|n]; [discriminate Hi|]. cbn in Hi.
    apply (Ho c q). eapply nth_error_In; eauto.
Qed.

(* a reply frame with tag t leaves no request with tag t open *)
Lemma no_open_after_rep h t r o i c q : (forall c q, ~ In (GReq c t q) o) -> ~ open_at (h ++ GRep t r :: o) t i c q.
Proof. intros Ho H. exact (open_closed _ _ _ _ _ H (closed_rep h t r o Ho)). Qed.

Lemma quiet_other_rep t t0 r (l : list gev) : t <> t0 -> (forall g, In g l -> exists c r', g = GDel c r') -> quiet t (GRep t0 r :: l).
Proof.
  intros Hne Hl g [<-|Hg].
  - cbn. apply N.eqb_neq. congruence.
  - destruct (Hl g Hg) as (c & r' & ->). reflexivity.
Qed.
