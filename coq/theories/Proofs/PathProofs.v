(* Lemmas about Model/Path.v (path.go).  Property statements are in Properties/C16.v. *)
From Coq Require Import List NArith ZArith Bool Lia.
From P9 Require Import Base.Res Model.Path.
Import ListNotations.
Open Scope N_scope.

Definition DOTDOT : bstr := [DOT; DOT].

(* "contains no separator, is neither empty nor '.'" *)
Definition safe (s : bstr) : Prop := s <> [] /\ s <> [DOT] /\ has_sep s = false.
(* a safe name other than ".." *)
Definition ordinary (s : bstr) : Prop := safe s /\ s <> DOTDOT.

Lemma bstr_eqb_spec a b : reflect (a = b) (bstr_eqb a b).
Proof.
  revert b; induction a as [|x a IH]; intros [|y b]; simpl; try (constructor; congruence).
  destruct (N.eqb_spec x y) as [->|Hn]; simpl.
  - destruct (IH b) as [->|Hn]; constructor; congruence.
  - constructor; congruence.
Qed.

Lemma is_empty_spec s : is_empty s = true <-> s = [].
Proof. destruct s; simpl; split; congruence. Qed.
Lemma is_dot_spec s : is_dot s = true <-> s = [DOT].
Proof. unfold is_dot; destruct (bstr_eqb_spec s [DOT]); split; congruence. Qed.
Lemma is_dotdot_spec s : is_dotdot s = true <-> s = DOTDOT.
Proof. unfold is_dotdot; destruct (bstr_eqb_spec s [DOT; DOT]); split; unfold DOTDOT; congruence. Qed.

Lemma ordinary_flags s : ordinary s ->
  is_empty s = false /\ is_dot s = false /\ is_dotdot s = false /\ has_sep s = false.
Proof.
  intros [[H1 [H2 H3]] H4]. repeat split; auto.
  - destruct (is_empty s) eqn:E; auto. apply is_empty_spec in E; contradiction.
  - destruct (is_dot s) eqn:E; auto. apply is_dot_spec in E; contradiction.
  - destruct (is_dotdot s) eqn:E; auto. apply is_dotdot_spec in E; contradiction.
Qed.

Lemma dotdot_flags : is_empty DOTDOT = false /\ is_dot DOTDOT = false /\ is_dotdot DOTDOT = true /\ has_sep DOTDOT = false.
Proof. repeat split; reflexivity. Qed.

(* ---------- ValidPath ---------- *)

Lemma valid_go_ordinary rest : forall i n, Forall ordinary rest -> valid_path_go rest i n = n.
Proof.
  induction rest as [|s r IH]; intros i n H; simpl; auto.
  inversion H as [|? ? Hs Hr]; subst.
  destruct (ordinary_flags s Hs) as (E1 & E2 & E3 & E4). rewrite E1, E2, E3, E4. simpl. auto.
Qed.

Lemma valid_go_leading k : forall rest i, Forall ordinary rest ->
  valid_path_go (repeat DOTDOT k ++ rest) i i = (i + Z.of_nat k)%Z.
Proof.
  induction k as [|k IH]; intros rest i H.
  - simpl. rewrite valid_go_ordinary by auto. lia.
  - cbn [repeat app valid_path_go]. destruct dotdot_flags as (E1 & E2 & E3 & E4).
    rewrite E1, E2, E3. simpl. rewrite Z.eqb_refl. rewrite IH by auto. lia.
Qed.

Lemma valid_go_range args : forall i n, (0 <= n)%Z -> valid_path_go args i n = (-1)%Z \/ (n <= valid_path_go args i n)%Z.
Proof.
  induction args as [|s r IH]; intros i n Hn; simpl; [right; lia|].
  destruct (is_empty s || is_dot s); [left; reflexivity|].
  destruct (is_dotdot s).
  - destruct (Z.eqb n i); [|left; reflexivity].
    destruct (IH (i + 1)%Z (n + 1)%Z ltac:(lia)); [left|right]; lia.
  - destruct (has_sep s); [left; reflexivity|]. apply IH; auto.
Qed.

(* past the leading run (n < i): acceptance means all remaining names are ordinary *)
Lemma valid_go_accept_tail args : forall i n, (n < i)%Z -> valid_path_go args i n <> (-1)%Z -> (0 <= n)%Z ->
  Forall ordinary args.
Proof.
  induction args as [|s r IH]; intros i n Hlt Hv Hn; [constructor|].
  simpl in Hv.
  destruct (is_empty s) eqn:E1; simpl in Hv; [congruence|].
  destruct (is_dot s) eqn:E2; simpl in Hv; [congruence|].
  destruct (is_dotdot s) eqn:E3.
  - destruct (Z.eqb_spec n i); [lia|congruence].
  - destruct (has_sep s) eqn:E4; [congruence|].
    constructor; [|apply (IH (i + 1)%Z n); auto; lia].
    repeat split; auto.
    + intros ->; discriminate.
    + intros ->; discriminate.
    + intros ->; discriminate.
Qed.

Lemma valid_go_accept args : forall i, valid_path_go args i i <> (-1)%Z -> (0 <= i)%Z ->
  exists k rest, args = repeat DOTDOT k ++ rest /\ Forall ordinary rest.
Proof.
  induction args as [|s r IH]; intros i Hv Hi.
  - exists 0%nat, []; split; auto.
  - simpl in Hv.
    destruct (is_empty s) eqn:E1; simpl in Hv; [congruence|].
    destruct (is_dot s) eqn:E2; simpl in Hv; [congruence|].
    destruct (is_dotdot s) eqn:E3.
    + rewrite Z.eqb_refl in Hv. apply is_dotdot_spec in E3; subst s.
      destruct (IH (i + 1)%Z Hv ltac:(lia)) as (k & rest & -> & Hr).
      exists (S k), rest; split; auto.
    + destruct (has_sep s) eqn:E4; [congruence|].
      exists 0%nat, (s :: r); split; auto.
      constructor.
      * repeat split; auto; intros ->; discriminate.
      * apply (valid_go_accept_tail r (i + 1)%Z i); auto; lia.
Qed.

Lemma valid_path_accepts k rest : Forall ordinary rest -> valid_path (repeat DOTDOT k ++ rest) = Z.of_nat k.
Proof. intros H. unfold valid_path. rewrite valid_go_leading by auto. lia. Qed.

Lemma valid_path_rejects ns :
  valid_path ns <> (-1)%Z -> exists k rest, ns = repeat DOTDOT k ++ rest /\ Forall ordinary rest.
Proof. intros H. apply (valid_go_accept ns 0%Z); auto; lia. Qed.

Lemma valid_path_iff ns k :
  valid_path ns = Z.of_nat k <-> exists rest, ns = repeat DOTDOT k ++ rest /\ Forall ordinary rest.
Proof.
  split.
  - intros H. destruct (valid_path_rejects ns) as (k' & rest & -> & Hr); [lia|].
    rewrite valid_path_accepts in H by auto. assert (k' = k) by lia. subst. eauto.
  - intros (rest & -> & Hr). apply valid_path_accepts; auto.
Qed.

Lemma valid_path_range ns : valid_path ns = (-1)%Z \/ (0 <= valid_path ns)%Z.
Proof. unfold valid_path. destruct (valid_go_range ns 0%Z 0%Z); auto; lia. Qed.
