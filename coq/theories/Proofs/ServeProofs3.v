(* Lemmas about Model/Serve.v, part 3: frames (whose result a frame carries, at most one per
   request, silence after a flush), accounting (every request ends up answered or excused). *)
From Coq Require Import List NArith Bool Lia.
From stdpp Require Import gmap.
From P9 Require Import Model.Serve Proofs.ServeProofs Proofs.ServeProofs2.
Import ListNotations.
Open Scope N_scope.

Definition hand_ids (tr : list output) : list N :=
  flat_map (fun o => match o with OTake f | OLost f => [f_rid f] | _ => [] end) tr.
Definition handed (tr : list output) (f : frame) : Prop := In (OTake f) tr \/ In (OLost f) tr.

(* the frame is what the property prescribes for the request it answers:
   the duplicate-tag error for an arrival with that tag, a flush reply, or the result of the
   handler that was dispatched for this very request *)
Definition own (tr : list output) (f : frame) : Prop :=
  (exists k, In (ORecv (f_rid f) (f_tag f) k) tr /\ f_pl f = PErr err_duptag) \/
  (exists old, In (ORecv (f_rid f) (f_tag f) (KFlush old)) tr /\
               (f_pl f = PErr err_unknowntag \/ exists v, f_pl f = PFlushAck v)) \/
  (exists m r, In (ORecv (f_rid f) (f_tag f) (KReq m)) tr /\ In (ODispatch (f_rid f) m) tr /\
               In (OFin (f_rid f) r) tr /\ f_pl f = reply_of r).

Lemma own_mono tr o f : own tr f -> own (tr ++ o) f.
Proof.
  intros [(k & A & B)|[(old & A & B)|(m & r & A & B & C & D)]].
  - left. exists k. split; [apply in_or_app; left; exact A|exact B].
  - right. left. exists old. split; [apply in_or_app; left; exact A|exact B].
  - right. right. exists m, r. split; [apply in_or_app; left; exact A|]. split; [apply in_or_app; left; exact B|].
    split; [apply in_or_app; left; exact C|exact D].
Qed.

Definition nohand (o : list output) : Prop := forall f, ~ In (OTake f) o /\ ~ In (OLost f) o.

Lemma nohand_ids o : nohand o -> hand_ids o = [].
Proof.
  unfold hand_ids. induction o as [|x o IH]; intros H; [reflexivity|]. cbn.
  assert (Ho : nohand o).
  { intros f; split; intros Hin; [apply (proj1 (H f))|apply (proj2 (H f))]; right; exact Hin. }
  rewrite (IH Ho), app_nil_r.
  destruct x; try reflexivity; exfalso; [apply (proj1 (H f))|apply (proj2 (H f))]; now left.
Qed.

Lemma nohand_handed tr o f : nohand o -> handed (tr ++ o) f -> handed tr f.
Proof.
  intros H [Hin|Hin]; apply in_app_or in Hin as [Hin|Hin]; [now left|exfalso; apply (proj1 (H f) Hin)|now right|exfalso; apply (proj2 (H f) Hin)].
Qed.

Lemma in_hand_ids r tr : In r (hand_ids tr) -> exists f, handed tr f /\ f_rid f = r.
Proof.
  unfold hand_ids. intros H. apply in_flat_map in H as (o & Ho & Hr).
  destruct o; cbn in Hr; try contradiction; destruct Hr as [<-|[]]; exists f; split; try reflexivity; [now left|now right].
Qed.
Lemma handed_in_ids tr f : handed tr f -> In (f_rid f) (hand_ids tr).
Proof.
  unfold hand_ids. intros [H|H]; apply in_flat_map; eexists; (split; [exact H|]); cbn; now left.
Qed.

Record Frames (s : st) (tr : list output) : Prop := {
  fr_imm : forall f, pc s = SendImm f -> own tr f /\ ~ In (f_rid f) (hand_ids tr);
  fr_done : forall hd f, pc s = SendDone hd f -> own tr f /\ ~ In (f_rid f) (hand_ids tr) /\ exists r, f_pl f = reply_of r;
  fr_own : forall f, handed tr f -> own tr f;
  fr_nodup : NoDup (hand_ids tr);
  fr_gone : forall rid, In rid (hand_ids tr) ->
            (hs s !! rid = None \/ exists h, hs s !! rid = Some h /\ h_st h = HGone) /\ rid < lo s;
  fr_ack : forall f v, (pc s = SendImm f \/ handed tr f) -> f_pl f = PFlushAck v ->
            (exists h, hs s !! v = Some h) /\ (forall t, tags s !! t <> Some v) /\ In (OCancel v) tr
}.

Lemma Frames_init : Frames init [].
Proof.
  constructor; cbn.
  - discriminate.
  - discriminate.
  - intros f [[]|[]].
  - constructor.
  - intros ? [].
  - intros f v [H|[[]|[]]]; discriminate.
Qed.

(* nothing handed over, the loop does not start a new send, handlers only move forward, tags only shrink *)
Lemma Frames_evolve s tr s' o : Frames s tr -> hs_evolves (hs s) (hs s') ->
  (forall t x, tags s' !! t = Some x -> tags s !! t = Some x) ->
  (pc s' = pc s \/ pc s' = PReturned \/ pc s' = Main) -> lo s <= lo s' -> nohand o -> Frames s' (tr ++ o).
Proof.
  intros [A B C D E F] Ev Ht Hp Hl Hn.
  assert (Hid : hand_ids (tr ++ o) = hand_ids tr) by (unfold hand_ids; rewrite flat_map_app; fold (hand_ids o); rewrite (nohand_ids _ Hn); apply app_nil_r).
  constructor; rewrite ?Hid.
  - intros f Hf. destruct Hp as [Hp|[Hp|Hp]]; [|congruence|congruence]. rewrite Hp in Hf.
    destruct (A f Hf) as [A1 A2]. split; [apply own_mono, A1|exact A2].
  - intros hd f Hf. destruct Hp as [Hp|[Hp|Hp]]; [|congruence|congruence]. rewrite Hp in Hf.
    destruct (B hd f Hf) as (B1 & B2 & B3). split; [apply own_mono, B1|]. split; [exact B2|exact B3].
  - intros f Hf. apply own_mono, C. eapply nohand_handed; eauto.
  - exact D.
  - intros rid Hin. destruct (E rid Hin) as [[E1|(h & E1 & E2)] E3]; (split; [|lia]).
    + left. eapply evolves_none; eauto.
    + right. destruct (evolves_fwd _ _ _ _ Ev E1) as (h' & Hh' & _ & _ & G). eauto.
  - intros f v Hf Hpl.
    assert (Hf' : pc s = SendImm f \/ handed tr f).
    { destruct Hf as [Hf|Hf]; [|right; eapply nohand_handed; eauto].
      destruct Hp as [Hp|[Hp|Hp]]; [left|congruence|congruence]. congruence. }
    destruct (F f v Hf' Hpl) as ((h & F1) & F2 & F3). repeat split.
    + destruct (evolves_fwd _ _ _ _ Ev F1) as (h' & Hh' & _). eauto.
    + intros t Hx. exact (F2 t (Ht _ _ Hx)).
    + apply in_or_app. now left.
Qed.

Lemma evolves_refl m : hs_evolves m m.
Proof. intros x. destruct (m !! x); auto. Qed.

(* the writer takes the frame the loop is offering *)
Lemma Frames_take s tr f (out : output) : Frames s tr -> Core s ->
  (pc s = SendImm f \/ exists hd, pc s = SendDone hd f) -> (out = OTake f \/ out = OLost f) ->
  Frames (set_pc s Main) (tr ++ [out]).
Proof.
  intros [A B C D E F] Ic Hp Ho.
  assert (Hid : hand_ids (tr ++ [out]) = hand_ids tr ++ [f_rid f]).
  { unfold hand_ids. rewrite flat_map_app. cbn. destruct Ho as [-> | ->]; reflexivity. }
  assert (Hown : own tr f /\ ~ In (f_rid f) (hand_ids tr)).
  { destruct Hp as [Hp|[hd Hp]]; [eauto|]. destruct (B hd f Hp) as (B1 & B2 & _). auto. }
  assert (Hh : forall g, handed (tr ++ [out]) g -> handed tr g \/ g = f).
  { intros g [Hin|Hin]; apply in_snoc in Hin as [Hin|Hin]; [left; now left| |left; now right|];
      destruct Ho as [-> | ->]; try discriminate; injection Hin as ->; now right. }
  constructor; rewrite ?Hid; unfold lo, pending_ids in *; proj_simpl.
  - discriminate.
  - discriminate.
  - intros g Hg. apply Hh in Hg as [Hg| ->]; apply own_mono; [auto|tauto].
  - apply NoDup_snoc; tauto.
  - intros rid Hin. apply in_snoc in Hin as [Hin| ->]; [auto|].
    destruct Hp as [Hp|[hd Hp]].
    + split; [left; exact (c_imm _ Ic f Hp)|]. apply (c_pc_lo _ Ic). unfold pc_rids. rewrite Hp. now left.
    + destruct (c_done _ Ic hd f Hp) as (E1 & _ & h & Hh1 & _ & Hg). subst hd.
      split; [right; eauto|]. apply (c_hs_lo _ Ic). eauto.
  - intros g v [Hg|Hg] Hpl; [discriminate|].
    assert (Hg' : pc s = SendImm g \/ handed tr g).
    { apply Hh in Hg as [Hg| ->]; [now right|]. destruct Hp as [Hp|[hd Hp]]; [now left|].
      exfalso. destruct (B hd f Hp) as (_ & _ & r & Hr). rewrite Hpl in Hr. destruct r; discriminate. }
    destruct (F g v Hg' Hpl) as (F1 & F2 & F3). repeat split; [exact F1|exact F2|apply in_or_app; now left].
Qed.

Lemma Frames_set_imm s tr f : Frames s tr -> pc s = Main -> own tr f -> ~ In (f_rid f) (hand_ids tr) ->
  (forall v, f_pl f = PFlushAck v -> (exists h, hs s !! v = Some h) /\ (forall t, tags s !! t <> Some v) /\ In (OCancel v) tr) ->
  Frames (set_pc s (SendImm f)) tr.
Proof.
  intros [A B C D E F] Hp Ho Hn Hv. constructor; unfold lo, pending_ids in *; proj_simpl; try assumption.
  - intros g [= <-]. auto.
  - discriminate.
  - intros g v [[= <-]|Hg] Hpl; [auto|]. apply (F g v); auto.
Qed.

Lemma Frames_set_done s tr hd f : Frames s tr -> pc s = Main -> own tr f -> ~ In (f_rid f) (hand_ids tr) ->
  (exists r, f_pl f = reply_of r) -> Frames (set_pc s (SendDone hd f)) tr.
Proof.
  intros [A B C D E F] Hp Ho Hn Hr. constructor; unfold lo, pending_ids in *; proj_simpl; try assumption.
  - discriminate.
  - intros hd' g [= <- <-]. auto.
  - intros g v [Hg|Hg] Hpl; [discriminate|]. apply (F g v); auto.
Qed.

Lemma Frames_dispatch s tr rid tag h : Frames s tr -> hs s !! rid = None -> ~ In rid (hand_ids tr) ->
  Frames (set_hs (set_tags s (<[tag := rid]> (tags s))) (<[rid := h]> (hs s))) tr.
Proof.
  intros [A B C D E F] Hn Hni. constructor; unfold lo, pending_ids in *; proj_simpl; try assumption.
  - intros x Hin. destruct (E x Hin) as [E1 E2]. split; [|exact E2].
    assert (x <> rid) by congruence. rewrite lookup_insert_ne by congruence. exact E1.
  - intros g v Hg Hpl. destruct (F g v Hg Hpl) as ((hv & F1) & F2 & F3). repeat split; [|intros t|exact F3].
    + exists hv. rewrite lookup_insert_ne; [exact F1|congruence].
    + destruct (N.eq_dec t tag) as [->|Hne]; [rewrite lookup_insert; congruence|].
      rewrite lookup_insert_ne by congruence. apply F2.
Qed.

Lemma nohand_nil : nohand [].
Proof. intros f; split; intros []. Qed.
Lemma nohand_inert_cancel s r s' oc : cancel_rid s r = (s', oc) -> nohand oc.
Proof.
  intros H f. pose proof (proj1 (cancel_rid_out _ _ _ _ H)) as A.
  split; intros Hin; destruct (A _ Hin) as [? _]; discriminate.
Qed.
Lemma nohand_inert_cancels s r s' oc : cancel_list s r = (s', oc) -> nohand oc.
Proof.
  intros H f. pose proof (proj1 (cancel_list_out _ _ _ _ H)) as A.
  split; intros Hin; destruct (A _ Hin) as (? & ? & _); discriminate.
Qed.
Lemma nohand_cons x o : nohand o -> (forall f, x <> OTake f /\ x <> OLost f) -> nohand (x :: o).
Proof.
  intros H Hx f. split; intros [Hin|Hin].
  - exact (proj1 (Hx f) Hin).
  - exact (proj1 (H f) Hin).
  - exact (proj2 (Hx f) Hin).
  - exact (proj2 (H f) Hin).
Qed.
Lemma nohand_app a b : nohand a -> nohand b -> nohand (a ++ b).
Proof.
  intros Ha Hb f. split; intros Hin; apply in_app_or in Hin as [Hin|Hin];
   [apply (proj1 (Ha f) Hin)|apply (proj1 (Hb f) Hin)|apply (proj2 (Ha f) Hin)|apply (proj2 (Hb f) Hin)].
Qed.

Lemma hand_ids_nohand tr o : nohand o -> hand_ids (tr ++ o) = hand_ids tr.
Proof. intros Hn. unfold hand_ids. rewrite flat_map_app. fold (hand_ids o). rewrite (nohand_ids _ Hn). apply app_nil_r. Qed.

Ltac nh := repeat (apply nohand_cons; [|intros; split; discriminate]); try apply nohand_nil.
Ltac lo_le Hle := first [exact Hle | (unfold lo, pending_ids in *; proj_simpl; lia)].

Lemma fresh_not_handed s tr rid tag k : SInv s -> Frames s tr -> rd s = RHold rid tag k -> ~ In rid (hand_ids tr).
Proof.
  intros [Ii _ _] Fr Hr Hin. destruct (hold_lo _ _ _ _ Ii Hr) as [-> _].
  destruct (fr_gone _ _ Fr _ Hin) as [_ Hlt]. lia.
Qed.

Lemma step_Frames s tr e s' o : SInv s -> Hist s tr -> Frames s tr -> step R s e = Some (s', o) -> Frames s' (tr ++ o).
Proof.
  intros Is Ih I H. pose proof Is as [Iids Ic Il].
  destruct (step_ids _ _ _ _ Iids H) as [_ Hlo].
  assert (Hle : lo s <= lo s') by (destruct Hlo as [->|[-> _]]; lia). clear Hlo.
  destruct e; step_inv H; proj_simpl.
  - (* ESend *) eapply (Frames_evolve s); [exact I|apply evolves_refl|auto|now left|lo_le Hle|nh].
  - (* EConnErr *) eapply (Frames_evolve s); [exact I|apply evolves_refl|auto|now left|lo_le Hle|nh].
  - (* EFinish *)
    eapply (Frames_evolve s); [exact I| |auto|now left|lo_le Hle|nh].
    proj_simpl. eapply insert_evolves; eauto; cbn; congruence.
  - (* EWriteOk *) eapply (Frames_evolve s); [exact I|apply evolves_refl|auto|now left|lo_le Hle|nh].
  - (* EWriteFail *) eapply (Frames_evolve s); [exact I|apply evolves_refl|auto|now left|lo_le Hle|nh].
  - (* ECtxCancel *)
    pose proof (cancel_list_rel _ _ _ _ Heqp) as Rl. proj_simpl.
    eapply (Frames_evolve s); [exact I|exact (canc_rel_evolves _ _ _ Rl)| | |exact Hle|exact (nohand_inert_cancels _ _ _ _ Heqp)].
    + rewrite (cancel_list_frame _ _ _ _ Heqp); proj_simpl. auto.
    + rewrite (cancel_list_frame _ _ _ _ Heqp); proj_simpl. now left.
  - (* EReaderGet *) eapply (Frames_evolve s); [exact I|apply evolves_refl|auto|now left|lo_le Hle|nh].
  - (* EReaderFail *) eapply (Frames_evolve s); [exact I|apply evolves_refl|auto|now left|lo_le Hle|nh].
  - (* EReaderQuit *) eapply (Frames_evolve s); [exact I|apply evolves_refl|auto|now left|lo_le Hle|nh].
  - (* EArrive duplicate *)
    assert (Hn : nohand [ORecv rid tag k]) by nh.
    apply Frames_set_imm; proj_simpl.
    + eapply (Frames_evolve s); [exact I|apply evolves_refl|auto|now left|lo_le Hle|exact Hn].
    + exact Heqp.
    + left. exists k. cbn. split; [apply in_or_app; right; now left|reflexivity].
    + cbn. rewrite (hand_ids_nohand _ _ Hn). eapply fresh_not_handed; eauto.
    + intros v. discriminate.
  - (* EArrive dispatch *)
    assert (Hn : nohand [ORecv rid tag (KReq m); ODispatch rid m; OCancel rid]) by nh.
    apply (Frames_dispatch (set_rd s RIdle)); proj_simpl.
    + eapply (Frames_evolve s); [exact I|apply evolves_refl|auto|now left| |exact Hn].
      destruct (hold_lo _ _ _ _ Iids Heqr) as [_ Hl]. rewrite (Hl (set_rd s RIdle)); auto. lia.
    + eapply fresh_rid; eauto.
    + rewrite (hand_ids_nohand _ _ Hn). eapply fresh_not_handed; eauto.
  - assert (Hn : nohand [ORecv rid tag (KReq m); ODispatch rid m]) by nh.
    apply (Frames_dispatch (set_rd s RIdle)); proj_simpl.
    + eapply (Frames_evolve s); [exact I|apply evolves_refl|auto|now left| |exact Hn].
      destruct (hold_lo _ _ _ _ Iids Heqr) as [_ Hl]. rewrite (Hl (set_rd s RIdle)); auto. lia.
    + eapply fresh_rid; eauto.
    + rewrite (hand_ids_nohand _ _ Hn). eapply fresh_not_handed; eauto.
  - (* EArrive flush of an outstanding tag *)
    pose proof (cancel_rid_rel _ _ _ _ Heqp0) as Rl. pose proof (cancel_rid_out _ _ _ _ Heqp0) as [_ Out]. proj_simpl.
    assert (Hn : nohand (ORecv rid tag (KFlush old) :: l)).
    { apply nohand_cons; [exact (nohand_inert_cancel _ _ _ _ Heqp0)|intros; split; discriminate]. }
    destruct (c_tags _ Ic _ _ Heqo1) as (hn & Hhn & Htn).
    assert (Fr0 : Frames s0 (tr ++ ORecv rid tag (KFlush old) :: l)).
    { eapply (Frames_evolve s); [exact I|exact (canc_rel_evolves _ _ _ Rl)| | | |exact Hn];
        rewrite (cancel_rid_frame _ _ _ _ Heqp0); proj_simpl.
      - intros t x Hx. apply lookup_delete_Some in Hx. tauto.
      - now left.
      - destruct (hold_lo _ _ _ _ Iids Heqr) as [_ Hl].
        assert (E : lo (set_hs (set_tags (set_rd s RIdle) (delete old (tags s))) (hs s0)) = lo (set_rd s RIdle)) by (unfold lo, pending_ids; proj_simpl; reflexivity).
        rewrite E, (Hl (set_rd s RIdle)); auto. lia. }
    apply Frames_set_imm; [exact Fr0| | | |].
    + rewrite (cancel_rid_frame _ _ _ _ Heqp0). proj_simpl. exact Heqp.
    + right. left. exists old. cbn. split; [apply in_or_app; right; now left|]. right. eauto.
    + cbn. rewrite (hand_ids_nohand _ _ Hn). eapply fresh_not_handed; eauto.
    + cbn. intros v [= <-]. repeat split.
      * destruct (canc_rel_fwd _ _ _ _ _ Rl Hhn) as (h' & Hh' & _). eauto.
      * rewrite (cancel_rid_frame _ _ _ _ Heqp0). proj_simpl. intros t Hx.
        apply lookup_delete_Some in Hx as [Hne Hx]. destruct (c_tags _ Ic _ _ Hx) as (h2 & Hh2 & Ht2). congruence.
      * destruct (h_canc hn) eqn:Hc.
        -- apply in_or_app. left. eapply (hi_canc _ _ Ih); eauto.
        -- apply in_or_app. right. right. proj_simpl. eauto.
  - (* EArrive flush of an unknown tag *)
    assert (Hn : nohand [ORecv rid tag (KFlush old)]) by nh.
    apply Frames_set_imm; proj_simpl.
    + eapply (Frames_evolve s); [exact I|apply evolves_refl|auto|now left|lo_le Hle|exact Hn].
    + exact Heqp.
    + right. left. exists old. cbn. split; [apply in_or_app; right; now left|]. now left.
    + cbn. rewrite (hand_ids_nohand _ _ Hn). eapply fresh_not_handed; eauto.
    + intros v. discriminate.
  - (* EComplete, still the holder *)
    apply N.eqb_eq in Heqb. subst n.
    apply Frames_set_done; proj_simpl.
    + eapply (Frames_evolve s); [exact I| |auto|now left|lo_le Hle|nh]. proj_simpl. eapply insert_evolves; eauto.
    + exact Heqp.
    + right. right. cbn. destruct (hi_disp_inv _ _ Ih _ _ Heqo0) as (m & Hm).
      destruct (hi_disp _ _ Ih _ _ Hm) as (h' & Hh' & Hrv). rewrite Heqo0 in Hh'. injection Hh' as <-.
      exists m, r. rewrite app_nil_r. repeat split; try assumption. eapply (hi_fin_inv _ _ Ih); eauto.
    + cbn. rewrite app_nil_r. intros Hin. destruct (fr_gone _ _ I _ Hin) as [[E1|(h' & E1 & E2)] _]; congruence.
    + cbn. eauto.
  - (* EComplete, dropped *)
    eapply (Frames_evolve s); [exact I| |auto|now left|lo_le Hle|nh]. proj_simpl. eapply insert_evolves; eauto.
  - eapply (Frames_evolve s); [exact I| |auto|now left|lo_le Hle|nh]. proj_simpl. eapply insert_evolves; eauto.
  - (* EGiveUp *)
    eapply (Frames_evolve s); [exact I| |auto|now left|lo_le Hle|nh]. proj_simpl. eapply insert_evolves; eauto.
  - (* ETake *)
    rewrite <- (app_nil_r (tr ++ [OLost f])).
    eapply (Frames_evolve (set_pc s Main)); [|apply evolves_refl|auto|now left|lo_le Hle|nh].
    eapply Frames_take; eauto.
  - rewrite <- (app_nil_r (tr ++ [OTake f])).
    eapply (Frames_evolve (set_pc s Main)); [|apply evolves_refl|auto|now left|lo_le Hle|nh].
    eapply Frames_take; eauto.
  - rewrite <- (app_nil_r (tr ++ [OLost f])).
    eapply (Frames_evolve (set_pc s Main)); [|apply evolves_refl| |now left|lo_le Hle|nh].
    + eapply Frames_take; eauto.
    + proj_simpl. intros t x Hx. apply lookup_delete_Some in Hx. tauto.
  - rewrite <- (app_nil_r (tr ++ [OTake f])).
    eapply (Frames_evolve (set_pc s Main)); [|apply evolves_refl| |now left|lo_le Hle|nh].
    + eapply Frames_take; eauto.
    + proj_simpl. intros t x Hx. apply lookup_delete_Some in Hx. tauto.
  - (* EDropDone *)
    eapply (Frames_evolve s); [exact I|apply evolves_refl| |right; now right|lo_le Hle|nh].
    proj_simpl. intros t x Hx. apply lookup_delete_Some in Hx. tauto.
  - (* EWriterQuit *) eapply (Frames_evolve s); [exact I|apply evolves_refl|auto|now left|lo_le Hle|nh].
  - (* EReturn *)
    pose proof (cancel_list_rel _ _ _ _ Heqp) as Rl. proj_simpl.
    eapply (Frames_evolve s); [exact I|exact (canc_rel_evolves _ _ _ Rl)| | | |].
    + rewrite (cancel_list_frame _ _ _ _ Heqp); proj_simpl. auto.
    + rewrite (cancel_list_frame _ _ _ _ Heqp); proj_simpl. right; now left.
    + exact Hle.
    + apply nohand_app; [exact (nohand_inert_cancels _ _ _ _ Heqp)|nh].
  - (* EStop *) eapply (Frames_evolve s); [exact I|apply evolves_refl|auto|now left|lo_le Hle|nh].
Qed.

Lemma reach_Frames s tr : reach s tr -> Frames s tr.
Proof.
  induction 1 as [|s tr e s' o Hr IH Hs]; [apply Frames_init|].
  eapply step_Frames; eauto; [eapply reach_SInv|eapply reach_Hist]; eauto.
Qed.

(* accounting: where every request is, and why a handler's result was not sent *)
Record Acct (s : st) (tr : list output) : Prop := {
  a_recv : forall rid, rid < lo s -> (exists t k, In (ORecv rid t k) tr) \/ closed s = true;
  a_where : forall rid t k, In (ORecv rid t k) tr ->
      is_Some (hs s !! rid) \/ (exists f, pc s = SendImm f /\ f_rid f = rid) \/ In rid (hand_ids tr) \/ fault s = true;
  a_gone : forall rid h, hs s !! rid = Some h -> h_st h = HGone ->
      h_canc h = true \/ fault s = true \/ In rid (hand_ids tr) \/ exists f, pc s = SendDone rid f;
  a_take : forall f, In (OTake f) tr -> wr s = WBusy f \/ In (OFrame f) tr \/ closed s = true;
  a_lost : forall f, In (OLost f) tr -> closed s = true;
  a_canc : forall v, In (OCancel v) tr ->
      ctxd s = true \/ pc s = PReturned \/ exists f, (pc s = SendImm f \/ handed tr f) /\ f_pl f = PFlushAck v
}.

Lemma Acct_init : Acct init [].
Proof.
  constructor; cbn.
  - intros rid H. unfold lo, pending_ids in H. cbn in H. lia.
  - intros ? ? ? [].
  - intros ? ?. rewrite lookup_empty. discriminate.
  - intros ? [].
  - intros ? [].
  - intros ? [].
Qed.

(* a step in which the loop's pc, the handlers and lo do not change, and nothing is handed over *)
Lemma Acct_quiet s tr s' o : Acct s tr -> hs s' = hs s -> pc s' = pc s -> lo s' = lo s ->
  (closed s = true -> closed s' = true) -> (ctxd s = true -> ctxd s' = true) ->
  (forall f, wr s = WBusy f -> wr s' = WBusy f \/ In (OFrame f) o \/ closed s' = true) ->
  nohand o -> (forall v, ~ In (OCancel v) o) -> (forall r t k, ~ In (ORecv r t k) o) ->
  Acct s' (tr ++ o).
Proof.
  intros [A B C D E F] Hh Hp Hl Hc Hx Hw Hn Hnc Hnr.
  assert (Hf : fault s = true -> fault s' = true).
  { unfold fault. intros H. apply orb_true_iff in H as [H|H]; apply orb_true_iff; auto. }
  assert (Hid : hand_ids (tr ++ o) = hand_ids tr) by (apply hand_ids_nohand, Hn).
  constructor; rewrite ?Hh, ?Hp, ?Hl, ?Hid.
  - intros rid Hlt. destruct (A rid Hlt) as [(t & k & H)|H]; [left; exists t, k; apply in_or_app; now left|right; auto].
  - intros rid t k Hin. apply in_app_or in Hin as [Hin|Hin]; [|exfalso; exact (Hnr _ _ _ Hin)].
    destruct (B rid t k Hin) as [H|[H|[H|H]]]; auto.
  - intros rid h Hr Hg. destruct (C rid h Hr Hg) as [H|[H|[H|H]]]; auto.
  - intros f Hin. apply in_app_or in Hin as [Hin|Hin]; [|exfalso; exact (proj1 (Hn f) Hin)].
    destruct (D f Hin) as [H|[H|H]]; [|right; left; apply in_or_app; now left|right; right; auto].
    destruct (Hw f H) as [H2|[H2|H2]]; [now left|right; left; apply in_or_app; now right|right; now right].
  - intros f Hin. apply in_app_or in Hin as [Hin|Hin]; [apply Hc; eauto|exfalso; exact (proj2 (Hn f) Hin)].
  - intros v Hin. apply in_app_or in Hin as [Hin|Hin]; [|exfalso; exact (Hnc _ Hin)].
    destruct (F v Hin) as [H|[H|(f & H1 & H2)]]; [left; auto|right; now left|right; right].
    exists f. split; [|exact H2]. destruct H1 as [H1|[H1|H1]]; [now left|right; left; apply in_or_app; now left|right; right; apply in_or_app; now left].
Qed.

Lemma fault_mono s s' : (closed s = true -> closed s' = true) -> (ctxd s = true -> ctxd s' = true) -> fault s = true -> fault s' = true.
Proof. unfold fault. intros A B H. apply orb_true_iff in H as [H|H]; apply orb_true_iff; auto. Qed.

(* handlers move on; nothing handed over, nothing received *)
Lemma Acct_hs s tr s' o : Acct s tr -> lo s' = lo s -> wr s' = wr s ->
  (closed s = true -> closed s' = true) -> (ctxd s = true -> ctxd s' = true) ->
  (pc s' = pc s \/ (pc s' = PReturned /\ fault s' = true /\
        forall rid f, pc s = SendDone rid f -> exists h', hs s' !! rid = Some h' /\ h_canc h' = true)) ->
  (forall rid, is_Some (hs s !! rid) -> is_Some (hs s' !! rid)) ->
  (forall rid h', hs s' !! rid = Some h' -> h_st h' = HGone ->
      (exists h, hs s !! rid = Some h /\ h_st h = HGone /\ (h_canc h = true -> h_canc h' = true)) \/
      h_canc h' = true \/ fault s' = true) ->
  nohand o -> (forall r t k, ~ In (ORecv r t k) o) ->
  (forall v, In (OCancel v) o -> ctxd s' = true \/ pc s' = PReturned) ->
  Acct s' (tr ++ o).
Proof.
  intros [A B C D E F] Hl Hw Hc Hx Hp Hk Hg Hn Hnr Hnc.
  pose proof (fault_mono s s' Hc Hx) as Hf.
  assert (Hid : hand_ids (tr ++ o) = hand_ids tr) by (apply hand_ids_nohand, Hn).
  constructor; rewrite ?Hl, ?Hw, ?Hid.
  - intros rid Hlt. destruct (A rid Hlt) as [(t & k & H)|H]; [left; exists t, k; apply in_or_app; now left|right; auto].
  - intros rid t k Hin. apply in_app_or in Hin as [Hin|Hin]; [|exfalso; exact (Hnr _ _ _ Hin)].
    destruct (B rid t k Hin) as [H|[(f & H1 & H2)|[H|H]]]; auto.
    destruct Hp as [Hp|(Hp & Hfs & _)]; [right; left; exists f; rewrite Hp; auto|auto].
  - intros rid h' Hr Hgone. destruct (Hg rid h' Hr Hgone) as [(h & Hh & Hhg & Hcc)|[H|H]]; auto.
    destruct (C rid h Hh Hhg) as [H|[H|[H|(f & H)]]]; auto.
    destruct Hp as [Hp|(Hp & Hfs & Hd)]; [right; right; right; exists f; congruence|].
    destruct (Hd rid f H) as (h2 & Hh2 & Hc2). rewrite Hr in Hh2. injection Hh2 as <-. now left.
  - intros f Hin. apply in_app_or in Hin as [Hin|Hin]; [|exfalso; exact (proj1 (Hn f) Hin)].
    destruct (D f Hin) as [H|[H|H]]; [now left|right; left; apply in_or_app; now left|right; right; auto].
  - intros f Hin. apply in_app_or in Hin as [Hin|Hin]; [apply Hc; eauto|exfalso; exact (proj2 (Hn f) Hin)].
  - intros v Hin. apply in_app_or in Hin as [Hin|Hin]; [|destruct (Hnc v Hin); auto].
    destruct (F v Hin) as [H|[H|(f & H1 & H2)]]; [left; auto| |].
    + destruct Hp as [Hp|(Hp & _)]; [right; left; congruence|right; now left].
    + destruct Hp as [Hp|(Hp & _)]; [|right; now left]. right; right.
      exists f. split; [|exact H2]. destruct H1 as [H1|[H1|H1]]; [left; congruence|right; left; apply in_or_app; now left|right; right; apply in_or_app; now left].
Qed.

Lemma hand_ids_app a b : hand_ids (a ++ b) = hand_ids a ++ hand_ids b.
Proof. unfold hand_ids. apply flat_map_app. Qed.
Lemma handed_app_l a b f : handed a f -> handed (a ++ b) f.
Proof. intros [H|H]; [left|right]; apply in_or_app; now left. Qed.

(* the general shape of a step, clause by clause *)
Lemma Acct_gen s tr s' o : Acct s tr ->
  (closed s = true -> closed s' = true) -> (ctxd s = true -> ctxd s' = true) ->
  (forall rid, rid < lo s' -> rid < lo s \/ (exists t k, In (ORecv rid t k) o) \/ closed s' = true) ->
  (forall rid t k, In (ORecv rid t k) o ->
      is_Some (hs s' !! rid) \/ (exists f, pc s' = SendImm f /\ f_rid f = rid) \/ fault s' = true) ->
  (forall rid, is_Some (hs s !! rid) -> is_Some (hs s' !! rid)) ->
  (forall f, pc s = SendImm f -> pc s' = SendImm f \/ In (f_rid f) (hand_ids (tr ++ o)) \/ fault s' = true) ->
  (forall rid h', hs s' !! rid = Some h' -> h_st h' = HGone ->
      (exists h, hs s !! rid = Some h /\ h_st h = HGone /\ (h_canc h = true -> h_canc h' = true)) \/
      h_canc h' = true \/ fault s' = true \/ In rid (hand_ids (tr ++ o)) \/ exists f, pc s' = SendDone rid f) ->
  (forall rid f, pc s = SendDone rid f ->
      (exists f', pc s' = SendDone rid f') \/ In rid (hand_ids (tr ++ o)) \/ fault s' = true \/
      exists h', hs s' !! rid = Some h' /\ h_canc h' = true) ->
  (forall f, In (OTake f) o -> wr s' = WBusy f \/ closed s' = true) ->
  (forall f, wr s = WBusy f -> wr s' = WBusy f \/ In (OFrame f) o \/ closed s' = true) ->
  (forall f, In (OLost f) o -> closed s' = true) ->
  (forall v, In (OCancel v) o -> ctxd s' = true \/ pc s' = PReturned \/
      exists f, (pc s' = SendImm f \/ handed (tr ++ o) f) /\ f_pl f = PFlushAck v) ->
  (pc s = PReturned -> pc s' = PReturned) ->
  (forall f v, pc s = SendImm f -> f_pl f = PFlushAck v ->
      pc s' = SendImm f \/ handed (tr ++ o) f \/ ctxd s' = true \/ pc s' = PReturned) ->
  Acct s' (tr ++ o).
Proof.
  intros [A B C D E F] Hc Hx Hr Hw Hk Hp1 Hg Hp2 Ht Ht2 Hl Ha Hp3 Hp4.
  pose proof (fault_mono s s' Hc Hx) as Hf.
  assert (Hin_ids : forall x, In x (hand_ids tr) -> In x (hand_ids (tr ++ o))).
  { intros x Hx0. rewrite hand_ids_app. apply in_or_app. now left. }
  constructor.
  - intros rid Hlt. destruct (Hr rid Hlt) as [H|[(t & k & H)|H]]; [|left; exists t, k; apply in_or_app; now right|now right].
    destruct (A rid H) as [(t & k & H2)|H2]; [left; exists t, k; apply in_or_app; now left|right; auto].
  - intros rid t k Hin. apply in_app_or in Hin as [Hin|Hin].
    + destruct (B rid t k Hin) as [H|[(f & H1 & H2)|[H|H]]]; auto.
      destruct (Hp1 f H1) as [H|[H|H]]; [right; left; eauto|subst rid; auto|auto].
    + destruct (Hw rid t k Hin) as [H|[H|H]]; auto.
  - intros rid h' Hr' Hgone. destruct (Hg rid h' Hr' Hgone) as [(h & Hh & Hhg & Hcc)|[H|[H|[H|H]]]]; auto.
    destruct (C rid h Hh Hhg) as [H|[H|[H|(f & H)]]]; auto.
    destruct (Hp2 rid f H) as [H2|[H2|[H2|(h2 & Hh2 & Hc2)]]]; auto.
    rewrite Hr' in Hh2. injection Hh2 as <-. now left.
  - intros f Hin. apply in_app_or in Hin as [Hin|Hin].
    + destruct (D f Hin) as [H|[H|H]]; [|right; left; apply in_or_app; now left|right; right; auto].
      destruct (Ht2 f H) as [H2|[H2|H2]]; [now left|right; left; apply in_or_app; now right|right; now right].
    + destruct (Ht f Hin) as [H|H]; [now left|right; now right].
  - intros f Hin. apply in_app_or in Hin as [Hin|Hin]; [apply Hc; eauto|eauto].
  - intros v Hin. apply in_app_or in Hin as [Hin|Hin]; [|eauto].
    destruct (F v Hin) as [H|[H|(f & H1 & H2)]]; [left; auto|right; left; auto|].
    destruct H1 as [H1|H1].
    + destruct (Hp4 f v H1 H2) as [H|[H|[H|H]]]; [right; right; exists f; auto|right; right; exists f; auto|now left|right; now left].
    + right; right. exists f. split; [right; apply handed_app_l, H1|exact H2].
Qed.

Lemma lo_send s x : IdsInv s -> lo (set_nsent (set_inq s (inq s ++ [x])) (nsent s + 1)) = lo s.
Proof.
  intros [_ L]. unfold lo, pending_ids in *. proj_simpl.
  rewrite !app_length, !map_length, app_length in *. cbn [length]. lia.
Qed.

Ltac same_hs := let rid := fresh in let h := fresh in intros rid h ? ?; left; exists h; repeat split; auto.
Ltac no_in := unfold not; intros; repeat match goal with H : In _ (_ :: _) |- _ => destruct H as [H|H]; [try discriminate H|] | H : In _ [] |- _ => destruct H | H : False |- _ => destruct H end.

Lemma lo_arrive s rid tag k s' : IdsInv s -> rd s = RHold rid tag k -> inq s' = inq s -> nsent s' = nsent s -> rd s' = RIdle ->
  forall x, x < lo s' -> x < lo s \/ x = rid.
Proof.
  intros Ii Hr A B C x Hlt. destruct (hold_lo _ _ _ _ Ii Hr) as [-> Hl]. rewrite (Hl s') in Hlt by auto. lia.
Qed.

Lemma insert_is_Some (m : gmap N hrec) rid h x : is_Some (m !! x) -> is_Some (<[rid := h]> m !! x).
Proof. intros H. destruct (N.eq_dec x rid) as [->|Hne]; [rewrite lookup_insert; eauto|rewrite lookup_insert_ne by congruence; exact H]. Qed.

Lemma step_Acct s tr e s' o : SInv s -> Hist s tr -> Frames s tr -> Acct s tr -> step R s e = Some (s', o) -> Acct s' (tr ++ o).
Proof.
  intros Is Ih If I H. pose proof Is as [Iids Ic Il].
  destruct e; step_inv H; proj_simpl.
  - (* ESend *)
    eapply (Acct_quiet s); [exact I|reflexivity|reflexivity| |auto|auto|auto|nh| |].
    + apply lo_send, Iids.
    + intros v [].
    + intros r t k0 [].
  - (* EConnErr *)
    eapply (Acct_quiet s); [exact I|reflexivity|reflexivity|reflexivity|auto|auto|auto|nh| |]; intros; intros [].
  - (* EFinish *)
    eapply (Acct_hs s); [exact I|lo_eq|reflexivity|auto|auto|now left| | |nh| |]; proj_simpl.
    + intros x. apply insert_is_Some.
    + intros x h' Hx Hg. apply lookup_insert_Some in Hx as [[_ <-]|[_ Hx]]; [discriminate|]. left. exists h'. auto.
    + intros r0 t k [Hin|[]]; discriminate.
    + intros v [Hin|[]]; discriminate.
  - (* EWriteOk *)
    eapply (Acct_quiet s); [exact I|reflexivity|reflexivity|reflexivity|auto|auto| |nh| |].
    + proj_simpl. intros g Hg. rewrite Heqw in Hg. injection Hg as <-. right. left. now left.
    + intros v [H|[]]; discriminate.
    + intros r t k [H|[]]; discriminate.
  - (* EWriteFail *)
    eapply (Acct_quiet s); [exact I|reflexivity|reflexivity|reflexivity|auto|auto| |nh| |].
    + proj_simpl. auto.
    + intros v [H|[]]; discriminate.
    + intros r t k [H|[]]; discriminate.
  - (* ECtxCancel *)
    pose proof (cancel_list_rel _ _ _ _ Heqp) as Rl. pose proof (cancel_list_out _ _ _ _ Heqp) as [Out _]. proj_simpl.
    rewrite (cancel_list_frame _ _ _ _ Heqp).
    eapply (Acct_hs s); [exact I|lo_eq|reflexivity|auto|auto|now left| | | | |]; proj_simpl.
    + intros x [h Hx]. destruct (canc_rel_fwd _ _ _ _ _ Rl Hx) as (h' & Hh' & _). eauto.
    + intros x h' Hx Hg. destruct (canc_rel_bwd _ _ _ _ _ Rl Hx) as (h & Hh & _ & S & Cc). left. exists h.
      repeat split; [exact Hh|congruence|]. intros Hc. rewrite Cc, Hc. reflexivity.
    + exact (nohand_inert_cancels _ _ _ _ Heqp).
    + intros r t k Hin. destruct (Out _ Hin) as (? & ? & _). discriminate.
    + intros v _. now left.
  - (* EReaderGet *)
    eapply (Acct_quiet s); [exact I|reflexivity|reflexivity| |auto|auto|auto|nh| |].
    + unfold lo, pending_ids. proj_simpl. rewrite Heqr, Heql. reflexivity.
    + intros v [].
    + intros r t k0 [].
  - (* EReaderFail *)
    eapply (Acct_quiet s); [exact I|reflexivity|reflexivity| |auto|auto|auto|nh| |].
    + unfold lo, pending_ids. proj_simpl. rewrite Heqr. reflexivity.
    + intros v [].
    + intros r t k0 [].
  - (* EReaderQuit *)
    eapply (Acct_gen s); [exact I|..]; proj_simpl; try solve [auto | no_in | same_hs | (intros x f Hf; left; eauto)].
  - (* EArrive dup *)
    eapply (Acct_gen s); [exact I|..]; proj_simpl; try solve [auto | no_in | intros; congruence].
    + intros x Hlt. destruct (lo_arrive _ _ _ _ (set_pc (set_rd s RIdle) (SendImm {| f_rid := rid; f_tag := tag; f_pl := PErr err_duptag |})) Iids Heqr) with (x := x) as [Hx| ->]; auto.
      right. left. exists tag, k. now left.
    + intros x t k0 [Hin|[]]. injection Hin as <- _ _. right. left. eexists. split; reflexivity.
    + same_hs.
  - (* EArrive dispatch, ctx done *)
    eapply (Acct_gen s); [exact I|..]; proj_simpl; try solve [auto | no_in | intros; congruence].
    + intros x Hlt. destruct (lo_arrive _ _ _ _ (set_hs (set_tags (set_rd s RIdle) (<[tag:=rid]> (tags s))) (<[rid:={| h_tag := tag; h_st := HRun; h_canc := true |}]> (hs s))) Iids Heqr) with (x := x) as [Hx| ->]; auto.
      right. left. exists tag, (KReq m). now left.
    + intros x t k0 [Hin|[Hin|[Hin|[]]]]; try discriminate. injection Hin as <- _ _. left. rewrite lookup_insert. eauto.
    + intros x. apply insert_is_Some.
    + intros x h' Hx Hg. apply lookup_insert_Some in Hx as [[_ <-]|[_ Hx]]; [discriminate|]. left. exists h'. auto.
  - (* EArrive dispatch *)
    eapply (Acct_gen s); [exact I|..]; proj_simpl; try solve [auto | no_in | intros; congruence].
    + intros x Hlt. destruct (lo_arrive _ _ _ _ (set_hs (set_tags (set_rd s RIdle) (<[tag:=rid]> (tags s))) (<[rid:={| h_tag := tag; h_st := HRun; h_canc := false |}]> (hs s))) Iids Heqr) with (x := x) as [Hx| ->]; auto.
      right. left. exists tag, (KReq m). now left.
    + intros x t k0 [Hin|[Hin|[]]]; try discriminate. injection Hin as <- _ _. left. rewrite lookup_insert. eauto.
    + intros x. apply insert_is_Some.
    + intros x h' Hx Hg. apply lookup_insert_Some in Hx as [[_ <-]|[_ Hx]]; [discriminate|]. left. exists h'. auto.
  - (* EArrive flush of an outstanding tag *)
    pose proof (cancel_rid_rel _ _ _ _ Heqp0) as Rl. pose proof (cancel_rid_out _ _ _ _ Heqp0) as [Out _]. proj_simpl.
    rewrite (cancel_rid_frame _ _ _ _ Heqp0).
    eapply (Acct_gen s); [exact I|..]; proj_simpl; try solve [auto | intros; congruence].
    + intros x Hlt. destruct (lo_arrive _ _ _ _ (set_pc (set_hs (set_tags (set_rd s RIdle) (delete old (tags s))) (hs s0)) (SendImm {| f_rid := rid; f_tag := tag; f_pl := PFlushAck n |})) Iids Heqr) with (x := x) as [Hx| ->]; auto.
      right. left. exists tag, (KFlush old). now left.
    + intros x t k0 [Hin|Hin]; [|destruct (Out _ Hin) as [? _]; discriminate].
      injection Hin as <- _ _. right. left. eexists. split; reflexivity.
    + intros x [h Hx]. destruct (canc_rel_fwd _ _ _ _ _ Rl Hx) as (h' & Hh' & _). eauto.
    + intros x h' Hx Hg. destruct (canc_rel_bwd _ _ _ _ _ Rl Hx) as (h & Hh & _ & S & Cc). left. exists h.
      repeat split; [exact Hh|congruence|]. intros Hc. rewrite Cc, Hc. reflexivity.
    + intros f [Hin|Hin]; [discriminate|destruct (Out _ Hin) as [? _]; discriminate].
    + intros f [Hin|Hin]; [discriminate|destruct (Out _ Hin) as [? _]; discriminate].
    + intros v [Hin|Hin]; [discriminate|]. destruct (Out _ Hin) as [E _]. injection E as ->.
      right. right. eexists. split; [left; reflexivity|reflexivity].
  - (* EArrive flush of an unknown tag *)
    eapply (Acct_gen s); [exact I|..]; proj_simpl; try solve [auto | no_in | intros; congruence].
    + intros x Hlt. destruct (lo_arrive _ _ _ _ (set_pc (set_rd s RIdle) (SendImm {| f_rid := rid; f_tag := tag; f_pl := PErr err_unknowntag |})) Iids Heqr) with (x := x) as [Hx| ->]; auto.
      right. left. exists tag, (KFlush old). now left.
    + intros x t k0 [Hin|[]]. injection Hin as <- _ _. right. left. eexists. split; reflexivity.
    + same_hs.
  - (* EComplete, still the holder *)
    apply N.eqb_eq in Heqb. subst n.
    eapply (Acct_gen s); [exact I|..]; proj_simpl;
      try solve [auto | no_in | intros; congruence | (intros x Hlt; left; exact Hlt) | (intros x; apply insert_is_Some)].
    intros x h' Hx Hg. apply lookup_insert_Some in Hx as [[<- _]|[_ Hx]]; [|left; exists h'; auto].
    right. right. right. right. eexists. reflexivity.
  - (* EComplete, dropped *)
    eapply (Acct_hs s); [exact I|lo_eq|reflexivity|auto|auto|now left| | |nh| |]; proj_simpl; try solve [no_in].
    + intros x. apply insert_is_Some.
    + intros x h' Hx Hg. apply lookup_insert_Some in Hx as [[<- <-]|[_ Hx]]; [|left; exists h'; auto].
      right. left. cbn. destruct (h_canc h) eqn:Hc; [reflexivity|]. exfalso.
      assert (Ht : tags s !! h_tag h = Some rid) by (apply (c_live _ Ic rid h Heqo0); [congruence|exact Hc]).
      rewrite Heqo1 in Ht. injection Ht as ->. rewrite N.eqb_refl in Heqb. discriminate.
  - eapply (Acct_hs s); [exact I|lo_eq|reflexivity|auto|auto|now left| | |nh| |]; proj_simpl; try solve [no_in].
    + intros x. apply insert_is_Some.
    + intros x h' Hx Hg. apply lookup_insert_Some in Hx as [[<- <-]|[_ Hx]]; [|left; exists h'; auto].
      right. left. cbn. destruct (h_canc h) eqn:Hc; [reflexivity|]. exfalso.
      assert (Ht : tags s !! h_tag h = Some rid) by (apply (c_live _ Ic rid h Heqo0); [congruence|exact Hc]).
      congruence.
  - (* EGiveUp *)
    eapply (Acct_hs s); [exact I|lo_eq|reflexivity|auto|auto|now left| | |nh| |]; proj_simpl; try solve [no_in].
    + intros x. apply insert_is_Some.
    + intros x h' Hx Hg. apply lookup_insert_Some in Hx as [[<- <-]|[_ Hx]]; [|left; exists h'; auto].
      cbn. apply orb_true_iff in Heqb as [Hb|Hb]; [right; now left|right; right]. unfold fault. proj_simpl. rewrite Hb. reflexivity.
  - (* ETake, SendImm, ctx done *)
    eapply (Acct_gen s); [exact I|..]; proj_simpl;
      try solve [auto | no_in | intros; congruence | (intros x Hlt; left; exact Hlt) | same_hs
        | (intros g Hg; rewrite Heqp in Hg; injection Hg as <-; right; left; rewrite hand_ids_app; apply in_or_app; right; now left)
        | (intros g v Hg Hv; rewrite Heqp in Hg; injection Hg as <-; right; left; right; apply in_or_app; right; now left)].
  - (* ETake, SendImm *)
    eapply (Acct_gen s); [exact I|..]; proj_simpl;
      try solve [auto | no_in | intros; congruence | (intros x Hlt; left; exact Hlt) | same_hs
        | (intros g Hg; rewrite Heqp in Hg; injection Hg as <-; right; left; rewrite hand_ids_app; apply in_or_app; right; now left)
        | (intros g [Hin|[]]; injection Hin as <-; now left)
        | (intros g v Hg Hv; rewrite Heqp in Hg; injection Hg as <-; right; left; left; apply in_or_app; right; now left)].
  - (* ETake, SendDone, ctx done *)
    destruct (c_done _ Ic _ _ Heqp) as (Ehd & _).
    eapply (Acct_gen s); [exact I|..]; proj_simpl;
      try solve [auto | no_in | intros; congruence | (intros x Hlt; left; exact Hlt) | same_hs
        | (intros x g Hg; rewrite Heqp in Hg; injection Hg as <- <-; right; left; rewrite hand_ids_app; apply in_or_app; right; left; exact Ehd)].
  - (* ETake, SendDone *)
    destruct (c_done _ Ic _ _ Heqp) as (Ehd & _).
    eapply (Acct_gen s); [exact I|..]; proj_simpl;
      try solve [auto | no_in | intros; congruence | (intros x Hlt; left; exact Hlt) | same_hs
        | (intros x g Hg; rewrite Heqp in Hg; injection Hg as <- <-; right; left; rewrite hand_ids_app; apply in_or_app; right; left; exact Ehd)
        | (intros g [Hin|[]]; injection Hin as <-; now left)].
  - (* EDropDone *)
    eapply (Acct_gen s); [exact I|..]; proj_simpl;
      try solve [auto | no_in | intros; congruence | (intros x Hlt; left; exact Hlt) | same_hs
        | (intros x g Hg; rewrite Heqp in Hg; injection Hg as <- <-; right; right; right; eauto)].
  - (* EWriterQuit *)
    eapply (Acct_quiet s); [exact I|reflexivity|reflexivity|reflexivity|auto|auto| |nh| |].
    + proj_simpl. auto.
    + intros v [].
    + intros r t k0 [].
  - (* EReturn *)
    pose proof (cancel_list_rel _ _ _ _ Heqp) as Rl. pose proof (cancel_list_out _ _ _ _ Heqp) as [Out _]. proj_simpl.
    apply andb_prop in Heqb as [_ Hfault].
    rewrite (cancel_list_frame _ _ _ _ Heqp).
    eapply (Acct_hs s); [exact I|lo_eq|reflexivity|auto|auto| | | | | |]; proj_simpl.
    + right. split; [reflexivity|]. split; [exact Hfault|]. intros x f Hf.
      destruct (c_done _ Ic _ _ Hf) as (_ & Ht & h & Hh & _).
      destruct (canc_rel_fwd _ _ _ _ _ Rl Hh) as (h' & Hh' & _ & _ & Cc). exists h'. split; [exact Hh'|].
      rewrite Cc, (existsb_eqb_in _ _ (in_vals _ _ _ Ht)). apply orb_true_r.
    + intros x [h Hx]. destruct (canc_rel_fwd _ _ _ _ _ Rl Hx) as (h' & Hh' & _). eauto.
    + intros x h' Hx Hg. destruct (canc_rel_bwd _ _ _ _ _ Rl Hx) as (h & Hh & _ & S & Cc). left. exists h.
      repeat split; [exact Hh|congruence|]. intros Hc. rewrite Cc, Hc. reflexivity.
    + apply nohand_app; [exact (nohand_inert_cancels _ _ _ _ Heqp)|nh].
    + intros r t k Hin. apply in_app_or in Hin as [Hin|[Hin|[]]]; [|discriminate]. destruct (Out _ Hin) as (? & ? & _). discriminate.
    + intros v _. now right.
  - (* EStop *)
    eapply (Acct_quiet s); [exact I|reflexivity|reflexivity|reflexivity|auto|auto|auto|nh| |].
    + intros v [H|[]]; discriminate.
    + intros r t k [H|[]]; discriminate.
Qed.

Lemma reach_Acct s tr : reach s tr -> Acct s tr.
Proof.
  induction 1 as [|s tr e s' o Hr IH Hs]; [apply Acct_init|].
  eapply step_Acct; eauto; [eapply reach_SInv|eapply reach_Hist|eapply reach_Frames]; eauto.
Qed.
