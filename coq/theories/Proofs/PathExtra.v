(* Additional lemmas about Model/Path.v (Go's path.Clean / path.Join on byte
   strings) needed by C15/C19: what Clean makes of an absolute string, that it is
   the identity on canonical paths, and how Join acts on rendered component lists. *)
From Coq Require Import List NArith ZArith Bool Lia.
From P9 Require Import Base.Res Model.Path Proofs.PathProofs.
Import ListNotations.
Open Scope N_scope.

Definition noslash (c : bstr) : Prop := ~ In SLASH c.
(* not "", "." or ".." *)
Definition okc (c : bstr) : Prop := c <> [] /\ c <> [DOT] /\ c <> DOTDOT.
(* a component of a cleaned absolute path *)
Definition okcomp (c : bstr) : Prop := okc c /\ noslash c.

Definition nonemptyb (e : bstr) : bool := negb (is_empty e).

Lemma okc_flags c : okc c -> is_empty c = false /\ is_dot c = false /\ is_dotdot c = false.
Proof.
  intros (H1 & H2 & H3). repeat split.
  - destruct (is_empty c) eqn:E; auto. apply is_empty_spec in E; contradiction.
  - destruct (is_dot c) eqn:E; auto. apply is_dot_spec in E; contradiction.
  - destruct (is_dotdot c) eqn:E; auto. apply is_dotdot_spec in E; contradiction.
Qed.

Lemma flags_okc c : is_empty c = false -> is_dot c = false -> is_dotdot c = false -> okc c.
Proof.
  intros E1 E2 E3. repeat split; intros ->.
  - discriminate.
  - discriminate.
  - discriminate.
Qed.

(* ---------- strings.Split / Join ---------- *)

Lemma join_cons x r : r <> [] -> join_slash (x :: r) = x ++ SLASH :: join_slash r.
Proof. destruct r; [congruence|reflexivity]. Qed.

Lemma split_aux_app a : forall b cur,
  split_slash_aux (a ++ SLASH :: b) cur = split_slash_aux a cur ++ split_slash_aux b [].
Proof.
  induction a as [|c a IH]; intros b cur; simpl.
  - reflexivity.
  - destruct (c =? SLASH).
    + simpl. rewrite IH. reflexivity.
    + apply IH.
Qed.

Lemma split_app a b : split_slash (a ++ SLASH :: b) = split_slash a ++ split_slash b.
Proof. apply split_aux_app. Qed.

Lemma rev_append_nil (l : bstr) : rev_append l [] = rev l.
Proof. rewrite rev_append_rev. apply app_nil_r. Qed.

Lemma split_aux_noslash a : forall cur, noslash a -> split_slash_aux a cur = [rev cur ++ a].
Proof.
  induction a as [|c a IH]; intros cur Hn; simpl.
  - rewrite ?rev_append_nil, app_nil_r. reflexivity.
  - destruct (N.eqb_spec c SLASH) as [->|Hc].
    + exfalso. apply Hn. left; reflexivity.
    + rewrite IH.
      * simpl. rewrite <- app_assoc. reflexivity.
      * intros Hin. apply Hn. right; exact Hin.
Qed.

Lemma split_noslash a : noslash a -> split_slash a = [a].
Proof. intros Hn. unfold split_slash. rewrite split_aux_noslash by auto. reflexivity. Qed.

Lemma split_join cs : Forall noslash cs -> cs <> [] -> split_slash (join_slash cs) = cs.
Proof.
  induction cs as [|c cs IH]; intros Hf Hne; [congruence|].
  inversion Hf as [|? ? Hc Hcs]; subst.
  destruct cs as [|d cs'].
  - simpl. apply split_noslash; auto.
  - rewrite join_cons by congruence. rewrite split_app. rewrite split_noslash by auto.
    rewrite IH by (auto; congruence). reflexivity.
Qed.

Lemma split_aux_noslash_all s : forall cur, noslash cur -> Forall noslash (split_slash_aux s cur).
Proof.
  induction s as [|c s IH]; intros cur Hn; simpl; rewrite ?rev_append_nil.
  - constructor; [|constructor]. intros Hin. apply Hn. apply in_rev. exact Hin.
  - destruct (N.eqb_spec c SLASH) as [->|Hc].
    + constructor.
      * intros Hin. apply Hn. apply in_rev. exact Hin.
      * apply IH. intros [].
    + apply IH. intros [Heq|Hin]; [congruence|auto].
Qed.

Lemma split_noslash_all s : Forall noslash (split_slash s).
Proof. apply split_aux_noslash_all. intros []. Qed.

Lemma split_aux_chars s : forall cur c x, In c (split_slash_aux s cur) -> In x c -> In x s \/ In x cur.
Proof.
  induction s as [|c0 s IH]; intros cur c x Hc Hx; simpl in Hc; rewrite ?rev_append_nil in Hc.
  - destruct Hc as [<-|[]]. right. apply in_rev. exact Hx.
  - destruct (c0 =? SLASH).
    + destruct Hc as [<-|Hc].
      * right. apply in_rev. exact Hx.
      * destruct (IH [] c x Hc Hx) as [H|[]]. left; right; exact H.
    + destruct (IH (c0 :: cur) c x Hc Hx) as [H|[H|H]].
      * left; right; exact H.
      * left; left; exact H.
      * right; exact H.
Qed.

Lemma split_chars s c x : In c (split_slash s) -> In x c -> In x s.
Proof. intros Hc Hx. destruct (split_aux_chars s [] c x Hc Hx) as [H|[]]. exact H. Qed.

Lemma join_chars cs : forall c x, In c cs -> In x c -> In x (join_slash cs).
Proof.
  induction cs as [|d cs IH]; intros c x Hc Hx; [destruct Hc|].
  destruct cs as [|e cs'].
  - destruct Hc as [<-|[]]. exact Hx.
  - rewrite join_cons by congruence. apply in_or_app.
    destruct Hc as [<-|Hc]; [left; exact Hx|].
    right. right. apply (IH c x Hc Hx).
Qed.

(* ---------- path.Clean on absolute strings ---------- *)

Lemma clean_step_empty stk : clean_step true stk [] = stk.
Proof. reflexivity. Qed.

Lemma clean_step_okc c stk : okc c -> clean_step true stk c = c :: stk.
Proof.
  intros Hc. destruct (okc_flags c Hc) as (E1 & E2 & E3).
  unfold clean_step. rewrite E1, E2, E3. reflexivity.
Qed.

Lemma fold_skip_push l : forall stk, Forall (fun c => c = [] \/ okc c) l ->
  fold_left (clean_step true) l stk = rev (filter nonemptyb l) ++ stk.
Proof.
  induction l as [|c l IH]; intros stk Hf; simpl; [reflexivity|].
  inversion Hf as [|? ? Hc Hl]; subst.
  destruct Hc as [->|Hc].
  - simpl. apply IH; auto.
  - rewrite clean_step_okc by auto. rewrite IH by auto.
    destruct (okc_flags c Hc) as (E1 & _). unfold nonemptyb at 2. rewrite E1. simpl.
    rewrite <- app_assoc. reflexivity.
Qed.

(* whatever is fed to Clean's loop, the stack only ever holds proper components *)
Lemma fold_clean_inv (Q : bstr -> Prop) l : forall stk,
  Forall Q l -> Forall (fun c => okc c /\ Q c) stk ->
  Forall (fun c => okc c /\ Q c) (fold_left (clean_step true) l stk).
Proof.
  induction l as [|c l IH]; intros stk Hl Hs; simpl; [exact Hs|].
  inversion Hl as [|? ? Hc Hl']; subst.
  apply IH; [exact Hl'|].
  unfold clean_step.
  destruct (is_empty c) eqn:E1; simpl; [exact Hs|].
  destruct (is_dot c) eqn:E2; simpl; [exact Hs|].
  destruct (is_dotdot c) eqn:E3.
  - destruct stk as [|top rest]; [constructor|].
    inversion Hs as [|? ? [Ht _] Hr]; subst.
    destruct (okc_flags top Ht) as (_ & _ & E). rewrite E. exact Hr.
  - constructor; [|exact Hs]. split; [apply flags_okc; auto|exact Hc].
Qed.

Definition rendered (cs : list bstr) : bstr := SLASH :: join_slash cs.

Lemma clean_abs_fold s :
  path_clean (SLASH :: s) = rendered (rev (fold_left (clean_step true) (split_slash s) [])).
Proof.
  unfold path_clean. rewrite N.eqb_refl.
  change (split_slash (SLASH :: s)) with (split_slash_aux (SLASH :: s) []).
  simpl. reflexivity.
Qed.

(* Clean of ANY absolute string is "/" followed by proper components made of the string's bytes *)
Lemma clean_abs_canon s : exists cs,
  path_clean (SLASH :: s) = rendered cs /\ Forall okcomp cs /\ (forall c x, In c cs -> In x c -> In x s).
Proof.
  exists (rev (fold_left (clean_step true) (split_slash s) [])).
  split; [apply clean_abs_fold|].
  pose proof (fold_clean_inv (fun c => noslash c /\ forall x, In x c -> In x s) (split_slash s) []) as Hinv.
  assert (Hq : Forall (fun c => noslash c /\ (forall x, In x c -> In x s)) (split_slash s)).
  { apply Forall_forall. intros c Hc. split.
    - pose proof (split_noslash_all s) as Hn. rewrite Forall_forall in Hn. apply Hn; auto.
    - intros x Hx. apply (split_chars s c x Hc Hx). }
  specialize (Hinv Hq (Forall_nil _)).
  rewrite Forall_forall in Hinv.
  split.
  - apply Forall_forall. intros c Hc. apply in_rev in Hc. destruct (Hinv c Hc) as (Ho & Hn & _). split; auto.
  - intros c x Hc Hx. apply in_rev in Hc. destruct (Hinv c Hc) as (_ & _ & Hch). auto.
Qed.

Lemma okcomp_or cs : Forall okcomp cs -> Forall (fun c => c = [] \/ okc c) cs.
Proof. intros Hf. eapply Forall_impl; [|exact Hf]. intros c [Ho _]. right; exact Ho. Qed.

Lemma filter_okcomp cs : Forall okcomp cs -> filter nonemptyb cs = cs.
Proof.
  induction cs as [|c cs IH]; intros Hf; [reflexivity|].
  inversion Hf as [|? ? [Hc _] Hcs]; subst. simpl.
  destruct (okc_flags c Hc) as (E1 & _). unfold nonemptyb at 1. rewrite E1. simpl. rewrite IH; auto.
Qed.

(* the pieces of a joined component list, as Clean's loop sees them *)
Lemma split_join_facts cs : Forall okcomp cs ->
  Forall (fun c => c = [] \/ okc c) (split_slash (join_slash cs)) /\
  filter nonemptyb (split_slash (join_slash cs)) = cs.
Proof.
  intros Hf. destruct cs as [|c cs'].
  - simpl. split; [constructor; [left; reflexivity|constructor]|reflexivity].
  - rewrite split_join.
    + split; [apply okcomp_or; auto|apply filter_okcomp; auto].
    + eapply Forall_impl; [|exact Hf]. intros a [_ Hn]; exact Hn.
    + congruence.
Qed.

(* Clean is the identity on canonical paths *)
Lemma clean_rendered cs : Forall okcomp cs -> path_clean (rendered cs) = rendered cs.
Proof.
  intros Hf. unfold rendered at 1. rewrite clean_abs_fold.
  destruct (split_join_facts cs Hf) as (Ha & Hb).
  rewrite fold_skip_push by exact Ha. rewrite Hb. rewrite app_nil_r, rev_involutive. reflexivity.
Qed.

Lemma path_join2 a b : a <> [] -> b <> [] -> path_join [a; b] = path_clean (a ++ SLASH :: b).
Proof. intros Ha Hb. destruct a; [congruence|]. destruct b; [congruence|]. reflexivity. Qed.

(* Join(base, p) of two rendered lists: the concatenation (filepath.Join(Base, p) in ufs) *)
Lemma join_rendered bcs cs : Forall okcomp bcs -> Forall okcomp cs ->
  path_join [rendered bcs; rendered cs] = rendered (bcs ++ cs).
Proof.
  intros Hb Hc. rewrite path_join2 by (unfold rendered; discriminate).
  unfold rendered at 1 2.
  change ((SLASH :: join_slash bcs) ++ SLASH :: SLASH :: join_slash cs)
    with (SLASH :: (join_slash bcs ++ SLASH :: ([] ++ SLASH :: join_slash cs))).
  rewrite clean_abs_fold. rewrite !split_app.
  change (split_slash []) with [@nil N].
  destruct (split_join_facts bcs Hb) as (Ha1 & Ha2).
  destruct (split_join_facts cs Hc) as (Hc1 & Hc2).
  rewrite fold_skip_push.
  - rewrite filter_app. simpl. rewrite Ha2, Hc2. rewrite app_nil_r, rev_involutive. reflexivity.
  - apply Forall_app. split; [exact Ha1|]. simpl. constructor; [left; reflexivity|exact Hc1].
Qed.
