(* Lemmas about Model/Readdir.v.  Property statements are in Properties/C17.v. *)
From Coq Require Import List NArith ZArith Bool Lia ZifyBool ZifyNat ZifyN.
From P9 Require Import Base.Res Model.Readdir.
Import ListNotations.
Open Scope N_scope.

(* ---- vocabulary of the statements ---- *)

(* [lists_script script ds]: an error-free run of the underlying iterator that lists
   exactly ds: non-empty batches, ended by an empty batch (whatever the iterator would
   say after that) or by the exhaustion of the script (which answers the empty batch). *)
Inductive lists_script {E} : list (batch E) -> list E -> Prop :=
| LS_end : lists_script [] []
| LS_empty rest : lists_script (BOk [] :: rest) []
| LS_batch b s ds : b <> [] -> lists_script s ds -> lists_script (BOk b :: s) (b ++ ds).

(* the bytes a reply carries *)
Definition reply_bytes {E} (enc : E -> list N) (r : rdres E) : list N :=
  match r with RdData t _ => enc_all enc t | _ => [] end.
Definition ok_reply {E} (g : list E) : rdres E := RdData g None.

(* every entry's encoding fits in count bytes *)
Definition fits {E} (enc : E -> list N) (ds : list E) (count : N) : Prop :=
  Forall (fun d => blen (enc d) <= count) ds.

(* NewFixedReaddir(codec, ds) lists ds *)
Lemma fixed_lists {E} (ds : list E) : lists_script [BOk ds] ds.
Proof.
  destruct ds as [|d r]; [apply LS_empty|].
  rewrite <- (app_nil_r (d :: r)) at 2. apply LS_batch; [discriminate|apply LS_end].
Qed.

Lemma read_bad_offset {E} (enc : E -> list N) (st : rdst E) count off :
  r_off st <> off -> read enc st count off = (RdBadOff, st).
Proof.
  intros H. unfold read. destruct (Z.eqb_spec (r_off st) off); [contradiction|reflexivity].
Qed.

Lemma blen_app (a b : list N) : blen (a ++ b) = blen a + blen b.
Proof. unfold blen. rewrite app_length. lia. Qed.
Lemma blen_nil_iff (a : list N) : blen a = 0 <-> a = [].
Proof. unfold blen. destruct a; simpl; split; intros H; try reflexivity; try discriminate; lia. Qed.

Section RD.
Context {E : Type} (enc : E -> list N).

Lemma enc_all_app (a b : list E) : enc_all enc (a ++ b) = enc_all enc a ++ enc_all enc b.
Proof. unfold enc_all. rewrite map_app, concat_app. reflexivity. Qed.
Lemma enc_all_cons d (a : list E) : enc_all enc (d :: a) = enc d ++ enc_all enc a.
Proof. reflexivity. Qed.
Lemma enc_all_concat (gs : list (list E)) : enc_all enc (concat gs) = concat (map (enc_all enc) gs).
Proof. induction gs as [|g gs IH]; simpl; auto. rewrite enc_all_app, IH. reflexivity. Qed.

(* ---- what the iterator state will still deliver ---- *)
Fixpoint sflat (s : list (batch E)) : list E :=
  match s with BOk (d :: r) :: s' => (d :: r) ++ sflat s' | _ => [] end.
Fixpoint sclean (s : list (batch E)) : bool :=
  match s with BOk (_ :: _) :: s' => sclean s' | BErr _ :: _ => false | _ => true end.

Lemma lists_script_flat script ds : lists_script script ds -> sclean script = true /\ sflat script = ds.
Proof.
  induction 1 as [|rest|b s ds Hb _ [IH1 IH2]]; simpl; auto.
  destruct b as [|d r]; [contradiction|]. simpl. rewrite IH2. auto.
Qed.

Definition nx_pend (nx : nx1 E) : list E := if n_done nx then [] else n_dirs nx ++ sflat (n_script nx).
Definition nx_clean (nx : nx1 E) : bool := n_done nx || sclean (n_script nx).
Definition nx_weight (nx : nx1 E) : nat := length (n_dirs nx) + script_weight (n_script nx).
Definition buf_list (buf : option E) : list E := match buf with Some d => [d] | None => [] end.
Definition pend (nx : nx1 E) (buf : option E) : list E := buf_list buf ++ nx_pend nx.

Lemma next1_spec nx : nx_clean nx = true ->
  match nx_pend nx with
  | [] => exists nx', next1 nx = (Eof, nx') /\ nx_pend nx' = [] /\ nx_clean nx' = true
  | d :: r => exists nx', next1 nx = (Got d, nx') /\ nx_pend nx' = r /\ nx_clean nx' = true
                          /\ (nx_weight nx' < nx_weight nx)%nat
  end.
Proof.
  destruct nx as [dirs done script]. unfold nx_clean, nx_pend, next1, nx_weight. cbn [n_done n_dirs n_script].
  intros Hc. destruct done.
  - eexists; repeat split; reflexivity.
  - destruct dirs as [|d r].
    + destruct script as [|[[|d r]|e] sc]; cbn [app sflat].
      * eexists; repeat split; reflexivity.
      * eexists; repeat split; reflexivity.
      * eexists; repeat split; cbn [n_done n_dirs n_script]; auto;
        cbn [script_weight batch_weight length]; try lia.
      * simpl in Hc. discriminate.
    + cbn [app]. eexists; repeat split; cbn [n_done n_dirs n_script]; auto; cbn [length]; try lia.
Qed.

(* ---- the abstract reader: take whole entries while they fit ---- *)
Fixpoint take_fit (cap plen : N) (ds : list E) : list E * list E :=
  match ds with
  | [] => ([], [])
  | d :: r =>
      if plen <? cap then
        if cap <? plen + blen (enc d) then ([], ds)
        else let '(t, rest) := take_fit cap (plen + blen (enc d)) r in (d :: t, rest)
      else ([], ds)
  end.

Lemma take_fit_app cap ds : forall plen, fst (take_fit cap plen ds) ++ snd (take_fit cap plen ds) = ds.
Proof.
  induction ds as [|d r IH]; intros plen; cbn [take_fit]; auto.
  destruct (plen <? cap); [|reflexivity].
  destruct (cap <? plen + blen (enc d)); [reflexivity|].
  specialize (IH (plen + blen (enc d))). destruct (take_fit cap (plen + blen (enc d)) r) as [t rest].
  simpl in *. rewrite IH. reflexivity.
Qed.

Lemma take_fit_len cap ds : forall plen, plen <= cap ->
  plen + blen (enc_all enc (fst (take_fit cap plen ds))) <= cap.
Proof.
  induction ds as [|d r IH]; intros plen Hp; cbn [take_fit].
  - simpl. unfold blen; simpl. lia.
  - destruct (plen <? cap) eqn:E1; [|unfold blen; simpl; lia].
    destruct (cap <? plen + blen (enc d)) eqn:E2; [unfold blen; simpl; lia|].
    assert (Hle : plen + blen (enc d) <= cap) by lia.
    specialize (IH _ Hle). destruct (take_fit cap (plen + blen (enc d)) r) as [t rest].
    cbn [fst] in *. rewrite enc_all_cons, blen_app. lia.
Qed.

Lemma take_fit_nil cap plen : take_fit cap plen [] = ([], []).
Proof. reflexivity. Qed.

(* the premise of the property gives progress: a non-empty pending list yields a non-empty reply *)
Lemma take_fit_progress cap d r : blen (enc d) <= cap -> enc d <> [] ->
  exists t rest, take_fit cap 0 (d :: r) = (d :: t, rest).
Proof.
  intros Hfit Hne. cbn [take_fit].
  assert (0 < blen (enc d)).
  { destruct (N.eq_dec (blen (enc d)) 0) as [Hz|Hz]; [apply blen_nil_iff in Hz; contradiction|lia]. }
  destruct (0 <? cap) eqn:E1; [|lia].
  destruct (cap <? 0 + blen (enc d)) eqn:E2; [lia|].
  destruct (take_fit cap (0 + blen (enc d)) r) as [t rest]. eauto.
Qed.

(* ---- the loop of Read refines take_fit ---- *)
Lemma read_loop_spec cap : forall fuel plen nx buf,
  nx_clean nx = true ->
  (length (buf_list buf) + nx_weight nx < fuel)%nat ->
  exists nx' buf',
    read_loop enc fuel cap plen nx buf = Some (fst (take_fit cap plen (pend nx buf)), None, nx', buf')
    /\ pend nx' buf' = snd (take_fit cap plen (pend nx buf))
    /\ nx_clean nx' = true.
Proof.
  induction fuel as [|f IH]; intros plen nx buf Hc Hw; [lia|].
  cbn [read_loop].
  destruct (plen <? cap) eqn:E1.
  2:{ exists nx, buf. unfold pend at 1 3. destruct (buf_list buf ++ nx_pend nx) as [|d r] eqn:Ep.
      - cbn [take_fit fst snd]. unfold pend. rewrite Ep. auto.
      - cbn [take_fit]. rewrite E1. cbn [fst snd]. unfold pend. rewrite Ep. auto. }
  (* one iteration: where does the entry come from *)
  assert (Hstep : forall d nx1 rest,
            pend nx buf = d :: rest -> nx_pend nx1 = rest -> nx_clean nx1 = true ->
            (nx_weight nx1 < f)%nat ->
            exists nx' buf',
              (if cap <? plen + blen (enc d) then Some ([], None, nx1, Some d)
               else match read_loop enc f cap (plen + blen (enc d)) nx1 None with
                    | Some (t, err, nx'', buf'') => Some (d :: t, err, nx'', buf'')
                    | None => None
                    end) = Some (fst (take_fit cap plen (pend nx buf)), None, nx', buf')
              /\ pend nx' buf' = snd (take_fit cap plen (pend nx buf)) /\ nx_clean nx' = true).
  { intros d nx1 rest Hp Hr Hc1 Hw1. rewrite Hp. cbn [take_fit]. rewrite E1.
    destruct (cap <? plen + blen (enc d)) eqn:E2.
    - exists nx1, (Some d). cbn [fst snd]. unfold pend. simpl. rewrite Hr. auto.
    - destruct (IH (plen + blen (enc d)) nx1 None Hc1) as (nx' & buf' & Hl & Hpd & Hcl).
      { simpl. lia. }
      assert (Hpn : pend nx1 None = rest) by (unfold pend; simpl; auto).
      rewrite Hpn in Hl, Hpd. rewrite Hl.
      destruct (take_fit cap (plen + blen (enc d)) rest) as [t rest'].
      exists nx', buf'. cbn [fst snd] in *. auto. }
  destruct buf as [d|].
  - apply (Hstep d nx (nx_pend nx)); auto. simpl in Hw. lia.
  - pose proof (next1_spec nx Hc) as Hn.
    assert (Hpn : pend nx None = nx_pend nx) by reflexivity. rewrite Hpn in *.
    destruct (nx_pend nx) as [|d r] eqn:Ep.
    + destruct Hn as (nx' & Hn & Hp' & Hc'). rewrite Hn.
      exists nx', None. cbn [take_fit fst snd]. unfold pend. simpl. auto.
    + destruct Hn as (nx' & Hn & Hp' & Hc' & Hw'). rewrite Hn.
      apply (Hstep d nx' r); auto. simpl in Hw. lia.
Qed.

Definition st_pend (st : rdst E) : list E := pend (r_nx st) (r_buf st).
Definition st_clean (st : rdst E) : bool := nx_clean (r_nx st).

Lemma read_spec st count :
  st_clean st = true ->
  exists st',
    read enc st count (r_off st) = (ok_reply (fst (take_fit count 0 (st_pend st))), st')
    /\ st_pend st' = snd (take_fit count 0 (st_pend st))
    /\ st_clean st' = true
    /\ r_off st' = (r_off st + Z.of_N (blen (enc_all enc (fst (take_fit count 0 (st_pend st))))))%Z.
Proof.
  intros Hc. unfold read. rewrite Z.eqb_refl.
  destruct (read_loop_spec count (read_fuel (r_nx st) (r_buf st)) 0 (r_nx st) (r_buf st) Hc)
    as (nx' & buf' & Hl & Hp & Hc').
  { unfold read_fuel, nx_weight. destruct (r_buf st); simpl; lia. }
  rewrite Hl. eexists. split; [reflexivity|]. unfold st_pend, st_clean. cbn [r_nx r_buf r_off]. auto.
Qed.

(* ---- a sequence of reads at the reader's own running offset ---- *)
Fixpoint chunks (counts : list N) (ds : list E) : list (list E) :=
  match counts with
  | [] => []
  | c :: cs => fst (take_fit c 0 ds) :: chunks cs (snd (take_fit c 0 ds))
  end.

Lemma run_reads_spec : forall counts st off,
  st_clean st = true -> r_off st = off ->
  fst (run_reads enc st off counts) = map ok_reply (chunks counts (st_pend st)).
Proof.
  induction counts as [|c cs IH]; intros st off Hc Ho; [reflexivity|].
  cbn [run_reads chunks map]. subst off.
  destruct (read_spec st c Hc) as (st' & Hr & Hp & Hc' & Ho'). rewrite Hr.
  unfold ok_reply at 1.
  specialize (IH st' (r_off st + Z.of_N (blen (enc_all enc (fst (take_fit c 0 (st_pend st))))))%Z Hc' Ho').
  destruct (run_reads enc st' _ cs) as [rs st'']. cbn [fst] in *. rewrite IH, Hp. reflexivity.
Qed.

Lemma new_readdir_pend script ds : lists_script script ds ->
  st_clean (new_readdir script) = true /\ st_pend (new_readdir script) = ds.
Proof.
  intros H. destruct (lists_script_flat _ _ H) as [H1 H2].
  unfold st_clean, st_pend, new_readdir, nx_clean, pend, nx_pend. simpl. rewrite H1, H2. auto.
Qed.

(* ---- properties of chunks ---- *)
Lemma chunks_prefix : forall counts ds, exists rest, concat (chunks counts ds) ++ rest = ds.
Proof.
  induction counts as [|c cs IH]; intros ds; cbn [chunks concat].
  - exists ds. reflexivity.
  - destruct (IH (snd (take_fit c 0 ds))) as [rest Hr]. exists rest.
    rewrite <- app_assoc, Hr. apply take_fit_app.
Qed.

Lemma chunks_sizes : forall counts ds,
  Forall2 (fun g c => blen (enc_all enc g) <= c) (chunks counts ds) counts.
Proof.
  induction counts as [|c cs IH]; intros ds; cbn [chunks]; constructor; auto.
  pose proof (take_fit_len c ds 0). lia.
Qed.

Lemma chunks_length counts ds : length (chunks counts ds) = length counts.
Proof. revert ds; induction counts as [|c cs IH]; intros ds; simpl; auto. Qed.

Lemma prefix_firstn {A} (a rest ds : list A) : a ++ rest = ds -> a = firstn (length a) ds.
Proof. intros <-. rewrite firstn_app, Nat.sub_diag, firstn_all. simpl. rewrite app_nil_r. reflexivity. Qed.

Lemma Forall_suffix {A} (P : A -> Prop) (a b : list A) : Forall P (a ++ b) -> Forall P b.
Proof. intros H. apply Forall_app in H. tauto. Qed.

Lemma take_fit_empty_all c ds :
  fits enc ds c -> Forall (fun d => enc d <> []) ds ->
  fst (take_fit c 0 ds) = [] -> ds = [].
Proof.
  intros Hf Hn Ht. destruct ds as [|d r]; auto.
  inversion Hf; subst. inversion Hn; subst.
  destruct (take_fit_progress c d r) as (t & rest & Heq); auto. rewrite Heq in Ht. discriminate.
Qed.

Lemma chunks_progress : forall counts ds i,
  Forall (fits enc ds) counts -> Forall (fun d => enc d <> []) ds ->
  nth_error (chunks counts ds) i = Some [] ->
  concat (firstn i (chunks counts ds)) = ds.
Proof.
  induction counts as [|c cs IH]; intros ds i Hf Hn Hi.
  - destruct i; discriminate.
  - cbn [chunks] in *. inversion Hf as [|? ? Hfc Hfcs]; subst.
    pose proof (take_fit_app c ds 0) as Happ.
    destruct i as [|i]; cbn [nth_error firstn concat] in *.
    + inversion Hi as [Hi']. pose proof (take_fit_empty_all c ds Hfc Hn Hi') as Hnil.
      rewrite Hnil. reflexivity.
    + rewrite IH; auto.
      * eapply Forall_impl; [|exact Hfcs]. intros a Ha. unfold fits in *. rewrite <- Happ in Ha.
        eapply Forall_suffix; eauto.
      * rewrite <- Happ in Hn. eapply Forall_suffix; eauto.
Qed.

Lemma chunks_of_nil counts : Forall (fun g => g = []) (chunks counts []).
Proof. induction counts; simpl; constructor; auto. Qed.

Lemma chunks_bound : forall counts ds,
  Forall (fits enc ds) counts -> Forall (fun d => enc d <> []) ds ->
  (length ds < length counts)%nat ->
  exists i, (i <= length ds)%nat /\ nth_error (chunks counts ds) i = Some [].
Proof.
  induction counts as [|c cs IH]; intros ds Hf Hn Hl; [simpl in Hl; lia|].
  cbn [chunks]. inversion Hf as [|? ? Hfc Hfcs]; subst.
  destruct ds as [|d r].
  - exists 0%nat. split; auto.
  - inversion Hfc; subst. inversion Hn; subst.
    destruct (take_fit_progress c d r) as (t & rest & Heq); auto.
    pose proof (take_fit_app c (d :: r) 0) as Happ. rewrite Heq in *. cbn [fst snd] in *.
    destruct (IH rest) as (i & Hi & Hnth).
    + eapply Forall_impl; [|exact Hfcs]. intros a Ha. unfold fits in *. rewrite <- Happ in Ha.
      eapply (Forall_suffix _ (d :: t)); eauto.
    + rewrite <- Happ in Hn. eapply (Forall_suffix _ (d :: t)); eauto.
    + apply (f_equal (@length E)) in Happ. rewrite app_length in Happ. simpl in *. lia.
    + exists (S i). split; [|exact Hnth].
      apply (f_equal (@length E)) in Happ. rewrite app_length in Happ. simpl in *. lia.
Qed.

Lemma chunks_complete counts ds :
  Forall (fits enc ds) counts -> Forall (fun d => enc d <> []) ds ->
  (In [] (chunks counts ds) \/ (length ds < length counts)%nat) ->
  concat (chunks counts ds) = ds.
Proof.
  intros Hf Hn H.
  assert (Hi : exists i, nth_error (chunks counts ds) i = Some []).
  { destruct H as [H|H].
    - apply In_nth_error in H. exact H.
    - destruct (chunks_bound counts ds Hf Hn H) as (i & _ & Hi). eauto. }
  destruct Hi as [i Hi]. pose proof (chunks_progress counts ds i Hf Hn Hi) as Hp.
  destruct (chunks_prefix counts ds) as [rest Hr].
  rewrite <- (firstn_skipn i (chunks counts ds)) in Hr |- *. rewrite concat_app in *. rewrite Hp in *.
  rewrite <- app_assoc in Hr.
  assert (Hr' : ds ++ (concat (skipn i (chunks counts ds)) ++ rest) = ds ++ []) by (rewrite app_nil_r; exact Hr).
  apply app_inv_head in Hr'.
  apply app_eq_nil in Hr'. destruct Hr' as [Hr' _]. rewrite Hr'. apply app_nil_r.
Qed.

(* ---- the statements of C17, server side ---- *)
Definition replies (script : list (batch E)) (counts : list N) : list (rdres E) :=
  fst (run_reads enc (new_readdir script) 0%Z counts).

Lemma replies_chunks script ds counts : lists_script script ds ->
  replies script counts = map ok_reply (chunks counts ds).
Proof.
  intros H. destruct (new_readdir_pend _ _ H) as [Hc Hp]. unfold replies.
  rewrite (run_reads_spec counts (new_readdir script) 0%Z Hc eq_refl), Hp. reflexivity.
Qed.

Lemma reply_bytes_ok (gs : list (list E)) : map (reply_bytes enc) (map ok_reply gs) = map (enc_all enc) gs.
Proof. rewrite map_map. reflexivity. Qed.

Lemma In_ok_reply_nil (gs : list (list E)) : In (ok_reply []) (map ok_reply gs) -> In ([] : list E) gs.
Proof.
  intros H. apply in_map_iff in H. destruct H as (g & Hg & Hin). unfold ok_reply in Hg.
  inversion Hg; subst. exact Hin.
Qed.

Lemma stream script ds counts :
  lists_script script ds -> Forall (fun d => enc d <> []) ds -> Forall (fits enc ds) counts ->
  (* no read fails *)
  (forall r, In r (replies script counts) -> exists g, r = ok_reply g)
  (* what has been returned is always a prefix of the listing's encoding ... *)
  /\ (exists k, concat (map (reply_bytes enc) (replies script counts)) = enc_all enc (firstn k ds))
  (* ... and all of it once a reply was empty, which happens within |ds|+1 reads *)
  /\ ((In (ok_reply []) (replies script counts) \/ (length ds < length counts)%nat) ->
      concat (map (reply_bytes enc) (replies script counts)) = enc_all enc ds).
Proof.
  intros Hs Hn Hf. rewrite (replies_chunks _ _ counts Hs). repeat split.
  - intros r Hr. apply in_map_iff in Hr. destruct Hr as (g & Hg & _). eauto.
  - destruct (chunks_prefix counts ds) as [rest Hr]. exists (length (concat (chunks counts ds))).
    rewrite reply_bytes_ok, <- enc_all_concat. f_equal. eapply prefix_firstn; eauto.
  - intros H. rewrite reply_bytes_ok, <- enc_all_concat. f_equal. apply chunks_complete; auto.
    destruct H as [H|H]; [left; apply In_ok_reply_nil; exact H|right; exact H].
Qed.

Lemma whole script ds counts :
  lists_script script ds ->
  exists groups,
    replies script counts = map ok_reply groups
    /\ (exists k, concat groups = firstn k ds)
    /\ Forall2 (fun g c => blen (enc_all enc g) <= c) groups counts.
Proof.
  intros Hs. exists (chunks counts ds). rewrite (replies_chunks _ _ counts Hs). repeat split.
  - destruct (chunks_prefix counts ds) as [rest Hr]. exists (length (concat (chunks counts ds))).
    eapply prefix_firstn; eauto.
  - apply chunks_sizes.
Qed.

Lemma nth_error_map_ok (gs : list (list E)) i g : nth_error (map ok_reply gs) i = Some (ok_reply g) -> nth_error gs i = Some g.
Proof.
  rewrite nth_error_map. destruct (nth_error gs i) as [g'|]; simpl; [|discriminate].
  unfold ok_reply. intros H. inversion H. reflexivity.
Qed.

Lemma progress script ds counts :
  lists_script script ds -> Forall (fun d => enc d <> []) ds -> Forall (fits enc ds) counts ->
  (* an empty reply means everything was delivered by the replies before it *)
  (forall i, nth_error (replies script counts) i = Some (ok_reply []) ->
             concat (map (reply_bytes enc) (firstn i (replies script counts))) = enc_all enc ds)
  (* and one comes within the first |ds|+1 reads *)
  /\ ((length ds < length counts)%nat ->
      exists i, (i <= length ds)%nat /\ nth_error (replies script counts) i = Some (ok_reply [])).
Proof.
  intros Hs Hn Hf. rewrite (replies_chunks _ _ counts Hs). split.
  - intros i Hi. apply nth_error_map_ok in Hi.
    rewrite firstn_map, reply_bytes_ok, <- enc_all_concat. f_equal. apply chunks_progress; auto.
  - intros Hl. destruct (chunks_bound counts ds Hf Hn Hl) as (i & Hi & Hnth). exists i. split; auto.
    rewrite nth_error_map, Hnth. reflexivity.
Qed.

(* ---- client side ---- *)
Section Client.
Variable wf : E -> Prop.
Variable dec : list N -> dres E.
Hypothesis dec_enc : forall d rest, wf d -> dec (enc d ++ rest) = DOk d rest.
Hypothesis dec_nil : dec [] = DEof.
Hypothesis enc_nonempty : forall d, wf d -> enc d <> [].

Lemma decode_all_enc : forall g fuel, Forall wf g -> (length (enc_all enc g) < fuel)%nat ->
  decode_all dec fuel (enc_all enc g) = (g, false).
Proof.
  induction g as [|d r IH]; intros fuel Hw Hl.
  - destruct fuel; [lia|]. cbn [decode_all]. unfold enc_all; simpl. rewrite dec_nil. reflexivity.
  - destruct fuel; [lia|]. inversion Hw; subst. cbn [decode_all]. rewrite enc_all_cons.
    rewrite dec_enc by auto. rewrite IH; auto.
    rewrite enc_all_cons, app_length in Hl. pose proof (enc_nonempty d H1).
    destruct (enc d); [congruence|]. simpl in Hl. lia.
Qed.

Lemma wf_nonempty ds : Forall wf ds -> Forall (fun d => enc d <> []) ds.
Proof. intros H. eapply Forall_impl; [|exact H]. auto. Qed.

Lemma enc_all_nil_iff g : Forall wf g -> (enc_all enc g = [] <-> g = []).
Proof.
  intros Hw. split; [|intros ->; reflexivity]. destruct g as [|d r]; auto.
  inversion Hw; subst. rewrite enc_all_cons. intros H. apply app_eq_nil in H. destruct H as [H _].
  exfalso. eapply enc_nonempty; eauto.
Qed.

Lemma cl_all_spec iounit : forall fuel c st,
  c_done c = false -> c_nread c = r_off st -> st_clean st = true ->
  Forall wf (st_pend st) -> fits enc (st_pend st) iounit ->
  (length (st_pend st) < fuel)%nat ->
  cl_all enc dec iounit fuel c st = Ok (st_pend st).
Proof.
  induction fuel as [|f IH]; intros c st Hd Hn Hc Hw Hf Hl; [lia|].
  cbn [cl_all]. unfold cl_next. rewrite Hd, Hn.
  destruct (read_spec st iounit Hc) as (st' & Hr & Hp & Hc' & Ho). rewrite Hr. unfold ok_reply.
  pose proof (take_fit_app iounit (st_pend st) 0) as Happ.
  set (g := fst (take_fit iounit 0 (st_pend st))) in *.
  assert (Hwg : Forall wf g) by (rewrite <- Happ in Hw; apply Forall_app in Hw; tauto).
  destruct (enc_all enc g) as [|b bs] eqn:Eb.
  - apply (enc_all_nil_iff g Hwg) in Eb.
    assert (st_pend st = []) as ->; [|reflexivity].
    apply (take_fit_empty_all iounit); auto. apply wf_nonempty; auto.
  - rewrite <- Eb. rewrite decode_all_enc; auto.
    destruct g as [|d r] eqn:Eg; [discriminate|]. rewrite <- Eg in *.
    rewrite IH.
    + rewrite Eg. rewrite <- Happ. rewrite Hp. rewrite <- Eg. reflexivity.
    + rewrite Eg. reflexivity.
    + cbn [c_nread]. rewrite Ho, <- Eb. reflexivity.
    + exact Hc'.
    + rewrite Hp. rewrite <- Happ in Hw. apply Forall_app in Hw. tauto.
    + rewrite Hp. unfold fits in *. rewrite <- Happ in Hf. apply Forall_app in Hf. tauto.
    + rewrite Hp. apply (f_equal (@length E)) in Happ. rewrite app_length in Happ.
      rewrite Eg in Happ. simpl in Happ. lia.
Qed.

Lemma client script ds iounit fuel :
  lists_script script ds -> Forall wf ds -> fits enc ds iounit -> (length ds < fuel)%nat ->
  cl_all enc dec iounit fuel new_cdir (new_readdir script) = Ok ds.
Proof.
  intros Hs Hw Hf Hl. destruct (new_readdir_pend _ _ Hs) as [Hc Hp].
  rewrite <- Hp. apply cl_all_spec; auto; rewrite ?Hp; auto.
Qed.

Lemma client_msize script ds msize fuel :
  lists_script script ds -> Forall wf ds ->
  Forall (fun d => blen (enc d) + 11 <= msize) ds -> (length ds < fuel)%nat ->
  cl_all enc dec (msize - 11) fuel new_cdir (new_readdir script) = Ok ds.
Proof.
  intros Hs Hw Hf Hl. apply client; auto. unfold fits. eapply Forall_impl; [|exact Hf].
  intros d Hd. cbv beta in Hd. lia.
Qed.
End Client.
End RD.
