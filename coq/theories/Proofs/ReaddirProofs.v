(* Lemmas about Model/Readdir.v.  Property statements are in Properties/C17.v. *)
From Coq Require Import List NArith ZArith Bool Lia.
From P9 Require Import Base.Res Model.Readdir.
Import ListNotations.
Open Scope N_scope.

Lemma read_bad_offset {E} (enc : E -> list N) (st : rdst E) count off :
  r_off st <> off -> read enc st count off = (RdBadOff, st).
Proof.
  intros H. unfold read. destruct (Z.eqb_spec (r_off st) off); [contradiction|reflexivity].
Qed.
