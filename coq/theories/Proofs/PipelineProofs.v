(* C09: lemmas about Model/Pipeline.v over the tables generated from the
   current source.  The specifications ([clip_args], [expected]) are written
   by hand from the property text and never look at the tables; the theorems
   say that the interpreters of the generated tables meet them. *)
From Coq Require Import List NArith ZArith Bool String Lia.
From P9 Require Import Base.Res Base.Sexp Model.WireTypes Gen.GenWire Gen.GenDispatch Model.Pipeline.
Import ListNotations.
Open Scope Z_scope.

(* ------------------------------------------------------- well-formed values *)

Definition in_bits (bits : N) (sg : bool) (z : Z) : Prop :=
  if sg then - 2 ^ (Z.of_N bits - 1) <= z < 2 ^ (Z.of_N bits - 1) else 0 <= z < 2 ^ Z.of_N bits.

(* a Dir as a Go value: timestamps are time.Time values (DTime), never raw wire seconds *)
Definition dval_ok (d : dval) : Prop := match d with DF (FTime _) => False | _ => True end.

Inductive has_kind : gkind -> gval -> Prop :=
| HKInt bits sg z : in_bits bits sg z -> has_kind (GKInt bits sg) (GInt z)
| HKStr s : has_kind GKStr (GStr s)
| HKBytes d : zlen d < 2 ^ 32 -> has_kind GKBytes (GBytes d)
| HKBuf n : 0 <= n < 2 ^ 32 -> has_kind GKBytes (GBuf n)
| HKStrs l : has_kind GKStrs (GStrs l)
| HKQid q : has_kind GKQid (GQid q)
| HKQids l : has_kind GKQids (GQids l)
| HKDir fs : Forall dval_ok fs -> has_kind GKDir (GDir fs).

Definition wf_args (m : cmethod) (args : list gval) : Prop := Forall2 has_kind (cm_params m) args.

(* ----------------------------------------------------- the documented limits *)

(* a read is clipped so that the reply fits: 11 + count <= msize on the
   connection, and count <= msize' - 11 (not below 0) for the msize' the
   served session reports *)
Definition read_clip (msize smsize n : Z) : Z :=
  let a := Z.min n (msize - 11) in
  if smsize - 11 <? a then Z.max 0 (smsize - 11) else a.

(* timestamps travel as whole seconds in 32 bits *)
Definition clip_dval (d : dval) : dval :=
  match d with DTime s _ => DTime (s mod 2 ^ 32) 0 | _ => d end.

Definition buf_or_len (g : gval) : Z := match glen g with Some n => n | None => 0 end.

(* what the served session must be called with, given what the caller passed *)
Definition clip_args (msize smsize : Z) (meth : string) (args : list gval) : list gval :=
  if String.eqb meth "Read" then
    match args with
    | [fid; p; off] => [fid; GBuf (read_clip msize smsize (buf_or_len p)); off]
    | _ => args
    end
  else if String.eqb meth "Write" then
    match args with
    | [fid; GBytes d; off] => [fid; GBytes (firstn (Z.to_nat (msize - 23)) d); off]
    | [fid; GBuf n; off] => [fid; GBytes (firstn (Z.to_nat (msize - 23)) (repeat 0%N (Z.to_nat n))); off]
    | _ => args
    end
  else if String.eqb meth "WStat" then
    match args with
    | [fid; GDir fs] => [fid; GDir (map clip_dval fs)]
    | _ => args
    end
  else args.

(* the request frame as it leaves the client (after maybeTruncate) *)
Definition frame_sent (msize : Z) (m : cmethod) (args : list gval) : option message :=
  match client_req m args with
  | Ok (Sent q) => match chan_truncate msize q with inl q1 => Some q1 | inr _ => None end
  | _ => None
  end.

Definition req_size (m : cmethod) (args : list gval) : Z :=
  match client_req m args with Ok (Sent q) => msg_size q | _ => 0 end.

(* reads and writes are clipped to fit; every other request must fit as it is *)
Definition request_fits (msize : Z) (m : cmethod) (args : list gval) : Prop :=
  cm_name m = "Read"%string \/ cm_name m = "Write"%string \/ req_size m args <= msize.

(* ------------------------------------------------------------ arithmetic *)

Lemma mod_neg_small : forall x m, - m <= x < 0 -> x mod m = x + m.
Proof.
  intros x m H. rewrite <- (Z_mod_plus_full x 1 m). rewrite Z.mod_small by lia. lia.
Qed.

Lemma wrap_unsigned_small : forall bits z, 0 <= z < 2 ^ Z.of_N bits -> wrap (DWrap bits false) z = z.
Proof. intros bits z H. unfold wrap. cbn [andb]. apply Z.mod_small. exact H. Qed.

Lemma wrap_u64_i64 : forall z, - 2 ^ 63 <= z < 2 ^ 63 ->
  wrap (DWrap 64 true) (Z.of_N (Z.to_N (wrap (DWrap 64 false) z))) = z.
Proof.
  intros z H. unfold wrap. cbn [andb Z.of_N].
  change (2 ^ Z.pos 64) with 18446744073709551616.
  change (18446744073709551616 / 2) with 9223372036854775808.
  change (2 ^ 63) with 9223372036854775808 in H.
  assert (H0 : 0 <= z mod 18446744073709551616 < 18446744073709551616) by (apply Z.mod_pos_bound; lia).
  rewrite Z2N.id by lia.
  rewrite Z.mod_mod by lia.
  destruct (Z_lt_le_dec z 0) as [Hn | Hp].
  - rewrite (mod_neg_small z) by lia.
    destruct (9223372036854775808 <=? z + 18446744073709551616) eqn:E; [lia | apply Z.leb_gt in E; lia].
  - rewrite Z.mod_small by lia.
    destruct (9223372036854775808 <=? z) eqn:E; [apply Z.leb_le in E; lia | reflexivity].
Qed.

Lemma wrap_i64_small : forall z, 0 <= z < 2 ^ 63 -> wrap (DWrap 64 true) z = z.
Proof.
  intros z H. unfold wrap. cbn [andb Z.of_N].
  change (2 ^ Z.pos 64) with 18446744073709551616.
  change (18446744073709551616 / 2) with 9223372036854775808.
  change (2 ^ 63) with 9223372036854775808 in H.
  rewrite Z.mod_small by lia.
  destruct (9223372036854775808 <=? z) eqn:E; [apply Z.leb_le in E; lia | reflexivity].
Qed.

Lemma slice_out_all : forall out plen, zlen out <= plen -> slice_out out (zlen out) plen = Ok out.
Proof.
  intros out plen H. unfold slice_out.
  assert (H0 : 0 <= zlen out) by (unfold zlen; lia).
  rewrite (proj2 (Z.leb_le 0 (zlen out))) by exact H0.
  rewrite (proj2 (Z.leb_le (zlen out) plen)) by exact H.
  cbn [andb]. unfold zlen. rewrite Nat2Z.id. rewrite firstn_all. rewrite Nat.sub_diag.
  cbn [repeat]. rewrite app_nil_r. reflexivity.
Qed.

Lemma rread_overhead_11 : rread_overhead = 11.
Proof. vm_compute. reflexivity. Qed.

Lemma tread_clamp_min : forall msize n, 24 <= msize < 2 ^ 31 -> 0 <= n < 2 ^ 32 ->
  tread_clamp msize n = Z.min n (msize - 11).
Proof.
  intros msize n Hm Hn. unfold tread_clamp. rewrite rread_overhead_11.
  change (2 ^ 31) with 2147483648 in Hm. change (2 ^ 32) with 4294967296 in *.
  rewrite (Z.mod_small msize) by lia.
  destruct (Z_lt_le_dec (11 + n - msize) 0) as [Hneg | Hpos].
  - rewrite mod_neg_small by lia.
    destruct (n <? 11 + n - msize + 4294967296) eqn:E; [| apply Z.ltb_ge in E]; lia.
  - rewrite Z.mod_small by lia.
    destruct (n <? 11 + n - msize) eqn:E; [apply Z.ltb_lt in E |]; lia.
Qed.

Lemma tread_clamp_idem : forall msize n, 24 <= msize < 2 ^ 31 -> 0 <= n < 2 ^ 32 ->
  tread_clamp msize (tread_clamp msize n) = tread_clamp msize n.
Proof.
  intros msize n Hm Hn. rewrite (tread_clamp_min msize n) by assumption.
  rewrite tread_clamp_min; [lia | assumption | lia].
Qed.

Lemma clamp_chain : forall msize n, 24 <= msize < 2 ^ 31 -> 0 <= n < 2 ^ 32 ->
  Z.of_N (Z.to_N (tread_clamp msize (Z.of_N (Z.to_N (tread_clamp msize (Z.of_N (Z.to_N n)))))))
  = Z.min n (msize - 11).
Proof.
  intros msize n Hm Hn.
  rewrite (Z2N.id n) by lia.
  rewrite (tread_clamp_min msize n) by assumption.
  rewrite (Z2N.id (Z.min n (msize - 11))) by lia.
  rewrite tread_clamp_min; [| assumption | lia].
  rewrite Z2N.id by lia. lia.
Qed.

Lemma zlen_nonneg : forall A (l : list A), 0 <= zlen l.
Proof. intros. unfold zlen. lia. Qed.

Lemma zlen_firstn : forall A (l : list A) k, 0 <= k -> zlen (firstn (Z.to_nat k) l) = Z.min k (zlen l).
Proof. intros A l k Hk. unfold zlen. rewrite firstn_length. lia. Qed.

Lemma firstn_all_z : forall A (l : list A) k, zlen l <= k -> firstn (Z.to_nat k) l = l.
Proof. intros A l k H. apply firstn_all2. unfold zlen in H. lia. Qed.

Lemma dir_roundtrip : forall fs, Forall dval_ok fs ->
  map dval_of_wire (map wire_of_dval fs) = map clip_dval fs.
Proof.
  induction 1 as [| d fs Hd _ IH]; [reflexivity |].
  cbn [map]. rewrite IH. f_equal.
  destruct d as [f | s n]; [| reflexivity].
  destruct f; cbn in *; try reflexivity. contradiction.
Qed.

(* ------------------------------------------------- the request direction *)

Local Arguments wrap : simpl never.
Local Arguments zlen : simpl never.
Local Arguments tread_clamp : simpl never.
Local Arguments msg_size : simpl never.
Local Arguments slice_out : simpl never.
Local Arguments arg_len : simpl never.
Local Arguments Z.ltb : simpl never.
Local Arguments Z.leb : simpl never.
Local Arguments Z.eqb : simpl never.
Local Arguments Z.add : simpl never.
Local Arguments Z.sub : simpl never.
Local Arguments Z.mul : simpl never.
Local Arguments Z.to_nat : simpl never.
Local Arguments Z.max : simpl never.
Local Arguments Z.min : simpl never.
Local Arguments Z.modulo : simpl never.
Local Arguments Z.pow : simpl never.
Local Arguments firstn : simpl never.
Local Arguments repeat : simpl never.

Ltac inv H := inversion H; subst; clear H.

(* closed powers of two to literals *)
Ltac pows :=
  repeat match goal with
         | H : context [2 ^ ?e] |- _ => let v := eval vm_compute in (2 ^ e) in change (2 ^ e) with v in H
         | |- context [2 ^ ?e] => let v := eval vm_compute in (2 ^ e) in change (2 ^ e) with v
         end.

Lemma twrite_size : forall t a b d,
  msg_size (t, [VF (FInt 4 a); VF (FInt 8 b); VF (FData d)]) = (if has_stat_prefix t then 2 else 0) + 23 + zlen d.
Proof. intros. unfold msg_size, sumZ. cbn. destruct (has_stat_prefix t); lia. Qed.

(* args : Forall2 has_kind [k1; …; kn] args  ==>  args = [a1; …; an] with has_kind ki ai *)
Ltac split_args H :=
  repeat match type of H with
         | Forall2 _ (_ :: _) _ => let Hk := fresh "Hk" in let Hr := fresh "Hr" in
                                   inversion H as [| ? ? ? ? Hk Hr]; subst; clear H; rename Hr into H
         | Forall2 _ [] _ => inversion H; subst; clear H
         end.

Ltac kinds :=
  repeat match goal with
         | H : has_kind (GKInt _ _) _ |- _ =>
             let Hb := fresh "Hb" in
             inversion H as [? ? ? Hb | | | | | | |]; subst; clear H; cbv [in_bits] in Hb; cbn in Hb
         | H : has_kind GKStr _ |- _ => inv H
         | H : has_kind GKStrs _ |- _ => inv H
         | H : has_kind GKQid _ |- _ => inv H
         | H : has_kind GKQids _ |- _ => inv H
         | H : has_kind GKDir _ |- _ => inv H
         end.

Section Request.
  Variable transfer : message -> res message.

  (* the statement for one method; [plain] solves the methods whose request is not rewritten *)
  Definition request_ok (msize smsize : Z) (m : cmethod) (args : list gval) : Prop :=
    exists c, In c gen_server /\ sc_method c = cm_name m /\
      request_path transfer msize smsize m args
      = Ok (inr (SCall c (clip_args msize smsize (cm_name m) args))).

  Ltac start Hguard Hfit Htr :=
    unfold request_ok, request_fits, req_size, frame_sent, request_path, client_req in *;
    cbn in Hguard; cbn in Hfit; cbn in Htr;
    try match type of Hguard with
        | (if ?c then _ else _) = None => let HG := fresh "HG" in destruct c eqn:HG; [discriminate Hguard |]
        end;
    cbn in Hfit; cbn in Htr;
    destruct Hfit as [Hfit | [Hfit | Hfit]]; try discriminate Hfit.

  Ltac go Htr :=
    cbn; repeat (first [ rewrite Htr | match goal with H : (_ <? _) = false |- _ => rewrite H end ]; cbn).

  (* reads and writes always "fit": nothing to learn from the size premise *)
  Ltac start0 Hguard Htr :=
    unfold request_ok, frame_sent, request_path, client_req in *;
    cbn in Hguard; cbn in Htr.

  (* fix the server case (an evar) to the one the model computed; leave the argument lists *)
  Ltac same_case :=
    match goal with
    | |- @Ok ?T (inr (SCall ?a ?l1)) = Ok (inr (SCall ?b ?l2)) =>
        unify a b; apply (f_equal (fun l => @Ok T (inr (SCall a l))))
    end.

  Ltac plain Hguard Hfit Htr :=
    start Hguard Hfit Htr;
    apply Z.ltb_ge in Hfit;
    rewrite Hfit in Htr; specialize (Htr _ eq_refl);
    eexists; refine (conj _ (conj _ _));
    [ | | go Htr; rewrite ?Z2N.id by lia; reflexivity ];
    [ cbn; tauto | reflexivity ].

  Ltac write_case msize Htr d :=
    let E := fresh "E" in
    pose proof (zlen_nonneg _ d);
    rewrite !twrite_size in Htr; change (has_stat_prefix 118) with false in Htr; cbn iota in Htr;
    destruct (0 + 23 + zlen d <=? msize) eqn:E;
    [ apply Z.leb_le in E; specialize (Htr _ eq_refl);
      eexists; refine (conj _ (conj _ _));
      [ | | cbn; rewrite !twrite_size; change (has_stat_prefix 118) with false; cbn iota;
            rewrite (proj2 (Z.leb_le _ _) E); rewrite Htr; cbn; rewrite !twrite_size;
            change (has_stat_prefix 118) with false; cbn iota;
            rewrite (proj2 (Z.leb_le _ _) E); cbn; same_case ];
      [ cbn; tauto | reflexivity | ];
      rewrite wrap_u64_i64 by (pows; lia); rewrite Z2N.id by lia;
      rewrite firstn_all_z by lia; reflexivity
    | apply Z.leb_gt in E;
      rewrite (proj2 (Z.ltb_ge (zlen d) (0 + 23 + zlen d - msize))) in Htr by lia;
      specialize (Htr _ eq_refl);
      eexists; refine (conj _ (conj _ _));
      [ | | cbn; rewrite !twrite_size; change (has_stat_prefix 118) with false; cbn iota;
            rewrite (proj2 (Z.leb_gt _ _) E);
            rewrite (proj2 (Z.ltb_ge (zlen d) (0 + 23 + zlen d - msize))) by lia;
            rewrite Htr; cbn; rewrite !twrite_size;
            change (has_stat_prefix 118) with false; cbn iota;
            rewrite zlen_firstn by lia;
            rewrite (proj2 (Z.leb_le (0 + 23 + Z.min (zlen d - (0 + 23 + zlen d - msize)) (zlen d)) msize)) by lia;
            cbn; same_case ];
      [ cbn; tauto | reflexivity | ];
      rewrite wrap_u64_i64 by (pows; lia); rewrite Z2N.id by lia;
      replace (zlen d - (0 + 23 + zlen d - msize)) with (msize - 23) by lia; reflexivity ].

  Lemma request_identity : forall msize smsize m args,
    In m gen_client -> wf_args m args -> 24 <= msize < 2 ^ 31 ->
    first_guard args (cm_guards m) = None ->
    request_fits msize m args ->
    (forall q, frame_sent msize m args = Some q -> transfer q = Ok q) ->
    request_ok msize smsize m args.
  Proof.
    intros msize smsize m args Hin Hwf Hm Hguard Hfit Htr.
    unfold wf_args in Hwf.
    cbn in Hin.
    repeat (destruct Hin as [<- | Hin]); [.. | contradiction]; cbn in Hwf; split_args Hwf; kinds.
    - (* Auth *) plain Hguard Hfit Htr.
    - (* Attach *) plain Hguard Hfit Htr.
    - (* Clunk *) plain Hguard Hfit Htr.
    - (* Remove *) plain Hguard Hfit Htr.
    - (* Walk *) plain Hguard Hfit Htr.
    - (* Read *)
      assert (Hlen : exists n, glen y0 = Some n /\ 0 <= n < 2 ^ 32).
      { match goal with H : has_kind GKBytes _ |- _ => inv H end; cbn [glen]; eexists; split; try reflexivity.
        - pose proof (zlen_nonneg _ d); lia.
        - assumption. }
      destruct Hlen as [n [Hlen Hn]].
      assert (Hcl : buf_or_len y0 = n) by (unfold buf_or_len; rewrite Hlen; reflexivity).
      clear Hfit. start0 Hguard Htr.
      unfold eval_csrc in Htr; cbn in Htr; rewrite Hlen in Htr; cbn in Htr.
      specialize (Htr _ eq_refl).
      eexists; refine (conj _ (conj _ _));
        [ | | unfold eval_csrc; cbn; rewrite Hlen; go Htr; same_case ]; [ cbn; tauto | reflexivity | ].
      rewrite Hcl. pows.
      rewrite (wrap_unsigned_small 32) by (cbn; pows; lia).
      rewrite wrap_u64_i64 by (pows; lia).
      rewrite clamp_chain by (pows; lia).
      rewrite (Z2N.id z0) by lia.
      unfold read_clip. reflexivity.
    - (* Write *)
      clear Hfit.
      match goal with H : has_kind GKBytes _ |- _ => inv H end;
        start0 Hguard Htr; cbn [cm_name clip_args String.eqb Ascii.eqb Bool.eqb];
        [ write_case msize Htr d | write_case msize Htr (repeat 0%N (Z.to_nat n)) ].
    - (* Open *) plain Hguard Hfit Htr.
    - (* Create *) plain Hguard Hfit Htr.
    - (* Stat *) plain Hguard Hfit Htr.
    - (* WStat *)
      start Hguard Hfit Htr.
      apply Z.ltb_ge in Hfit.
      rewrite Hfit in Htr; specialize (Htr _ eq_refl).
      eexists; refine (conj _ (conj _ _));
      [ | | go Htr; rewrite ?Z2N.id by lia; rewrite dir_roundtrip by assumption; reflexivity ];
      [ cbn; tauto | reflexivity ].
  Qed.
End Request.

(* the protocol's MAXWELEM limit: more than 16 names are refused by the client, nothing is sent *)
Lemma walk_limit_not_sent : forall transfer msize smsize fid newfid names,
  16 < zlen names ->
  exists m, find_client "Walk" = Some m /\
    request_path transfer msize smsize m [fid; newfid; GStrs names]
    = Ok (inl (NotSent (zero_outcome m (ERerror (err_ename "ErrWalkLimit"))))).
Proof.
  intros transfer msize smsize fid newfid names H.
  eexists. split; [reflexivity |].
  unfold request_path, client_req. cbn.
  rewrite (proj2 (Z.ltb_lt 16 (zlen names)) H). reflexivity.
Qed.

Lemma walk_limit_text : err_ename "ErrWalkLimit" = str "too many wnames in walk".
Proof. vm_compute. reflexivity. Qed.

(* -------------------------------------------------- the reply direction *)

(* what the caller must get, given what the served session returned.
   Errors cross the wire as text (newErrorFcall): the caller gets a
   MessageRerror with that text and zero values.  A successful Read of zero
   bytes is 9P's end of file.  A Write's count below len(p) is a short write.
   Timestamps of a Stat come back as whole seconds in 32 bits. *)
Definition expected (m : cmethod) (args : list gval) (o : outcome) : outcome :=
  match o_err o with
  | ENil =>
      if String.eqb (cm_name m) "Read" then
        {| o_vals := [GInt (zlen (o_out o))]; o_out := o_out o;
           o_err := if zlen (o_out o) =? 0 then EEof else ENil |}
      else if String.eqb (cm_name m) "Write" then
        {| o_vals := o_vals o; o_out := [];
           o_err := match o_vals o with
                    | [GInt n] => if n <? arg_len args 1 then EShortWrite else ENil
                    | _ => ENil
                    end |}
      else if String.eqb (cm_name m) "Stat" then
        {| o_vals := match o_vals o with [GDir fs] => [GDir (map clip_dval fs)] | v => v end;
           o_out := []; o_err := ENil |}
      else {| o_vals := o_vals o; o_out := []; o_err := ENil |}
  | e => zero_outcome m (ERerror (wire_ename e))
  end.

(* results a Session may return for the call it received *)
Definition result_wf (m : cmethod) (args sargs : list gval) (o : outcome) : Prop :=
  o_err o = ENil ->
  Forall2 has_kind (cm_results m) (o_vals o) /\
  (cm_name m = "Read"%string ->
     exists plen, nth_error sargs 1 = Some (GBuf plen) /\ o_vals o = [GInt (zlen (o_out o))] /\
                  zlen (o_out o) <= plen <= arg_len args 1) /\
  (cm_name m = "Write"%string -> exists n, o_vals o = [GInt n] /\ 0 <= n < 2 ^ 32).

Section Reply.
  Variable transfer : message -> res message.

  Definition reply_path (msize : Z) (m : cmethod) (c : scase) (args sargs : list gval) (o : outcome) : res outcome :=
    reply <- server_reply c sargs o ;; deliver_reply transfer msize m args reply.

  Ltac reply_go Hr :=
    let Hsz := fresh "Hsz" in let Htr := fresh "Htr" in
    unfold server_reply in *; cbn in Hr; destruct (Hr _ eq_refl) as [Hsz Htr]; apply Z.ltb_ge in Hsz;
    unfold deliver_reply; cbn; rewrite Hsz; rewrite Htr; cbn; rewrite Hsz; cbn.

  Ltac reply_err Hr := reply_go Hr; reflexivity.

  Ltac reply_open Hwf :=
    let Hv := fresh "Hv" in let Hspec := fresh "Hspec" in
    destruct (Hwf eq_refl) as [Hv Hspec]; cbn in Hv; split_args Hv; kinds.

  Ltac reply_plain Hwf Hr :=
    reply_open Hwf; reply_go Hr; rewrite ?Z2N.id by lia; reflexivity.

  Lemma reply_identity : forall msize m c args sargs o,
    In m gen_client -> find_server (cm_req m) = Some c ->
    result_wf m args sargs o ->
    (forall r, server_reply c sargs o = Ok r -> msg_size r <= msize /\ transfer r = Ok r) ->
    reply_path msize m c args sargs o = Ok (expected m args o).
  Proof.
    intros msize m c args sargs o Hin Hc Hwf Hr.
    cbn in Hin.
    repeat (destruct Hin as [<- | Hin]); [.. | contradiction]; cbn in Hc; inv Hc;
      unfold reply_path, expected, result_wf in *; destruct o as [vals out err];
      cbn [o_err o_vals o_out cm_name String.eqb Ascii.eqb Bool.eqb] in *;
      (destruct err; [ | reply_err Hr .. ]).
    - (* Auth *) reply_plain Hwf Hr.
    - (* Attach *) reply_plain Hwf Hr.
    - (* Clunk *) reply_plain Hwf Hr.
    - (* Remove *) reply_plain Hwf Hr.
    - (* Walk *) reply_plain Hwf Hr.
    - (* Read *)
      reply_open Hwf. destruct Hspec as [Hread _].
      destruct (Hread eq_refl) as [plen [Hp [Hvals Hlen]]]. inv Hvals.
      pose proof (zlen_nonneg _ out) as Hout0.
      unfold server_reply, eval_srep in *; cbn in Hr |- *.
      cbn in Hp. rewrite Hp in Hr |- *. cbn in Hr |- *.
      rewrite slice_out_all in Hr |- * by lia. cbn in Hr |- *.
      destruct (Hr _ eq_refl) as [Hsz Htr]; apply Z.ltb_ge in Hsz.
      unfold deliver_reply; cbn; rewrite Hsz; rewrite Htr; cbn; rewrite Hsz; cbn.
      rewrite Z.min_r by lia. rewrite firstn_all_z by lia. reflexivity.
    - (* Write *)
      reply_open Hwf. destruct Hspec as [_ Hwrite].
      destruct (Hwrite eq_refl) as [n [Hvals Hn]]. inv Hvals.
      reply_go Hr. pows.
      rewrite (wrap_unsigned_small 32) by (cbn; pows; lia).
      rewrite Z2N.id by lia. rewrite wrap_i64_small by (pows; lia). reflexivity.
    - (* Open *) reply_plain Hwf Hr.
    - (* Create *) reply_plain Hwf Hr.
    - (* Stat *)
      reply_open Hwf. reply_go Hr. rewrite dir_roundtrip by assumption. reflexivity.
    - (* WStat *) reply_plain Hwf Hr.
  Qed.
End Reply.

(* an Rerror reply reaches the caller as an error with its Ename, whatever the method *)
Lemma rerror_passes : forall m args ename,
  client_result m args (rerror_type, [VF (FStr ename)]) = Ok (zero_outcome m (ERerror ename)).
Proof. intros. unfold client_result. change (N.eqb rerror_type rerror_type) with true. reflexivity. Qed.

(* a reply of any other type than the one the method asserts is refused with ErrUnexpectedMsg *)
Lemma wrong_type_refused : forall m args t vs,
  In m gen_client -> t <> rerror_type -> t <> type_of (cm_rep m) ->
  client_result m args (t, vs) = Ok (zero_outcome m (ERerror (err_ename "ErrUnexpectedMsg"))).
Proof.
  intros m args t vs Hin H1 H2. unfold client_result.
  rewrite (proj2 (N.eqb_neq t rerror_type) H1).
  cbn in Hin.
  repeat (destruct Hin as [<- | Hin]); [.. | contradiction];
    cbn in H2 |- *; rewrite (proj2 (N.eqb_neq _ _) H2); reflexivity.
Qed.

Lemma unexpected_text : err_ename "ErrUnexpectedMsg" = str "unexpected message".
Proof. vm_compute. reflexivity. Qed.

(* the client's method table implements the Session interface, signature for
   signature: same parameter kinds, same variadicity, same result kinds *)
Definition gkind_eqb (a b : gkind) : bool :=
  match a, b with
  | GKInt x s, GKInt y t => N.eqb x y && Bool.eqb s t
  | GKStr, GKStr | GKBytes, GKBytes | GKStrs, GKStrs | GKQid, GKQid | GKQids, GKQids | GKDir, GKDir => true
  | _, _ => false
  end.
Fixpoint gkinds_eqb (a b : list gkind) : bool :=
  match a, b with
  | [], [] => true
  | x :: a', y :: b' => gkind_eqb x y && gkinds_eqb a' b'
  | _, _ => false
  end.
Definition signatures_match : bool :=
  forallb (fun m => match find (fun e => String.eqb (fst (fst (fst e))) (cm_name m)) gen_session with
                    | Some (_, ps, v, rs) =>
                        gkinds_eqb ps (cm_params m) && Bool.eqb v (cm_variadic m) && gkinds_eqb rs (cm_results m)
                    | None => false
                    end) gen_client
  && Nat.eqb (List.length gen_client) (List.length gen_session).

Lemma client_signatures_match : signatures_match = true.
Proof. vm_compute. reflexivity. Qed.

(* ---------------------------------------- concurrent callers: own results *)

(* Composition with the tag layers over ONE global history of what crosses the
   wire and what the client transport hands to callers.  Tags are reused over
   time, so everything is stated by position in the history.  The three
   hypotheses have the shape of the sibling models' theorems (to be
   instantiated by the lead from their traces):
     own_reply  - C05_own_reply: the reply handed to call c is the payload of
                  the FIRST reply frame carrying c's tag after c's request frame;
     tag_reuse  - C05_distinct (honest peer): a tag is given to another request
                  only after a reply with that tag came back;
     reply_own  - C06: every reply frame the server sends answers the latest
                  request frame with its tag, once, with the message its own
                  Handle invocation produced ([answer i] for the request at
                  position i).
   Conclusion: the reply a caller obtains is the answer to ITS OWN request,
   whatever other calls are in flight or reuse its tag later. *)
Inductive gev :=
| GReq (c : nat) (t : N) (q : message)     (* the request frame of call c, tag t, crosses the wire *)
| GRep (t : N) (r : message)                (* a reply frame with tag t crosses the wire *)
| GDel (c : nat) (r : message).             (* the client transport hands r to call c *)

Definition no_rep_between (h : list gev) (t : N) (i j : nat) : Prop :=
  forall k r, (i < k < j)%nat -> nth_error h k <> Some (GRep t r).
Definition no_req_between (h : list gev) (t : N) (i j : nat) : Prop :=
  forall k c q, (i < k < j)%nat -> nth_error h k <> Some (GReq c t q).

Definition own_reply_hyp (h : list gev) : Prop :=
  forall k c r, nth_error h k = Some (GDel c r) ->
    exists i j t q, (i < j < k)%nat /\ nth_error h i = Some (GReq c t q) /\
                    nth_error h j = Some (GRep t r) /\ no_rep_between h t i j.
Definition tag_reuse_hyp (h : list gev) : Prop :=
  forall i i' c c' t q q', (i < i')%nat ->
    nth_error h i = Some (GReq c t q) -> nth_error h i' = Some (GReq c' t q') ->
    exists k r, (i < k < i')%nat /\ nth_error h k = Some (GRep t r).
Definition reply_own_hyp (answer : nat -> message) (h : list gev) : Prop :=
  forall j t r, nth_error h j = Some (GRep t r) ->
    exists i c q, (i < j)%nat /\ nth_error h i = Some (GReq c t q) /\ r = answer i /\
                  no_req_between h t i j /\ no_rep_between h t i j.

Lemma own_result : forall (answer : nat -> message) (h : list gev),
  own_reply_hyp h -> tag_reuse_hyp h -> reply_own_hyp answer h ->
  forall k c r, nth_error h k = Some (GDel c r) ->
    exists i t q, (i < k)%nat /\ nth_error h i = Some (GReq c t q) /\ r = answer i.
Proof.
  intros answer h Hown Hreuse Hrep k c r Hk.
  destruct (Hown k c r Hk) as [i [j [t [q [[Hij Hjk] [Hi [Hj Hnone]]]]]]].
  destruct (Hrep j t r Hj) as [i' [c' [q' [Hi'j [Hi' [Hr [Hnoreq Hnorep]]]]]]].
  assert (i' = i) as ->.
  { destruct (Nat.lt_trichotomy i' i) as [Hlt | [Heq | Hgt]]; [| exact Heq |].
    - (* the server answered an older request although c's request with the same tag lay in between *)
      exfalso. apply (Hnoreq i c q); [lia | exact Hi].
    - (* a younger request got c's tag before any reply with that tag came back *)
      exfalso. destruct (Hreuse i i' c c' t q q' Hgt Hi Hi') as [k' [r' [Hk' Hk'r]]].
      apply (Hnone k' r'); [lia | exact Hk'r]. }
  exists i, t, q. split; [lia |]. split; [exact Hi | exact Hr].
Qed.

(* --------------------- the connection instantiated with the codec model (C01) *)

(* [transfer] := encode with some tag, decode (Model/Wire.v).  The codec's
   round-trip theorem (Proofs/WireProofs.v, dec_fcall_enc) turns the "arrives
   as sent" premises of request_identity / reply_identity into the decidable
   well-formedness of the frames in question. *)
From P9 Require Import Model.Wire Proofs.WireProofs.

Definition as_fcall (tag : N) (q : message) : fcall :=
  {| fc_type := fst q; fc_tag := tag; fc_fields := snd q |}.

Definition wire_transfer (tag : N) (q : message) : res message :=
  match dec_fcall (enc_fcall (as_fcall tag q)) with
  | Ok f => Ok (fc_type f, fc_fields f)
  | Err e => Err e
  | Panic => Panic
  | Hang => Hang
  end.

Lemma wire_transfer_wf : forall tag q, wf_fcall (as_fcall tag q) = true -> wire_transfer tag q = Ok q.
Proof.
  intros tag [t vs] H. unfold wire_transfer.
  rewrite <- (app_nil_r (enc_fcall (as_fcall tag (t, vs)))).
  rewrite dec_fcall_enc by exact H. reflexivity.
Qed.

Lemma request_identity_wire : forall tag msize smsize m args,
  In m gen_client -> wf_args m args -> (24 <= msize < 2 ^ 31)%Z ->
  first_guard args (cm_guards m) = None ->
  request_fits msize m args ->
  (forall q, frame_sent msize m args = Some q -> wf_fcall (as_fcall tag q) = true) ->
  request_ok (wire_transfer tag) msize smsize m args.
Proof.
  intros tag msize smsize m args Hin Hwf Hm Hg Hfit Hq.
  apply request_identity; try assumption.
  intros q Hs. apply wire_transfer_wf. apply Hq. exact Hs.
Qed.

Lemma reply_identity_wire : forall tag msize m c args sargs o,
  In m gen_client -> find_server (cm_req m) = Some c ->
  result_wf m args sargs o ->
  (forall r, server_reply c sargs o = Ok r -> (msg_size r <= msize)%Z /\ wf_fcall (as_fcall tag r) = true) ->
  reply_path (wire_transfer tag) msize m c args sargs o = Ok (expected m args o).
Proof.
  intros tag msize m c args sargs o Hin Hc Hwf Hr.
  apply reply_identity; try assumption.
  intros r Hs. destruct (Hr r Hs) as [Hsz Hw]. split; [exact Hsz | apply wire_transfer_wf; exact Hw].
Qed.
