(* The clauses of properties C08 and C13 as corollaries of the refinement
   (Proofs/SessionProofs.v) and of the release invariant (Proofs/SessionGhost.v),
   stated for every state the session can reach from the empty one by any
   operation sequence under any file-system script. *)
From stdpp Require Import gmap.
From Coq Require Import NArith ZArith Lia.
From P9 Require Import Model.Path Model.Session Model.FidSpec Proofs.SessionProofs Proofs.SessionGhost.
From P9 Require Gen.GenConsts.
Open Scope N_scope.

(* the constants the model hard-wires are those of the current source (regenerated on every run) *)
Lemma consts_match_source :
  NOFID = GenConsts.c_NOFID ∧ GenConsts.c_OREAD = 0 ∧ GenConsts.c_OWRITE = 1 ∧
  GenConsts.c_ORDWR = 2 ∧ GenConsts.c_OEXEC = 3.
Proof. repeat split; reflexivity. Qed.

Definition after (ops : list (op * list tok)) : sess := final sess0 (srun sess0 ops).
Definition reach (s : sess) : Prop := ∃ ops, no_stop ops ∧ s = after ops.

Lemma abs_sess0 : abs sess0 = spec0.
Proof. unfold abs, spec0. cbn. by rewrite omap_empty. Qed.

Theorem refines_from_empty ops : no_stop ops →
  let tr := srun sess0 ops in
  results tr = (sp_run spec0 ops).2 ∧
  abs (final sess0 tr) = (sp_run spec0 ops).1 ∧
  Forall (λ r, r ≠ RHang) (results tr) ∧
  length tr = length ops.
Proof.
  intros Hns. pose proof (run_refines ops sess0 WF_sess0 Hns) as H. cbn zeta in *.
  rewrite abs_sess0 in H. tauto.
Qed.

Lemma reach_WF s : reach s → WF s.
Proof. intros (ops & Hns & ->). by apply (run_refines ops sess0 WF_sess0 Hns). Qed.
Lemma reach_G s : reach s → G s.
Proof. intros (ops & Hns & ->). by apply (run_G ops sess0 WF_sess0 G_sess0 Hns). Qed.

Lemma reach_empty : reach sess0.
Proof. exists []. split; [constructor|done]. Qed.

Lemma reach_step s o ts : reach s → is_stop o = false → reach (sstep s o ts).1.1.
Proof.
  intros (ops & Hns & ->) Ho. exists (ops ++ [(o, ts)]). split.
  - apply Forall_app. split; [done|]. by constructor.
  - pose proof (run_refines ops sess0 WF_sess0 Hns) as (_ & _ & Hwf & Hnh & Hlen).
    unfold after. rewrite (srun_app ops sess0 [(o, ts)] Hnh Hlen).
    pose proof (step_refines _ o ts Hwf Ho) as Hst. cbn [srun].
    destruct (sstep (final sess0 (srun sess0 ops)) o ts) as [[s1 r] cs]. cbn in Hst.
    destruct Hst as (_ & Hr & _). unfold final at 1.
    destruct r; try done; by rewrite last_snoc.
Qed.

(* one step, seen through the reference table *)
Lemma step_spec s o ts s' r cs :
  reach s → is_stop o = false → sstep s o ts = (s', r, cs) →
  sp_step (abs s) o ts = (abs s', r) ∧ r ≠ RHang.
Proof.
  intros Hr Ho Hst. pose proof (step_refines s o ts (reach_WF _ Hr) Ho) as H.
  rewrite Hst in H. cbn in H. tauto.
Qed.

(* ---- facts about the reference table alone ---- *)
Definition op_fid (o : op) : option N :=
  match o with
  | OWalk f _ _ | OOpen f _ | OCreate f _ _ | ORead f _ | OWrite f | OStat f | OWStat f
  | OClunk f | ORemove f => Some f
  | _ => None
  end.

Ltac spec_cases :=
  repeat match goal with
  | H : context [match ?x with _ => _ end] |- _ =>
      match type of x with
      | sumbool _ _ => destruct x
      | _ => destruct x eqn:?
      end
  end.

Lemma sp_unbound_fails t o ts f t' r :
  op_fid o = Some f → sp_lookup t f = None → sp_step t o ts = (t', r) →
  (∃ e, r = RErr e) ∧ t' = t.
Proof.
  intros Hf Hl Hst. destruct o; cbn in Hf; try discriminate; injection Hf as ->;
    cbn [sp_step] in Hst;
    unfold sp_walk, sp_open, sp_create, sp_read, sp_write, sp_stat, sp_del in Hst;
    rewrite Hl in Hst; spec_cases; injection Hst as <- <-; eauto.
Qed.

Lemma sp_attach_dup t f ts t' r :
  is_Some (sp_lookup t f) → sp_step t (OAttach f NOFID) ts = (t', r) → r = RErr EDup ∧ t' = t.
Proof.
  unfold sp_lookup. intros [b Hb] Hst. cbn in Hst. unfold sp_attach in Hst.
  destruct (decide (f = NOFID)); [done|]. rewrite decide_True in Hst by done.
  rewrite Hb in Hst. by injection Hst as <- <-.
Qed.

Lemma sp_walk_dup t f nf names ts t' r :
  is_Some (sp_lookup t f) → nf ≠ f → is_Some (sp_lookup t nf) → (0 ≤ valid_path names)%Z →
  sp_step t (OWalk f nf names) ts = (t', r) → r = RErr EDup ∧ t' = t.
Proof.
  intros [b Hb] Hne [b' Hb'] Hv Hst. cbn in Hst. unfold sp_walk in Hst.
  destruct (valid_path names <? 0)%Z eqn:E; [apply Z.ltb_lt in E; lia|]. rewrite Hb in Hst.
  unfold sp_lookup in Hb'. destruct (decide (nf = NOFID)); [done|].
  rewrite decide_False in Hst by (by intros [_ ?]).
  rewrite decide_True in Hst by (by rewrite Hb').
  by injection Hst as <- <-.
Qed.

(* NOFID cannot be bound: attach onto it and walk onto it fail *)
Lemma sp_nofid_target t o ts t' r :
  ((∃ a, o = OAttach NOFID a) ∨ (∃ f names, o = OWalk f NOFID names ∧ f ≠ NOFID)) →
  sp_step t o ts = (t', r) → (∃ e, r = RErr e) ∧ t' = t.
Proof.
  intros [[a ->]|(f & names & -> & Hf)] Hst; cbn [sp_step] in Hst.
  - unfold sp_attach in Hst. spec_cases; simplify_eq; eauto.
  - unfold sp_walk in Hst. destruct (valid_path names <? 0)%Z; [simplify_eq; eauto|].
    destruct (sp_lookup t f); [|simplify_eq; eauto].
    rewrite decide_True in Hst by done. simplify_eq; eauto.
Qed.

(* a complete walk binds newfid to the new entry, not open, and changes nothing else;
   with newfid = fid this moves fid *)
Lemma sp_walk_complete t f nf names ts t' :
  ¬ (names = [] ∧ nf = f) →
  sp_step t (OWalk f nf names) ts = (t', ROk (N.of_nat (length names))) →
  tab t' = <[nf := Bind (snext t) (t_dir (tokn ts 0)) None]> (tab t) ∧ snext t' = snext t + 1.
Proof.
  intros Hno Hst. cbn [sp_step] in Hst. unfold sp_walk in Hst. spec_cases; simplify_eq; try done.
  - by destruct Hno.
  - exfalso.
    match goal with H : (_ <? _) = true |- _ => apply N.ltb_lt in H; cbn [length N.of_nat] in H; lia end.
Qed.

Lemma sp_walk_incomplete t f nf names ts t' r :
  r ≠ ROk (N.of_nat (length names)) → sp_step t (OWalk f nf names) ts = (t', r) → t' = t.
Proof.
  intros Hr Hst. cbn in Hst. unfold sp_walk in Hst. spec_cases;
    injection Hst as <- <-; try done.
Qed.

Lemma sp_del_unbinds t o f ts t' r :
  (o = OClunk f ∨ o = ORemove f) → is_Some (sp_lookup t f) → sp_step t o ts = (t', r) →
  tab t' = delete f (tab t) ∧ snext t' = snext t ∧ (r = ROk 0 ∨ r = RErr EFs).
Proof.
  intros Ho [b Hb] Hst. destruct Ho as [-> | ->]; cbn in Hst; unfold sp_del in Hst;
    rewrite Hb in Hst; injection Hst as <- <-; (split_and!; [done..|]); destruct (fs_err _); eauto.
Qed.

Lemma sp_attach_fresh t f ts t' r :
  sp_lookup t f = None → f ≠ NOFID → fs_err (tokn ts 0) = false →
  sp_step t (OAttach f NOFID) ts = (t', r) →
  r = ROk 0 ∧ tab t' = <[f := Bind (snext t) (t_dir (tokn ts 0)) None]> (tab t).
Proof.
  unfold sp_lookup. intros Hl Hf He Hst. cbn in Hst. unfold sp_attach in Hst.
  rewrite decide_False in Hl by done.
  assert (Hn : nn_err (tokn ts 0) = None).
  { unfold fs_err in He. apply negb_false_iff in He. unfold nn_err. by rewrite He. }
  rewrite decide_True, decide_False, Hl, Hn in Hst by done. by injection Hst as <- <-.
Qed.

Lemma sp_open_once t f m ts b t' r :
  sp_lookup t f = Some b → is_Some (b_open b) → sp_step t (OOpen f m) ts = (t', r) →
  r = RErr EIsopen ∧ t' = t.
Proof.
  intros Hb [x Hx] Hst. cbn in Hst. unfold sp_open in Hst. rewrite Hb, Hx in Hst.
  by injection Hst as <- <-.
Qed.

Lemma sp_open_ok t f m ts t' n :
  sp_step t (OOpen f m) ts = (t', ROk n) →
  ∃ b, sp_lookup t f = Some b ∧ b_open b = None ∧
       tab t' = <[f := Bind (b_ent b) (b_dir b) (Some (m, false))]> (tab t).
Proof.
  intros Hst. cbn in Hst. unfold sp_open in Hst. spec_cases; try discriminate.
  injection Hst as <- <-. eauto.
Qed.

Lemma sp_create_ok t f name m ts t' n :
  sp_step t (OCreate f name m) ts = (t', ROk n) →
  tab t' = <[f := Bind (snext t) (t_dir (tokn ts 0)) (Some (m, false))]> (tab t).
Proof.
  intros Hst. cbn in Hst. unfold sp_create in Hst. spec_cases; try discriminate;
    by injection Hst as <- <-.
Qed.

Lemma sp_read_ok t f cnt ts t' n :
  sp_step t (ORead f cnt) ts = (t', ROk n) →
  ∃ b m dn, sp_lookup t f = Some b ∧ b_open b = Some (m, dn) ∧ N.land m 3 ≠ 1.
Proof.
  intros Hst. cbn in Hst. unfold sp_read in Hst. spec_cases; try discriminate;
    (eexists _, _, _; split_and!; [done..|]); by apply N.eqb_neq.
Qed.

Lemma sp_write_ok t f ts t' n :
  sp_step t (OWrite f) ts = (t', ROk n) →
  ∃ b m dn, sp_lookup t f = Some b ∧ b_open b = Some (m, dn) ∧ (N.land m 3 = 1 ∨ N.land m 3 = 2).
Proof.
  intros Hst. cbn in Hst. unfold sp_write in Hst. spec_cases; try discriminate.
  eexists _, _, _; split_and!; [done..|].
  match goal with H : negb _ = false |- _ =>
    apply negb_false_iff, orb_true_iff in H as [H|H]; apply N.eqb_eq in H; eauto end.
Qed.

(* ---- the same clauses for the session (transfer through step_spec) ---- *)
Notation fid_of s f := (sp_lookup (abs s) f) (only parsing).

Ltac sspec :=
  match goal with
  | Hr : reach ?s, Hs : sstep ?s ?o ?ts = (?s', ?r, ?cs) |- _ =>
      destruct (step_spec s o ts s' r cs Hr eq_refl Hs) as [Hsp _]
  end.

Section clauses.
  Context (s s' : sess) (o : op) (ts : list tok) (r : result) (cs : list call).
  Context (Hreach : reach s) (Hstep : sstep s o ts = (s', r, cs)).

  Lemma cl_unbound_fails f :
    op_fid o = Some f → fid_of s f = None → (∃ e, r = RErr e) ∧ abs s' = abs s.
  Proof.
    intros Hf Hl. assert (Ho : is_stop o = false) by (by destruct o).
    destruct (step_spec _ _ _ _ _ _ Hreach Ho Hstep) as [Hsp _].
    by eapply sp_unbound_fails.
  Qed.

  Lemma cl_nofid_target :
    ((∃ a, o = OAttach NOFID a) ∨ (∃ f names, o = OWalk f NOFID names ∧ f ≠ NOFID)) →
    (∃ e, r = RErr e) ∧ abs s' = abs s.
  Proof.
    intros Ho. assert (Ho' : is_stop o = false) by (by destruct Ho as [[? ->]|(? & ? & -> & _)]).
    destruct (step_spec _ _ _ _ _ _ Hreach Ho' Hstep) as [Hsp _].
    by eapply sp_nofid_target.
  Qed.

  Lemma cl_attach_dup f :
    o = OAttach f NOFID → is_Some (fid_of s f) → r = RErr EDup ∧ abs s' = abs s.
  Proof.
    intros -> Hb. sspec.
    by eapply sp_attach_dup.
  Qed.

  Lemma cl_walk_dup f nf names :
    o = OWalk f nf names → is_Some (fid_of s f) → nf ≠ f → is_Some (fid_of s nf) →
    (0 ≤ valid_path names)%Z → r = RErr EDup ∧ abs s' = abs s.
  Proof.
    intros -> Hb Hne Hb' Hv. sspec.
    by eapply (sp_walk_dup _ f nf names ts).
  Qed.

  Lemma cl_walk_complete f nf names :
    o = OWalk f nf names → ¬ (names = [] ∧ nf = f) → r = ROk (N.of_nat (length names)) →
    tab (abs s') = <[nf := Bind (next s) (t_dir (tokn ts 0)) None]> (tab (abs s)).
  Proof.
    intros -> Hno ->. sspec.
    by destruct (sp_walk_complete _ _ _ _ _ _ Hno Hsp).
  Qed.

  Lemma cl_walk_incomplete f nf names :
    o = OWalk f nf names → r ≠ ROk (N.of_nat (length names)) → abs s' = abs s.
  Proof.
    intros -> Hr. sspec.
    by eapply sp_walk_incomplete.
  Qed.

  Lemma cl_del_unbinds f :
    (o = OClunk f ∨ o = ORemove f) → is_Some (fid_of s f) →
    tab (abs s') = delete f (tab (abs s)) ∧ fid_of s' f = None.
  Proof.
    intros Ho Hb. assert (Ho' : is_stop o = false) by (by destruct Ho as [-> | ->]).
    destruct (step_spec _ _ _ _ _ _ Hreach Ho' Hstep) as [Hsp _].
    destruct (sp_del_unbinds _ _ _ _ _ _ Ho Hb Hsp) as (Ht & _ & _). split; [done|].
    unfold sp_lookup. destruct (decide _); [done|]. by rewrite Ht, lookup_delete.
  Qed.

  Lemma cl_reuse f :
    o = OAttach f NOFID → fid_of s f = None → f ≠ NOFID → fs_err (tokn ts 0) = false →
    r = ROk 0 ∧ fid_of s' f = Some (Bind (next s) (t_dir (tokn ts 0)) None).
  Proof.
    intros -> Hl Hf He. sspec.
    destruct (sp_attach_fresh _ _ _ _ _ Hl Hf He Hsp) as [-> Ht]. split; [done|].
    unfold sp_lookup. rewrite decide_False by done. by rewrite Ht, lookup_insert.
  Qed.

  Lemma cl_open_once f m b :
    o = OOpen f m → fid_of s f = Some b → is_Some (b_open b) → r = RErr EIsopen ∧ abs s' = abs s.
  Proof.
    intros -> Hb Ho. sspec.
    by eapply sp_open_once.
  Qed.

  Lemma cl_open_ok f m n :
    o = OOpen f m → r = ROk n →
    ∃ b, fid_of s f = Some b ∧ b_open b = None ∧
         tab (abs s') = <[f := Bind (b_ent b) (b_dir b) (Some (m, false))]> (tab (abs s)).
  Proof.
    intros -> ->. sspec.
    by eapply sp_open_ok.
  Qed.

  Lemma cl_create_ok f name m n :
    o = OCreate f name m → r = ROk n →
    tab (abs s') = <[f := Bind (next s) (t_dir (tokn ts 0)) (Some (m, false))]> (tab (abs s)).
  Proof.
    intros -> ->. sspec.
    by eapply sp_create_ok.
  Qed.

  Lemma cl_read_ok f cnt n :
    o = ORead f cnt → r = ROk n →
    ∃ b m dn, fid_of s f = Some b ∧ b_open b = Some (m, dn) ∧ N.land m 3 ≠ 1.
  Proof.
    intros -> ->. sspec.
    by eapply sp_read_ok.
  Qed.

  Lemma cl_write_ok f n :
    o = OWrite f → r = ROk n →
    ∃ b m dn, fid_of s f = Some b ∧ b_open b = Some (m, dn) ∧ (N.land m 3 = 1 ∨ N.land m 3 = 2).
  Proof.
    intros -> ->. sspec.
    by eapply sp_write_ok.
  Qed.
End clauses.

(* ---- C13 ---- *)
Lemma after_stop ops ts : no_stop ops → after (ops ++ [(OStop, ts)]) = (do_stop (after ops)).1.1.
Proof.
  intros Hns. pose proof (run_refines ops sess0 WF_sess0 Hns) as (_ & _ & Hwf & Hnh & Hlen).
  assert (HG : G (after ops)) by (by apply (run_G ops sess0 WF_sess0 G_sess0 Hns)).
  pose proof (stop_G _ HG (any_locked_WF _ Hwf)) as (_ & _ & _ & _ & _ & _ & _ & Hok).
  unfold after in *. rewrite (srun_app ops sess0 [(OStop, ts)] Hnh Hlen). cbn [srun sstep].
  destruct (do_stop (final sess0 (srun sess0 ops))) as [[s1 r] cs]. cbn in Hok. subst r. cbn.
  unfold final. by rewrite last_snoc.
Qed.

Lemma c13_once ops : no_stop ops → NoDup (rel (after ops)).
Proof. intros H. apply G_nodup, reach_G. by exists ops. Qed.

Lemma c13_all ops e : no_stop ops →
  e ∈ bound_ever (after ops) → (∃ f, B (after ops) f e) ∨ e ∈ rel (after ops).
Proof. intros H He. assert (HG : G (after ops)) by (apply reach_G; by exists ops).
  by apply (G_ever _ HG) in He as [_ ?]. Qed.

Lemma c13_not_while_bound ops f e : no_stop ops → B (after ops) f e → e ∉ rel (after ops).
Proof. intros H Hb. assert (HG : G (after ops)) by (apply reach_G; by exists ops).
  by apply (G_live _ HG) in Hb as [? _]. Qed.

Lemma c13_bound_once ops f g e : no_stop ops → B (after ops) f e → B (after ops) g e → f = g.
Proof. intros H. apply G_inj, reach_G. by exists ops. Qed.

Lemma c13_no_use_after ops : no_stop ops → bad_use (after ops) = [].
Proof. intros H. apply G_bad, reach_G. by exists ops. Qed.

Definition bound_cause (c : cause) : Prop :=
  c = RcClunk ∨ c = RcRemove ∨ c = RcCreate ∨ c = RcWalk ∨ c = RcStop.

Lemma G_causes s e c : G s → (e, c) ∈ released s → e ∈ bound_ever s → bound_cause c.
Proof.
  intros HG Hr Hb. unfold bound_cause. destruct c; eauto 6.
  by apply (G_drop _ HG) in Hr.
Qed.

Lemma c13_causes ops e c : no_stop ops →
  (e, c) ∈ released (after ops) → e ∈ bound_ever (after ops) → bound_cause c.
Proof. intros H. apply G_causes, reach_G. by exists ops. Qed.

Lemma c13_stop ops ts : no_stop ops →
  let s' := after (ops ++ [(OStop, ts)]) in
  NoDup (rel s') ∧ (∀ f e, ¬ B s' f e) ∧
  bound_ever s' = bound_ever (after ops) ∧
  (∀ e, e ∈ bound_ever s' → e ∈ rel s') ∧
  bad_use s' = [] ∧
  (∀ e c, (e, c) ∈ released s' → e ∈ bound_ever s' → bound_cause c).
Proof.
  intros Hns. cbn zeta. rewrite (after_stop _ _ Hns).
  assert (Hr : reach (after ops)) by (by exists ops).
  destruct (stop_G _ (reach_G _ Hr) (any_locked_WF _ (reach_WF _ Hr))) as (HG' & Hnb & Hbe & Hall & _).
  split_and!; try done.
  - by apply G_nodup.
  - by apply G_bad.
  - intros e c. by apply G_causes.
Qed.

(* Stop returns, empties the table (every fid can be used again) and hands out no entry *)
Lemma stop_empties s ts s' r cs :
  reach s → sstep s OStop ts = (s', r, cs) → r = ROk 0 ∧ abs s' = Spec ∅ (next s).
Proof.
  intros Hr Hst. cbn [sstep] in Hst.
  destruct (stop_G _ (reach_G _ Hr) (any_locked_WF _ (reach_WF _ Hr))) as (_ & _ & _ & _ & _ & Hemp & Hn & Hok).
  rewrite Hst in *. cbn in *. split; [done|]. unfold abs. by rewrite Hemp, Hn, omap_empty.
Qed.

(* Stop called while an operation is inside the file system: Stop waits for it *)
Lemma c13_stop_inflight s o ts :
  reach s → is_stop o = false →
  let s3 := (inflight_stop s o ts).2.1.1 in
  NoDup (rel s3) ∧ (∀ f' e, ¬ B s3 f' e) ∧ refs s3 = ∅ ∧
  (∀ e, e ∈ bound_ever s3 → e ∈ rel s3) ∧ bad_use s3 = [] ∧
  bound_ever s3 = bound_ever (sstep s o ts).1.1 ∧
  (inflight_stop s o ts).2.1.2 = ROk 0 ∧ (inflight_stop s o ts).1.1.2 ≠ RHang.
Proof.
  intros Hr Ho. cbn zeta.
  destruct (inflight_stop_G s o ts (reach_WF _ Hr) (reach_G _ Hr) Ho) as (HG & Hnb & Hemp & Hbe & Hall & Hok & Hnh).
  split_and!; try done; [by apply G_nodup|by apply G_bad].
Qed.
