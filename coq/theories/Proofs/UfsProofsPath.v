(* The Go translation layer [impl_alg] (fServer.fullPath, FileRef.fullPath,
   WalkName, CreateName, WStat's rename target as the code computes them on
   strings) satisfies the hypotheses of the generic invariant of UfsProofs.v
   with  Pinv = canonical internal path,  Hinv = Base/<good components>. *)
From Coq Require Import List NArith ZArith Bool Lia.
From P9 Require Import Base.Res Model.Path Model.HostFS Model.Ufs Gen.GenConsts.
From P9 Require Import Proofs.PathProofs Proofs.PathExtra Proofs.UfsProofs.
Import ListNotations.
Open Scope N_scope.

(* a component of a canonical internal path: not "", ".", "..", no '/' and no '\' *)
Definition good (c : bstr) : Prop := okcomp c /\ ~ In BSLASH c.
(* the invariant ufs states for FileRef.Path: absolute, no backslash, no empty/"."/".." component *)
Definition canon (p : bstr) : Prop := exists cs, p = render cs /\ Forall good cs.
(* lexically inside the export: the base's components followed by good components *)
Definition under (bcs : list bstr) (hp : bstr) : Prop := exists cs, hp = render (bcs ++ cs) /\ Forall good cs.

Lemma render_rendered cs : render cs = rendered cs.
Proof. reflexivity. Qed.

Lemma good_okcomp cs : Forall good cs -> Forall okcomp cs.
Proof. intros Hf. eapply Forall_impl; [|exact Hf]. intros c [Ho _]; exact Ho. Qed.

Lemma has_bslash_false p : has_bslash p = false <-> ~ In BSLASH p.
Proof.
  unfold has_bslash. split.
  - intros E Hin. assert (Ht : existsb (fun c => c =? BSLASH) p = true).
    { apply existsb_exists. exists BSLASH. split; [exact Hin|apply N.eqb_refl]. }
    congruence.
  - intros Hn. destruct (existsb (fun c => c =? BSLASH) p) eqn:E; [|reflexivity].
    apply existsb_exists in E. destruct E as (x & Hx & Ex). apply N.eqb_eq in Ex. subst. contradiction.
Qed.

Lemma join_chars_inv cs : forall x, In x (join_slash cs) -> x = SLASH \/ exists c, In c cs /\ In x c.
Proof.
  induction cs as [|d cs IH]; intros x Hx; [destruct Hx|].
  destruct cs as [|e cs'].
  - right. exists d. split; [left; reflexivity|exact Hx].
  - rewrite join_cons in Hx by congruence. apply in_app_or in Hx. destruct Hx as [Hx|[Hx|Hx]].
    + right. exists d. split; [left; reflexivity|exact Hx].
    + left; auto.
    + destruct (IH x Hx) as [Hs|(c & Hc & Hxc)]; [left; exact Hs|].
      right. exists c. split; [right; exact Hc|exact Hxc].
Qed.

Lemma canon_no_bslash cs : Forall good cs -> ~ In BSLASH (render cs).
Proof.
  intros Hf [Heq|Hin]; [discriminate|].
  destruct (join_chars_inv cs _ Hin) as [Heq|(c & Hc & Hxc)]; [discriminate|].
  rewrite Forall_forall in Hf. destruct (Hf c Hc) as (_ & Hnb). contradiction.
Qed.

(* fullPath lets exactly the canonical paths through *)
Lemma fullpath_canon base p hp : fs_fullpath base p = Some hp -> canon p /\ hp = fp_join base p.
Proof.
  unfold fs_fullpath.
  destruct (path_is_abs p) eqn:Ea; simpl; [|discriminate].
  destruct (has_bslash p) eqn:Eb; simpl; [discriminate|].
  destruct (bstr_eqb_spec (path_clean p) p) as [Ec|Ec]; simpl; [|discriminate].
  intros E; inversion E; subst. split; [|reflexivity].
  destruct p as [|c s]; [discriminate|]. simpl in Ea. apply N.eqb_eq in Ea. subst c.
  destruct (clean_abs_canon s) as (cs & Hcl & Hok & Hch).
  exists cs. split; [rewrite <- Ec at 1; exact Hcl|].
  apply has_bslash_false in Eb.
  apply Forall_forall. intros c Hc. rewrite Forall_forall in Hok. split; [apply Hok; exact Hc|].
  intros Hin. apply Eb. right. apply (Hch c BSLASH Hc Hin).
Qed.

Lemma canon_fullpath bcs cs : Forall okcomp bcs -> Forall good cs ->
  fs_fullpath (render bcs) (render cs) = Some (render (bcs ++ cs)) /\
  ref_fullpath (render bcs) (render cs) = render (bcs ++ cs).
Proof.
  intros Hb Hc. pose proof (good_okcomp cs Hc) as Ho.
  assert (Hj : fp_join (render bcs) (render cs) = render (bcs ++ cs)).
  { unfold fp_join. rewrite !render_rendered. apply join_rendered; auto. }
  split; [|exact Hj].
  unfold fs_fullpath.
  assert (E1 : path_is_abs (render cs) = true) by reflexivity.
  assert (E2 : has_bslash (render cs) = false) by (apply has_bslash_false; apply canon_no_bslash; auto).
  assert (E3 : path_clean (render cs) = render cs) by (apply clean_rendered; auto).
  rewrite E1, E2, E3. cbn [negb orb].
  destruct (bstr_eqb_spec (render cs) (render cs)) as [_|Hn]; [|congruence]. cbn [negb]. rewrite Hj. reflexivity.
Qed.

Section Impl.
  Context {H : Type}.
  Variable hc : H -> hcall -> H * hresult.
  Variable bcs : list bstr.
  Hypothesis base_ok : Forall okcomp bcs.

  Let A := impl_alg (render bcs).

  Lemma impl_full_ok q hp : ua_fullpath A q = Some hp -> canon q /\ under bcs hp.
  Proof.
    simpl. intros E. destruct (fullpath_canon _ _ _ E) as ((cs & -> & Hc) & _).
    split; [exists cs; auto|].
    destruct (canon_fullpath bcs cs base_ok Hc) as (E2 & _). rewrite E2 in E. inversion E; subst.
    exists cs; auto.
  Qed.

  Lemma impl_host_ok q : canon q -> under bcs (ua_hostpath A q).
  Proof.
    intros (cs & -> & Hc). simpl. destruct (canon_fullpath bcs cs base_ok Hc) as (_ & E2). rewrite E2.
    exists cs; auto.
  Qed.

  Lemma impl_walk_total q ns : canon q -> ua_walk A q ns <> Panic /\ ua_walk A q ns <> Hang.
  Proof.
    intros (cs & -> & _). simpl. unfold walk_name, render.
    destruct (_ || _); split; discriminate.
  Qed.

  Lemma impl_create_total q n : canon q -> ua_create A q n <> Panic /\ ua_create A q n <> Hang.
  Proof. intros _. simpl. unfold create_name. destruct (_ || _); split; discriminate. Qed.

  (* C15, lexical part: after ANY sequence of operations, on ANY host, every internal
     path is canonical, every path handed to the host is Base/<good components>, and
     no call panicked or hung *)
  Theorem impl_confined ops h :
    let s := fst (run hc A (init h) ops) in
    (forall fid r, In (fid, r) (u_fids s) -> canon (fr_path (sf_ent r))) /\
    (forall c p, In c (u_log s) -> In p (hcall_paths c) -> under bcs p).
  Proof.
    pose proof (run_inv hc A canon (under bcs) impl_full_ok impl_host_ok impl_walk_total impl_create_total ops (init h) (init_inv _ _ h)) as (Hf & Hl & _).
    split.
    - intros fid r Hin. rewrite Forall_forall in Hf. apply (Hf _ Hin).
    - intros c p Hc Hp. rewrite Forall_forall in Hl. specialize (Hl c Hc). unfold call_ok in Hl.
      rewrite Forall_forall in Hl. apply Hl; exact Hp.
  Qed.

  Theorem impl_no_panic ops h :
    ~ In ObPanic (snd (run hc A (init h) ops)) /\ ~ In ObHang (snd (run hc A (init h) ops)).
  Proof.
    apply (run_no_panic hc A canon (under bcs) impl_full_ok impl_host_ok impl_walk_total impl_create_total).
    apply init_inv.
  Qed.
End Impl.

(* ---- the session/ufs name filters of the Go layer ---- *)

Lemma impl_create_filter_dots {H} (hc : H -> hcall -> H * hresult) base s fid name perm mode :
  name = [DOT] \/ name = DOTDOT -> fst (step hc (impl_alg base) s (OpCreate fid name perm mode)) = s.
Proof.
  intros Hn. rewrite create_filter; [reflexivity|]. simpl.
  destruct Hn as [->| ->]; reflexivity.
Qed.

(* any name CreateName refuses - empty, ".", "..", or containing '/' or '\' - causes no host call at all *)
Lemma impl_create_filter {H} (hc : H -> hcall -> H * hresult) base s fid name perm mode :
  has_sep name = true \/ name = [] \/ name = [DOT] \/ name = DOTDOT ->
  fst (step hc (impl_alg base) s (OpCreate fid name perm mode)) = s.
Proof.
  intros Hn. apply create_name_filter. intros p. exists []. simpl. unfold create_name.
  destruct Hn as [E|[->|[->| ->]]].
  - rewrite E. reflexivity.
  - destruct (has_sep []); reflexivity.
  - reflexivity.
  - reflexivity.
Qed.

Lemma impl_remove_root {H} (hc : H -> hcall -> H * hresult) base s fid r :
  u_stuck s = false -> fid_get fid (u_fids s) = Some r -> fr_path (sf_ent r) = [SLASH] ->
  snd (step hc (impl_alg base) s (OpRemove fid)) = ObErr /\
  (forall c, In c (u_log (fst (step hc (impl_alg base) s (OpRemove fid)))) -> In c (u_log s) \/ exists fd, c = HClose fd).
Proof. intros Hs Eg Ep. apply (remove_root hc (impl_alg base) s fid r Hs Eg). change (ufs_is_root (fr_path (sf_ent r)) = true). rewrite Ep. reflexivity. Qed.

(* ---- the model kernel: a directory cannot be renamed to a path at or below itself ---- *)

Definition src_is_dir (h : host) (a : bstr) : bool :=
  match resolve_parent h a with
  | Some (_, _, entsa, na) =>
      match sassoc na entsa with
      | Some ia => match nassoc ia (h_inodes h) with Some (IDir _ _) => true | _ => false end
      | None => false
      end
  | None => false
  end.

Lemma h_rename_into_self h a b ca cb :
  kpath a = Some ca -> kpath b = Some cb -> is_prefix ca cb = true -> src_is_dir h a = true ->
  fst (h_rename h a b) = h.
Proof.
  intros Ka Kb Hp Hd. unfold h_rename. unfold src_is_dir in Hd.
  destruct (resolve_parent h a) as [[[[da dma] entsa] na]|]; [|reflexivity].
  destruct (resolve_parent h b) as [[[[db dmb] entsb] nb]|]; [|reflexivity].
  rewrite Ka, Kb.
  destruct (sassoc na entsa) as [ia|]; [|reflexivity].
  destruct (match sassoc nb entsb with Some t => t =? ia | None => false end); [reflexivity|].
  destruct (nassoc ia (h_inodes h)) as [[m d|m e]|]; try discriminate.
  rewrite Hp. reflexivity.
Qed.

(* ---- boolean characterisations (used by the spec layer and by the examples) ---- *)

Lemma has_sep_false c : has_sep c = false <-> (~ In SLASH c /\ ~ In BSLASH c).
Proof.
  unfold has_sep. split.
  - intros E. split; intros Hin;
      (assert (Ht : existsb (fun c0 => (c0 =? SLASH) || (c0 =? BSLASH)) c = true);
       [apply existsb_exists; eexists; split; [exact Hin|]|congruence]).
    + rewrite N.eqb_refl. reflexivity.
    + rewrite N.eqb_refl. apply orb_true_r.
  - intros (H1 & H2). destruct (existsb _ c) eqn:E; [|reflexivity].
    apply existsb_exists in E. destruct E as (x & Hx & Ex). apply orb_true_iff in Ex.
    destruct Ex as [Ex|Ex]; apply N.eqb_eq in Ex; subst; contradiction.
Qed.

Lemma goodb_spec c : goodb c = true <-> good c.
Proof.
  unfold goodb, good, okcomp, noslash. split.
  - intros E. apply andb_true_iff in E. destruct E as (E & E4).
    apply andb_true_iff in E. destruct E as (E & E3).
    apply andb_true_iff in E. destruct E as (E1 & E2).
    apply negb_true_iff in E1, E2, E3, E4. apply has_sep_false in E4. destruct E4 as (Hs & Hb).
    repeat split; auto; apply flags_okc; auto.
  - intros ((Ho & Hs) & Hb). destruct (okc_flags c Ho) as (E1 & E2 & E3).
    rewrite E1, E2, E3. simpl. apply negb_true_iff. apply has_sep_false. auto.
Qed.

Lemma forallb_good cs : forallb goodb cs = true <-> Forall good cs.
Proof.
  rewrite forallb_forall, Forall_forall. split; intros Hf c Hc; apply goodb_spec; auto.
Qed.

Lemma good_flags c : good c -> goodb c = true.
Proof. apply goodb_spec. Qed.

(* ---- the model kernel resolves a confined path inside the export ----
   Model/HostFS.v has no symbolic links and refuses "." / "..": a path
   Base/<components> resolves, if at all, to an inode reached from the export
   root's inode by descending through directory entries named by the components. *)

Lemma walk_ino_app t a : forall i b,
  walk_ino t i (a ++ b) = match walk_ino t i a with Some j => walk_ino t j b | None => None end.
Proof.
  induction a as [|c a IH]; intros i b; simpl; [reflexivity|].
  destruct (nassoc i t) as [[m d|m ents]|]; try reflexivity.
  destruct (sassoc c ents) as [j|]; [apply IH|reflexivity].
Qed.

Lemma kcomps_render l : Forall okcomp l -> kcomps (render l) = l.
Proof.
  intros Hl. unfold kcomps, render.
  change (split_slash (SLASH :: join_slash l)) with (split_slash ([] ++ SLASH :: join_slash l)).
  rewrite split_app. change (split_slash []) with [@nil N]. cbn [app filter is_empty negb].
  destruct (split_join_facts l Hl) as (_ & Hb). exact Hb.
Qed.

Lemma model_resolution_confined h bcs cs i :
  Forall okcomp bcs -> Forall good cs ->
  resolve h (render (bcs ++ cs)) = Some i ->
  exists b, walk_ino (h_inodes h) ROOT_INO bcs = Some b /\ walk_ino (h_inodes h) b cs = Some i.
Proof.
  intros Hb Hc. unfold resolve, kpath.
  assert (Hk : kcomps (render (bcs ++ cs)) = bcs ++ cs).
  { apply kcomps_render. apply Forall_app. split; [exact Hb|apply good_okcomp; exact Hc]. }
  rewrite Hk.
  destruct (_ && _); [|discriminate].
  rewrite walk_ino_app. destruct (walk_ino (h_inodes h) ROOT_INO bcs) as [b|]; [|discriminate].
  intros E. exists b. auto.
Qed.

Lemma model_parent_confined h bcs cs d dm ents name :
  Forall okcomp bcs -> Forall good cs -> cs <> [] ->
  resolve_parent h (render (bcs ++ cs)) = Some (d, dm, ents, name) ->
  exists b, walk_ino (h_inodes h) ROOT_INO bcs = Some b /\
            walk_ino (h_inodes h) b (removelast cs) = Some d /\ name = last cs [].
Proof.
  intros Hb Hc Hne. unfold resolve_parent, kpath.
  assert (Hk : kcomps (render (bcs ++ cs)) = bcs ++ cs).
  { apply kcomps_render. apply Forall_app. split; [exact Hb|apply good_okcomp; exact Hc]. }
  rewrite Hk.
  destruct (_ && _); [|discriminate].
  destruct cs as [|x cs'] using rev_ind; [congruence|]. clear IHcs'.
  rewrite app_assoc, rev_unit, removelast_last, removelast_last, last_last.
  rewrite walk_ino_app. destruct (walk_ino (h_inodes h) ROOT_INO bcs) as [b|]; [|discriminate].
  destruct (walk_ino (h_inodes h) b cs') as [d'|] eqn:Ew; [|discriminate].
  destruct (nassoc d' (h_inodes h)) as [[m dd|m es]|]; try discriminate.
  intros E. inversion E; subst. exists b. auto.
Qed.
