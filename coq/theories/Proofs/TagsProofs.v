(* Lemmas about the owner loop, the wire view and send (Model/Tags.v).
   List notions here are Coq's (List.In, List.NoDup, List.filter). *)
From stdpp Require Import nmap fin_maps.
From Coq Require Import List NArith Bool Lia ZifyBool ZifyNat ZifyN.
From P9 Require Import Gen.GenReplyTypes Model.Tags Proofs.TagsProofsAlloc.
Import ListNotations.
Open Scope N_scope.

(* ---------------------------------------------------------------- facts read off the source *)

(* These hold by computation on the regenerated tables.  If the source changes
   so that one of them is false, the theorems below that use it stop compiling. *)
Lemma src_unknown_tag_dropped : unknown_tag_panics = false.
Proof. reflexivity. Qed.
Lemma src_send_first_cases : send_first_cases = (true, true, true).
Proof. reflexivity. Qed.
Lemma src_send_second_cases : send_second_cases = (true, true, true, true).
Proof. reflexivity. Qed.
Lemma src_reader_retry_stops : reader_retry_stops_when_done = true.
Proof. reflexivity. Qed.
Lemma src_owner_queues_writes : owner_writes_inline = false /\ failed_arm_guarded = true.
Proof. split; reflexivity. Qed.
Lemma src_chan_caps : response_chan_cap = 1 /\ err_chan_cap = 1.
Proof. split; reflexivity. Qed.
Lemma src_reply_types :
  map (fun row => (snd (fst row), snd row)) reply_types =
  [(102, 103); (104, 105); (110, 111); (112, 113); (114, 115); (116, 117);
   (118, 119); (120, 121); (122, 123); (124, 125); (126, 127)].
Proof. reflexivity. Qed.
Lemma src_error_type_not_expected :
  forallb (fun row => negb (snd row =? send_error_type)) reply_types = true.
Proof. reflexivity. Qed.

(* ---------------------------------------------------------------- running event lists *)

Lemma hrun_app : forall a b st,
  hrun st (a ++ b) =
  let '(st1, o1) := hrun st a in let '(st2, o2) := hrun st1 b in (st2, o1 ++ o2).
Proof.
  induction a as [|e a IH]; intros b st; cbn [hrun app].
  - destruct (hrun st b); reflexivity.
  - destruct (hstep st e) as [st1 o1]. rewrite IH.
    destruct (hrun st1 a) as [st2 o2]. destruct (hrun st2 b) as [st3 o3].
    rewrite app_assoc. reflexivity.
Qed.

Lemma run_snoc : forall evs e,
  run (evs ++ [e]) = (fst (hstep (fst (run evs)) e), snd (run evs) ++ snd (hstep (fst (run evs)) e)).
Proof.
  intros evs e. unfold run. rewrite hrun_app. cbn [hrun].
  destruct (hrun h_init evs) as [st tr]. cbn [fst snd]. destruct (hstep st e) as [st' o]. cbn [fst snd].
  rewrite app_nil_r. reflexivity.
Qed.

Lemma trace_snoc : forall evs e,
  trace (evs ++ [e]) = trace evs ++ snd (hstep (fst (run evs)) e).
Proof. intros. unfold trace. rewrite run_snoc. reflexivity. Qed.

Lemma state_snoc : forall evs e, fst (run (evs ++ [e])) = fst (hstep (fst (run evs)) e).
Proof. intros. rewrite run_snoc. reflexivity. Qed.

(* ---------------------------------------------------------------- one step, by cases *)

(* frames queued or with the writer, oldest first *)
Definition jobs (st : hstate) : list wjob :=
  (match h_writer st with Some w => [w] | None => [] end) ++ h_pend st.

Definition is_flag_event (e : hevent) : bool :=
  match e with EReadFatal | EReadRetry | ECtxDone | EExit | ECancel _ => true | _ => false end.

(* every step is one of these shapes (unknown_tag_panics = false and
   failed_arm_guarded = true are used here) *)
Inductive step_shape (st : hstate) : hevent -> hstate -> list hout -> Prop :=
| SS_idle e : step_shape st e st []
| SS_req_err c mt e :
    h_running st = true -> allocate (h_out st) (h_sel st) = inr e ->
    step_shape st (EReq c mt) st [ODeliverErr c e]
| SS_req_ok c mt t :
    h_running st = true -> allocate (h_out st) (h_sel st) = inl t ->
    step_shape st (EReq c mt)
      (with_data st (<[t := c]> (h_out st)) t (h_pend st ++ [{| w_call := c; w_tag := t; w_mt := mt |}]) (h_writer st)) []
| SS_hand w rest :
    h_running st = true -> h_pend st = w :: rest -> h_writer st = None ->
    step_shape st EHand (with_data st (h_out st) (h_sel st) rest (Some w)) []
| SS_wrote w :
    h_writer st = Some w ->
    step_shape st EWrote (with_data st (h_out st) (h_sel st) (h_pend st) None) [OFrame (w_tag w) (w_call w) (w_mt w)]
| SS_wfail_del w :
    h_running st = true -> h_writer st = Some w -> h_out st !! w_tag w = Some (w_call w) ->
    step_shape st EWriteFailed (with_data st (delete (w_tag w) (h_out st)) (h_sel st) (h_pend st) None)
      [ODeliverErr (w_call w) EWrite]
| SS_wfail_keep w :
    h_running st = true -> h_writer st = Some w -> h_out st !! w_tag w <> Some (w_call w) ->
    step_shape st EWriteFailed (with_data st (h_out st) (h_sel st) (h_pend st) None)
      [ODeliverErr (w_call w) EWrite]
| SS_wfail_drop w :
    h_running st = false -> h_writer st = Some w ->
    step_shape st EWriteFailed (with_data st (h_out st) (h_sel st) (h_pend st) None) []
| SS_resp t r c :
    h_running st = true -> h_out st !! t = Some c ->
    step_shape st (EResp t r) (with_data st (delete t (h_out st)) (h_sel st) (h_pend st) (h_writer st)) [ODeliver c r]
| SS_flags e st' :
    h_out st' = h_out st -> h_sel st' = h_sel st -> h_pend st' = h_pend st -> h_writer st' = h_writer st ->
    h_panicked st' = h_panicked st ->
    (h_closed st = true -> h_closed st' = true) ->
    (h_shut st = true -> h_shut st' = true) -> (h_ctx st = true -> h_ctx st' = true) ->
    is_flag_event e = true ->
    step_shape st e st' (match e with EExit => if exit_enabled st then [OClosed] else [] | _ => [] end).

Lemma with_flags_shape : forall st e a b c,
  is_flag_event e = true ->
  (h_closed st = true -> c = true) -> (h_shut st = true -> a = true) -> (h_ctx st = true -> b = true) ->
  step_shape st e (with_flags st a b c (h_panicked st))
    (match e with EExit => if exit_enabled st then [OClosed] else [] | _ => [] end).
Proof. intros. apply SS_flags; cbn; auto. Qed.

Lemma same_state_flags : forall st e, is_flag_event e = true ->
  step_shape st e st (match e with EExit => if exit_enabled st then [OClosed] else [] | _ => [] end).
Proof. intros. apply SS_flags; auto. Qed.

Lemma hstep_shape : forall st e, step_shape st e (fst (hstep st e)) (snd (hstep st e)).
Proof.
  intros st e. destruct e as [c mt| | | |t r| | | | |c]; cbn [hstep].
  - (* EReq *)
    destruct (h_running st) eqn:Hr; [|apply SS_idle].
    destruct (allocate (h_out st) (h_sel st)) as [t|er] eqn:Hal; cbn [fst snd].
    + apply SS_req_ok; assumption.
    + apply SS_req_err; assumption.
  - (* EHand *)
    destruct (h_running st) eqn:Hr; [|apply SS_idle].
    destruct (h_pend st) as [|w rest] eqn:Hp; [apply SS_idle|].
    destruct (h_writer st) eqn:Hw; cbn [fst snd]; [apply SS_idle | apply SS_hand; assumption].
  - (* EWrote *)
    destruct (h_writer st) as [w|] eqn:Hw; cbn [fst snd]; [apply SS_wrote; assumption | apply SS_idle].
  - (* EWriteFailed *)
    destruct (h_writer st) as [w|] eqn:Hw; cbn [fst snd]; [|apply SS_idle].
    destruct (h_running st) eqn:Hr; cbn [fst snd]; [|apply (SS_wfail_drop st w); assumption].
    destruct src_owner_queues_writes as [_ Hg]. rewrite Hg.
    destruct (h_out st !! w_tag w) as [c|] eqn:Hl.
    + destruct (c =? w_call w) eqn:Ec; cbn [negb].
      * apply (SS_wfail_del st w); try assumption. rewrite Hl. f_equal. lia.
      * apply (SS_wfail_keep st w); try assumption. rewrite Hl. intros Heq. inversion Heq. lia.
    + apply (SS_wfail_keep st w); try assumption. rewrite Hl. discriminate.
  - (* EResp *)
    destruct (h_running st) eqn:Hr; [|apply SS_idle].
    destruct (h_out st !! t) as [c|] eqn:Hl; cbn [fst snd].
    + apply SS_resp; assumption.
    + rewrite src_unknown_tag_dropped. apply SS_idle.
  - cbn [fst snd]. apply (with_flags_shape st EReadFatal); auto.
  - destruct (reader_retry_stops_when_done && (h_ctx st || h_closed st)); cbn [fst snd];
      [apply (with_flags_shape st EReadRetry); auto | apply (same_state_flags st EReadRetry); reflexivity].
  - cbn [fst snd]. apply (with_flags_shape st ECtxDone); auto.
  - fold (exit_enabled st). destruct (exit_enabled st) eqn:He; cbn [fst snd].
    + pose proof (with_flags_shape st EExit (h_shut st) (h_ctx st) true eq_refl) as H.
      rewrite He in H. apply H; auto.
    + pose proof (same_state_flags st EExit eq_refl) as H. rewrite He in H. exact H.
  - cbn [fst snd]. apply (same_state_flags st (ECancel c)); reflexivity.
Qed.

Ltac step_cases st e :=
  let Hs := fresh "Hs" in
  pose proof (hstep_shape st e) as Hs;
  let st' := fresh "st'" in let o := fresh "o" in
  remember (fst (hstep st e)) as st' eqn:Hst'; remember (snd (hstep st e)) as o eqn:Ho;
  destruct Hs.

Tactic Notation "simp_st" :=
  cbn [h_out with_data with_flags h_sel h_pend h_writer h_shut h_ctx h_closed h_panicked fst snd jobs app].
Tactic Notation "simp_st" "in" hyp(H) :=
  cbn [h_out with_data with_flags h_sel h_pend h_writer h_shut h_ctx h_closed h_panicked fst snd jobs app] in H.

Lemma flag_event_outputs : forall st e, is_flag_event e = true ->
  forall o, In o (match e with EExit => if exit_enabled st then [OClosed] else [] | _ => [] end) -> o = OClosed.
Proof.
  intros st e He o Hin. destruct e; try (destruct Hin; fail).
  destruct (exit_enabled st); [destruct Hin as [<-|[]]; reflexivity | destruct Hin].
Qed.

(* ---------------------------------------------------------------- C12: no panic *)

Lemma hstep_no_panic : forall st e,
  h_panicked st = false ->
  h_panicked (fst (hstep st e)) = false /\ ~ In OPanic (snd (hstep st e)).
Proof.
  intros st e Hp. step_cases st e; simp_st;
    try (split; [assumption | intros Hin; repeat (destruct Hin as [Hin|Hin]; [discriminate|]); destruct Hin]).
  split; [congruence|]. intros Hin. apply (flag_event_outputs st e H7) in Hin. discriminate.
Qed.

Lemma run_no_panic : forall evs,
  h_panicked (fst (run evs)) = false /\ ~ In OPanic (trace evs).
Proof.
  induction evs as [|e evs IH] using rev_ind.
  - split; [reflexivity | intros []].
  - destruct IH as [Hp Hn]. rewrite state_snoc, trace_snoc.
    destruct (hstep_no_panic (fst (run evs)) e Hp) as [Hp' Hn'].
    split; [assumption|]. intros Hin. apply in_app_or in Hin as [H|H]; tauto.
Qed.

(* ---------------------------------------------------------------- C05: distinct tags on the wire *)

Definition wire_step (st : hstate) (e : hevent) : list wire :=
  (match e with EResp t rp => [WReply t rp] | _ => [] end)
  ++ flat_map (fun o => match o with OFrame t c _ => [WFrame t c] | _ => [] end) (snd (hstep st e)).

Lemma hwire_cons : forall st e r,
  hwire st (e :: r) = wire_step st e ++ hwire (fst (hstep st e)) r.
Proof.
  intros. cbn [hwire]. unfold wire_step. destruct (hstep st e) as [st1 o1]. cbn [fst snd].
  rewrite app_assoc. reflexivity.
Qed.

Lemma awaiting_from_app : forall a b acc,
  awaiting_from acc (a ++ b) = awaiting_from (awaiting_from acc a) b.
Proof.
  induction a as [|w a IH]; intros b acc; [reflexivity|].
  destruct w; cbn [app awaiting_from]; apply IH.
Qed.

Lemma flag_event_wire : forall st e, is_flag_event e = true ->
  (match e with EResp t rp => [WReply t rp] | _ => [] end)
  ++ flat_map (fun o => match o with OFrame t c _ => [WFrame t c] | _ => [] end)
       (match e with EExit => if exit_enabled st then [OClosed] else [] | _ => [] end) = [].
Proof. intros st e He. destruct e; try discriminate; try reflexivity. destruct (exit_enabled st); reflexivity. Qed.

(* "the peer answers only requests it has received and not yet answered":
   every reply event carries a tag that awaits a reply on the wire at that moment *)
Fixpoint honest_from (st : hstate) (acc : list tag) (evs : list hevent) : Prop :=
  match evs with
  | [] => True
  | e :: r => (match e with EResp t _ => In t acc | _ => True end) /\
              honest_from (fst (hstep st e)) (awaiting_from acc (wire_step st e)) r
  end.
Definition honest_peer (evs : list hevent) : Prop := honest_from h_init [] evs.

Definition jobtags (st : hstate) : list N := map w_tag (jobs st).

(* the tags awaiting a reply on the wire and the tags of frames not yet written
   are keys of [outstanding], all distinct, valid tags, and each queued frame's
   tag still belongs to its own call *)
Definition tags_inv (st : hstate) (acc : list tag) : Prop :=
  NoDup (acc ++ jobtags st) /\
  (forall t, In t acc -> is_Some (h_out st !! t)) /\
  (forall w, In w (jobs st) -> h_out st !! w_tag w = Some (w_call w)) /\
  (forall t, is_Some (h_out st !! t) -> t < 65535).

Lemma NoDup_filter_coq : forall (f : N -> bool) l, NoDup l -> NoDup (filter f l).
Proof.
  intros f l H. induction H as [|x l Hx Hl IH]; cbn [filter]; [constructor|].
  destruct (f x); [|assumption]. constructor; [|assumption].
  intros Hin. apply filter_In in Hin as [Hin _]. contradiction.
Qed.

Lemma NoDup_app_filter_l : forall (f : N -> bool) a b, NoDup (a ++ b) -> NoDup (filter f a ++ b).
Proof.
  induction a as [|x a IH]; intros b H; cbn [filter app] in *; [assumption|].
  inversion H as [|? ? Hx Hr]; subst. destruct (f x); [|auto].
  cbn [app]. constructor; [|auto]. intros Hin. apply Hx. apply in_app_or in Hin as [Hin|Hin]; apply in_or_app; [left|right; assumption].
  apply filter_In in Hin as [Hin _]. assumption.
Qed.

Lemma NoDup_app_l_N : forall (a b : list N), NoDup (a ++ b) -> NoDup a.
Proof.
  induction a as [|x a IH]; cbn; intros b H; [constructor|].
  inversion H as [|? ? Hx Hr]; subst. constructor; [|eauto].
  intros Hin. apply Hx. apply in_or_app. auto.
Qed.

Lemma NoDup_snoc_N : forall (l : list N) x, NoDup l -> ~ In x l -> NoDup (l ++ [x]).
Proof.
  intros l x Hl Hx. apply NoDup_rev in Hl. rewrite <- (rev_involutive (l ++ [x])).
  apply NoDup_rev. rewrite rev_app_distr. cbn. constructor; [|assumption].
  intros Hin. apply in_rev in Hin. contradiction.
Qed.

Lemma NoDup_app_disjoint : forall (a b : list N) x, NoDup (a ++ b) -> In x a -> In x b -> False.
Proof.
  induction a as [|y a IH]; intros b x H Ha Hb; [destruct Ha|].
  cbn [app] in H. inversion H as [|? ? Hy Hr]; subst. destruct Ha as [->|Ha].
  - apply Hy. apply in_or_app. right. assumption.
  - eapply IH; eassumption.
Qed.

Lemma tags_inv_filter : forall st acc f, tags_inv st acc -> tags_inv st (filter f acc).
Proof.
  intros st acc f (Hnd & Hkeys & Hjobs & Hlt). split; [apply NoDup_app_filter_l; assumption|]. split; [|split; assumption].
  intros x Hx. apply filter_In in Hx as [Hx _]. auto.
Qed.

Ltac simp_model :=
  unfold tags_inv, jobtags;
  cbn [awaiting_from app flat_map map h_out with_data with_flags h_sel h_pend h_writer h_shut h_ctx h_closed h_panicked fst snd jobs];
  unfold jobs;
  cbn [awaiting_from app flat_map map h_out with_data with_flags h_sel h_pend h_writer h_shut h_ctx h_closed h_panicked fst snd].

Lemma tags_inv_step : forall st e acc,
  tags_inv st acc -> (forall t r, e = EResp t r -> In t acc) ->
  tags_inv (fst (hstep st e)) (awaiting_from acc (wire_step st e)).
Proof.
  intros st e acc Hinv Hhon. unfold wire_step. step_cases st e.
  - (* idle *) destruct e; cbn [awaiting_from app flat_map]; try assumption. apply tags_inv_filter; assumption.
  - (* allocation failed *) cbn [awaiting_from app flat_map]. assumption.
  - (* request queued *)
    destruct Hinv as (Hnd & Hkeys & Hjobs & Hlt). revert Hnd Hjobs. simp_model. intros Hnd Hjobs.
    match goal with H : allocate _ _ = inl _ |- _ => apply allocate_sound in H as (Hfree & Hnt & Hlt') end.
    assert (Hfresh : ~ In t (acc ++ map w_tag ((match h_writer st with Some w => [w] | None => [] end) ++ h_pend st))).
    { intros Hin. apply in_app_or in Hin as [Hin|Hin].
      - apply Hkeys in Hin. rewrite Hfree in Hin. destruct Hin; discriminate.
      - apply in_map_iff in Hin as (w & <- & Hw). rewrite (Hjobs w Hw) in Hfree. discriminate. }
    split; [|split; [|split]].
    + rewrite app_assoc, map_app, app_assoc. cbn [map].
      apply NoDup_snoc_N; [exact Hnd | exact Hfresh].
    + intros x Hx. destruct (N.eq_dec t x) as [->|Hne]; [rewrite lookup_insert; eauto|].
      rewrite lookup_insert_ne by assumption. auto.
    + intros w Hw. rewrite app_assoc in Hw. apply in_app_or in Hw as [Hw|[<-|[]]].
      * assert (t <> w_tag w).
        { intros ->. apply Hfresh. apply in_or_app. right. apply in_map. exact Hw. }
        rewrite lookup_insert_ne by assumption. auto.
      * cbn. rewrite lookup_insert. reflexivity.
    + intros x Hx. destruct (N.eq_dec t x) as [<-|Hne]; [assumption|].
      rewrite lookup_insert_ne in Hx by assumption. auto.
  - (* hand-over: the same frames *)
    destruct Hinv as (Hnd & Hkeys & Hjobs & Hlt). revert Hnd Hjobs. simp_model. rewrite H0, H1. cbn [app]. auto.
  - (* frame written *)
    destruct Hinv as (Hnd & Hkeys & Hjobs & Hlt). revert Hnd Hjobs. simp_model. rewrite H. cbn [app map]. intros Hnd Hjobs.
    split; [|split; [|split]].
    + apply NoDup_remove in Hnd as [Hnd Hnin]. constructor; assumption.
    + intros x [<-|Hx]; [rewrite (Hjobs w (or_introl eq_refl)); eauto | auto].
    + intros w' Hw'. apply Hjobs. right. assumption.
    + assumption.
  - (* write failed, tag released *)
    destruct Hinv as (Hnd & Hkeys & Hjobs & Hlt). revert Hnd Hjobs. simp_model. rewrite H0. cbn [app map]. intros Hnd Hjobs.
    pose proof (NoDup_remove _ _ _ Hnd) as [Hnd' Hnin].
    split; [assumption|split; [|split]].
    + intros x Hx. assert (w_tag w <> x) by (intros <-; apply Hnin; apply in_or_app; auto).
      rewrite lookup_delete_ne by assumption. auto.
    + intros w' Hw'. assert (w_tag w <> w_tag w').
      { intros Heq. apply Hnin. apply in_or_app. right. rewrite Heq. apply in_map. assumption. }
      rewrite lookup_delete_ne by assumption. apply Hjobs. right. assumption.
    + intros x Hx. destruct (N.eq_dec (w_tag w) x) as [<-|Hne]; [rewrite lookup_delete in Hx; destruct Hx; discriminate|].
      rewrite lookup_delete_ne in Hx by assumption. auto.
  - (* write failed, tag not ours any more *)
    destruct Hinv as (Hnd & Hkeys & Hjobs & Hlt). revert Hnd Hjobs. simp_model. rewrite H0. cbn [app map]. intros Hnd Hjobs.
    pose proof (NoDup_remove _ _ _ Hnd) as [Hnd' Hnin].
    split; [assumption|split; [assumption|split; [|assumption]]].
    intros w' Hw'. apply Hjobs. right. assumption.
  - (* write failed after the loop returned *)
    destruct Hinv as (Hnd & Hkeys & Hjobs & Hlt). revert Hnd Hjobs. simp_model. rewrite H0. cbn [app map]. intros Hnd Hjobs.
    pose proof (NoDup_remove _ _ _ Hnd) as [Hnd' Hnin].
    split; [assumption|split; [assumption|split; [|assumption]]].
    intros w' Hw'. apply Hjobs. right. assumption.
  - (* reply delivered: by honesty its tag is on the wire, hence not a queued frame's *)
    pose proof (Hhon t r eq_refl) as Hin.
    destruct Hinv as (Hnd & Hkeys & Hjobs & Hlt). revert Hnd Hjobs. simp_model. intros Hnd Hjobs.
    split; [apply NoDup_app_filter_l; assumption|split; [|split]].
    + intros x Hx. apply filter_In in Hx as [Hx Hne]. rewrite lookup_delete_ne by lia. auto.
    + intros w Hw. assert (t <> w_tag w).
      { intros ->. eapply NoDup_app_disjoint; [exact Hnd | exact Hin | apply in_map; exact Hw]. }
      rewrite lookup_delete_ne by assumption. auto.
    + intros x Hx. destruct (N.eq_dec t x) as [<-|Hne]; [rewrite lookup_delete in Hx; destruct Hx; discriminate|].
      rewrite lookup_delete_ne in Hx by assumption. auto.
  - (* flags only *)
    rewrite (flag_event_wire st e H7). cbn [awaiting_from].
    destruct Hinv as (Hnd & Hkeys & Hjobs & Hlt). unfold tags_inv, jobtags, jobs. rewrite H, H1, H2. auto.
Qed.

Lemma tags_inv_run : forall evs st acc,
  tags_inv st acc -> honest_from st acc evs ->
  NoDup (awaiting_from acc (hwire st evs)).
Proof.
  induction evs as [|e evs IH]; intros st acc Hinv Hhon.
  - cbn. destruct Hinv as (Hnd & _). apply NoDup_app_l_N in Hnd. assumption.
  - rewrite hwire_cons, awaiting_from_app. destruct Hhon as [He Hrest].
    apply IH; [|assumption]. apply tags_inv_step; [assumption|].
    intros t r ->. exact He.
Qed.

Lemma tags_inv_init : tags_inv h_init [].
Proof.
  split; [constructor|]. split; [intros t []|]. split; [intros w []|].
  intros t Ht. cbn in Ht. rewrite lookup_empty in Ht. destruct Ht; discriminate.
Qed.

(* C05_distinct, part 1 *)
Theorem awaiting_distinct : forall evs,
  honest_peer evs -> NoDup (awaiting (wire_of evs)).
Proof. intros evs H. exact (tags_inv_run evs h_init [] tags_inv_init H). Qed.

(* NOTAG is never on the wire, whatever the peer does *)
Definition lt_inv (st : hstate) (acc : list tag) : Prop :=
  (forall t, In t acc -> t < 65535) /\ (forall w, In w (jobs st) -> w_tag w < 65535).

Lemma lt_inv_step : forall st e acc,
  lt_inv st acc -> lt_inv (fst (hstep st e)) (awaiting_from acc (wire_step st e)).
Proof.
  intros st e acc [Hacc Hjobs]. unfold wire_step. step_cases st e; unfold lt_inv; simp_st;
    cbn [awaiting_from flat_map app].
  - destruct e; cbn [awaiting_from app]; split; try assumption.
    intros x Hx. apply filter_In in Hx as [Hx _]. auto.
  - split; assumption.
  - match goal with H : allocate _ _ = inl _ |- _ => apply allocate_sound in H as (_ & _ & Hlt') end.
    split; [assumption|]. intros w Hw. revert Hjobs. unfold jobs. intros Hjobs.
    rewrite app_assoc in Hw. apply in_app_or in Hw as [Hw|[<-|[]]]; [auto | assumption].
  - revert Hjobs. unfold jobs. rewrite H0, H1. cbn [app]. auto.
  - revert Hjobs. unfold jobs. rewrite H. cbn [app]. intros Hjobs. split.
    + intros x [<-|Hx]; [apply Hjobs; left; reflexivity | auto].
    + intros w' Hw'. apply Hjobs. right. assumption.
  - revert Hjobs. unfold jobs. rewrite H0. cbn [app]. intros Hjobs. split; [assumption|].
    intros w' Hw'. apply Hjobs. right. assumption.
  - revert Hjobs. unfold jobs. rewrite H0. cbn [app]. intros Hjobs. split; [assumption|].
    intros w' Hw'. apply Hjobs. right. assumption.
  - revert Hjobs. unfold jobs. rewrite H0. cbn [app]. intros Hjobs. split; [assumption|].
    intros w' Hw'. apply Hjobs. right. assumption.
  - split; [|assumption]. intros x Hx. apply filter_In in Hx as [Hx _]. auto.
  - rewrite (flag_event_wire st e H7). cbn [awaiting_from]. split; [assumption|].
    unfold jobs. rewrite H1, H2. assumption.
Qed.

Lemma lt_inv_run : forall evs st acc,
  lt_inv st acc -> forall t, In t (awaiting_from acc (hwire st evs)) -> t < 65535.
Proof.
  induction evs as [|e evs IH]; intros st acc Hinv t Hin.
  - cbn in Hin. destruct Hinv as [Hacc _]. auto.
  - rewrite hwire_cons, awaiting_from_app in Hin.
    eapply IH; [|exact Hin]. apply lt_inv_step. assumption.
Qed.

(* C05_distinct, part 2 *)
Theorem never_notag : forall evs, ~ In NOTAG (awaiting (wire_of evs)).
Proof.
  intros evs Hin.
  assert (Hinit : lt_inv h_init []) by (split; [intros t []|intros w []]).
  pose proof (lt_inv_run evs h_init [] Hinit NOTAG Hin) as Hlt. unfold NOTAG in Hlt. lia.
Qed.
