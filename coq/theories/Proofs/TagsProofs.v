(* Lemmas about the owner loop, the wire view and send (Model/Tags.v).
   List notions here are Coq's (List.In, List.NoDup, List.filter). *)
From stdpp Require Import nmap fin_maps.
From Coq Require Import List NArith Bool Lia ZifyBool ZifyNat ZifyN.
From P9 Require Import Gen.GenReplyTypes Model.Tags Proofs.TagsProofsAlloc.
Import ListNotations.
Open Scope N_scope.

(* ---------------------------------------------------------------- facts read off the source *)

(* These hold by computation on the regenerated tables.  If the source changes
   so that one of them is false, the theorems below that use it stop compiling. *)
Lemma src_unknown_tag_dropped : unknown_tag_panics = false.
Proof. reflexivity. Qed.
Lemma src_send_first_cases : send_first_cases = (true, true, true).
Proof. reflexivity. Qed.
Lemma src_send_second_cases : send_second_cases = (true, true, true, true).
Proof. reflexivity. Qed.
Lemma src_reader_retry_stops : reader_retry_stops_when_done = true.
Proof. reflexivity. Qed.
Lemma src_chan_caps : response_chan_cap = 1 /\ err_chan_cap = 1.
Proof. split; reflexivity. Qed.
Lemma src_reply_types :
  map (fun row => (snd (fst row), snd row)) reply_types =
  [(102, 103); (104, 105); (110, 111); (112, 113); (114, 115); (116, 117);
   (118, 119); (120, 121); (122, 123); (124, 125); (126, 127)].
Proof. reflexivity. Qed.
Lemma src_error_type_not_expected :
  forallb (fun row => negb (snd row =? send_error_type)) reply_types = true.
Proof. reflexivity. Qed.

(* ---------------------------------------------------------------- running event lists *)

Lemma hrun_app : forall a b st,
  hrun st (a ++ b) =
  let '(st1, o1) := hrun st a in let '(st2, o2) := hrun st1 b in (st2, o1 ++ o2).
Proof.
  induction a as [|e a IH]; intros b st; cbn [hrun app].
  - destruct (hrun st b); reflexivity.
  - destruct (hstep st e) as [st1 o1]. rewrite IH.
    destruct (hrun st1 a) as [st2 o2]. destruct (hrun st2 b) as [st3 o3].
    rewrite app_assoc. reflexivity.
Qed.

Lemma run_snoc : forall evs e,
  run (evs ++ [e]) = (fst (hstep (fst (run evs)) e), snd (run evs) ++ snd (hstep (fst (run evs)) e)).
Proof.
  intros evs e. unfold run. rewrite hrun_app. cbn [hrun].
  destruct (hrun h_init evs) as [st tr]. cbn [fst snd]. destruct (hstep st e) as [st' o]. cbn [fst snd].
  rewrite app_nil_r. reflexivity.
Qed.

Lemma trace_snoc : forall evs e,
  trace (evs ++ [e]) = trace evs ++ snd (hstep (fst (run evs)) e).
Proof. intros. unfold trace. rewrite run_snoc. reflexivity. Qed.

Lemma state_snoc : forall evs e, fst (run (evs ++ [e])) = fst (hstep (fst (run evs)) e).
Proof. intros. rewrite run_snoc. reflexivity. Qed.

(* ---------------------------------------------------------------- one step, by cases *)

(* every step is one of these shapes (unknown_tag_panics = false is used here) *)
Inductive step_shape (st : hstate) : hevent -> hstate -> list hout -> Prop :=
| SS_idle e : step_shape st e st []
| SS_req_err c mt wok e :
    h_running st = true -> allocate (h_out st) (h_sel st) = inr e ->
    step_shape st (EReq c mt wok) st [ODeliverErr c e]
| SS_req_ok c mt t :
    h_running st = true -> allocate (h_out st) (h_sel st) = inl t ->
    step_shape st (EReq c mt true) (with_out st (<[t := c]> (h_out st)) t) [OFrame t c mt]
| SS_req_wfail c mt t :
    h_running st = true -> allocate (h_out st) (h_sel st) = inl t ->
    step_shape st (EReq c mt false) (with_out st (delete t (<[t := c]> (h_out st))) t) [ODeliverErr c EWrite]
| SS_resp t r c :
    h_running st = true -> h_out st !! t = Some c ->
    step_shape st (EResp t r) (with_out st (delete t (h_out st)) (h_sel st)) [ODeliver c r]
| SS_flags e st' :
    h_out st' = h_out st -> h_sel st' = h_sel st -> h_panicked st' = h_panicked st ->
    (h_closed st = true -> h_closed st' = true) ->
    (h_shut st = true -> h_shut st' = true) -> (h_ctx st = true -> h_ctx st' = true) ->
    (forall t r, e <> EResp t r) -> (forall c mt w, e <> EReq c mt w) ->
    step_shape st e st' (match e with EExit => if exit_enabled st then [OClosed] else [] | _ => [] end).

Lemma hstep_shape : forall st e, step_shape st e (fst (hstep st e)) (snd (hstep st e)).
Proof.
  intros st e. destruct e as [c mt wok|t r| | | | |c]; cbn [hstep].
  - destruct (h_running st) eqn:Hr; [|apply SS_idle].
    destruct (allocate (h_out st) (h_sel st)) as [t|er] eqn:Hal; cbn [fst snd].
    + destruct wok; cbn [fst snd]; [apply SS_req_ok | apply SS_req_wfail]; assumption.
    + apply SS_req_err; assumption.
  - destruct (h_running st) eqn:Hr; [|apply SS_idle].
    destruct (h_out st !! t) as [c|] eqn:Hl; cbn [fst snd].
    + apply SS_resp; assumption.
    + rewrite src_unknown_tag_dropped. apply SS_idle.
  - cbn [fst snd]. apply (SS_flags st EReadFatal); cbn; auto; discriminate.
  - destruct (reader_retry_stops_when_done && (h_ctx st || h_closed st)); cbn [fst snd];
      apply (SS_flags st EReadRetry); cbn; auto; discriminate.
  - cbn [fst snd]. apply (SS_flags st ECtxDone); cbn; auto; discriminate.
  - fold (exit_enabled st). destruct (exit_enabled st) eqn:He; cbn [fst snd].
    + pose proof (SS_flags st EExit
        {| h_out := h_out st; h_sel := h_sel st; h_shut := h_shut st; h_ctx := h_ctx st;
           h_closed := true; h_panicked := h_panicked st |}) as H.
      rewrite He in H. apply H; cbn; auto; discriminate.
    + pose proof (SS_flags st EExit st) as H. rewrite He in H. apply H; auto; discriminate.
  - cbn [fst snd]. apply (SS_flags st (ECancel c)); auto; discriminate.
Qed.

(* ---------------------------------------------------------------- C12: no panic *)

Ltac step_cases st e :=
  let Hs := fresh "Hs" in
  pose proof (hstep_shape st e) as Hs;
  let st' := fresh "st'" in let o := fresh "o" in
  remember (fst (hstep st e)) as st' eqn:Hst'; remember (snd (hstep st e)) as o eqn:Ho;
  destruct Hs.


Lemma hstep_no_panic : forall st e,
  h_panicked st = false ->
  h_panicked (fst (hstep st e)) = false /\ ~ In OPanic (snd (hstep st e)).
Proof.
  intros st e Hp. step_cases st e.
  - split; [assumption | intros []].
  - split; [assumption | intros [H'|[]]; discriminate].
  - split; [assumption | intros [H'|[]]; discriminate].
  - split; [assumption | intros [H'|[]]; discriminate].
  - split; [assumption | intros [H'|[]]; discriminate].
  - split; [congruence|].
    destruct e; try (intros []). destruct (exit_enabled st); [intros [H'|[]]; discriminate | intros []].
Qed.

Lemma run_no_panic : forall evs,
  h_panicked (fst (run evs)) = false /\ ~ In OPanic (trace evs).
Proof.
  induction evs as [|e evs IH] using rev_ind.
  - split; [reflexivity | intros []].
  - destruct IH as [Hp Hn]. rewrite state_snoc, trace_snoc.
    destruct (hstep_no_panic (fst (run evs)) e Hp) as [Hp' Hn'].
    split; [assumption|]. intros Hin. apply in_app_or in Hin as [H|H]; tauto.
Qed.

(* ---------------------------------------------------------------- C05: distinct tags on the wire *)

Definition wire_step (st : hstate) (e : hevent) : list wire :=
  (match e with EResp t rp => [WReply t rp] | _ => [] end)
  ++ flat_map (fun o => match o with OFrame t c _ => [WFrame t c] | _ => [] end) (snd (hstep st e)).

Lemma hwire_cons : forall st e r,
  hwire st (e :: r) = wire_step st e ++ hwire (fst (hstep st e)) r.
Proof.
  intros. cbn [hwire]. unfold wire_step. destruct (hstep st e) as [st1 o1]. cbn [fst snd].
  rewrite app_assoc. reflexivity.
Qed.

Lemma awaiting_from_app : forall a b acc,
  awaiting_from acc (a ++ b) = awaiting_from (awaiting_from acc a) b.
Proof.
  induction a as [|w a IH]; intros b acc; [reflexivity|].
  destruct w; cbn [app awaiting_from]; apply IH.
Qed.

(* the tags awaiting a reply are keys of [outstanding], distinct, and valid tags *)
Definition tags_inv (st : hstate) (acc : list tag) : Prop :=
  NoDup acc /\ (forall t, In t acc -> is_Some (h_out st !! t)) /\
  (forall t, is_Some (h_out st !! t) -> t < 65535).

Lemma NoDup_filter_coq : forall (f : N -> bool) l, NoDup l -> NoDup (filter f l).
Proof.
  intros f l H. induction H as [|x l Hx Hl IH]; cbn [filter]; [constructor|].
  destruct (f x); [|assumption]. constructor; [|assumption].
  intros Hin. apply filter_In in Hin as [Hin _]. contradiction.
Qed.

Lemma tags_inv_filter : forall st acc f, tags_inv st acc -> tags_inv st (filter f acc).
Proof.
  intros st acc f (Hnd & Hkeys & Hlt). split; [apply NoDup_filter_coq; assumption|]. split; [|assumption].
  intros x Hx. apply filter_In in Hx as [Hx _]. auto.
Qed.

Ltac simp_model := unfold tags_inv; cbn [awaiting_from app flat_map h_out with_out h_sel h_shut h_ctx h_closed h_panicked fst snd].

Lemma tags_inv_step : forall st e acc,
  tags_inv st acc -> tags_inv (fst (hstep st e)) (awaiting_from acc (wire_step st e)).
Proof.
  intros st e acc Hinv. unfold wire_step. step_cases st e.
  - (* idle *) destruct e; simp_model; try assumption. apply tags_inv_filter; assumption.
  - (* allocation failed *) simp_model. assumption.
  - (* frame written *)
    simp_model. destruct Hinv as (Hnd & Hkeys & Hlt).
    match goal with H : allocate _ _ = inl _ |- _ => apply allocate_sound in H as (Hfree & Hnt & Hlt') end.
    split; [|split].
    + constructor; [|assumption]. intros Hin. apply Hkeys in Hin. rewrite Hfree in Hin. destruct Hin; discriminate.
    + intros x [<-|Hx]; [rewrite lookup_insert; eauto|].
      destruct (N.eq_dec t x) as [->|Hne]; [rewrite lookup_insert; eauto|].
      rewrite lookup_insert_ne by assumption. auto.
    + intros x Hx. destruct (N.eq_dec t x) as [<-|Hne]; [assumption|].
      rewrite lookup_insert_ne in Hx by assumption. auto.
  - (* write failed *)
    simp_model. destruct Hinv as (Hnd & Hkeys & Hlt).
    match goal with H : allocate _ _ = inl _ |- _ => apply allocate_sound in H as (Hfree & Hnt & Hlt') end.
    split; [assumption|split].
    + intros x Hx. pose proof (Hkeys x Hx) as Hs.
      assert (t <> x) by (intros ->; rewrite Hfree in Hs; destruct Hs; discriminate).
      rewrite lookup_delete_ne, lookup_insert_ne by assumption. assumption.
    + intros x Hx. destruct (N.eq_dec t x) as [<-|Hne]; [assumption|].
      rewrite lookup_delete_ne, lookup_insert_ne in Hx by assumption. auto.
  - (* reply delivered *)
    simp_model. destruct Hinv as (Hnd & Hkeys & Hlt).
    split; [apply NoDup_filter_coq; assumption|split].
    + intros x Hx. apply filter_In in Hx as [Hx Hne].
      rewrite lookup_delete_ne by lia. auto.
    + intros x Hx. destruct (N.eq_dec t x) as [<-|Hne]; [rewrite lookup_delete in Hx; destruct Hx; discriminate|].
      rewrite lookup_delete_ne in Hx by assumption. auto.
  - (* flags only *)
    assert (Hnf : flat_map (fun o => match o with OFrame t c _ => [WFrame t c] | _ => [] end)
                   (match e with EExit => if exit_enabled st then [OClosed] else [] | _ => [] end) = []).
    { destruct e; try reflexivity. destruct (exit_enabled st); reflexivity. }
    rewrite Hnf.
    assert (Hnr : match e with EResp t rp => [WReply t rp] | _ => [] end = []).
    { destruct e; try reflexivity. exfalso. eapply H5; reflexivity. }
    rewrite Hnr. simp_model.
    destruct Hinv as (Hnd & Hkeys & Hlt). unfold tags_inv. rewrite H. auto.
Qed.

Lemma tags_inv_run : forall evs st acc,
  tags_inv st acc ->
  let acc' := awaiting_from acc (hwire st evs) in NoDup acc' /\ ~ In NOTAG acc'.
Proof.
  induction evs as [|e evs IH]; intros st acc Hinv.
  - cbn. destruct Hinv as (Hnd & Hkeys & Hlt). split; [assumption|].
    intros Hin. apply Hkeys, Hlt in Hin. unfold NOTAG in Hin. lia.
  - rewrite hwire_cons. cbv zeta. rewrite awaiting_from_app.
    apply IH. apply tags_inv_step. assumption.
Qed.

Lemma tags_inv_init : tags_inv h_init [].
Proof.
  split; [constructor|]. split; [intros t []|].
  intros t Ht. cbn in Ht. rewrite lookup_empty in Ht. destruct Ht; discriminate.
Qed.

Theorem awaiting_distinct : forall evs,
  NoDup (awaiting (wire_of evs)) /\ ~ In NOTAG (awaiting (wire_of evs)).
Proof. intros evs. exact (tags_inv_run evs h_init [] tags_inv_init). Qed.
