(* Lemmas about Model/Serve.v, part 2: invariants relating the state to the
   trace of outputs (who was received, dispatched, finished, cancelled). *)
From Coq Require Import List NArith Bool Lia.
From stdpp Require Import gmap.
From P9 Require Import Model.Serve Proofs.ServeProofs.
Import ListNotations.
Open Scope N_scope.

Definition recv_ids (tr : list output) : list N :=
  flat_map (fun o => match o with ORecv r _ _ => [r] | _ => [] end) tr.
Definition disp_ids (tr : list output) : list N :=
  flat_map (fun o => match o with ODispatch r _ => [r] | _ => [] end) tr.
Definition fin_ids (tr : list output) : list N :=
  flat_map (fun o => match o with OFin r _ => [r] | _ => [] end) tr.
Definition stop_count (tr : list output) : nat :=
  length (List.filter (fun o => match o with OStop => true | _ => false end) tr).

(* outputs that say nothing about requests, handlers, return or stop *)
Definition inert (o : output) : Prop :=
  match o with OTake _ | OFrame _ | OLost _ | OWriteErr _ | OCancel _ => True | _ => False end.

Record Hist (s : st) (tr : list output) : Prop := {
  hi_recv_lo : forall rid t k, In (ORecv rid t k) tr -> rid < lo s;
  hi_recv_nodup : NoDup (recv_ids tr);
  hi_disp : forall rid m, In (ODispatch rid m) tr -> exists h, hs s !! rid = Some h /\ In (ORecv rid (h_tag h) (KReq m)) tr;
  hi_disp_inv : forall rid h, hs s !! rid = Some h -> exists m, In (ODispatch rid m) tr;
  hi_disp_nodup : NoDup (disp_ids tr);
  hi_fin : forall rid r, In (OFin rid r) tr -> exists h, hs s !! rid = Some h /\ (h_st h = HFin r \/ h_st h = HGone);
  hi_fin_inv : forall rid h r, hs s !! rid = Some h -> h_st h = HFin r -> In (OFin rid r) tr;
  hi_fin_nodup : NoDup (fin_ids tr);
  hi_canc : forall rid h, hs s !! rid = Some h -> h_canc h = true -> In (OCancel rid) tr;
  hi_ret : pc s = PReturned <-> In OReturn tr;
  hi_stops : N.of_nat (stop_count tr) = stops s
}.

Lemma Hist_init : Hist init [].
Proof.
  constructor; cbn.
  - intros ? ? ? [].
  - constructor.
  - intros ? ? [].
  - intros ? ?. rewrite lookup_empty. discriminate.
  - constructor.
  - intros ? ? [].
  - intros ? ? ?. rewrite lookup_empty. discriminate.
  - constructor.
  - intros ? ?. rewrite lookup_empty. discriminate.
  - split; [discriminate|intros []].
  - reflexivity.
Qed.

Lemma flat_map_inert {A} (f : output -> list A) o :
  Forall inert o -> (forall x, inert x -> f x = []) -> flat_map f o = [].
Proof.
  induction 1 as [|x l Hx _ IH]; intros Hf; [reflexivity|]. cbn. rewrite (Hf x Hx). cbn. apply IH, Hf.
Qed.

Lemma inert_not_in o x : Forall inert o -> ~ inert x -> ~ In x o.
Proof. intros F Hn Hin. rewrite List.Forall_forall in F. exact (Hn (F x Hin)). Qed.

(* appending inert outputs changes nothing *)
Lemma Hist_inert s tr o : Hist s tr -> Forall inert o -> Hist s (tr ++ o).
Proof.
  intros [A B C D E F G H I J K] Fo.
  assert (Nin : forall x, ~ inert x -> In x (tr ++ o) -> In x tr).
  { intros x Hn Hin. apply in_app_or in Hin as [Hin|Hin]; [exact Hin|]. exfalso. exact (inert_not_in _ _ Fo Hn Hin). }
  constructor.
  - intros rid t k Hin. eapply A, Nin; [|exact Hin]. cbn. tauto.
  - unfold recv_ids. rewrite flat_map_app, (flat_map_inert _ o Fo), app_nil_r; [exact B|]. intros []; cbn; tauto.
  - intros rid m Hin. destruct (C rid m) as (h & Hh & Hr); [eapply Nin; [|exact Hin]; cbn; tauto|].
    exists h. split; [exact Hh|]. apply in_or_app. now left.
  - intros rid h Hh. destruct (D rid h Hh) as (m & Hm). exists m. apply in_or_app. now left.
  - unfold disp_ids. rewrite flat_map_app, (flat_map_inert _ o Fo), app_nil_r; [exact E|]. intros []; cbn; tauto.
  - intros rid r Hin. eapply F, Nin; [|exact Hin]. cbn. tauto.
  - intros rid h r Hh Hs. apply in_or_app. left. eauto.
  - unfold fin_ids. rewrite flat_map_app, (flat_map_inert _ o Fo), app_nil_r; [exact H|]. intros []; cbn; tauto.
  - intros rid h Hh Hc. apply in_or_app. left. eauto.
  - rewrite J. split; [intros Hin; apply in_or_app; now left|]. intros Hin. eapply Nin; [|exact Hin]. cbn. tauto.
  - rewrite <- K. f_equal. unfold stop_count. rewrite List.filter_app, app_length.
    assert (E0 : List.filter (fun o => match o with OStop => true | _ => false end) o = []).
    { clear -Fo. induction Fo as [|x l Hx _ IH]; [reflexivity|]. cbn. destruct x; cbn in *; try contradiction; exact IH. }
    rewrite E0. cbn. lia.
Qed.

(* changes of the state that the history does not look at *)
Lemma Hist_mono s s' tr : Hist s tr -> hs s' = hs s -> (pc s' = PReturned <-> pc s = PReturned) ->
  stops s' = stops s -> lo s <= lo s' -> Hist s' tr.
Proof.
  intros [A B C D E F G H I J K] Hh Hp Hs Hl. constructor; rewrite ?Hh, ?Hs; try assumption.
  - intros rid t k Hin. specialize (A rid t k Hin). lia.
  - rewrite Hp. exact J.
Qed.

(* a handler moves on (same tag, same cancellation flag, HFin r -> HGone or unchanged) *)
Lemma Hist_gone s tr rid h : Hist s tr -> hs s !! rid = Some h -> h_st h <> HRun ->
  Hist (set_hs s (<[rid := {| h_tag := h_tag h; h_st := HGone; h_canc := h_canc h |}]> (hs s))) tr.
Proof.
  intros [A B C D E F G H I J K] Hr Hst. constructor; unfold lo, pending_ids in *; proj_simpl; try assumption.
  - intros x m Hin. destruct (C x m Hin) as (h0 & Hh0 & Hrv). destruct (N.eq_dec x rid) as [->|Hne].
    + rewrite Hr in Hh0. injection Hh0 as <-. eexists. rewrite lookup_insert. split; [reflexivity|exact Hrv].
    + exists h0. rewrite lookup_insert_ne by congruence. auto.
  - intros x h0 Hx. apply lookup_insert_Some in Hx as [[<- _]|[_ Hx]]; eauto.
  - intros x r Hin. destruct (F x r Hin) as (h0 & Hh0 & Hs). destruct (N.eq_dec x rid) as [->|Hne].
    + eexists. rewrite lookup_insert. split; [reflexivity|]. now right.
    + exists h0. rewrite lookup_insert_ne by congruence. auto.
  - intros x h0 r Hx Hs. apply lookup_insert_Some in Hx as [[<- <-]|[_ Hx]]; [discriminate|eauto].
  - intros x h0 Hx Hc. apply lookup_insert_Some in Hx as [[<- <-]|[_ Hx]]; eauto.
Qed.

Lemma Hist_set_pc s tr p : Hist s tr -> pc s <> PReturned -> p <> PReturned -> Hist (set_pc s p) tr.
Proof.
  intros Hi H1 H2. eapply Hist_mono; [exact Hi|reflexivity| |reflexivity|].
  - proj_simpl. split; intros; congruence.
  - assert (E : lo (set_pc s p) = lo s) by (unfold lo, pending_ids; proj_simpl; reflexivity). lia.
Qed.

(* cancelling handlers logs exactly the new cancellations *)
Lemma cancel_list_inert s rids s' oc : cancel_list s rids = (s', oc) -> Forall inert oc.
Proof.
  intros H. apply List.Forall_forall. intros x Hin.
  destruct (proj1 (cancel_list_out _ _ _ _ H) x Hin) as (r & -> & _). exact I.
Qed.
Lemma cancel_rid_inert s r s' oc : cancel_rid s r = (s', oc) -> Forall inert oc.
Proof.
  intros H. apply List.Forall_forall. intros x Hin.
  destruct (proj1 (cancel_rid_out _ _ _ _ H) x Hin) as (-> & _). exact I.
Qed.

Lemma Hist_cancel s tr rids m' oc : Hist s tr -> canc_rel rids (hs s) m' -> Forall inert oc ->
  (forall r h, In r rids -> hs s !! r = Some h -> h_canc h = false -> In (OCancel r) oc) ->
  Hist (set_hs s m') (tr ++ oc).
Proof.
  intros Hi Rl Fo Out. pose proof (Hist_inert _ _ _ Hi Fo) as [A B C D E F G H I J K].
  constructor; unfold lo, pending_ids in *; proj_simpl; try assumption.
  - intros x m Hin. destruct (C x m Hin) as (h0 & Hh0 & Hrv).
    destruct (canc_rel_fwd _ _ _ _ _ Rl Hh0) as (h' & Hh' & T & _). exists h'. rewrite T. auto.
  - intros x h' Hx. destruct (canc_rel_bwd _ _ _ _ _ Rl Hx) as (h0 & Hh0 & _). eauto.
  - intros x r Hin. destruct (F x r Hin) as (h0 & Hh0 & Hs).
    destruct (canc_rel_fwd _ _ _ _ _ Rl Hh0) as (h' & Hh' & _ & S & _). exists h'. rewrite S. auto.
  - intros x h' r Hx Hs. destruct (canc_rel_bwd _ _ _ _ _ Rl Hx) as (h0 & Hh0 & _ & S & _). eapply G; eauto. congruence.
  - intros x h' Hx Hc. destruct (canc_rel_bwd _ _ _ _ _ Rl Hx) as (h0 & Hh0 & _ & _ & Cc).
    destruct (h_canc h0) eqn:Hc0; [eapply I; eauto|].
    rewrite Hc in Cc. cbn in Cc. symmetry in Cc. apply existsb_exists in Cc as (y & Hy & Hxy).
    apply N.eqb_eq in Hxy. subst y. apply in_or_app. right. eauto.
Qed.
