(* Lemmas about Model/Serve.v, part 2: invariants relating the state to the
   trace of outputs (who was received, dispatched, finished, cancelled). *)
From Coq Require Import List NArith Bool Lia.
From stdpp Require Import gmap.
From P9 Require Import Model.Serve Proofs.ServeProofs.
Import ListNotations.
Open Scope N_scope.

Definition recv_ids (tr : list output) : list N :=
  flat_map (fun o => match o with ORecv r _ _ => [r] | _ => [] end) tr.
Definition disp_ids (tr : list output) : list N :=
  flat_map (fun o => match o with ODispatch r _ => [r] | _ => [] end) tr.
Definition fin_ids (tr : list output) : list N :=
  flat_map (fun o => match o with OFin r _ => [r] | _ => [] end) tr.
Definition stop_count (tr : list output) : nat :=
  length (List.filter (fun o => match o with OStop => true | _ => false end) tr).

(* outputs that say nothing about requests, handlers, return or stop *)
Definition inert (o : output) : Prop :=
  match o with OTake _ | OFrame _ | OLost _ | OWriteErr _ | OCancel _ => True | _ => False end.

Record Hist (s : st) (tr : list output) : Prop := {
  hi_recv_lo : forall rid t k, In (ORecv rid t k) tr -> rid < lo s;
  hi_recv_nodup : NoDup (recv_ids tr);
  hi_disp : forall rid m, In (ODispatch rid m) tr -> exists h, hs s !! rid = Some h /\ In (ORecv rid (h_tag h) (KReq m)) tr;
  hi_disp_inv : forall rid h, hs s !! rid = Some h -> exists m, In (ODispatch rid m) tr;
  hi_disp_nodup : NoDup (disp_ids tr);
  hi_fin : forall rid r, In (OFin rid r) tr -> exists h, hs s !! rid = Some h /\ (h_st h = HFin r \/ h_st h = HGone);
  hi_fin_inv : forall rid h r, hs s !! rid = Some h -> h_st h = HFin r -> In (OFin rid r) tr;
  hi_fin_nodup : NoDup (fin_ids tr);
  hi_canc : forall rid h, hs s !! rid = Some h -> h_canc h = true -> In (OCancel rid) tr;
  hi_ret : pc s = PReturned <-> In OReturn tr;
  hi_stops : N.of_nat (stop_count tr) = stops s
}.

Lemma Hist_init : Hist init [].
Proof.
  constructor; cbn.
  - intros ? ? ? [].
  - constructor.
  - intros ? ? [].
  - intros ? ?. rewrite lookup_empty. discriminate.
  - constructor.
  - intros ? ? [].
  - intros ? ? ?. rewrite lookup_empty. discriminate.
  - constructor.
  - intros ? ?. rewrite lookup_empty. discriminate.
  - split; [discriminate|intros []].
  - reflexivity.
Qed.

Lemma flat_map_inert {A} (f : output -> list A) o :
  Forall inert o -> (forall x, inert x -> f x = []) -> flat_map f o = [].
Proof.
  induction 1 as [|x l Hx _ IH]; intros Hf; [reflexivity|]. cbn. rewrite (Hf x Hx). cbn. apply IH, Hf.
Qed.

Lemma inert_not_in o x : Forall inert o -> ~ inert x -> ~ In x o.
Proof. intros F Hn Hin. rewrite List.Forall_forall in F. exact (Hn (F x Hin)). Qed.

(* appending inert outputs changes nothing *)
Lemma Hist_inert s tr o : Hist s tr -> Forall inert o -> Hist s (tr ++ o).
Proof.
  intros [A B C D E F G H I J K] Fo.
  assert (Nin : forall x, ~ inert x -> In x (tr ++ o) -> In x tr).
  { intros x Hn Hin. apply in_app_or in Hin as [Hin|Hin]; [exact Hin|]. exfalso. exact (inert_not_in _ _ Fo Hn Hin). }
  constructor.
  - intros rid t k Hin. eapply A, Nin; [|exact Hin]. cbn. tauto.
  - unfold recv_ids. rewrite flat_map_app, (flat_map_inert _ o Fo), app_nil_r; [exact B|]. intros []; cbn; tauto.
  - intros rid m Hin. destruct (C rid m) as (h & Hh & Hr); [eapply Nin; [|exact Hin]; cbn; tauto|].
    exists h. split; [exact Hh|]. apply in_or_app. now left.
  - intros rid h Hh. destruct (D rid h Hh) as (m & Hm). exists m. apply in_or_app. now left.
  - unfold disp_ids. rewrite flat_map_app, (flat_map_inert _ o Fo), app_nil_r; [exact E|]. intros []; cbn; tauto.
  - intros rid r Hin. eapply F, Nin; [|exact Hin]. cbn. tauto.
  - intros rid h r Hh Hs. apply in_or_app. left. eauto.
  - unfold fin_ids. rewrite flat_map_app, (flat_map_inert _ o Fo), app_nil_r; [exact H|]. intros []; cbn; tauto.
  - intros rid h Hh Hc. apply in_or_app. left. eauto.
  - rewrite J. split; [intros Hin; apply in_or_app; now left|]. intros Hin. eapply Nin; [|exact Hin]. cbn. tauto.
  - rewrite <- K. f_equal. unfold stop_count. rewrite List.filter_app, app_length.
    assert (E0 : List.filter (fun o => match o with OStop => true | _ => false end) o = []).
    { clear -Fo. induction Fo as [|x l Hx _ IH]; [reflexivity|]. cbn. destruct x; cbn in *; try contradiction; exact IH. }
    rewrite E0. cbn. lia.
Qed.

(* changes of the state that the history does not look at *)
Lemma Hist_mono s s' tr : Hist s tr -> hs s' = hs s -> (pc s' = PReturned <-> pc s = PReturned) ->
  stops s' = stops s -> lo s <= lo s' -> Hist s' tr.
Proof.
  intros [A B C D E F G H I J K] Hh Hp Hs Hl. constructor; rewrite ?Hh, ?Hs; try assumption.
  - intros rid t k Hin. specialize (A rid t k Hin). lia.
  - rewrite Hp. exact J.
Qed.

(* a handler moves on (same tag, same cancellation flag, HFin r -> HGone or unchanged) *)
Lemma Hist_gone s tr rid h : Hist s tr -> hs s !! rid = Some h -> h_st h <> HRun ->
  Hist (set_hs s (<[rid := {| h_tag := h_tag h; h_st := HGone; h_canc := h_canc h |}]> (hs s))) tr.
Proof.
  intros [A B C D E F G H I J K] Hr Hst. constructor; unfold lo, pending_ids in *; proj_simpl; try assumption.
  - intros x m Hin. destruct (C x m Hin) as (h0 & Hh0 & Hrv). destruct (N.eq_dec x rid) as [->|Hne].
    + rewrite Hr in Hh0. injection Hh0 as <-. eexists. rewrite lookup_insert. split; [reflexivity|exact Hrv].
    + exists h0. rewrite lookup_insert_ne by congruence. auto.
  - intros x h0 Hx. apply lookup_insert_Some in Hx as [[<- _]|[_ Hx]]; eauto.
  - intros x r Hin. destruct (F x r Hin) as (h0 & Hh0 & Hs). destruct (N.eq_dec x rid) as [->|Hne].
    + eexists. rewrite lookup_insert. split; [reflexivity|]. now right.
    + exists h0. rewrite lookup_insert_ne by congruence. auto.
  - intros x h0 r Hx Hs. apply lookup_insert_Some in Hx as [[<- <-]|[_ Hx]]; [discriminate|eauto].
  - intros x h0 Hx Hc. apply lookup_insert_Some in Hx as [[<- <-]|[_ Hx]]; eauto.
Qed.

Lemma Hist_set_pc s tr p : Hist s tr -> pc s <> PReturned -> p <> PReturned -> Hist (set_pc s p) tr.
Proof.
  intros Hi H1 H2. eapply Hist_mono; [exact Hi|reflexivity| |reflexivity|].
  - proj_simpl. split; intros; congruence.
  - assert (E : lo (set_pc s p) = lo s) by (unfold lo, pending_ids; proj_simpl; reflexivity). lia.
Qed.

(* cancelling handlers logs exactly the new cancellations *)
Lemma cancel_list_inert s rids s' oc : cancel_list s rids = (s', oc) -> Forall inert oc.
Proof.
  intros H. apply List.Forall_forall. intros x Hin.
  destruct (proj1 (cancel_list_out _ _ _ _ H) x Hin) as (r & -> & _). exact I.
Qed.
Lemma cancel_rid_inert s r s' oc : cancel_rid s r = (s', oc) -> Forall inert oc.
Proof.
  intros H. apply List.Forall_forall. intros x Hin.
  destruct (proj1 (cancel_rid_out _ _ _ _ H) x Hin) as (-> & _). exact I.
Qed.

Lemma Hist_cancel s tr rids m' oc : Hist s tr -> canc_rel rids (hs s) m' -> Forall inert oc ->
  (forall r h, In r rids -> hs s !! r = Some h -> h_canc h = false -> In (OCancel r) oc) ->
  Hist (set_hs s m') (tr ++ oc).
Proof.
  intros Hi Rl Fo Out. pose proof (Hist_inert _ _ _ Hi Fo) as [A B C D E F G H I J K].
  constructor; unfold lo, pending_ids in *; proj_simpl; try assumption.
  - intros x m Hin. destruct (C x m Hin) as (h0 & Hh0 & Hrv).
    destruct (canc_rel_fwd _ _ _ _ _ Rl Hh0) as (h' & Hh' & T & _). exists h'. rewrite T. auto.
  - intros x h' Hx. destruct (canc_rel_bwd _ _ _ _ _ Rl Hx) as (h0 & Hh0 & _). eauto.
  - intros x r Hin. destruct (F x r Hin) as (h0 & Hh0 & Hs).
    destruct (canc_rel_fwd _ _ _ _ _ Rl Hh0) as (h' & Hh' & _ & S & _). exists h'. rewrite S. auto.
  - intros x h' r Hx Hs. destruct (canc_rel_bwd _ _ _ _ _ Rl Hx) as (h0 & Hh0 & _ & S & _). eapply G; eauto. congruence.
  - intros x h' Hx Hc. destruct (canc_rel_bwd _ _ _ _ _ Rl Hx) as (h0 & Hh0 & _ & _ & Cc).
    destruct (h_canc h0) eqn:Hc0; [eapply I; eauto|].
    rewrite Hc in Cc. cbn in Cc. symmetry in Cc. apply existsb_exists in Cc as (y & Hy & Hxy).
    apply N.eqb_eq in Hxy. subst y. apply in_or_app. right. eauto.
Qed.

Lemma in_recv_ids r tr : In r (recv_ids tr) -> exists t k, In (ORecv r t k) tr.
Proof.
  unfold recv_ids. intros H. apply in_flat_map in H as (o & Ho & Hr).
  destruct o; cbn in Hr; try contradiction. destruct Hr as [<-|[]]. eauto.
Qed.
Lemma in_disp_ids r tr : In r (disp_ids tr) -> exists m, In (ODispatch r m) tr.
Proof.
  unfold disp_ids. intros H. apply in_flat_map in H as (o & Ho & Hr).
  destruct o; cbn in Hr; try contradiction. destruct Hr as [<-|[]]. eauto.
Qed.
Lemma in_fin_ids r tr : In r (fin_ids tr) -> exists x, In (OFin r x) tr.
Proof.
  unfold fin_ids. intros H. apply in_flat_map in H as (o & Ho & Hr).
  destruct o; cbn in Hr; try contradiction. destruct Hr as [<-|[]]. eauto.
Qed.

Lemma NoDup_snoc {A} (l : list A) x : NoDup l -> ~ In x l -> NoDup (l ++ [x]).
Proof.
  intros H Hn. apply NoDup_app; repeat split; [exact H| |repeat constructor; intros []%elem_of_nil].
  intros y Hy Hy2. apply elem_of_list_singleton in Hy2. subst. apply Hn, elem_of_list_In, Hy.
Qed.

Lemma in_snoc {A} (x y : A) l : In x (l ++ [y]) -> In x l \/ x = y.
Proof. intros H. apply in_app_or in H as [H|[H|[]]]; auto. Qed.

Lemma stop_count_snoc tr x : stop_count (tr ++ [x]) = (stop_count tr + match x with OStop => 1 | _ => 0 end)%nat.
Proof. unfold stop_count. rewrite List.filter_app, app_length. destruct x; reflexivity. Qed.

Lemma Hist_recv s tr rid tag k : Hist s tr -> IdsInv s -> rd s = RHold rid tag k ->
  Hist (set_rd s RIdle) (tr ++ [ORecv rid tag k]).
Proof.
  intros [A B C D E F G H I J K] Ii Hr. destruct (hold_lo _ _ _ _ Ii Hr) as [-> Hl].
  assert (El : lo (set_rd s RIdle) = lo s + 1) by (apply Hl; auto).
  constructor; rewrite ?El; proj_simpl.
  - intros x t k0 Hin. apply in_snoc in Hin as [Hin|Hin]; [specialize (A _ _ _ Hin); lia|]. injection Hin as -> _ _. lia.
  - unfold recv_ids. rewrite flat_map_app. cbn. apply NoDup_snoc; [exact B|].
    intros Hin. apply in_recv_ids in Hin as (t & k0 & Hin). specialize (A _ _ _ Hin). lia.
  - intros x m Hin. apply in_snoc in Hin as [Hin|Hin]; [|discriminate].
    destruct (C x m Hin) as (h & Hh & Hrv). exists h. split; [exact Hh|]. apply in_or_app. now left.
  - intros x h Hh. destruct (D x h Hh) as (m & Hm). exists m. apply in_or_app. now left.
  - unfold disp_ids. rewrite flat_map_app. cbn. rewrite app_nil_r. exact E.
  - intros x r Hin. apply in_snoc in Hin as [Hin|Hin]; [eauto|discriminate].
  - intros x h r Hh Hs. apply in_or_app. left. eauto.
  - unfold fin_ids. rewrite flat_map_app. cbn. rewrite app_nil_r. exact H.
  - intros x h Hh Hc. apply in_or_app. left. eauto.
  - rewrite J. split; [intros Hin; apply in_or_app; now left|]. intros Hin. apply in_snoc in Hin as [Hin|Hin]; [exact Hin|discriminate].
  - rewrite stop_count_snoc. rewrite <- K. lia.
Qed.

Lemma Hist_dispatch s tr rid tag m c : Hist s tr -> hs s !! rid = None -> In (ORecv rid tag (KReq m)) tr ->
  Hist (set_hs s (<[rid := {| h_tag := tag; h_st := HRun; h_canc := c |}]> (hs s)))
       (tr ++ ODispatch rid m :: (if c then [OCancel rid] else [])).
Proof.
  intros [A B C D E F G H I J K] Hn Hrv.
  assert (Hs : forall x, In x (tr ++ ODispatch rid m :: (if c then [OCancel rid] else [])) ->
               In x tr \/ x = ODispatch rid m \/ (c = true /\ x = OCancel rid)).
  { intros x Hin. apply in_app_or in Hin as [Hin|[Hin|Hin]]; auto. destruct c; [|destruct Hin].
    destruct Hin as [<-|[]]. auto. }
  constructor; unfold lo, pending_ids in *; proj_simpl.
  - intros x t k Hin. apply Hs in Hin as [Hin|[Hin|[_ Hin]]]; [eauto|discriminate|discriminate].
  - unfold recv_ids. rewrite flat_map_app. cbn. destruct c; cbn; rewrite app_nil_r; exact B.
  - intros x m0 Hin. apply Hs in Hin as [Hin|[Hin|[_ Hin]]]; [| |discriminate].
    + destruct (C x m0 Hin) as (h & Hh & Hr). exists h. split; [|apply in_or_app; now left].
      rewrite lookup_insert_ne; [exact Hh|congruence].
    + injection Hin as -> ->. eexists. rewrite lookup_insert. split; [reflexivity|]. cbn. apply in_or_app. now left.
  - intros x h Hx. apply lookup_insert_Some in Hx as [[<- _]|[_ Hx]].
    + exists m. apply in_or_app. right. now left.
    + destruct (D x h Hx) as (m0 & Hm). exists m0. apply in_or_app. now left.
  - unfold disp_ids. rewrite flat_map_app. cbn.
    assert (E2 : flat_map (fun o => match o with ODispatch r _ => [r] | _ => [] end) (if c then [OCancel rid] else []) = [])
      by (destruct c; reflexivity).
    rewrite E2. apply NoDup_snoc; [exact E|]. intros Hin. apply in_disp_ids in Hin as (m0 & Hin).
    destruct (C rid m0 Hin) as (h & Hh & _). congruence.
  - intros x r Hin. apply Hs in Hin as [Hin|[Hin|[_ Hin]]]; [|discriminate|discriminate].
    destruct (F x r Hin) as (h & Hh & Hst). exists h. split; [|exact Hst].
    rewrite lookup_insert_ne; [exact Hh|congruence].
  - intros x h r Hx Hst. apply lookup_insert_Some in Hx as [[<- <-]|[_ Hx]]; [discriminate|].
    apply in_or_app. left. eauto.
  - unfold fin_ids. rewrite flat_map_app. cbn. destruct c; cbn; rewrite app_nil_r; exact H.
  - intros x h Hx Hc. apply lookup_insert_Some in Hx as [[<- <-]|[_ Hx]].
    + cbn in Hc. subst c. apply in_or_app. right. right. now left.
    + apply in_or_app. left. eauto.
  - rewrite J. split; [intros Hin; apply in_or_app; now left|]. intros Hin.
    apply Hs in Hin as [Hin|[Hin|[_ Hin]]]; [exact Hin|discriminate|discriminate].
  - rewrite <- K. f_equal. unfold stop_count. rewrite List.filter_app, app_length. destruct c; cbn; lia.
Qed.

Lemma Hist_finish s tr rid h r : Hist s tr -> hs s !! rid = Some h -> h_st h = HRun ->
  Hist (set_hs s (<[rid := {| h_tag := h_tag h; h_st := HFin r; h_canc := h_canc h |}]> (hs s))) (tr ++ [OFin rid r]).
Proof.
  intros [A B C D E F G H I J K] Hr Hst.
  constructor; unfold lo, pending_ids in *; proj_simpl.
  - intros x t k Hin. apply in_snoc in Hin as [Hin|Hin]; [eauto|discriminate].
  - unfold recv_ids. rewrite flat_map_app. cbn. rewrite app_nil_r. exact B.
  - intros x m Hin. apply in_snoc in Hin as [Hin|Hin]; [|discriminate].
    destruct (C x m Hin) as (h0 & Hh0 & Hrv). destruct (N.eq_dec x rid) as [->|Hne].
    + rewrite Hr in Hh0. injection Hh0 as <-. eexists. rewrite lookup_insert. split; [reflexivity|]. apply in_or_app. now left.
    + exists h0. rewrite lookup_insert_ne by congruence. split; [exact Hh0|apply in_or_app; now left].
  - intros x h0 Hx. apply lookup_insert_Some in Hx as [[<- _]|[_ Hx]].
    + destruct (D rid h Hr) as (m & Hm). exists m. apply in_or_app. now left.
    + destruct (D x h0 Hx) as (m & Hm). exists m. apply in_or_app. now left.
  - unfold disp_ids. rewrite flat_map_app. cbn. rewrite app_nil_r. exact E.
  - intros x r0 Hin. apply in_snoc in Hin as [Hin|Hin].
    + destruct (F x r0 Hin) as (h0 & Hh0 & Hs). destruct (N.eq_dec x rid) as [->|Hne].
      * rewrite Hr in Hh0. injection Hh0 as <-. rewrite Hst in Hs. destruct Hs; discriminate.
      * exists h0. rewrite lookup_insert_ne by congruence. auto.
    + injection Hin as -> ->. eexists. rewrite lookup_insert. split; [reflexivity|]. now left.
  - intros x h0 r0 Hx Hs. apply lookup_insert_Some in Hx as [[<- <-]|[_ Hx]].
    + cbn in Hs. injection Hs as ->. apply in_or_app. right. now left.
    + apply in_or_app. left. eauto.
  - unfold fin_ids. rewrite flat_map_app. cbn. apply NoDup_snoc; [exact H|].
    intros Hin. apply in_fin_ids in Hin as (r0 & Hin). destruct (F rid r0 Hin) as (h0 & Hh0 & Hs).
    rewrite Hr in Hh0. injection Hh0 as <-. rewrite Hst in Hs. destruct Hs; discriminate.
  - intros x h0 Hx Hc. apply lookup_insert_Some in Hx as [[<- <-]|[_ Hx]]; apply in_or_app; left; eauto.
  - rewrite J. split; [intros Hin; apply in_or_app; now left|]. intros Hin. apply in_snoc in Hin as [Hin|Hin]; [exact Hin|discriminate].
  - rewrite stop_count_snoc. rewrite <- K. lia.
Qed.

Lemma Hist_return s tr : Hist s tr -> Hist (set_pc s PReturned) (tr ++ [OReturn]).
Proof.
  intros [A B C D E F G H I J K].
  constructor; unfold lo, pending_ids in *; proj_simpl.
  - intros x t k Hin. apply in_snoc in Hin as [Hin|Hin]; [eauto|discriminate].
  - unfold recv_ids. rewrite flat_map_app. cbn. rewrite app_nil_r. exact B.
  - intros x m Hin. apply in_snoc in Hin as [Hin|Hin]; [|discriminate].
    destruct (C x m Hin) as (h & Hh & Hr). exists h. split; [exact Hh|]. apply in_or_app. now left.
  - intros x h Hh. destruct (D x h Hh) as (m & Hm). exists m. apply in_or_app. now left.
  - unfold disp_ids. rewrite flat_map_app. cbn. rewrite app_nil_r. exact E.
  - intros x r Hin. apply in_snoc in Hin as [Hin|Hin]; [eauto|discriminate].
  - intros x h r Hh Hs. apply in_or_app. left. eauto.
  - unfold fin_ids. rewrite flat_map_app. cbn. rewrite app_nil_r. exact H.
  - intros x h Hh Hc. apply in_or_app. left. eauto.
  - split; [intros _; apply in_or_app; right; now left|reflexivity].
  - rewrite stop_count_snoc. rewrite <- K. lia.
Qed.

Lemma Hist_stop s tr : Hist s tr -> stops s = 0 -> Hist (set_stops s 1) (tr ++ [OStop]).
Proof.
  intros [A B C D E F G H I J K] Hs0.
  constructor; unfold lo, pending_ids in *; proj_simpl.
  - intros x t k Hin. apply in_snoc in Hin as [Hin|Hin]; [eauto|discriminate].
  - unfold recv_ids. rewrite flat_map_app. cbn. rewrite app_nil_r. exact B.
  - intros x m Hin. apply in_snoc in Hin as [Hin|Hin]; [|discriminate].
    destruct (C x m Hin) as (h & Hh & Hr). exists h. split; [exact Hh|]. apply in_or_app. now left.
  - intros x h Hh. destruct (D x h Hh) as (m & Hm). exists m. apply in_or_app. now left.
  - unfold disp_ids. rewrite flat_map_app. cbn. rewrite app_nil_r. exact E.
  - intros x r Hin. apply in_snoc in Hin as [Hin|Hin]; [eauto|discriminate].
  - intros x h r Hh Hs. apply in_or_app. left. eauto.
  - unfold fin_ids. rewrite flat_map_app. cbn. rewrite app_nil_r. exact H.
  - intros x h Hh Hc. apply in_or_app. left. eauto.
  - rewrite J. split; [intros Hin; apply in_or_app; now left|]. intros Hin. apply in_snoc in Hin as [Hin|Hin]; [exact Hin|discriminate].
  - rewrite stop_count_snoc. rewrite Hs0 in K. lia.
Qed.

Ltac lo_eq := unfold lo, pending_ids; proj_simpl; reflexivity.
Ltac hmono X := eapply (Hist_mono X); [|reflexivity|proj_simpl; tauto|reflexivity|].

Lemma fresh_rid s rid tag k : SInv s -> rd s = RHold rid tag k -> hs s !! rid = None.
Proof.
  intros [Ii Ic _] Hr. destruct (hold_lo _ _ _ _ Ii Hr) as [-> _].
  destruct (hs s !! lo s) eqn:Hx; [|reflexivity].
  assert (lo s < lo s) by (apply (c_hs_lo _ Ic); eauto). lia.
Qed.

Lemma step_Hist s tr e s' o : SInv s -> Hist s tr -> step R s e = Some (s', o) -> Hist s' (tr ++ o).
Proof.
  intros Is I H. pose proof Is as [Iids Ic Il].
  destruct (step_ids _ _ _ _ Iids H) as [_ Hlo].
  assert (Hle : lo s <= lo s') by (destruct Hlo as [->|[-> _]]; lia). clear Hlo.
  destruct e; step_inv H; proj_simpl; rewrite ?app_nil_r.
  - (* ESend *) hmono s; [exact I|exact Hle].
  - (* EConnErr *) hmono s; [exact I|exact Hle].
  - (* EFinish *) eapply Hist_finish; eauto.
  - (* EWriteOk *) hmono s; [|exact Hle]. apply Hist_inert; [exact I|]. repeat constructor.
  - (* EWriteFail *) hmono s; [|exact Hle]. apply Hist_inert; [exact I|]. repeat constructor.
  - (* ECtxCancel *)
    pose proof (cancel_list_rel _ _ _ _ Heqp) as Rl. pose proof (cancel_list_out _ _ _ _ Heqp) as [_ Out]. proj_simpl.
    rewrite (cancel_list_frame _ _ _ _ Heqp).
    eapply Hist_cancel; [| exact Rl | exact (cancel_list_inert _ _ _ _ Heqp) | exact Out].
    hmono s; [exact I|]. assert (E : lo (set_ctxd s true) = lo s) by lo_eq. lia.
  - (* EReaderGet *) hmono s; [exact I|exact Hle].
  - (* EReaderFail *) hmono s; [exact I|exact Hle].
  - (* EReaderQuit *) hmono s; [exact I|exact Hle].
  - (* EArrive dup *)
    apply Hist_set_pc; proj_simpl; [|congruence|discriminate]. eapply Hist_recv; eauto.
  - (* EArrive dispatch *)
    change (tr ++ ORecv rid tag (KReq m) :: ODispatch rid m :: [OCancel rid])
      with (tr ++ [ORecv rid tag (KReq m)] ++ ODispatch rid m :: (if true then [OCancel rid] else [])).
    rewrite app_assoc.
    apply (Hist_dispatch (set_tags (set_rd s RIdle) (<[tag:=rid]> (tags s)))); proj_simpl.
    + hmono (set_rd s RIdle); [eapply Hist_recv; eauto|]. assert (E : lo (set_tags (set_rd s RIdle) (<[tag:=rid]> (tags s))) = lo (set_rd s RIdle)) by lo_eq. lia.
    + eapply fresh_rid; eauto.
    + apply in_or_app. right. now left.
  - change (tr ++ ORecv rid tag (KReq m) :: ODispatch rid m :: [])
      with (tr ++ [ORecv rid tag (KReq m)] ++ ODispatch rid m :: (if false then [OCancel rid] else [])).
    rewrite app_assoc.
    apply (Hist_dispatch (set_tags (set_rd s RIdle) (<[tag:=rid]> (tags s)))); proj_simpl.
    + hmono (set_rd s RIdle); [eapply Hist_recv; eauto|]. assert (E : lo (set_tags (set_rd s RIdle) (<[tag:=rid]> (tags s))) = lo (set_rd s RIdle)) by lo_eq. lia.
    + eapply fresh_rid; eauto.
    + apply in_or_app. right. now left.
  - (* flush of an outstanding tag *)
    pose proof (cancel_rid_rel _ _ _ _ Heqp0) as Rl. pose proof (cancel_rid_out _ _ _ _ Heqp0) as [_ Out]. proj_simpl.
    rewrite (cancel_rid_frame _ _ _ _ Heqp0).
    change (tr ++ ORecv rid tag (KFlush old) :: l) with (tr ++ [ORecv rid tag (KFlush old)] ++ l). rewrite app_assoc.
    apply Hist_set_pc; proj_simpl; [|congruence|discriminate].
    eapply Hist_cancel; [| exact Rl | exact (cancel_rid_inert _ _ _ _ Heqp0) |].
    + hmono (set_rd s RIdle); [eapply Hist_recv; eauto|].
      assert (E : lo (set_tags (set_rd s RIdle) (delete old (tags s))) = lo (set_rd s RIdle)) by lo_eq. lia.
    + intros r h [<-|[]] Hh Hc. proj_simpl. eauto.
  - (* flush of an unknown tag *)
    apply Hist_set_pc; proj_simpl; [|congruence|discriminate]. eapply Hist_recv; eauto.
  - (* EComplete *)
    apply Hist_set_pc; proj_simpl; [|congruence|discriminate]. apply Hist_gone; [exact I|exact Heqo0|congruence].
  - apply Hist_gone; [exact I|exact Heqo0|congruence].
  - apply Hist_gone; [exact I|exact Heqo0|congruence].
  - (* EGiveUp *) apply Hist_gone; [exact I|exact Heqo0|congruence].
  - (* ETake *)
    hmono (set_pc s Main); [|assert (E : lo (set_pc s Main) = lo s) by lo_eq; unfold lo, pending_ids in *; proj_simpl; lia].
    apply Hist_set_pc; [|congruence|discriminate]. apply Hist_inert; [exact I|repeat constructor].
  - hmono (set_pc s Main); [|unfold lo, pending_ids in *; proj_simpl; lia].
    apply Hist_set_pc; [|congruence|discriminate]. apply Hist_inert; [exact I|repeat constructor].
  - hmono (set_pc s Main); [|unfold lo, pending_ids in *; proj_simpl; lia].
    apply Hist_set_pc; [|congruence|discriminate]. apply Hist_inert; [exact I|repeat constructor].
  - hmono (set_pc s Main); [|unfold lo, pending_ids in *; proj_simpl; lia].
    apply Hist_set_pc; [|congruence|discriminate]. apply Hist_inert; [exact I|repeat constructor].
  - (* EDropDone *)
    hmono (set_pc s Main); [|unfold lo, pending_ids in *; proj_simpl; lia].
    apply Hist_set_pc; [exact I|congruence|discriminate].
  - (* EWriterQuit *) hmono s; [exact I|exact Hle].
  - (* EReturn *)
    pose proof (cancel_list_rel _ _ _ _ Heqp) as Rl. pose proof (cancel_list_out _ _ _ _ Heqp) as [_ Out]. proj_simpl.
    rewrite (cancel_list_frame _ _ _ _ Heqp). rewrite app_assoc.
    change (set_hs (set_pc s PReturned) (hs s0)) with (set_pc (set_hs s (hs s0)) PReturned).
    apply Hist_return. eapply Hist_cancel; [exact I| exact Rl | exact (cancel_list_inert _ _ _ _ Heqp) | exact Out].
  - (* EStop *)
    apply andb_prop in Heqb as [Hs0 _]. apply N.eqb_eq in Hs0. apply Hist_stop; assumption.
Qed.

Lemma reach_Hist s tr : reach s tr -> Hist s tr.
Proof.
  induction 1 as [|s tr e s' o Hr IH Hs]; [apply Hist_init|].
  eapply step_Hist; eauto. eapply reach_SInv; eauto.
Qed.
