(* Lemmas about Model/Serve.v, part 1: reachability, step inversion, cancel
   helpers, the state invariants.  Everything is about the REPAIRED code
   ([repaired] variant); the legacy variants are refuted by witnesses in
   ServeProofs3.v. *)
From Coq Require Import List NArith Bool Lia.
From stdpp Require Import gmap.
From P9 Require Import Model.Serve.
Import ListNotations.
Open Scope N_scope.

Notation R := repaired.

(* states reachable by ANY event list, with the outputs so far *)
Inductive reach : st -> list output -> Prop :=
| reach_init : reach init []
| reach_step s tr e s' o : reach s tr -> step R s e = Some (s', o) -> reach s' (tr ++ o).

Lemma run_reach_from evs : forall s0 tr0 s tr,
  reach s0 tr0 -> run R s0 evs = Some (s, tr) -> reach s (tr0 ++ tr).
Proof.
  induction evs as [|e evs IH]; intros s0 tr0 s tr Hr Hrun; cbn in Hrun.
  - injection Hrun as <- <-. now rewrite app_nil_r.
  - destruct (step R s0 e) as [[s1 o1]|] eqn:Hs; [|discriminate].
    destruct (run R s1 evs) as [[s2 o2]|] eqn:Hr2; [|discriminate].
    injection Hrun as <- <-. rewrite app_assoc. eapply IH; [|exact Hr2].
    econstructor; eauto.
Qed.

Lemma run_reach evs s tr : run R init evs = Some (s, tr) -> reach s tr.
Proof. intros H. change tr with ([] ++ tr). eapply run_reach_from; [constructor|exact H]. Qed.

Lemma reach_run s tr : reach s tr -> exists evs, run R init evs = Some (s, tr).
Proof.
  induction 1 as [|s tr e s' o _ [evs IH] Hs].
  - exists []. reflexivity.
  - exists (evs ++ [e]).
    assert (G : forall evs s0 s1 tr1, run R s0 evs = Some (s1, tr1) ->
                run R s0 (evs ++ [e]) = match step R s1 e with Some (s2, o2) => Some (s2, tr1 ++ o2) | None => None end).
    { clear. induction evs as [|x evs IH]; intros s0 s1 tr1 H; cbn in *.
      - injection H as <- <-. destruct (step R s0 e) as [[? ?]|]; [now rewrite app_nil_r|reflexivity].
      - destruct (step R s0 x) as [[sa oa]|]; [|discriminate].
        destruct (run R sa evs) as [[sb ob]|] eqn:E; [|discriminate].
        injection H as <- <-. rewrite (IH _ _ _ E).
        destruct (step R sb e) as [[? ?]|]; [now rewrite app_assoc|reflexivity]. }
    rewrite (G _ _ _ _ IH), Hs. reflexivity.
Qed.

(* ---- step inversion: split a [step R s e = Some (s', o)] hypothesis into its branches ---- *)
Ltac step_inv H :=
  unfold step in H; cbn [v_idmatch v_inner v_wait repaired negb orb andb] in H;
  repeat (lazymatch type of H with
          | context [match ?x with _ => _ end] => destruct x eqn:?
          end; try discriminate H);
  try (injection H as <- <-).

Ltac proj_simpl :=
  cbn [tags pc hs wr rd inq rerr closed ctxd stops nsent
       set_tags set_pc set_hs set_wr set_rd set_inq set_rerr set_closed set_ctxd set_stops set_nsent] in *.

(* ---- cancel helpers ---- *)
Definition hcanc (h : hrec) : hrec := {| h_tag := h_tag h; h_st := h_st h; h_canc := true |}.

Lemma set_hs_same s : set_hs s (hs s) = s.
Proof. destruct s; reflexivity. Qed.

Lemma cancel_rid_frame s r s' o : cancel_rid s r = (s', o) -> s' = set_hs s (hs s').
Proof.
  unfold cancel_rid. destruct (hs s !! r) as [h|]; [destruct (h_canc h)|];
    intros H; injection H as <- <-; cbn; now rewrite ?set_hs_same.
Qed.

(* hs after cancelling: same handlers, flag raised for the listed ones *)
Definition canc_rel (rids : list N) (m m' : gmap N hrec) : Prop :=
  forall x, match m !! x, m' !! x with
            | Some h, Some h' => h_tag h' = h_tag h /\ h_st h' = h_st h /\
                                 h_canc h' = h_canc h || existsb (N.eqb x) rids
            | None, None => True
            | _, _ => False
            end.

Lemma canc_rel_nil m : canc_rel [] m m.
Proof. intros x. destruct (m !! x); [|exact I]. cbn. now rewrite orb_false_r. Qed.

Lemma cancel_rid_rel s r s' o : cancel_rid s r = (s', o) -> canc_rel [r] (hs s) (hs s').
Proof.
  unfold cancel_rid. intros H x. cbn [existsb]. rewrite orb_false_r.
  destruct (hs s !! r) as [h|] eqn:Hr.
  - destruct (h_canc h) eqn:Hc; injection H as <- <-; proj_simpl.
    + destruct (hs s !! x) as [hx|] eqn:Hx; [|exact I]. repeat split.
      destruct (N.eqb_spec x r) as [->|]; [|now rewrite orb_false_r].
      rewrite Hr in Hx. injection Hx as <-. now rewrite Hc.
    + destruct (N.eqb_spec x r) as [->|Hne].
      * rewrite Hr, lookup_insert. cbn. now rewrite orb_true_r.
      * rewrite lookup_insert_ne by congruence.
        destruct (hs s !! x); [|exact I]. now rewrite orb_false_r.
  - injection H as <- <-. destruct (hs s !! x) as [hx|] eqn:Hx; [|exact I]. repeat split.
    destruct (N.eqb_spec x r) as [->|]; [congruence|now rewrite orb_false_r].
Qed.

Lemma canc_rel_trans a b m1 m2 m3 : canc_rel a m1 m2 -> canc_rel b m2 m3 -> canc_rel (a ++ b) m1 m3.
Proof.
  intros H1 H2 x. specialize (H1 x). specialize (H2 x).
  destruct (m1 !! x), (m2 !! x), (m3 !! x); try tauto.
  destruct H1 as (?&?&?), H2 as (?&?&?). repeat split; try congruence.
  rewrite existsb_app. rewrite H4, H1. now rewrite orb_assoc.
Qed.

Lemma cancel_list_frame rids : forall s s' o, cancel_list s rids = (s', o) -> s' = set_hs s (hs s').
Proof.
  induction rids as [|r rids IH]; intros s s' o H; cbn in H.
  - injection H as <- <-. now rewrite set_hs_same.
  - destruct (cancel_rid s r) as [s1 o1] eqn:H1. destruct (cancel_list s1 rids) as [s2 o2] eqn:H2.
    injection H as <- <-. rewrite (IH _ _ _ H2) at 1. rewrite (cancel_rid_frame _ _ _ _ H1). reflexivity.
Qed.

Lemma cancel_list_rel rids : forall s s' o, cancel_list s rids = (s', o) -> canc_rel rids (hs s) (hs s').
Proof.
  induction rids as [|r rids IH]; intros s s' o H; cbn in H.
  - injection H as <- <-. apply canc_rel_nil.
  - destruct (cancel_rid s r) as [s1 o1] eqn:H1. destruct (cancel_list s1 rids) as [s2 o2] eqn:H2.
    injection H as <- <-. change (r :: rids) with ([r] ++ rids).
    eapply canc_rel_trans; [eapply cancel_rid_rel; eauto|eapply IH; eauto].
Qed.

(* the outputs of cancelling: exactly the newly cancelled handlers *)
Lemma cancel_rid_out s r s' o : cancel_rid s r = (s', o) ->
  (forall x, In x o -> x = OCancel r /\ exists h, hs s !! r = Some h /\ h_canc h = false) /\
  (forall h, hs s !! r = Some h -> h_canc h = false -> In (OCancel r) o).
Proof.
  unfold cancel_rid. destruct (hs s !! r) as [h|] eqn:Hr.
  - destruct (h_canc h) eqn:Hc; intros H; injection H as <- <-; split.
    + intros x [].
    + intros h' E. injection E as <-. congruence.
    + intros x [<-|[]]. split; eauto.
    + intros; now left.
  - intros H; injection H as <- <-; split; [intros x []|intros h' E; discriminate].
Qed.

Lemma cancel_list_out rids : forall s s' o, cancel_list s rids = (s', o) ->
  (forall x, In x o -> exists r, x = OCancel r /\ In r rids /\ exists h, hs s !! r = Some h /\ h_canc h = false) /\
  (forall r h, In r rids -> hs s !! r = Some h -> h_canc h = false -> In (OCancel r) o).
Proof.
  induction rids as [|r rids IH]; intros s s' o H; cbn in H.
  - injection H as <- <-. split; [intros x []|intros r h []].
  - destruct (cancel_rid s r) as [s1 o1] eqn:H1. destruct (cancel_list s1 rids) as [s2 o2] eqn:H2.
    injection H as <- <-.
    destruct (cancel_rid_out _ _ _ _ H1) as [A1 A2]. destruct (IH _ _ _ H2) as [B1 B2].
    pose proof (cancel_rid_rel _ _ _ _ H1) as Rel. split.
    + intros x Hx. apply in_app_or in Hx as [Hx|Hx].
      * destruct (A1 x Hx) as (-> & h & ? & ?). exists r. repeat split; [now left|eauto].
      * destruct (B1 x Hx) as (r' & -> & Hin & h & Hh & Hc). exists r'. split; [reflexivity|]. split; [now right|].
        specialize (Rel r'). rewrite Hh in Rel. destruct (hs s !! r') as [h0|]; [|contradiction].
        destruct Rel as (_ & _ & E). exists h0. split; [reflexivity|].
        rewrite Hc in E. symmetry in E. apply orb_false_iff in E. tauto.
    + intros r' h Hin Hh Hc. apply in_or_app.
      destruct (N.eqb_spec r' r) as [->|Hne]; [left; eauto|].
      destruct Hin as [->|Hin]; [congruence|]. right.
      specialize (Rel r'). rewrite Hh in Rel. destruct (hs s1 !! r') as [h1|] eqn:E1; [|contradiction].
      destruct Rel as (_ & _ & E). eapply B2; eauto. rewrite E, Hc. cbn.
      destruct (N.eqb_spec r' r); [congruence|reflexivity].
Qed.

(* ---- request ids: the ids waiting in the reader / the conn are consecutive and fresh ---- *)
Definition pending_ids (s : st) : list N :=
  match rd s with RHold r _ _ => [r] | _ => [] end ++ map (fun x => fst (fst x)) (inq s).
Fixpoint iotaN (start : N) (n : nat) : list N :=
  match n with O => [] | S n => start :: iotaN (start + 1) n end.
Definition lo (s : st) : N := nsent s - N.of_nat (length (pending_ids s)).
Definition pc_rids (s : st) : list N :=
  match pc s with SendImm f => [f_rid f] | SendDone h f => [h; f_rid f] | _ => [] end.


Definition IdsInv (s : st) : Prop :=
  pending_ids s = iotaN (lo s) (length (pending_ids s)) /\ N.of_nat (length (pending_ids s)) <= nsent s.

Lemma iotaN_snoc n : forall a, iotaN a (S n) = iotaN a n ++ [a + N.of_nat n].
Proof.
  induction n as [|n IH]; intros a.
  - cbn. now rewrite N.add_0_r.
  - change (iotaN a (S (S n))) with (a :: iotaN (a + 1) (S n)). rewrite IH. cbn [iotaN app].
    f_equal. f_equal. f_equal. lia.
Qed.

Lemma ids_snoc l n : l = iotaN (n - N.of_nat (length l)) (length l) -> N.of_nat (length l) <= n ->
  l ++ [n] = iotaN (n + 1 - N.of_nat (length (l ++ [n]))) (length (l ++ [n])) /\ N.of_nat (length (l ++ [n])) <= n + 1
  /\ n + 1 - N.of_nat (length (l ++ [n])) = n - N.of_nat (length l).
Proof.
  intros E L. rewrite app_length. cbn [length]. rewrite Nat.add_1_r.
  assert (E2 : n + 1 - N.of_nat (S (length l)) = n - N.of_nat (length l)) by lia.
  rewrite E2, iotaN_snoc. repeat split; try lia.
  rewrite <- E. f_equal. f_equal. lia.
Qed.

Lemma ids_tail l n r rest : l = r :: rest -> l = iotaN (n - N.of_nat (length l)) (length l) -> N.of_nat (length l) <= n ->
  r = n - N.of_nat (length l) /\ rest = iotaN (n - N.of_nat (length rest)) (length rest) /\ N.of_nat (length rest) <= n
  /\ n - N.of_nat (length rest) = n - N.of_nat (length l) + 1.
Proof.
  intros -> E L. cbn [length] in *. cbn [iotaN] in E. injection E as E1 E2.
  assert (n - N.of_nat (length rest) = n - N.of_nat (S (length rest)) + 1) as -> by lia.
  repeat split; try assumption; lia.
Qed.


(* how the next-to-be-received request id moves *)
Lemma step_ids s e s' o : IdsInv s -> step R s e = Some (s', o) ->
  IdsInv s' /\ (lo s' = lo s \/ (lo s' = lo s + 1 /\ exists tag k, rd s = RHold (lo s) tag k)).
Proof.
  intros [E L] H. unfold IdsInv, lo, pending_ids in *.
  destruct e; step_inv H; proj_simpl.
  all: try (split; [split; assumption|left; reflexivity]).
  all: repeat match goal with
       | Hc : cancel_rid _ _ = _ |- _ => rewrite (cancel_rid_frame _ _ _ _ Hc); clear Hc; proj_simpl
       | Hc : cancel_list _ _ = _ |- _ => rewrite (cancel_list_frame _ _ _ _ Hc); clear Hc; proj_simpl
       end.
  all: try (split; [split; assumption|left; reflexivity]).
  all: try match goal with Hr : rd _ = _ |- _ => rewrite Hr in * end.
  all: repeat match goal with
       | |- context [ [?x] ++ ?l ] => change ([x] ++ l) with (x :: l)
       | |- context [ @nil ?A ++ ?l ] => change (@nil A ++ l) with l
       | H : context [ [?x] ++ ?l ] |- _ => change ([x] ++ l) with (x :: l) in H
       | H : context [ @nil ?A ++ ?l ] |- _ => change (@nil A ++ l) with l in H
       end.
  all: try match goal with Hi : inq _ = _ |- _ => rewrite Hi in *; cbn [app map fst] in * end.
  all: try (split; [split; assumption|left; reflexivity]).
  1: { (* ESend *)
    apply andb_prop in Heqb as [Hrid _]. apply N.eqb_eq in Hrid. subst rid.
    rewrite map_app, app_assoc. cbn [map fst].
    destruct (ids_snoc _ _ E L) as (A & B & C). split; [split; assumption|left; exact C]. }
  all: destruct (ids_tail _ _ _ _ eq_refl E L) as (A & B & C & D);
    (split; [split; assumption|right]); (split; [exact D|]); do 2 eexists; rewrite <- A; reflexivity.
Qed.

(* ---- the core structural invariant: tag table, handlers, loop program counter ---- *)
Lemma canc_rel_fwd rids m m' x h : canc_rel rids m m' -> m !! x = Some h ->
  exists h', m' !! x = Some h' /\ h_tag h' = h_tag h /\ h_st h' = h_st h /\ h_canc h' = h_canc h || existsb (N.eqb x) rids.
Proof. intros Rl E. specialize (Rl x). rewrite E in Rl. destruct (m' !! x) as [h'|]; [|contradiction]. eauto. Qed.

Lemma canc_rel_bwd rids m m' x h' : canc_rel rids m m' -> m' !! x = Some h' ->
  exists h, m !! x = Some h /\ h_tag h' = h_tag h /\ h_st h' = h_st h /\ h_canc h' = h_canc h || existsb (N.eqb x) rids.
Proof. intros Rl E. specialize (Rl x). rewrite E in Rl. destruct (m !! x) as [h|]; [|contradiction]. eauto. Qed.

Lemma canc_rel_none rids m m' x : canc_rel rids m m' -> m !! x = None -> m' !! x = None.
Proof. intros Rl E. specialize (Rl x). rewrite E in Rl. destruct (m' !! x); [contradiction|reflexivity]. Qed.

Lemma hold_lo s rid tag k : IdsInv s -> rd s = RHold rid tag k ->
  rid = lo s /\ (forall s', inq s' = inq s -> nsent s' = nsent s -> (rd s' = RIdle \/ rd s' = RDead) -> lo s' = lo s + 1).
Proof.
  intros [E L] Hr. unfold lo, pending_ids in *. rewrite Hr in *.
  change ([rid] ++ ?l) with (rid :: l) in *.
  destruct (ids_tail _ _ _ _ eq_refl E L) as (A & B & C & D). split; [exact A|].
  intros s' Hi Hn Hrd. rewrite Hi, Hn. destruct Hrd as [-> | ->]; exact D.
Qed.

Record Core (s : st) : Prop := {
  c_hs_lo : forall rid, is_Some (hs s !! rid) -> rid < lo s;
  c_pc_lo : forall r, In r (pc_rids s) -> r < lo s;
  c_tags : forall t rid, tags s !! t = Some rid -> exists h, hs s !! rid = Some h /\ h_tag h = t;
  c_live : forall rid h, hs s !! rid = Some h -> h_st h <> HGone -> h_canc h = false -> tags s !! h_tag h = Some rid;
  c_done : forall hd f, pc s = SendDone hd f -> f_rid f = hd /\ tags s !! f_tag f = Some hd /\
             exists h, hs s !! hd = Some h /\ h_tag h = f_tag f /\ h_st h = HGone;
  c_imm : forall f, pc s = SendImm f -> hs s !! f_rid f = None
}.

Lemma Core_mono s s' : Core s -> tags s' = tags s -> hs s' = hs s -> pc s' = pc s -> lo s <= lo s' -> Core s'.
Proof.
  intros [A B C D E F] Ht Hh Hp Hl. constructor; unfold pc_rids in *; rewrite ?Ht, ?Hh, ?Hp.
  - intros rid Hx. specialize (A rid Hx). lia.
  - intros r Hx. specialize (B r Hx). lia.
  - exact C.
  - exact D.
  - exact E.
  - exact F.
Qed.

Lemma Core_init : Core init.
Proof.
  constructor; cbn; intros *.
  - rewrite lookup_empty. intros [? ?]; discriminate.
  - intros [].
  - rewrite lookup_empty. discriminate.
  - rewrite lookup_empty. discriminate.
  - discriminate.
  - discriminate.
Qed.


(* handlers only move forward: same tag, cancellation and HGone are permanent *)
Definition hs_evolves (m m' : gmap N hrec) : Prop :=
  forall x, match m !! x, m' !! x with
            | Some h, Some h' => h_tag h' = h_tag h /\ (h_canc h = true -> h_canc h' = true) /\
                                 (h_st h = HGone -> h_st h' = HGone)
            | None, None => True
            | _, _ => False
            end.

Lemma evolves_bwd m m' x h' : hs_evolves m m' -> m' !! x = Some h' ->
  exists h, m !! x = Some h /\ h_tag h' = h_tag h /\ (h_canc h = true -> h_canc h' = true) /\ (h_st h = HGone -> h_st h' = HGone).
Proof. intros E Hx. specialize (E x). rewrite Hx in E. destruct (m !! x); [eauto|contradiction]. Qed.
Lemma evolves_fwd m m' x h : hs_evolves m m' -> m !! x = Some h ->
  exists h', m' !! x = Some h' /\ h_tag h' = h_tag h /\ (h_canc h = true -> h_canc h' = true) /\ (h_st h = HGone -> h_st h' = HGone).
Proof. intros E Hx. specialize (E x). rewrite Hx in E. destruct (m' !! x); [eauto|contradiction]. Qed.
Lemma evolves_none m m' x : hs_evolves m m' -> m !! x = None -> m' !! x = None.
Proof. intros E Hx. specialize (E x). rewrite Hx in E. destruct (m' !! x); [contradiction|reflexivity]. Qed.

Lemma canc_rel_evolves rids m m' : canc_rel rids m m' -> hs_evolves m m'.
Proof.
  intros Rl x. specialize (Rl x). destruct (m !! x), (m' !! x); try tauto.
  destruct Rl as (A & B & C). repeat split; [exact A| |congruence].
  intros Hc. rewrite C, Hc. reflexivity.
Qed.

Lemma insert_evolves m rid h h' : m !! rid = Some h -> h_tag h' = h_tag h ->
  (h_canc h = true -> h_canc h' = true) -> (h_st h = HGone -> h_st h' = HGone) -> hs_evolves m (<[rid := h']> m).
Proof.
  intros Hr A B C x. destruct (N.eq_dec x rid) as [->|Hne].
  - rewrite Hr, lookup_insert. auto.
  - rewrite lookup_insert_ne by congruence. destruct (m !! x); auto.
Qed.

Lemma Core_set_hs s m' : Core s -> hs_evolves (hs s) m' -> Core (set_hs s m').
Proof.
  intros [A B C D E F] Ev. constructor; unfold lo, pending_ids, pc_rids in *; proj_simpl.
  - intros rid [h' Hx]. destruct (evolves_bwd _ _ _ _ Ev Hx) as (h & Hh & _). apply A. eauto.
  - exact B.
  - intros t rid Ht. destruct (C t rid Ht) as (h & Hh & Htag).
    destruct (evolves_fwd _ _ _ _ Ev Hh) as (h' & Hh' & T & _). exists h'. split; [exact Hh'|congruence].
  - intros rid h' Hx Hst Hc. destruct (evolves_bwd _ _ _ _ Ev Hx) as (h & Hh & T & Cc & G).
    rewrite T. apply (D rid h Hh).
    + intros Hg. apply Hst, G, Hg.
    + destruct (h_canc h); [|reflexivity]. rewrite Cc in Hc by reflexivity. discriminate.
  - intros hd f Hp. destruct (E hd f Hp) as (E1 & E2 & h & Hh & T & G).
    destruct (evolves_fwd _ _ _ _ Ev Hh) as (h' & Hh' & T' & _ & G'). repeat split; try assumption.
    exists h'. repeat split; [exact Hh'|congruence|auto].
  - intros f Hp. eapply evolves_none; eauto.
Qed.

Definition rids_of_pc (p : pcT) : list N :=
  match p with SendImm f => [f_rid f] | SendDone h f => [h; f_rid f] | _ => [] end.

Lemma Core_set_pc s p : Core s -> (forall r, In r (rids_of_pc p) -> r < lo s) ->
  (forall hd f, p = SendDone hd f -> f_rid f = hd /\ tags s !! f_tag f = Some hd /\
       exists h, hs s !! hd = Some h /\ h_tag h = f_tag f /\ h_st h = HGone) ->
  (forall f, p = SendImm f -> hs s !! f_rid f = None) -> Core (set_pc s p).
Proof.
  intros [A B C D E F] P1 P2 P3. constructor; unfold lo, pending_ids, pc_rids in *; proj_simpl; assumption.
Qed.

(* the loop hands over / drops a completed response: the tag is freed *)
Lemma Core_untag s hd f : Core s -> pc s = SendDone hd f ->
  Core (set_pc (set_tags s (delete (f_tag f) (tags s))) Main).
Proof.
  intros [A B C D E F] Hp. destruct (E hd f Hp) as (E1 & E2 & hh & Hh & T & G).
  constructor; unfold lo, pending_ids, pc_rids in *; proj_simpl.
  - exact A.
  - intros r [].
  - intros t rid Ht. apply lookup_delete_Some in Ht as [_ Ht]. eauto.
  - intros rid h Hx Hst Hc. apply lookup_delete_Some. split; [|eauto].
    intros Heq. pose proof (D rid h Hx Hst Hc) as Ht. rewrite <- Heq, E2 in Ht. injection Ht as ->. congruence.
  - discriminate.
  - discriminate.
Qed.

(* Tflush of an outstanding tag: entry removed, its handler cancelled *)
Lemma Core_flush s old n m' : Core s -> pc s = Main -> tags s !! old = Some n -> canc_rel [n] (hs s) m' ->
  Core (set_hs (set_tags s (delete old (tags s))) m').
Proof.
  intros [A B C D E F] Hp Ho Rl. pose proof (canc_rel_evolves _ _ _ Rl) as Ev.
  constructor; unfold lo, pending_ids, pc_rids in *; proj_simpl.
  - intros rid [h' Hx]. destruct (evolves_bwd _ _ _ _ Ev Hx) as (h & Hh & _). apply A. eauto.
  - exact B.
  - intros t rid Ht. apply lookup_delete_Some in Ht as [_ Ht]. destruct (C t rid Ht) as (h & Hh & Htag).
    destruct (evolves_fwd _ _ _ _ Ev Hh) as (h' & Hh' & T & _). exists h'. split; [exact Hh'|congruence].
  - intros rid h' Hx Hst Hc. destruct (canc_rel_bwd _ _ _ _ _ Rl Hx) as (h & Hh & T & S & Cc).
    rewrite Hc in Cc. symmetry in Cc. apply orb_false_iff in Cc as [Cc1 Cc2].
    cbn in Cc2. rewrite orb_false_r in Cc2. apply N.eqb_neq in Cc2.
    rewrite T. apply lookup_delete_Some. rewrite S in Hst. pose proof (D rid h Hh Hst Cc1) as Ht.
    split; [|exact Ht]. intros Heq. rewrite <- Heq, Ho in Ht. congruence.
  - rewrite Hp. discriminate.
  - rewrite Hp. discriminate.
Qed.

(* a request on a free tag is handed to a new handler goroutine *)
Lemma Core_dispatch s rid tag c : Core s -> pc s = Main -> hs s !! rid = None -> rid < lo s -> tags s !! tag = None ->
  Core (set_hs (set_tags s (<[tag := rid]> (tags s))) (<[rid := {| h_tag := tag; h_st := HRun; h_canc := c |}]> (hs s))).
Proof.
  intros [A B C D E F] Hp Hn Hlt Ht.
  constructor; unfold lo, pending_ids, pc_rids in *; proj_simpl.
  - intros x [h Hx]. apply lookup_insert_Some in Hx as [[<- _]|[_ Hx]]; [exact Hlt|apply A; eauto].
  - exact B.
  - intros t x Hx. apply lookup_insert_Some in Hx as [[<- <-]|[Hne Hx]].
    + eexists. rewrite lookup_insert. split; reflexivity.
    + destruct (C t x Hx) as (h & Hh & T). exists h. split; [|exact T].
      rewrite lookup_insert_ne; [exact Hh|congruence].
  - intros x h Hx Hst Hc. apply lookup_insert_Some in Hx as [[<- <-]|[Hne Hx]].
    + cbn. apply lookup_insert.
    + pose proof (D x h Hx Hst Hc) as Hh. rewrite lookup_insert_ne; [exact Hh|congruence].
  - rewrite Hp. discriminate.
  - rewrite Hp. discriminate.
Qed.

Lemma lo_frame s s' : inq s' = inq s -> nsent s' = nsent s -> rd s' = rd s -> lo s' = lo s.
Proof. intros A B C. unfold lo, pending_ids. now rewrite A, B, C. Qed.

Ltac lo_same := unfold lo, pending_ids; proj_simpl; reflexivity.

Lemma step_Core s e s' o : IdsInv s -> Core s -> step R s e = Some (s', o) -> Core s'.
Proof.
  intros Iids I H.
  destruct (step_ids _ _ _ _ Iids H) as [_ Hlo].
  assert (Hle : lo s <= lo s') by (destruct Hlo as [->|[-> _]]; lia). clear Hlo.
  destruct e; step_inv H; proj_simpl.
  all: try (eapply Core_mono; [exact I|reflexivity|reflexivity|reflexivity|exact Hle]).
  all: clear Hle.
  - (* EFinish *)
    apply Core_set_hs; [exact I|]. eapply insert_evolves; eauto; cbn; congruence.
  - (* ECtxCancel *)
    rewrite (cancel_list_frame _ _ _ _ Heqp). apply Core_set_hs.
    + eapply Core_mono; [exact I|reflexivity..|]. assert (E : lo (set_ctxd s true) = lo s) by lo_same. lia.
    + apply canc_rel_evolves with (rids := map fst (map_to_list (hs s))).
      exact (cancel_list_rel _ _ _ _ Heqp).
  - (* EArrive, duplicate tag *)
    destruct (hold_lo _ _ _ _ Iids Heqr) as [-> Hl].
    assert (E : lo (set_rd s RIdle) = lo s + 1) by (apply Hl; auto).
    apply Core_set_pc.
    + eapply Core_mono; [exact I|reflexivity..|]. lia.
    + cbn. intros r [<-|[]]. lia.
    + discriminate.
    + intros f [= <-]. cbn. destruct (hs s !! lo s) eqn:Hx; [|reflexivity].
      assert (lo s < lo s) by (apply (c_hs_lo _ I); eauto). lia.
  - (* EArrive, dispatch (ctx already done) *)
    destruct (hold_lo _ _ _ _ Iids Heqr) as [-> Hl].
    assert (E : lo (set_rd s RIdle) = lo s + 1) by (apply Hl; auto).
    apply (Core_dispatch (set_rd s RIdle)); proj_simpl; try assumption.
    + eapply Core_mono; [exact I|reflexivity..|]. lia.
    + destruct (hs s !! lo s) eqn:Hx; [|reflexivity].
      assert (lo s < lo s) by (apply (c_hs_lo _ I); eauto). lia.
    + lia.
  - destruct (hold_lo _ _ _ _ Iids Heqr) as [-> Hl].
    assert (E : lo (set_rd s RIdle) = lo s + 1) by (apply Hl; auto).
    apply (Core_dispatch (set_rd s RIdle)); proj_simpl; try assumption.
    + eapply Core_mono; [exact I|reflexivity..|]. lia.
    + destruct (hs s !! lo s) eqn:Hx; [|reflexivity].
      assert (lo s < lo s) by (apply (c_hs_lo _ I); eauto). lia.
    + lia.
  - (* EArrive, flush of an outstanding tag *)
    destruct (hold_lo _ _ _ _ Iids Heqr) as [-> Hl].
    assert (E : lo (set_rd s RIdle) = lo s + 1) by (apply Hl; auto).
    pose proof (cancel_rid_rel _ _ _ _ Heqp0) as Rl. proj_simpl.
    rewrite (cancel_rid_frame _ _ _ _ Heqp0).
    assert (C1 : Core (set_hs (set_tags (set_rd s RIdle) (delete old (tags s))) (hs s0))).
    { apply (Core_flush (set_rd s RIdle) old n); proj_simpl; try assumption.
      eapply Core_mono; [exact I|reflexivity..|]. lia. }
    apply Core_set_pc; [exact C1| | |].
    + cbn. intros r [<-|[]].
      assert (E2 : lo (set_hs (set_tags (set_rd s RIdle) (delete old (tags s))) (hs s0)) = lo (set_rd s RIdle)) by lo_same.
      lia.
    + discriminate.
    + intros f [= <-]. cbn. eapply evolves_none; [exact (canc_rel_evolves _ _ _ Rl)|].
      destruct (hs s !! lo s) eqn:Hx; [|reflexivity].
      assert (lo s < lo s) by (apply (c_hs_lo _ I); eauto). lia.
  - (* EArrive, flush of an unknown tag *)
    destruct (hold_lo _ _ _ _ Iids Heqr) as [-> Hl].
    assert (E : lo (set_rd s RIdle) = lo s + 1) by (apply Hl; auto).
    apply Core_set_pc.
    + eapply Core_mono; [exact I|reflexivity..|]. lia.
    + cbn. intros r [<-|[]]. lia.
    + discriminate.
    + intros f [= <-]. cbn. destruct (hs s !! lo s) eqn:Hx; [|reflexivity].
      assert (lo s < lo s) by (apply (c_hs_lo _ I); eauto). lia.
  - (* EComplete, still the holder *)
    apply N.eqb_eq in Heqb. subst n.
    assert (C1 : Core (set_hs s (<[rid:={| h_tag := h_tag h; h_st := HGone; h_canc := h_canc h |}]> (hs s)))).
    { apply Core_set_hs; [exact I|]. eapply insert_evolves; eauto. }
    apply Core_set_pc; [exact C1| | |]; proj_simpl.
    + cbn. intros x Hr. assert (x = rid) as -> by (destruct Hr as [<-|[<-|[]]]; reflexivity).
      assert (E2 : lo (set_hs s (<[rid:={| h_tag := h_tag h; h_st := HGone; h_canc := h_canc h |}]> (hs s))) = lo s) by lo_same.
      rewrite E2. apply (c_hs_lo _ I). eauto.
    + intros hd f [= <- <-]. cbn. repeat split; [exact Heqo1|].
      eexists. rewrite lookup_insert. repeat split.
    + discriminate.
  - (* EComplete, no longer the holder *)
    apply Core_set_hs; [exact I|]. eapply insert_evolves; eauto.
  - apply Core_set_hs; [exact I|]. eapply insert_evolves; eauto.
  - (* EGiveUp *)
    apply Core_set_hs; [exact I|]. eapply insert_evolves; eauto.
  - (* ETake *)
    eapply (Core_mono (set_pc s Main)); [|reflexivity..|assert (E : lo (set_pc s Main) = lo s) by lo_same; unfold lo, pending_ids in *; proj_simpl; lia].
    apply Core_set_pc; [exact I|intros r []|discriminate|discriminate].
  - eapply (Core_mono (set_pc s Main)); [|reflexivity..|unfold lo, pending_ids in *; proj_simpl; lia].
    apply Core_set_pc; [exact I|intros r []|discriminate|discriminate].
  - eapply (Core_mono (set_pc (set_tags s (delete (f_tag f) (tags s))) Main)); [|reflexivity..|unfold lo, pending_ids in *; proj_simpl; lia].
    eapply Core_untag; eauto.
  - eapply (Core_mono (set_pc (set_tags s (delete (f_tag f) (tags s))) Main)); [|reflexivity..|unfold lo, pending_ids in *; proj_simpl; lia].
    eapply Core_untag; eauto.
  - (* EDropDone *)
    eapply Core_untag; eauto.
  - (* EReturn *)
    rewrite (cancel_list_frame _ _ _ _ Heqp). apply Core_set_hs.
    + apply Core_set_pc; [exact I|intros r []|discriminate|discriminate].
    + eapply canc_rel_evolves. exact (cancel_list_rel _ _ _ _ Heqp).
Qed.

(* ---- cancellation at shutdown, Stop ---- *)
Record Life (s : st) : Prop := {
  l_ctx : ctxd s = true -> forall rid h, hs s !! rid = Some h -> h_canc h = true;
  l_ret : pc s = PReturned -> forall rid h, hs s !! rid = Some h -> h_st h <> HGone -> h_canc h = true;
  l_stop : stops s = 0 \/ (stops s = 1 /\ pc s = PReturned /\ forall rid h, hs s !! rid = Some h -> h_st h = HGone)
}.

Lemma Life_init : Life init.
Proof. constructor; cbn; try discriminate. now left. Qed.

Lemma Life_mono s s' : Life s -> hs s' = hs s -> pc s' = pc s -> (ctxd s' = true -> ctxd s = true) -> stops s' = stops s -> Life s'.
Proof.
  intros [A B C] Hh Hp Hc Hs. constructor; rewrite ?Hh, ?Hp, ?Hs.
  - intros H. apply A, Hc, H.
  - exact B.
  - exact C.
Qed.

Lemma Life_set_hs s m' : Life s -> hs_evolves (hs s) m' -> Life (set_hs s m').
Proof.
  intros [A B C] Ev. constructor; proj_simpl.
  - intros Hc rid h' Hx. destruct (evolves_bwd _ _ _ _ Ev Hx) as (h & Hh & _ & Cc & _). eauto.
  - intros Hp rid h' Hx Hst. destruct (evolves_bwd _ _ _ _ Ev Hx) as (h & Hh & _ & Cc & G).
    apply Cc. eapply B; eauto.
  - destruct C as [C|(C1 & C2 & C3)]; [now left|right]. repeat split; try assumption.
    intros rid h' Hx. destruct (evolves_bwd _ _ _ _ Ev Hx) as (h & Hh & _ & _ & G). eauto.
Qed.

Lemma Life_set_pc s p : Life s -> pc s <> PReturned -> p <> PReturned -> Life (set_pc s p).
Proof.
  intros [A B C] H1 H2. constructor; proj_simpl; try assumption.
  - intros ->. congruence.
  - destruct C as [C|(C1 & C2 & C3)]; [now left|congruence].
Qed.

Lemma existsb_eqb_in x l : In x l -> existsb (N.eqb x) l = true.
Proof. intros H. apply existsb_exists. exists x. split; [exact H|apply N.eqb_refl]. Qed.

Lemma in_keys (m : gmap N hrec) x h : m !! x = Some h -> In x (map fst (map_to_list m)).
Proof.
  intros H. apply in_map_iff. exists (x, h). split; [reflexivity|].
  apply elem_of_list_In, elem_of_map_to_list, H.
Qed.

Lemma in_vals (m : gmap N N) t x : m !! t = Some x -> In x (map snd (map_to_list m)).
Proof.
  intros H. apply in_map_iff. exists (t, x). split; [reflexivity|].
  apply elem_of_list_In, elem_of_map_to_list, H.
Qed.

Lemma all_gone_spec s : all_gone s = true -> forall rid h, hs s !! rid = Some h -> h_st h = HGone.
Proof.
  unfold all_gone. intros H rid h Hx. rewrite forallb_forall in H.
  specialize (H (rid, h)). cbn in H. destruct (h_st h); try reflexivity; exfalso;
    (assert (false = true) by (apply H, elem_of_list_In, elem_of_map_to_list, Hx); discriminate).
Qed.

Lemma all_gone_intro s : (forall rid h, hs s !! rid = Some h -> h_st h = HGone) -> all_gone s = true.
Proof.
  intros H. unfold all_gone. apply forallb_forall. intros [rid h] Hin. cbn.
  apply elem_of_list_In, elem_of_map_to_list in Hin. now rewrite (H _ _ Hin).
Qed.


Lemma Life_stops0 s : Life s -> pc s <> PReturned -> stops s = 0.
Proof. intros [_ _ [C|(_ & C & _)]] H; [exact C|congruence]. Qed.

Lemma step_Life s e s' o : Core s -> Life s -> step R s e = Some (s', o) -> Life s'.
Proof.
  intros Ic I H.
  destruct e; step_inv H; proj_simpl.
  all: try (eapply Life_mono; [exact I|reflexivity|reflexivity|proj_simpl; auto|reflexivity]).
  - (* EFinish *)
    apply Life_set_hs; [exact I|]. eapply insert_evolves; eauto; cbn; congruence.
  - (* ECtxCancel *)
    pose proof (cancel_list_rel _ _ _ _ Heqp) as Rl. proj_simpl.
    rewrite (cancel_list_frame _ _ _ _ Heqp). destruct I as [A B C]. constructor; proj_simpl.
    + intros _ rid h' Hx. destruct (canc_rel_bwd _ _ _ _ _ Rl Hx) as (h & Hh & _ & _ & Cc).
      rewrite Cc, (existsb_eqb_in _ _ (in_keys _ _ _ Hh)). apply orb_true_r.
    + intros Hp rid h' Hx Hst. destruct (canc_rel_bwd _ _ _ _ _ Rl Hx) as (h & Hh & _ & S & Cc).
      rewrite Cc, (B Hp rid h Hh); [reflexivity|congruence].
    + destruct C as [C|(C1 & C2 & C3)]; [now left|right]. repeat split; try assumption.
      intros rid h' Hx. destruct (canc_rel_bwd _ _ _ _ _ Rl Hx) as (h & Hh & _ & S & _). rewrite S. eauto.
  - (* EArrive dup *)
    apply Life_set_pc; proj_simpl; [|congruence|discriminate].
    eapply Life_mono; [exact I|reflexivity..|auto|reflexivity].
  - (* dispatch *)
    destruct I as [A B C]. constructor; proj_simpl.
    + intros _ x h Hx. apply lookup_insert_Some in Hx as [[_ <-]|[_ Hx]]; [reflexivity|eauto].
    + rewrite Heqp. discriminate.
    + destruct C as [C|(_ & C & _)]; [now left|congruence].
  - destruct I as [A B C]. constructor; proj_simpl.
    + congruence.
    + rewrite Heqp. discriminate.
    + destruct C as [C|(_ & C & _)]; [now left|congruence].
  - (* flush of an outstanding tag *)
    pose proof (cancel_rid_rel _ _ _ _ Heqp0) as Rl. proj_simpl.
    rewrite (cancel_rid_frame _ _ _ _ Heqp0).
    apply Life_set_pc; proj_simpl; [|congruence|discriminate].
    apply Life_set_hs; [|exact (canc_rel_evolves _ _ _ Rl)].
    eapply Life_mono; [exact I|reflexivity..|auto|reflexivity].
  - (* flush of an unknown tag *)
    apply Life_set_pc; proj_simpl; [|congruence|discriminate].
    eapply Life_mono; [exact I|reflexivity..|auto|reflexivity].
  - (* EComplete *)
    apply Life_set_pc; proj_simpl; [|congruence|discriminate].
    apply Life_set_hs; [exact I|]. eapply insert_evolves; eauto.
  - apply Life_set_hs; [exact I|]. eapply insert_evolves; eauto.
  - apply Life_set_hs; [exact I|]. eapply insert_evolves; eauto.
  - (* EGiveUp *)
    apply Life_set_hs; [exact I|]. eapply insert_evolves; eauto.
  - (* ETake *)
    eapply (Life_mono (set_pc s Main)); [|reflexivity..|auto|reflexivity].
    apply Life_set_pc; [exact I|congruence|discriminate].
  - eapply (Life_mono (set_pc s Main)); [|reflexivity..|auto|reflexivity].
    apply Life_set_pc; [exact I|congruence|discriminate].
  - eapply (Life_mono (set_pc s Main)); [|reflexivity..|auto|reflexivity].
    apply Life_set_pc; [exact I|congruence|discriminate].
  - eapply (Life_mono (set_pc s Main)); [|reflexivity..|auto|reflexivity].
    apply Life_set_pc; [exact I|congruence|discriminate].
  - (* EDropDone *)
    eapply (Life_mono (set_pc s Main)); [|reflexivity..|auto|reflexivity].
    apply Life_set_pc; [exact I|congruence|discriminate].
  - (* EReturn *)
    pose proof (cancel_list_rel _ _ _ _ Heqp) as Rl. proj_simpl.
    apply andb_prop in Heqb as [Hpc _].
    assert (Hnr : pc s <> PReturned) by (intros E; rewrite E in Hpc; discriminate).
    pose proof (Life_stops0 _ I Hnr) as Hs0.
    rewrite (cancel_list_frame _ _ _ _ Heqp). destruct I as [A B C]. constructor; proj_simpl.
    + intros Hc rid h' Hx. destruct (canc_rel_bwd _ _ _ _ _ Rl Hx) as (h & Hh & _ & _ & Cc).
      rewrite Cc, (A Hc rid h Hh). reflexivity.
    + intros _ rid h' Hx Hst. destruct (canc_rel_bwd _ _ _ _ _ Rl Hx) as (h & Hh & _ & S & Cc).
      rewrite Cc. destruct (h_canc h) eqn:Hc; [reflexivity|]. cbn.
      apply existsb_eqb_in. eapply in_vals. apply (c_live _ Ic rid h Hh); [congruence|exact Hc].
    + now left.
  - (* EStop *)
    apply andb_prop in Heqb as [_ Hg]. destruct I as [A B C]. constructor; proj_simpl; try assumption.
    right. repeat split; try assumption. apply all_gone_spec, Hg.
Qed.

(* ---- all state invariants together ---- *)
Record SInv (s : st) : Prop := { si_ids : IdsInv s; si_core : Core s; si_life : Life s }.

Lemma SInv_init : SInv init.
Proof.
  constructor; [|apply Core_init|apply Life_init].
  split; cbn; [reflexivity|lia].
Qed.

Lemma step_SInv s e s' o : SInv s -> step R s e = Some (s', o) -> SInv s'.
Proof.
  intros [A B C] H. constructor.
  - exact (proj1 (step_ids _ _ _ _ A H)).
  - eapply step_Core; eauto.
  - eapply step_Life; eauto.
Qed.

Lemma reach_SInv s tr : reach s tr -> SInv s.
Proof. induction 1; [apply SInv_init|eapply step_SInv; eauto]. Qed.
