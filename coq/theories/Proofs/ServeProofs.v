(* Lemmas about Model/Serve.v, part 1: reachability, step inversion, cancel
   helpers, the state invariants.  Everything is about the REPAIRED code
   ([repaired] variant); the legacy variants are refuted by witnesses in
   ServeProofs3.v. *)
From Coq Require Import List NArith Bool Lia.
From stdpp Require Import gmap.
From P9 Require Import Model.Serve.
Import ListNotations.
Open Scope N_scope.

Notation R := repaired.

(* states reachable by ANY event list, with the outputs so far *)
Inductive reach : st -> list output -> Prop :=
| reach_init : reach init []
| reach_step s tr e s' o : reach s tr -> step R s e = Some (s', o) -> reach s' (tr ++ o).

Lemma run_reach_from evs : forall s0 tr0 s tr,
  reach s0 tr0 -> run R s0 evs = Some (s, tr) -> reach s (tr0 ++ tr).
Proof.
  induction evs as [|e evs IH]; intros s0 tr0 s tr Hr Hrun; cbn in Hrun.
  - injection Hrun as <- <-. now rewrite app_nil_r.
  - destruct (step R s0 e) as [[s1 o1]|] eqn:Hs; [|discriminate].
    destruct (run R s1 evs) as [[s2 o2]|] eqn:Hr2; [|discriminate].
    injection Hrun as <- <-. rewrite app_assoc. eapply IH; [|exact Hr2].
    econstructor; eauto.
Qed.

Lemma run_reach evs s tr : run R init evs = Some (s, tr) -> reach s tr.
Proof. intros H. change tr with ([] ++ tr). eapply run_reach_from; [constructor|exact H]. Qed.

Lemma reach_run s tr : reach s tr -> exists evs, run R init evs = Some (s, tr).
Proof.
  induction 1 as [|s tr e s' o _ [evs IH] Hs].
  - exists []. reflexivity.
  - exists (evs ++ [e]).
    assert (G : forall evs s0 s1 tr1, run R s0 evs = Some (s1, tr1) ->
                run R s0 (evs ++ [e]) = match step R s1 e with Some (s2, o2) => Some (s2, tr1 ++ o2) | None => None end).
    { clear. induction evs as [|x evs IH]; intros s0 s1 tr1 H; cbn in *.
      - injection H as <- <-. destruct (step R s0 e) as [[? ?]|]; [now rewrite app_nil_r|reflexivity].
      - destruct (step R s0 x) as [[sa oa]|]; [|discriminate].
        destruct (run R sa evs) as [[sb ob]|] eqn:E; [|discriminate].
        injection H as <- <-. rewrite (IH _ _ _ E).
        destruct (step R sb e) as [[? ?]|]; [now rewrite app_assoc|reflexivity]. }
    rewrite (G _ _ _ _ IH), Hs. reflexivity.
Qed.

(* ---- step inversion: split a [step R s e = Some (s', o)] hypothesis into its branches ---- *)
Ltac step_inv H :=
  unfold step in H; cbn [v_idmatch v_inner v_wait repaired negb orb andb] in H;
  repeat (lazymatch type of H with
          | context [match ?x with _ => _ end] => destruct x eqn:?
          end; try discriminate H);
  try (injection H as <- <-).

Ltac proj_simpl :=
  cbn [tags pc hs wr rd inq rerr closed ctxd stops nsent
       set_tags set_pc set_hs set_wr set_rd set_inq set_rerr set_closed set_ctxd set_stops set_nsent] in *.

(* ---- cancel helpers ---- *)
Definition hcanc (h : hrec) : hrec := {| h_tag := h_tag h; h_st := h_st h; h_canc := true |}.

Lemma set_hs_same s : set_hs s (hs s) = s.
Proof. destruct s; reflexivity. Qed.

Lemma cancel_rid_frame s r s' o : cancel_rid s r = (s', o) -> s' = set_hs s (hs s').
Proof.
  unfold cancel_rid. destruct (hs s !! r) as [h|]; [destruct (h_canc h)|];
    intros H; injection H as <- <-; cbn; now rewrite ?set_hs_same.
Qed.

(* hs after cancelling: same handlers, flag raised for the listed ones *)
Definition canc_rel (rids : list N) (m m' : gmap N hrec) : Prop :=
  forall x, match m !! x, m' !! x with
            | Some h, Some h' => h_tag h' = h_tag h /\ h_st h' = h_st h /\
                                 h_canc h' = h_canc h || existsb (N.eqb x) rids
            | None, None => True
            | _, _ => False
            end.

Lemma canc_rel_nil m : canc_rel [] m m.
Proof. intros x. destruct (m !! x); [|exact I]. cbn. now rewrite orb_false_r. Qed.

Lemma cancel_rid_rel s r s' o : cancel_rid s r = (s', o) -> canc_rel [r] (hs s) (hs s').
Proof.
  unfold cancel_rid. intros H x. cbn [existsb]. rewrite orb_false_r.
  destruct (hs s !! r) as [h|] eqn:Hr.
  - destruct (h_canc h) eqn:Hc; injection H as <- <-; proj_simpl.
    + destruct (hs s !! x) as [hx|] eqn:Hx; [|exact I]. repeat split.
      destruct (N.eqb_spec x r) as [->|]; [|now rewrite orb_false_r].
      rewrite Hr in Hx. injection Hx as <-. now rewrite Hc.
    + destruct (N.eqb_spec x r) as [->|Hne].
      * rewrite Hr, lookup_insert. cbn. now rewrite orb_true_r.
      * rewrite lookup_insert_ne by congruence.
        destruct (hs s !! x); [|exact I]. now rewrite orb_false_r.
  - injection H as <- <-. destruct (hs s !! x) as [hx|] eqn:Hx; [|exact I]. repeat split.
    destruct (N.eqb_spec x r) as [->|]; [congruence|now rewrite orb_false_r].
Qed.

Lemma canc_rel_trans a b m1 m2 m3 : canc_rel a m1 m2 -> canc_rel b m2 m3 -> canc_rel (a ++ b) m1 m3.
Proof.
  intros H1 H2 x. specialize (H1 x). specialize (H2 x).
  destruct (m1 !! x), (m2 !! x), (m3 !! x); try tauto.
  destruct H1 as (?&?&?), H2 as (?&?&?). repeat split; try congruence.
  rewrite existsb_app. rewrite H4, H1. now rewrite orb_assoc.
Qed.

Lemma cancel_list_frame rids : forall s s' o, cancel_list s rids = (s', o) -> s' = set_hs s (hs s').
Proof.
  induction rids as [|r rids IH]; intros s s' o H; cbn in H.
  - injection H as <- <-. now rewrite set_hs_same.
  - destruct (cancel_rid s r) as [s1 o1] eqn:H1. destruct (cancel_list s1 rids) as [s2 o2] eqn:H2.
    injection H as <- <-. rewrite (IH _ _ _ H2) at 1. rewrite (cancel_rid_frame _ _ _ _ H1). reflexivity.
Qed.

Lemma cancel_list_rel rids : forall s s' o, cancel_list s rids = (s', o) -> canc_rel rids (hs s) (hs s').
Proof.
  induction rids as [|r rids IH]; intros s s' o H; cbn in H.
  - injection H as <- <-. apply canc_rel_nil.
  - destruct (cancel_rid s r) as [s1 o1] eqn:H1. destruct (cancel_list s1 rids) as [s2 o2] eqn:H2.
    injection H as <- <-. change (r :: rids) with ([r] ++ rids).
    eapply canc_rel_trans; [eapply cancel_rid_rel; eauto|eapply IH; eauto].
Qed.

(* the outputs of cancelling: exactly the newly cancelled handlers *)
Lemma cancel_rid_out s r s' o : cancel_rid s r = (s', o) ->
  (forall x, In x o -> x = OCancel r /\ exists h, hs s !! r = Some h /\ h_canc h = false) /\
  (forall h, hs s !! r = Some h -> h_canc h = false -> In (OCancel r) o).
Proof.
  unfold cancel_rid. destruct (hs s !! r) as [h|] eqn:Hr.
  - destruct (h_canc h) eqn:Hc; intros H; injection H as <- <-; split.
    + intros x [].
    + intros h' E. injection E as <-. congruence.
    + intros x [<-|[]]. split; eauto.
    + intros; now left.
  - intros H; injection H as <- <-; split; [intros x []|intros h' E; discriminate].
Qed.

Lemma cancel_list_out rids : forall s s' o, cancel_list s rids = (s', o) ->
  (forall x, In x o -> exists r, x = OCancel r /\ In r rids /\ exists h, hs s !! r = Some h /\ h_canc h = false) /\
  (forall r h, In r rids -> hs s !! r = Some h -> h_canc h = false -> In (OCancel r) o).
Proof.
  induction rids as [|r rids IH]; intros s s' o H; cbn in H.
  - injection H as <- <-. split; [intros x []|intros r h []].
  - destruct (cancel_rid s r) as [s1 o1] eqn:H1. destruct (cancel_list s1 rids) as [s2 o2] eqn:H2.
    injection H as <- <-.
    destruct (cancel_rid_out _ _ _ _ H1) as [A1 A2]. destruct (IH _ _ _ H2) as [B1 B2].
    pose proof (cancel_rid_rel _ _ _ _ H1) as Rel. split.
    + intros x Hx. apply in_app_or in Hx as [Hx|Hx].
      * destruct (A1 x Hx) as (-> & h & ? & ?). exists r. repeat split; [now left|eauto].
      * destruct (B1 x Hx) as (r' & -> & Hin & h & Hh & Hc). exists r'. split; [reflexivity|]. split; [now right|].
        specialize (Rel r'). rewrite Hh in Rel. destruct (hs s !! r') as [h0|]; [|contradiction].
        destruct Rel as (_ & _ & E). exists h0. split; [reflexivity|].
        rewrite Hc in E. symmetry in E. apply orb_false_iff in E. tauto.
    + intros r' h Hin Hh Hc. apply in_or_app.
      destruct (N.eqb_spec r' r) as [->|Hne]; [left; eauto|].
      destruct Hin as [->|Hin]; [congruence|]. right.
      specialize (Rel r'). rewrite Hh in Rel. destruct (hs s1 !! r') as [h1|] eqn:E1; [|contradiction].
      destruct Rel as (_ & _ & E). eapply B2; eauto. rewrite E, Hc. cbn.
      destruct (N.eqb_spec r' r); [congruence|reflexivity].
Qed.
