(* Lemmas about allocateTag's model (Model/Tags.v: next_tag, alloc_loop, allocate). *)
From Coq Require Import List NArith Bool Lia ZifyBool ZifyNat ZifyN.
From stdpp Require Import nmap fin_maps fin_sets fin_map_dom.
From P9 Require Import Gen.GenReplyTypes Gen.GenConsts Model.Tags.
Import ListNotations.
Open Scope N_scope.

(* the model's NOTAG is the source's constant (GenConsts is regenerated from /repo) *)
Lemma NOTAG_is_source_constant : NOTAG = c_NOTAG.
Proof. reflexivity. Qed.

Lemma next_tag_lt : forall h, next_tag h < 65535.
Proof.
  intros h. unfold next_tag, NOTAG.
  pose proof (N.mod_upper_bound (h + 1) 65536 ltac:(lia)) as Hub.
  destruct ((h + 1) mod 65536 =? 65535) eqn:E; lia.
Qed.

(* for a hint that is itself a valid tag the step is +1 modulo 65535 *)
Lemma next_tag_mod : forall h, h < 65535 -> next_tag h = (h + 1) mod 65535.
Proof.
  intros h Hh. unfold next_tag, NOTAG.
  rewrite (N.mod_small (h + 1) 65536) by lia.
  destruct (h + 1 =? 65535) eqn:E.
  - assert (h + 1 = 65535) as -> by lia. reflexivity.
  - rewrite N.mod_small by lia. reflexivity.
Qed.

Lemma alloc_loop_sound : forall fuel m h t,
  alloc_loop fuel m h = Some t -> m !! t = None /\ t < 65535.
Proof.
  induction fuel as [|f IH]; intros m h t Hal; cbn [alloc_loop] in Hal; [discriminate|].
  destruct (m !! next_tag h) eqn:El.
  - eapply IH; eassumption.
  - inversion Hal; subst t. split; [assumption | apply next_tag_lt].
Qed.

(* the i-th candidate examined after the first one *)
Lemma alloc_loop_none : forall fuel m h,
  alloc_loop fuel m h = None ->
  forall i, (i < fuel)%nat -> is_Some (m !! ((next_tag h + N.of_nat i) mod 65535)).
Proof.
  induction fuel as [|f IH]; intros m h Hal i Hi; [lia|].
  cbn [alloc_loop] in Hal.
  destruct (m !! next_tag h) eqn:El; [|discriminate].
  pose proof (next_tag_lt h) as Hlt.
  destruct i as [|j].
  - rewrite N.add_0_r, N.mod_small by lia. rewrite El. eauto.
  - specialize (IH m (next_tag h) Hal j ltac:(lia)).
    rewrite (next_tag_mod (next_tag h) Hlt) in IH.
    rewrite N.add_mod_idemp_l in IH by lia.
    replace (next_tag h + N.of_nat (S j)) with (next_tag h + 1 + N.of_nat j) by lia.
    exact IH.
Qed.

(* the 65535 candidates are all the tags 0..65534 *)
Lemma alloc_loop_none_all : forall m h,
  alloc_loop pool_fuel m h = None -> forall t, t < 65535 -> is_Some (m !! t).
Proof.
  intros m h Hal t Ht.
  pose proof (next_tag_lt h) as Hlt.
  set (h0 := next_tag h) in *.
  set (i := (t + 65535 - h0) mod 65535).
  assert (Hi : i < 65535) by (apply N.mod_upper_bound; lia).
  pose proof (alloc_loop_none pool_fuel m h Hal (N.to_nat i)) as H.
  unfold pool_fuel in H. specialize (H ltac:(lia)).
  rewrite N2Nat.id in H. fold h0 in H.
  assert (Heq : (h0 + i) mod 65535 = t).
  { unfold i. rewrite N.add_mod_idemp_r by lia.
    replace (h0 + (t + 65535 - h0)) with (t + 1 * 65535) by lia.
    rewrite N.mod_add by lia. apply N.mod_small; lia. }
  rewrite Heq in H. exact H.
Qed.

(* pigeonhole: a map that binds every tag below n has at least n entries *)
Lemma size_ge_of_all_below : forall (m : tagmap) (n : nat),
  (forall t, t < N.of_nat n -> is_Some (m !! t)) -> (n <= size m)%nat.
Proof.
  intros m n Hall.
  set (l := N.of_nat <$> seq 0 n).
  assert (Hnd : NoDup l).
  { unfold l. apply NoDup_fmap_2; [intros x y Hxy; lia | apply NoDup_seq]. }
  assert (Hsub : (list_to_set l : Nset) ⊆ dom m).
  { intros x Hx. apply elem_of_list_to_set in Hx.
    unfold l in Hx. apply elem_of_list_fmap in Hx as (k & -> & Hk).
    apply elem_of_seq in Hk. apply elem_of_dom. apply Hall. lia. }
  apply subseteq_size in Hsub.
  rewrite size_list_to_set in Hsub by exact Hnd.
  rewrite size_dom in Hsub.
  unfold l in Hsub. rewrite fmap_length, seq_length in Hsub. exact Hsub.
Qed.

Lemma allocate_sound : forall m h t,
  allocate m h = inl t -> m !! t = None /\ t <> NOTAG /\ t < 65535.
Proof.
  intros m h t Hal. unfold allocate in Hal.
  destruct (65535 <=? N.of_nat (size m)) eqn:Esz; [discriminate|].
  destruct (alloc_loop pool_fuel m h) as [t'|] eqn:El; [|discriminate].
  inversion Hal; subst t'.
  apply alloc_loop_sound in El as [Hn Hlt]. unfold NOTAG. repeat split; [assumption | lia | assumption].
Qed.

(* the loop cannot run out of candidates once the pre-check has passed:
   "allocateTag: unexpected error" is unreachable *)
Lemma allocate_never_unexpected : forall m h, allocate m h <> inr EAllocUnexpected.
Proof.
  intros m h Hal. unfold allocate in Hal.
  destruct (65535 <=? N.of_nat (size m)) eqn:Esz; [discriminate|].
  destruct (alloc_loop pool_fuel m h) eqn:El; [discriminate|].
  pose proof (alloc_loop_none_all m h El) as Hall.
  pose proof (size_ge_of_all_below m (N.to_nat 65535)) as Hsz.
  rewrite N2Nat.id in Hsz. specialize (Hsz Hall). lia.
Qed.

Lemma allocate_complete : forall m h,
  (size m < N.to_nat 65535)%nat -> exists t, allocate m h = inl t.
Proof.
  intros m h Hsz.
  destruct (allocate m h) as [t|e] eqn:Hal; [eauto|].
  exfalso. destruct e.
  - unfold allocate in Hal.
    destruct (65535 <=? N.of_nat (size m)) eqn:Esz; [lia|].
    destruct (alloc_loop pool_fuel m h); discriminate.
  - exact (allocate_never_unexpected m h Hal).
  - unfold allocate in Hal.
    destruct (65535 <=? N.of_nat (size m)); [discriminate|].
    destruct (alloc_loop pool_fuel m h); discriminate.
Qed.

Lemma allocate_depleted_iff : forall m h,
  allocate m h = inr EDepleted <-> (N.to_nat 65535 <= size m)%nat.
Proof.
  intros m h. unfold allocate.
  destruct (65535 <=? N.of_nat (size m)) eqn:Esz.
  - split; [lia | reflexivity].
  - split; [|lia]. destruct (alloc_loop pool_fuel m h); discriminate.
Qed.

(* exactness: the tag chosen is the first free one after the hint, cyclically
   (what the harness compares frame by frame) *)
Lemma alloc_loop_first : forall fuel m h t,
  alloc_loop fuel m h = Some t ->
  exists i, (i < fuel)%nat /\ t = (next_tag h + N.of_nat i) mod 65535 /\
            forall j, (j < i)%nat -> is_Some (m !! ((next_tag h + N.of_nat j) mod 65535)).
Proof.
  induction fuel as [|f IH]; intros m h t Hal; cbn [alloc_loop] in Hal; [discriminate|].
  pose proof (next_tag_lt h) as Hlt.
  destruct (m !! next_tag h) eqn:El.
  - destruct (IH m (next_tag h) t Hal) as (i & Hi & Ht & Hbefore).
    exists (S i). split; [lia|].
    rewrite (next_tag_mod (next_tag h) Hlt) in Ht, Hbefore.
    split.
    + rewrite N.add_mod_idemp_l in Ht by lia. rewrite Ht. f_equal. lia.
    + intros j Hj. destruct j as [|j].
      * rewrite N.add_0_r, N.mod_small by lia. rewrite El. eauto.
      * specialize (Hbefore j ltac:(lia)).
        rewrite N.add_mod_idemp_l in Hbefore by lia.
        replace (next_tag h + N.of_nat (S j)) with (next_tag h + 1 + N.of_nat j) by lia. exact Hbefore.
  - inversion Hal; subst t. exists 0%nat. split; [lia|]. split.
    + rewrite N.add_0_r, N.mod_small by lia. reflexivity.
    + intros j Hj. lia.
Qed.
