(* ufs/util.go's open-flag mapping: the model (Model/Ufs.v: [ufs_oflags], which
   C19_oflags proves equal to open(5) and which the C19 refinement runs on) is
   what the translation of the current source computes, for all 256 mode
   bytes; the numbers are Linux's O_RDONLY=0, O_WRONLY=1, O_RDWR=2, O_TRUNC=512
   as go/types evaluates os.O_* when the translator runs. *)
From Coq Require Import List NArith ZArith Bool Lia.
From P9 Require Import Base.GoRt Model.HostFS Model.Ufs Gen.GenUfsOflags.
Import ListNotations.
Local Open Scope N_scope.

Definition oflag_num (f : oflag) : Z :=
  ((match of_acc f with RDONLY => 0 | WRONLY => 1 | RDWR => 2 end) + (if of_trunc f then 512 else 0))%Z.

Definition oflags_agree (m : N) : bool :=
  match gen_oflags (Z.of_N m) with
  | Ret z => (Z.eqb z (oflag_num (ufs_oflags m)) && negb (of_creat (ufs_oflags m)))%bool
  | _ => false
  end.

Lemma gen_oflags_sweep : forallb oflags_agree (map N.of_nat (seq 0 256)) = true.
Proof. vm_compute. reflexivity. Qed.

Theorem gen_oflags_eq : forall m, m < 256 ->
  gen_oflags (Z.of_N m) = Ret (oflag_num (ufs_oflags m)) /\ of_creat (ufs_oflags m) = false.
Proof.
  intros m Hm. pose proof gen_oflags_sweep as Hs. rewrite forallb_forall in Hs.
  assert (Hin : In m (map N.of_nat (seq 0 256))).
  { rewrite <- (N2Nat.id m). apply in_map. apply in_seq. lia. }
  specialize (Hs m Hin). unfold oflags_agree in Hs.
  destruct (gen_oflags (Z.of_N m)) as [z| |]; try discriminate Hs.
  apply andb_true_iff in Hs. destruct Hs as [Hz Hc]. apply Z.eqb_eq in Hz. subst z.
  split; [reflexivity|]. destruct (of_creat (ufs_oflags m)); [discriminate Hc | reflexivity].
Qed.
