(* Lemmas about Model/Ramfs.v, part 3: the invariant of the whole server
   (store + the fid tables of all sessions) is kept by every operation, no
   operation panics, hangs or runs out of decref fuel. *)
From Coq Require Import List NArith ZArith Bool Lia ZifyBool ZifyNat ZifyN.
From P9 Require Import Base.Res Model.Path Model.Ramfs Proofs.RamfsProofs Proofs.RamfsProofsRef.
Import ListNotations.
Open Scope Z_scope.

(* ---------------------------------------------------------------- handles held by the sessions *)

Definition handles_of (t : ftab) : list handle := map (fun e => f_h (snd e)) t.
Definition hc_tab (t : ftab) (x : nat) : Z := cnt (flat_map hids (handles_of t)) x.
Definition all_handles (ss : list ftab) : list handle := flat_map handles_of ss.
Definition hc_sess (ss : list ftab) (x : nat) : Z := cnt (flat_map hids (all_handles ss)) x.
Definition hcount (w : world) : nat -> Z := hc_sess (w_sess w).

Lemma hc_sess_nonneg ss : hc_nonneg (hc_sess ss).
Proof. intros x. apply cnt_nonneg. Qed.

Lemma hc_tab_snoc t fid e x : hc_tab (t ++ [(fid, e)]) x = hc_tab t x + cnt (hids (f_h e)) x.
Proof.
  unfold hc_tab, handles_of. rewrite map_app, cnt_flat_map_app. cbn. rewrite app_nil_r. reflexivity.
Qed.

Lemma hc_tab_del t fid e x : ft_get t fid = Some e ->
  hc_tab (ft_del t fid) x = hc_tab t x - cnt (hids (f_h e)) x.
Proof.
  unfold hc_tab, handles_of. induction t as [|[k v] t IH]; cbn; try discriminate.
  destruct (k =? fid)%N; intros E.
  - inversion E; subst. rewrite cnt_app. lia.
  - cbn. rewrite !cnt_app. rewrite IH by auto. lia.
Qed.

Lemma hc_tab_set t fid e e' x : ft_get t fid = Some e ->
  hc_tab (ft_set t fid e') x = hc_tab t x - cnt (hids (f_h e)) x + cnt (hids (f_h e')) x.
Proof.
  unfold hc_tab, handles_of. induction t as [|[k v] t IH]; cbn; try discriminate.
  destruct (k =? fid)%N; intros E.
  - inversion E; subst. cbn. rewrite !cnt_app. lia.
  - cbn. rewrite !cnt_app. rewrite IH by auto. lia.
Qed.

Lemma hc_sess_set ss : forall s t' x, (s < length ss)%nat ->
  hc_sess (set_nth ss s t') x = hc_sess ss x - hc_tab (nth s ss []) x + hc_tab t' x.
Proof.
  unfold hc_sess, all_handles, hc_tab.
  induction ss as [|t ss IH]; intros [|s] t' x Hs; cbn [length] in Hs; try lia.
  - cbn [set_nth nth flat_map]. rewrite !flat_map_app, !cnt_app. lia.
  - cbn [set_nth nth flat_map]. rewrite !flat_map_app, !cnt_app. rewrite IH by lia. lia.
Qed.

Lemma ft_get_in t fid e : ft_get t fid = Some e -> In (f_h e) (handles_of t).
Proof.
  unfold handles_of. induction t as [|[k v] t IH]; cbn; try discriminate.
  destruct (k =? fid)%N; intros E.
  - inversion E; subst. auto.
  - right. auto.
Qed.

Lemma in_handles_del t fid h : In h (handles_of (ft_del t fid)) -> In h (handles_of t).
Proof.
  unfold handles_of. induction t as [|[k v] t IH]; cbn; auto.
  destruct (k =? fid)%N; cbn; intuition.
Qed.

Lemma in_handles_set t fid e' h : In h (handles_of (ft_set t fid e')) -> h = f_h e' \/ In h (handles_of t).
Proof.
  unfold handles_of. induction t as [|[k v] t IH]; cbn.
  - intuition.
  - destruct (k =? fid)%N; cbn; intuition.
Qed.

Lemma in_handles_snoc t fid e h : In h (handles_of (t ++ [(fid, e)])) -> h = f_h e \/ In h (handles_of t).
Proof.
  unfold handles_of. rewrite map_app, in_app_iff. cbn. intuition.
Qed.

Lemma in_all_set ss : forall s t' h, In h (all_handles (set_nth ss s t')) ->
  In h (handles_of t') \/ In h (all_handles ss).
Proof.
  unfold all_handles. induction ss as [|t ss IH]; intros [|s] t' h; cbn; auto.
  - rewrite !in_app_iff. intuition.
  - rewrite !in_app_iff. intros [H|H]; auto. destruct (IH s t' h H); auto.
Qed.

Lemma in_all_nth ss s h : In h (handles_of (nth s ss [])) -> In h (all_handles ss).
Proof.
  unfold all_handles. revert s. induction ss as [|t ss IH]; intros [|s] H; cbn in *; try tauto.
  - apply in_or_app. auto.
  - apply in_or_app. right. eauto.
Qed.

Lemma ft_get_some_inrange ss s fid e : ft_get (nth s ss []) fid = Some e -> (s < length ss)%nat.
Proof.
  intros H. destruct (Nat.lt_ge_cases s (length ss)); auto.
  rewrite nth_overflow in H by auto. discriminate.
Qed.

(* a handle in a table is counted *)
Lemma hc_tab_ge t fid e x : ft_get t fid = Some e -> cnt (hids (f_h e)) x <= hc_tab t x.
Proof.
  intros H. pose proof (hc_tab_del t fid e x H). pose proof (cnt_nonneg (flat_map hids (handles_of (ft_del t fid))) x).
  unfold hc_tab in *. lia.
Qed.

Lemma hc_sess_ge ss s x : (s < length ss)%nat -> hc_tab (nth s ss []) x <= hc_sess ss x.
Proof.
  unfold hc_sess, all_handles, hc_tab. revert s.
  induction ss as [|t ss IH]; intros [|s] Hs; cbn [length] in Hs; try lia; cbn [nth flat_map].
  - rewrite flat_map_app, cnt_app. pose proof (cnt_nonneg (flat_map hids (flat_map handles_of ss)) x). lia.
  - rewrite flat_map_app, cnt_app. specialize (IH s ltac:(lia)).
    pose proof (cnt_nonneg (flat_map hids (handles_of t)) x). lia.
Qed.

(* ---------------------------------------------------------------- the invariant *)

Definition rooted (p : bstr) : Prop := exists r, p = SLASH :: r.

Record Inv (w : world) : Prop := mkInv {
  inv_len : (0 < length (wst w))%nat;
  inv_refs : refs_ok (wst w) (hcount w) [];
  inv_ord : ordered (wst w);
  inv_paths : forall h, In h (all_handles (w_sess w)) -> rooted (h_path h) }.

Lemma held_by_table w s fid e x : Inv w -> ft_get (sess_of w s) fid = Some e -> In x (hids (f_h e)) ->
  0 < n_ref (getn (wst w) x) /\ (x < length (wst w))%nat.
Proof.
  intros I G Hx.
  assert (Hs := ft_get_some_inrange _ _ _ _ G).
  assert (0 < hcount w x).
  { unfold hcount. pose proof (hc_sess_ge (w_sess w) s x Hs). pose proof (hc_tab_ge _ _ _ x G).
    apply cnt_pos_in in Hx. unfold sess_of in *.
    eapply Z.lt_le_trans; [exact Hx|]. eapply Z.le_trans; [exact H0|exact H]. }
  assert (0 < n_ref (getn (wst w) x)).
  { eapply held_live; [apply hc_sess_nonneg | apply (inv_refs w I) | auto]. }
  split; auto. eapply refs_ok_inrange; [apply (inv_len w I) | apply hc_sess_nonneg | apply (inv_refs w I) | auto].
Qed.

Lemma handle_rooted w s fid e : Inv w -> ft_get (sess_of w s) fid = Some e -> rooted (h_path (f_h e)).
Proof.
  intros I G. apply (inv_paths w I). apply (in_all_nth _ s). apply (ft_get_in _ fid). exact G.
Qed.

(* ---------------------------------------------------------------- paths stay rooted *)

Lemma path_clean_rooted r : rooted (path_clean (SLASH :: r)).
Proof. unfold path_clean. cbn. eexists. reflexivity. Qed.

Lemma join_slash_rooted r l : rooted (join_slash ((SLASH :: r) :: l)).
Proof. destruct l; cbn; eexists; reflexivity. Qed.

Lemma path_join2_rooted r x : rooted (path_join [SLASH :: r; x]).
Proof.
  destruct x as [|c x].
  - change (path_join [SLASH :: r; []]) with (path_clean (SLASH :: r)). apply path_clean_rooted.
  - change (path_join [SLASH :: r; c :: x]) with (path_clean (SLASH :: (r ++ SLASH :: c :: x))).
    apply path_clean_rooted.
Qed.

Lemma walk_name_rooted dir names p : rooted dir -> walk_name dir names = Ok p -> rooted p.
Proof.
  intros [r ->]. unfold walk_name.
  destruct (_ || _); try discriminate. intros E. inversion E. apply path_join2_rooted.
Qed.

Lemma walk_name_no_panic dir names : rooted dir -> walk_name dir names <> Panic /\ walk_name dir names <> Hang.
Proof. intros [r ->]. unfold walk_name. destruct (_ || _); split; discriminate. Qed.

Lemma create_name_rooted dir name p : rooted dir -> create_name dir name = Ok p -> rooted p.
Proof.
  intros [r ->]. unfold create_name. destruct (_ || _); try discriminate.
  intros E. inversion E. apply path_join2_rooted.
Qed.

Lemma create_name_res dir name : create_name dir name <> Panic /\ create_name dir name <> Hang.
Proof. unfold create_name. destruct (_ || _); split; discriminate. Qed.

(* ---------------------------------------------------------------- mapM over index ranges *)

Lemma in_zseq i n : In i (zseq n) -> 0 <= i < n.
Proof.
  unfold zseq. rewrite in_map_iff. intros (k & <- & Hk). apply in_seq in Hk. lia.
Qed.

Lemma zseq_length n : 0 <= n -> zlen (zseq n) = n.
Proof. intros. unfold zseq, zlen. rewrite map_length, seq_length. lia. Qed.

Lemma mapM_ok {A B} (f : A -> res B) (P : B -> Prop) l :
  (forall a, In a l -> exists b, f a = Ok b /\ P b) ->
  exists bs, mapM f l = Ok bs /\ Forall P bs /\ length bs = length l.
Proof.
  induction l as [|a l IH]; intros H.
  - exists []. cbn. auto.
  - destruct (H a (or_introl eq_refl)) as (b & E & Pb).
    destruct IH as (bs & E2 & F & L). { intros a' Ha'. apply H. right. auto. }
    exists (b :: bs). cbn. rewrite E. cbn. rewrite E2. cbn. auto.
Qed.

Lemma go_index_in {A} (l : list A) i d : 0 <= i < zlen l ->
  exists x, go_index l i d = Ok x /\ In x l.
Proof.
  intros. rewrite go_index_ok by auto. eexists. split; [reflexivity|].
  apply nth_In. unfold zlen in *. lia.
Qed.

Lemma count_dotdot_le names : (count_dotdot names <= length names)%nat.
Proof. induction names as [|a l IH]; cbn; auto. destruct (is_dotdot a); lia. Qed.

(* everything found by walking forward from a live directory is live *)
Lemma ent_walk_live s hc names : forall x, hc_nonneg hc -> refs_ok s hc [] ->
  0 < n_ref (getn s x) -> Forall (fun c => 0 < n_ref (getn s c)) (ent_walk s x names).
Proof.
  induction names as [|nm names IH]; intros x Hh H Hx; cbn; auto.
  destruct (n_children (getn s x)) as [cs|] eqn:Ec; auto.
  destruct (lookup_child cs nm) as [c|] eqn:El; auto.
  assert (0 < n_ref (getn s c)).
  { eapply child_of_live_live; eauto. unfold child_ids. rewrite Ec. eapply lookup_child_in; eauto. }
  constructor; auto.
Qed.

Lemma last_split {A} (ps : list A) d : ps <> [] ->
  firstn (length ps - 1) ps ++ [nth (length ps - 1) ps d] = ps.
Proof.
  induction ps as [|a ps IH]; [congruence|]. intros _.
  destruct ps as [|b r]; [reflexivity|].
  cbn [length]. replace (S (S (length r)) - 1)%nat with (S (length r)) by lia.
  specialize (IH ltac:(discriminate)). cbn [length] in IH.
  replace (S (length r) - 1)%nat with (length r) in IH by lia.
  change (firstn (S (length r)) (a :: b :: r)) with (a :: firstn (length r) (b :: r)).
  change (nth (S (length r)) (a :: b :: r) d) with (nth (length r) (b :: r) d).
  cbn [app]. f_equal. exact IH.
Qed.

(* ---------------------------------------------------------------- FileHandle.Walk *)

Definition walk_post (s : store) (hc : nat -> Z) (r : res (list qid * option handle * store)) : Prop :=
  match r with
  | Ok (_, Some h2, s') => refs_ok s' hc (hids h2) /\ ordered s' /\ length s' = length s /\ rooted (h_path h2)
  | Ok (_, None, s') => s' = s
  | Err _ => True
  | Panic => False
  | Hang => False
  end.

Lemma fh_walk_ok s hc h names :
  (0 < length s)%nat -> hc_nonneg hc -> ordered s -> refs_ok s hc [] ->
  (forall x, In x (hids h) -> 0 < n_ref (getn s x)) -> rooted (h_path h) ->
  walk_post s hc (fh_walk s h names).
Proof.
  intros Hl Hh Ho H Hheld Hroot. unfold fh_walk.
  destruct (walk_name_no_panic (h_path h) names Hroot) as [NP NH].
  destruct (walk_name (h_path h) names) as [newpath| | |] eqn:Ew; try congruence; [|exact I].
  assert (Hnew : rooted newpath) by (eapply walk_name_rooted; eauto).
  set (ndel := Z.of_nat (count_dotdot names)).
  set (lp := zlen (h_parents h)).
  assert (Hnd : 0 <= ndel <= zlen names) by (unfold ndel, zlen; pose proof (count_dotdot_le names); lia).
  assert (Hlp : 0 <= lp) by apply zlen_nonneg.
  destruct (ndel >? lp) eqn:Hgt; [exact I|].
  set (P := fun c : nat => 0 < n_ref (getn s c)).
  assert (Hpar : forall x, In x (h_parents h) -> P x).
  { intros x Hx. apply Hheld. unfold hids. apply in_or_app. auto. }
  (* ref *)
  assert (Href : exists ref, (if ndel >? 0 then go_index (h_parents h) (lp - ndel) 0%nat else Ok (h_ent h)) = Ok ref /\ P ref).
  { destruct (ndel >? 0) eqn:?.
    - destruct (go_index_in (h_parents h) (lp - ndel) 0%nat) as (x & E & Hx); [fold lp; lia|].
      exists x. auto.
    - exists (h_ent h). split; auto. apply Hheld. unfold hids. apply in_or_app. right. left. reflexivity. }
  destruct Href as (ref & -> & Pref). cbn [bind].
  (* back *)
  destruct (mapM_ok (fun i => go_index (h_parents h) (lp - 1 - i) 0%nat) P (zseq ndel)) as (back & -> & Fback & Lback).
  { intros i Hi. apply in_zseq in Hi.
    destruct (go_index_in (h_parents h) (lp - 1 - i) 0%nat) as (x & E & Hx); [fold lp; lia|]. exists x. auto. }
  cbn [bind].
  rewrite go_slice_ok by lia. cbn [bind].
  set (rest := firstn (Z.to_nat (zlen names - ndel)) (skipn (Z.to_nat ndel) names)).
  set (ans := back ++ ent_walk s ref rest).
  assert (Fans : Forall P ans).
  { unfold ans. apply Forall_app. split; auto. apply (ent_walk_live s hc); auto. }
  assert (Lb : zlen back = ndel).
  { unfold zlen. rewrite Lback. unfold zseq. rewrite map_length, seq_length. lia. }
  assert (Hsz : ndel <= zlen ans).
  { unfold ans, zlen in *. rewrite app_length. lia. }
  destruct (negb (is_nil names) && (zlen ans =? 0)); [exact I|].
  destruct (is_nil names || (zlen ans =? zlen names)); [|reflexivity].
  (* the new chain *)
  set (total := lp - ndel + 1 + zlen ans - ndel).
  set (i0 := lp - ndel + 1).
  destruct (mapM_ok (fun i => if i <? lp - ndel then go_index (h_parents h) i 0%nat
                              else if i >=? i0 then go_index ans (ndel + i - i0) 0%nat else Ok ref) P (zseq total))
    as (ps & -> & Fps & Lps).
  { intros i Hi. apply in_zseq in Hi.
    destruct (i <? lp - ndel) eqn:?.
    - destruct (go_index_in (h_parents h) i 0%nat) as (x & E & Hx); [fold lp; lia|]. exists x. auto.
    - destruct (i >=? i0) eqn:?.
      + destruct (go_index_in ans (ndel + i - i0) 0%nat) as (x & E & Hx); [unfold total, i0 in *; lia|].
        exists x. split; auto. rewrite Forall_forall in Fans. auto.
      + exists ref. auto. }
  cbn [bind].
  assert (Lps' : zlen ps = total).
  { unfold zlen. rewrite Lps. unfold zseq. rewrite map_length, seq_length. unfold total in *. lia. }
  assert (1 <= total) by (unfold total; lia).
  rewrite go_index_ok by lia. cbn [bind].
  rewrite go_slice_ok by lia. cbn [bind].
  cbn [walk_post h_path].
  assert (Hids : hids (mkHandle newpath (nth (Z.to_nat (zlen ps - 1)) ps 0%nat)
                        (firstn (Z.to_nat (zlen ps - 1 - 0)) (skipn (Z.to_nat 0) ps)) (h_uname h)) = ps).
  { unfold hids. cbn [h_parents h_ent skipn Z.to_nat]. rewrite Z.sub_0_r.
    assert (ps <> []) by (intros ->; cbn in Lps'; lia).
    replace (Z.to_nat (zlen ps - 1)) with (length ps - 1)%nat by (unfold zlen; lia).
    apply last_split. auto. }
  rewrite Hids. split; [|split; [|split]]; auto.
  - eapply refs_ok_ext; [|apply (incref_list_ok ps s hc [])]; auto.
    + intros x. rewrite app_nil_r. reflexivity.
    + intros x Hx. rewrite Forall_forall in Fps. apply Fps. auto.
  - apply fold_incref_ordered. auto.
  - apply fold_incref_length.
Qed.
