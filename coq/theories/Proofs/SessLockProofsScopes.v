(* C14 - bounded-exhaustive exploration of small configurations (kept in its own file: the vm_compute
   over all interleavings takes a couple of minutes and is recomputed only when the model changes). *)
From stdpp Require Import gmap.
From Coq Require Import NArith List.
From P9 Require Import Model.SessLock.
Local Open Scope N_scope.

(* ---- bounded-exhaustive support for the unproved clause: ALL interleavings (every atomic step of
   SessLock.step, every FileSys call returning at every possible moment - including the ones the harness
   cannot drive, such as an operation paused between its table lookup and its Lock) of small
   configurations end with every operation returned and a history that [lin_check] accepts ---- *)
Definition okd : outcome := OOk 3 true.
Definition okf : outcome := OOk 3 false.
Definition setup_dir : list (op * list outcome) := [(OpAttach 0 NOFID, [okd]); (OpWalk 0 1 1 true, [okd])].
Definition setup_file : list (op * list outcome) := [(OpAttach 0 NOFID, [okd]); (OpWalk 0 1 1 true, [okf])].

(* (RequireAuth, operations, how many of them are the sequential set-up) *)
Definition scenarios : list (bool * list (op * list outcome) * nat) :=
  [ (* clone of a fid, clunk of it, re-use of the fid, use of the clone's fid (pre-fix delRef: not linearizable) *)
    (false, setup_dir ++ [(OpWalk 1 2 0 true, [okd]); (OpClunk 1, [okd]); (OpWalk 0 1 1 true, [okd]); (OpStat 2, [okd])], 2%nat);
    (* Create whose OpenDir fails, clunk, re-allocation of the fid *)
    (false, setup_dir ++ [(OpCreate 1 false 0, [okd; OErr; okd]); (OpClunk 1, [okd]); (OpAttach 1 NOFID, [okd]); (OpStat 1, [okd])], 2%nat);
    (false, setup_dir ++ [(OpCreate 1 false 0, [okd; OErr; okd]); (OpRemove 1, [okd]); (OpStat 1, [okd])], 2%nat);
    (* a failing allocation racing remove and use of the new fid *)
    (false, setup_dir ++ [(OpWalk 0 3 1 true, [OErr]); (OpRemove 3, [okd]); (OpStat 3, [okd])], 2%nat);
    (false, setup_dir ++ [(OpAttach 3 NOFID, [OErr]); (OpClunk 3, [okd]); (OpWalk 3 2 0 true, [okd])], 2%nat);
    (* in-place walk racing clunk and clone *)
    (false, setup_dir ++ [(OpWalk 1 1 1 true, [okd; okd]); (OpClunk 1, [okd]); (OpWalk 1 2 0 true, [okd]); (OpWalk 0 1 1 true, [okd])], 2%nat);
    (* open/read/write/clunk on a file *)
    (false, setup_file ++ [(OpOpen 1 2, [okf]); (OpRead 1, [okf]); (OpClunk 1, [okf])], 2%nat);
    (false, setup_file ++ [(OpOpen 1 2, [okf]); (OpWrite 1, [okf]); (OpRemove 1, [OErr])], 2%nat);
    (* attach with an afid that is a bound, un-opened entry (the D8 situation), stat and clunk of it *)
    (false, setup_dir ++ [(OpAttach 2 1, [okd]); (OpStat 1, [okd]); (OpClunk 1, [okd])], 2%nat);
    (* two releases and a use *)
    (false, setup_dir ++ [(OpClunk 1, [okd]); (OpRemove 1, [okd]); (OpWStat 1, [OErr])], 2%nat);
    (* auth fid: auth, clunk of it, attach through it *)
    (true, [(OpAttach 0 NOFID, [okd]); (OpAuth 3, [okd]); (OpClunk 3, [okd]); (OpAttach 2 3, [okd])], 1%nat);
    (* partial walk and walk onto a bound fid racing its clunk *)
    (false, setup_dir ++ [(OpWalk 0 1 1 true, [okd]); (OpClunk 1, [okd]); (OpWalk 0 2 2 true, [OOk 1 true])], 2%nat) ].

Definition scenario_ok (sc : bool * list (op * list outcome) * nat) : bool :=
  fst (all_interleavings_linearizable (fst (fst sc)) (snd (fst sc)) (snd sc)).

Lemma small_scopes_linearizable : forallb scenario_ok scenarios = true.
Proof. vm_compute. reflexivity. Qed.

(* the check has teeth: with delRef as it was before fix 012a085 (unbind, then lock) the first scenario has
   an interleaving whose history no sequential order explains *)
Definition del_ref_old (f : N) (remove : bool) (k : N -> prog) : prog :=
  LoadAndDelete f (fun o =>
    match o with
    | None => k R_UNKNOWNFID
    | Some q =>
        Lock q (ReadSF q (fun s =>
          match s_ent s with
          | None => Unlock q (k R_OK)
          | Some e =>
              Fs (call (if remove then K_REMOVE else K_CLUNK) (Some q) (e_id e)) (fun fr =>
                WriteSF q (fun s => {| s_ent := None; s_file := s_file s; s_mode := s_mode s |})
                  (Unlock q (k (cls_of (fr_out fr)))))
          end))
    end).

Definition set_prog (s : state) (i : nat) (p : prog) : state :=
  match threads s !! i with
  | Some th => set_thread s i {| t_id := t_id th; t_prog := p; t_incall := false; t_script := t_script th;
                                 t_ncalls := 0; t_calls := nil; t_held := nil; t_log := nil |}
  | None => s
  end.

Definition old_delref_scenario : bool * N :=
  let ops := setup_dir ++ [(OpWalk 1 2 0 true, [okd]); (OpClunk 1, [okd]); (OpWalk 0 1 1 true, [okd]); (OpStat 2, [okd])] in
  let x0 := {| x_state := set_prog (init false ops) 3 (del_ref_old 1 false (fun c => ret c 0)); x_rets := nil; x_invs := nil |} in
  xexplore 400 false ops (fold_left (xrun_alone seq_fuel) (seq 0 2) x0 :: nil) true 0.

Lemma old_delref_not_linearizable : fst old_delref_scenario = false.
Proof. vm_compute. reflexivity. Qed.

