(* C14 - soundness of the linearizability checker [lin_check] (Model/SessLock.v):
   an answer [Some o] is a permutation of the operations' indices that respects
   real time and whose one-at-a-time execution reproduces every operation's
   observed result and FileSys calls. *)
From stdpp Require Import gmap.
From Coq Require Import NArith List Lia Permutation.
From P9 Require Import Model.SessLock.
Local Open Scope N_scope.

(* the statement's vocabulary *)
Definition rt_respected (hs : list hop) : Prop :=
  forall i j a b, (i < j)%nat -> hs !! i = Some a -> hs !! j = Some b -> ~ (h_ret b < h_inv a).

Fixpoint seq_run (reqauth : bool) (s : state) (hs : list hop) : list (option (result * list (N * N))) :=
  match hs with
  | [] => []
  | h :: r => let '(s', res) := seq_op reqauth s h in res :: seq_run reqauth s' r
  end.

Definition reproduces (reqauth : bool) (hs : list hop) : Prop :=
  seq_run reqauth (init reqauth []) hs = map (fun h => Some (h_res h, h_calls h)) hs.

Definition linearization (reqauth : bool) (h : list hop) (o : list nat) : Prop :=
  Permutation o (seq 0 (length h)) /\
  exists hs, Forall2 (fun i a => h !! i = Some a) o hs /\ rt_respected hs /\ reproduces reqauth hs.

(* ---- reflection of the boolean tests ---- *)
Lemma result_eqb_eq : forall a b, result_eqb a b = true -> a = b.
Proof.
  intros [c1 v1] [c2 v2] H. unfold result_eqb in H. cbn in H.
  apply andb_prop in H. destruct H as [H1 H2]. apply N.eqb_eq in H1, H2. subst. reflexivity.
Qed.

Lemma calls_eqb_eq : forall a b, calls_eqb a b = true -> a = b.
Proof.
  induction a as [|[x1 y1] a IH]; intros [|[x2 y2] b] H; cbn in H; try discriminate; [reflexivity|].
  apply andb_prop in H. destruct H as [H H3]. apply andb_prop in H. destruct H as [H1 H2].
  apply N.eqb_eq in H1, H2. subst. f_equal. apply IH, H3.
Qed.

Lemma matches_eq : forall h r, matches h r = true -> r = Some (h_res h, h_calls h).
Proof.
  intros h [[res cs]|] H; cbn in H; [|discriminate].
  apply andb_prop in H. destruct H as [H1 H2].
  apply result_eqb_eq in H1. apply calls_eqb_eq in H2. subst. reflexivity.
Qed.

Lemma seq_matches_reproduces : forall reqauth hs s,
  seq_matches reqauth s hs = true ->
  seq_run reqauth s hs = map (fun h => Some (h_res h, h_calls h)) hs.
Proof.
  induction hs as [|h r IH]; intros s H; cbn [seq_matches seq_run map] in *; [reflexivity|].
  destruct (seq_op reqauth s h) as [s' res]. apply andb_prop in H. destruct H as [H1 H2].
  apply matches_eq in H1. rewrite H1. f_equal. apply IH, H2.
Qed.

Lemma rt_ok_respected : forall hs, rt_ok hs = true -> rt_respected hs.
Proof.
  induction hs as [|x r IH]; intros H i j a b Hij Hi Hj.
  - rewrite lookup_nil in Hi. discriminate.
  - cbn [rt_ok] in H. apply andb_prop in H. destruct H as [H1 H2].
    destruct j as [|j]; [lia|]. cbn in Hj. destruct i as [|i].
    + cbn in Hi. injection Hi as <-.
      rewrite forallb_forall in H1. apply elem_of_list_lookup_2, elem_of_list_In in Hj.
      specialize (H1 _ Hj). apply negb_true_iff, N.ltb_ge in H1. lia.
    + cbn in Hi. eapply IH; [exact H2| |exact Hi|exact Hj]. lia.
Qed.

Lemma nodupb_NoDup : forall l, nodupb l = true -> NoDup l.
Proof.
  induction l as [|x r IH]; intro H; [constructor|]. cbn in H.
  apply andb_prop in H. destruct H as [H1 H2]. constructor; [|apply IH, H2].
  intro Hin. apply negb_true_iff in H1.
  assert (E : existsb (Nat.eqb x) r = true).
  { apply existsb_exists. exists x. split; [exact Hin | apply Nat.eqb_refl]. }
  congruence.
Qed.

Lemma is_perm_Permutation : forall o n, is_perm o n = true -> Permutation o (seq 0 n).
Proof.
  intros o n H. unfold is_perm in H.
  apply andb_prop in H. destruct H as [H H3]. apply andb_prop in H. destruct H as [H1 H2].
  apply Nat.eqb_eq in H1. apply nodupb_NoDup in H2. rewrite forallb_forall in H3.
  apply NoDup_Permutation_bis; [exact H2 | rewrite seq_length; lia |].
  intros x Hx. apply in_seq. specialize (H3 _ Hx). apply Nat.ltb_lt in H3. lia.
Qed.

Lemma pick_total : forall (h : list hop) o,
  (forall x, In x o -> (x < length h)%nat) -> Forall2 (fun i a => h !! i = Some a) o (pick h o).
Proof.
  intros h o. induction o as [|x r IH]; intro Hb; unfold pick; cbn [omap]; [constructor|].
  assert (Hx : (x < length h)%nat) by (apply Hb; left; reflexivity).
  apply lookup_lt_is_Some in Hx. destruct Hx as [a Ha]. cbn. rewrite Ha. cbn. constructor; [exact Ha|].
  apply IH. intros y Hy. apply Hb. right. exact Hy.
Qed.

Lemma valid_order_linearization : forall reqauth h o,
  valid_order reqauth h o = true -> linearization reqauth h o.
Proof.
  intros reqauth h o H. unfold valid_order in H.
  apply andb_prop in H. destruct H as [H H3]. apply andb_prop in H. destruct H as [H1 H2].
  split; [apply is_perm_Permutation, H1|].
  exists (pick h o). split; [|split].
  - apply pick_total. intros x Hx. unfold is_perm in H1.
    apply andb_prop in H1. destruct H1 as [_ Hb]. rewrite forallb_forall in Hb.
    specialize (Hb _ Hx). apply Nat.ltb_lt in Hb. exact Hb.
  - apply rt_ok_respected, H2.
  - apply seq_matches_reproduces, H3.
Qed.

Lemma lin_check_sound : forall reqauth h o,
  lin_check reqauth h = Some o -> linearization reqauth h o.
Proof.
  intros reqauth h o H. unfold lin_check in H.
  destruct (search _ _ _ _ _ _) as [o'|]; [|discriminate].
  destruct (valid_order reqauth h o') eqn:E; [|discriminate].
  injection H as <-. apply valid_order_linearization, E.
Qed.

(* ---- the checker accepts a concurrent history and rejects one (both observed on the implementation) ---- *)
Definition mkres (c v : N) : result := {| r_cls := c; r_val := v |}.

(* attach(0) returns; then stat(0) and clunk(0) overlap: stat entered Dirent.Stat first *)
Definition ex_hist : list hop :=
  [ {| h_op := OpAttach 0 NOFID; h_script := [OOk 0 true]; h_id := 0; h_inv := 0; h_ret := 1;
       h_res := mkres R_OK 0; h_calls := [(K_ATTACH, 0)] |};
    {| h_op := OpStat 0; h_script := [OOk 0 false]; h_id := 1; h_inv := 2; h_ret := 5;
       h_res := mkres R_OK 0; h_calls := [(K_STAT, 1)] |};
    {| h_op := OpClunk 0; h_script := [OOk 0 false]; h_id := 2; h_inv := 3; h_ret := 6;
       h_res := mkres R_OK 0; h_calls := [(K_CLUNK, 1)] |} ].

Lemma ex_lin_accepts : lin_check false ex_hist = Some [0; 1; 2]%nat.
Proof. vm_compute. reflexivity. Qed.

(* before fix 012a085: remove(2) overlapping an attach(2) whose fs.Attach fails returned success
   without any call - no order of the two explains that *)
Definition ex_hist_bad : list hop :=
  [ {| h_op := OpAttach 2 NOFID; h_script := [OErr]; h_id := 0; h_inv := 0; h_ret := 3;
       h_res := mkres R_FSERR 0; h_calls := [(K_ATTACH, 0)] |};
    {| h_op := OpRemove 2; h_script := []; h_id := 1; h_inv := 1; h_ret := 3;
       h_res := mkres R_OK 0; h_calls := [] |} ].

Lemma ex_lin_rejects : lin_check false ex_hist_bad = None.
Proof. vm_compute. reflexivity. Qed.

(* the property's side condition is needed: two attaches allocating fid 1 at once - the second finds the
   first one's reservation (duplicate fid), then the first one's fs.Attach fails and rolls back; no order of
   the two gives "duplicate fid" *)
Definition ex_hist_double_alloc : list hop :=
  [ {| h_op := OpAttach 1 NOFID; h_script := [OErr]; h_id := 0; h_inv := 0; h_ret := 3;
       h_res := mkres R_FSERR 0; h_calls := [(K_ATTACH, 0)] |};
    {| h_op := OpAttach 1 NOFID; h_script := [OOk 3 true]; h_id := 1; h_inv := 1; h_ret := 2;
       h_res := mkres R_DUPFID 0; h_calls := [] |} ].

Lemma double_alloc_not_linearizable : lin_check false ex_hist_double_alloc = None.
Proof. vm_compute. reflexivity. Qed.
