(* C14 / C08 - the two sequential semantics side by side.

   Model/SessLock.v's [seq_op] (an operation's lock-protocol program run alone; what C14's linearizability
   statements replay) and Model/Session.v's [sstep] (the model C08_refines is about) are different
   transcriptions of sfilesys.go: different state (fid -> pointer -> fields, vs fid -> fields with a lock bit),
   different environment format (outcome scripts vs tokens), different numbering of the FileSys' entries
   (8*op+k vs a global counter), auth fids only in the first, nil results and directory reads only in the second.

   THIS FILE DOES NOT PROVE A SIMULATION.  It defines the translation (operation, script, result class, call
   kind), the relation on states (same bound fids, same entry/file shape, same open mode, nothing locked) and on
   entry identities (a renaming learnt call by call), as EXECUTABLE checks, and proves - by [vm_compute], i.e.
   for the listed operation sequences only - that the two semantics run side by side agree after every
   operation: result class (and value where both models have one), FileSys calls (kind, and entity up to the
   renaming), table shape.  The sequences cover every operation kind both models have, success and failure
   paths.  The unbounded simulation theorem is stated in the comment at the end and is open. *)
From stdpp Require Import gmap.
From Coq Require Import NArith ZArith List.
From P9 Require Model.Session.
From P9 Require Import Model.SessLock.
Local Open Scope N_scope.

Module S := P9.Model.Session.

(* ---- translation ---- *)
Definition names_of (n : N) : list (list N) := replicate (N.to_nat n) [97].

Definition op_tr (o : op) : option S.op :=
  match o with
  | OpAuth a => Some (S.OAuth a)
  | OpAttach f a => Some (S.OAttach f a)
  | OpWalk f nf n true => Some (S.OWalk f nf (names_of n))
  | OpWalk _ _ _ false => None                  (* a non-normalised path: SessLock abstracts the names away *)
  | OpOpen f m => Some (S.OOpen f m)
  | OpCreate f bad m => Some (S.OCreate f (if bad then [46] else [97]) m)
  | OpRead f => Some (S.ORead f 0)              (* the C14 harness reads directories with an empty buffer *)
  | OpWrite f => Some (S.OWrite f)
  | OpStat f => Some (S.OStat f)
  | OpWStat f => Some (S.OWStat f)
  | OpClunk f => Some (S.OClunk f)
  | OpRemove f => Some (S.ORemove f)
  | OpStop => None
  end.

Definition tok_tr (o : outcome) : S.tok :=
  match o with OErr => S.Tok 1 false 0 | OOk n d => S.Tok 0 d n end.

Definition cls_tr (e : S.errc) : N :=
  match e with
  | S.EUnknown => R_UNKNOWNFID | S.EDup => R_DUPFID | S.EBadpath => R_NONNORM | S.ENotdir => R_NOTDIR
  | S.ENil => R_INVALID + 100 | S.EFs => R_FSERR | S.ENofile => R_NOFILE | S.ENoread => R_NOREAD
  | S.ENowrite => R_NOWRITE | S.EIsopen => R_ALREADYOPEN | S.EBadname => R_ILLEGALNAME
  | S.ECrnondir => R_CREATENONDIR | S.ENoauth => R_NOAUTH | S.EInvalid => R_INVALID
  end.

(* Session.v abstracts the byte count of Read/Write to 0 *)
Definition counts (o : op) : bool := match o with OpRead _ | OpWrite _ => false | _ => true end.

Definition res_agree (o : op) (r : result) (r' : S.result) : bool :=
  match r' with
  | S.ROk n => (r_cls r =? R_OK) && (negb (counts o) || (r_val r =? n))
  | S.RErr e => (r_cls r =? cls_tr e)
  | S.RHang => false
  end.

Definition call_tr (c : S.call) : N * option N :=
  match c with
  | S.CAttach => (K_ATTACH, None)
  | S.CWalk e _ => (K_WALK, Some e) | S.COpenDir e => (K_OPENDIR, Some e) | S.COpen e _ => (K_OPEN, Some e)
  | S.CCreate e => (K_CREATE, Some e) | S.CRead e => (K_READ, Some e) | S.CWrite e => (K_WRITE, Some e)
  | S.CNext e => (0, Some e) | S.CStat e => (K_STAT, Some e) | S.CWStat e => (K_WSTAT, Some e)
  | S.CClunk e => (K_CLUNK, Some e) | S.CRemove e => (K_REMOVE, Some e)
  end.

(* calls agree position by position: same kind, and the entities are related by the renaming [m] (SessLock
   object id -> Session entry id), which is extended when an object is met for the first time *)
Fixpoint calls_agree (m : gmap N N) (cs : list (N * N)) (cs' : list S.call) : option (gmap N N) :=
  match cs, cs' with
  | [], [] => Some m
  | (k, x) :: cs, c' :: cs' =>
      let '(k', e) := call_tr c' in
      if negb (k =? k') then None else
      match e with
      | None => calls_agree m cs cs'
      | Some y =>
          match m !! x with
          | Some y0 => if y0 =? y then calls_agree m cs cs' else None
          | None => calls_agree (<[x := y]> m) cs cs'
          end
      end
  | _, _ => None
  end.

(* the shape of the fid table at fid f *)
Definition shape (s : state) (f : N) : option (bool * bool * N * N) :=
  match refs s !! f with
  | None => None
  | Some p =>
      let v := default sfid0 (heap s !! p) in
      Some (match s_ent v with Some _ => true | None => false end,
            match s_ent v with Some e => e_dir e | None => false end,
            match s_file v with None => 0 | Some fl => 1 + f_kind fl end,
            s_mode v)
  end.
Definition shape' (s : S.sess) (f : N) : option (bool * bool * N * N) :=
  match S.refs s !! f with
  | None => None
  | Some sf =>
      if S.s_locked sf then Some (false, false, 99, 99) else
      Some (match S.s_ent sf with Some _ => true | None => false end,
            match S.s_ent sf with Some e => snd e | None => false end,
            match S.s_file sf with None => 0 | Some fh => if S.f_dir fh then 2 else 1 end,
            S.s_mode sf)
  end.
Definition shape_eqb (a b : option (bool * bool * N * N)) : bool :=
  match a, b with
  | None, None => true
  | Some (a1, a2, a3, a4), Some (b1, b2, b3, b4) => Bool.eqb a1 b1 && Bool.eqb a2 b2 && (a3 =? b3) && (a4 =? b4)
  | _, _ => false
  end.
Definition FIDS : list N := [0; 1; 2; 3; 4; 5; 6; 7; NOFID].
Definition tables_agree (s : state) (s' : S.sess) : bool :=
  forallb (fun f => shape_eqb (shape s f) (shape' s' f)) FIDS &&
  (N.of_nat (size (refs s)) =? N.of_nat (size (S.refs s'))) &&
  match map_to_list (owner s) with [] => true | _ => false end.

(* run both semantics side by side over a sequence of operations (reqauth = false: Session.v has no auth fids) *)
Fixpoint agree_run (id : N) (s : state) (s' : S.sess) (m : gmap N N) (l : list (op * list outcome)) : bool :=
  match l with
  | [] => true
  | (o, sc) :: l =>
      match op_tr o with
      | None => false
      | Some o' =>
          let h := {| h_op := o; h_script := sc; h_id := id; h_inv := 0; h_ret := 0;
                      h_res := {| r_cls := 0; r_val := 0 |}; h_calls := [] |} in
          let '(s1, res) := seq_op false s h in
          let '(s1', r', cs') := S.sstep s' o' (map tok_tr sc) in
          match res with
          | None => false
          | Some (r, cs) =>
              res_agree o r r' &&
              match calls_agree m cs cs' with
              | None => false
              | Some m1 => tables_agree s1 s1' && agree_run (id + 1) s1 s1' m1 l
              end
          end
      end
  end.

Definition agree (l : list (op * list outcome)) : bool := agree_run 0 (init false []) S.sess0 ∅ l.

Definition ok := OOk 0 false.
Definition okd := OOk 0 true.

Definition link_scenarios : list (list (op * list outcome)) :=
  [ (* attach, stat, wstat, clone, walk to a file, open, read, write, clunk, remove; then everything is unknown *)
    [(OpAttach 0 NOFID, [okd]); (OpStat 0, [ok]); (OpWStat 0, [OErr]); (OpWalk 0 1 0 true, [okd]);
     (OpWalk 1 2 2 true, [OOk 2 false]); (OpOpen 2 2, [ok]); (OpRead 2, [OOk 7 false]); (OpWrite 2, [OOk 3 false]);
     (OpRead 2, [OErr]); (OpWrite 2, [OErr]); (OpOpen 2 0, [ok]); (OpClunk 2, [ok]); (OpRead 2, []);
     (OpRemove 1, [OErr]); (OpStat 1, []); (OpClunk 0, [OErr]); (OpClunk 0, []); (OpWalk 0 1 0 true, [])];
    (* failing attach rolls back; duplicate fids; NOFID; attach with an afid; auth without RequireAuth *)
    [(OpAttach 0 NOFID, [OErr]); (OpStat 0, []); (OpAttach 0 NOFID, [okd]); (OpAttach 0 NOFID, [okd]);
     (OpAttach NOFID NOFID, [okd]); (OpAttach 1 0, [okd]); (OpAttach 1 5, [okd]); (OpAuth 3, [ok]); (OpAuth NOFID, []);
     (OpWalk 0 0 0 true, []); (OpWalk 0 NOFID 0 true, [ok]); (OpWalk NOFID 1 0 true, [ok]); (OpClunk NOFID, []);
     (OpStat NOFID, [])];
    (* walks: partial, zero qids, not a directory, failing, in place (clunks the old entry, resets open state) *)
    [(OpAttach 0 NOFID, [okd]); (OpWalk 0 1 3 true, [OOk 2 false]); (OpStat 1, []); (OpWalk 0 1 3 true, [OOk 0 false]);
     (OpWalk 0 1 2 true, [OErr]); (OpWalk 0 1 1 true, [OOk 1 false]); (OpWalk 1 2 1 true, [ok]); (OpWalk 1 2 0 true, [ok]);
     (OpWalk 0 1 0 true, [okd]); (OpWalk 0 0 2 true, [OOk 2 true; OErr]); (OpStat 0, [ok]); (OpOpen 0 0, [ok]);
     (OpWalk 0 0 1 true, [OOk 5 false; ok]); (OpOpen 0 1, [ok]); (OpWalk 0 0 1 true, [ok]); (OpWalk 0 3 9 true, [OOk 9 false])];
    (* open: directory / file / failing / twice; read and write modes; directory handle *)
    [(OpAttach 0 NOFID, [okd]); (OpRead 0, []); (OpWrite 0, []); (OpOpen 0 0, [OErr]); (OpOpen 0 0, [ok]); (OpOpen 0 0, [ok]);
     (OpRead 0, []); (OpWrite 0, []); (OpWalk 0 1 1 true, [OOk 1 false]); (OpWalk 0 1 1 true, [OOk 1 false]);
     (OpWalk 0 2 0 true, [okd]); (OpWalk 2 2 1 true, [OOk 1 false; ok]); (OpOpen 2 1, [ok]); (OpRead 2, [ok]);
     (OpWrite 2, [OOk 4 false]); (OpWalk 0 3 0 true, [okd]); (OpWalk 3 3 1 true, [OOk 1 false; ok]); (OpOpen 3 0, [ok]);
     (OpWrite 3, [ok]); (OpRead 3, [OOk 2 false]); (OpOpen 3 64, [ok]); (OpClunk 3, [ok]); (OpRemove 2, [ok])];
    (* create: bad name, in a file, failing, a file, a directory, a directory that cannot be opened *)
    [(OpAttach 0 NOFID, [okd]); (OpCreate 0 true 0, []); (OpCreate 5 false 0, []); (OpCreate 0 false 1, [OErr]);
     (OpWalk 0 1 0 true, [okd]); (OpCreate 1 false 1, [ok]); (OpWrite 1, [OOk 1 false]); (OpRead 1, []); (OpCreate 1 false 0, [ok]);
     (OpWalk 0 2 0 true, [okd]); (OpCreate 2 false 0, [okd; ok]); (OpRead 2, []); (OpStat 2, [ok]);
     (OpWalk 0 3 0 true, [okd]); (OpCreate 3 false 0, [okd; OErr; ok]); (OpStat 3, []); (OpClunk 3, []);
     (OpWalk 0 3 0 true, [okd]); (OpStat 3, [ok]); (OpRemove 3, [ok]); (OpRemove 3, [])] ].

Lemma link_scenarios_agree : forallb agree link_scenarios = true.
Proof. vm_compute. reflexivity. Qed.

(* OPEN - the simulation these runs are instances of:
     forall s s' m o o' sc, op_tr o = Some o' -> related m s s' (tables agree at EVERY fid, owner s = empty, m a
       partial bijection containing the identities of the bound entries and files) ->
     let (s1, Some (r, cs)) := seq_op false s h and (s1', r', cs') := sstep s' o' (map tok_tr sc) in
     res_agree o r r' = true /\ exists m1 extending m, calls_agree m cs cs' = Some m1 /\ related m1 s1 s1'.
   Operation kinds not covered even by the runs: Stop (Session.v's do_stop vs the fuelled Range loop), Auth/Attach
   with RequireAuth() = true (no auth fids in Session.v), walks with a non-normalised path, Session.v's nil-result
   tokens (t_fail >= 2) and directory reads with a non-empty buffer (CNext) - none of which SessLock.v models. *)
