(* Lemmas about the run-time library of the function translator (Base/GoRt.v):
   the library-level facts that relate the translator's generic combinators to
   the forms the hand-written models use. *)
From Coq Require Import List NArith ZArith Bool Lia.
From P9 Require Import Base.GoRt Model.Path.
Import ListNotations.

Lemma go_str_eqb_bstr : forall a b, go_str_eqb a b = bstr_eqb a b.
Proof. induction a as [|x a IH]; destruct b as [|y b]; cbn; try reflexivity; f_equal; apply IH. Qed.

Lemma bstr_eqb_nil : forall s, bstr_eqb s [] = is_empty s.
Proof. destruct s; reflexivity. Qed.

Lemma bstr_eqb_nil_l : forall s, bstr_eqb [] s = is_empty s.
Proof. destruct s; reflexivity. Qed.

Lemma go_len_zero_is_empty : forall (s : list N), Z.eqb (go_len s) 0 = is_empty s.
Proof. destruct s; cbn; [reflexivity|]. unfold go_len. cbn [length]. destruct (Z.eqb_spec (Z.of_nat (S (length s))) 0); [lia | reflexivity]. Qed.

Lemma go_contains_sep : forall s, go_contains_any s [92%N; 47%N] = has_sep s.
Proof.
  induction s as [|c s IH]; [reflexivity|].
  change (go_contains_any (c :: s) [92%N; 47%N]) with (existsb (N.eqb c) [92%N; 47%N] || go_contains_any s [92%N; 47%N])%bool.
  change (has_sep (c :: s)) with (((N.eqb c SLASH) || (N.eqb c BSLASH)) || has_sep s)%bool.
  rewrite IH. cbn [existsb]. unfold SLASH, BSLASH. rewrite orb_false_r, (orb_comm (N.eqb c 92)). reflexivity.
Qed.

Lemma go_contains_sep' : forall s, go_contains_any s [47%N; 92%N] = has_sep s.
Proof.
  induction s as [|c s IH]; [reflexivity|].
  change (go_contains_any (c :: s) [47%N; 92%N]) with (existsb (N.eqb c) [47%N; 92%N] || go_contains_any s [47%N; 92%N])%bool.
  change (has_sep (c :: s)) with (((N.eqb c SLASH) || (N.eqb c BSLASH)) || has_sep s)%bool.
  rewrite IH. cbn [existsb]. unfold SLASH, BSLASH. rewrite orb_false_r. reflexivity.
Qed.

Lemma go_count_slash : forall s, go_count_byte s 47%N = count_slash s.
Proof.
  unfold go_count_byte, count_slash, SLASH. intros s. f_equal. f_equal.
  induction s as [|c s IH]; cbn [filter]; [reflexivity|]. rewrite (N.eqb_sym 47 c), IH. reflexivity.
Qed.

Lemma go_len_nonneg : forall A (l : list A), (0 <= go_len l)%Z.
Proof. intros. unfold go_len. lia. Qed.

Lemma go_len_app : forall A (a b : list A), go_len (a ++ b) = (go_len a + go_len b)%Z.
Proof. intros. unfold go_len. rewrite app_length. lia. Qed.

Lemma go_len_cons : forall A (x : A) l, go_len (x :: l) = (go_len l + 1)%Z.
Proof. intros. unfold go_len. cbn [length]. lia. Qed.

(* x[:len-1] of a non-empty slice is removelast; of an empty one it panics *)
Lemma go_slice_removelast : forall A (l : list A),
  go_slice l 0 (go_len l - 1) = match l with [] => None | _ => Some (removelast l) end.
Proof.
  intros A l. unfold go_slice. destruct l as [|x l]; [reflexivity|].
  rewrite go_len_cons. pose proof (go_len_nonneg A l) as Hn.
  replace (go_len l + 1 - 1)%Z with (go_len l) by lia.
  destruct (Z.leb_spec 0 0); [|lia]. destruct (Z.leb_spec 0 (go_len l)); [|lia].
  destruct (Z.leb_spec (go_len l) (go_len l + 1)); [|lia]. cbn [andb skipn Z.to_nat].
  f_equal. unfold go_len. rewrite Z.sub_0_r, Nat2Z.id.
  clear. revert x. induction l as [|y l IH]; intros x; [reflexivity|].
  change (firstn (length (y :: l)) (x :: y :: l)) with (x :: firstn (length l) (y :: l)).
  change (removelast (x :: y :: l)) with (x :: removelast (y :: l)).
  f_equal. apply IH.
Qed.

(* stores into, and prefixes of, an array used as a stack: ans = stack ++ junk *)
Lemma set_nth_app : forall A (a : list A) x b v, set_nth (a ++ x :: b) (length a) v = a ++ v :: b.
Proof. induction a as [|y a IH]; intros; cbn; [reflexivity|]. rewrite IH. reflexivity. Qed.

Lemma go_store_app : forall A (a : list A) x b v, go_store (a ++ x :: b) (go_len a) v = Some (a ++ v :: b).
Proof.
  intros. unfold go_store. rewrite go_len_app, go_len_cons.
  pose proof (go_len_nonneg A a). pose proof (go_len_nonneg A b).
  destruct (Z.leb_spec 0 (go_len a)); [|lia].
  destruct (Z.ltb_spec (go_len a) (go_len a + (go_len b + 1))); [|lia].
  cbn [andb]. unfold go_len. rewrite Nat2Z.id, set_nth_app. reflexivity.
Qed.

Lemma go_store_full : forall A (a : list A) v, go_store a (go_len a) v = None.
Proof.
  intros. unfold go_store. destruct (Z.ltb_spec (go_len a) (go_len a)); [lia|]. rewrite andb_false_r. reflexivity.
Qed.

Lemma go_slice_prefix : forall A (a b : list A), go_slice (a ++ b) 0 (go_len a) = Some a.
Proof.
  intros. unfold go_slice. rewrite go_len_app.
  pose proof (go_len_nonneg A a). pose proof (go_len_nonneg A b).
  destruct (Z.leb_spec 0 0); [|lia]. destruct (Z.leb_spec 0 (go_len a)); [|lia].
  destruct (Z.leb_spec (go_len a) (go_len a + go_len b)); [|lia].
  cbn [andb skipn Z.to_nat]. rewrite Z.sub_0_r. unfold go_len. rewrite Nat2Z.id.
  f_equal. rewrite firstn_app, Nat.sub_diag, firstn_all. cbn. apply app_nil_r.
Qed.

Lemma go_make_len : forall A (z : A) (l : list A), go_make z (go_len l) = Some (repeat z (length l)).
Proof.
  intros. unfold go_make. pose proof (go_len_nonneg A l). destruct (Z.leb_spec 0 (go_len l)); [|lia].
  unfold go_len. rewrite Nat2Z.id. reflexivity.
Qed.
