(* C09, completion clause: lemmas about Model/Flow.v *)
From Coq Require Import List Arith Bool Lia.
From P9 Require Import Model.Flow.
Import ListNotations.

(* D14: the current structure (owner loop writes requests itself) over a
   connection that buffers nothing reaches a state in which every goroutine is
   blocked while calls are pending. *)
Lemma current_unbuffered_deadlocks :
  exists sched s, run Current 0 (init 5) sched = Some s /\ stuck Current 0 s = true.
Proof.
  exists deadlock_schedule.
  eexists. split; [vm_compute; reflexivity | vm_compute; reflexivity].
Qed.
