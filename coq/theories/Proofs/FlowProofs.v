(* C09, completion clause: lemmas about Model/Flow.v *)
From Coq Require Import List Arith Bool Lia.
From P9 Require Import Model.Flow.
Import ListNotations.

(* D14: the structure before the repair (owner loop writes requests itself)
   over a connection that buffers nothing reaches a state in which every
   goroutine is blocked while calls are pending. *)
Lemma current_unbuffered_deadlocks :
  exists sched s, run Current 0 (init 5) sched = Some s /\ stuck Current 0 s = true.
Proof.
  exists deadlock_schedule.
  eexists. split; [vm_compute; reflexivity | vm_compute; reflexivity].
Qed.

(* buffering does not remove it, it only takes more calls: with [cap] frames
   buffered per direction the same wait cycle closes with 5 + 2*cap calls
   (shown for the capacities 1..3; the greedy adversary of the model finds it) *)
Lemma current_buffered_deadlocks :
  greedy_stuck Current 1 7 = true /\ greedy_stuck Current 2 9 = true /\ greedy_stuck Current 3 11 = true.
Proof. repeat split; vm_compute; reflexivity. Qed.

(* ------------------------------------------------------------ invariants *)

Definition b2n (b : bool) : nat := if b then 1 else 0.

(* calls that are somewhere between the caller's hand-off and the delivery of the reply *)
Definition inflight (s : st) : nat :=
  q s + b2n (h_writing s) + b2n (cw_writing s) + cs_buf s + b2n (sr_hold s) + h_run s + h_done s
  + b2n (sl_send s) + b2n (sw_writing s) + sc_buf s + b2n (cr_hold s).

(* every waiting caller's call is somewhere in the pipeline, and no caller is lost *)
Definition conserved (n : nat) (s : st) : Prop :=
  c_wait s = inflight s /\ c_new s + c_wait s + c_done s = n.

(* distance of all calls from completion *)
Definition potential (s : st) : nat :=
  12 * c_new s + 11 * q s + 10 * (b2n (h_writing s) + b2n (cw_writing s)) + 9 * cs_buf s
  + 8 * b2n (sr_hold s) + 7 * h_run s + 6 * h_done s + 5 * b2n (sl_send s) + 4 * b2n (sw_writing s)
  + 3 * sc_buf s + 2 * b2n (cr_hold s).

Ltac crush_step H :=
  repeat match type of H with
         | context [match ?x with _ => _ end] => destruct x eqn:?; cbn in H; try discriminate H
         end;
  try discriminate H.

Lemma step_facts : forall v cap n s e s',
  step v cap s e = Some s' ->
  (conserved n s -> conserved n s') /\ potential s' < potential s
  /\ (v = Fixed -> h_writing s = false -> h_writing s' = false).
Proof.
  intros v cap n s e s' H.
  destruct s as [cn cw cd qq hw cww csb srh hr hd sls sww scb crh].
  unfold conserved, inflight, potential.
  destruct e, v; cbn in H; crush_step H; inversion H; subst; clear H; cbn;
    repeat match goal with b : bool |- _ => destruct b end; cbn in *;
    try (exfalso; congruence);
    (split; [intros [? ?]; split; lia | split; [lia | intros; congruence]]).
Qed.

Lemma run_facts : forall v cap n sched s s',
  run v cap s sched = Some s' ->
  (conserved n s -> conserved n s')
  /\ List.length sched + potential s' <= potential s
  /\ (v = Fixed -> h_writing s = false -> h_writing s' = false).
Proof.
  intros v cap n sched. induction sched as [| e r IH]; intros s s' H; cbn in H.
  - inversion H; subst. split; [auto | split; [cbn [List.length]; lia | auto]].
  - destruct (step v cap s e) as [s1 |] eqn:E; [| discriminate].
    destruct (step_facts v cap n s e s1 E) as [Hc [Hp Hw]].
    destruct (IH s1 s' H) as [Hc' [Hp' Hw']].
    split; [auto | split; [cbn [List.length]; lia | auto]].
Qed.

Lemma init_conserved : forall n, conserved n (init n).
Proof. intros. unfold conserved, inflight. cbn. lia. Qed.

(* --------------------------------------------------------- no stuck state *)

Lemma enabled_not_stuck : forall v cap s e,
  In e all_events -> enabled v cap s e = true -> stuck v cap s = false.
Proof.
  intros v cap s e Hin He. unfold stuck.
  destruct (pending s); [| reflexivity]. cbn [andb].
  destruct (forallb (fun e0 => negb (enabled v cap s e0)) all_events) eqn:F; [| reflexivity].
  rewrite forallb_forall in F. specialize (F e Hin). rewrite He in F. discriminate.
Qed.

Ltac fire e := apply (enabled_not_stuck _ _ _ e); [cbn; tauto | cbn; reflexivity].

(* the repaired structure: whatever the connection buffers, whenever a call is
   pending some goroutine can move *)
Lemma fixed_never_stuck : forall cap n s,
  conserved n s -> h_writing s = false -> stuck Fixed cap s = false.
Proof.
  intros cap n s [Hc Hn] Hw.
  destruct s as [cn cw cd qq hw cww csb srh hr hd sls sww scb crh].
  unfold inflight in Hc. cbn in Hc, Hn, Hw. subst hw.
  destruct crh.
  { destruct cw as [| cw']; [cbn in Hc; lia |]. fire EDeliver. }
  destruct scb as [| k]. 2: { fire ECRead. }
  destruct sww. { fire ESWrite. }
  destruct sls. { fire EToWriter. }
  destruct hd as [| k]. 2: { fire ECompleted. }
  destruct hr as [| k]. 2: { fire EFinish. }
  destruct srh. { fire ESpawn. }
  destruct csb as [| k]. 2: { fire ESRead. }
  destruct cww. { fire ECWrite. }
  destruct qq as [| k]. 2: { fire EQueueToWriter. }
  destruct cn as [| k]. 2: { fire ESubmit. }
  cbn in Hc. subst cw. reflexivity.
Qed.

(* completion for the repaired structure: from n concurrent calls, over a
   connection of any buffering capacity and under every schedule,
   - no reachable state is stuck,
   - an execution has at most 12 n steps,
   - and when no goroutine can move any more, all n callers have returned. *)
Lemma fixed_complete : forall cap n sched s,
  run Fixed cap (init n) sched = Some s ->
  stuck Fixed cap s = false
  /\ List.length sched <= 12 * n
  /\ ((forall e, enabled Fixed cap s e = false) -> c_done s = n).
Proof.
  intros cap n sched s H.
  destruct (run_facts Fixed cap n sched (init n) s H) as [Hc [Hp Hw]].
  specialize (Hc (init_conserved n)). specialize (Hw eq_refl eq_refl).
  pose proof (fixed_never_stuck cap n s Hc Hw) as Hns.
  split; [exact Hns |]. split.
  - unfold potential in Hp at 2. cbn in Hp. lia.
  - intros Hdis. unfold stuck in Hns.
    assert (F : forallb (fun e => negb (enabled Fixed cap s e)) all_events = true).
    { apply forallb_forall. intros e _. rewrite Hdis. reflexivity. }
    rewrite F in Hns. rewrite andb_true_r in Hns. unfold pending in Hns.
    apply negb_false_iff in Hns. apply Nat.eqb_eq in Hns.
    destruct Hc as [_ Hn]. lia.
Qed.

(* the adversarial scheduler of the model never gets the repaired structure stuck *)
Lemma fixed_greedy_examples :
  greedy_stuck Fixed 0 5 = false /\ greedy_stuck Fixed 0 16 = false /\ greedy_stuck Fixed 2 40 = false.
Proof. repeat split; vm_compute; reflexivity. Qed.

(* ------------------------------------------- all calls reach the session *)

(* A served session may hold every call until all n have arrived (a
   rendezvous).  For the repaired structure: as long as no handler returns
   (no EFinish), the goroutines keep moving until all n calls sit in running
   handlers - whatever the schedule and the buffering.  A bound on the number
   of handlers a connection may run would falsify this. *)
Definition is_finish (e : ev) : bool := match e with EFinish => true | _ => false end.

(* nothing has left a handler yet *)
Definition quiet (s : st) : Prop :=
  h_done s = 0 /\ sl_send s = false /\ sw_writing s = false /\ sc_buf s = 0 /\ cr_hold s = false /\ c_done s = 0.

Lemma step_quiet : forall cap s e s',
  is_finish e = false -> step Fixed cap s e = Some s' -> quiet s -> quiet s'.
Proof.
  intros cap s e s' Hf H [H1 [H2 [H3 [H4 [H5 H6]]]]].
  destruct s as [cn cw cd qq hw cww csb srh hr hd sls sww scb crh].
  cbn in H1, H2, H3, H4, H5, H6. subst.
  unfold quiet.
  destruct e; try discriminate Hf; cbn in H; crush_step H; inversion H; subst; clear H; cbn; repeat split; reflexivity.
Qed.

Lemma run_quiet : forall cap sched s s',
  forallb (fun e => negb (is_finish e)) sched = true ->
  run Fixed cap s sched = Some s' -> quiet s -> quiet s'.
Proof.
  intros cap sched. induction sched as [| e r IH]; intros s s' Hnf H Hq; cbn in H.
  - inversion H; subst. exact Hq.
  - cbn in Hnf. apply andb_true_iff in Hnf. destruct Hnf as [He Hr].
    destruct (step Fixed cap s e) as [s1 |] eqn:E; [| discriminate].
    apply (IH s1 s' Hr H). apply (step_quiet cap s e s1); [apply negb_true_iff; exact He | exact E | exact Hq].
Qed.

Lemma fixed_all_arrive : forall cap n sched s,
  forallb (fun e => negb (is_finish e)) sched = true ->
  run Fixed cap (init n) sched = Some s ->
  (forall e, is_finish e = false -> enabled Fixed cap s e = false) ->
  h_run s = n.
Proof.
  intros cap n sched s Hnf H Hdis.
  destruct (run_facts Fixed cap n sched (init n) s H) as [Hc [_ Hw]].
  destruct (Hc (init_conserved n)) as [Hc1 Hc2]. specialize (Hw eq_refl eq_refl).
  assert (Hq : quiet s).
  { apply (run_quiet cap sched (init n) s Hnf H). unfold quiet. cbn. repeat split; reflexivity. }
  destruct Hq as [H1 [H2 [H3 [H4 [H5 H6]]]]].
  destruct s as [cn cw cd qq hw cww csb srh hr hd sls sww scb crh].
  unfold inflight in Hc1. cbn in *. subst.
  assert (Hsr : srh = false).
  { destruct srh; [| reflexivity]. specialize (Hdis ESpawn eq_refl). cbn in Hdis. discriminate. }
  subst srh.
  assert (Hcs : csb = 0).
  { destruct csb; [reflexivity |]. specialize (Hdis ESRead eq_refl). cbn in Hdis. discriminate. }
  subst csb.
  assert (Hcw : cww = false).
  { destruct cww; [| reflexivity]. specialize (Hdis ECWrite eq_refl). cbn in Hdis. discriminate. }
  subst cww.
  assert (Hqq : qq = 0).
  { destruct qq; [reflexivity |]. specialize (Hdis EQueueToWriter eq_refl). cbn in Hdis. discriminate. }
  subst qq.
  assert (Hcn : cn = 0).
  { destruct cn; [reflexivity |]. specialize (Hdis ESubmit eq_refl). cbn in Hdis. discriminate. }
  subst cn. cbn in *. lia.
Qed.
