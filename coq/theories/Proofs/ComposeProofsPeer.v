(* Composition proof, C05's side condition discharged: the event list the client's owner loop sees in
   a joint run (Compose.client_events) is a run of Model/Tags.v in which the peer is HONEST in the
   sense of C05_distinct - every reply carries a tag that awaits a reply on the wire - because the
   peer is the server model, which only answers frames it has received.  Hence C05_distinct (and every
   other theorem about Tags.run) holds of every joint run without assumption. *)
From stdpp Require Import nmap fin_maps gmap.
From Coq Require Import List Arith PeanoNat NArith Bool Lia.
From P9 Require Import Model.WireTypes Model.Pipeline Proofs.PipelineProofs Gen.GenReplyTypes
  Model.Tags Proofs.TagsProofsAlloc Proofs.TagsProofs
  Model.Serve Proofs.ServeProofs
  Model.Compose Proofs.ComposeProofsHist Proofs.ComposeProofsSrv Proofs.ComposeProofsCli Proofs.ComposeProofs.
Import ListNotations.
Open Scope N_scope.

Definition is_open (h : list gev) (t : N) : Prop := exists i c q, open_at h t i c q.

(* the tags awaiting a reply on the wire (Tags.awaiting) are the tags with an open request in the history *)
Definition acc_ok (acc : list N) (h : list gev) : Prop := forall t, In t acc <-> is_open h t.

Lemma frames_none outs : (forall t c mt, ~ In (Tags.OFrame t c mt) outs) ->
  flat_map (fun o => match o with Tags.OFrame t c _ => [WFrame t c] | _ => [] end) outs = [].
Proof.
  induction outs as [|o outs IH]; intros H; [reflexivity|]. cbn.
  rewrite IH by (intros t c mt Hin; apply (H t c mt); now right).
  destruct o; try reflexivity. exfalso. apply (H t c mt). now left.
Qed.

Lemma deliveries_are_dels f outs g : In g (deliveries_of f outs) -> exists c r, g = GDel c r.
Proof.
  unfold deliveries_of. intros H. apply in_flat_map in H as (o & _ & Hg).
  destruct o; try destruct Hg as [<-|[]]; try destruct Hg. eauto.
Qed.

Lemma acc_ok_req acc h c t q : acc_ok acc h -> acc_ok (t :: acc) (h ++ [GReq c t q]).
Proof.
  intros Ha t0. split.
  - intros [<-|Hin]; [exists (length h), c, q; apply open_new|].
    destruct (N.eq_dec t0 t) as [->|Hne]; [exists (length h), c, q; apply open_new|].
    apply Ha in Hin as (i & c0 & q0 & Ho). exists i, c0, q0. apply open_app; [exact Ho|apply quiet_req; exact Hne].
  - intros (i & c0 & q0 & Ho). apply open_snoc_req in Ho as [(-> & _)|[Hne Ho]]; [now left|].
    right. apply Ha. exists i, c0, q0. exact Ho.
Qed.

Lemma acc_ok_rep acc h t rm dels : acc_ok acc h -> (forall g, In g dels -> exists c r, g = GDel c r) ->
  acc_ok (List.filter (fun x => negb (x =? t)) acc) (h ++ GRep t rm :: dels).
Proof.
  intros Ha Hd.
  assert (Hnoreq : forall t0 c q, ~ In (GReq c t0 q) dels).
  { intros t0 c q Hin. destruct (Hd _ Hin) as (? & ? & ?). discriminate. }
  intros t0. rewrite filter_In. split.
  - intros [Hin Hne]. apply Ha in Hin as (i & c & q & Ho). exists i, c, q.
    apply open_app; [exact Ho|]. apply quiet_other_rep; [|exact Hd]. intros ->. rewrite N.eqb_refl in Hne. discriminate.
  - intros (i & c & q & Ho). destruct (N.eq_dec t0 t) as [->|Hne].
    + exfalso. exact (no_open_after_rep _ _ _ _ _ _ _ (Hnoreq t) Ho).
    + apply open_app_inv in Ho as [Ho _].
      * split; [apply Ha; exists i, c, q; exact Ho|]. apply negb_true_iff, N.eqb_neq. exact Hne.
      * intros c' q' [Hin|Hin]; [discriminate|exact (Hnoreq _ _ _ Hin)].
Qed.

(* ---- the client's view of a joint run is honest ---- *)
Lemma honest_run handler evs : forall J0 h0 acc J g, JInv handler J0 h0 -> H3 handler h0 -> acc_ok acc h0 ->
  jrun handler J0 evs = Some (J, g) ->
  honest_from (j_cl J0) acc (client_events handler J0 evs) /\
  fst (hrun (j_cl J0) (client_events handler J0 evs)) = j_cl J.
Proof.
  induction evs as [|ev evs IH]; intros J0 h0 acc J g I0 H0 Ha Hr; cbn [jrun client_events] in *.
  - injection Hr as <- <-. split; [exact I|reflexivity].
  - destruct (jstep handler J0 ev) as [[J1 g1]|] eqn:Hs; [|discriminate].
    destruct (jrun handler J1 evs) as [[J2 g2]|] eqn:Hr2; [|discriminate]. injection Hr as <- <-.
    destruct (jstep_inv _ _ _ _ _ _ I0 H0 Hs) as [I1 H1].
    destruct ev as [e|e|rid|].
    + (* client event *)
      pose proof Hs as Hs'. apply jstep_JC in Hs' as (Hne & sv' & sent' & Hp & HJ1).
      assert (Hcl1 : j_cl J1 = fst (hstep (j_cl J0) e)) by (rewrite HJ1; reflexivity).
      assert (Ha1 : acc_ok (awaiting_from acc (wire_step (j_cl J0) e)) (h0 ++ g1)).
      { destruct (hevent_wrote_dec e) as [->|Hnw].
        - revert Hp. unfold wire_step. cbn [hstep]. destruct (h_writer (j_cl J0)) as [w|]; cbn [fst snd put_frames flat_map app awaiting_from].
          + destruct (step R (j_sv J0) _) as [[? ?]|]; intros [= _ _ <-]; apply acc_ok_req; exact Ha.
          + intros [= _ _ <-]. rewrite app_nil_r. exact Ha.
        - rewrite (put_frames_none _ _ _ (hstep_no_frame _ _ Hnw)) in Hp. injection Hp as _ _ <-.
          unfold wire_step. rewrite (frames_none _ (hstep_no_frame _ _ Hnw)), !app_nil_r.
          destruct e; cbn [app awaiting_from]; try exact Ha. exfalso. eapply Hne; reflexivity. }
      destruct (IH _ _ _ _ _ I1 H1 Ha1 Hr2) as [Hh Hf]. cbn [app honest_from hrun].
      rewrite <- Hcl1. split.
      * split; [destruct e; try exact I; exfalso; eapply Hne; reflexivity|exact Hh].
      * destruct (hstep (j_cl J0) e) as [st1 o1] eqn:Hst. cbn [fst] in Hcl1. subst st1.
        destruct (hrun (j_cl J1) _) as [st2 o2]. exact Hf.
    + (* server event *)
      pose proof Hs as Hs'. apply jstep_JS in Hs' as (_ & _ & sv' & outs & _ & -> & HJ1).
      assert (Hcl1 : j_cl J1 = j_cl J0) by (rewrite HJ1; reflexivity).
      rewrite app_nil_r in I1, H1. cbn [app]. rewrite <- Hcl1. eapply IH; eauto.
    + (* handler return *)
      assert (Hcl1 : j_cl J1 = j_cl J0 /\ g1 = []).
      { unfold jstep in Hs. destruct (nth_error _ _); [|discriminate]. destruct (step R _ _) as [[? ?]|]; [|discriminate].
        injection Hs as <- <-. auto. }
      destruct Hcl1 as [Hcl1 ->]. rewrite app_nil_r in I1, H1. cbn [app]. rewrite <- Hcl1. eapply IH; eauto.
    + (* a reply reaches the client *)
      destruct (j_s2c J0) as [|f rest] eqn:Hs2c; [unfold jstep in Hs; rewrite Hs2c in Hs; discriminate|].
      unfold jstep in Hs. rewrite Hs2c in Hs.
      destruct (hstep (j_cl J0) (EResp (f_tag f) (mk_reply f))) as [cl' outs] eqn:Hst. injection Hs as <- <-.
      cbn [j_cl] in *.
      assert (Hopen : is_open h0 (f_tag f)).
      { destruct I0 as [_ Iv _ _]. rewrite Hs2c in Iv.
        destruct (v_s2c _ _ _ _ _ Iv f (or_introl eq_refl)) as (i & c & q & Ho & _). exists i, c, q. exact Ho. }
      assert (Ha1 : acc_ok (awaiting_from acc (wire_step (j_cl J0) (EResp (f_tag f) (mk_reply f))))
                           (h0 ++ GRep (f_tag f) (pmsg (f_pl f)) :: deliveries_of f outs)).
      { assert (Hnw : EResp (f_tag f) (mk_reply f) <> EWrote) by discriminate.
        unfold wire_step. rewrite (frames_none _ (hstep_no_frame _ _ Hnw)). cbn [app awaiting_from].
        apply acc_ok_rep; [exact Ha|]. intros g0. apply deliveries_are_dels. }
      destruct (IH _ _ _ _ _ I1 H1 Ha1 Hr2) as [Hh Hf]. cbn [j_cl] in Hh, Hf. cbn [app honest_from hrun]. rewrite Hst. cbn [fst].
      split.
      * split; [apply Ha; exact Hopen|exact Hh].
      * destruct (hrun cl' _) as [st2 o2]. exact Hf.
Qed.

Lemma acc_ok_nil : acc_ok [] [].
Proof. intros t. split; [intros []|]. intros (i & c & q & [H _]). destruct i; discriminate H. Qed.

(* C05's premise [honest_peer], derived: in every joint run the peer of the client is honest *)
Theorem composed_peer_honest handler evs J h : jrun handler jinit evs = Some (J, h) ->
  honest_peer (client_events handler jinit evs).
Proof.
  intros Hr. exact (proj1 (honest_run handler evs jinit [] [] J h (JInv_init handler) (H3_nil handler) acc_ok_nil Hr)).
Qed.

(* the client's view is a run of Model/Tags.v ending in the joint run's client state *)
Theorem composed_client_view handler evs J h : jrun handler jinit evs = Some (J, h) ->
  fst (Tags.run (client_events handler jinit evs)) = j_cl J.
Proof.
  intros Hr. exact (proj2 (honest_run handler evs jinit [] [] J h (JInv_init handler) (H3_nil handler) acc_ok_nil Hr)).
Qed.

(* so C05_distinct holds of every joint run WITHOUT its side condition: the tags of requests awaiting a
   reply on the wire are pairwise distinct *)
Theorem composed_tags_distinct handler evs J h : jrun handler jinit evs = Some (J, h) ->
  NoDup (awaiting (wire_of (client_events handler jinit evs))).
Proof. intros Hr. apply awaiting_distinct. eapply composed_peer_honest; eauto. Qed.

(* ---- the server's view of a joint run is a run of Model/Serve.v from its initial state ---- *)
Lemma srun_app a : forall b s s1 t1 s2 t2, Serve.run R s a = Some (s1, t1) -> Serve.run R s1 b = Some (s2, t2) ->
  Serve.run R s (a ++ b) = Some (s2, t1 ++ t2).
Proof.
  induction a as [|x a IH]; intros b s s1 t1 s2 t2 Ha Hb; cbn [Serve.run app] in *.
  - injection Ha as <- <-. exact Hb.
  - destruct (step R s x) as [[sa oa]|]; [|discriminate].
    destruct (Serve.run R sa a) as [[sb ob]|] eqn:E; [|discriminate]. injection Ha as <- <-.
    rewrite (IH _ _ _ _ _ _ E Hb), app_assoc. reflexivity.
Qed.

Lemma put_frames_run outs : forall sv sent sv' sent' g, put_frames sv sent outs = (sv', sent', g) ->
  exists tr, Serve.run R sv (sent_events sv outs) = Some (sv', tr).
Proof.
  induction outs as [|o outs IH]; intros sv sent sv' sent' g H; cbn [put_frames sent_events] in *.
  - injection H as <- _ _. exists []. reflexivity.
  - destruct o; try (eapply IH; exact H).
    destruct (step R sv (ESend (nsent sv) t (KReq (qbody (qmsg c mt))))) as [[sv1 o1]|] eqn:Hs.
    + destruct (put_frames sv1 _ outs) as [[sv2 sent2] g2] eqn:Hp. injection H as <- _ _.
      destruct (IH _ _ _ _ _ Hp) as [tr Htr]. exists (o1 ++ tr). cbn [Serve.run]. rewrite Hs, Htr. reflexivity.
    + destruct (put_frames sv sent outs) as [[sv2 sent2] g2] eqn:Hp. injection H as <- _ _. eapply IH; eauto.
Qed.

Lemma server_run handler evs : forall J0 J g, jrun handler J0 evs = Some (J, g) ->
  exists tr, Serve.run R (j_sv J0) (server_events handler J0 evs) = Some (j_sv J, tr).
Proof.
  induction evs as [|ev evs IH]; intros J0 J g Hr; cbn [jrun server_events] in *.
  - injection Hr as <- _. exists []. reflexivity.
  - destruct (jstep handler J0 ev) as [[J1 g1]|] eqn:Hs; [|discriminate].
    destruct (jrun handler J1 evs) as [[J2 g2]|] eqn:Hr2; [|discriminate]. injection Hr as <- _.
    destruct (IH _ _ _ Hr2) as [tr2 Htr2].
    assert (H1 : exists tr1, Serve.run R (j_sv J0)
              match ev with
              | JC ce => sent_events (j_sv J0) (snd (hstep (j_cl J0) ce))
              | JS se => [se]
              | JFinish rid => match nth_error (j_sent J0) (N.to_nat rid) with Some m => [EFinish rid (handler m)] | None => [] end
              | JResp => []
              end = Some (j_sv J1, tr1)).
    { destruct ev as [e|e|rid|].
      - apply jstep_JC in Hs as (_ & sv' & sent' & Hp & ->). eapply put_frames_run; eauto.
      - apply jstep_JS in Hs as (_ & _ & sv' & outs & Hst & _ & ->). exists (outs ++ []). cbn [Serve.run j_sv]. rewrite Hst. reflexivity.
      - unfold jstep in Hs. destruct (nth_error _ _) as [m|]; [|discriminate].
        destruct (step R (j_sv J0) (EFinish rid (handler m))) as [[sv' o]|] eqn:Hst; [|discriminate]. injection Hs as <- _.
        exists (o ++ []). cbn [Serve.run j_sv]. rewrite Hst. reflexivity.
      - unfold jstep in Hs. destruct (j_s2c J0) as [|f rest]; [discriminate|].
        destruct (hstep _ _) as [cl' outs]. injection Hs as <- _. exists []. reflexivity. }
    destruct H1 as [tr1 Htr1]. exists (tr1 ++ tr2). eapply srun_app; eauto.
Qed.

Theorem composed_server_view handler evs J h : jrun handler jinit evs = Some (J, h) ->
  exists tr, Serve.run R Serve.init (server_events handler jinit evs) = Some (j_sv J, tr).
Proof. intros Hr. exact (server_run handler evs jinit J h Hr). Qed.

Theorem composed_client handler evs J h : jrun handler jinit evs = Some (J, h) ->
  honest_peer (client_events handler jinit evs) /\
  fst (Tags.run (client_events handler jinit evs)) = j_cl J /\
  NoDup (awaiting (wire_of (client_events handler jinit evs))).
Proof.
  intros Hr. split; [eapply composed_peer_honest; eauto|]. split; [eapply composed_client_view; eauto|eapply composed_tags_distinct; eauto].
Qed.
